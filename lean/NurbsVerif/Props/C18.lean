import NurbsVerif.Lemmas.Hull
import NurbsVerif.Lemmas.SurfLift
import NurbsVerif.Lemmas.HullRat
import NurbsVerif.Lemmas.AssembleHull
import NurbsVerif.Lemmas.AssembleEnds
import NurbsVerif.Lemmas.AssembleWF
import NurbsVerif.Lemmas.LengthSamples
import NurbsVerif.Lemmas.LengthEuclid
import NurbsVerif.Lemmas.LengthRatMain
import NurbsVerif.Lemmas.BasisPositiveHull
import NurbsVerif.Lemmas.HullFindCtrlptsRat

/-!
# C18  Shapes stay inside the hull of their control points
-/
namespace C18
open Geomdl Finset
variable {K : Type} [Field K] [LinearOrder K] [IsStrictOrderedRing K]

/-- **Convex hull, every separating direction**: for every linear functional `ℓ(x) = Σ_l A_l x_l`,
    `ℓ` of the evaluated point lies between any lower and upper bound of `ℓ` on the `p+1` control
    points active on the span (hence no hyperplane separates the point from those control points). -/
theorem curve_point_in_hull (p : ℕ) (U : ℕ → K) (P : List (List K)) (k : ℕ) (u : K) (d : ℕ)
    (h : SpanOk U k u) (hp : p ≤ k) (hk : k < P.length) (hP : NetOk d P) (A : ℕ → K) (lo hi : K)
    (hlo : ∀ r, r ≤ p → lo ≤ ∑ l ∈ range d, A l * (ptsGet P (k - p + r)).getD l 0)
    (hhi : ∀ r, r ≤ p → ∑ l ∈ range d, A l * (ptsGet P (k - p + r)).getD l 0 ≤ hi) :
    lo ≤ ∑ l ∈ range d, A l * (curvePointAt p U P k u).getD l 0 ∧
      ∑ l ∈ range d, A l * (curvePointAt p U P k u).getD l 0 ≤ hi :=
  curvePointAt_in_hull p U P k u d h hp hk hP A lo hi hlo hhi

/-- **Convex hull for surfaces**: the same statement for the tensor-product surface point and the
    `(pu+1)(pv+1)` control points active on the pair of spans. -/
theorem surface_point_in_hull (pu pv : ℕ) (Uu Uv : ℕ → K) (su sv : ℕ) (P : List (List K)) (ku kv : ℕ) (u v : K) (d : ℕ)
    (hu : SpanOk Uu ku u) (hv : SpanOk Uv kv v)
    (hpu : pu ≤ ku) (hpv : pv ≤ kv) (hku : ku < su) (hkv : kv < sv) (hlen : P.length = su * sv) (hP : NetOk d P)
    (A : ℕ → K) (lo hi : K)
    (hlo : ∀ a b, a ≤ pu → b ≤ pv → lo ≤ ∑ l ∈ range d, A l * (ptsGet P (kv - pv + b + sv * (ku - pu + a))).getD l 0)
    (hhi : ∀ a b, a ≤ pu → b ≤ pv → ∑ l ∈ range d, A l * (ptsGet P (kv - pv + b + sv * (ku - pu + a))).getD l 0 ≤ hi) :
    lo ≤ ∑ l ∈ range d, A l * (surfacePointAt pu pv Uu Uv sv P ku kv u v).getD l 0 ∧
      ∑ l ∈ range d, A l * (surfacePointAt pu pv Uu Uv sv P ku kv u v).getD l 0 ≤ hi :=
  surfacePointAt_in_hull pu pv Uu Uv su sv P ku kv u v d hu hv hpu hpv hku hkv hlen hP A lo hi hlo hhi

/-- **Bounding box**: every coordinate of every evaluated point lies between the minimum and the
    maximum of that coordinate over the control net. -/
theorem curve_point_in_box (p : ℕ) (U : ℕ → K) (P : List (List K)) (k : ℕ) (u : K) (d j : ℕ)
    (h : SpanOk U k u) (hp : p ≤ k) (hk : k < P.length) (hP : NetOk d P) (lo hi : K)
    (hlo : ∀ i, i < P.length → lo ≤ (ptsGet P i).getD j 0) (hhi : ∀ i, i < P.length → (ptsGet P i).getD j 0 ≤ hi) :
    lo ≤ (curvePointAt p U P k u).getD j 0 ∧ (curvePointAt p U P k u).getD j 0 ≤ hi :=
  curvePointAt_in_box p U P k u d j h hp hk hP lo hi hlo hhi

/-- **Clamped start**: if the `p` knots `U (k-p+1) … U k` all equal `u`, the evaluated point is the
    control point `P (k-p)` (for the first span `k = p`: the curve starts at its first control point). -/
theorem clamped_start (p : ℕ) (U : ℕ → K) (P : List (List K)) (k : ℕ) (u : K) (d j : ℕ)
    (hm : Monotone U) (hlt : U k < U (k+1)) (hp : p ≤ k) (hk : k < P.length) (hP : NetOk d P)
    (hU : ∀ i, k + 1 ≤ i + p → i ≤ k → U i = u) :
    (curvePointAt p U P k u).getD j 0 = (ptsGet P (k - p)).getD j 0 :=
  curvePointAt_clamped_start p U P k u d j hm hlt hp hk hP hU

/-- **Clamped end**: if `u = U (k+1) = … = U (k+p)`, the evaluated point on span `k` is the control
    point `P k` (for the last span: the curve ends at its last control point). -/
theorem clamped_end (p : ℕ) (U : ℕ → K) (P : List (List K)) (k : ℕ) (u : K) (d j : ℕ)
    (hm : Monotone U) (hlt : U k < U (k+1)) (hp : p ≤ k) (hk : k < P.length) (hP : NetOk d P)
    (hU : ∀ i, k + 1 ≤ i → i ≤ k + p → U i = u) (hu : u = U (k+1)) :
    (curvePointAt p U P k u).getD j 0 = (ptsGet P k).getD j 0 :=
  curvePointAt_clamped_end p U P k u d j hm hlt hp hk hP hU hu

/-- rational shapes: the coefficients `N_i w_i / Σ N_j w_j` are again non-negative and sum to one,
    so the same hull statements hold for the projected point with the Cartesian control points -/
theorem rational_coefficients_convex (n : ℕ) (N w : ℕ → K) (hN : ∀ i, i < n → 0 ≤ N i) (hw : ∀ i, i < n → 0 < w i)
    (hsum : ∑ i ∈ range n, N i = 1) :
    0 < ∑ j ∈ range n, N j * w j ∧
    (∑ i ∈ range n, N i * w i / (∑ j ∈ range n, N j * w j) = 1) ∧
    ∀ i, i < n → 0 ≤ N i * w i / (∑ j ∈ range n, N j * w j) :=
  rational_coeffs n N w hN hw hsum

/-- **Volume point = convex combination**: every coordinate of the point computed by `volumePointAt`
    is the combination of the `(pu+1)(pv+1)(pw+1)` control points active on the three spans with the
    triple tensor-product coefficients `Nu_a · Nv_b · Nw_c`, which are non-negative and sum to one. -/
theorem volume_point_convex_combination (pu pv pw : ℕ) (Uu Uv Uw : ℕ → K) (su sv sw : ℕ) (P : List (List K))
    (ku kv kw : ℕ) (u v w : K) (d : ℕ)
    (hu : SpanOk Uu ku u) (hv : SpanOk Uv kv v) (hw : SpanOk Uw kw w)
    (hpu : pu ≤ ku) (hpv : pv ≤ kv) (hpw : pw ≤ kw) (hku : ku < su) (hkv : kv < sv) (hkw : kw < sw)
    (hlen : P.length = su * sv * sw) (hP : NetOk d P) :
    (∑ i ∈ range (pu+1) ×ˢ (range (pv+1) ×ˢ range (pw+1)),
        (basisFuns pu Uu ku u).getD i.1 0 * (basisFuns pv Uv kv v).getD i.2.1 0 * (basisFuns pw Uw kw w).getD i.2.2 0 = 1) ∧
    (∀ i ∈ range (pu+1) ×ˢ (range (pv+1) ×ˢ range (pw+1)),
        0 ≤ (basisFuns pu Uu ku u).getD i.1 0 * (basisFuns pv Uv kv v).getD i.2.1 0 * (basisFuns pw Uw kw w).getD i.2.2 0) ∧
    ∀ l, (volumePointAt pu pv pw Uu Uv Uw su sv P ku kv kw u v w).getD l 0
      = ∑ i ∈ range (pu+1) ×ˢ (range (pv+1) ×ˢ range (pw+1)),
          ((basisFuns pu Uu ku u).getD i.1 0 * (basisFuns pv Uv kv v).getD i.2.1 0 * (basisFuns pw Uw kw w).getD i.2.2 0) *
            (ptsGet P (kv - pv + i.2.1 + sv * (ku - pu + i.1 + su * (kw - pw + i.2.2)))).getD l 0 :=
  volumePointAt_convex pu pv pw Uu Uv Uw su sv sw P ku kv kw u v w d hu hv hw hpu hpv hpw hku hkv hkw hlen hP

/-- **Convex hull for volumes**: for every linear functional `ℓ`, `ℓ` of the volume point lies between
    any lower and upper bound of `ℓ` on the `(pu+1)(pv+1)(pw+1)` control points active on the spans. -/
theorem volume_point_in_hull (pu pv pw : ℕ) (Uu Uv Uw : ℕ → K) (su sv sw : ℕ) (P : List (List K))
    (ku kv kw : ℕ) (u v w : K) (d : ℕ)
    (hu : SpanOk Uu ku u) (hv : SpanOk Uv kv v) (hw : SpanOk Uw kw w)
    (hpu : pu ≤ ku) (hpv : pv ≤ kv) (hpw : pw ≤ kw) (hku : ku < su) (hkv : kv < sv) (hkw : kw < sw)
    (hlen : P.length = su * sv * sw) (hP : NetOk d P) (A : ℕ → K) (lo hi : K)
    (hlo : ∀ a b c, a ≤ pu → b ≤ pv → c ≤ pw →
      lo ≤ ∑ l ∈ range d, A l * (ptsGet P (kv - pv + b + sv * (ku - pu + a + su * (kw - pw + c)))).getD l 0)
    (hhi : ∀ a b c, a ≤ pu → b ≤ pv → c ≤ pw →
      ∑ l ∈ range d, A l * (ptsGet P (kv - pv + b + sv * (ku - pu + a + su * (kw - pw + c)))).getD l 0 ≤ hi) :
    lo ≤ ∑ l ∈ range d, A l * (volumePointAt pu pv pw Uu Uv Uw su sv P ku kv kw u v w).getD l 0 ∧
      ∑ l ∈ range d, A l * (volumePointAt pu pv pw Uu Uv Uw su sv P ku kv kw u v w).getD l 0 ≤ hi :=
  volumePointAt_in_hull pu pv pw Uu Uv Uw su sv sw P ku kv kw u v w d hu hv hw hpu hpv hpw hku hkv hkw hlen hP A lo hi hlo hhi

/-- **The reported bounding box bounds the net**: the model of `utilities.evaluate_bounding_box`
    (coordinatewise min / max scan) returns, in every coordinate, a lower and an upper bound of that
    coordinate over all points of the net. -/
theorem bounding_box_bounds_net (d : ℕ) (P : List (List K)) (hP : NetOk d P) (i : ℕ) (hi : i < P.length) (j : ℕ) (hj : j < d) :
    (boundingBox P).1.getD j 0 ≤ (ptsGet P i).getD j 0 ∧ (ptsGet P i).getD j 0 ≤ (boundingBox P).2.getD j 0 :=
  boundingBox_spec d P hP i hi j hj

/-- **Curves lie inside the reported bounding box of the control polygon.** -/
theorem curve_point_in_bounding_box (p : ℕ) (U : ℕ → K) (P : List (List K)) (k : ℕ) (u : K) (d j : ℕ)
    (h : SpanOk U k u) (hp : p ≤ k) (hk : k < P.length) (hP : NetOk d P) (hj : j < d) :
    (boundingBox P).1.getD j 0 ≤ (curvePointAt p U P k u).getD j 0 ∧
      (curvePointAt p U P k u).getD j 0 ≤ (boundingBox P).2.getD j 0 :=
  curvePointAt_in_boundingBox p U P k u d j h hp hk hP hj

/-- **Surfaces lie inside the reported bounding box of the control net.** -/
theorem surface_point_in_bounding_box (pu pv : ℕ) (Uu Uv : ℕ → K) (su sv : ℕ) (P : List (List K)) (ku kv : ℕ) (u v : K) (d j : ℕ)
    (hu : SpanOk Uu ku u) (hv : SpanOk Uv kv v)
    (hpu : pu ≤ ku) (hpv : pv ≤ kv) (hku : ku < su) (hkv : kv < sv) (hlen : P.length = su * sv) (hP : NetOk d P) (hj : j < d) :
    (boundingBox P).1.getD j 0 ≤ (surfacePointAt pu pv Uu Uv sv P ku kv u v).getD j 0 ∧
      (surfacePointAt pu pv Uu Uv sv P ku kv u v).getD j 0 ≤ (boundingBox P).2.getD j 0 :=
  surfacePointAt_in_boundingBox pu pv Uu Uv su sv P ku kv u v d j hu hv hpu hpv hku hkv hlen hP hj

/-- **Volumes lie inside the reported bounding box of the control net.** -/
theorem volume_point_in_bounding_box (pu pv pw : ℕ) (Uu Uv Uw : ℕ → K) (su sv sw : ℕ) (P : List (List K))
    (ku kv kw : ℕ) (u v w : K) (d j : ℕ)
    (hu : SpanOk Uu ku u) (hv : SpanOk Uv kv v) (hw : SpanOk Uw kw w)
    (hpu : pu ≤ ku) (hpv : pv ≤ kv) (hpw : pw ≤ kw) (hku : ku < su) (hkv : kv < sv) (hkw : kw < sw)
    (hlen : P.length = su * sv * sw) (hP : NetOk d P) (hj : j < d) :
    (boundingBox P).1.getD j 0 ≤ (volumePointAt pu pv pw Uu Uv Uw su sv P ku kv kw u v w).getD j 0 ∧
      (volumePointAt pu pv pw Uu Uv Uw su sv P ku kv kw u v w).getD j 0 ≤ (boundingBox P).2.getD j 0 :=
  volumePointAt_in_boundingBox pu pv pw Uu Uv Uw su sv sw P ku kv kw u v w d j hu hv hw hpu hpv hpw hku hkv hkw hlen hP hj

/-- **Rational curves** (homogeneous control points `(x·w, w)`, weights of the active points positive):
    the evaluated weight is positive (the division in `project` is by a non-zero number), and for every
    linear functional the value at the projected point lies between any bounds of the functional on
    the projected (Cartesian) active control points. -/
theorem rational_curve_point_in_hull (p : ℕ) (U : ℕ → K) (Pw : List (List K)) (k : ℕ) (u : K) (d : ℕ)
    (h : SpanOk U k u) (hp : p ≤ k) (hk : k < Pw.length) (hP : NetOk (d+1) Pw)
    (hwt : ∀ r, r ≤ p → 0 < (ptsGet Pw (k - p + r)).getD d 0) (A : ℕ → K) (lo hi : K)
    (hlo : ∀ r, r ≤ p → lo ≤ ∑ l ∈ range d, A l * (project (ptsGet Pw (k - p + r))).getD l 0)
    (hhi : ∀ r, r ≤ p → ∑ l ∈ range d, A l * (project (ptsGet Pw (k - p + r))).getD l 0 ≤ hi) :
    0 < (curvePointAt p U Pw k u).getD d 0 ∧
    lo ≤ ∑ l ∈ range d, A l * (project (curvePointAt p U Pw k u)).getD l 0 ∧
      ∑ l ∈ range d, A l * (project (curvePointAt p U Pw k u)).getD l 0 ≤ hi :=
  curvePointAt_rational_in_hull p U Pw k u d h hp hk hP hwt A lo hi hlo hhi

/-- **Rational surfaces**: the same for the projected tensor-product surface point. -/
theorem rational_surface_point_in_hull (pu pv : ℕ) (Uu Uv : ℕ → K) (su sv : ℕ) (Pw : List (List K)) (ku kv : ℕ) (u v : K) (d : ℕ)
    (hu : SpanOk Uu ku u) (hv : SpanOk Uv kv v)
    (hpu : pu ≤ ku) (hpv : pv ≤ kv) (hku : ku < su) (hkv : kv < sv) (hlen : Pw.length = su * sv) (hP : NetOk (d+1) Pw)
    (hwt : ∀ a b, a ≤ pu → b ≤ pv → 0 < (ptsGet Pw (kv - pv + b + sv * (ku - pu + a))).getD d 0)
    (A : ℕ → K) (lo hi : K)
    (hlo : ∀ a b, a ≤ pu → b ≤ pv →
      lo ≤ ∑ l ∈ range d, A l * (project (ptsGet Pw (kv - pv + b + sv * (ku - pu + a)))).getD l 0)
    (hhi : ∀ a b, a ≤ pu → b ≤ pv →
      ∑ l ∈ range d, A l * (project (ptsGet Pw (kv - pv + b + sv * (ku - pu + a)))).getD l 0 ≤ hi) :
    0 < (surfacePointAt pu pv Uu Uv sv Pw ku kv u v).getD d 0 ∧
    lo ≤ ∑ l ∈ range d, A l * (project (surfacePointAt pu pv Uu Uv sv Pw ku kv u v)).getD l 0 ∧
      ∑ l ∈ range d, A l * (project (surfacePointAt pu pv Uu Uv sv Pw ku kv u v)).getD l 0 ≤ hi :=
  surfacePointAt_rational_in_hull pu pv Uu Uv su sv Pw ku kv u v d hu hv hpu hpv hku hkv hlen hP hwt A lo hi hlo hhi

/-- **Rational volumes**: the same for the projected volume point. -/
theorem rational_volume_point_in_hull (pu pv pw : ℕ) (Uu Uv Uw : ℕ → K) (su sv sw : ℕ) (Pw : List (List K))
    (ku kv kw : ℕ) (u v w : K) (d : ℕ)
    (hu : SpanOk Uu ku u) (hv : SpanOk Uv kv v) (hw : SpanOk Uw kw w)
    (hpu : pu ≤ ku) (hpv : pv ≤ kv) (hpw : pw ≤ kw) (hku : ku < su) (hkv : kv < sv) (hkw : kw < sw)
    (hlen : Pw.length = su * sv * sw) (hP : NetOk (d+1) Pw)
    (hwt : ∀ a b c, a ≤ pu → b ≤ pv → c ≤ pw →
      0 < (ptsGet Pw (kv - pv + b + sv * (ku - pu + a + su * (kw - pw + c)))).getD d 0)
    (A : ℕ → K) (lo hi : K)
    (hlo : ∀ a b c, a ≤ pu → b ≤ pv → c ≤ pw →
      lo ≤ ∑ l ∈ range d, A l * (project (ptsGet Pw (kv - pv + b + sv * (ku - pu + a + su * (kw - pw + c))))).getD l 0)
    (hhi : ∀ a b c, a ≤ pu → b ≤ pv → c ≤ pw →
      ∑ l ∈ range d, A l * (project (ptsGet Pw (kv - pv + b + sv * (ku - pu + a + su * (kw - pw + c))))).getD l 0 ≤ hi) :
    0 < (volumePointAt pu pv pw Uu Uv Uw su sv Pw ku kv kw u v w).getD d 0 ∧
    lo ≤ ∑ l ∈ range d, A l * (project (volumePointAt pu pv pw Uu Uv Uw su sv Pw ku kv kw u v w)).getD l 0 ∧
      ∑ l ∈ range d, A l * (project (volumePointAt pu pv pw Uu Uv Uw su sv Pw ku kv kw u v w)).getD l 0 ≤ hi :=
  volumePointAt_rational_in_hull pu pv pw Uu Uv Uw su sv sw Pw ku kv kw u v w d hu hv hw hpu hpv hpw hku hkv hkw hlen hP hwt A lo hi hlo hhi

/-- **Rational curves lie inside the reported bounding box** – the box of the Cartesian control points
    `Pw.map project` (what `bbox` of a NURBS object scans), all weights positive. -/
theorem rational_curve_point_in_bounding_box (p : ℕ) (U : ℕ → K) (Pw : List (List K)) (k : ℕ) (u : K) (d j : ℕ)
    (h : SpanOk U k u) (hp : p ≤ k) (hk : k < Pw.length) (hP : NetOk (d+1) Pw)
    (hwt : ∀ i, i < Pw.length → 0 < (ptsGet Pw i).getD d 0) (hj : j < d) :
    (boundingBox (Pw.map project)).1.getD j 0 ≤ (project (curvePointAt p U Pw k u)).getD j 0 ∧
      (project (curvePointAt p U Pw k u)).getD j 0 ≤ (boundingBox (Pw.map project)).2.getD j 0 :=
  curvePointAt_rational_in_boundingBox p U Pw k u d j h hp hk hP hwt hj

/-- **Rational surfaces lie inside the reported bounding box.** -/
theorem rational_surface_point_in_bounding_box (pu pv : ℕ) (Uu Uv : ℕ → K) (su sv : ℕ) (Pw : List (List K)) (ku kv : ℕ) (u v : K) (d j : ℕ)
    (hu : SpanOk Uu ku u) (hv : SpanOk Uv kv v)
    (hpu : pu ≤ ku) (hpv : pv ≤ kv) (hku : ku < su) (hkv : kv < sv) (hlen : Pw.length = su * sv) (hP : NetOk (d+1) Pw)
    (hwt : ∀ i, i < Pw.length → 0 < (ptsGet Pw i).getD d 0) (hj : j < d) :
    (boundingBox (Pw.map project)).1.getD j 0 ≤ (project (surfacePointAt pu pv Uu Uv sv Pw ku kv u v)).getD j 0 ∧
      (project (surfacePointAt pu pv Uu Uv sv Pw ku kv u v)).getD j 0 ≤ (boundingBox (Pw.map project)).2.getD j 0 :=
  surfacePointAt_rational_in_boundingBox pu pv Uu Uv su sv Pw ku kv u v d j hu hv hpu hpv hku hkv hlen hP hwt hj

/-- **Rational volumes lie inside the reported bounding box.** -/
theorem rational_volume_point_in_bounding_box (pu pv pw : ℕ) (Uu Uv Uw : ℕ → K) (su sv sw : ℕ) (Pw : List (List K))
    (ku kv kw : ℕ) (u v w : K) (d j : ℕ)
    (hu : SpanOk Uu ku u) (hv : SpanOk Uv kv v) (hw : SpanOk Uw kw w)
    (hpu : pu ≤ ku) (hpv : pv ≤ kv) (hpw : pw ≤ kw) (hku : ku < su) (hkv : kv < sv) (hkw : kw < sw)
    (hlen : Pw.length = su * sv * sw) (hP : NetOk (d+1) Pw)
    (hwt : ∀ i, i < Pw.length → 0 < (ptsGet Pw i).getD d 0) (hj : j < d) :
    (boundingBox (Pw.map project)).1.getD j 0 ≤ (project (volumePointAt pu pv pw Uu Uv Uw su sv Pw ku kv kw u v w)).getD j 0 ∧
      (project (volumePointAt pu pv pw Uu Uv Uw su sv Pw ku kv kw u v w)).getD j 0 ≤ (boundingBox (Pw.map project)).2.getD j 0 :=
  volumePointAt_rational_in_boundingBox pu pv pw Uu Uv Uw su sv sw Pw ku kv kw u v w d j hu hv hw hpu hpv hpw hku hkv hkw hlen hP hwt hj

/-- non-vacuity (rational volume, degrees 1,1,1, sizes 2×2×2, knots 0,0,1,1 in every direction, homogeneous
    points `(x·w, y·w, w)` with weights 1, 2, 1, 3, …): the hypotheses of the bounding-box theorem hold -/
example : (boundingBox (([[0,0,1],[2,0,2],[0,1,1],[3,3,3],[0,0,1],[4,0,2],[0,2,1],[1,1,1]] : List (List ℚ)).map project)).1.getD 0 0
    ≤ (project (volumePointAt 1 1 1 (fnOf ([0,0,1,1] : List ℚ)) (fnOf ([0,0,1,1] : List ℚ)) (fnOf ([0,0,1,1] : List ℚ)) 2 2
        ([[0,0,1],[2,0,2],[0,1,1],[3,3,3],[0,0,1],[4,0,2],[0,2,1],[1,1,1]] : List (List ℚ)) 1 1 1 (1/3) (1/3) (1/3))).getD 0 0 := by
  have hs : SpanOk (fnOf ([0,0,1,1] : List ℚ)) 1 (1/3) := by
    refine ⟨?_, by simp [fnOf, List.getD], by simp [fnOf, List.getD]; norm_num, by simp [fnOf, List.getD]⟩
    apply monotone_nat_of_le_succ
    intro n
    rcases n with _|_|_|_|n <;> simp [fnOf, List.getD]
  refine (rational_volume_point_in_bounding_box 1 1 1 _ _ _ 2 2 2 _ 1 1 1 _ _ _ 2 0 hs hs hs
    (by omega) (by omega) (by omega) (by omega) (by omega) (by omega) rfl ?_ ?_ (by omega)).1
  · intro pt hpt; simp at hpt; rcases hpt with h|h|h|h|h|h|h|h <;> simp [h]
  · intro i hi
    simp only [List.length_cons, List.length_nil] at hi
    rcases i with _|_|_|_|_|_|_|_|i <;> simp [ptsGet, List.getD]
    omega

/-! ## End-to-end statements: the functions the library calls, every parameter of the closed domain

`curvePoint` / `surfacePoint` / `volumePoint` are "linear span search, then evaluation on the span
found" – exactly what `evaluate_single` runs.  Hypotheses: a well-formed object (`CurveWF`, `SurfWF`,
for volumes one `KvWF` per direction: sorted knots of the right number, at least `degree+1` control
points, last span of the domain non-empty; net of the right size, points of one dimension) and a
parameter (tuple) in the closed domain `[U_p, U_n]` – INCLUDING the right end, where the search
returns the last span and the parameter is that span's right end. -/

/-- **Curves lie inside the reported bounding box** – `evaluate_single(u)` for every `u` of the
    closed domain, every coordinate. -/
theorem curve_in_bounding_box (p d : ℕ) (Ul : List K) (P : List (List K)) (hC : CurveWF p d Ul P) (u : K)
    (h1 : fnOf Ul p ≤ u) (h2 : u ≤ fnOf Ul P.length) (j : ℕ) (hj : j < d) :
    (boundingBox P).1.getD j 0 ≤ (curvePoint p (fnOf Ul) P u).getD j 0 ∧
      (curvePoint p (fnOf Ul) P u).getD j 0 ≤ (boundingBox P).2.getD j 0 :=
  curvePoint_in_boundingBox p (fnOf Ul) P u d j hC.knotsOk hC.net h1 h2 hj

/-- **Curves lie in the convex hull of the active control points** (strong convex hull property, every
    separating direction): for every `u` of the closed domain and every linear functional `ℓ`, `ℓ` of
    the evaluated point lies between any bounds of `ℓ` on the `p+1` control points
    `P_{k-p}, …, P_k`, `k` the span the search finds. -/
theorem curve_in_hull (p d : ℕ) (Ul : List K) (P : List (List K)) (hC : CurveWF p d Ul P) (u : K)
    (h1 : fnOf Ul p ≤ u) (h2 : u ≤ fnOf Ul P.length) (A : ℕ → K) (lo hi : K)
    (hlo : ∀ r, r ≤ p → lo ≤ ∑ l ∈ range d, A l * (ptsGet P (findSpanLinear p (fnOf Ul) P.length u - p + r)).getD l 0)
    (hhi : ∀ r, r ≤ p → ∑ l ∈ range d, A l * (ptsGet P (findSpanLinear p (fnOf Ul) P.length u - p + r)).getD l 0 ≤ hi) :
    lo ≤ ∑ l ∈ range d, A l * (curvePoint p (fnOf Ul) P u).getD l 0 ∧
      ∑ l ∈ range d, A l * (curvePoint p (fnOf Ul) P u).getD l 0 ≤ hi :=
  curvePoint_in_hull p (fnOf Ul) P u d hC.knotsOk hC.net h1 h2 A lo hi hlo hhi

/-- **Rational curves lie inside the reported bounding box** (the box of the Cartesian control points),
    all weights positive, every parameter of the closed domain. -/
theorem rational_curve_in_bounding_box (p d : ℕ) (Ul : List K) (Pw : List (List K)) (hC : CurveWF p (d+1) Ul Pw)
    (hwt : ∀ i, i < Pw.length → 0 < (ptsGet Pw i).getD d 0) (u : K)
    (h1 : fnOf Ul p ≤ u) (h2 : u ≤ fnOf Ul Pw.length) (j : ℕ) (hj : j < d) :
    (boundingBox (Pw.map project)).1.getD j 0 ≤ (project (curvePoint p (fnOf Ul) Pw u)).getD j 0 ∧
      (project (curvePoint p (fnOf Ul) Pw u)).getD j 0 ≤ (boundingBox (Pw.map project)).2.getD j 0 :=
  curvePoint_rational_in_boundingBox p (fnOf Ul) Pw u d j hC.knotsOk hC.net h1 h2 hwt hj

/-- **Rational curves lie in the hull of the active Cartesian control points**; the weight of the
    evaluated point is positive (weights of the active points positive). -/
theorem rational_curve_in_hull (p d : ℕ) (Ul : List K) (Pw : List (List K)) (hC : CurveWF p (d+1) Ul Pw) (u : K)
    (h1 : fnOf Ul p ≤ u) (h2 : u ≤ fnOf Ul Pw.length)
    (hwt : ∀ r, r ≤ p → 0 < (ptsGet Pw (findSpanLinear p (fnOf Ul) Pw.length u - p + r)).getD d 0) (A : ℕ → K) (lo hi : K)
    (hlo : ∀ r, r ≤ p → lo ≤ ∑ l ∈ range d, A l *
      (project (ptsGet Pw (findSpanLinear p (fnOf Ul) Pw.length u - p + r))).getD l 0)
    (hhi : ∀ r, r ≤ p → ∑ l ∈ range d, A l *
      (project (ptsGet Pw (findSpanLinear p (fnOf Ul) Pw.length u - p + r))).getD l 0 ≤ hi) :
    0 < (curvePoint p (fnOf Ul) Pw u).getD d 0 ∧
    lo ≤ ∑ l ∈ range d, A l * (project (curvePoint p (fnOf Ul) Pw u)).getD l 0 ∧
      ∑ l ∈ range d, A l * (project (curvePoint p (fnOf Ul) Pw u)).getD l 0 ≤ hi :=
  curvePoint_rational_in_hull p (fnOf Ul) Pw u d hC.knotsOk hC.net h1 h2 hwt A lo hi hlo hhi

/-- **A clamped curve starts at its first control point**: if the knots `U_1 = … = U_p` coincide
    (`U_0` is never read; "the first `p+1` knots are equal" implies this) and the first span is
    non-empty, `evaluate_single(U_p)` is `P_0`. -/
theorem curve_starts_at_first_control_point (p d : ℕ) (Ul : List K) (P : List (List K)) (hC : CurveWF p d Ul P)
    (hfirst : fnOf Ul p < fnOf Ul (p+1)) (hcl : ∀ i, 1 ≤ i → i ≤ p → fnOf Ul i = fnOf Ul p) (j : ℕ) :
    (curvePoint p (fnOf Ul) P (fnOf Ul p)).getD j 0 = (ptsGet P 0).getD j 0 :=
  curvePoint_start p (fnOf Ul) P d j hC.mono hC.pn hC.net hfirst hcl

/-- **A clamped curve ends at its last control point**: if the knots `U_n = … = U_{n+p-1}` coincide
    (`n` control points; "the last `p+1` knots are equal" implies this), `evaluate_single(U_n)` – the
    right end of the domain, evaluated on the last span – is `P_{n-1}`. -/
theorem curve_ends_at_last_control_point (p d : ℕ) (Ul : List K) (P : List (List K)) (hC : CurveWF p d Ul P)
    (hcl : ∀ i, P.length ≤ i → i < P.length + p → fnOf Ul i = fnOf Ul P.length) (j : ℕ) :
    (curvePoint p (fnOf Ul) P (fnOf Ul P.length)).getD j 0 = (ptsGet P (P.length - 1)).getD j 0 :=
  curvePoint_end p (fnOf Ul) P d j hC.knotsOk hC.net hcl

/-- **Surfaces lie inside the reported bounding box**, every `(u, v)` of the closed domain. -/
theorem surface_in_bounding_box (d : ℕ) (S : Shape K) (hS : SurfWF d S) (u v : K)
    (hu1 : fnOf (S.kv 0) (S.deg 0) ≤ u) (hu2 : u ≤ fnOf (S.kv 0) (S.size 0))
    (hv1 : fnOf (S.kv 1) (S.deg 1) ≤ v) (hv2 : v ≤ fnOf (S.kv 1) (S.size 1)) (j : ℕ) (hj : j < d) :
    (boundingBox S.net).1.getD j 0 ≤ (surfEval S u v).getD j 0 ∧
      (surfEval S u v).getD j 0 ≤ (boundingBox S.net).2.getD j 0 :=
  surfacePoint_in_boundingBox _ _ _ _ _ _ S.net u v d j hS.dir0.knotsOk hS.dir1.knotsOk hS.netlen hS.net hu1 hu2 hv1 hv2 hj

/-- **Surfaces lie in the convex hull of the `(pu+1)(pv+1)` active control points** (spans found by
    the search), every `(u, v)` of the closed domain, every linear functional. -/
theorem surface_in_hull (d : ℕ) (S : Shape K) (hS : SurfWF d S) (u v : K)
    (hu1 : fnOf (S.kv 0) (S.deg 0) ≤ u) (hu2 : u ≤ fnOf (S.kv 0) (S.size 0))
    (hv1 : fnOf (S.kv 1) (S.deg 1) ≤ v) (hv2 : v ≤ fnOf (S.kv 1) (S.size 1)) (A : ℕ → K) (lo hi : K)
    (hlo : ∀ a b, a ≤ S.deg 0 → b ≤ S.deg 1 → lo ≤ ∑ l ∈ range d, A l *
      (ptsGet S.net (findSpanLinear (S.deg 1) (fnOf (S.kv 1)) (S.size 1) v - S.deg 1 + b
        + S.size 1 * (findSpanLinear (S.deg 0) (fnOf (S.kv 0)) (S.size 0) u - S.deg 0 + a))).getD l 0)
    (hhi : ∀ a b, a ≤ S.deg 0 → b ≤ S.deg 1 → ∑ l ∈ range d, A l *
      (ptsGet S.net (findSpanLinear (S.deg 1) (fnOf (S.kv 1)) (S.size 1) v - S.deg 1 + b
        + S.size 1 * (findSpanLinear (S.deg 0) (fnOf (S.kv 0)) (S.size 0) u - S.deg 0 + a))).getD l 0 ≤ hi) :
    lo ≤ ∑ l ∈ range d, A l * (surfEval S u v).getD l 0 ∧ ∑ l ∈ range d, A l * (surfEval S u v).getD l 0 ≤ hi :=
  surfacePoint_in_hull _ _ _ _ _ _ S.net u v d hS.dir0.knotsOk hS.dir1.knotsOk hS.netlen hS.net hu1 hu2 hv1 hv2
    A lo hi hlo hhi

/-- **Rational surfaces lie inside the reported bounding box** (all weights positive). -/
theorem rational_surface_in_bounding_box (d : ℕ) (S : Shape K) (hS : SurfWF (d+1) S)
    (hwt : ∀ i, i < S.net.length → 0 < (ptsGet S.net i).getD d 0) (u v : K)
    (hu1 : fnOf (S.kv 0) (S.deg 0) ≤ u) (hu2 : u ≤ fnOf (S.kv 0) (S.size 0))
    (hv1 : fnOf (S.kv 1) (S.deg 1) ≤ v) (hv2 : v ≤ fnOf (S.kv 1) (S.size 1)) (j : ℕ) (hj : j < d) :
    (boundingBox (S.net.map project)).1.getD j 0 ≤ (project (surfEval S u v)).getD j 0 ∧
      (project (surfEval S u v)).getD j 0 ≤ (boundingBox (S.net.map project)).2.getD j 0 :=
  surfacePoint_rational_in_boundingBox _ _ _ _ _ _ S.net u v d j hS.dir0.knotsOk hS.dir1.knotsOk hS.netlen hS.net
    hu1 hu2 hv1 hv2 hwt hj

/-- **Rational surfaces lie in the hull of the active Cartesian control points**; positive weight. -/
theorem rational_surface_in_hull (d : ℕ) (S : Shape K) (hS : SurfWF (d+1) S) (u v : K)
    (hu1 : fnOf (S.kv 0) (S.deg 0) ≤ u) (hu2 : u ≤ fnOf (S.kv 0) (S.size 0))
    (hv1 : fnOf (S.kv 1) (S.deg 1) ≤ v) (hv2 : v ≤ fnOf (S.kv 1) (S.size 1))
    (hwt : ∀ a b, a ≤ S.deg 0 → b ≤ S.deg 1 → 0 <
      (ptsGet S.net (findSpanLinear (S.deg 1) (fnOf (S.kv 1)) (S.size 1) v - S.deg 1 + b
        + S.size 1 * (findSpanLinear (S.deg 0) (fnOf (S.kv 0)) (S.size 0) u - S.deg 0 + a))).getD d 0)
    (A : ℕ → K) (lo hi : K)
    (hlo : ∀ a b, a ≤ S.deg 0 → b ≤ S.deg 1 → lo ≤ ∑ l ∈ range d, A l *
      (project (ptsGet S.net (findSpanLinear (S.deg 1) (fnOf (S.kv 1)) (S.size 1) v - S.deg 1 + b
        + S.size 1 * (findSpanLinear (S.deg 0) (fnOf (S.kv 0)) (S.size 0) u - S.deg 0 + a)))).getD l 0)
    (hhi : ∀ a b, a ≤ S.deg 0 → b ≤ S.deg 1 → ∑ l ∈ range d, A l *
      (project (ptsGet S.net (findSpanLinear (S.deg 1) (fnOf (S.kv 1)) (S.size 1) v - S.deg 1 + b
        + S.size 1 * (findSpanLinear (S.deg 0) (fnOf (S.kv 0)) (S.size 0) u - S.deg 0 + a)))).getD l 0 ≤ hi) :
    0 < (surfEval S u v).getD d 0 ∧
    lo ≤ ∑ l ∈ range d, A l * (project (surfEval S u v)).getD l 0 ∧
      ∑ l ∈ range d, A l * (project (surfEval S u v)).getD l 0 ≤ hi :=
  surfacePoint_rational_in_hull _ _ _ _ _ _ S.net u v d hS.dir0.knotsOk hS.dir1.knotsOk hS.netlen hS.net hu1 hu2 hv1 hv2
    hwt A lo hi hlo hhi

/-- **Corners of a clamped surface are the corner control points**: for knot vectors clamped in both
    directions (`ClampedOk`: `U_1 = … = U_p`, `U_n = … = U_{n+p-1}`, first span non-empty) and each of
    the four corners (`eu`, `ev` = right end of the direction or not), `evaluate_single` at the corner
    is the control point `(0 | size_u-1, 0 | size_v-1)` in the layout `v + size_v·u`. -/
theorem surface_corners (d : ℕ) (S : Shape K) (hS : SurfWF d S)
    (hcu : ClampedOk (S.deg 0) (fnOf (S.kv 0)) (S.size 0)) (hcv : ClampedOk (S.deg 1) (fnOf (S.kv 1)) (S.size 1))
    (eu ev : Bool) (j : ℕ) :
    (surfEval S (if eu then fnOf (S.kv 0) (S.size 0) else fnOf (S.kv 0) (S.deg 0))
        (if ev then fnOf (S.kv 1) (S.size 1) else fnOf (S.kv 1) (S.deg 1))).getD j 0
      = (ptsGet S.net ((if ev then S.size 1 - 1 else 0) + S.size 1 * (if eu then S.size 0 - 1 else 0))).getD j 0 :=
  surfacePoint_corner _ _ _ _ _ _ S.net d j hS.dir0.knotsOk hS.dir1.knotsOk hcu hcv hS.netlen hS.net eu ev

/-- **Volumes lie inside the reported bounding box**, every `(u, v, w)` of the closed domain
    (well-formed knot vector per direction, net of `su·sv·sw` points of dimension `d`). -/
theorem volume_in_bounding_box (pu pv pw d : ℕ) (Uu Uv Uw : List K) (su sv sw : ℕ) (P : List (List K))
    (hUu : KvWF pu Uu su) (hUv : KvWF pv Uv sv) (hUw : KvWF pw Uw sw) (hlen : P.length = su * sv * sw) (hP : NetOk d P)
    (u v w : K) (hu1 : fnOf Uu pu ≤ u) (hu2 : u ≤ fnOf Uu su) (hv1 : fnOf Uv pv ≤ v) (hv2 : v ≤ fnOf Uv sv)
    (hw1 : fnOf Uw pw ≤ w) (hw2 : w ≤ fnOf Uw sw) (j : ℕ) (hj : j < d) :
    (boundingBox P).1.getD j 0 ≤ (volumePoint pu pv pw (fnOf Uu) (fnOf Uv) (fnOf Uw) su sv sw P u v w).getD j 0 ∧
      (volumePoint pu pv pw (fnOf Uu) (fnOf Uv) (fnOf Uw) su sv sw P u v w).getD j 0 ≤ (boundingBox P).2.getD j 0 :=
  volumePoint_in_boundingBox pu pv pw _ _ _ su sv sw P u v w d j hUu.knotsOk hUv.knotsOk hUw.knotsOk hlen hP
    hu1 hu2 hv1 hv2 hw1 hw2 hj

/-- **Volumes lie in the convex hull of the `(pu+1)(pv+1)(pw+1)` active control points**. -/
theorem volume_in_hull (pu pv pw d : ℕ) (Uu Uv Uw : List K) (su sv sw : ℕ) (P : List (List K))
    (hUu : KvWF pu Uu su) (hUv : KvWF pv Uv sv) (hUw : KvWF pw Uw sw) (hlen : P.length = su * sv * sw) (hP : NetOk d P)
    (u v w : K) (hu1 : fnOf Uu pu ≤ u) (hu2 : u ≤ fnOf Uu su) (hv1 : fnOf Uv pv ≤ v) (hv2 : v ≤ fnOf Uv sv)
    (hw1 : fnOf Uw pw ≤ w) (hw2 : w ≤ fnOf Uw sw) (A : ℕ → K) (lo hi : K)
    (hlo : ∀ a b c, a ≤ pu → b ≤ pv → c ≤ pw → lo ≤ ∑ l ∈ range d, A l *
      (ptsGet P (findSpanLinear pv (fnOf Uv) sv v - pv + b + sv * (findSpanLinear pu (fnOf Uu) su u - pu + a
        + su * (findSpanLinear pw (fnOf Uw) sw w - pw + c)))).getD l 0)
    (hhi : ∀ a b c, a ≤ pu → b ≤ pv → c ≤ pw → ∑ l ∈ range d, A l *
      (ptsGet P (findSpanLinear pv (fnOf Uv) sv v - pv + b + sv * (findSpanLinear pu (fnOf Uu) su u - pu + a
        + su * (findSpanLinear pw (fnOf Uw) sw w - pw + c)))).getD l 0 ≤ hi) :
    lo ≤ ∑ l ∈ range d, A l * (volumePoint pu pv pw (fnOf Uu) (fnOf Uv) (fnOf Uw) su sv sw P u v w).getD l 0 ∧
      ∑ l ∈ range d, A l * (volumePoint pu pv pw (fnOf Uu) (fnOf Uv) (fnOf Uw) su sv sw P u v w).getD l 0 ≤ hi :=
  volumePoint_in_hull pu pv pw _ _ _ su sv sw P u v w d hUu.knotsOk hUv.knotsOk hUw.knotsOk hlen hP
    hu1 hu2 hv1 hv2 hw1 hw2 A lo hi hlo hhi

/-- **Rational volumes lie inside the reported bounding box** (all weights positive). -/
theorem rational_volume_in_bounding_box (pu pv pw d : ℕ) (Uu Uv Uw : List K) (su sv sw : ℕ) (Pw : List (List K))
    (hUu : KvWF pu Uu su) (hUv : KvWF pv Uv sv) (hUw : KvWF pw Uw sw) (hlen : Pw.length = su * sv * sw)
    (hP : NetOk (d+1) Pw) (hwt : ∀ i, i < Pw.length → 0 < (ptsGet Pw i).getD d 0)
    (u v w : K) (hu1 : fnOf Uu pu ≤ u) (hu2 : u ≤ fnOf Uu su) (hv1 : fnOf Uv pv ≤ v) (hv2 : v ≤ fnOf Uv sv)
    (hw1 : fnOf Uw pw ≤ w) (hw2 : w ≤ fnOf Uw sw) (j : ℕ) (hj : j < d) :
    (boundingBox (Pw.map project)).1.getD j 0
        ≤ (project (volumePoint pu pv pw (fnOf Uu) (fnOf Uv) (fnOf Uw) su sv sw Pw u v w)).getD j 0 ∧
      (project (volumePoint pu pv pw (fnOf Uu) (fnOf Uv) (fnOf Uw) su sv sw Pw u v w)).getD j 0
        ≤ (boundingBox (Pw.map project)).2.getD j 0 :=
  volumePoint_rational_in_boundingBox pu pv pw _ _ _ su sv sw Pw u v w d j hUu.knotsOk hUv.knotsOk hUw.knotsOk hlen hP
    hu1 hu2 hv1 hv2 hw1 hw2 hwt hj

/-- **Rational volumes lie in the hull of the active Cartesian control points**; positive weight. -/
theorem rational_volume_in_hull (pu pv pw d : ℕ) (Uu Uv Uw : List K) (su sv sw : ℕ) (Pw : List (List K))
    (hUu : KvWF pu Uu su) (hUv : KvWF pv Uv sv) (hUw : KvWF pw Uw sw) (hlen : Pw.length = su * sv * sw)
    (hP : NetOk (d+1) Pw)
    (u v w : K) (hu1 : fnOf Uu pu ≤ u) (hu2 : u ≤ fnOf Uu su) (hv1 : fnOf Uv pv ≤ v) (hv2 : v ≤ fnOf Uv sv)
    (hw1 : fnOf Uw pw ≤ w) (hw2 : w ≤ fnOf Uw sw)
    (hwt : ∀ a b c, a ≤ pu → b ≤ pv → c ≤ pw → 0 <
      (ptsGet Pw (findSpanLinear pv (fnOf Uv) sv v - pv + b + sv * (findSpanLinear pu (fnOf Uu) su u - pu + a
        + su * (findSpanLinear pw (fnOf Uw) sw w - pw + c)))).getD d 0)
    (A : ℕ → K) (lo hi : K)
    (hlo : ∀ a b c, a ≤ pu → b ≤ pv → c ≤ pw → lo ≤ ∑ l ∈ range d, A l *
      (project (ptsGet Pw (findSpanLinear pv (fnOf Uv) sv v - pv + b + sv * (findSpanLinear pu (fnOf Uu) su u - pu + a
        + su * (findSpanLinear pw (fnOf Uw) sw w - pw + c))))).getD l 0)
    (hhi : ∀ a b c, a ≤ pu → b ≤ pv → c ≤ pw → ∑ l ∈ range d, A l *
      (project (ptsGet Pw (findSpanLinear pv (fnOf Uv) sv v - pv + b + sv * (findSpanLinear pu (fnOf Uu) su u - pu + a
        + su * (findSpanLinear pw (fnOf Uw) sw w - pw + c))))).getD l 0 ≤ hi) :
    0 < (volumePoint pu pv pw (fnOf Uu) (fnOf Uv) (fnOf Uw) su sv sw Pw u v w).getD d 0 ∧
    lo ≤ ∑ l ∈ range d, A l * (project (volumePoint pu pv pw (fnOf Uu) (fnOf Uv) (fnOf Uw) su sv sw Pw u v w)).getD l 0 ∧
      ∑ l ∈ range d, A l * (project (volumePoint pu pv pw (fnOf Uu) (fnOf Uv) (fnOf Uw) su sv sw Pw u v w)).getD l 0 ≤ hi :=
  volumePoint_rational_in_hull pu pv pw _ _ _ su sv sw Pw u v w d hUu.knotsOk hUv.knotsOk hUw.knotsOk hlen hP
    hu1 hu2 hv1 hv2 hw1 hw2 hwt A lo hi hlo hhi

/-- **Corners of a clamped volume are the corner control points** (eight corners, layout
    `v + size_v·(u + size_u·w)`). -/
theorem volume_corners (pu pv pw d : ℕ) (Uu Uv Uw : List K) (su sv sw : ℕ) (P : List (List K))
    (hUu : KvWF pu Uu su) (hUv : KvWF pv Uv sv) (hUw : KvWF pw Uw sw) (hlen : P.length = su * sv * sw) (hP : NetOk d P)
    (hcu : ClampedOk pu (fnOf Uu) su) (hcv : ClampedOk pv (fnOf Uv) sv) (hcw : ClampedOk pw (fnOf Uw) sw)
    (eu ev ew : Bool) (j : ℕ) :
    (volumePoint pu pv pw (fnOf Uu) (fnOf Uv) (fnOf Uw) su sv sw P
        (if eu then fnOf Uu su else fnOf Uu pu) (if ev then fnOf Uv sv else fnOf Uv pv)
        (if ew then fnOf Uw sw else fnOf Uw pw)).getD j 0
      = (ptsGet P ((if ev then sv - 1 else 0) + sv * ((if eu then su - 1 else 0) + su * (if ew then sw - 1 else 0)))).getD j 0 :=
  volumePoint_corner pu pv pw _ _ _ su sv sw P d j hUu.knotsOk hUv.knotsOk hUw.knotsOk hcu hcv hcw hlen hP eu ev ew

/-! ### the hull statements with the output of `operations.find_ctrlpts`

`findCtrlptsCurve` / `findCtrlptsSurface` are the model functions the correspondence check of C20 runs
against `operations.find_ctrlpts`; C20 proves that they return exactly the control points with a
non-vanishing basis function (`C20.findCtrlpts_exact…`).  Here: those returned points are the ones the
hull statements are about.

The four theorems `curve_in_hull_of_find_ctrlpts` … `surface_in_hull_of_find_ctrlpts` use ONE list `P` both as the net
that is evaluated and as the list `find_ctrlpts` indexes: they are the statements for NON-RATIONAL shapes (for a
rational shape they would be statements about homogeneous points).  For rational shapes the library hands out
DIFFERENT VIEWS (audit 4, H6; an observation, not a defect of the hull property): `find_ctrlpts(NURBS.Curve, u)` reads
`curve.ctrlpts`, the CARTESIAN points `(separate Pw).1`, while `find_ctrlpts(NURBS.Surface, u, v)` reads
`surf.ctrlpts2d`, the WEIGHTED points.  `rational_curve_in_hull_of_find_ctrlpts` and
`rational_surface_in_hull_of_find_ctrlpts` state the hull property of the projected evaluated point with exactly
these outputs (the surface output projected point by point). -/

/-- **Curves lie in the convex hull of the control points `find_ctrlpts` returns** (non-rational curves): every `u`
    of the closed domain, every linear functional `ℓ`: `ℓ` of the evaluated point lies between any bounds of
    `ℓ` on the `p+1` entries of `find_ctrlpts(curve, u)`. -/
theorem curve_in_hull_of_find_ctrlpts (p d : ℕ) (Ul : List K) (P : List (List K)) (hC : CurveWF p d Ul P) (u : K)
    (h1 : fnOf Ul p ≤ u) (h2 : u ≤ fnOf Ul P.length) (A : ℕ → K) (lo hi : K)
    (hlo : ∀ r, r ≤ p → lo ≤ ∑ l ∈ range d, A l * ((findCtrlptsCurve [] p (fnOf Ul) P u).getD r []).getD l 0)
    (hhi : ∀ r, r ≤ p → ∑ l ∈ range d, A l * ((findCtrlptsCurve [] p (fnOf Ul) P u).getD r []).getD l 0 ≤ hi) :
    (findCtrlptsCurve [] p (fnOf Ul) P u).length = p + 1 ∧
    lo ≤ ∑ l ∈ range d, A l * (curvePoint p (fnOf Ul) P u).getD l 0 ∧
      ∑ l ∈ range d, A l * (curvePoint p (fnOf Ul) P u).getD l 0 ≤ hi :=
  ⟨findCtrlptsCurve_length [] p (fnOf Ul) P u,
   curvePoint_in_hull_findCtrlpts p (fnOf Ul) P u d hC.knotsOk hC.net h1 h2 A lo hi hlo hhi⟩

/-- **Strictly inside a span the point is strictly inside the hull of the returned points**: for `u`
    in `[U_p, U_n)` and not at the left end of its span, the evaluated point is the combination of the
    `p+1` control points `find_ctrlpts` returns with coefficients (the A2.2 values) that are ALL
    positive and sum to one – none of the returned points is superfluous. -/
theorem curve_point_positive_combination_of_find_ctrlpts (p d : ℕ) (Ul : List K) (P : List (List K))
    (hC : CurveWF p d Ul P) (u : K) (h1 : fnOf Ul p ≤ u) (h2 : u < fnOf Ul P.length)
    (hin : fnOf Ul (findSpanLinear p (fnOf Ul) P.length u) < u) :
    (∀ r, r ≤ p → 0 < (basisFuns p (fnOf Ul) (findSpanLinear p (fnOf Ul) P.length u) u).getD r 0) ∧
    ∑ r ∈ range (p+1), (basisFuns p (fnOf Ul) (findSpanLinear p (fnOf Ul) P.length u) u).getD r 0 = 1 ∧
      ∀ j, (curvePoint p (fnOf Ul) P u).getD j 0
        = ∑ r ∈ range (p+1), (basisFuns p (fnOf Ul) (findSpanLinear p (fnOf Ul) P.length u) u).getD r 0
            * ((findCtrlptsCurve [] p (fnOf Ul) P u).getD r []).getD j 0 :=
  curvePoint_pos_combination_findCtrlpts p (fnOf Ul) P u d hC.mono hC.pn hC.net h1 h2 hin

/-- **`find_ctrlpts` returns exactly the active control points of a curve** (inside a span): the list
    is the control polygon filtered by "Cox–de Boor function `N_{i,p}(u) ≠ 0`". -/
theorem find_ctrlpts_returns_exactly_the_active_points (p d : ℕ) (Ul : List K) (P : List (List K))
    (hC : CurveWF p d Ul P) (u : K) (h1 : fnOf Ul p ≤ u) (h2 : u < fnOf Ul P.length)
    (hin : fnOf Ul (findSpanLinear p (fnOf Ul) P.length u) < u) :
    findCtrlptsCurve [] p (fnOf Ul) P u
      = ((List.range P.length).filter (fun i => decide (Blossom.cdb (fnOf Ul) p i u ≠ 0))).map (fun i => ptsGet P i) :=
  findCtrlptsCurve_eq_filter [] p (fnOf Ul) P u hC.pn hC.mono h1 h2 hin

/-- **Surfaces lie in the convex hull of the control points `find_ctrlpts` returns** (non-rational surfaces); `P2` is the 2-D
    view `ctrlpts2d` of the net (`P2[a][b]` = control point `b + size_v·a` of the flat list). -/
theorem surface_in_hull_of_find_ctrlpts (d : ℕ) (S : Shape K) (hS : SurfWF d S) (P2 : List (List (List K)))
    (hP2 : ∀ a b, a < S.size 0 → b < S.size 1 → (P2.getD a []).getD b [] = ptsGet S.net (b + S.size 1 * a)) (u v : K)
    (hu1 : fnOf (S.kv 0) (S.deg 0) ≤ u) (hu2 : u ≤ fnOf (S.kv 0) (S.size 0))
    (hv1 : fnOf (S.kv 1) (S.deg 1) ≤ v) (hv2 : v ≤ fnOf (S.kv 1) (S.size 1)) (A : ℕ → K) (lo hi : K)
    (hlo : ∀ a b, a ≤ S.deg 0 → b ≤ S.deg 1 → lo ≤ ∑ l ∈ range d, A l *
      (((findCtrlptsSurface [] (S.deg 0) (S.deg 1) (fnOf (S.kv 0)) (fnOf (S.kv 1)) (S.size 0) (S.size 1) P2 u v).getD a []).getD b []).getD l 0)
    (hhi : ∀ a b, a ≤ S.deg 0 → b ≤ S.deg 1 → ∑ l ∈ range d, A l *
      (((findCtrlptsSurface [] (S.deg 0) (S.deg 1) (fnOf (S.kv 0)) (fnOf (S.kv 1)) (S.size 0) (S.size 1) P2 u v).getD a []).getD b []).getD l 0 ≤ hi) :
    lo ≤ ∑ l ∈ range d, A l * (surfEval S u v).getD l 0 ∧ ∑ l ∈ range d, A l * (surfEval S u v).getD l 0 ≤ hi :=
  surfacePoint_in_hull_findCtrlpts _ _ _ _ _ _ S.net P2 u v d hS.dir0.knotsOk hS.dir1.knotsOk hS.netlen hS.net hP2
    hu1 hu2 hv1 hv2 A lo hi hlo hhi

/-- **Rational curves lie in the convex hull of the control points `find_ctrlpts` returns.**  `Pw` is the stored
    homogeneous net (`d + 1` coordinates, positive weights on the active points, EVERY stored weight non-zero – `_hw0`: the
    `ctrlpts` getter divides every stored point by its weight and raises `ZeroDivisionError` on a zero weight anywhere in
    the net, while `separate` totalises; not used by the proof); `find_ctrlpts(nurbs_curve, u)` indexes
    `curve.ctrlpts = (separate Pw).1`, the Cartesian points.  Every `u` of the closed domain, every linear functional
    `ℓ`: the list has `p + 1` entries, the weight the evaluator divides by is positive, and `ℓ` of the PROJECTED
    evaluated point (what `evaluate_single` of a `NURBS.Curve` returns) lies between any bounds of `ℓ` on the returned
    points. -/
theorem rational_curve_in_hull_of_find_ctrlpts (p d : ℕ) (Ul : List K) (Pw : List (List K))
    (hC : CurveWF p (d+1) Ul Pw) (_hw0 : ∀ pt ∈ Pw, pt.getLastD 0 ≠ 0)
    (u : K) (h1 : fnOf Ul p ≤ u) (h2 : u ≤ fnOf Ul Pw.length)
    (hwt : ∀ r, r ≤ p → 0 < (ptsGet Pw (findSpanLinear p (fnOf Ul) Pw.length u - p + r)).getD d 0) (A : ℕ → K) (lo hi : K)
    (hlo : ∀ r, r ≤ p → lo ≤ ∑ l ∈ range d, A l * ((findCtrlptsCurve [] p (fnOf Ul) (separate Pw).1 u).getD r []).getD l 0)
    (hhi : ∀ r, r ≤ p → ∑ l ∈ range d, A l * ((findCtrlptsCurve [] p (fnOf Ul) (separate Pw).1 u).getD r []).getD l 0 ≤ hi) :
    (findCtrlptsCurve [] p (fnOf Ul) (separate Pw).1 u).length = p + 1 ∧
    0 < (curvePoint p (fnOf Ul) Pw u).getD d 0 ∧
    lo ≤ ∑ l ∈ range d, A l * (project (curvePoint p (fnOf Ul) Pw u)).getD l 0 ∧
      ∑ l ∈ range d, A l * (project (curvePoint p (fnOf Ul) Pw u)).getD l 0 ≤ hi :=
  ⟨findCtrlptsCurve_length [] p (fnOf Ul) _ u,
   curvePoint_rational_in_hull_findCtrlpts p (fnOf Ul) Pw u d hC.knotsOk hC.net h1 h2 hwt A lo hi hlo hhi⟩

/-- … and what `find_ctrlpts` returns for a rational curve are the projected active homogeneous points (every stored
    weight non-zero: the guard of the `ctrlpts` getter, see above). -/
theorem find_ctrlpts_rational_curve_entries (p : ℕ) (U : ℕ → K) (Pw : List (List K))
    (_hw0 : ∀ pt ∈ Pw, pt.getLastD 0 ≠ 0) (u : K) (r : ℕ) (hr : r ≤ p) :
    (findCtrlptsCurve [] p U (separate Pw).1 u).getD r []
      = project (ptsGet Pw (findSpanLinear p U Pw.length u - p + r)) :=
  findCtrlptsCurve_separate_getD p U Pw u r hr

/-- **Rational surfaces lie in the convex hull of the PROJECTED control points `find_ctrlpts` returns.**  `S` is the
    surface with its stored homogeneous net, `P2` its 2-D view `ctrlpts2d` (weighted points), which is what
    `find_ctrlpts(nurbs_surface, u, v)` indexes; the returned `(pu+1) × (pv+1)` weighted points have positive weights
    (`hwt`).  Every `(u, v)` of the closed domain, every linear functional: the weight divided by is positive and `ℓ` of
    the projected evaluated point lies between any bounds of `ℓ` on the projections of the returned points. -/
theorem rational_surface_in_hull_of_find_ctrlpts (d : ℕ) (S : Shape K) (hS : SurfWF (d+1) S) (P2 : List (List (List K)))
    (hP2 : ∀ a b, a < S.size 0 → b < S.size 1 → (P2.getD a []).getD b [] = ptsGet S.net (b + S.size 1 * a)) (u v : K)
    (hu1 : fnOf (S.kv 0) (S.deg 0) ≤ u) (hu2 : u ≤ fnOf (S.kv 0) (S.size 0))
    (hv1 : fnOf (S.kv 1) (S.deg 1) ≤ v) (hv2 : v ≤ fnOf (S.kv 1) (S.size 1))
    (hwt : ∀ a b, a ≤ S.deg 0 → b ≤ S.deg 1 → 0 <
      (((findCtrlptsSurface [] (S.deg 0) (S.deg 1) (fnOf (S.kv 0)) (fnOf (S.kv 1)) (S.size 0) (S.size 1) P2 u v).getD a []).getD b []).getD d 0)
    (A : ℕ → K) (lo hi : K)
    (hlo : ∀ a b, a ≤ S.deg 0 → b ≤ S.deg 1 → lo ≤ ∑ l ∈ range d, A l *
      (project (((findCtrlptsSurface [] (S.deg 0) (S.deg 1) (fnOf (S.kv 0)) (fnOf (S.kv 1)) (S.size 0) (S.size 1) P2 u v).getD a []).getD b [])).getD l 0)
    (hhi : ∀ a b, a ≤ S.deg 0 → b ≤ S.deg 1 → ∑ l ∈ range d, A l *
      (project (((findCtrlptsSurface [] (S.deg 0) (S.deg 1) (fnOf (S.kv 0)) (fnOf (S.kv 1)) (S.size 0) (S.size 1) P2 u v).getD a []).getD b [])).getD l 0 ≤ hi) :
    0 < (surfEval S u v).getD d 0 ∧
    lo ≤ ∑ l ∈ range d, A l * (project (surfEval S u v)).getD l 0 ∧
      ∑ l ∈ range d, A l * (project (surfEval S u v)).getD l 0 ≤ hi :=
  surfacePoint_rational_in_hull_findCtrlpts _ _ _ _ _ _ S.net P2 u v d hS.dir0.knotsOk hS.dir1.knotsOk hS.netlen hS.net hP2
    hu1 hu2 hv1 hv2 hwt A lo hi hlo hhi

/-- non-vacuity (rational curve): the quadratic with homogeneous net `(0,0,1), (2,4,2), (3/2,1/2,1/2)` (weights
    `1, 2, 1/2`) is well formed; `find_ctrlpts(c, 1/2)` – indexing the Cartesian view – returns `(0,0), (1,2), (3,1)`,
    while the stored (weighted) points are different … -/
example : CurveWF 2 (2+1) ([0,0,0,1,1,1] : List ℚ) [[0,0,1],[2,4,2],[3/2,1/2,1/2]] ∧
    findCtrlptsCurve [] 2 (fnOf ([0,0,0,1,1,1] : List ℚ)) (separate ([[0,0,1],[2,4,2],[3/2,1/2,1/2]] : List (List ℚ))).1 (1/2)
      = [[0,0],[1,2],[3,1]] :=
  ⟨{ mono := mono_of_pairwise _ (by decide +kernel), len := by simp, pn := by simp, last := by decide +kernel,
     net := by intro pt hpt; simp at hpt; rcases hpt with h | h | h <;> simp [h] }, by decide +kernel⟩

/-- … and the theorem applied with `ℓ = x`: the `x` coordinate of the projected point at `u = 1/2` lies between the
    bounds `0` and `3` of `x` on the three returned Cartesian points (it is `1`) -/
example : (0 : ℚ) ≤ ∑ l ∈ range 2, (fun l => if l = 0 then (1:ℚ) else 0) l *
      (project (curvePoint 2 (fnOf ([0,0,0,1,1,1] : List ℚ)) [[0,0,1],[2,4,2],[3/2,1/2,1/2]] (1/2))).getD l 0 ∧
    project (curvePoint 2 (fnOf ([0,0,0,1,1,1] : List ℚ)) [[0,0,1],[2,4,2],[3/2,1/2,1/2]] (1/2)) = [1, 17/11] := by
  refine ⟨(rational_curve_in_hull_of_find_ctrlpts 2 2 ([0,0,0,1,1,1] : List ℚ) [[0,0,1],[2,4,2],[3/2,1/2,1/2]]
      { mono := mono_of_pairwise _ (by decide +kernel), len := by simp, pn := by simp, last := by decide +kernel,
        net := by intro pt hpt; simp at hpt; rcases hpt with h | h | h <;> simp [h] }
      (by decide +kernel) (1/2) (by decide +kernel) (by decide +kernel) ?_
      (fun l => if l = 0 then 1 else 0) 0 3 ?_ ?_).2.2.1, by decide +kernel⟩
  · intro r hr
    obtain rfl | rfl | rfl : r = 0 ∨ r = 1 ∨ r = 2 := by omega
    all_goals decide +kernel
  · intro r hr
    obtain rfl | rfl | rfl : r = 0 ∨ r = 1 ∨ r = 2 := by omega
    all_goals (simp only [Finset.sum_range_succ, Finset.sum_range_zero]; decide +kernel)
  · intro r hr
    obtain rfl | rfl | rfl : r = 0 ∨ r = 1 ∨ r = 2 := by omega
    all_goals (simp only [Finset.sum_range_succ, Finset.sum_range_zero]; decide +kernel)

/-- a rational bilinear patch: Cartesian corners `(0,0), (0,1), (1,0), (1,1)`, weights `1, 2, 1/2, 3` (stored weighted) -/
def c18RatPatch : Shape ℚ :=
  { rat := true, degs := [1, 1], kvs := [[0,0,1,1], [0,0,1,1]], sizes := [2, 2],
    net := [[0,0,1],[0,2,2],[1/2,0,1/2],[3,3,3]] }

theorem c18RatPatch_wf : SurfWF (2+1) c18RatPatch where
  degs := rfl
  kvs := rfl
  sizes := rfl
  netlen := rfl
  net := by intro pt hpt; simp [c18RatPatch] at hpt; rcases hpt with h | h | h | h <;> simp [h]
  dir0 := ⟨mono_of_pairwise _ (by decide +kernel), rfl, by decide, by decide +kernel⟩
  dir1 := ⟨mono_of_pairwise _ (by decide +kernel), rfl, by decide, by decide +kernel⟩

/-- non-vacuity (rational surface): `find_ctrlpts(surf, 1/2, 1/3)` returns the four WEIGHTED points; their projections
    have `x ∈ {0, 1}`, and the theorem bounds the `x` coordinate of the projected surface point by `0` and `1` -/
example : (0 : ℚ) ≤ ∑ l ∈ range 2, (fun l => if l = 0 then (1:ℚ) else 0) l * (project (surfEval c18RatPatch (1/2) (1/3))).getD l 0 ∧
    ∑ l ∈ range 2, (fun l => if l = 0 then (1:ℚ) else 0) l * (project (surfEval c18RatPatch (1/2) (1/3))).getD l 0 ≤ 1 := by
  have h := rational_surface_in_hull_of_find_ctrlpts 2 c18RatPatch c18RatPatch_wf
    [[[0,0,1],[0,2,2]],[[1/2,0,1/2],[3,3,3]]] ?_ (1/2) (1/3) (by decide +kernel) (by decide +kernel) (by decide +kernel)
    (by decide +kernel) ?_ (fun l => if l = 0 then 1 else 0) 0 1 ?_ ?_
  · exact h.2
  · intro a b ha hb
    have ha' : a = 0 ∨ a = 1 := by change a < 2 at ha; omega
    have hb' : b = 0 ∨ b = 1 := by change b < 2 at hb; omega
    rcases ha' with rfl | rfl <;> rcases hb' with rfl | rfl <;> decide +kernel
  · intro a b ha hb
    have ha' : a = 0 ∨ a = 1 := by change a ≤ 1 at ha; omega
    have hb' : b = 0 ∨ b = 1 := by change b ≤ 1 at hb; omega
    rcases ha' with rfl | rfl <;> rcases hb' with rfl | rfl <;> decide +kernel
  · intro a b ha hb
    have ha' : a = 0 ∨ a = 1 := by change a ≤ 1 at ha; omega
    have hb' : b = 0 ∨ b = 1 := by change b ≤ 1 at hb; omega
    rcases ha' with rfl | rfl <;> rcases hb' with rfl | rfl <;>
      (simp only [Finset.sum_range_succ, Finset.sum_range_zero]; decide +kernel)
  · intro a b ha hb
    have ha' : a = 0 ∨ a = 1 := by change a ≤ 1 at ha; omega
    have hb' : b = 0 ∨ b = 1 := by change b ≤ 1 at hb; omega
    rcases ha' with rfl | rfl <;> rcases hb' with rfl | rfl <;>
      (simp only [Finset.sum_range_succ, Finset.sum_range_zero]; decide +kernel)

/-- non-vacuity: quadratic curve, `u = 3/4` strictly inside span 3 – `find_ctrlpts` returns the last
    three control points, their coefficients `1/8, 5/8, 1/4` are positive; at the knot `u = 1/2` the
    returned list is the same superset `P_1, P_2, P_3` but the last coefficient is `0` -/
example : let U := fnOf ([0,0,0,1/2,1,1,1] : List ℚ); let P : List (List ℚ) := [[0,0],[1,2],[2,0],[3,1]]
    (U 2 ≤ 3/4 ∧ (3/4 : ℚ) < U 4 ∧ U (findSpanLinear 2 U 4 (3/4)) < 3/4) ∧
    findCtrlptsCurve [] 2 U P (3/4) = [[1,2],[2,0],[3,1]] ∧ basisFuns 2 U 3 (3/4) = [1/8, 5/8, 1/4] ∧
    findCtrlptsCurve [] 2 U P (1/2) = [[1,2],[2,0],[3,1]] ∧ basisFuns 2 U 3 (1/2) = [1/2, 1/2, 0] := by decide +kernel

/-! ### non-vacuity of the end-to-end hypotheses -/

/-- a clamped quadratic curve with one interior knot … -/
example : CurveWF 2 2 ([0,0,0,1/2,1,1,1] : List ℚ) [[0,0],[1,2],[2,0],[3,1]] where
  mono := mono_of_pairwise _ (by decide +kernel)
  len := by simp
  pn := by simp
  last := by decide +kernel
  net := by intro pt hpt; simp at hpt; rcases hpt with h | h | h | h <;> simp [h]

/-- … is clamped at both ends in the sense of the end-point theorems … -/
example : ClampedOk 2 (fnOf ([0,0,0,1/2,1,1,1] : List ℚ)) 4 where
  start := by intro i h1 h2; obtain rfl | rfl : i = 1 ∨ i = 2 := by omega
              all_goals decide +kernel
  stop := by intro i h1 h2; obtain rfl | rfl : i = 4 ∨ i = 5 := by omega
             all_goals decide +kernel
  first := by decide +kernel

/-- … and `evaluate_single` at the right end of the domain is the last control point -/
example : curvePoint 2 (fnOf ([0,0,0,1/2,1,1,1] : List ℚ)) [[0,0],[1,2],[2,0],[3,1]] 1 = [3, 1] := by decide +kernel


/-! ## Length bounds: `operations.length_curve` between the chord and the control polygon

`polylineLength dist pts` is the model of `operations.length_curve` (left fold of
`dist pts[i] pts[i+1]` starting from `0`; `curveLength` applies it to the sampled points `curveGrid`).
The distance is `distN N a b = N (b - a)` for an ABSTRACT seminorm `N` on coordinate lists of length
`d` (`IsSeminorm d N`: non-negative, sub-additive, positively homogeneous).  The Euclidean norm over
`ℝ` – what `linalg.point_distance` computes in floating point – is an instance (`euclid_is_seminorm`, with
the ℝ versions `length_curve_ge_chord_euclid`, `length_curve_le_control_polygon_euclid` at the end); `l1norm` is an
instance over every ordered field (used for the concrete examples over `ℚ`); no square root is taken
in `K`. -/

/-- the hypothesis on the norm is satisfiable over every ordered field and in every dimension: the sum
    of the absolute values of the coordinates is a seminorm -/
theorem l1norm_is_seminorm (d : ℕ) : IsSeminorm d (l1norm : List K → K) := l1norm_isSeminorm d

/-- **A polyline is never shorter than its chord**: for every non-empty list of points (of one
    dimension) the distance from the first to the last point is at most `length_curve`'s sum of the
    distances of consecutive points. -/
theorem polyline_ge_chord {N : List K → K} {d : ℕ} (hN : IsSeminorm d N) (pts : List (List K)) (hne : pts ≠ [])
    (hP : NetOk d pts) :
    N (vsub (ptsGet pts (pts.length - 1)) (ptsGet pts 0)) ≤ polylineLength (distN N) pts :=
  Geomdl.polyline_ge_chord hN pts hne hP

/-- **`length_curve` is at least the chord between the first and the last sampled point**, for every
    non-empty list of sample parameters (`evalpts = curveGrid`).  This is the lower bound that holds for whatever
    the cached `evalpts` are – `operations.length_curve` reads `obj.evalpts`, and after `evaluate(start=, stop=)` the
    cache covers only the sub-interval `[start, stop]`: the chord is then the one between `C(start)` and `C(stop)`. -/
theorem curve_samples_ge_chord {N : List K → K} {d : ℕ} (hN : IsSeminorm d N) (p : ℕ) (Ul : List K)
    (P : List (List K)) (hC : CurveWF p d Ul P) (ks : List K) (hne : ks ≠ []) :
    N (vsub (curvePoint p (fnOf Ul) P (ks.getD (ks.length - 1) 0)) (curvePoint p (fnOf Ul) P (ks.getD 0 0)))
      ≤ curveLength (distN N) false p (fnOf Ul) P ks :=
  curveLength_ge_sample_chord hN p Ul P hC ks hne

/-- **The approximate length of a non-rational curve is never less than its end-to-end chord**:
    clamped curve (`ClampedOk`), samples at `linspace(U_p, U_n, num)` as `evaluate` takes them, at least
    two samples and a domain longer than the tolerance constant of `linspace` (otherwise `evalpts` is
    the single start point and the length is `0`); the chord is the one from the first to the last
    control point.  MODEL SCOPE: the samples are the whole domain `linspace(U_p, U_n, num)` with the current sample
    size, i.e. `obj.evalpts` as a plain `evaluate()` (or the lazy first access) fills it.  The real `length_curve` reads
    the CACHED `evalpts`: after `c.evaluate(start=.4, stop=.5)` it returns the length of that piece only, which can be
    below the end-to-end chord (quadratic `(0,0),(0,4),(3,4)`: 0.517 < 5) – for a partial cache only
    `curve_samples_ge_chord` applies. -/
theorem length_curve_ge_chord {N : List K → K} {d : ℕ} (hN : IsSeminorm d N) (p : ℕ)
    (Ul : List K) (P : List (List K)) (hC : CurveWF p d Ul P) (hcl : ClampedOk p (fnOf Ul) P.length)
    (num : ℕ) (hnum : 2 ≤ num) (tol : K) (htol : tol < |fnOf Ul p - fnOf Ul P.length|) :
    N (vsub (ptsGet P (P.length - 1)) (ptsGet P 0))
      ≤ curveLength (distN N) false p (fnOf Ul) P (linspace (fnOf Ul p) (fnOf Ul P.length) num tol) :=
  Geomdl.length_curve_ge_chord hN p Ul P hC hcl num hnum tol htol

/-- **A polyline through a subsequence of the vertices of a polygon (in order) is not longer than
    the polygon.** -/
theorem polyline_subsequence_le {N : List K → K} {d : ℕ} (hN : IsSeminorm d N) {l₁ l₂ : List (List K)}
    (h : l₁.Sublist l₂) (hP : NetOk d l₂) :
    polylineLength (distN N) l₁ ≤ polylineLength (distN N) l₂ :=
  polyline_sublist_le hN h hP

/-- **Corner cutting does not lengthen a polygon**: if every new vertex is a convex combination
    `Q_i = α_i P_i + (1 - α_i) P_{i-1}`, `0 ≤ α_i ≤ 1`, of two consecutive old vertices (vertex
    sequences as functions of the index), the first `m` edges of the new polygon are together not
    longer than the first `m` edges of the old one. -/
theorem corner_cutting_does_not_lengthen {N : List K → K} {d : ℕ} (hN : IsSeminorm d N) (Pf Qf : ℕ → List K) (α : ℕ → K)
    (hP : ∀ i, (Pf i).length = d) (hQ : ∀ i, (Qf i).length = d) (h0 : ∀ i, 0 ≤ α i) (h1 : ∀ i, α i ≤ 1)
    (hcomb : ∀ i j, (Qf i).getD j 0 = α i * (Pf i).getD j 0 + (1 - α i) * (Pf (i - 1)).getD j 0) (m : ℕ) :
    ∑ i ∈ range m, N (vsub (Qf (i + 1)) (Qf i)) ≤ ∑ i ∈ range m, N (vsub (Pf (i + 1)) (Pf i)) :=
  corner_cut_sum hN Pf Qf α hP hQ h0 h1 hcomb m

/-- the coefficients of knot insertion are convex: `knot_insertion_alpha(u, U, k, x, L)` lies in
    `[0, 1]` whenever `L + x ≤ k` and `U_k ≤ u < U_{k+1}` (sorted knots) -/
theorem insertion_alpha_in_unit_interval (U : ℕ → K) (u : K) (k x L : ℕ) (hm : Monotone U) (h1 : U k ≤ u)
    (h2 : u < U (k + 1)) (hL : L + x ≤ k) : 0 ≤ insAlpha U u k x L ∧ insAlpha U u k x L ≤ 1 :=
  insAlpha_mem U u k x L hm h1 h2 hL

/-- **Knot insertion does not lengthen the control polygon**: `helpers.knot_insertion` with `r`
    copies of `u` in the span `k` (`U_k ≤ u < U_{k+1}`, `s` the multiplicity passed, `r + s ≤ p`), any
    degree, any seminorm. -/
theorem insertion_does_not_lengthen_control_polygon {N : List K → K} {d : ℕ} (hN : IsSeminorm d N)
    (p : ℕ) (U : ℕ → K) (P : List (List K)) (u : K) (r s k : ℕ) (hP : NetOk d P) (hpk : p ≤ k) (hk : k < P.length)
    (hm : Monotone U) (h1 : U k ≤ u) (h2 : u < U (k + 1)) (hrs : r + s ≤ p) :
    polylineLength (distN N) (knotInsertion p U P u r s k) ≤ polylineLength (distN N) P :=
  knotInsertion_polygon_le U u P k p s d hP hpk hk hN hm h1 h2 r hrs

/-- **No admissible sequence of knot insertions lengthens the control polygon** (each request
    `(u, r, s)` applied with the span the library's search finds, as in C04's
    `insert_sequence_preserves_curve`). -/
theorem insert_sequence_does_not_lengthen_control_polygon {N : List K → K} {d : ℕ} (hN : IsSeminorm d N) (p : ℕ)
    (reqs : List (K × ℕ × ℕ)) (st : List K × List (List K)) (hC : CurveWF p d st.1 st.2) (hok : ReqsOk p st reqs) :
    polylineLength (distN N) (reqs.foldl (insStep p) st).2 ≤ polylineLength (distN N) st.2 :=
  insert_sequence_polygon_le hN p reqs st hC hok

/-- **A parameter whose knot has multiplicity at least `p` is interpolated by a control point** (the
    fact that makes the samples vertices of the refined polygon): `HasBlock p U u` = `p` consecutive
    knots equal `u`. -/
theorem curve_point_at_full_multiplicity_knot (p d : ℕ) (Ul : List K) (P : List (List K)) (hC : CurveWF p d Ul P) (u : K)
    (hlo : fnOf Ul p ≤ u) (hhi : u ≤ fnOf Ul P.length) (hb : HasBlock p (fnOf Ul) u) :
    curvePoint p (fnOf Ul) P u = ptsGet P (sampleIdx p (fnOf Ul) P.length u) ∧
      sampleIdx p (fnOf Ul) P.length u < P.length :=
  curvePoint_of_block p d Ul P hC u hlo hhi hb

/-- **The polyline through the points of a curve at ANY increasing parameters of the closed domain is
    not longer than the control polygon** – non-rational curve of degree `≥ 1`; the right end `U_n`
    of the domain may be among the parameters if the curve is clamped there. -/
theorem polyline_le_control_polygon {N : List K → K} {d : ℕ} (hN : IsSeminorm d N) (p : ℕ) (hp : 1 ≤ p)
    (Ul : List K) (P : List (List K)) (hC : CurveWF p d Ul P) (us : List K) (hsorted : us.Pairwise (· < ·))
    (hdom : ∀ u ∈ us, fnOf Ul p ≤ u ∧ u ≤ fnOf Ul P.length)
    (hend : fnOf Ul P.length ∈ us → ∀ i, P.length ≤ i → i < P.length + p → fnOf Ul i = fnOf Ul P.length) :
    polylineLength (distN N) (us.map (curvePoint p (fnOf Ul) P)) ≤ polylineLength (distN N) P :=
  curve_polyline_le_polygon hN p hp Ul P hC us hsorted hdom hend

/-- **The approximate length of a non-rational curve is never more than its control-polygon length**:
    `length_curve` of the points sampled at `linspace(U_p, U_n, num)` – every sample size, every value
    of `linspace`'s tolerance constant – for a curve of degree `≥ 1` that is clamped at the end.  (Model scope: the
    whole-domain sample; for a partially evaluated cache – `evaluate(start=, stop=)` – the upper bound still holds by
    `polyline_le_control_polygon`, which is stated for ANY increasing parameters of the closed domain.) -/
theorem length_curve_le_control_polygon {N : List K → K} {d : ℕ} (hN : IsSeminorm d N) (p : ℕ) (hp : 1 ≤ p)
    (Ul : List K) (P : List (List K)) (hC : CurveWF p d Ul P)
    (hend : ∀ i, P.length ≤ i → i < P.length + p → fnOf Ul i = fnOf Ul P.length) (num : ℕ) (tol : K) :
    curveLength (distN N) false p (fnOf Ul) P (linspace (fnOf Ul p) (fnOf Ul P.length) num tol)
      ≤ polylineLength (distN N) P :=
  length_curve_le_polygon hN p hp Ul P hC hend num tol

/-! ### concrete values (ℓ¹ norm over ℚ): the clamped quadratic of the examples above, five samples -/

/-- chord `4 <` approximate length `11/2 <` control polygon length `8`: neither bound is vacuous -/
example : l1norm (vsub (ptsGet ([[0,0],[1,2],[2,0],[3,1]] : List (List ℚ)) 3) (ptsGet [[0,0],[1,2],[2,0],[3,1]] 0)) = 4 ∧
    curveLength (distN l1norm) false 2 (fnOf ([0,0,0,1/2,1,1,1] : List ℚ)) [[0,0],[1,2],[2,0],[3,1]]
      (linspace 0 1 5 (1/10000000)) = 11/2 ∧
    polylineLength (distN l1norm) ([[0,0],[1,2],[2,0],[3,1]] : List (List ℚ)) = 8 := by decide +kernel

/-- inserting `1/4` once cuts the corner `(1,2)`: the control polygon gets strictly shorter (`7 < 8`) -/
example : knotInsertion 2 (fnOf ([0,0,0,1/2,1,1,1] : List ℚ)) [[0,0],[1,2],[2,0],[3,1]] (1/4) 1 0 2
      = [[0,0],[1/2,1],[5/4,3/2],[2,0],[3,1]] ∧
    polylineLength (distN l1norm) (knotInsertion 2 (fnOf ([0,0,0,1/2,1,1,1] : List ℚ)) [[0,0],[1,2],[2,0],[3,1]] (1/4) 1 0 2) = 7 := by
  decide +kernel

/-- the hypotheses of `length_curve_le_control_polygon` / `length_curve_ge_chord` hold for that curve
    (`CurveWF` and `ClampedOk` are the examples above); the theorem applied -/
example : curveLength (distN l1norm) false 2 (fnOf ([0,0,0,1/2,1,1,1] : List ℚ)) [[0,0],[1,2],[2,0],[3,1]]
      (linspace (fnOf ([0,0,0,1/2,1,1,1] : List ℚ) 2) (fnOf ([0,0,0,1/2,1,1,1] : List ℚ) 4) 5 (1/10000000))
    ≤ polylineLength (distN l1norm) ([[0,0],[1,2],[2,0],[3,1]] : List (List ℚ)) := by
  have hC : CurveWF 2 2 ([0,0,0,1/2,1,1,1] : List ℚ) [[0,0],[1,2],[2,0],[3,1]] :=
    { mono := mono_of_pairwise _ (by decide +kernel), len := by simp, pn := by simp, last := by decide +kernel,
      net := by intro pt hpt; simp at hpt; rcases hpt with h | h | h | h <;> simp [h] }
  refine length_curve_le_control_polygon (l1norm_is_seminorm 2) 2 (by omega) _ _ hC ?_ 5 _
  intro i h1 h2
  simp only [List.length_cons, List.length_nil] at h1 h2
  obtain rfl | rfl : i = 4 ∨ i = 5 := by omega
  all_goals decide +kernel

/-- a strictly increasing parameter list that is not a `linspace`, with interior parameters on and off
    knots: hypotheses of `polyline_le_control_polygon` -/
example : ([0, 1/3, 1/2, 9/10] : List ℚ).Pairwise (· < ·) ∧
    ∀ u ∈ ([0, 1/3, 1/2, 9/10] : List ℚ), fnOf ([0,0,0,1/2,1,1,1] : List ℚ) 2 ≤ u ∧ u ≤ fnOf ([0,0,0,1/2,1,1,1] : List ℚ) 4 := by
  decide +kernel

/-! ### the Euclidean norm over ℝ – the norm `operations.length_curve` measures with – is an instance -/

/-- **The Euclidean norm `√(Σ_{i<d} vᵢ²)` over ℝ is a seminorm in the sense of `IsSeminorm`** (every dimension;
    triangle inequality from Mathlib's Cauchy–Schwarz inequality), and the distance it induces on points of `d`
    coordinates is `linalg.point_distance`: `√(Σ (bᵢ - aᵢ)²)`; its radicand is `Lin.normSq` of C16. -/
theorem euclid_is_seminorm (d : ℕ) :
    IsSeminorm d (euclidNorm d) ∧
    (∀ a b : List ℝ, a.length = d → b.length = d →
      distN (euclidNorm d) a b = Real.sqrt (∑ i : Fin d, (b.getD i 0 - a.getD i 0) ^ 2)) ∧
    ∀ v : List ℝ, v.length = d → euclidNorm d v = Real.sqrt (Lin.normSq v) :=
  ⟨euclid_isSeminorm d, distN_euclid d, euclidNorm_eq_sqrt_normSq d⟩

/-- **Euclidean length, lower bound** (`length_curve_ge_chord` at `K := ℝ`, `N :=` Euclidean norm): the
    approximate length of a clamped non-rational curve is at least the Euclidean distance of its end points
    (whole-domain sample with the current sample size – see the model-scope remark at `length_curve_ge_chord`). -/
theorem length_curve_ge_chord_euclid (p d : ℕ) (Ul : List ℝ) (P : List (List ℝ)) (hC : CurveWF p d Ul P)
    (hcl : ClampedOk p (fnOf Ul) P.length) (num : ℕ) (hnum : 2 ≤ num) (tol : ℝ)
    (htol : tol < |fnOf Ul p - fnOf Ul P.length|) :
    distN (euclidNorm d) (ptsGet P 0) (ptsGet P (P.length - 1))
      ≤ curveLength (distN (euclidNorm d)) false p (fnOf Ul) P (linspace (fnOf Ul p) (fnOf Ul P.length) num tol) :=
  length_curve_ge_chord (euclid_isSeminorm d) p Ul P hC hcl num hnum tol htol

/-- **Euclidean length, upper bound** (`length_curve_le_control_polygon` at `K := ℝ`, Euclidean norm): the
    approximate length is at most the Euclidean length of the control polygon, for every sample size. -/
theorem length_curve_le_control_polygon_euclid (p : ℕ) (hp : 1 ≤ p) (d : ℕ) (Ul : List ℝ) (P : List (List ℝ))
    (hC : CurveWF p d Ul P) (hend : ∀ i, P.length ≤ i → i < P.length + p → fnOf Ul i = fnOf Ul P.length)
    (num : ℕ) (tol : ℝ) :
    curveLength (distN (euclidNorm d)) false p (fnOf Ul) P (linspace (fnOf Ul p) (fnOf Ul P.length) num tol)
      ≤ polylineLength (distN (euclidNorm d)) P :=
  length_curve_le_control_polygon (euclid_isSeminorm d) p hp Ul P hC hend num tol

/-- a concrete Euclidean distance: from `(0,0)` to `(3,4)` it is `5` (so the norm is not the ℓ¹ norm, `7`) -/
example : distN (euclidNorm 2) [0, 0] [3, 4] = 5 := by
  rw [distN_euclid 2 _ _ rfl rfl, Fin.sum_univ_two]
  have : ((([3, 4] : List ℝ).getD ((0 : Fin 2) : ℕ) 0 - ([0, 0] : List ℝ).getD ((0 : Fin 2) : ℕ) 0) ^ 2
      + (([3, 4] : List ℝ).getD ((1 : Fin 2) : ℕ) 0 - ([0, 0] : List ℝ).getD ((1 : Fin 2) : ℕ) 0) ^ 2) = 5 ^ 2 := by
    simp; norm_num
  rw [this, Real.sqrt_sq (by norm_num)]

/-- the hypotheses over ℝ are met by the quadratic `(0,0), (0,4), (3,4)` with knots `0,0,0,1,1,1`: its sampled
    Euclidean length lies between the chord `5` and the polygon length `7` -/
example (num : ℕ) (hnum : 2 ≤ num) :
    distN (euclidNorm 2) (ptsGet ([[0,0],[0,4],[3,4]] : List (List ℝ)) 0) (ptsGet ([[0,0],[0,4],[3,4]] : List (List ℝ)) 2)
      ≤ curveLength (distN (euclidNorm 2)) false 2 (fnOf ([0,0,0,1,1,1] : List ℝ)) [[0,0],[0,4],[3,4]]
          (linspace (fnOf ([0,0,0,1,1,1] : List ℝ) 2) (fnOf ([0,0,0,1,1,1] : List ℝ) 3) num (1/10000000)) ∧
    curveLength (distN (euclidNorm 2)) false 2 (fnOf ([0,0,0,1,1,1] : List ℝ)) [[0,0],[0,4],[3,4]]
          (linspace (fnOf ([0,0,0,1,1,1] : List ℝ) 2) (fnOf ([0,0,0,1,1,1] : List ℝ) 3) num (1/10000000))
      ≤ polylineLength (distN (euclidNorm 2)) ([[0,0],[0,4],[3,4]] : List (List ℝ)) := by
  have hC : CurveWF 2 2 ([0,0,0,1,1,1] : List ℝ) [[0,0],[0,4],[3,4]] :=
    { mono := mono_of_pairwise _ (by simp), len := by simp, pn := by simp, last := by simp [fnOf],
      net := by intro pt hpt; simp at hpt; rcases hpt with h | h | h <;> simp [h] }
  refine ⟨length_curve_ge_chord_euclid 2 2 _ _ hC ?_ num hnum _ (by simp [fnOf]; norm_num),
    length_curve_le_control_polygon_euclid 2 (by omega) 2 _ _ hC ?_ num _⟩
  · refine ⟨?_, ?_, by simp [fnOf]⟩
    · intro i h1 h2
      obtain rfl | rfl : i = 1 ∨ i = 2 := by omega
      all_goals simp [fnOf]
    · intro i h1 h2
      simp only [List.length_cons, List.length_nil] at h1 h2
      obtain rfl | rfl : i = 3 ∨ i = 4 := by omega
      all_goals simp [fnOf]
  · intro i h1 h2
    simp only [List.length_cons, List.length_nil] at h1 h2
    obtain rfl | rfl : i = 3 ∨ i = 4 := by omega
    all_goals simp [fnOf]

/-! ## Length bounds for RATIONAL curves: `length_curve` between the chord and the Cartesian control polygon

`evalpts` of a NURBS curve are the PROJECTED points `project (curvePoint p U Pw u)` (`curveGrid true`;
`Pw` the homogeneous control points `(x·w, w)`), and the control polygon a user sees (`ctrlpts`) is the
polygon of the Cartesian control points `Pw.map project` (`P_i = Pw_i / w_i`).  Knot insertion acts on the
homogeneous points; on the projected points it is again corner cutting, with the coefficient
`α w_i / (α w_i + (1-α) w_{i-1}) ∈ [0, 1]` when all weights are positive. -/

/-- **Projection of a convex combination of two homogeneous points with positive weights** (one step of
    knot insertion, seen on the Cartesian points): the new weight is positive, the coefficient
    `β = α w₁ / w_q` lies in `[0, 1]`, and the projected new point is `β · project H₁ + (1-β) · project H₀`. -/
theorem projected_insertion_is_corner_cutting (d : ℕ) (H0 H1 Hq : List K) (a : K) (h0 : H0.length = d + 1)
    (h1 : H1.length = d + 1) (hq : Hq.length = d + 1) (ha0 : 0 ≤ a) (ha1 : a ≤ 1) (w0 : 0 < H0.getD d 0)
    (w1 : 0 < H1.getD d 0) (e : ∀ j, Hq.getD j 0 = a * H1.getD j 0 + (1 - a) * H0.getD j 0) :
    0 < Hq.getD d 0 ∧ 0 ≤ a * H1.getD d 0 / Hq.getD d 0 ∧ a * H1.getD d 0 / Hq.getD d 0 ≤ 1 ∧
    ∀ j, (project Hq).getD j 0 = a * H1.getD d 0 / Hq.getD d 0 * (project H1).getD j 0
        + (1 - a * H1.getD d 0 / Hq.getD d 0) * (project H0).getD j 0 :=
  project_comb d H0 H1 Hq a h0 h1 hq ha0 ha1 w0 w1 e

/-- **Knot insertion does not lengthen the Cartesian control polygon of a rational curve**:
    `helpers.knot_insertion` applied to the homogeneous points `Pw` (all weights positive) with `r` copies of
    `u` in the span `k` (`U_k ≤ u < U_{k+1}`, `r + s ≤ p`), any degree, any seminorm on the `d` Cartesian
    coordinates; all weights of the new net are positive. -/
theorem insertion_does_not_lengthen_rational_control_polygon {N : List K → K} {d : ℕ} (hN : IsSeminorm d N)
    (p : ℕ) (U : ℕ → K) (Pw : List (List K)) (u : K) (r s k : ℕ) (hP : NetOk (d + 1) Pw) (hpk : p ≤ k) (hk : k < Pw.length)
    (hwt : ∀ i, i < Pw.length → 0 < (ptsGet Pw i).getD d 0)
    (hm : Monotone U) (h1 : U k ≤ u) (h2 : u < U (k + 1)) (hrs : r + s ≤ p) :
    (∀ i, i < (knotInsertion p U Pw u r s k).length → 0 < (ptsGet (knotInsertion p U Pw u r s k) i).getD d 0) ∧
    polylineLength (distN N) ((knotInsertion p U Pw u r s k).map project) ≤ polylineLength (distN N) (Pw.map project) :=
  knotInsertion_polygon_le_rat U u Pw k p s d hP hpk hk hN hm h1 h2 hwt r hrs

/-- **No admissible sequence of knot insertions lengthens the Cartesian control polygon of a rational
    curve** (requests as in `insert_sequence_does_not_lengthen_control_polygon`); the weights stay positive. -/
theorem insert_sequence_does_not_lengthen_rational_control_polygon {N : List K → K} {d : ℕ} (hN : IsSeminorm d N) (p : ℕ)
    (reqs : List (K × ℕ × ℕ)) (st : List K × List (List K)) (hC : CurveWF p (d + 1) st.1 st.2)
    (hwt : ∀ i, i < st.2.length → 0 < (ptsGet st.2 i).getD d 0) (hok : ReqsOk p st reqs) :
    (∀ i, i < (reqs.foldl (insStep p) st).2.length → 0 < (ptsGet (reqs.foldl (insStep p) st).2 i).getD d 0) ∧
    polylineLength (distN N) ((reqs.foldl (insStep p) st).2.map project) ≤ polylineLength (distN N) (st.2.map project) :=
  insert_sequence_polygon_le_rat hN p reqs st hC hwt hok

/-- **The polyline through the projected points of a rational curve at ANY increasing parameters of the
    closed domain is not longer than the Cartesian control polygon** – NURBS curve of degree `≥ 1`, all
    weights positive; the right end `U_n` may be among the parameters if the curve is clamped there. -/
theorem rational_polyline_le_control_polygon {N : List K → K} {d : ℕ} (hN : IsSeminorm d N) (p : ℕ) (hp : 1 ≤ p)
    (Ul : List K) (Pw : List (List K)) (hC : CurveWF p (d + 1) Ul Pw)
    (hwt : ∀ i, i < Pw.length → 0 < (ptsGet Pw i).getD d 0) (us : List K) (hsorted : us.Pairwise (· < ·))
    (hdom : ∀ u ∈ us, fnOf Ul p ≤ u ∧ u ≤ fnOf Ul Pw.length)
    (hend : fnOf Ul Pw.length ∈ us → ∀ i, Pw.length ≤ i → i < Pw.length + p → fnOf Ul i = fnOf Ul Pw.length) :
    polylineLength (distN N) (us.map (fun u => project (curvePoint p (fnOf Ul) Pw u)))
      ≤ polylineLength (distN N) (Pw.map project) :=
  curve_polyline_le_polygon_rat hN p hp Ul Pw hC hwt us hsorted hdom hend

/-- **The division in `project` is never by zero at the samples of `length_curve`**: for a rational curve
    with positive weights, the homogeneous point at every parameter of `linspace(U_p, U_n, num)` has a
    positive weight (every sample size, every tolerance constant). -/
theorem length_curve_rational_samples_weight_positive (p d : ℕ) (Ul : List K) (Pw : List (List K))
    (hC : CurveWF p (d + 1) Ul Pw) (hwt : ∀ i, i < Pw.length → 0 < (ptsGet Pw i).getD d 0) (num : ℕ) (tol : K) (u : K)
    (hu : u ∈ linspace (fnOf Ul p) (fnOf Ul Pw.length) num tol) : 0 < (curvePoint p (fnOf Ul) Pw u).getD d 0 :=
  length_curve_samples_weight_pos p d Ul Pw hC hwt num tol u hu

/-- **`length_curve` of a rational curve is at least the chord between the first and the last sampled
    (projected) point**, for every non-empty list of sample parameters – the lower bound that holds for
    whatever the cached `evalpts` are (see `curve_samples_ge_chord`); the weight function does not vanish at the samples
    (`_hW`: otherwise the evaluation raises `ZeroDivisionError`, the op `clen` answers `ERR`; implied by positive weights,
    `length_curve_rational_samples_weight_positive`; not used by the proof). -/
theorem rational_curve_samples_ge_chord {N : List K → K} {d : ℕ} (hN : IsSeminorm d N) (p : ℕ) (Ul : List K)
    (Pw : List (List K)) (hC : CurveWF p (d + 1) Ul Pw) (ks : List K) (hne : ks ≠ [])
    (_hW : ∀ u ∈ ks, (curvePoint p (fnOf Ul) Pw u).getD d 0 ≠ 0) :
    N (vsub (project (curvePoint p (fnOf Ul) Pw (ks.getD (ks.length - 1) 0)))
        (project (curvePoint p (fnOf Ul) Pw (ks.getD 0 0))))
      ≤ curveLength (distN N) true p (fnOf Ul) Pw ks :=
  curveLength_ge_sample_chord_rat hN p Ul Pw hC ks hne

/-- **The approximate length of a rational curve is never less than its end-to-end chord**: clamped NURBS
    curve (`ClampedOk`), all weights positive (then every sampled weight is positive – first conjunct –, so
    no projection divides by zero), samples at `linspace(U_p, U_n, num)`, at least two samples and a domain
    longer than the tolerance constant; the chord is the one between the first and the last CARTESIAN
    control point.  Model scope as for `length_curve_ge_chord` (whole-domain sample). -/
theorem length_curve_rational_ge_chord {N : List K → K} {d : ℕ} (hN : IsSeminorm d N) (p : ℕ)
    (Ul : List K) (Pw : List (List K)) (hC : CurveWF p (d + 1) Ul Pw)
    (hwt : ∀ i, i < Pw.length → 0 < (ptsGet Pw i).getD d 0) (hcl : ClampedOk p (fnOf Ul) Pw.length)
    (num : ℕ) (hnum : 2 ≤ num) (tol : K) (htol : tol < |fnOf Ul p - fnOf Ul Pw.length|) :
    (∀ u ∈ linspace (fnOf Ul p) (fnOf Ul Pw.length) num tol, 0 < (curvePoint p (fnOf Ul) Pw u).getD d 0) ∧
    N (vsub (project (ptsGet Pw (Pw.length - 1))) (project (ptsGet Pw 0)))
      ≤ curveLength (distN N) true p (fnOf Ul) Pw (linspace (fnOf Ul p) (fnOf Ul Pw.length) num tol) :=
  ⟨fun u hu => length_curve_samples_weight_pos p d Ul Pw hC hwt num tol u hu,
   length_curve_ge_chord_rat hN p Ul Pw hC hcl num hnum tol htol⟩

/-- **The approximate length of a rational curve is never more than the length of its Cartesian control
    polygon**: `length_curve` of the projected points sampled at `linspace(U_p, U_n, num)` – every sample
    size, every tolerance constant – for a NURBS curve of degree `≥ 1` with positive weights that is clamped
    at the end; the polygon is the one through `P_i = Pw_i / w_i`.  (For a partially evaluated cache the
    bound holds by `rational_polyline_le_control_polygon`.) -/
theorem length_curve_rational_le_control_polygon {N : List K → K} {d : ℕ} (hN : IsSeminorm d N) (p : ℕ) (hp : 1 ≤ p)
    (Ul : List K) (Pw : List (List K)) (hC : CurveWF p (d + 1) Ul Pw)
    (hwt : ∀ i, i < Pw.length → 0 < (ptsGet Pw i).getD d 0)
    (hend : ∀ i, Pw.length ≤ i → i < Pw.length + p → fnOf Ul i = fnOf Ul Pw.length) (num : ℕ) (tol : K) :
    curveLength (distN N) true p (fnOf Ul) Pw (linspace (fnOf Ul p) (fnOf Ul Pw.length) num tol)
      ≤ polylineLength (distN N) (Pw.map project) :=
  length_curve_le_polygon_rat hN p hp Ul Pw hC hwt hend num tol

/-- **Euclidean length of a rational curve, lower bound** (`K := ℝ`, Euclidean norm on the `d` Cartesian
    coordinates): at least the Euclidean distance of the first and the last Cartesian control point. -/
theorem length_curve_rational_ge_chord_euclid (p d : ℕ) (Ul : List ℝ) (Pw : List (List ℝ)) (hC : CurveWF p (d + 1) Ul Pw)
    (hwt : ∀ i, i < Pw.length → 0 < (ptsGet Pw i).getD d 0) (hcl : ClampedOk p (fnOf Ul) Pw.length)
    (num : ℕ) (hnum : 2 ≤ num) (tol : ℝ) (htol : tol < |fnOf Ul p - fnOf Ul Pw.length|) :
    distN (euclidNorm d) (project (ptsGet Pw 0)) (project (ptsGet Pw (Pw.length - 1)))
      ≤ curveLength (distN (euclidNorm d)) true p (fnOf Ul) Pw (linspace (fnOf Ul p) (fnOf Ul Pw.length) num tol) :=
  (length_curve_rational_ge_chord (euclid_isSeminorm d) p Ul Pw hC hwt hcl num hnum tol htol).2

/-- **Euclidean length of a rational curve, upper bound** (`K := ℝ`, Euclidean norm): at most the Euclidean
    length of the Cartesian control polygon, for every sample size. -/
theorem length_curve_rational_le_control_polygon_euclid (p : ℕ) (hp : 1 ≤ p) (d : ℕ) (Ul : List ℝ) (Pw : List (List ℝ))
    (hC : CurveWF p (d + 1) Ul Pw) (hwt : ∀ i, i < Pw.length → 0 < (ptsGet Pw i).getD d 0)
    (hend : ∀ i, Pw.length ≤ i → i < Pw.length + p → fnOf Ul i = fnOf Ul Pw.length) (num : ℕ) (tol : ℝ) :
    curveLength (distN (euclidNorm d)) true p (fnOf Ul) Pw (linspace (fnOf Ul p) (fnOf Ul Pw.length) num tol)
      ≤ polylineLength (distN (euclidNorm d)) (Pw.map project) :=
  length_curve_rational_le_control_polygon (euclid_isSeminorm d) p hp Ul Pw hC hwt hend num tol

/-! ### concrete values (ℓ¹ norm over ℚ): the clamped quadratic above with weights `1, 2, 1/2, 1` -/

/-- the homogeneous points `(x·w, y·w, w)` project to the Cartesian polygon `(0,0),(1,2),(2,0),(3,1)`; chord
    `4 <` approximate length `348/65 <` polygon length `8` (the non-rational curve with the same polygon
    has length `11/2`: the weights matter) -/
example : ([[0,0,1],[2,4,2],[1,0,1/2],[3,1,1]] : List (List ℚ)).map project = [[0,0],[1,2],[2,0],[3,1]] ∧
    curveLength (distN l1norm) true 2 (fnOf ([0,0,0,1/2,1,1,1] : List ℚ)) [[0,0,1],[2,4,2],[1,0,1/2],[3,1,1]]
      (linspace 0 1 5 (1/10000000)) = 348/65 ∧
    polylineLength (distN l1norm) (([[0,0,1],[2,4,2],[1,0,1/2],[3,1,1]] : List (List ℚ)).map project) = 8 := by
  decide +kernel

/-- inserting `1/4` once into the homogeneous net cuts the Cartesian corner `(1,2)` with the weighted
    coefficients: the Cartesian polygon gets strictly shorter (`100/13 < 8`), the new weights `3/2, 13/8`
    are positive -/
example : knotInsertion 2 (fnOf ([0,0,0,1/2,1,1,1] : List ℚ)) [[0,0,1],[2,4,2],[1,0,1/2],[3,1,1]] (1/4) 1 0 2
      = [[0,0,1],[1,2,3/2],[7/4,3,13/8],[1,0,1/2],[3,1,1]] ∧
    (knotInsertion 2 (fnOf ([0,0,0,1/2,1,1,1] : List ℚ)) [[0,0,1],[2,4,2],[1,0,1/2],[3,1,1]] (1/4) 1 0 2).map project
      = [[0,0],[2/3,4/3],[14/13,24/13],[2,0],[3,1]] ∧
    polylineLength (distN l1norm)
      ((knotInsertion 2 (fnOf ([0,0,0,1/2,1,1,1] : List ℚ)) [[0,0,1],[2,4,2],[1,0,1/2],[3,1,1]] (1/4) 1 0 2).map project)
      = 100/13 := by
  decide +kernel

/-- the hypotheses of `length_curve_rational_le_control_polygon` / `length_curve_rational_ge_chord` hold for that
    NURBS curve (weights not all equal); both theorems applied -/
example : l1norm (vsub (project (ptsGet ([[0,0,1],[2,4,2],[1,0,1/2],[3,1,1]] : List (List ℚ)) 3))
        (project (ptsGet ([[0,0,1],[2,4,2],[1,0,1/2],[3,1,1]] : List (List ℚ)) 0)))
      ≤ curveLength (distN l1norm) true 2 (fnOf ([0,0,0,1/2,1,1,1] : List ℚ)) [[0,0,1],[2,4,2],[1,0,1/2],[3,1,1]]
          (linspace (fnOf ([0,0,0,1/2,1,1,1] : List ℚ) 2) (fnOf ([0,0,0,1/2,1,1,1] : List ℚ) 4) 5 (1/10000000)) ∧
    curveLength (distN l1norm) true 2 (fnOf ([0,0,0,1/2,1,1,1] : List ℚ)) [[0,0,1],[2,4,2],[1,0,1/2],[3,1,1]]
      (linspace (fnOf ([0,0,0,1/2,1,1,1] : List ℚ) 2) (fnOf ([0,0,0,1/2,1,1,1] : List ℚ) 4) 5 (1/10000000))
    ≤ polylineLength (distN l1norm) (([[0,0,1],[2,4,2],[1,0,1/2],[3,1,1]] : List (List ℚ)).map project) := by
  have hC : CurveWF 2 (2 + 1) ([0,0,0,1/2,1,1,1] : List ℚ) [[0,0,1],[2,4,2],[1,0,1/2],[3,1,1]] :=
    { mono := mono_of_pairwise _ (by decide +kernel), len := by simp, pn := by simp, last := by decide +kernel,
      net := by intro pt hpt; simp at hpt; rcases hpt with h | h | h | h <;> simp [h] }
  have hwt : ∀ i, i < ([[0,0,1],[2,4,2],[1,0,1/2],[3,1,1]] : List (List ℚ)).length →
      0 < (ptsGet ([[0,0,1],[2,4,2],[1,0,1/2],[3,1,1]] : List (List ℚ)) i).getD 2 0 := by
    intro i hi
    simp only [List.length_cons, List.length_nil] at hi
    obtain rfl | rfl | rfl | rfl : i = 0 ∨ i = 1 ∨ i = 2 ∨ i = 3 := by omega
    all_goals decide +kernel
  have hstop : ∀ i, ([[0,0,1],[2,4,2],[1,0,1/2],[3,1,1]] : List (List ℚ)).length ≤ i →
      i < ([[0,0,1],[2,4,2],[1,0,1/2],[3,1,1]] : List (List ℚ)).length + 2 →
      fnOf ([0,0,0,1/2,1,1,1] : List ℚ) i = fnOf ([0,0,0,1/2,1,1,1] : List ℚ) ([[0,0,1],[2,4,2],[1,0,1/2],[3,1,1]] : List (List ℚ)).length := by
    intro i h1 h2
    simp only [List.length_cons, List.length_nil] at h1 h2
    obtain rfl | rfl : i = 4 ∨ i = 5 := by omega
    all_goals decide +kernel
  refine ⟨(length_curve_rational_ge_chord (l1norm_is_seminorm 2) 2 _ _ hC hwt ⟨?_, hstop, by decide +kernel⟩ 5 (by omega) _
    (by decide +kernel)).2, length_curve_rational_le_control_polygon (l1norm_is_seminorm 2) 2 (by omega) _ _ hC hwt hstop 5 _⟩
  intro i h1 h2
  obtain rfl | rfl : i = 1 ∨ i = 2 := by omega
  all_goals decide +kernel

end C18
