import NurbsVerif.Lemmas.Hull
import NurbsVerif.Lemmas.SurfLift

/-!
# C18  Shapes stay inside the hull of their control points
-/
namespace C18
open Geomdl Finset
variable {K : Type} [Field K] [LinearOrder K] [IsStrictOrderedRing K]

/-- **Convex hull, every separating direction**: for every linear functional `ℓ(x) = Σ_l A_l x_l`,
    `ℓ` of the evaluated point lies between any lower and upper bound of `ℓ` on the `p+1` control
    points active on the span (hence no hyperplane separates the point from those control points). -/
theorem curve_point_in_hull (p : ℕ) (U : ℕ → K) (P : List (List K)) (k : ℕ) (u : K) (d : ℕ)
    (h : SpanOk U k u) (hp : p ≤ k) (hk : k < P.length) (hP : NetOk d P) (A : ℕ → K) (lo hi : K)
    (hlo : ∀ r, r ≤ p → lo ≤ ∑ l ∈ range d, A l * (ptsGet P (k - p + r)).getD l 0)
    (hhi : ∀ r, r ≤ p → ∑ l ∈ range d, A l * (ptsGet P (k - p + r)).getD l 0 ≤ hi) :
    lo ≤ ∑ l ∈ range d, A l * (curvePointAt p U P k u).getD l 0 ∧
      ∑ l ∈ range d, A l * (curvePointAt p U P k u).getD l 0 ≤ hi :=
  curvePointAt_in_hull p U P k u d h hp hk hP A lo hi hlo hhi

/-- **Convex hull for surfaces**: the same statement for the tensor-product surface point and the
    `(pu+1)(pv+1)` control points active on the pair of spans. -/
theorem surface_point_in_hull (pu pv : ℕ) (Uu Uv : ℕ → K) (su sv : ℕ) (P : List (List K)) (ku kv : ℕ) (u v : K) (d : ℕ)
    (hu : SpanOk Uu ku u) (hv : SpanOk Uv kv v)
    (hpu : pu ≤ ku) (hpv : pv ≤ kv) (hku : ku < su) (hkv : kv < sv) (hlen : P.length = su * sv) (hP : NetOk d P)
    (A : ℕ → K) (lo hi : K)
    (hlo : ∀ a b, a ≤ pu → b ≤ pv → lo ≤ ∑ l ∈ range d, A l * (ptsGet P (kv - pv + b + sv * (ku - pu + a))).getD l 0)
    (hhi : ∀ a b, a ≤ pu → b ≤ pv → ∑ l ∈ range d, A l * (ptsGet P (kv - pv + b + sv * (ku - pu + a))).getD l 0 ≤ hi) :
    lo ≤ ∑ l ∈ range d, A l * (surfacePointAt pu pv Uu Uv sv P ku kv u v).getD l 0 ∧
      ∑ l ∈ range d, A l * (surfacePointAt pu pv Uu Uv sv P ku kv u v).getD l 0 ≤ hi :=
  surfacePointAt_in_hull pu pv Uu Uv su sv P ku kv u v d hu hv hpu hpv hku hkv hlen hP A lo hi hlo hhi

/-- **Bounding box**: every coordinate of every evaluated point lies between the minimum and the
    maximum of that coordinate over the control net. -/
theorem curve_point_in_box (p : ℕ) (U : ℕ → K) (P : List (List K)) (k : ℕ) (u : K) (d j : ℕ)
    (h : SpanOk U k u) (hp : p ≤ k) (hk : k < P.length) (hP : NetOk d P) (lo hi : K)
    (hlo : ∀ i, i < P.length → lo ≤ (ptsGet P i).getD j 0) (hhi : ∀ i, i < P.length → (ptsGet P i).getD j 0 ≤ hi) :
    lo ≤ (curvePointAt p U P k u).getD j 0 ∧ (curvePointAt p U P k u).getD j 0 ≤ hi :=
  curvePointAt_in_box p U P k u d j h hp hk hP lo hi hlo hhi

/-- **Clamped start**: if the `p` knots `U (k-p+1) … U k` all equal `u`, the evaluated point is the
    control point `P (k-p)` (for the first span `k = p`: the curve starts at its first control point). -/
theorem clamped_start (p : ℕ) (U : ℕ → K) (P : List (List K)) (k : ℕ) (u : K) (d j : ℕ)
    (hm : Monotone U) (hlt : U k < U (k+1)) (hp : p ≤ k) (hk : k < P.length) (hP : NetOk d P)
    (hU : ∀ i, k + 1 ≤ i + p → i ≤ k → U i = u) :
    (curvePointAt p U P k u).getD j 0 = (ptsGet P (k - p)).getD j 0 :=
  curvePointAt_clamped_start p U P k u d j hm hlt hp hk hP hU

/-- **Clamped end**: if `u = U (k+1) = … = U (k+p)`, the evaluated point on span `k` is the control
    point `P k` (for the last span: the curve ends at its last control point). -/
theorem clamped_end (p : ℕ) (U : ℕ → K) (P : List (List K)) (k : ℕ) (u : K) (d j : ℕ)
    (hm : Monotone U) (hlt : U k < U (k+1)) (hp : p ≤ k) (hk : k < P.length) (hP : NetOk d P)
    (hU : ∀ i, k + 1 ≤ i → i ≤ k + p → U i = u) (hu : u = U (k+1)) :
    (curvePointAt p U P k u).getD j 0 = (ptsGet P k).getD j 0 :=
  curvePointAt_clamped_end p U P k u d j hm hlt hp hk hP hU hu

/-- rational shapes: the coefficients `N_i w_i / Σ N_j w_j` are again non-negative and sum to one,
    so the same hull statements hold for the projected point with the Cartesian control points -/
theorem rational_coefficients_convex (n : ℕ) (N w : ℕ → K) (hN : ∀ i, i < n → 0 ≤ N i) (hw : ∀ i, i < n → 0 < w i)
    (hsum : ∑ i ∈ range n, N i = 1) :
    0 < ∑ j ∈ range n, N j * w j ∧
    (∑ i ∈ range n, N i * w i / (∑ j ∈ range n, N j * w j) = 1) ∧
    ∀ i, i < n → 0 ≤ N i * w i / (∑ j ∈ range n, N j * w j) :=
  rational_coeffs n N w hN hw hsum

end C18
