import NurbsVerif.Lemmas.Exchange
import NurbsVerif.Lemmas.ExchangeEval
import NurbsVerif.Lemmas.ExchangeAssemble
import NurbsVerif.Lemmas.ExchangeAssembleFile2d
import NurbsVerif.Lemmas.ExchangeDersSurf
import NurbsVerif.Lemmas.ExchangeFile2dPinned
import Mathlib.Algebra.Order.Field.Rat
import Mathlib.Tactic.NormNum

/-!
# C14  Export followed by import reproduces the geometry

Property theorems only (helper lemmas live in `Lemmas/Exchange*.lean`).  The model
(`Model/Exchange.lean`) is token level: numbers are abstract tokens of a field `K` (printing and
parsing one number is trusted to round-trip up to the printed precision and is not modelled); what is
modelled and proved is the structure of every format: which numbers are written in which order
(row/column order, the flips between the library's v-row order and the u-row order of the mesh files,
`(xw,yw,zw,w)` versus `(x,y,z,w)`), the headers, the enumeration of container elements, and how the
readers reassemble the shapes.  "Same shape" means: the reimported shape is the rational form of the
exported one (`asRational`: a non-rational shape comes back with unit weights, knot vectors come back
normalised - both are what the readers' setters do), for every degree, size triple, net and container
length.  The vmesh reader and the 2-D file saver are modelled as REPAIRED; the pinned ones are refuted on
concrete files by `decide`.
-/
namespace C14
open Geomdl Geomdl.Exch
variable {K : Type} [Field K] [LinearOrder K]

/-! ## surface mesh files -/

/-- smesh: `import_smesh (export_smesh s)` is `s` as a rational surface (same degrees, sizes, homogeneous
    control points hence same points and weights, normalised knot vectors), for all sizes. -/
theorem smesh_export_import (s : Srf K) (hl : s.net.length = s.sizeU * s.sizeV)
    (hw : s.rational = true → WeightsOk s.net) (hd : dimOf s.rational s.net = 3)
    (hu : kvOk s.degU s.knotsU s.sizeU = true) (hv : kvOk s.degV s.knotsV s.sizeV = true) :
    smeshRead (smeshWrite s) = some s.asRational :=
  smesh_roundtrip s hl hw hd hu hv

/-- documented order of the smesh file: after the five header lines, line `u + v*size_u` (u-row order) holds
    control point `(u, v)` - entry `v + u*size_v` of the library's net - in the form `(x, y, z, w)`. -/
theorem smesh_row_order (s : Srf K) (u v : Nat) (hu : u < s.sizeU) (hv : v < s.sizeV) :
    (smeshWrite s).getD (5 + (u + v * s.sizeU)) []
      = (unweightPt ((homNet s.rational s.net).getD (v + u * s.sizeV) [])).map Tok.num := by
  have hlt : u + v * s.sizeU < s.sizeU * s.sizeV := by
    have := idx_lt hv hu
    rw [Nat.mul_comm s.sizeU]; omega
  unfold smeshWrite
  simp only [List.cons_append, List.nil_append, List.getD_cons_succ, 
    show 5 + (u + v * s.sizeU) = (u + v * s.sizeU) + 1 + 1 + 1 + 1 + 1 by omega]
  rw [List.getD_eq_getElem?_getD, List.getElem?_append_left (by simpa using hlt), ← List.getD_eq_getElem?_getD]
  rw [getD_map_nil _ _ (by rfl), getD_map_nil _ _ unweightPt_nil, flipCtrlpts_getD _ _ _ _ _ hu hv]

/-! ## volume mesh files -/

/-- vmesh (repaired reader, `for i in range(dim_w)`): the round trip holds for every size triple. -/
theorem vmesh_export_import (v : Vol K) (hl : v.net.length = v.sizeU * v.sizeV * v.sizeW)
    (hw : v.rational = true → WeightsOk v.net) (hd : dimOf v.rational v.net = 3)
    (hu : kvOk v.degU v.knotsU v.sizeU = true) (hv : kvOk v.degV v.knotsV v.sizeV = true)
    (hww : kvOk v.degW v.knotsW v.sizeW = true) :
    vmeshRead (vmeshWrite v) = some v.asRational :=
  vmesh_roundtrip v hl hw hd hu hv hww

/-- the 2 x 3 x 4 witness of F-14a: degrees 1,2,3, 24 control points `(i,0,0,1)` -/
def volWitness : Vol Int :=
  { rational := true, degU := 1, degV := 2, degW := 3, sizeU := 2, sizeV := 3, sizeW := 4,
    knotsU := [0, 0, 1, 1], knotsV := [0, 0, 0, 1, 1, 1], knotsW := [0, 0, 0, 0, 1, 1, 1, 1],
    net := (List.range 24).map (fun i => [(i : Int), 0, 0, 1]) }

/-- F-14a: the PINNED vmesh reader (`for i in range(dim_w - 1)`) returns 18 of the 24 exported control
    points - the last w-layer is lost while the sizes still say 2 x 3 x 4.
    (Closed witness check: a statement about this one concrete input, decided by evaluation.) -/
theorem vmesh_pinned_refutes_roundtrip :
    (vmeshReadPinned (vmeshWrite volWitness)).map (fun v => (v.net.length, v.sizeU * v.sizeV * v.sizeW)) = some (18, 24) := by
  decide +kernel

/-- on the same witness the repaired reader returns all 24 points (sanity of the witness) -/
theorem vmesh_repaired_on_witness :
    (vmeshRead (vmeshWrite volWitness)).map (fun v => v.net) = some volWitness.net := by
  decide +kernel

/-! ## containers: one file per element -/

/-- `export_smesh` of a container writes one file per element in container order, reading the files in that
    order gives back the elements (as rational surfaces) in the same order, for every container length. -/
theorem smesh_container (l : List (Srf K))
    (h : ∀ s ∈ l, s.net.length = s.sizeU * s.sizeV ∧ (s.rational = true → WeightsOk s.net) ∧ dimOf s.rational s.net = 3 ∧
      kvOk s.degU s.knotsU s.sizeU = true ∧ kvOk s.degV s.knotsV s.sizeV = true) :
    smeshReadAll (smeshWriteAll l) = some (l.map Srf.asRational) :=
  readAll_of l smeshWrite smeshRead Srf.asRational
    (fun s hs => smesh_roundtrip s (h s hs).1 (h s hs).2.1 (h s hs).2.2.1 (h s hs).2.2.2.1 (h s hs).2.2.2.2)

theorem vmesh_container (l : List (Vol K))
    (h : ∀ v ∈ l, v.net.length = v.sizeU * v.sizeV * v.sizeW ∧ (v.rational = true → WeightsOk v.net) ∧ dimOf v.rational v.net = 3 ∧
      kvOk v.degU v.knotsU v.sizeU = true ∧ kvOk v.degV v.knotsV v.sizeV = true ∧ kvOk v.degW v.knotsW v.sizeW = true) :
    vmeshReadAll (vmeshWriteAll l) = some (l.map Vol.asRational) :=
  readAll_of l vmeshWrite vmeshRead Vol.asRational
    (fun v hv => vmesh_roundtrip v (h v hv).1 (h v hv).2.1 (h v hv).2.2.1 (h v hv).2.2.2.1 (h v hv).2.2.2.2.1 (h v hv).2.2.2.2.2)

/-- file-name suffixes: none for a single shape, `1 … n` in container order otherwise -/
theorem container_file_suffixes {α : Type} (l : List α) :
    (enumerate l).map Prod.fst
      = if l.length > 1 then (List.range l.length).map (fun i => some (i + 1)) else l.map (fun _ => none) :=
  enumerate_map_fst l

/-! ## control point text files -/

/-- txt (1-D): one stored control point per line; reading returns the stored points
    (Token-level and trivial: numbers are tokens, separators are not modelled, so this is `allSome (map some) = some`; the substance of the txt/csv formats is in the correspondence check.) -/
theorem txt_export_import (net : List (List K)) : txtRead (txtWrite net) = some net := txt_roundtrip net

/-- csv: header line, then as txt
    (Token-level and trivial, as for txt.) -/
theorem csv_export_import (net : List (List K)) : csvRead (csvWrite net) = some net := csv_roundtrip net

/-- txt (2-D): `size_u` lines of `size_v` points; reading returns the net in the library's order and both sizes,
    for all pairs of sizes -/
theorem txt2_export_import (net : List (List K)) (su sv : Nat) (hl : net.length = su * sv) (hu : 0 < su) :
    txt2Read (txt2Write net su sv) = some (net, su, sv) := txt2_roundtrip net su sv hl hu

/-- documented order of the 2-D file: line `u`, column `v` is control point `(u, v)` -/
theorem txt2_row_order (net : List (List K)) (su sv u v : Nat) (hu : u < su) (hv : v < sv) :
    ((txt2Write net su sv).getD u []).getD v [] = (net.getD (v + sv * u) []).map Tok.num := by
  simp [txt2Write, List.getD_eq_getElem?_getD, hu, hv]

/-! ## the 2-D file helpers of `compatibility` (F-14b) -/

/-- a 2 x 3 file of points `(10u+v, 0, 0, 1)` -/
def file23 : File2 Int :=
  (List.range 2).map (fun u => (List.range 3).map (fun v => [Tok.num (10 * (u : Int) + v), Tok.num 0, Tok.num 0, Tok.num 1]))

/-- F-14b: the PINNED `flip_ctrlpts2d_file` raises on the non-square 2 x 3 file (it indexes the flipped `[v][u]`
    array with the unflipped sizes) ...
    (Closed witness check: a statement about this one concrete input, decided by evaluation.) -/
theorem flip2d_pinned_refutes : flip2dFilePinned file23 = none := by decide +kernel

/-- ... and the pinned saver (separator test on `size_u`) breaks the lines of a non-square file even without a flip:
    the 2 x 3 file comes out as lines of 2, 3 and 1 points.
    (Closed witness check: a statement about this one concrete input, decided by evaluation.) -/
theorem save2d_pinned_refutes :
    (weight2dFilePinned file23).map (fun f => f.map List.length) = some [2, 3, 1] := by decide +kernel

/-- the repaired helper writes the transposed file: 3 lines of 2 points, entry `[v][u]` = input `[u][v]`
    (Closed witness check: a statement about this one concrete input, decided by evaluation.) -/
theorem flip2d_repaired_on_witness :
    flip2dFile file23 = some ((List.range 3).map (fun v => (List.range 2).map (fun u => [10 * (u : Int) + v, 0, 0, 1]))) := by
  decide +kernel

/-! ### ... on every rectangular file

`file2Of g` is the text of the 2-D control point file holding the array `g` (`g[u][v]` = point `v` of line `u`);
`Rect2d g su sv`: `su` lines of `sv` points. -/

/-- **repaired `flip_ctrlpts2d_file`, all sizes**: for every file of `size_u ≥ 1` lines of `size_v ≥ 1` points the
    output is the transposed file: `size_v` lines of `size_u` points, and the point at line `v`, position `u` is the input
    point at line `u`, position `v`. -/
theorem flip2d_repaired_all_sizes (g : List (List (List K))) (su sv : ℕ) (h : Rect2d g su sv) (hu : 0 < su) (hv : 0 < sv) :
    flip2dFile (file2Of g) = some (flipCtrlpts2d g su sv) ∧ Rect2d (flipCtrlpts2d g su sv) sv su ∧
    ∀ u v, u < su → v < sv → ((flipCtrlpts2d g su sv).getD v []).getD u [] = (g.getD u []).getD v [] :=
  ⟨flip2dFile_rect g su sv h hu hv, flipCtrlpts2d_rect g su sv, fun u v => flipCtrlpts2d_getD g su sv u v⟩

/-- flipping twice returns the file -/
theorem flip2d_repaired_involutive (g : List (List (List K))) (su sv : ℕ) (h : Rect2d g su sv) (hu : 0 < su) (hv : 0 < sv) :
    (flip2dFile (file2Of g)).bind (fun g' => flip2dFile (file2Of g')) = some g :=
  flip2d_twice g su sv h hu hv

/-- **`generate_ctrlptsw2d_file` / `generate_ctrlpts2d_weights_file` (repaired saver), all sizes**: the layout (lines and
    positions) is kept and every point is converted `(x,y,z,w) ↦ (xw,yw,zw,w)` resp. back; with non-zero weights the
    second undoes the first. -/
theorem weight2d_repaired_all_sizes (g : List (List (List K))) (su sv : ℕ) (h : Rect2d g su sv) (hu : 0 < su) (hv : 0 < sv) :
    weight2dFile (file2Of g) = some (g.map (·.map weightPt)) ∧
    unweight2dFile (file2Of g) = some (g.map (·.map unweightPt)) ∧
    ((∀ r ∈ g, WeightsOk r) → (weight2dFile (file2Of g)).bind (fun g' => unweight2dFile (file2Of g')) = some g) :=
  ⟨weight2dFile_rect g su sv h hu hv, unweight2dFile_rect g su sv h hu hv, unweight_weight2d g su sv h hu hv⟩

/-- **F-14b, all sizes**: the PINNED `flip_ctrlpts2d_file` raises on EVERY non-square rectangular file. -/
theorem flip2d_pinned_refutes_all_nonsquare (g : List (List (List K))) (su sv : ℕ) (h : Rect2d g su sv)
    (hu : 0 < su) (hv : 0 < sv) (hne : su ≠ sv) : flip2dFilePinned (file2Of g) = none :=
  flip2dFilePinned_nonsquare g su sv h hu hv hne

/-- **F-14b, the pinned SAVER without a flip, all sizes**: `generate_ctrlptsw2d_file` with the pinned
    `_save_ctrlpts2d_file` (line end after point `size_u - 1` instead of `size_v - 1`) on every rectangular file of
    `size_u ≥ 1` lines of `size_v ≥ 1` points: it does not raise, it writes all converted points in the order of the
    array (`flatten`), but in these lines – `size_u ≤ size_v`: a first line of `size_u` points, then `size_u - 1` lines of
    `size_v` points (the rest of a row and the beginning of the next), then, if `size_u < size_v`, a last line of
    `size_v - size_u` points; `size_u > size_v`: ONE line of `size_u * size_v` points.  (2 x 3: lines of 2, 3, 1 –
    `save2d_pinned_refutes`.) -/
theorem weight2d_pinned_line_structure_all_sizes (g : List (List (List K))) (su sv : ℕ) (h : Rect2d g su sv)
    (hu : 0 < su) (hv : 0 < sv) :
    ∃ L, weight2dFilePinned (file2Of g) = some L ∧ L.flatten = (g.map (·.map weightPt)).flatten ∧
      L.map List.length = if su ≤ sv then su :: List.replicate (su - 1) sv ++ (if su = sv then [] else [sv - su])
        else [su * sv] :=
  weight2dFilePinned_rect g su sv h hu hv

/-- … hence on EVERY non-square rectangular file the pinned helper writes another file than the repaired one
    (`weight2d_repaired_all_sizes`: `size_u` lines of `size_v` points). -/
theorem weight2d_pinned_refutes_all_nonsquare (g : List (List (List K))) (su sv : ℕ) (h : Rect2d g su sv)
    (hu : 0 < su) (hv : 0 < sv) (hne : su ≠ sv) : weight2dFilePinned (file2Of g) ≠ weight2dFile (file2Of g) :=
  weight2dFilePinned_nonsquare g su sv h hu hv hne

/-- non-vacuity: a 2 x 3 array over ℚ -/
example : Rect2d ([[[0, 0, 0, 1], [0, 1, 0, 2], [0, 2, 0, 3]], [[1, 0, 0, 1], [1, 1, 0, 1/2], [1, 2, 0, 1]]] : List (List (List ℚ))) 2 3 :=
  ⟨rfl, by decide⟩

/-! ## the dict form behind JSON / YAML / libconfig -/

/-- JSON: `import_json (export_json x)` is `x` in rational form with normalised knot vectors, the sampling
    density `delta` (or the `delta=` keyword when it lies in (0,1)), the sense flags and the trims (spline,
    freeform, container; each in rational form), for curves, surfaces, volumes and containers of any length,
    in container order.  TOTALITY: `importShapes` has no guard of its own and `Shapes.Ok` only asks for non-zero
    weights, so this identity also covers records the real importer would refuse (degree 0, a knot vector of equal
    knots – "imported" with the model's `x / 0 = 0` – too few knots); it is meant for, and the harness only feeds it,
    records exported from valid library objects.  The `*_same_points` versions below carry well-formedness (`EvalOk`:
    `len(U) = n + p + 1`, sorted knots with a non-degenerate range, net size) for the evaluated statement. -/
theorem json_export_import (ov : Option K) (x : Shapes K) (h : Shapes.Ok x) :
    importShapes ov (exportShapes x) = x.asRational ov :=
  dict_shapes ov x h

/-- the record carries the element count and one record per element
    (Unfolding lemma (the exporter writes `len(data)` next to `data`).) -/
theorem json_count (x : Shapes K) :
    (match exportShapes x with
      | .curve n d => n = d.length
      | .surface n d => n = d.length
      | .volume n d => n = d.length) := by
  cases x <;> simp [exportShapes]

/-- the `control_points` of a record are the unweighted points in the library's order plus the weights; what the
    importer stores from them is the exported homogeneous net -/
theorem json_control_points (rational : Bool) (net : List (List K)) (h : rational = true → WeightsOk net) :
    recNet (recPoints rational net) (recWeights rational net) = homNet rational net :=
  recNet_rec rational net h

/-! ## "up to": what `asRational` changes -/

/-- a knot vector that is already normalised (the library's default) comes back unchanged -/
theorem knots_unchanged_when_normalised (U : List K) (h0 : U.headD 0 = 0) (h1 : U.getLastD 0 = 1) :
    knotNormalize U = U := knotNormalize_of_unit U h0 h1

/-- a rational surface with normalised knot vectors comes back identical -/
theorem rational_normalised_surface_unchanged (s : Srf K) (hr : s.rational = true)
    (hu0 : s.knotsU.headD 0 = 0) (hu1 : s.knotsU.getLastD 0 = 1) (hv0 : s.knotsV.headD 0 = 0) (hv1 : s.knotsV.getLastD 0 = 1) :
    s.asRational = s := by
  cases s
  simp_all [Srf.asRational, homNet, knotNormalize_of_unit]

/-- a non-rational shape comes back with every control point extended by the weight 1 -/
theorem nonrational_comes_back_with_unit_weights (net : List (List K)) :
    homNet false net = net.map (· ++ [1]) := by
  simp [homNet, combine_ones]

/-- reading twice does not normalise further: the normalisation is idempotent -/
theorem knotNormalize_idempotent (U : List K) (hne : U.headD 0 ≠ U.getLastD 0) :
    knotNormalize (knotNormalize U) = knotNormalize U := knotNormalize_idem U hne

/-! ## hence evaluating to the same points -/

/-- the reimported shape has the exported homogeneous net and the normalised knot vectors `(U - a)/(b - a)`; A3.1 on
    that data at the normalised parameter returns the point of the exported curve at `u` (span `k`) -/
theorem curve_point_after_import (p : ℕ) (U : ℕ → K) (P : List (List K)) (k : ℕ) (u a b : K) (hab : a ≠ b) :
    curvePointAt p (fun i => (U i - a) / (b - a)) P k ((u - a) / (b - a)) = curvePointAt p U P k u :=
  curvePointAt_normalised p U P k u a b hab

/-- the same for surfaces (A3.5), each direction with its own knot range -/
theorem surface_point_after_import (pu pv : ℕ) (Uu Uv : ℕ → K) (sv : ℕ) (P : List (List K)) (ku kv : ℕ)
    (u v a b c d : K) (hab : a ≠ b) (hcd : c ≠ d) :
    surfacePointAt pu pv (fun i => (Uu i - a) / (b - a)) (fun i => (Uv i - c) / (d - c)) sv P ku kv
        ((u - a) / (b - a)) ((v - c) / (d - c))
      = surfacePointAt pu pv Uu Uv sv P ku kv u v :=
  surfacePointAt_normalised pu pv Uu Uv sv P ku kv u v a b c d hab hcd

/-- and volumes -/
theorem volume_point_after_import (pu pv pw : ℕ) (Uu Uv Uw : ℕ → K) (su sv : ℕ) (P : List (List K)) (ku kv kw : ℕ)
    (u v w a b c d e f : K) (hab : a ≠ b) (hcd : c ≠ d) (hef : e ≠ f) :
    volumePointAt pu pv pw (fun i => (Uu i - a) / (b - a)) (fun i => (Uv i - c) / (d - c)) (fun i => (Uw i - e) / (f - e))
        su sv P ku kv kw ((u - a) / (b - a)) ((v - c) / (d - c)) ((w - e) / (f - e))
      = volumePointAt pu pv pw Uu Uv Uw su sv P ku kv kw u v w :=
  volumePointAt_normalised pu pv pw Uu Uv Uw su sv P ku kv kw u v w a b c d e f hab hcd hef

/-! ## ... END-TO-END: `evaluate_single` of the reimported shape

`Crv.point` / `Srf.point` / `Vol.point` (`Lemmas/ExchangeAssemble.lean`) are what `evaluate_single` runs on a shape
record: the library's span search (`findSpanLinear`) in every direction, A3.1 / A3.5 / the volume evaluation on the
stored net (`Geomdl.curvePoint`, `surfacePoint`, `volumePoint`), and the division by the weight (`project`) iff the
shape is rational.  `normParam U u = (u - U_first)/(U_last - U_first)` is the parameter of the reimported shape that
corresponds to `u`; `InDomain p U n u` says `U_p ≤ u ≤ U_n`.  `EvalOk d` = the setters' guard `kvOk` per direction,
a non-empty last span of the domain per direction, net of the right size, all stored points of one length `d`, and for a
rational record POSITIVE weights (`wpos`; statement audit 5: with weights of mixed sign the weight function can vanish in
the domain, `evaluate_single` / `derivatives` of the exported and of the reimported shape then raise `ZeroDivisionError`
– the ops `ceval`, `cders`, … answer `ERR` – while export and import succeed; the pure import∘export identities above
do not need it). -/
section endToEnd
variable [IsStrictOrderedRing K]

/-- **curves, rational or not**: the shape every reader returns for an exported curve (`asRational`: homogeneous net
    - unit weights if the input was not rational -, knot vector normalised) evaluates at the normalised parameter to
    the point of the exported curve at `u`, for EVERY `u` of the closed domain (span search included). -/
theorem curve_reimport_same_point (c : Crv K) (d : ℕ) (h : c.EvalOk d) (u : K)
    (hu : InDomain c.degree c.knots c.net.length u) :
    c.asRational.point (normParam c.knots u) = c.point u :=
  Crv.asRational_point c d h u hu

/-- **surfaces, rational or not** (each direction normalised on its own range) -/
theorem surface_reimport_same_point (s : Srf K) (d : ℕ) (h : s.EvalOk d) (u v : K)
    (hu : InDomain s.degU s.knotsU s.sizeU u) (hv : InDomain s.degV s.knotsV s.sizeV v) :
    s.asRational.point (normParam s.knotsU u) (normParam s.knotsV v) = s.point u v :=
  Srf.asRational_point s d h u v hu hv

/-- **volumes, rational or not** -/
theorem volume_reimport_same_point (x : Vol K) (d : ℕ) (h : x.EvalOk d) (u v w : K)
    (hu : InDomain x.degU x.knotsU x.sizeU u) (hv : InDomain x.degV x.knotsV x.sizeV v)
    (hw : InDomain x.degW x.knotsW x.sizeW w) :
    x.asRational.point (normParam x.knotsU u) (normParam x.knotsV v) (normParam x.knotsW w) = x.point u v w :=
  Vol.asRational_point x d h u v w hu hv hw

/-- the parameters correspond one to one: `normParam` maps the exported domain into the reimported one, and every
    parameter `t` of the reimported domain is `normParam` of the exported parameter `U_first + t (U_last - U_first)` -
    so the three theorems above speak about every point of the reimported shape, too. -/
theorem reimport_parameter_correspondence (p : ℕ) (U : List K) (n : ℕ) (h : kvOk p U n = true)
    (hlast : fnOf U (n - 1) < fnOf U n) :
    (∀ u, InDomain p U n u → InDomain p (knotNormalize U) n (normParam U u)) ∧
    (∀ t, InDomain p (knotNormalize U) n t →
      InDomain p U n (U.headD 0 + t * (U.getLastD 0 - U.headD 0)) ∧
        normParam U (U.headD 0 + t * (U.getLastD 0 - U.headD 0)) = t) := by
  obtain ⟨_, hne, hr⟩ := kvWF_of_kvOk p U n h hlast
  exact ⟨fun u hu => normParam_inDomain p U n u hne hr hu, fun t ht => normParam_surj p U n t hne hr ht⟩

/-- **smesh, export → import → evaluate**: reading the file `export_smesh` wrote and evaluating the result at the
    normalised parameters gives the point of the exported surface, every `(u, v)` of the domain. -/
theorem smesh_export_import_same_point (s : Srf K) (d : ℕ) (h : s.EvalOk d)
    (hw : s.rational = true → WeightsOk s.net) (hd : dimOf s.rational s.net = 3) (u v : K)
    (hu : InDomain s.degU s.knotsU s.sizeU u) (hv : InDomain s.degV s.knotsV s.sizeV v) :
    (smeshRead (smeshWrite s)).map (fun s' => s'.point (normParam s.knotsU u) (normParam s.knotsV v))
      = some (s.point u v) := by
  rw [smesh_roundtrip s h.len hw hd h.kvU h.kvV, Option.map_some, Srf.asRational_point s d h u v hu hv]

/-- **vmesh (repaired reader), export → import → evaluate** -/
theorem vmesh_export_import_same_point (x : Vol K) (d : ℕ) (h : x.EvalOk d)
    (hw : x.rational = true → WeightsOk x.net) (hd : dimOf x.rational x.net = 3) (u v w : K)
    (hu : InDomain x.degU x.knotsU x.sizeU u) (hv : InDomain x.degV x.knotsV x.sizeV v)
    (hww : InDomain x.degW x.knotsW x.sizeW w) :
    (vmeshRead (vmeshWrite x)).map
        (fun x' => x'.point (normParam x.knotsU u) (normParam x.knotsV v) (normParam x.knotsW w))
      = some (x.point u v w) := by
  rw [vmesh_roundtrip x h.len hw hd h.kvU h.kvV h.kvW, Option.map_some, Vol.asRational_point x d h u v w hu hv hww]

/-- **containers of surfaces, one smesh file per element**: the surfaces read back correspond to the exported ones
    in container order, and each evaluates to the same points (`Srf.SamePoints s' s`: for every `(u, v)` of the
    domain of `s`, `s'` at the normalised parameters = `s` at `(u, v)`).  The length `d` of the stored points is
    per element: a container may mix BSpline and NURBS surfaces (`multi.AbstractContainer.add` only compares the
    spatial dimension), whose stored points have 3 resp. 4 coordinates. -/
theorem smesh_container_same_points (l : List (Srf K))
    (h : ∀ s ∈ l, (∃ d, s.EvalOk d) ∧ (s.rational = true → WeightsOk s.net) ∧ dimOf s.rational s.net = 3) :
    ∃ l', smeshReadAll (smeshWriteAll l) = some l' ∧ List.Forall₂ Srf.SamePoints l' l :=
  ⟨l.map Srf.asRational,
   readAll_of l smeshWrite smeshRead Srf.asRational
     (fun s hs => by
       obtain ⟨d, hd⟩ := (h s hs).1
       exact smesh_roundtrip s hd.len (h s hs).2.1 (h s hs).2.2 hd.kvU hd.kvV),
   forall₂_map_of l _ _ (fun s hs u v hu hv => by
     obtain ⟨d, hd⟩ := (h s hs).1
     exact Srf.asRational_point s d hd u v hu hv)⟩

/-- **containers of volumes, one vmesh file per element** (point length per element, as above) -/
theorem vmesh_container_same_points (l : List (Vol K))
    (h : ∀ x ∈ l, (∃ d, x.EvalOk d) ∧ (x.rational = true → WeightsOk x.net) ∧ dimOf x.rational x.net = 3) :
    ∃ l', vmeshReadAll (vmeshWriteAll l) = some l' ∧ List.Forall₂ Vol.SamePoints l' l :=
  ⟨l.map Vol.asRational,
   readAll_of l vmeshWrite vmeshRead Vol.asRational
     (fun x hx => by
       obtain ⟨d, hd⟩ := (h x hx).1
       exact vmesh_roundtrip x hd.len (h x hx).2.1 (h x hx).2.2 hd.kvU hd.kvV hd.kvW),
   forall₂_map_of l _ _ (fun x hx u v w hu hv hw => by
     obtain ⟨d, hd⟩ := (h x hx).1
     exact Vol.asRational_point x d hd u v w hu hv hw)⟩

/-- **JSON / YAML / cfg (dict form), curves and containers of curves**: the imported shapes correspond to the exported
    ones in container order and each evaluates to the same points (point length `d` per element: a container may mix
    rational and non-rational shapes). -/
theorem json_export_import_same_points_curves (ov : Option K) (l : List (CrvX K))
    (h : Shapes.Ok (.curves l)) (he : ∀ c ∈ l, ∃ d, c.g.EvalOk d) :
    ∃ l', importShapes ov (exportShapes (.curves l)) = .curves l' ∧
      List.Forall₂ (fun c' c => Crv.SamePoints c'.g c.g) l' l :=
  ⟨l.map (CrvX.asRational ov), dict_shapes ov (.curves l) h,
   forall₂_map_of l _ _ (fun c hc u hu => by
     obtain ⟨d, hd⟩ := he c hc
     exact Crv.asRational_point c.g d hd u hu)⟩

/-- **dict form, surfaces** (the trims travel with the surface, `json_export_import`; the statement here is about
    the surface points) -/
theorem json_export_import_same_points_surfaces (ov : Option K) (l : List (SrfX K))
    (h : Shapes.Ok (.surfaces l)) (he : ∀ s ∈ l, ∃ d, s.g.EvalOk d) :
    ∃ l', importShapes ov (exportShapes (.surfaces l)) = .surfaces l' ∧
      List.Forall₂ (fun s' s => Srf.SamePoints s'.g s.g) l' l :=
  ⟨l.map (SrfX.asRational ov), dict_shapes ov (.surfaces l) h,
   forall₂_map_of l _ _ (fun s hs u v hu hv => by
     obtain ⟨d, hd⟩ := he s hs
     exact Srf.asRational_point s.g d hd u v hu hv)⟩

/-- **dict form, volumes** -/
theorem json_export_import_same_points_volumes (ov : Option K) (l : List (VolX K))
    (h : Shapes.Ok (.volumes l)) (he : ∀ x ∈ l, ∃ d, x.g.EvalOk d) :
    ∃ l', importShapes ov (exportShapes (.volumes l)) = .volumes l' ∧
      List.Forall₂ (fun x' x => Vol.SamePoints x'.g x.g) l' l :=
  ⟨l.map (VolX.asRational ov), dict_shapes ov (.volumes l) h,
   forall₂_map_of l _ _ (fun x hx u v w hu hv hw => by
     obtain ⟨d, hd⟩ := he x hx
     exact Vol.asRational_point x.g d hd u v w hu hv hw)⟩

/-- a spline trim curve of a surface comes back (without the `delta` override) as a curve with the same points -/
theorem json_trim_curve_same_points (c : CrvX K) (d : ℕ) (h : Trim.Ok (.spline c)) (he : c.g.EvalOk d) :
    ∃ c', importTrim (exportTrim (.spline c)) = .spline c' ∧ Crv.SamePoints c'.g c.g :=
  ⟨c.asRational none, dict_trim (.spline c) h, fun u hu => Crv.asRational_point c.g d he u hu⟩

/-! ### derivatives of the reimported shape

`Crv.ders c u order` / `Srf.ders s u v order tri` (`Lemmas/ExchangeDers*.lean`) are what `derivatives` runs on a shape
record: span search, A3.2 (`Geomdl.curveDers`) resp. the table of mixed derivatives A3.6 (`Geomdl.surfaceDersAt`; `tri`:
the triangular table of the alternative evaluator) on the stored net, then A4.2 / A4.4 (`ratCurveDers`,
`ratSurfaceDers`) iff the shape is rational.  "Up to rational form" does two things to them:

* the UNIT WEIGHTS a non-rational shape comes back with change nothing (`unit_weights_keep_*`);
* the NORMALISED knot vector is a change of parameter `t = (u - U_first)/(U_last - U_first)`: the derivative of order `k`
  (cell `[k][l]`) of the reimported shape is the exported one multiplied by `(U_last - U_first)ᵏ` (resp.
  `(lastU - firstU)ᵏ (lastV - firstV)ˡ`) – `scaleJet c L` multiplies entry `k` of `L` by `cᵏ`, `scaleJet2 cu cv T` cell
  `[k][l]` of `T` by `cuᵏ cvˡ` (`derivative_scaling_means`).  The SAME vectors come back iff the knot vectors already are
  normalised (the library's default) – `*_when_normalised`. -/

/-- what the scaling of a list / table of derivatives is.  (Unfolding lemma.) -/
theorem derivative_scaling_means (c cu cv : K) (L : List (List K)) (T : List (List (List K))) (k l : ℕ) :
    (scaleJet c L).getD k [] = vsmul (c ^ k) (L.getD k []) ∧
    ((scaleJet2 cu cv T).getD k []).getD l [] = vsmul (cu ^ k * cv ^ l) ((T.getD k []).getD l []) :=
  ⟨scaleJet_getD c L k, scaleJet2_getD cu cv T k l⟩

/-- **unit weights, curves**: A3.2 on the homogeneous net the readers store (`homNet`: the stored net of a rational
    curve, the points extended by the weight 1 otherwise) followed by A4.2 gives, with the SAME knots at the SAME
    parameter, the derivatives of the exported curve – all orders, every parameter of the closed domain. -/
theorem unit_weights_keep_curve_derivatives (c : Crv K) (d : ℕ) (h : c.EvalOk d) (u : K)
    (hu : InDomain c.degree c.knots c.net.length u) (order : ℕ) :
    ratCurveDers (curveDers c.degree (fnOf c.knots) (homNet c.rational c.net) u order) = c.ders u order :=
  Crv.ders_unit_weights c d h u hu order

/-- **curves, export → import → derivatives**: the shape every reader returns for an exported curve, at the normalised
    parameter, has the derivatives of the exported curve at `u`, order `k` multiplied by `(U_last - U_first)ᵏ`. -/
theorem curve_reimport_derivatives (c : Crv K) (d : ℕ) (h : c.EvalOk d) (u : K)
    (hu : InDomain c.degree c.knots c.net.length u) (order : ℕ) :
    c.asRational.ders (normParam c.knots u) order
      = scaleJet (c.knots.getLastD 0 - c.knots.headD 0) (c.ders u order) :=
  Crv.asRational_ders c d h u hu order

/-- a curve on a normalised knot vector comes back with the same derivatives at the same parameter -/
theorem curve_reimport_same_derivatives_when_normalised (c : Crv K) (d : ℕ) (h : c.EvalOk d) (u : K)
    (hu : InDomain c.degree c.knots c.net.length u) (order : ℕ)
    (h0 : c.knots.headD 0 = 0) (h1 : c.knots.getLastD 0 = 1) :
    c.asRational.ders u order = c.ders u order :=
  Crv.asRational_ders_normalised c d h u hu order h0 h1

/-- **unit weights, surfaces**: the whole table of mixed derivatives, both evaluator variants. -/
theorem unit_weights_keep_surface_derivatives (s : Srf K) (d : ℕ) (h : s.EvalOk d) (u v : K)
    (hu : InDomain s.degU s.knotsU s.sizeU u) (hv : InDomain s.degV s.knotsV s.sizeV v) (order : ℕ) (tri : Bool) :
    ratSurfaceDers (surfaceDersAt s.degU s.degV (fnOf s.knotsU) (fnOf s.knotsV) s.sizeV (homNet s.rational s.net)
      (findSpanLinear s.degU (fnOf s.knotsU) s.sizeU u) (findSpanLinear s.degV (fnOf s.knotsV) s.sizeV v) u v order tri) order
      = s.ders u v order tri :=
  Srf.ders_unit_weights s d h u v hu hv order tri

/-- **surfaces, export → import → derivatives**: cell `[k][l]` of the reimported surface at the normalised parameters
    is the cell of the exported surface at `(u, v)` multiplied by `(lastU - firstU)ᵏ (lastV - firstV)ˡ`. -/
theorem surface_reimport_derivatives (s : Srf K) (d : ℕ) (h : s.EvalOk d) (u v : K)
    (hu : InDomain s.degU s.knotsU s.sizeU u) (hv : InDomain s.degV s.knotsV s.sizeV v) (order : ℕ) (tri : Bool) :
    s.asRational.ders (normParam s.knotsU u) (normParam s.knotsV v) order tri
      = scaleJet2 (s.knotsU.getLastD 0 - s.knotsU.headD 0) (s.knotsV.getLastD 0 - s.knotsV.headD 0)
          (s.ders u v order tri) :=
  Srf.asRational_ders s d h u v hu hv order tri

/-- a surface on normalised knot vectors comes back with the same table of derivatives -/
theorem surface_reimport_same_derivatives_when_normalised (s : Srf K) (d : ℕ) (h : s.EvalOk d) (u v : K)
    (hu : InDomain s.degU s.knotsU s.sizeU u) (hv : InDomain s.degV s.knotsV s.sizeV v) (order : ℕ) (tri : Bool)
    (hu0 : s.knotsU.headD 0 = 0) (hu1 : s.knotsU.getLastD 0 = 1) (hv0 : s.knotsV.headD 0 = 0)
    (hv1 : s.knotsV.getLastD 0 = 1) :
    s.asRational.ders u v order tri = s.ders u v order tri :=
  Srf.asRational_ders_normalised s d h u v hu hv order tri hu0 hu1 hv0 hv1

/-- **smesh, export → import → derivatives** -/
theorem smesh_export_import_derivatives (s : Srf K) (d : ℕ) (h : s.EvalOk d)
    (hw : s.rational = true → WeightsOk s.net) (hd : dimOf s.rational s.net = 3) (u v : K)
    (hu : InDomain s.degU s.knotsU s.sizeU u) (hv : InDomain s.degV s.knotsV s.sizeV v) (order : ℕ) (tri : Bool) :
    (smeshRead (smeshWrite s)).map (fun s' => s'.ders (normParam s.knotsU u) (normParam s.knotsV v) order tri)
      = some (scaleJet2 (s.knotsU.getLastD 0 - s.knotsU.headD 0) (s.knotsV.getLastD 0 - s.knotsV.headD 0)
          (s.ders u v order tri)) := by
  rw [smesh_roundtrip s h.len hw hd h.kvU h.kvV, Option.map_some, Srf.asRational_ders s d h u v hu hv order tri]

/-- **JSON / YAML / cfg (dict form), curves and containers of curves**: the imported curves correspond to the exported
    ones in container order, and each has – at the normalised parameter – the derivatives of the exported one, scaled as
    above (point length `d` per element). -/
theorem json_export_import_derivatives_curves (ov : Option K) (l : List (CrvX K))
    (h : Shapes.Ok (.curves l)) (he : ∀ c ∈ l, ∃ d, c.g.EvalOk d) :
    ∃ l', importShapes ov (exportShapes (.curves l)) = .curves l' ∧
      List.Forall₂ (fun c' c => ∀ u, InDomain c.g.degree c.g.knots c.g.net.length u → ∀ order,
        c'.g.ders (normParam c.g.knots u) order
          = scaleJet (c.g.knots.getLastD 0 - c.g.knots.headD 0) (c.g.ders u order)) l' l :=
  ⟨l.map (CrvX.asRational ov), dict_shapes ov (.curves l) h,
   forall₂_map_of l _ _ (fun c hc u hu order => by
     obtain ⟨d, hd⟩ := he c hc
     exact Crv.asRational_ders c.g d hd u hu order)⟩

/-- **dict form, surfaces and containers of surfaces** -/
theorem json_export_import_derivatives_surfaces (ov : Option K) (l : List (SrfX K))
    (h : Shapes.Ok (.surfaces l)) (he : ∀ s ∈ l, ∃ d, s.g.EvalOk d) :
    ∃ l', importShapes ov (exportShapes (.surfaces l)) = .surfaces l' ∧
      List.Forall₂ (fun s' s => ∀ u v, InDomain s.g.degU s.g.knotsU s.g.sizeU u → InDomain s.g.degV s.g.knotsV s.g.sizeV v →
        ∀ order tri, s'.g.ders (normParam s.g.knotsU u) (normParam s.g.knotsV v) order tri
          = scaleJet2 (s.g.knotsU.getLastD 0 - s.g.knotsU.headD 0) (s.g.knotsV.getLastD 0 - s.g.knotsV.headD 0)
              (s.g.ders u v order tri)) l' l :=
  ⟨l.map (SrfX.asRational ov), dict_shapes ov (.surfaces l) h,
   forall₂_map_of l _ _ (fun s hs u v hu hv order tri => by
     obtain ⟨d, hd⟩ := he s hs
     exact Srf.asRational_ders s.g d hd u v hu hv order tri)⟩

end endToEnd

/-! ## non-vacuity: a concrete 2 x 3 rational surface satisfies every hypothesis of `smesh_export_import` -/
def srfWitness : Srf ℚ :=
  { rational := true, degU := 1, degV := 2, sizeU := 2, sizeV := 3,
    knotsU := [0, 0, 1, 1], knotsV := [0, 0, 0, 1, 1, 1],
    net := [[0, 0, 0, 1/2], [0, 1, 0, 1], [0, 2, 0, 3/2], [1, 0, 0, 1], [1, 1, 1/3, 3/2], [1, 2, 2/3, 2]] }

example : srfWitness.net.length = srfWitness.sizeU * srfWitness.sizeV ∧ (srfWitness.rational = true → WeightsOk srfWitness.net) ∧
    dimOf srfWitness.rational srfWitness.net = 3 ∧
    kvOk srfWitness.degU srfWitness.knotsU srfWitness.sizeU = true ∧ kvOk srfWitness.degV srfWitness.knotsV srfWitness.sizeV = true := by
  refine ⟨rfl, ?_, rfl, by decide, by decide⟩
  intro _ p hp
  simp only [srfWitness, List.mem_cons, List.not_mem_nil, or_false] at hp
  rcases hp with rfl | rfl | rfl | rfl | rfl | rfl <;> exact ⟨by simp, by norm_num [List.getLastD]⟩

/-! non-vacuity of the end-to-end statements: a NON-rational 2 x 4 surface on the knot ranges `[2, 5]` and `[-1, 3]`
(so both the unit weights and the normalisation matter), and the rational witness above -/
def srfPlain : Srf ℚ :=
  { rational := false, degU := 1, degV := 2, sizeU := 2, sizeV := 4,
    knotsU := [2, 2, 5, 5], knotsV := [-1, -1, -1, 1, 3, 3, 3],
    net := [[0, 0, 0], [0, 1, 0], [0, 2, 0], [0, 3, 1], [1, 0, 0], [1, 1, 1/3], [1, 2, 2/3], [1, 3, 5]] }

/-- non-vacuity witness: the hypothesis bundle `EvalOk` holds for the concrete non-rational surface above
    (closed statement, decided by evaluation) -/
theorem srfPlain_evalOk : srfPlain.EvalOk 3 :=
  ⟨rfl, by decide +kernel, by decide +kernel, by decide +kernel, by decide +kernel, by unfold Geomdl.NetOk; decide, by decide +kernel⟩

/-- non-vacuity witness: `EvalOk` holds for the concrete rational surface above (closed statement, decided by evaluation) -/
theorem srfWitness_evalOk : srfWitness.EvalOk 4 :=
  ⟨rfl, by decide +kernel, by decide +kernel, by decide +kernel, by decide +kernel, by unfold Geomdl.NetOk; decide, by decide +kernel⟩

/-- the parameter `(3, 2)` of the exported surface is `(1/3, 3/4)` on the reimported one; the common point -/
example : (smeshRead (smeshWrite srfPlain)).map (fun s' => s'.point (normParam [2, 2, 5, 5] 3) (normParam [-1, -1, -1, 1, 3, 3, 3] 2))
    = some (srfPlain.point 3 2) :=
  smesh_export_import_same_point srfPlain 3 srfPlain_evalOk (fun h => absurd h (by decide)) rfl 3 2
    ⟨by decide +kernel, by decide +kernel⟩ ⟨by decide +kernel, by decide +kernel⟩

example : normParam ([2, 2, 5, 5] : List ℚ) 3 = 1/3 ∧ normParam ([-1, -1, -1, 1, 3, 3, 3] : List ℚ) 2 = 3/4 ∧
    srfPlain.point 3 2 = [1/3, 17/8, 53/72] := by decide +kernel

/-- the right end of both directions (the last span, closed on the right) -/
example : (smeshRead (smeshWrite srfPlain)).map (fun s' => s'.point (normParam [2, 2, 5, 5] 5) (normParam [-1, -1, -1, 1, 3, 3, 3] 3))
    = some (srfPlain.point 5 3) :=
  smesh_export_import_same_point srfPlain 3 srfPlain_evalOk (fun h => absurd h (by decide)) rfl 5 3
    ⟨by decide +kernel, by decide +kernel⟩ ⟨by decide +kernel, by decide +kernel⟩

/-- non-vacuity witness: the weights of the rational witness are non-zero (closed statement) -/
theorem srfWitness_weights : srfWitness.rational = true → WeightsOk srfWitness.net := by
  intro _ p hp
  simp only [srfWitness, List.mem_cons, List.not_mem_nil, or_false] at hp
  rcases hp with rfl | rfl | rfl | rfl | rfl | rfl <;> exact ⟨by simp, by norm_num [List.getLastD]⟩

/-- a MIXED container (the rational witness and the non-rational surface: stored points of length 4 and 3): the
    smesh container theorem and the dict-form theorem apply – with one common `d` they could not -/
example : ∃ l', smeshReadAll (smeshWriteAll [srfWitness, srfPlain]) = some l' ∧
    List.Forall₂ Srf.SamePoints l' [srfWitness, srfPlain] :=
  smesh_container_same_points [srfWitness, srfPlain] (by
    intro s hs
    simp only [List.mem_cons, List.not_mem_nil, or_false] at hs
    rcases hs with rfl | rfl
    · exact ⟨⟨4, srfWitness_evalOk⟩, srfWitness_weights, rfl⟩
    · exact ⟨⟨3, srfPlain_evalOk⟩, fun h => absurd h (by decide), rfl⟩)

def mixedSrfs : List (SrfX ℚ) :=
  [{ g := srfWitness, delta := (1/10, 1/20), reversed := some false, trims := [] },
   { g := srfPlain, delta := (1/4, 1/4), reversed := none, trims := [] }]

example : ∃ l', importShapes (some (1/3 : ℚ)) (exportShapes (.surfaces mixedSrfs)) = .surfaces l' ∧
    List.Forall₂ (fun s' s => Srf.SamePoints s'.g s.g) l' mixedSrfs :=
  json_export_import_same_points_surfaces (some (1/3)) mixedSrfs (by
    intro s hs
    simp only [mixedSrfs, List.mem_cons, List.not_mem_nil, or_false] at hs
    rcases hs with rfl | rfl
    · exact ⟨srfWitness_weights, fun t ht => by simp at ht⟩
    · exact ⟨fun h => absurd h (by decide), fun t ht => by simp at ht⟩) (by
    intro s hs
    simp only [mixedSrfs, List.mem_cons, List.not_mem_nil, or_false] at hs
    rcases hs with rfl | rfl
    · exact ⟨4, srfWitness_evalOk⟩
    · exact ⟨3, srfPlain_evalOk⟩)

/-! non-vacuity of the derivative statements: the non-rational `srfPlain` (knot ranges `[2,5]`, `[-1,3]`: factors 3 and 4)
and a non-rational quadratic curve on `[1,3]` (factor 2) -/

example : (smeshRead (smeshWrite srfPlain)).map
      (fun s' => s'.ders (normParam [2, 2, 5, 5] 3) (normParam [-1, -1, -1, 1, 3, 3, 3] 2) 2 false)
    = some (scaleJet2 3 4 (srfPlain.ders 3 2 2 false)) := by
  have h := smesh_export_import_derivatives srfPlain 3 srfPlain_evalOk (fun h => absurd h (by decide)) rfl 3 2
    ⟨by decide +kernel, by decide +kernel⟩ ⟨by decide +kernel, by decide +kernel⟩ 2 false
  have e1 : srfPlain.knotsU.getLastD 0 - srfPlain.knotsU.headD 0 = 3 := by decide +kernel
  have e2 : srfPlain.knotsV.getLastD 0 - srfPlain.knotsV.headD 0 = 4 := by decide +kernel
  rw [e1, e2] at h
  exact h

/-- concretely: `∂S/∂u` of the exported surface at `(3, 2)` and of the reimported one at `(1/3, 3/4)` differ by the factor 3,
    `∂S/∂v` by the factor 4 (the reimported surface is rational with unit weights: A4.4 is run on it) -/
example : ((srfPlain.ders 3 2 1 false).getD 1 []).getD 0 [] = [1/3, 0, 35/72] ∧
    ((srfPlain.asRational.ders (1/3) (3/4) 1 false).getD 1 []).getD 0 [] = [1, 0, 35/24] ∧
    ((srfPlain.ders 3 2 1 false).getD 0 []).getD 1 [] = [0, 3/4, 13/12] ∧
    ((srfPlain.asRational.ders (1/3) (3/4) 1 false).getD 0 []).getD 1 [] = [0, 3, 13/3] := by decide +kernel

def crvPlain : Crv ℚ :=
  { rational := false, degree := 2, knots := [1, 1, 1, 2, 3, 3, 3], net := [[0, 0], [1, 2], [3, 2], [4, 0]] }

/-- non-vacuity witness: `EvalOk` holds for the curve above (closed statement, decided by evaluation) -/
theorem crvPlain_evalOk : crvPlain.EvalOk 2 :=
  ⟨by decide +kernel, by decide +kernel, by unfold Geomdl.NetOk; decide, by decide +kernel⟩

example : crvPlain.asRational.ders (normParam [1, 1, 1, 2, 3, 3, 3] (5/2)) 3 = scaleJet 2 (crvPlain.ders (5/2) 3) := by
  have h := curve_reimport_derivatives crvPlain 2 crvPlain_evalOk (5/2) ⟨by decide +kernel, by decide +kernel⟩ 3
  have e1 : crvPlain.knots.getLastD 0 - crvPlain.knots.headD 0 = 2 := by decide +kernel
  rw [e1] at h
  exact h

/-- concretely: point, first and second derivative at `5/2` resp. `3/4` – factors 1, 2, 4; the third derivative of the
    quadratic is zero on both sides -/
example : crvPlain.ders (5/2) 3 = [[3, 3/2], [2, -2], [0, -4], [0, 0]] ∧
    crvPlain.asRational.ders (3/4) 3 = [[3, 3/2], [4, -4], [0, -16], [0, 0]] ∧
    normParam [1, 1, 1, 2, 3, 3, 3] (5/2 : ℚ) = 3/4 := by decide +kernel

end C14
