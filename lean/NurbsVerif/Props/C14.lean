import NurbsVerif.Lemmas.Exchange
import NurbsVerif.Lemmas.ExchangeEval
import Mathlib.Algebra.Order.Field.Rat
import Mathlib.Tactic.NormNum

/-!
# C14  Export followed by import reproduces the geometry

Property theorems only (helper lemmas live in `Lemmas/Exchange*.lean`).  The model
(`Model/Exchange.lean`) is token level: numbers are abstract tokens of a field `K` (printing and
parsing one number is trusted to round-trip up to the printed precision and is not modelled); what is
modelled and proved is the structure of every format: which numbers are written in which order
(row/column order, the flips between the library's v-row order and the u-row order of the mesh files,
`(xw,yw,zw,w)` versus `(x,y,z,w)`), the headers, the enumeration of container elements, and how the
readers reassemble the shapes.  "Same shape" means: the reimported shape is the rational form of the
exported one (`asRational`: a non-rational shape comes back with unit weights, knot vectors come back
normalised - both are what the readers' setters do), for every degree, size triple, net and container
length.  The vmesh reader and the 2-D file saver are modelled as REPAIRED; the pinned ones are refuted on
concrete files by `decide`.
-/
namespace C14
open Geomdl Geomdl.Exch
variable {K : Type} [Field K] [LinearOrder K]

/-! ## surface mesh files -/

/-- smesh: `import_smesh (export_smesh s)` is `s` as a rational surface (same degrees, sizes, homogeneous
    control points hence same points and weights, normalised knot vectors), for all sizes. -/
theorem smesh_export_import (s : Srf K) (hl : s.net.length = s.sizeU * s.sizeV)
    (hw : s.rational = true → WeightsOk s.net) (hd : dimOf s.rational s.net = 3)
    (hu : kvOk s.degU s.knotsU s.sizeU = true) (hv : kvOk s.degV s.knotsV s.sizeV = true) :
    smeshRead (smeshWrite s) = some s.asRational :=
  smesh_roundtrip s hl hw hd hu hv

/-- documented order of the smesh file: after the five header lines, line `u + v*size_u` (u-row order) holds
    control point `(u, v)` - entry `v + u*size_v` of the library's net - in the form `(x, y, z, w)`. -/
theorem smesh_row_order (s : Srf K) (u v : Nat) (hu : u < s.sizeU) (hv : v < s.sizeV) :
    (smeshWrite s).getD (5 + (u + v * s.sizeU)) []
      = (unweightPt ((homNet s.rational s.net).getD (v + u * s.sizeV) [])).map Tok.num := by
  have hlt : u + v * s.sizeU < s.sizeU * s.sizeV := by
    have := idx_lt hv hu
    rw [Nat.mul_comm s.sizeU]; omega
  unfold smeshWrite
  simp only [List.cons_append, List.nil_append, List.getD_cons_succ, 
    show 5 + (u + v * s.sizeU) = (u + v * s.sizeU) + 1 + 1 + 1 + 1 + 1 by omega]
  rw [List.getD_eq_getElem?_getD, List.getElem?_append_left (by simpa using hlt), ← List.getD_eq_getElem?_getD]
  rw [getD_map_nil _ _ (by rfl), getD_map_nil _ _ unweightPt_nil, flipCtrlpts_getD _ _ _ _ _ hu hv]

/-! ## volume mesh files -/

/-- vmesh (repaired reader, `for i in range(dim_w)`): the round trip holds for every size triple. -/
theorem vmesh_export_import (v : Vol K) (hl : v.net.length = v.sizeU * v.sizeV * v.sizeW)
    (hw : v.rational = true → WeightsOk v.net) (hd : dimOf v.rational v.net = 3)
    (hu : kvOk v.degU v.knotsU v.sizeU = true) (hv : kvOk v.degV v.knotsV v.sizeV = true)
    (hww : kvOk v.degW v.knotsW v.sizeW = true) :
    vmeshRead (vmeshWrite v) = some v.asRational :=
  vmesh_roundtrip v hl hw hd hu hv hww

/-- the 2 x 3 x 4 witness of F-14a: degrees 1,2,3, 24 control points `(i,0,0,1)` -/
def volWitness : Vol Int :=
  { rational := true, degU := 1, degV := 2, degW := 3, sizeU := 2, sizeV := 3, sizeW := 4,
    knotsU := [0, 0, 1, 1], knotsV := [0, 0, 0, 1, 1, 1], knotsW := [0, 0, 0, 0, 1, 1, 1, 1],
    net := (List.range 24).map (fun i => [(i : Int), 0, 0, 1]) }

/-- F-14a: the PINNED vmesh reader (`for i in range(dim_w - 1)`) returns 18 of the 24 exported control
    points - the last w-layer is lost while the sizes still say 2 x 3 x 4. -/
theorem vmesh_pinned_refutes_roundtrip :
    (vmeshReadPinned (vmeshWrite volWitness)).map (fun v => (v.net.length, v.sizeU * v.sizeV * v.sizeW)) = some (18, 24) := by
  decide +kernel

/-- on the same witness the repaired reader returns all 24 points (sanity of the witness) -/
theorem vmesh_repaired_on_witness :
    (vmeshRead (vmeshWrite volWitness)).map (fun v => v.net) = some volWitness.net := by
  decide +kernel

/-! ## containers: one file per element -/

/-- `export_smesh` of a container writes one file per element in container order, reading the files in that
    order gives back the elements (as rational surfaces) in the same order, for every container length. -/
theorem smesh_container (l : List (Srf K))
    (h : ∀ s ∈ l, s.net.length = s.sizeU * s.sizeV ∧ (s.rational = true → WeightsOk s.net) ∧ dimOf s.rational s.net = 3 ∧
      kvOk s.degU s.knotsU s.sizeU = true ∧ kvOk s.degV s.knotsV s.sizeV = true) :
    smeshReadAll (smeshWriteAll l) = some (l.map Srf.asRational) :=
  readAll_of l smeshWrite smeshRead Srf.asRational
    (fun s hs => smesh_roundtrip s (h s hs).1 (h s hs).2.1 (h s hs).2.2.1 (h s hs).2.2.2.1 (h s hs).2.2.2.2)

theorem vmesh_container (l : List (Vol K))
    (h : ∀ v ∈ l, v.net.length = v.sizeU * v.sizeV * v.sizeW ∧ (v.rational = true → WeightsOk v.net) ∧ dimOf v.rational v.net = 3 ∧
      kvOk v.degU v.knotsU v.sizeU = true ∧ kvOk v.degV v.knotsV v.sizeV = true ∧ kvOk v.degW v.knotsW v.sizeW = true) :
    vmeshReadAll (vmeshWriteAll l) = some (l.map Vol.asRational) :=
  readAll_of l vmeshWrite vmeshRead Vol.asRational
    (fun v hv => vmesh_roundtrip v (h v hv).1 (h v hv).2.1 (h v hv).2.2.1 (h v hv).2.2.2.1 (h v hv).2.2.2.2.1 (h v hv).2.2.2.2.2)

/-- file-name suffixes: none for a single shape, `1 … n` in container order otherwise -/
theorem container_file_suffixes {α : Type} (l : List α) :
    (enumerate l).map Prod.fst
      = if l.length > 1 then (List.range l.length).map (fun i => some (i + 1)) else l.map (fun _ => none) :=
  enumerate_map_fst l

/-! ## control point text files -/

/-- txt (1-D): one stored control point per line; reading returns the stored points -/
theorem txt_export_import (net : List (List K)) : txtRead (txtWrite net) = some net := txt_roundtrip net

/-- csv: header line, then as txt -/
theorem csv_export_import (net : List (List K)) : csvRead (csvWrite net) = some net := csv_roundtrip net

/-- txt (2-D): `size_u` lines of `size_v` points; reading returns the net in the library's order and both sizes,
    for all pairs of sizes -/
theorem txt2_export_import (net : List (List K)) (su sv : Nat) (hl : net.length = su * sv) (hu : 0 < su) :
    txt2Read (txt2Write net su sv) = some (net, su, sv) := txt2_roundtrip net su sv hl hu

/-- documented order of the 2-D file: line `u`, column `v` is control point `(u, v)` -/
theorem txt2_row_order (net : List (List K)) (su sv u v : Nat) (hu : u < su) (hv : v < sv) :
    ((txt2Write net su sv).getD u []).getD v [] = (net.getD (v + sv * u) []).map Tok.num := by
  simp [txt2Write, List.getD_eq_getElem?_getD, hu, hv]

/-! ## the 2-D file helpers of `compatibility` (F-14b) -/

/-- a 2 x 3 file of points `(10u+v, 0, 0, 1)` -/
def file23 : File2 Int :=
  (List.range 2).map (fun u => (List.range 3).map (fun v => [Tok.num (10 * (u : Int) + v), Tok.num 0, Tok.num 0, Tok.num 1]))

/-- F-14b: the PINNED `flip_ctrlpts2d_file` raises on the non-square 2 x 3 file (it indexes the flipped `[v][u]`
    array with the unflipped sizes) ... -/
theorem flip2d_pinned_refutes : flip2dFilePinned file23 = none := by decide +kernel

/-- ... and the pinned saver (separator test on `size_u`) breaks the lines of a non-square file even without a flip:
    the 2 x 3 file comes out as lines of 2, 3 and 1 points. -/
theorem save2d_pinned_refutes :
    (weight2dFilePinned file23).map (fun f => f.map List.length) = some [2, 3, 1] := by decide +kernel

/-- the repaired helper writes the transposed file: 3 lines of 2 points, entry `[v][u]` = input `[u][v]` -/
theorem flip2d_repaired_on_witness :
    flip2dFile file23 = some ((List.range 3).map (fun v => (List.range 2).map (fun u => [10 * (u : Int) + v, 0, 0, 1]))) := by
  decide +kernel

/-! ## the dict form behind JSON / YAML / libconfig -/

/-- JSON: `import_json (export_json x)` is `x` in rational form with normalised knot vectors, the sampling
    density `delta` (or the `delta=` keyword when it lies in (0,1)), the sense flags and the trims (spline,
    freeform, container; each in rational form), for curves, surfaces, volumes and containers of any length,
    in container order. -/
theorem json_export_import (ov : Option K) (x : Shapes K) (h : Shapes.Ok x) :
    importShapes ov (exportShapes x) = x.asRational ov :=
  dict_shapes ov x h

/-- the record carries the element count and one record per element -/
theorem json_count (x : Shapes K) :
    (match exportShapes x with
      | .curve n d => n = d.length
      | .surface n d => n = d.length
      | .volume n d => n = d.length) := by
  cases x <;> simp [exportShapes]

/-- the `control_points` of a record are the unweighted points in the library's order plus the weights; what the
    importer stores from them is the exported homogeneous net -/
theorem json_control_points (rational : Bool) (net : List (List K)) (h : rational = true → WeightsOk net) :
    recNet (recPoints rational net) (recWeights rational net) = homNet rational net :=
  recNet_rec rational net h

/-! ## "up to": what `asRational` changes -/

/-- a knot vector that is already normalised (the library's default) comes back unchanged -/
theorem knots_unchanged_when_normalised (U : List K) (h0 : U.headD 0 = 0) (h1 : U.getLastD 0 = 1) :
    knotNormalize U = U := knotNormalize_of_unit U h0 h1

/-- a rational surface with normalised knot vectors comes back identical -/
theorem rational_normalised_surface_unchanged (s : Srf K) (hr : s.rational = true)
    (hu0 : s.knotsU.headD 0 = 0) (hu1 : s.knotsU.getLastD 0 = 1) (hv0 : s.knotsV.headD 0 = 0) (hv1 : s.knotsV.getLastD 0 = 1) :
    s.asRational = s := by
  cases s
  simp_all [Srf.asRational, homNet, knotNormalize_of_unit]

/-- a non-rational shape comes back with every control point extended by the weight 1 -/
theorem nonrational_comes_back_with_unit_weights (net : List (List K)) :
    homNet false net = net.map (· ++ [1]) := by
  simp [homNet, combine_ones]

/-- reading twice does not normalise further: the normalisation is idempotent -/
theorem knotNormalize_idempotent (U : List K) (hne : U.headD 0 ≠ U.getLastD 0) :
    knotNormalize (knotNormalize U) = knotNormalize U := knotNormalize_idem U hne

/-! ## hence evaluating to the same points -/

/-- the reimported shape has the exported homogeneous net and the normalised knot vectors `(U - a)/(b - a)`; A3.1 on
    that data at the normalised parameter returns the point of the exported curve at `u` (span `k`) -/
theorem curve_point_after_import (p : ℕ) (U : ℕ → K) (P : List (List K)) (k : ℕ) (u a b : K) (hab : a ≠ b) :
    curvePointAt p (fun i => (U i - a) / (b - a)) P k ((u - a) / (b - a)) = curvePointAt p U P k u :=
  curvePointAt_normalised p U P k u a b hab

/-- the same for surfaces (A3.5), each direction with its own knot range -/
theorem surface_point_after_import (pu pv : ℕ) (Uu Uv : ℕ → K) (sv : ℕ) (P : List (List K)) (ku kv : ℕ)
    (u v a b c d : K) (hab : a ≠ b) (hcd : c ≠ d) :
    surfacePointAt pu pv (fun i => (Uu i - a) / (b - a)) (fun i => (Uv i - c) / (d - c)) sv P ku kv
        ((u - a) / (b - a)) ((v - c) / (d - c))
      = surfacePointAt pu pv Uu Uv sv P ku kv u v :=
  surfacePointAt_normalised pu pv Uu Uv sv P ku kv u v a b c d hab hcd

/-- and volumes -/
theorem volume_point_after_import (pu pv pw : ℕ) (Uu Uv Uw : ℕ → K) (su sv : ℕ) (P : List (List K)) (ku kv kw : ℕ)
    (u v w a b c d e f : K) (hab : a ≠ b) (hcd : c ≠ d) (hef : e ≠ f) :
    volumePointAt pu pv pw (fun i => (Uu i - a) / (b - a)) (fun i => (Uv i - c) / (d - c)) (fun i => (Uw i - e) / (f - e))
        su sv P ku kv kw ((u - a) / (b - a)) ((v - c) / (d - c)) ((w - e) / (f - e))
      = volumePointAt pu pv pw Uu Uv Uw su sv P ku kv kw u v w :=
  volumePointAt_normalised pu pv pw Uu Uv Uw su sv P ku kv kw u v w a b c d e f hab hcd hef

/-! ## non-vacuity: a concrete 2 x 3 rational surface satisfies every hypothesis of `smesh_export_import` -/
def srfWitness : Srf ℚ :=
  { rational := true, degU := 1, degV := 2, sizeU := 2, sizeV := 3,
    knotsU := [0, 0, 1, 1], knotsV := [0, 0, 0, 1, 1, 1],
    net := [[0, 0, 0, 1/2], [0, 1, 0, 1], [0, 2, 0, 3/2], [1, 0, 0, 1], [1, 1, 1/3, 3/2], [1, 2, 2/3, 2]] }

example : srfWitness.net.length = srfWitness.sizeU * srfWitness.sizeV ∧ (srfWitness.rational = true → WeightsOk srfWitness.net) ∧
    dimOf srfWitness.rational srfWitness.net = 3 ∧
    kvOk srfWitness.degU srfWitness.knotsU srfWitness.sizeU = true ∧ kvOk srfWitness.degV srfWitness.knotsV srfWitness.sizeV = true := by
  refine ⟨rfl, ?_, rfl, by decide, by decide⟩
  intro _ p hp
  simp only [srfWitness, List.mem_cons, List.not_mem_nil, or_false] at hp
  rcases hp with rfl | rfl | rfl | rfl | rfl | rfl <;> exact ⟨by simp, by norm_num [List.getLastD]⟩

end C14
