import NurbsVerif.Lemmas.EvalSpec
import NurbsVerif.Lemmas.Grid

/-!
# C01  Evaluated points equal the B-spline / NURBS definition

The model functions (`Geomdl.curvePointAt`, `surfacePointAt`, `project`, `linspaceCore`, `curveGrid`,
`surfaceGrid`, `volumeGrid`, `curveDers`) are the ones
the correspondence check runs against `Curve/Surface/Volume.evaluate_single / evaluate_list / evalpts /
derivatives(order=0)`.  `cdb` is the Cox–de Boor recursion (The NURBS Book Eq. 2.5, 0/0 := 0).
-/
namespace C01
open Geomdl Blossom Finset
variable {K : Type} [Field K] [LinearOrder K] [IsStrictOrderedRing K]

/-- Curves: every coordinate of the evaluated point is the sum over ALL control points of the
    Cox–de Boor basis function times the control point (any degree, any non-decreasing knot
    function, any span, any parameter in the half-open span, any dimension). -/
theorem curve_point_eq_definition (p : ℕ) (U : ℕ → K) (P : List (List K)) (k : ℕ) (u : K) (d j : ℕ)
    (hm : Monotone U) (h1 : U k ≤ u) (h2 : u < U (k+1)) (hp : p ≤ k) (hk : k < P.length) (hP : NetOk d P) :
    (curvePointAt p U P k u).getD j 0 = ∑ i ∈ range P.length, cdb U p i u * (ptsGet P i).getD j 0 :=
  curvePointAt_eq_cdb p U P k u d j hm h1 h2 hp hk hP

/-- Surfaces: tensor-product sum with the flat layout `v + size_v · u`. -/
theorem surface_point_eq_definition (pu pv : ℕ) (Uu Uv : ℕ → K) (su sv : ℕ) (P : List (List K)) (ku kv : ℕ) (u v : K)
    (d j : ℕ) (hmu : Monotone Uu) (hmv : Monotone Uv)
    (hu1 : Uu ku ≤ u) (hu2 : u < Uu (ku+1)) (hv1 : Uv kv ≤ v) (hv2 : v < Uv (kv+1))
    (hpu : pu ≤ ku) (hpv : pv ≤ kv) (hku : ku < su) (hkv : kv < sv) (hlen : P.length = su * sv) (hP : NetOk d P) :
    (surfacePointAt pu pv Uu Uv sv P ku kv u v).getD j 0
      = ∑ a ∈ range su, ∑ b ∈ range sv, cdb Uu pu a u * cdb Uv pv b v * (ptsGet P (b + sv * a)).getD j 0 :=
  surfacePointAt_eq_cdb pu pv Uu Uv su sv P ku kv u v d j hmu hmv hu1 hu2 hv1 hv2 hpu hpv hku hkv hlen hP

/-- Volumes: triple tensor-product sum with the flat layout `v + size_v · (u + size_u · w)`. -/
theorem volume_point_eq_definition (pu pv pw : ℕ) (Uu Uv Uw : ℕ → K) (su sv sw : ℕ) (P : List (List K))
    (ku kv kw : ℕ) (u v w : K) (d j : ℕ)
    (hmu : Monotone Uu) (hmv : Monotone Uv) (hmw : Monotone Uw)
    (hu1 : Uu ku ≤ u) (hu2 : u < Uu (ku+1)) (hv1 : Uv kv ≤ v) (hv2 : v < Uv (kv+1)) (hw1 : Uw kw ≤ w) (hw2 : w < Uw (kw+1))
    (hpu : pu ≤ ku) (hpv : pv ≤ kv) (hpw : pw ≤ kw) (hku : ku < su) (hkv : kv < sv) (hkw : kw < sw)
    (hlen : P.length = su * sv * sw) (hP : NetOk d P) :
    (volumePointAt pu pv pw Uu Uv Uw su sv P ku kv kw u v w).getD j 0
      = ∑ a ∈ range su, ∑ b ∈ range sv, ∑ c ∈ range sw,
          cdb Uu pu a u * cdb Uv pv b v * cdb Uw pw c w * (ptsGet P (b + sv * (a + su * c))).getD j 0 :=
  volumePointAt_eq_cdb pu pv pw Uu Uv Uw su sv sw P ku kv kw u v w d j hmu hmv hmw hu1 hu2 hv1 hv2 hw1 hw2
    hpu hpv hpw hku hkv hkw hlen hP

/-- Rational shapes: with positive weights the weight function (last homogeneous coordinate of the
    evaluated point) is positive, so the division by the weight is well defined … -/
theorem rational_weight_positive (p : ℕ) (U : ℕ → K) (P : List (List K)) (k : ℕ) (u : K) (d : ℕ)
    (h : SpanOk U k u) (hp : p ≤ k) (hk : k < P.length) (hP : NetOk (d+1) P)
    (hw : ∀ i, i < P.length → 0 < (ptsGet P i).getD d 0) :
    0 < (curvePointAt p U P k u).getD d 0 :=
  curvePointAt_weight_pos p U P k u d h hp hk hP hw

/-- … and the returned point is (Σ N_i w_i P_i) / (Σ N_i w_i) coordinatewise. -/
theorem rational_point_eq_quotient (p : ℕ) (U : ℕ → K) (P : List (List K)) (k : ℕ) (u : K) (d j : ℕ)
    (hm : Monotone U) (h1 : U k ≤ u) (h2 : u < U (k+1)) (hp : p ≤ k) (hk : k < P.length)
    (hP : NetOk (d+1) P) (hj : j < d) :
    (project (curvePointAt p U P k u)).getD j 0
      = (∑ i ∈ range P.length, cdb U p i u * (ptsGet P i).getD j 0)
        / (∑ i ∈ range P.length, cdb U p i u * (ptsGet P i).getD d 0) := by
  have hlen : (curvePointAt p U P k u).length = d + 1 := by
    unfold curvePointAt
    rw [dimOf_eq hP (by omega)]
    apply linComb_length
    intro pt hpt
    simp only [List.mem_map, List.mem_range] at hpt
    obtain ⟨r, hr, rfl⟩ := hpt
    exact ptsGet_length hP _ (by omega)
  rw [project_getD _ d j hlen hj]
  rw [curvePointAt_eq_cdb p U P k u (d+1) j hm h1 h2 hp hk hP,
      curvePointAt_eq_cdb p U P k u (d+1) d hm h1 h2 hp hk hP]

/-- The sampled parameters (`linspace`) are exactly `n` values, start and end exactly on the domain
    ends and are strictly increasing. -/
theorem sample_params_spec (a b : K) (n : ℕ) (hn : 2 ≤ n) (hab : a < b) :
    (linspaceCore a b n).length = n ∧ (linspaceCore a b n).getD 0 0 = a ∧
    (linspaceCore a b n).getD (n - 1) 0 = b ∧
    ∀ i j, i < j → j < n → (linspaceCore a b n).getD i 0 < (linspaceCore a b n).getD j 0 :=
  ⟨linspaceCore_length a b n, linspaceCore_first a b n (by omega), linspaceCore_last a b n hn,
   fun i j hij hj => linspaceCore_strictMono a b n i j hab hij hj⟩


/-! ### entry points: parameter list, sampled grid, zeroth derivative -/

/-- **Parameter list / curve grid**: `evaluate_list(params)` (and the sampled curve grid, which is
    `evaluate_list(linspace …)`) returns, at position `i`, exactly the point `evaluate_single` returns
    for the `i`-th parameter; the list has one point per parameter. -/
theorem curve_list_eq_single (rat : Bool) (p : ℕ) (U : ℕ → K) (P : List (List K)) (ks : List K) (i : ℕ)
    (hi : i < ks.length) :
    (curveGrid rat p U P ks).length = ks.length ∧
    (curveGrid rat p U P ks).getD i [] = projIf rat (curvePoint p U P (ks.getD i 0)) :=
  ⟨curveGrid_length rat p U P ks, curveGrid_getD rat p U P ks i hi⟩

/-- **Surface grid: size and ordering.**  The sampled grid has `|us| · |vs|` points and the point with
    flat index `i · |vs| + j` (u slowest, v fastest) is the surface point at `(us[i], vs[j])`. -/
theorem surface_grid_index (rat : Bool) (pu pv : ℕ) (Uu Uv : ℕ → K) (su sv : ℕ) (P : List (List K))
    (kus kvs : List K) (i j : ℕ) (hi : i < kus.length) (hj : j < kvs.length) :
    (surfaceGrid rat pu pv Uu Uv su sv P kus kvs).length = kus.length * kvs.length ∧
    (surfaceGrid rat pu pv Uu Uv su sv P kus kvs).getD (i * kvs.length + j) []
      = projIf rat (surfacePoint pu pv Uu Uv su sv P (kus.getD i 0) (kvs.getD j 0)) :=
  ⟨surfaceGrid_length rat pu pv Uu Uv su sv P kus kvs, surfaceGrid_getD rat pu pv Uu Uv su sv P kus kvs i j hi hj⟩

/-- **Volume grid: size and ordering** (u slowest, then v, w fastest). -/
theorem volume_grid_index (rat : Bool) (pu pv pw : ℕ) (Uu Uv Uw : ℕ → K) (su sv sw : ℕ) (P : List (List K))
    (kus kvs kws : List K) (i j k : ℕ) (hi : i < kus.length) (hj : j < kvs.length) (hk : k < kws.length) :
    (volumeGrid rat pu pv pw Uu Uv Uw su sv sw P kus kvs kws).length = kus.length * (kvs.length * kws.length) ∧
    (volumeGrid rat pu pv pw Uu Uv Uw su sv sw P kus kvs kws).getD (i * (kvs.length * kws.length) + (j * kws.length + k)) []
      = projIf rat (volumePoint pu pv pw Uu Uv Uw su sv sw P (kus.getD i 0) (kvs.getD j 0) (kws.getD k 0)) :=
  ⟨volumeGrid_length rat pu pv pw Uu Uv Uw su sv sw P kus kvs kws,
   volumeGrid_getD rat pu pv pw Uu Uv Uw su sv sw P kus kvs kws i j k hi hj hk⟩

/-- **The sampled surface grid starts and ends exactly on the domain corners**: with the `linspace`
    parameter lists of `n_u ≥ 2`, `n_v ≥ 2` samples, the first grid point is the surface point at
    `(start_u, start_v)` and the last one (index `n_u · n_v − 1`) the point at `(stop_u, stop_v)`. -/
theorem surface_grid_corners (rat : Bool) (pu pv : ℕ) (Uu Uv : ℕ → K) (su sv : ℕ) (P : List (List K))
    (a b c d : K) (nu nv : ℕ) (hnu : 2 ≤ nu) (hnv : 2 ≤ nv) :
    (surfaceGrid rat pu pv Uu Uv su sv P (linspaceCore a b nu) (linspaceCore c d nv)).getD 0 []
      = projIf rat (surfacePoint pu pv Uu Uv su sv P a c) ∧
    (surfaceGrid rat pu pv Uu Uv su sv P (linspaceCore a b nu) (linspaceCore c d nv)).getD (nu * nv - 1) []
      = projIf rat (surfacePoint pu pv Uu Uv su sv P b d) := by
  have lu := linspaceCore_length a b nu
  have lv := linspaceCore_length c d nv
  constructor
  · have h := surfaceGrid_getD rat pu pv Uu Uv su sv P (linspaceCore a b nu) (linspaceCore c d nv) 0 0
      (by omega) (by omega)
    rw [linspaceCore_first a b nu (by omega), linspaceCore_first c d nv (by omega)] at h
    simpa using h
  · have h := surfaceGrid_getD rat pu pv Uu Uv su sv P (linspaceCore a b nu) (linspaceCore c d nv) (nu - 1) (nv - 1)
      (by omega) (by omega)
    rw [linspaceCore_last a b nu hnu, linspaceCore_last c d nv hnv, lv] at h
    have e : (nu - 1) * nv + (nv - 1) = nu * nv - 1 := by
      obtain ⟨m, rfl⟩ : ∃ m, nu = m + 1 := ⟨nu - 1, by omega⟩
      obtain ⟨k, rfl⟩ : ∃ k, nv = k + 1 := ⟨nv - 1, by omega⟩
      simp only [Nat.add_sub_cancel]
      have : (m + 1) * (k + 1) = m * (k + 1) + k + 1 := by ring
      omega
    rw [e] at h
    exact h

/-- **Zeroth derivative**: entry 0 of `derivatives(u, order)` (A3.3/A3.4 model, any requested order)
    is the point `evaluate_single(u)` returns – same span search, same basis functions. -/
theorem curve_ders0_eq_single (p : ℕ) (U : ℕ → K) (P : List (List K)) (u : K) (order : ℕ) :
    (curveDers p U P u order).getD 0 [] = curvePoint p U P u :=
  curveDers_head p U P u order (findSpanLinear_ge p U P.length u)

/-- non-vacuity: a quadratic Bézier segment in the plane at u = 1/2 -/
example : NetOk 2 ([[0,0],[1,2],[2,0]] : List (List ℚ)) := by
  intro pt hpt; simp at hpt; rcases hpt with h | h | h <;> simp [h]

end C01
