import NurbsVerif.Lemmas.EvalSpec
import NurbsVerif.Lemmas.Grid
import NurbsVerif.Lemmas.AssemblePoint
import NurbsVerif.Lemmas.AssembleWF
import NurbsVerif.Lemmas.SpanREval
import NurbsVerif.Lemmas.SpanRGrid

/-!
# C01  Evaluated points equal the B-spline / NURBS definition

The model functions (`Geomdl.curvePointAt`, `surfacePointAt`, `project`, `linspaceCore`, `curveGrid`,
`surfaceGrid`, `volumeGrid`, `curveDers`) are the ones
the correspondence check runs against `Curve/Surface/Volume.evaluate_single / evaluate_list / evalpts /
derivatives(order=0)`.  `cdb` is the Cox–de Boor recursion (The NURBS Book Eq. 2.5, 0/0 := 0).
The same entry points through the REPAIRED span search (F-01b; knot vectors with an empty last domain span included):
`curvePointR`, `surfacePointR`, `volumePointR` (`Model/SpanR.lean`), `curveGridR`, `surfaceGridR`, `volumeGridR`,
`curveDersR` (`Model/SpanRGrid.lean`) – last two sections of this file.
-/
namespace C01
open Geomdl Blossom Finset
variable {K : Type} [Field K] [LinearOrder K] [IsStrictOrderedRing K]

/-- Curves: every coordinate of the evaluated point is the sum over ALL control points of the
    Cox–de Boor basis function times the control point (any degree, any non-decreasing knot
    function, any span, any parameter in the half-open span, any dimension). -/
theorem curve_point_eq_definition (p : ℕ) (U : ℕ → K) (P : List (List K)) (k : ℕ) (u : K) (d j : ℕ)
    (hm : Monotone U) (h1 : U k ≤ u) (h2 : u < U (k+1)) (hp : p ≤ k) (hk : k < P.length) (hP : NetOk d P) :
    (curvePointAt p U P k u).getD j 0 = ∑ i ∈ range P.length, cdb U p i u * (ptsGet P i).getD j 0 :=
  curvePointAt_eq_cdb p U P k u d j hm h1 h2 hp hk hP

/-- Surfaces: tensor-product sum with the flat layout `v + size_v · u`. -/
theorem surface_point_eq_definition (pu pv : ℕ) (Uu Uv : ℕ → K) (su sv : ℕ) (P : List (List K)) (ku kv : ℕ) (u v : K)
    (d j : ℕ) (hmu : Monotone Uu) (hmv : Monotone Uv)
    (hu1 : Uu ku ≤ u) (hu2 : u < Uu (ku+1)) (hv1 : Uv kv ≤ v) (hv2 : v < Uv (kv+1))
    (hpu : pu ≤ ku) (hpv : pv ≤ kv) (hku : ku < su) (hkv : kv < sv) (hlen : P.length = su * sv) (hP : NetOk d P) :
    (surfacePointAt pu pv Uu Uv sv P ku kv u v).getD j 0
      = ∑ a ∈ range su, ∑ b ∈ range sv, cdb Uu pu a u * cdb Uv pv b v * (ptsGet P (b + sv * a)).getD j 0 :=
  surfacePointAt_eq_cdb pu pv Uu Uv su sv P ku kv u v d j hmu hmv hu1 hu2 hv1 hv2 hpu hpv hku hkv hlen hP

/-- Volumes: triple tensor-product sum with the flat layout `v + size_v · (u + size_u · w)`. -/
theorem volume_point_eq_definition (pu pv pw : ℕ) (Uu Uv Uw : ℕ → K) (su sv sw : ℕ) (P : List (List K))
    (ku kv kw : ℕ) (u v w : K) (d j : ℕ)
    (hmu : Monotone Uu) (hmv : Monotone Uv) (hmw : Monotone Uw)
    (hu1 : Uu ku ≤ u) (hu2 : u < Uu (ku+1)) (hv1 : Uv kv ≤ v) (hv2 : v < Uv (kv+1)) (hw1 : Uw kw ≤ w) (hw2 : w < Uw (kw+1))
    (hpu : pu ≤ ku) (hpv : pv ≤ kv) (hpw : pw ≤ kw) (hku : ku < su) (hkv : kv < sv) (hkw : kw < sw)
    (hlen : P.length = su * sv * sw) (hP : NetOk d P) :
    (volumePointAt pu pv pw Uu Uv Uw su sv P ku kv kw u v w).getD j 0
      = ∑ a ∈ range su, ∑ b ∈ range sv, ∑ c ∈ range sw,
          cdb Uu pu a u * cdb Uv pv b v * cdb Uw pw c w * (ptsGet P (b + sv * (a + su * c))).getD j 0 :=
  volumePointAt_eq_cdb pu pv pw Uu Uv Uw su sv sw P ku kv kw u v w d j hmu hmv hmw hu1 hu2 hv1 hv2 hw1 hw2
    hpu hpv hpw hku hkv hkw hlen hP

/-- Rational shapes: with positive weights the weight function (last homogeneous coordinate of the
    evaluated point) is positive, so the division by the weight is well defined … -/
theorem rational_weight_positive (p : ℕ) (U : ℕ → K) (P : List (List K)) (k : ℕ) (u : K) (d : ℕ)
    (h : SpanOk U k u) (hp : p ≤ k) (hk : k < P.length) (hP : NetOk (d+1) P)
    (hw : ∀ i, i < P.length → 0 < (ptsGet P i).getD d 0) :
    0 < (curvePointAt p U P k u).getD d 0 :=
  curvePointAt_weight_pos p U P k u d h hp hk hP hw

/-- … and the returned point is (Σ N_i w_i P_i) / (Σ N_i w_i) coordinatewise. -/
theorem rational_point_eq_quotient (p : ℕ) (U : ℕ → K) (P : List (List K)) (k : ℕ) (u : K) (d j : ℕ)
    (hm : Monotone U) (h1 : U k ≤ u) (h2 : u < U (k+1)) (hp : p ≤ k) (hk : k < P.length)
    (hP : NetOk (d+1) P) (hj : j < d) :
    (project (curvePointAt p U P k u)).getD j 0
      = (∑ i ∈ range P.length, cdb U p i u * (ptsGet P i).getD j 0)
        / (∑ i ∈ range P.length, cdb U p i u * (ptsGet P i).getD d 0) := by
  have hlen : (curvePointAt p U P k u).length = d + 1 := by
    unfold curvePointAt
    rw [dimOf_eq hP (by omega)]
    apply linComb_length
    intro pt hpt
    simp only [List.mem_map, List.mem_range] at hpt
    obtain ⟨r, hr, rfl⟩ := hpt
    exact ptsGet_length hP _ (by omega)
  rw [project_getD _ d j hlen hj]
  rw [curvePointAt_eq_cdb p U P k u (d+1) j hm h1 h2 hp hk hP,
      curvePointAt_eq_cdb p U P k u (d+1) d hm h1 h2 hp hk hP]

/-- The sampled parameters (`linspace`) are exactly `n` values, start and end exactly on the domain
    ends and are strictly increasing. -/
theorem sample_params_spec (a b : K) (n : ℕ) (hn : 2 ≤ n) (hab : a < b) :
    (linspaceCore a b n).length = n ∧ (linspaceCore a b n).getD 0 0 = a ∧
    (linspaceCore a b n).getD (n - 1) 0 = b ∧
    ∀ i j, i < j → j < n → (linspaceCore a b n).getD i 0 < (linspaceCore a b n).getD j 0 :=
  ⟨linspaceCore_length a b n, linspaceCore_first a b n (by omega), linspaceCore_last a b n hn,
   fun i j hij hj => linspaceCore_strictMono a b n i j hab hij hj⟩


/-! ### entry points: parameter list, sampled grid, zeroth derivative -/

/-- **Parameter list / curve grid**: `evaluate_list(params)` (and the sampled curve grid, which is
    `evaluate_list(linspace …)`) returns, at position `i`, exactly the point `evaluate_single` returns
    for the `i`-th parameter; the list has one point per parameter.
    (Unfolding lemma: the model of `evaluate_list` IS the `map` of the single-point evaluation over the parameter list; the content is the correspondence check of that model with the real routine.) -/
theorem curve_list_eq_single (rat : Bool) (p : ℕ) (U : ℕ → K) (P : List (List K)) (ks : List K) (i : ℕ)
    (hi : i < ks.length) :
    (curveGrid rat p U P ks).length = ks.length ∧
    (curveGrid rat p U P ks).getD i [] = projIf rat (curvePoint p U P (ks.getD i 0)) :=
  ⟨curveGrid_length rat p U P ks, curveGrid_getD rat p U P ks i hi⟩

/-- **Surface grid: size and ordering.**  The sampled grid has `|us| · |vs|` points and the point with
    flat index `i · |vs| + j` (u slowest, v fastest) is the surface point at `(us[i], vs[j])`.
    (Unfolding lemma (indexing of a `flatMap`/`map`: the model IS this double loop); what ties it to the code is the correspondence check.) -/
theorem surface_grid_index (rat : Bool) (pu pv : ℕ) (Uu Uv : ℕ → K) (su sv : ℕ) (P : List (List K))
    (kus kvs : List K) (i j : ℕ) (hi : i < kus.length) (hj : j < kvs.length) :
    (surfaceGrid rat pu pv Uu Uv su sv P kus kvs).length = kus.length * kvs.length ∧
    (surfaceGrid rat pu pv Uu Uv su sv P kus kvs).getD (i * kvs.length + j) []
      = projIf rat (surfacePoint pu pv Uu Uv su sv P (kus.getD i 0) (kvs.getD j 0)) :=
  ⟨surfaceGrid_length rat pu pv Uu Uv su sv P kus kvs, surfaceGrid_getD rat pu pv Uu Uv su sv P kus kvs i j hi hj⟩

/-- **Volume grid: size and ordering** (u slowest, then v, w fastest).
    (Unfolding lemma (indexing of nested `flatMap`s), as for surfaces.) -/
theorem volume_grid_index (rat : Bool) (pu pv pw : ℕ) (Uu Uv Uw : ℕ → K) (su sv sw : ℕ) (P : List (List K))
    (kus kvs kws : List K) (i j k : ℕ) (hi : i < kus.length) (hj : j < kvs.length) (hk : k < kws.length) :
    (volumeGrid rat pu pv pw Uu Uv Uw su sv sw P kus kvs kws).length = kus.length * (kvs.length * kws.length) ∧
    (volumeGrid rat pu pv pw Uu Uv Uw su sv sw P kus kvs kws).getD (i * (kvs.length * kws.length) + (j * kws.length + k)) []
      = projIf rat (volumePoint pu pv pw Uu Uv Uw su sv sw P (kus.getD i 0) (kvs.getD j 0) (kws.getD k 0)) :=
  ⟨volumeGrid_length rat pu pv pw Uu Uv Uw su sv sw P kus kvs kws,
   volumeGrid_getD rat pu pv pw Uu Uv Uw su sv sw P kus kvs kws i j k hi hj hk⟩

/-- **The sampled surface grid starts and ends exactly on the domain corners**: with the `linspace`
    parameter lists of `n_u ≥ 2`, `n_v ≥ 2` samples, the first grid point is the surface point at
    `(start_u, start_v)` and the last one (index `n_u · n_v − 1`) the point at `(stop_u, stop_v)`. -/
theorem surface_grid_corners (rat : Bool) (pu pv : ℕ) (Uu Uv : ℕ → K) (su sv : ℕ) (P : List (List K))
    (a b c d : K) (nu nv : ℕ) (hnu : 2 ≤ nu) (hnv : 2 ≤ nv) :
    (surfaceGrid rat pu pv Uu Uv su sv P (linspaceCore a b nu) (linspaceCore c d nv)).getD 0 []
      = projIf rat (surfacePoint pu pv Uu Uv su sv P a c) ∧
    (surfaceGrid rat pu pv Uu Uv su sv P (linspaceCore a b nu) (linspaceCore c d nv)).getD (nu * nv - 1) []
      = projIf rat (surfacePoint pu pv Uu Uv su sv P b d) := by
  have lu := linspaceCore_length a b nu
  have lv := linspaceCore_length c d nv
  constructor
  · have h := surfaceGrid_getD rat pu pv Uu Uv su sv P (linspaceCore a b nu) (linspaceCore c d nv) 0 0
      (by omega) (by omega)
    rw [linspaceCore_first a b nu (by omega), linspaceCore_first c d nv (by omega)] at h
    simpa using h
  · have h := surfaceGrid_getD rat pu pv Uu Uv su sv P (linspaceCore a b nu) (linspaceCore c d nv) (nu - 1) (nv - 1)
      (by omega) (by omega)
    rw [linspaceCore_last a b nu hnu, linspaceCore_last c d nv hnv, lv] at h
    have e : (nu - 1) * nv + (nv - 1) = nu * nv - 1 := by
      obtain ⟨m, rfl⟩ : ∃ m, nu = m + 1 := ⟨nu - 1, by omega⟩
      obtain ⟨k, rfl⟩ : ∃ k, nv = k + 1 := ⟨nv - 1, by omega⟩
      simp only [Nat.add_sub_cancel]
      have : (m + 1) * (k + 1) = m * (k + 1) + k + 1 := by ring
      omega
    rw [e] at h
    exact h

/-- **Zeroth derivative**: entry 0 of `derivatives(u, order)` (A3.3/A3.4 model, any requested order)
    is the point `evaluate_single(u)` returns – same span search, same basis functions. -/
theorem curve_ders0_eq_single (p : ℕ) (U : ℕ → K) (P : List (List K)) (u : K) (order : ℕ) :
    (curveDers p U P u order).getD 0 [] = curvePoint p U P u :=
  curveDers_head p U P u order (findSpanLinear_ge p U P.length u)

/-- non-vacuity: a quadratic Bézier segment in the plane at u = 1/2 -/
example : NetOk 2 ([[0,0],[1,2],[2,0]] : List (List ℚ)) := by
  intro pt hpt; simp at hpt; rcases hpt with h | h | h <;> simp [h]

/-! ## End-to-end statements: `evaluate_single` (span search + span evaluation) on the whole domain

`curvePoint` / `surfacePoint` / `volumePoint` are what `evaluate_single` runs: the linear span search
followed by the evaluation on the span found.  Two forms:

* parameters in the half-open domain `[U_p, U_n)` (per direction): the Cox–de Boor functions `cdb`
  themselves;
* EVERY parameter of the closed domain `[U_p, U_n]`: the Cox–de Boor recursion of the span found,
  `cdbSpan U k` (degree-0 functions = indicator of span `k`, same recurrence, same 0/0 := 0).  By
  `span_basis_eq_cox_de_boor` it is `cdb` whenever the parameter lies in the half-open span `k`
  (always the case for `u < U_n`, `domain_span_found`); at the right end `u = U_n` the span found is
  the last one, `n-1`, which is non-empty and has `u` as its right end, i.e. the value there is the
  one obtained with the basis functions of the last non-empty span (left-limit convention: the
  functions `u ↦ cdbSpan U (n-1) p i u` are the polynomials that coincide with `cdb U p i` on
  `[U_{n-1}, U_n)`).  For a clamped end `cdb U p i U_n = 0` for all `i < n`, so this convention – not
  the right-continuous recursion – is what makes the curve end at its last control point. -/

/-- **What the search finds on the closed domain**: for a well-formed knot vector and `u ∈ [U_p, U_n]`
    the span `k` found is a legal index, non-empty, contains `u` (closed on the right); for `u < U_n`
    it is the half-open knot interval of `u`; for `u = U_n` it is the last span `n - 1`. -/
theorem domain_span_found (p : ℕ) (Ul : List K) (n : ℕ) (hU : KvWF p Ul n) (u : K)
    (h1 : fnOf Ul p ≤ u) (h2 : u ≤ fnOf Ul n) :
    p ≤ findSpanLinear p (fnOf Ul) n u ∧ findSpanLinear p (fnOf Ul) n u < n ∧
    fnOf Ul (findSpanLinear p (fnOf Ul) n u) ≤ u ∧ u ≤ fnOf Ul (findSpanLinear p (fnOf Ul) n u + 1) ∧
    fnOf Ul (findSpanLinear p (fnOf Ul) n u) < fnOf Ul (findSpanLinear p (fnOf Ul) n u + 1) ∧
    (u < fnOf Ul n → u < fnOf Ul (findSpanLinear p (fnOf Ul) n u + 1)) ∧
    (u = fnOf Ul n → findSpanLinear p (fnOf Ul) n u = n - 1) := by
  obtain ⟨hs, a1, a2⟩ := findSpanLinear_dom hU.knotsOk u h1 h2
  refine ⟨a1, a2, hs.lo, hs.hi, hs.nonempty, fun h => (findSpanLinear_halfopen hU.mono hU.pn u h1 h).2.1, ?_⟩
  intro h; rw [h]; exact findSpanLinear_right_end hU.mono hU.pn

/-- **Under `KnotsOk` the span found on the closed domain is never empty** (the fact behind `domain_span_found`, stated
    for an arbitrary knot function): non-decreasing knots, `n ≥ p + 1`, non-empty last span `U_{n-1} < U_n`, `u ∈ [U_p,
    U_n]` give `U_k < U_{k+1}` for `k = findSpanLinear p U n u` – so no division by zero occurs in A2.2 on the span found
    (`Geomdl.findSpanLinear_dom`).  Every evaluation theorem of this file about `curvePoint` / `surfacePoint` / `volumePoint`
    (span search WITHOUT the step back of the F-01b repair) assumes `KnotsOk` (through `CurveWF`, `SurfWF`, `KvWF`); knot
    vectors with an EMPTY last domain span are covered by the theorems about the evaluation through the REPAIRED search
    (`curvePointR`, …; section "repaired span search" at the end of this file). -/
theorem span_found_nonempty_of_knotsOk (p : ℕ) (U : ℕ → K) (n : ℕ) (hU : KnotsOk p U n) (u : K)
    (h1 : U p ≤ u) (h2 : u ≤ U n) :
    U (findSpanLinear p U n u) < U (findSpanLinear p U n u + 1) :=
  (findSpanLinear_dom hU u h1 h2).1.nonempty

/-- **Without the non-empty last span the model's search finds an EMPTY span at the domain end** (F-01b, closed witness):
    degree 2, `U = [0,0,1,2,4,4,5,5]` (accepted by `knotvector.check`, multiplicities `≤ 2`, unclamped), 5 control points,
    domain `[1, 4]`: at `u = 4 = U_5` the model returns span `4` and `U_4 = U_5`, so `KnotsOk` fails exactly in its
    `last` field and the model's A2.2 would divide by zero (`x / 0 = 0` in Lean: the model "evaluates" to `(0, 0)`).  The
    pinned code raised `ZeroDivisionError` there; the repaired `find_span_linear` / `find_span_binsearch` step back to
    the last non-empty span `3` (left limit).  `findSpanLinear` / `curvePoint` do not have that step back (the driver ops
    `span lin`, `ceval`, … answer ERR at such a parameter); the literal model of the repaired search is `findSpanLinearR`
    and the evaluation through it `curvePointR` (`Model/SpanR.lean`, ops `span linr`, `cevalr`, …), compared with the
    repaired code at such parameters by the harness streams `empty-last-span`: see `curve_eval_repaired_witness_F01b`. -/
theorem span_found_empty_without_knotsOk :
    findSpanLinear 2 (fnOf ([0,0,1,2,4,4,5,5] : List ℚ)) 5 4 = 4 ∧
    fnOf ([0,0,1,2,4,4,5,5] : List ℚ) 4 = fnOf ([0,0,1,2,4,4,5,5] : List ℚ) 5 ∧
    ¬ (fnOf ([0,0,1,2,4,4,5,5] : List ℚ) (5 - 1) < fnOf ([0,0,1,2,4,4,5,5] : List ℚ) 5) ∧
    curvePoint 2 (fnOf ([0,0,1,2,4,4,5,5] : List ℚ)) [[0,0],[1,1],[2,0],[3,1],[4,0]] 4 = [0, 0] := by decide +kernel

/-- non-vacuity of `span_found_nonempty_of_knotsOk`: strictly inside the same domain the span found is not empty
    (`u = 39/10`: span `3 = [2, 4)`), and an unclamped vector WITH a non-empty last span meets `KnotsOk` -/
example : findSpanLinear 2 (fnOf ([0,0,1,2,4,4,5,5] : List ℚ)) 5 (39/10) = 3 ∧
    fnOf ([0,0,1,2,4,4,5,5] : List ℚ) 3 < fnOf ([0,0,1,2,4,4,5,5] : List ℚ) 4 := by decide +kernel

example : KnotsOk 2 (fnOf ([0,1,2,3,4,5,6] : List ℚ)) 4 :=
  ⟨mono_of_pairwise _ (by decide +kernel), by decide, by decide +kernel⟩

/-- **The recursion of a span is the Cox–de Boor recursion on that span**: for `u` in the half-open
    span `κ` of a non-decreasing knot function, all degrees, all indices. -/
theorem span_basis_eq_cox_de_boor (U : ℕ → K) (κ : ℕ) (u : K) (hm : Monotone U) (h1 : U κ ≤ u) (h2 : u < U (κ+1))
    (p i : ℕ) : cdbSpan U κ p i u = cdb U p i u :=
  cdbSpan_eq_cdb U κ u hm h1 h2 p i

/-- **The recursion of a span is what A2.2 computes on that span** (`helpers.basis_function`), for
    EVERY parameter (in particular the right end of the span), and it vanishes identically outside
    the window `κ-p … κ` (local support). -/
theorem span_basis_eq_basis_function (U : ℕ → K) (κ : ℕ) (u : K) (p : ℕ) (hp : p ≤ κ) (i : ℕ) :
    cdbSpan U κ p i u = if κ ≤ i + p ∧ i ≤ κ then (basisFuns p U κ u).getD (i + p - κ) 0 else 0 :=
  cdbSpan_eq_basisFuns U κ u p hp i

/-- **Curves, half-open domain**: `evaluate_single(u)` is the sum over ALL control points of
    Cox–de Boor basis function times control point, every coordinate. -/
theorem curve_eval_eq_definition (p d : ℕ) (Ul : List K) (P : List (List K)) (hC : CurveWF p d Ul P) (u : K)
    (h1 : fnOf Ul p ≤ u) (h2 : u < fnOf Ul P.length) (j : ℕ) :
    (curvePoint p (fnOf Ul) P u).getD j 0 = ∑ i ∈ range P.length, cdb (fnOf Ul) p i u * (ptsGet P i).getD j 0 :=
  curvePoint_eq_cdb p (fnOf Ul) P u d j hC.mono hC.pn hC.net h1 h2

/-- **Curves, closed domain** (every parameter): the same sum with the Cox–de Boor recursion of the span
    the search finds. -/
theorem curve_eval_eq_definition_closed (p d : ℕ) (Ul : List K) (P : List (List K)) (hC : CurveWF p d Ul P) (u : K) (j : ℕ) :
    (curvePoint p (fnOf Ul) P u).getD j 0
      = ∑ i ∈ range P.length, cdbSpan (fnOf Ul) (findSpanLinear p (fnOf Ul) P.length u) p i u * (ptsGet P i).getD j 0 :=
  curvePoint_eq_cdbSpan p (fnOf Ul) P u d j hC.pn hC.net

/-- **Curves, right end of the domain**: `evaluate_single(U_n)` is the sum with the basis functions of
    the last span `n - 1` (non-empty by well-formedness) evaluated at its right end. -/
theorem curve_eval_at_domain_end (p d : ℕ) (Ul : List K) (P : List (List K)) (hC : CurveWF p d Ul P) (j : ℕ) :
    (curvePoint p (fnOf Ul) P (fnOf Ul P.length)).getD j 0
      = ∑ i ∈ range P.length, cdbSpan (fnOf Ul) (P.length - 1) p i (fnOf Ul P.length) * (ptsGet P i).getD j 0 := by
  have h := curvePoint_eq_cdbSpan p (fnOf Ul) P (fnOf Ul P.length) d j hC.pn hC.net
  rw [findSpanLinear_right_end hC.mono hC.pn] at h
  exact h

/-- **Surfaces, half-open domain**: tensor-product Cox–de Boor sum over the whole net. -/
theorem surface_eval_eq_definition (d : ℕ) (S : Shape K) (hS : SurfWF d S) (u v : K)
    (hu1 : fnOf (S.kv 0) (S.deg 0) ≤ u) (hu2 : u < fnOf (S.kv 0) (S.size 0))
    (hv1 : fnOf (S.kv 1) (S.deg 1) ≤ v) (hv2 : v < fnOf (S.kv 1) (S.size 1)) (j : ℕ) :
    (surfEval S u v).getD j 0
      = ∑ a ∈ range (S.size 0), ∑ b ∈ range (S.size 1),
          cdb (fnOf (S.kv 0)) (S.deg 0) a u * cdb (fnOf (S.kv 1)) (S.deg 1) b v * (ptsGet S.net (b + S.size 1 * a)).getD j 0 :=
  surfacePoint_eq_cdb _ _ _ _ _ _ S.net u v d j hS.dir0.mono hS.dir1.mono hS.dir0.pn hS.dir1.pn hS.netlen hS.net
    hu1 hu2 hv1 hv2

/-- **Surfaces, closed domain** (every parameter pair): recursion of the spans found, per direction. -/
theorem surface_eval_eq_definition_closed (d : ℕ) (S : Shape K) (hS : SurfWF d S) (u v : K) (j : ℕ) :
    (surfEval S u v).getD j 0
      = ∑ a ∈ range (S.size 0), ∑ b ∈ range (S.size 1),
          cdbSpan (fnOf (S.kv 0)) (findSpanLinear (S.deg 0) (fnOf (S.kv 0)) (S.size 0) u) (S.deg 0) a u *
            cdbSpan (fnOf (S.kv 1)) (findSpanLinear (S.deg 1) (fnOf (S.kv 1)) (S.size 1) v) (S.deg 1) b v *
              (ptsGet S.net (b + S.size 1 * a)).getD j 0 :=
  surfacePoint_eq_cdbSpan _ _ _ _ _ _ S.net u v d j hS.dir0.pn hS.dir1.pn hS.netlen hS.net

/-- **Volumes, half-open domain**: triple tensor-product Cox–de Boor sum, layout `v + sv·(u + su·w)`. -/
theorem volume_eval_eq_definition (pu pv pw d : ℕ) (Uu Uv Uw : List K) (su sv sw : ℕ) (P : List (List K))
    (hUu : KvWF pu Uu su) (hUv : KvWF pv Uv sv) (hUw : KvWF pw Uw sw) (hlen : P.length = su * sv * sw) (hP : NetOk d P)
    (u v w : K) (hu1 : fnOf Uu pu ≤ u) (hu2 : u < fnOf Uu su) (hv1 : fnOf Uv pv ≤ v) (hv2 : v < fnOf Uv sv)
    (hw1 : fnOf Uw pw ≤ w) (hw2 : w < fnOf Uw sw) (j : ℕ) :
    (volumePoint pu pv pw (fnOf Uu) (fnOf Uv) (fnOf Uw) su sv sw P u v w).getD j 0
      = ∑ a ∈ range su, ∑ b ∈ range sv, ∑ c ∈ range sw,
          cdb (fnOf Uu) pu a u * cdb (fnOf Uv) pv b v * cdb (fnOf Uw) pw c w * (ptsGet P (b + sv * (a + su * c))).getD j 0 :=
  volumePoint_eq_cdb pu pv pw _ _ _ su sv sw P u v w d j hUu.mono hUv.mono hUw.mono hUu.pn hUv.pn hUw.pn hlen hP
    hu1 hu2 hv1 hv2 hw1 hw2

/-- **Volumes, closed domain** (every parameter triple). -/
theorem volume_eval_eq_definition_closed (pu pv pw d : ℕ) (Uu Uv Uw : List K) (su sv sw : ℕ) (P : List (List K))
    (hUu : KvWF pu Uu su) (hUv : KvWF pv Uv sv) (hUw : KvWF pw Uw sw) (hlen : P.length = su * sv * sw) (hP : NetOk d P)
    (u v w : K) (j : ℕ) :
    (volumePoint pu pv pw (fnOf Uu) (fnOf Uv) (fnOf Uw) su sv sw P u v w).getD j 0
      = ∑ a ∈ range su, ∑ b ∈ range sv, ∑ c ∈ range sw,
          cdbSpan (fnOf Uu) (findSpanLinear pu (fnOf Uu) su u) pu a u * cdbSpan (fnOf Uv) (findSpanLinear pv (fnOf Uv) sv v) pv b v *
            cdbSpan (fnOf Uw) (findSpanLinear pw (fnOf Uw) sw w) pw c w * (ptsGet P (b + sv * (a + su * c))).getD j 0 :=
  volumePoint_eq_cdbSpan pu pv pw _ _ _ su sv sw P u v w d j hUu.pn hUv.pn hUw.pn hlen hP

/-- **Rational curves at point level, closed domain**: with positive weights the weight of the
    evaluated homogeneous point is positive and the projected point `evaluate_single` returns is
    (Σ N_i w_i P_i) / (Σ N_i w_i) coordinatewise (homogeneous control points `(w_i P_i, w_i)`). -/
theorem rational_curve_eval_eq_quotient_closed (p d : ℕ) (Ul : List K) (Pw : List (List K)) (hC : CurveWF p (d+1) Ul Pw)
    (hwt : ∀ i, i < Pw.length → 0 < (ptsGet Pw i).getD d 0) (u : K)
    (h1 : fnOf Ul p ≤ u) (h2 : u ≤ fnOf Ul Pw.length) (j : ℕ) (hj : j < d) :
    0 < (curvePoint p (fnOf Ul) Pw u).getD d 0 ∧
    (project (curvePoint p (fnOf Ul) Pw u)).getD j 0
      = (∑ i ∈ range Pw.length, cdbSpan (fnOf Ul) (findSpanLinear p (fnOf Ul) Pw.length u) p i u * (ptsGet Pw i).getD j 0)
        / (∑ i ∈ range Pw.length, cdbSpan (fnOf Ul) (findSpanLinear p (fnOf Ul) Pw.length u) p i u * (ptsGet Pw i).getD d 0) :=
  curvePoint_rational_eq_cdbSpan p (fnOf Ul) Pw u d j hC.knotsOk hC.net h1 h2 hwt hj

/-- **Rational curves, half-open domain**: quotient of the Cox–de Boor sums. -/
theorem rational_curve_eval_eq_quotient (p d : ℕ) (Ul : List K) (Pw : List (List K)) (hC : CurveWF p (d+1) Ul Pw) (u : K)
    (h1 : fnOf Ul p ≤ u) (h2 : u < fnOf Ul Pw.length) (j : ℕ) (hj : j < d) :
    (project (curvePoint p (fnOf Ul) Pw u)).getD j 0
      = (∑ i ∈ range Pw.length, cdb (fnOf Ul) p i u * (ptsGet Pw i).getD j 0)
        / (∑ i ∈ range Pw.length, cdb (fnOf Ul) p i u * (ptsGet Pw i).getD d 0) :=
  curvePoint_rational_eq_cdb p (fnOf Ul) Pw u d j hC.mono hC.pn hC.net h1 h2 hj

/-- **Rational surfaces, closed domain**: positive weight, projected point = quotient of the sums. -/
theorem rational_surface_eval_eq_quotient_closed (d : ℕ) (S : Shape K) (hS : SurfWF (d+1) S)
    (hwt : ∀ i, i < S.net.length → 0 < (ptsGet S.net i).getD d 0) (u v : K)
    (hu1 : fnOf (S.kv 0) (S.deg 0) ≤ u) (hu2 : u ≤ fnOf (S.kv 0) (S.size 0))
    (hv1 : fnOf (S.kv 1) (S.deg 1) ≤ v) (hv2 : v ≤ fnOf (S.kv 1) (S.size 1)) (j : ℕ) (hj : j < d) :
    0 < (surfEval S u v).getD d 0 ∧
    (project (surfEval S u v)).getD j 0
      = (∑ a ∈ range (S.size 0), ∑ b ∈ range (S.size 1),
          cdbSpan (fnOf (S.kv 0)) (findSpanLinear (S.deg 0) (fnOf (S.kv 0)) (S.size 0) u) (S.deg 0) a u *
            cdbSpan (fnOf (S.kv 1)) (findSpanLinear (S.deg 1) (fnOf (S.kv 1)) (S.size 1) v) (S.deg 1) b v *
              (ptsGet S.net (b + S.size 1 * a)).getD j 0)
        / (∑ a ∈ range (S.size 0), ∑ b ∈ range (S.size 1),
          cdbSpan (fnOf (S.kv 0)) (findSpanLinear (S.deg 0) (fnOf (S.kv 0)) (S.size 0) u) (S.deg 0) a u *
            cdbSpan (fnOf (S.kv 1)) (findSpanLinear (S.deg 1) (fnOf (S.kv 1)) (S.size 1) v) (S.deg 1) b v *
              (ptsGet S.net (b + S.size 1 * a)).getD d 0) :=
  surfacePoint_rational_eq_cdbSpan _ _ _ _ _ _ S.net u v d j hS.dir0.knotsOk hS.dir1.knotsOk hS.netlen hS.net
    hu1 hu2 hv1 hv2 hwt hj

/-- **Rational surfaces, half-open domain**: quotient of the tensor-product Cox–de Boor sums. -/
theorem rational_surface_eval_eq_quotient (d : ℕ) (S : Shape K) (hS : SurfWF (d+1) S) (u v : K)
    (hu1 : fnOf (S.kv 0) (S.deg 0) ≤ u) (hu2 : u < fnOf (S.kv 0) (S.size 0))
    (hv1 : fnOf (S.kv 1) (S.deg 1) ≤ v) (hv2 : v < fnOf (S.kv 1) (S.size 1)) (j : ℕ) (hj : j < d) :
    (project (surfEval S u v)).getD j 0
      = (∑ a ∈ range (S.size 0), ∑ b ∈ range (S.size 1),
          cdb (fnOf (S.kv 0)) (S.deg 0) a u * cdb (fnOf (S.kv 1)) (S.deg 1) b v * (ptsGet S.net (b + S.size 1 * a)).getD j 0)
        / (∑ a ∈ range (S.size 0), ∑ b ∈ range (S.size 1),
          cdb (fnOf (S.kv 0)) (S.deg 0) a u * cdb (fnOf (S.kv 1)) (S.deg 1) b v * (ptsGet S.net (b + S.size 1 * a)).getD d 0) :=
  surfacePoint_rational_eq_cdb _ _ _ _ _ _ S.net u v d j hS.dir0.mono hS.dir1.mono hS.dir0.pn hS.dir1.pn hS.netlen hS.net
    hu1 hu2 hv1 hv2 hj

/-- **Rational volumes, closed domain**: positive weight, projected point = quotient of the sums. -/
theorem rational_volume_eval_eq_quotient_closed (pu pv pw d : ℕ) (Uu Uv Uw : List K) (su sv sw : ℕ) (Pw : List (List K))
    (hUu : KvWF pu Uu su) (hUv : KvWF pv Uv sv) (hUw : KvWF pw Uw sw) (hlen : Pw.length = su * sv * sw)
    (hP : NetOk (d+1) Pw) (hwt : ∀ i, i < Pw.length → 0 < (ptsGet Pw i).getD d 0)
    (u v w : K) (hu1 : fnOf Uu pu ≤ u) (hu2 : u ≤ fnOf Uu su) (hv1 : fnOf Uv pv ≤ v) (hv2 : v ≤ fnOf Uv sv)
    (hw1 : fnOf Uw pw ≤ w) (hw2 : w ≤ fnOf Uw sw) (j : ℕ) (hj : j < d) :
    0 < (volumePoint pu pv pw (fnOf Uu) (fnOf Uv) (fnOf Uw) su sv sw Pw u v w).getD d 0 ∧
    (project (volumePoint pu pv pw (fnOf Uu) (fnOf Uv) (fnOf Uw) su sv sw Pw u v w)).getD j 0
      = (∑ a ∈ range su, ∑ b ∈ range sv, ∑ c ∈ range sw,
          cdbSpan (fnOf Uu) (findSpanLinear pu (fnOf Uu) su u) pu a u * cdbSpan (fnOf Uv) (findSpanLinear pv (fnOf Uv) sv v) pv b v *
            cdbSpan (fnOf Uw) (findSpanLinear pw (fnOf Uw) sw w) pw c w * (ptsGet Pw (b + sv * (a + su * c))).getD j 0)
        / (∑ a ∈ range su, ∑ b ∈ range sv, ∑ c ∈ range sw,
          cdbSpan (fnOf Uu) (findSpanLinear pu (fnOf Uu) su u) pu a u * cdbSpan (fnOf Uv) (findSpanLinear pv (fnOf Uv) sv v) pv b v *
            cdbSpan (fnOf Uw) (findSpanLinear pw (fnOf Uw) sw w) pw c w * (ptsGet Pw (b + sv * (a + su * c))).getD d 0) :=
  volumePoint_rational_eq_cdbSpan pu pv pw _ _ _ su sv sw Pw u v w d j hUu.knotsOk hUv.knotsOk hUw.knotsOk hlen hP
    hu1 hu2 hv1 hv2 hw1 hw2 hwt hj

/-- **Rational volumes, half-open domain**: quotient of the triple Cox–de Boor sums. -/
theorem rational_volume_eval_eq_quotient (pu pv pw d : ℕ) (Uu Uv Uw : List K) (su sv sw : ℕ) (Pw : List (List K))
    (hUu : KvWF pu Uu su) (hUv : KvWF pv Uv sv) (hUw : KvWF pw Uw sw) (hlen : Pw.length = su * sv * sw)
    (hP : NetOk (d+1) Pw)
    (u v w : K) (hu1 : fnOf Uu pu ≤ u) (hu2 : u < fnOf Uu su) (hv1 : fnOf Uv pv ≤ v) (hv2 : v < fnOf Uv sv)
    (hw1 : fnOf Uw pw ≤ w) (hw2 : w < fnOf Uw sw) (j : ℕ) (hj : j < d) :
    (project (volumePoint pu pv pw (fnOf Uu) (fnOf Uv) (fnOf Uw) su sv sw Pw u v w)).getD j 0
      = (∑ a ∈ range su, ∑ b ∈ range sv, ∑ c ∈ range sw,
          cdb (fnOf Uu) pu a u * cdb (fnOf Uv) pv b v * cdb (fnOf Uw) pw c w * (ptsGet Pw (b + sv * (a + su * c))).getD j 0)
        / (∑ a ∈ range su, ∑ b ∈ range sv, ∑ c ∈ range sw,
          cdb (fnOf Uu) pu a u * cdb (fnOf Uv) pv b v * cdb (fnOf Uw) pw c w * (ptsGet Pw (b + sv * (a + su * c))).getD d 0) :=
  volumePoint_rational_eq_cdb pu pv pw _ _ _ su sv sw Pw u v w d j hUu.mono hUv.mono hUw.mono hUu.pn hUv.pn hUw.pn hlen hP
    hu1 hu2 hv1 hv2 hw1 hw2 hj

/-- non-vacuity: an UNCLAMPED quadratic curve (uniform knots 0..6, domain `[2, 4]`) is well formed … -/
example : CurveWF 2 2 ([0,1,2,3,4,5,6] : List ℚ) [[0,0],[1,2],[3,1],[4,4]] where
  mono := mono_of_pairwise _ (by decide +kernel)
  len := by simp
  pn := by simp
  last := by decide +kernel
  net := by intro pt hpt; simp at hpt; rcases hpt with h | h | h | h <;> simp [h]

/-- … at the right domain end the search returns the last span and the evaluated point is the sum with
    that span's basis functions `0, 0, 1/2, 1/2` -/
example : findSpanLinear 2 (fnOf ([0,1,2,3,4,5,6] : List ℚ)) 4 4 = 3 ∧
    curvePoint 2 (fnOf ([0,1,2,3,4,5,6] : List ℚ)) [[0,0],[1,2],[3,1],[4,4]] 4 = [7/2, 5/2] ∧
    (List.range 4).map (fun i => cdbSpan (fnOf ([0,1,2,3,4,5,6] : List ℚ)) 3 2 i 4) = [0, 0, 1/2, 1/2] := by
  decide +kernel

/-- for a clamped end the right-continuous Cox–de Boor functions all vanish at `U_n`, the functions of
    the last span do not -/
example : (List.range 4).map (fun i => cdb (fnOf ([0,0,0,1/2,1,1,1] : List ℚ)) 2 i 1) = [0, 0, 0, 0] ∧
    (List.range 4).map (fun i => cdbSpan (fnOf ([0,0,0,1/2,1,1,1] : List ℚ)) 3 2 i 1) = [0, 0, 0, 1] := by
  decide +kernel

/-! ## Evaluation through the REPAIRED span search (F-01b): every valid knot vector, whole closed domain

`curvePointR` / `surfacePointR` / `volumePointR` (`Model/SpanR.lean`) are `evaluate_single` with the repaired
`find_span_linear` (`findSpanLinearR`: after the first loop the index steps back while the span is empty), the same A3.1 /
A3.5 / volume loops on the span found.  The correspondence check compares them with `evaluate_single` of the repaired code on
ordinary shapes and on shapes with an EMPTY last domain span, `u = U_n` included (ops `cevalr`, `sevalr`, `vevalr`).
`DomOk p U n`: non-decreasing knots, `n ≥ p + 1`, `U_p < U_n` – NO condition on the last span (`KnotsOk` implies it). -/

/-- **Curves, closed domain, EVERY valid knot vector** (the last domain span may be empty): for `u ∈ [U_p, U_n]` the span `k`
    the repaired search finds is a legal index, NOT EMPTY and contains `u` (so A2.2 does not divide by zero on it), and every
    coordinate of the evaluated point is the sum over ALL control points of the Cox–de Boor recursion of span `k` (`cdbSpan`,
    = what A2.2 computes on span `k`, `span_basis_eq_basis_function`) times the control point.  For `u < U_n` span `k` is the
    half-open interval of `u` and the sum is the Cox–de Boor sum itself (`cdb`); for `u = U_n` span `k` is the LAST NON-EMPTY
    span of the domain (right end `U_n`, all later spans empty): the left-limit convention, now without assuming that the
    last span `n - 1` is that span. -/
theorem curve_eval_repaired_closed (p d : ℕ) (U : ℕ → K) (P : List (List K)) (hU : DomOk p U P.length) (hP : NetOk d P)
    (u : K) (h1 : U p ≤ u) (h2 : u ≤ U P.length) (j : ℕ) :
    p ≤ findSpanLinearR p U P.length u ∧ findSpanLinearR p U P.length u < P.length ∧
    U (findSpanLinearR p U P.length u) < U (findSpanLinearR p U P.length u + 1) ∧
    U (findSpanLinearR p U P.length u) ≤ u ∧ u ≤ U (findSpanLinearR p U P.length u + 1) ∧
    (curvePointR p U P u).getD j 0
      = ∑ i ∈ range P.length, cdbSpan U (findSpanLinearR p U P.length u) p i u * (ptsGet P i).getD j 0 ∧
    (u < U P.length →
      (curvePointR p U P u).getD j 0 = ∑ i ∈ range P.length, cdb U p i u * (ptsGet P i).getD j 0) ∧
    (u = U P.length → U (findSpanLinearR p U P.length u + 1) = U P.length ∧
      ∀ i, findSpanLinearR p U P.length u < i → i < P.length → U i = U (i + 1)) := by
  obtain ⟨a1, a2, a3, a4, a5, _, a7⟩ := findSpanLinearR_dom p U P.length u hU.pn hU.mono hU.dom h1 h2
  exact ⟨a1, a2, a3, a4, a5, curvePointR_eq_cdbSpan p U P u d j hU.pn hP,
    fun h => curvePointR_eq_cdb p U P u d j hU.mono hU.pn hP h1 h, a7⟩

/-- **Rational curves, closed domain, every valid knot vector**: with positive weights the weight of the evaluated
    homogeneous point is positive and the projected point is (Σ N_i w_i P_i) / (Σ N_i w_i) coordinatewise, `N_i` the
    recursion of the (non-empty) span the repaired search finds. -/
theorem rational_curve_eval_repaired_closed (p d : ℕ) (U : ℕ → K) (Pw : List (List K)) (hU : DomOk p U Pw.length)
    (hP : NetOk (d+1) Pw) (hwt : ∀ i, i < Pw.length → 0 < (ptsGet Pw i).getD d 0) (u : K)
    (h1 : U p ≤ u) (h2 : u ≤ U Pw.length) (j : ℕ) (hj : j < d) :
    0 < (curvePointR p U Pw u).getD d 0 ∧
    (project (curvePointR p U Pw u)).getD j 0
      = (∑ i ∈ range Pw.length, cdbSpan U (findSpanLinearR p U Pw.length u) p i u * (ptsGet Pw i).getD j 0)
        / (∑ i ∈ range Pw.length, cdbSpan U (findSpanLinearR p U Pw.length u) p i u * (ptsGet Pw i).getD d 0) :=
  curvePointR_rational_eq_cdbSpan p U Pw u d j hU hP h1 h2 hwt hj

/-- **With a non-empty last span the repaired evaluation IS the evaluation of the theorems above** (curves, surfaces,
    volumes; every parameter of the closed domain; for curves also wherever the span found without step back is not
    empty): every statement of this file about `curvePoint` / `surfacePoint` / `volumePoint` under `KnotsOk` is a statement
    about the repaired code. -/
theorem eval_repaired_eq_eval (pu pv pw : ℕ) (Uu Uv Uw : ℕ → K) (su sv sw : ℕ) (P : List (List K)) (u v w : K)
    (hUu : KnotsOk pu Uu su) (hUv : KnotsOk pv Uv sv) (hUw : KnotsOk pw Uw sw)
    (hu1 : Uu pu ≤ u) (hu2 : u ≤ Uu su) (hv1 : Uv pv ≤ v) (hv2 : v ≤ Uv sv) (hw1 : Uw pw ≤ w) (hw2 : w ≤ Uw sw) :
    (su = P.length → curvePointR pu Uu P u = curvePoint pu Uu P u) ∧
    surfacePointR pu pv Uu Uv su sv P u v = surfacePoint pu pv Uu Uv su sv P u v ∧
    volumePointR pu pv pw Uu Uv Uw su sv sw P u v w = volumePoint pu pv pw Uu Uv Uw su sv sw P u v w :=
  ⟨fun h => curvePointR_eq_curvePoint pu Uu P u (h ▸ hUu) hu1 (h ▸ hu2),
   surfacePointR_eq_surfacePoint pu pv Uu Uv su sv P u v hUu hUv hu1 hu2 hv1 hv2,
   volumePointR_eq_volumePoint pu pv pw Uu Uv Uw su sv sw P u v w hUu hUv hUw hu1 hu2 hv1 hv2 hw1 hw2⟩

/-- **Surfaces, closed domain, every valid knot vectors** (per direction `DomOk`): the evaluated point is the tensor-product
    sum with the recursions of the spans the repaired search finds (non-empty, containing the parameter:
    `C03.findSpanLinearR_spec` per direction), and the Cox–de Boor tensor sum below the domain ends.  Unlike the curve
    statement this one has NO domain hypothesis for the first identity and does not repeat the span facts: the identity
    with the recursions of the two spans found holds for every `(u, v)` (outside the domain both sides are the model's /
    the code's extrapolation; the driver op `sevalr` answers ERR there); that the spans are legal, non-empty and contain
    the parameters on the closed domain is `C03.findSpanLinearR_spec` applied per direction. -/
theorem surface_eval_repaired_closed (pu pv d : ℕ) (Uu Uv : ℕ → K) (su sv : ℕ) (P : List (List K))
    (hUu : DomOk pu Uu su) (hUv : DomOk pv Uv sv) (hlen : P.length = su * sv) (hP : NetOk d P) (u v : K) (j : ℕ) :
    (surfacePointR pu pv Uu Uv su sv P u v).getD j 0
      = ∑ a ∈ range su, ∑ b ∈ range sv,
          cdbSpan Uu (findSpanLinearR pu Uu su u) pu a u * cdbSpan Uv (findSpanLinearR pv Uv sv v) pv b v *
            (ptsGet P (b + sv * a)).getD j 0 ∧
    (Uu pu ≤ u → u < Uu su → Uv pv ≤ v → v < Uv sv →
      (surfacePointR pu pv Uu Uv su sv P u v).getD j 0
        = ∑ a ∈ range su, ∑ b ∈ range sv, cdb Uu pu a u * cdb Uv pv b v * (ptsGet P (b + sv * a)).getD j 0) :=
  ⟨surfacePointR_eq_cdbSpan pu pv Uu Uv su sv P u v d j hUu.pn hUv.pn hlen hP,
   fun hu1 hu2 hv1 hv2 => surfacePointR_eq_cdb pu pv Uu Uv su sv P u v d j hUu.mono hUv.mono hUu.pn hUv.pn hlen hP
     hu1 hu2 hv1 hv2⟩

/-- **Rational surfaces, closed domain, every valid knot vectors**: positive weight, projected point = quotient of the sums. -/
theorem rational_surface_eval_repaired_closed (pu pv d : ℕ) (Uu Uv : ℕ → K) (su sv : ℕ) (Pw : List (List K))
    (hUu : DomOk pu Uu su) (hUv : DomOk pv Uv sv) (hlen : Pw.length = su * sv) (hP : NetOk (d+1) Pw)
    (hwt : ∀ i, i < Pw.length → 0 < (ptsGet Pw i).getD d 0) (u v : K)
    (hu1 : Uu pu ≤ u) (hu2 : u ≤ Uu su) (hv1 : Uv pv ≤ v) (hv2 : v ≤ Uv sv) (j : ℕ) (hj : j < d) :
    0 < (surfacePointR pu pv Uu Uv su sv Pw u v).getD d 0 ∧
    (project (surfacePointR pu pv Uu Uv su sv Pw u v)).getD j 0
      = (∑ a ∈ range su, ∑ b ∈ range sv,
          cdbSpan Uu (findSpanLinearR pu Uu su u) pu a u * cdbSpan Uv (findSpanLinearR pv Uv sv v) pv b v *
            (ptsGet Pw (b + sv * a)).getD j 0)
        / (∑ a ∈ range su, ∑ b ∈ range sv,
          cdbSpan Uu (findSpanLinearR pu Uu su u) pu a u * cdbSpan Uv (findSpanLinearR pv Uv sv v) pv b v *
            (ptsGet Pw (b + sv * a)).getD d 0) :=
  surfacePointR_rational_eq_cdbSpan pu pv Uu Uv su sv Pw u v d j hUu hUv hlen hP hu1 hu2 hv1 hv2 hwt hj

/-- **Volumes, closed domain, every valid knot vectors**: triple tensor-product sum with the recursions of the spans the
    repaired search finds; the Cox–de Boor sum below the domain ends. -/
theorem volume_eval_repaired_closed (pu pv pw d : ℕ) (Uu Uv Uw : ℕ → K) (su sv sw : ℕ) (P : List (List K))
    (hUu : DomOk pu Uu su) (hUv : DomOk pv Uv sv) (hUw : DomOk pw Uw sw) (hlen : P.length = su * sv * sw) (hP : NetOk d P)
    (u v w : K) (j : ℕ) :
    (volumePointR pu pv pw Uu Uv Uw su sv sw P u v w).getD j 0
      = ∑ a ∈ range su, ∑ b ∈ range sv, ∑ c ∈ range sw,
          cdbSpan Uu (findSpanLinearR pu Uu su u) pu a u * cdbSpan Uv (findSpanLinearR pv Uv sv v) pv b v *
            cdbSpan Uw (findSpanLinearR pw Uw sw w) pw c w * (ptsGet P (b + sv * (a + su * c))).getD j 0 ∧
    (Uu pu ≤ u → u < Uu su → Uv pv ≤ v → v < Uv sv → Uw pw ≤ w → w < Uw sw →
      (volumePointR pu pv pw Uu Uv Uw su sv sw P u v w).getD j 0
        = ∑ a ∈ range su, ∑ b ∈ range sv, ∑ c ∈ range sw,
            cdb Uu pu a u * cdb Uv pv b v * cdb Uw pw c w * (ptsGet P (b + sv * (a + su * c))).getD j 0) :=
  ⟨volumePointR_eq_cdbSpan pu pv pw Uu Uv Uw su sv sw P u v w d j hUu.pn hUv.pn hUw.pn hlen hP,
   fun hu1 hu2 hv1 hv2 hw1 hw2 => volumePointR_eq_cdb pu pv pw Uu Uv Uw su sv sw P u v w d j hUu.mono hUv.mono hUw.mono
     hUu.pn hUv.pn hUw.pn hlen hP hu1 hu2 hv1 hv2 hw1 hw2⟩

/-- **Rational volumes, closed domain, every valid knot vectors**: positive weight, projected point = quotient of the sums. -/
theorem rational_volume_eval_repaired_closed (pu pv pw d : ℕ) (Uu Uv Uw : ℕ → K) (su sv sw : ℕ) (Pw : List (List K))
    (hUu : DomOk pu Uu su) (hUv : DomOk pv Uv sv) (hUw : DomOk pw Uw sw) (hlen : Pw.length = su * sv * sw)
    (hP : NetOk (d+1) Pw) (hwt : ∀ i, i < Pw.length → 0 < (ptsGet Pw i).getD d 0)
    (u v w : K) (hu1 : Uu pu ≤ u) (hu2 : u ≤ Uu su) (hv1 : Uv pv ≤ v) (hv2 : v ≤ Uv sv)
    (hw1 : Uw pw ≤ w) (hw2 : w ≤ Uw sw) (j : ℕ) (hj : j < d) :
    0 < (volumePointR pu pv pw Uu Uv Uw su sv sw Pw u v w).getD d 0 ∧
    (project (volumePointR pu pv pw Uu Uv Uw su sv sw Pw u v w)).getD j 0
      = (∑ a ∈ range su, ∑ b ∈ range sv, ∑ c ∈ range sw,
          cdbSpan Uu (findSpanLinearR pu Uu su u) pu a u * cdbSpan Uv (findSpanLinearR pv Uv sv v) pv b v *
            cdbSpan Uw (findSpanLinearR pw Uw sw w) pw c w * (ptsGet Pw (b + sv * (a + su * c))).getD j 0)
        / (∑ a ∈ range su, ∑ b ∈ range sv, ∑ c ∈ range sw,
          cdbSpan Uu (findSpanLinearR pu Uu su u) pu a u * cdbSpan Uv (findSpanLinearR pv Uv sv v) pv b v *
            cdbSpan Uw (findSpanLinearR pw Uw sw w) pw c w * (ptsGet Pw (b + sv * (a + su * c))).getD d 0) :=
  volumePointR_rational_eq_cdbSpan pu pv pw Uu Uv Uw su sv sw Pw u v w d j hUu hUv hUw hlen hP hu1 hu2 hv1 hv2 hw1 hw2 hwt hj

/-- **The repaired evaluation at the end of a domain with an empty last span** (closed witnesses).
    (1) The input of `span_found_empty_without_knotsOk`: degree 2, `U = [0,0,1,2,4,4,5,5]` (unclamped, double knot on the
    domain end), 5 control points, `u = 4 = U_5`: the repaired search finds span 3 = `[2, 4]`, the evaluated point is
    `(3, 1)` (the fourth control point: the double knot makes the curve pass through it), the basis values of span 3 at
    `u = 4` are `0, 0, 0, 1, 0` – here also the values of the right-continuous Cox–de Boor functions, which are continuous
    at a knot of multiplicity `p` –; the evaluation without step back "returns" `(0, 0)` from a division by zero.
    (2) An end knot repeated `p + 2` times, `U = [0,0,0,1/2,1,1,1,1]`, `u = 1`: the repaired search finds span 3 =
    `[1/2, 1]`, the point is the fourth control point, the basis values of span 3 are `0, 0, 0, 1, 0` whereas the
    right-continuous Cox–de Boor functions all vanish at `U_5 = 1`: the left-limit convention is what the repaired code
    implements.  Strictly inside the domain both evaluations agree.
    (Closed witness check: a statement about these concrete inputs, decided by evaluation.) -/
theorem curve_eval_repaired_witness_F01b :
    findSpanLinearR 2 (fnOf ([0,0,1,2,4,4,5,5] : List ℚ)) 5 4 = 3 ∧
    curvePointR 2 (fnOf ([0,0,1,2,4,4,5,5] : List ℚ)) [[0,0],[1,1],[2,0],[3,1],[4,0]] 4 = [3, 1] ∧
    (List.range 5).map (fun i => cdbSpan (fnOf ([0,0,1,2,4,4,5,5] : List ℚ)) 3 2 i 4) = [0, 0, 0, 1, 0] ∧
    (List.range 5).map (fun i => cdb (fnOf ([0,0,1,2,4,4,5,5] : List ℚ)) 2 i 4) = [0, 0, 0, 1, 0] ∧
    curvePoint 2 (fnOf ([0,0,1,2,4,4,5,5] : List ℚ)) [[0,0],[1,1],[2,0],[3,1],[4,0]] 4 = [0, 0] ∧
    curvePointR 2 (fnOf ([0,0,1,2,4,4,5,5] : List ℚ)) [[0,0],[1,1],[2,0],[3,1],[4,0]] (39/10)
      = curvePoint 2 (fnOf ([0,0,1,2,4,4,5,5] : List ℚ)) [[0,0],[1,1],[2,0],[3,1],[4,0]] (39/10) ∧
    findSpanLinearR 2 (fnOf ([0,0,0,1/2,1,1,1,1] : List ℚ)) 5 1 = 3 ∧
    curvePointR 2 (fnOf ([0,0,0,1/2,1,1,1,1] : List ℚ)) [[0,0],[1,1],[2,0],[3,1],[4,0]] 1 = [3, 1] ∧
    (List.range 5).map (fun i => cdbSpan (fnOf ([0,0,0,1/2,1,1,1,1] : List ℚ)) 3 2 i 1) = [0, 0, 0, 1, 0] ∧
    (List.range 5).map (fun i => cdb (fnOf ([0,0,0,1/2,1,1,1,1] : List ℚ)) 2 i 1) = [0, 0, 0, 0, 0] := by
  decide +kernel

/-- non-vacuity of the `DomOk` hypotheses: that knot vector (empty last domain span) with 5 planar control points -/
example : DomOk 2 (fnOf ([0,0,1,2,4,4,5,5] : List ℚ)) ([[0,0],[1,1],[2,0],[3,1],[4,0]] : List (List ℚ)).length ∧
    NetOk 2 ([[0,0],[1,1],[2,0],[3,1],[4,0]] : List (List ℚ)) ∧
    fnOf ([0,0,1,2,4,4,5,5] : List ℚ) 2 ≤ 4 ∧
    (4:ℚ) ≤ fnOf ([0,0,1,2,4,4,5,5] : List ℚ) ([[0,0],[1,1],[2,0],[3,1],[4,0]] : List (List ℚ)).length :=
  ⟨⟨mono_of_pairwise _ (by decide +kernel), by decide, by decide +kernel⟩,
   by intro pt hpt; simp at hpt; rcases hpt with h | h | h | h | h <;> simp [h], by decide +kernel, by decide +kernel⟩

/-! ## `evaluate_list`, the sampled grids and the zeroth derivative through the REPAIRED span search

`curveGridR` / `surfaceGridR` / `volumeGridR` / `curveDersR` (`Model/SpanRGrid.lean`) are `curveGrid` / `surfaceGrid` /
`volumeGrid` / `curveDers` with `findSpanLinear` replaced by `findSpanLinearR` (the repaired `find_span_linear`), i.e. what
`evaluate_list`, `evaluate` (→ `evalpts`) and `derivatives` run after the F-01b repair.  The correspondence check compares
them with the repaired code on ordinary shapes and on shapes with an EMPTY last domain span, where every sampled grid
contains the domain end `U_n` (ops `cgridr`, `sgridr`, `vgridr`, `clistr`, `cdersr`). -/

/-- **Parameter list / curve grid, repaired search**: `evaluate_list(params)` returns one point per parameter and, at
    position `i`, the point `evaluate_single` (repaired search: `curvePointR`) returns for the `i`-th parameter.
    (Unfolding lemma: the model IS the `map` of the single-point evaluation; what ties it to the code is the correspondence
    check.) -/
theorem curve_list_repaired_eq_single (rat : Bool) (p : ℕ) (U : ℕ → K) (P : List (List K)) (ks : List K) (i : ℕ)
    (hi : i < ks.length) :
    (curveGridR rat p U P ks).length = ks.length ∧
    (curveGridR rat p U P ks).getD i [] = projIf rat (curvePointR p U P (ks.getD i 0)) :=
  ⟨curveGridR_length rat p U P ks, curveGridR_getD rat p U P ks i hi⟩

/-- **Surface grid, repaired search: size and ordering** – `|us| · |vs|` points, flat index `i · |vs| + j` (u slowest, v
    fastest) holds the R evaluation at `(us[i], vs[j])`.  (Unfolding lemma, as `surface_grid_index`.) -/
theorem surface_grid_repaired_index (rat : Bool) (pu pv : ℕ) (Uu Uv : ℕ → K) (su sv : ℕ) (P : List (List K))
    (kus kvs : List K) (i j : ℕ) (hi : i < kus.length) (hj : j < kvs.length) :
    (surfaceGridR rat pu pv Uu Uv su sv P kus kvs).length = kus.length * kvs.length ∧
    (surfaceGridR rat pu pv Uu Uv su sv P kus kvs).getD (i * kvs.length + j) []
      = projIf rat (surfacePointR pu pv Uu Uv su sv P (kus.getD i 0) (kvs.getD j 0)) :=
  ⟨surfaceGridR_length rat pu pv Uu Uv su sv P kus kvs, surfaceGridR_getD rat pu pv Uu Uv su sv P kus kvs i j hi hj⟩

/-- **Volume grid, repaired search: size and ordering** (u slowest, then v, w fastest).  (Unfolding lemma.) -/
theorem volume_grid_repaired_index (rat : Bool) (pu pv pw : ℕ) (Uu Uv Uw : ℕ → K) (su sv sw : ℕ) (P : List (List K))
    (kus kvs kws : List K) (i j k : ℕ) (hi : i < kus.length) (hj : j < kvs.length) (hk : k < kws.length) :
    (volumeGridR rat pu pv pw Uu Uv Uw su sv sw P kus kvs kws).length = kus.length * (kvs.length * kws.length) ∧
    (volumeGridR rat pu pv pw Uu Uv Uw su sv sw P kus kvs kws).getD (i * (kvs.length * kws.length) + (j * kws.length + k)) []
      = projIf rat (volumePointR pu pv pw Uu Uv Uw su sv sw P (kus.getD i 0) (kvs.getD j 0) (kws.getD k 0)) :=
  ⟨volumeGridR_length rat pu pv pw Uu Uv Uw su sv sw P kus kvs kws,
   volumeGridR_getD rat pu pv pw Uu Uv Uw su sv sw P kus kvs kws i j k hi hj hk⟩

/-- **With a non-empty last span the R grids ARE the grids of the theorems above** (`KnotsOk` per direction, every
    parameter of the lists in the closed domain – true for the `linspace` lists from `U_p` to `U_n`,
    `sampled_params_in_domain`): `curve_list_eq_single`, `surface_grid_index`, `volume_grid_index`, `surface_grid_corners`
    are statements about the repaired code. -/
theorem grid_repaired_eq_grid (rat : Bool) (pu pv pw : ℕ) (Uu Uv Uw : ℕ → K) (su sv sw : ℕ) (P : List (List K))
    (kus kvs kws : List K) (hUu : KnotsOk pu Uu su) (hUv : KnotsOk pv Uv sv) (hUw : KnotsOk pw Uw sw)
    (hkus : ∀ u ∈ kus, Uu pu ≤ u ∧ u ≤ Uu su) (hkvs : ∀ v ∈ kvs, Uv pv ≤ v ∧ v ≤ Uv sv)
    (hkws : ∀ w ∈ kws, Uw pw ≤ w ∧ w ≤ Uw sw) :
    (su = P.length → curveGridR rat pu Uu P kus = curveGrid rat pu Uu P kus) ∧
    surfaceGridR rat pu pv Uu Uv su sv P kus kvs = surfaceGrid rat pu pv Uu Uv su sv P kus kvs ∧
    volumeGridR rat pu pv pw Uu Uv Uw su sv sw P kus kvs kws = volumeGrid rat pu pv pw Uu Uv Uw su sv sw P kus kvs kws :=
  ⟨fun h => curveGridR_eq_curveGrid rat pu Uu P kus (h ▸ hUu) (fun u hu => by rw [← h]; exact hkus u hu),
   surfaceGridR_eq_surfaceGrid rat pu pv Uu Uv su sv P kus kvs hUu hUv hkus hkvs,
   volumeGridR_eq_volumeGrid rat pu pv pw Uu Uv Uw su sv sw P kus kvs kws hUu hUv hUw hkus hkvs hkws⟩

/-- **The sampled parameters lie in the closed interval they sample** (`n ≥ 2` samples of `[a, b]`, `a < b`): with
    `a = U_p`, `b = U_n` the hypothesis on the parameter lists of `grid_repaired_eq_grid` and of the entry theorems below. -/
theorem sampled_params_in_domain (a b : K) (n : ℕ) (hab : a < b) (hn : 2 ≤ n) (u : K) (hu : u ∈ linspaceCore a b n) :
    a ≤ u ∧ u ≤ b :=
  linspaceCore_mem_Icc a b n hab hn u hu

/-- **Every entry of the curve list / grid, EVERY valid knot vector** (`DomOk`: sorted, `n ≥ p + 1`, `U_p < U_n`; the last
    domain span may be empty), parameter `ks[i]` in the closed domain: the entry is the sum over ALL control points of the
    Cox–de Boor recursion of the (non-empty) span the repaired search finds at `ks[i]` times the control point – the
    Cox–de Boor sum itself (`cdb`) for `ks[i] < U_n`, the recursion of the LAST NON-EMPTY span (left limit) for
    `ks[i] = U_n` (`curve_eval_repaired_closed`). -/
theorem curve_grid_repaired_entry_eq_definition (p d : ℕ) (U : ℕ → K) (P : List (List K)) (hU : DomOk p U P.length)
    (hP : NetOk d P) (ks : List K) (i : ℕ) (hi : i < ks.length) (j : ℕ) :
    ((curveGridR false p U P ks).getD i []).getD j 0
      = ∑ c ∈ range P.length, cdbSpan U (findSpanLinearR p U P.length (ks.getD i 0)) p c (ks.getD i 0) * (ptsGet P c).getD j 0 ∧
    (U p ≤ ks.getD i 0 → ks.getD i 0 < U P.length →
      ((curveGridR false p U P ks).getD i []).getD j 0
        = ∑ c ∈ range P.length, cdb U p c (ks.getD i 0) * (ptsGet P c).getD j 0) := by
  rw [curveGridR_getD false p U P ks i hi]
  exact ⟨curvePointR_eq_cdbSpan p U P _ d j hU.pn hP, fun h1 h2 => curvePointR_eq_cdb p U P _ d j hU.mono hU.pn hP h1 h2⟩

/-- **Every entry of the rational curve list / grid, every valid knot vector**: positive weights, `ks[i] ∈ [U_p, U_n]`:
    the projected entry is (Σ N_c w_c P_c) / (Σ N_c w_c) with the recursion of the span the repaired search finds. -/
theorem rational_curve_grid_repaired_entry_eq_quotient (p d : ℕ) (U : ℕ → K) (Pw : List (List K))
    (hU : DomOk p U Pw.length) (hP : NetOk (d+1) Pw) (hwt : ∀ i, i < Pw.length → 0 < (ptsGet Pw i).getD d 0)
    (ks : List K) (i : ℕ) (hi : i < ks.length) (h1 : U p ≤ ks.getD i 0) (h2 : ks.getD i 0 ≤ U Pw.length)
    (j : ℕ) (hj : j < d) :
    ((curveGridR true p U Pw ks).getD i []).getD j 0
      = (∑ c ∈ range Pw.length, cdbSpan U (findSpanLinearR p U Pw.length (ks.getD i 0)) p c (ks.getD i 0) * (ptsGet Pw c).getD j 0)
        / (∑ c ∈ range Pw.length, cdbSpan U (findSpanLinearR p U Pw.length (ks.getD i 0)) p c (ks.getD i 0) * (ptsGet Pw c).getD d 0) := by
  rw [curveGridR_getD true p U Pw ks i hi]
  exact (curvePointR_rational_eq_cdbSpan p U Pw _ d j hU hP h1 h2 hwt hj).2

/-- **Every entry of the surface grid, every valid knot vectors** (per direction `DomOk`): the entry with flat index
    `i · |vs| + j` is the tensor-product sum with the recursions of the spans the repaired search finds at `us[i]`, `vs[j]`;
    the Cox–de Boor tensor sum when both parameters are below their domain ends. -/
theorem surface_grid_repaired_entry_eq_definition (pu pv d : ℕ) (Uu Uv : ℕ → K) (su sv : ℕ) (P : List (List K))
    (hUu : DomOk pu Uu su) (hUv : DomOk pv Uv sv) (hlen : P.length = su * sv) (hP : NetOk d P)
    (kus kvs : List K) (i j : ℕ) (hi : i < kus.length) (hj : j < kvs.length) (c : ℕ) :
    ((surfaceGridR false pu pv Uu Uv su sv P kus kvs).getD (i * kvs.length + j) []).getD c 0
      = ∑ a ∈ range su, ∑ b ∈ range sv,
          cdbSpan Uu (findSpanLinearR pu Uu su (kus.getD i 0)) pu a (kus.getD i 0) *
            cdbSpan Uv (findSpanLinearR pv Uv sv (kvs.getD j 0)) pv b (kvs.getD j 0) * (ptsGet P (b + sv * a)).getD c 0 ∧
    (Uu pu ≤ kus.getD i 0 → kus.getD i 0 < Uu su → Uv pv ≤ kvs.getD j 0 → kvs.getD j 0 < Uv sv →
      ((surfaceGridR false pu pv Uu Uv su sv P kus kvs).getD (i * kvs.length + j) []).getD c 0
        = ∑ a ∈ range su, ∑ b ∈ range sv,
            cdb Uu pu a (kus.getD i 0) * cdb Uv pv b (kvs.getD j 0) * (ptsGet P (b + sv * a)).getD c 0) := by
  rw [surfaceGridR_getD false pu pv Uu Uv su sv P kus kvs i j hi hj]
  exact surface_eval_repaired_closed pu pv d Uu Uv su sv P hUu hUv hlen hP _ _ c

/-- **Every entry of the rational surface grid, every valid knot vectors**: positive weights, parameters in the closed
    domain: the projected entry is the quotient of the tensor sums. -/
theorem rational_surface_grid_repaired_entry_eq_quotient (pu pv d : ℕ) (Uu Uv : ℕ → K) (su sv : ℕ) (Pw : List (List K))
    (hUu : DomOk pu Uu su) (hUv : DomOk pv Uv sv) (hlen : Pw.length = su * sv) (hP : NetOk (d+1) Pw)
    (hwt : ∀ i, i < Pw.length → 0 < (ptsGet Pw i).getD d 0)
    (kus kvs : List K) (i j : ℕ) (hi : i < kus.length) (hj : j < kvs.length)
    (hu1 : Uu pu ≤ kus.getD i 0) (hu2 : kus.getD i 0 ≤ Uu su) (hv1 : Uv pv ≤ kvs.getD j 0) (hv2 : kvs.getD j 0 ≤ Uv sv)
    (c : ℕ) (hc : c < d) :
    ((surfaceGridR true pu pv Uu Uv su sv Pw kus kvs).getD (i * kvs.length + j) []).getD c 0
      = (∑ a ∈ range su, ∑ b ∈ range sv,
          cdbSpan Uu (findSpanLinearR pu Uu su (kus.getD i 0)) pu a (kus.getD i 0) *
            cdbSpan Uv (findSpanLinearR pv Uv sv (kvs.getD j 0)) pv b (kvs.getD j 0) * (ptsGet Pw (b + sv * a)).getD c 0)
        / (∑ a ∈ range su, ∑ b ∈ range sv,
          cdbSpan Uu (findSpanLinearR pu Uu su (kus.getD i 0)) pu a (kus.getD i 0) *
            cdbSpan Uv (findSpanLinearR pv Uv sv (kvs.getD j 0)) pv b (kvs.getD j 0) * (ptsGet Pw (b + sv * a)).getD d 0) := by
  rw [surfaceGridR_getD true pu pv Uu Uv su sv Pw kus kvs i j hi hj]
  exact (surfacePointR_rational_eq_cdbSpan pu pv Uu Uv su sv Pw _ _ d c hUu hUv hlen hP hu1 hu2 hv1 hv2 hwt hc).2

/-- **Every entry of the volume grid, every valid knot vectors**: triple tensor sum with the recursions of the spans the
    repaired search finds at the three parameters of the entry. -/
theorem volume_grid_repaired_entry_eq_definition (pu pv pw d : ℕ) (Uu Uv Uw : ℕ → K) (su sv sw : ℕ) (P : List (List K))
    (hUu : DomOk pu Uu su) (hUv : DomOk pv Uv sv) (hUw : DomOk pw Uw sw) (hlen : P.length = su * sv * sw) (hP : NetOk d P)
    (kus kvs kws : List K) (i j k : ℕ) (hi : i < kus.length) (hj : j < kvs.length) (hk : k < kws.length) (e : ℕ) :
    ((volumeGridR false pu pv pw Uu Uv Uw su sv sw P kus kvs kws).getD
        (i * (kvs.length * kws.length) + (j * kws.length + k)) []).getD e 0
      = ∑ a ∈ range su, ∑ b ∈ range sv, ∑ c ∈ range sw,
          cdbSpan Uu (findSpanLinearR pu Uu su (kus.getD i 0)) pu a (kus.getD i 0) *
            cdbSpan Uv (findSpanLinearR pv Uv sv (kvs.getD j 0)) pv b (kvs.getD j 0) *
            cdbSpan Uw (findSpanLinearR pw Uw sw (kws.getD k 0)) pw c (kws.getD k 0) *
              (ptsGet P (b + sv * (a + su * c))).getD e 0 := by
  rw [volumeGridR_getD false pu pv pw Uu Uv Uw su sv sw P kus kvs kws i j k hi hj hk]
  exact volumePointR_eq_cdbSpan pu pv pw Uu Uv Uw su sv sw P _ _ _ d e hUu.pn hUv.pn hUw.pn hlen hP

/-- **Every entry of the rational volume grid, every valid knot vectors**: positive weights, parameters in the closed
    domain: quotient of the triple sums. -/
theorem rational_volume_grid_repaired_entry_eq_quotient (pu pv pw d : ℕ) (Uu Uv Uw : ℕ → K) (su sv sw : ℕ)
    (Pw : List (List K)) (hUu : DomOk pu Uu su) (hUv : DomOk pv Uv sv) (hUw : DomOk pw Uw sw)
    (hlen : Pw.length = su * sv * sw) (hP : NetOk (d+1) Pw) (hwt : ∀ i, i < Pw.length → 0 < (ptsGet Pw i).getD d 0)
    (kus kvs kws : List K) (i j k : ℕ) (hi : i < kus.length) (hj : j < kvs.length) (hk : k < kws.length)
    (hu1 : Uu pu ≤ kus.getD i 0) (hu2 : kus.getD i 0 ≤ Uu su) (hv1 : Uv pv ≤ kvs.getD j 0) (hv2 : kvs.getD j 0 ≤ Uv sv)
    (hw1 : Uw pw ≤ kws.getD k 0) (hw2 : kws.getD k 0 ≤ Uw sw) (e : ℕ) (he : e < d) :
    ((volumeGridR true pu pv pw Uu Uv Uw su sv sw Pw kus kvs kws).getD
        (i * (kvs.length * kws.length) + (j * kws.length + k)) []).getD e 0
      = (∑ a ∈ range su, ∑ b ∈ range sv, ∑ c ∈ range sw,
          cdbSpan Uu (findSpanLinearR pu Uu su (kus.getD i 0)) pu a (kus.getD i 0) *
            cdbSpan Uv (findSpanLinearR pv Uv sv (kvs.getD j 0)) pv b (kvs.getD j 0) *
            cdbSpan Uw (findSpanLinearR pw Uw sw (kws.getD k 0)) pw c (kws.getD k 0) *
              (ptsGet Pw (b + sv * (a + su * c))).getD e 0)
        / (∑ a ∈ range su, ∑ b ∈ range sv, ∑ c ∈ range sw,
          cdbSpan Uu (findSpanLinearR pu Uu su (kus.getD i 0)) pu a (kus.getD i 0) *
            cdbSpan Uv (findSpanLinearR pv Uv sv (kvs.getD j 0)) pv b (kvs.getD j 0) *
            cdbSpan Uw (findSpanLinearR pw Uw sw (kws.getD k 0)) pw c (kws.getD k 0) *
              (ptsGet Pw (b + sv * (a + su * c))).getD d 0) := by
  rw [volumeGridR_getD true pu pv pw Uu Uv Uw su sv sw Pw kus kvs kws i j k hi hj hk]
  exact (volumePointR_rational_eq_cdbSpan pu pv pw Uu Uv Uw su sv sw Pw _ _ _ d e hUu hUv hUw hlen hP
    hu1 hu2 hv1 hv2 hw1 hw2 hwt he).2

/-- **The sampled grids (repaired search) start and end exactly on the domain corners**: with the `linspace` parameter
    lists of `≥ 2` samples per direction, the first grid point is the R evaluation at the start corner and the last one
    (index `n − 1`, `n_u · n_v − 1`, `n_u · n_v · n_w − 1`) the R evaluation at the end corner – curves, surfaces, volumes. -/
theorem grid_repaired_corners (rat : Bool) (pu pv pw : ℕ) (Uu Uv Uw : ℕ → K) (su sv sw : ℕ) (P : List (List K))
    (a b c d e f : K) (nu nv nw : ℕ) (hnu : 2 ≤ nu) (hnv : 2 ≤ nv) (hnw : 2 ≤ nw) :
    ((curveGridR rat pu Uu P (linspaceCore a b nu)).getD 0 [] = projIf rat (curvePointR pu Uu P a) ∧
     (curveGridR rat pu Uu P (linspaceCore a b nu)).getD (nu - 1) [] = projIf rat (curvePointR pu Uu P b)) ∧
    ((surfaceGridR rat pu pv Uu Uv su sv P (linspaceCore a b nu) (linspaceCore c d nv)).getD 0 []
        = projIf rat (surfacePointR pu pv Uu Uv su sv P a c) ∧
     (surfaceGridR rat pu pv Uu Uv su sv P (linspaceCore a b nu) (linspaceCore c d nv)).getD (nu * nv - 1) []
        = projIf rat (surfacePointR pu pv Uu Uv su sv P b d)) ∧
    ((volumeGridR rat pu pv pw Uu Uv Uw su sv sw P (linspaceCore a b nu) (linspaceCore c d nv) (linspaceCore e f nw)).getD 0 []
        = projIf rat (volumePointR pu pv pw Uu Uv Uw su sv sw P a c e) ∧
     (volumeGridR rat pu pv pw Uu Uv Uw su sv sw P (linspaceCore a b nu) (linspaceCore c d nv) (linspaceCore e f nw)).getD
          (nu * (nv * nw) - 1) []
        = projIf rat (volumePointR pu pv pw Uu Uv Uw su sv sw P b d f)) :=
  ⟨curveGridR_ends rat pu Uu P a b nu hnu, surfaceGridR_corners rat pu pv Uu Uv su sv P a b c d nu nv hnu hnv,
   volumeGridR_corners rat pu pv pw Uu Uv Uw su sv sw P a b c d e f nu nv nw hnu hnv hnw⟩

/-- **The sampled curve grid ends on the LEFT-LIMIT value, every valid knot vector**: the grid over
    `linspace(U_p, U_n, n)`, `n ≥ 2`, of a curve whose last domain span may be empty: with `κ` the span the repaired search
    finds at `U_n` – `p ≤ κ < n`, NOT EMPTY, right end `U_n`, every later span of the domain empty – the LAST grid point is
    the sum over all control points of the Cox–de Boor recursion of span `κ` at `U_n` (for a clamped end: the last control
    point); the FIRST grid point is the Cox–de Boor sum at `U_p`. -/
theorem curve_grid_repaired_ends_on_left_limit (p d : ℕ) (U : ℕ → K) (P : List (List K)) (hU : DomOk p U P.length)
    (hP : NetOk d P) (n : ℕ) (hn : 2 ≤ n) (j : ℕ) :
    p ≤ findSpanLinearR p U P.length (U P.length) ∧ findSpanLinearR p U P.length (U P.length) < P.length ∧
    U (findSpanLinearR p U P.length (U P.length)) < U (findSpanLinearR p U P.length (U P.length) + 1) ∧
    U (findSpanLinearR p U P.length (U P.length) + 1) = U P.length ∧
    (∀ i, findSpanLinearR p U P.length (U P.length) < i → i < P.length → U i = U (i + 1)) ∧
    ((curveGridR false p U P (linspaceCore (U p) (U P.length) n)).getD (n - 1) []).getD j 0
      = ∑ c ∈ range P.length, cdbSpan U (findSpanLinearR p U P.length (U P.length)) p c (U P.length) * (ptsGet P c).getD j 0 ∧
    ((curveGridR false p U P (linspaceCore (U p) (U P.length) n)).getD 0 []).getD j 0
      = ∑ c ∈ range P.length, cdb U p c (U p) * (ptsGet P c).getD j 0 := by
  obtain ⟨b1, b2, b3, b4, b5⟩ := findSpanLinearR_right_end p U P.length hU.pn hU.mono hU.dom
  obtain ⟨e0, e1⟩ := curveGridR_ends false p U P (U p) (U P.length) n hn
  refine ⟨b1, b2, b3, b4, b5, ?_, ?_⟩
  · rw [e1]; exact curvePointR_eq_cdbSpan p U P _ d j hU.pn hP
  · rw [e0]; exact curvePointR_eq_cdb p U P _ d j hU.mono hU.pn hP (le_refl _) hU.dom

/-- **The sampled surface grid ends on the LEFT-LIMIT value, every valid knot vectors**: the last point of the grid over
    `linspace(U_p, U_n, ·)` per direction (`≥ 2` samples each) is the tensor sum with the recursions of the LAST NON-EMPTY
    spans `κ_u`, `κ_v` of the two domains (non-empty, right ends `U_n`), evaluated at the domain ends; the first point is
    the Cox–de Boor tensor sum at the start corner.  (Volumes: `grid_repaired_corners` + `volume_eval_repaired_closed` +
    `C03.findSpanLinearR_spec` per direction.) -/
theorem surface_grid_repaired_ends_on_left_limit (pu pv d : ℕ) (Uu Uv : ℕ → K) (su sv : ℕ) (P : List (List K))
    (hUu : DomOk pu Uu su) (hUv : DomOk pv Uv sv) (hlen : P.length = su * sv) (hP : NetOk d P)
    (nu nv : ℕ) (hnu : 2 ≤ nu) (hnv : 2 ≤ nv) (j : ℕ) :
    (Uu (findSpanLinearR pu Uu su (Uu su)) < Uu (findSpanLinearR pu Uu su (Uu su) + 1) ∧
      Uu (findSpanLinearR pu Uu su (Uu su) + 1) = Uu su) ∧
    (Uv (findSpanLinearR pv Uv sv (Uv sv)) < Uv (findSpanLinearR pv Uv sv (Uv sv) + 1) ∧
      Uv (findSpanLinearR pv Uv sv (Uv sv) + 1) = Uv sv) ∧
    ((surfaceGridR false pu pv Uu Uv su sv P (linspaceCore (Uu pu) (Uu su) nu) (linspaceCore (Uv pv) (Uv sv) nv)).getD
        (nu * nv - 1) []).getD j 0
      = ∑ a ∈ range su, ∑ b ∈ range sv,
          cdbSpan Uu (findSpanLinearR pu Uu su (Uu su)) pu a (Uu su) * cdbSpan Uv (findSpanLinearR pv Uv sv (Uv sv)) pv b (Uv sv) *
            (ptsGet P (b + sv * a)).getD j 0 ∧
    ((surfaceGridR false pu pv Uu Uv su sv P (linspaceCore (Uu pu) (Uu su) nu) (linspaceCore (Uv pv) (Uv sv) nv)).getD
        0 []).getD j 0
      = ∑ a ∈ range su, ∑ b ∈ range sv, cdb Uu pu a (Uu pu) * cdb Uv pv b (Uv pv) * (ptsGet P (b + sv * a)).getD j 0 := by
  obtain ⟨_, _, bu3, bu4, _⟩ := findSpanLinearR_right_end pu Uu su hUu.pn hUu.mono hUu.dom
  obtain ⟨_, _, bv3, bv4, _⟩ := findSpanLinearR_right_end pv Uv sv hUv.pn hUv.mono hUv.dom
  obtain ⟨e0, e1⟩ := surfaceGridR_corners false pu pv Uu Uv su sv P (Uu pu) (Uu su) (Uv pv) (Uv sv) nu nv hnu hnv
  refine ⟨⟨bu3, bu4⟩, ⟨bv3, bv4⟩, ?_, ?_⟩
  · rw [e1]; exact surfacePointR_eq_cdbSpan pu pv Uu Uv su sv P _ _ d j hUu.pn hUv.pn hlen hP
  · rw [e0]; exact surfacePointR_eq_cdb pu pv Uu Uv su sv P _ _ d j hUu.mono hUv.mono hUu.pn hUv.pn hlen hP
      (le_refl _) hUu.dom (le_refl _) hUv.dom

/-- **Zeroth derivative, repaired search**: entry 0 of `derivatives(u, order)` on the span the repaired search finds
    (`curveDersR`, any requested order) is the point `evaluate_single(u)` returns (`curvePointR`) – same span, same basis
    functions; every parameter, every knot function with `n ≥ p + 1`. -/
theorem curve_ders0_repaired_eq_single (p : ℕ) (U : ℕ → K) (P : List (List K)) (u : K) (order : ℕ)
    (hpn : p + 1 ≤ P.length) :
    (curveDersR p U P u order).getD 0 [] = curvePointR p U P u :=
  curveDersR_head p U P u order hpn

/-- **The sampled grid at the end of a domain with an empty last span** (closed witnesses; inputs of
    `curve_eval_repaired_witness_F01b`).  (1) degree 2, `U = [0,0,1,2,4,4,5,5]`, 5 control points, 4 samples of the domain
    `[1, 4]`: the R grid ends on `(3, 1)` (the left-limit value at `u = 4`), the grid through the search without step back
    "ends" on `(0, 0)` (division by zero on the empty span); the other three points agree.  (2) end knot repeated `p + 2`
    times, 3 samples of `[0, 1]`: the grid ends on the fourth control point `(3, 1)`.  (3) a surface with that u-direction
    and a linear v-direction, 3 × 2 samples: the last row is evaluated at `u = 4` on span 3.
    (Closed witness check: a statement about these concrete inputs, decided by evaluation.) -/
theorem grid_repaired_witness_F01b :
    curveGridR false 2 (fnOf ([0,0,1,2,4,4,5,5] : List ℚ)) [[0,0],[1,1],[2,0],[3,1],[4,0]] (linspaceCore 1 4 4)
      = [[1/2, 1/2], [4/3, 2/3], [25/12, 5/12], [3, 1]] ∧
    curveGrid false 2 (fnOf ([0,0,1,2,4,4,5,5] : List ℚ)) [[0,0],[1,1],[2,0],[3,1],[4,0]] (linspaceCore 1 4 4)
      = [[1/2, 1/2], [4/3, 2/3], [25/12, 5/12], [0, 0]] ∧
    curveGridR false 2 (fnOf ([0,0,0,1/2,1,1,1,1] : List ℚ)) [[0,0],[1,1],[2,0],[3,1],[4,0]] (linspaceCore 0 1 3)
      = [[0, 0], [3/2, 1/2], [3, 1]] ∧
    surfaceGridR false 2 1 (fnOf ([0,0,1,2,4,4,5,5] : List ℚ)) (fnOf ([0,0,1,1] : List ℚ)) 5 2
        [[0,0],[1,1],[1,1],[2,2],[2,0],[3,1],[3,1],[4,2],[4,0],[5,1]] (linspaceCore 1 4 3) (linspaceCore 0 1 2)
      = [[1/2, 1/2], [3/2, 3/2], [27/16, 7/16], [43/16, 23/16], [3, 1], [4, 2]] ∧
    (curveDersR 2 (fnOf ([0,0,1,2,4,4,5,5] : List ℚ)) [[0,0],[1,1],[2,0],[3,1],[4,0]] 4 1).getD 0 [] = [3, 1] := by
  decide +kernel

/-- non-vacuity of the hypotheses of the entry / end theorems: the knot vector with an empty last domain span, 5 planar
    control points, the 4 samples of `[U_2, U_5] = [1, 4]` lie in the closed domain -/
example : DomOk 2 (fnOf ([0,0,1,2,4,4,5,5] : List ℚ)) ([[0,0],[1,1],[2,0],[3,1],[4,0]] : List (List ℚ)).length ∧
    NetOk 2 ([[0,0],[1,1],[2,0],[3,1],[4,0]] : List (List ℚ)) ∧
    (∀ u ∈ linspaceCore (fnOf ([0,0,1,2,4,4,5,5] : List ℚ) 2) (fnOf ([0,0,1,2,4,4,5,5] : List ℚ) 5) 4,
      fnOf ([0,0,1,2,4,4,5,5] : List ℚ) 2 ≤ u ∧ u ≤ fnOf ([0,0,1,2,4,4,5,5] : List ℚ) 5) :=
  ⟨⟨mono_of_pairwise _ (by decide +kernel), by decide, by decide +kernel⟩,
   by intro pt hpt; simp at hpt; rcases hpt with h | h | h | h | h <;> simp [h],
   fun u hu => sampled_params_in_domain _ _ 4 (by decide +kernel) (by decide) u hu⟩

/-- non-vacuity of `grid_repaired_eq_grid`: a knot vector with non-empty last span and 3 samples of its domain -/
example : KnotsOk 2 (fnOf ([0,0,0,1/2,1,1,1] : List ℚ)) 4 ∧
    (∀ u ∈ linspaceCore (0:ℚ) 1 3, fnOf ([0,0,0,1/2,1,1,1] : List ℚ) 2 ≤ u ∧ u ≤ fnOf ([0,0,0,1/2,1,1,1] : List ℚ) 4) :=
  ⟨⟨mono_of_pairwise _ (by decide +kernel), by decide, by decide +kernel⟩, by decide +kernel⟩

end C01
