import NurbsVerif.Lemmas.MeshGeom
import NurbsVerif.Lemmas.MeshEdges
import NurbsVerif.Lemmas.MeshTiling
import NurbsVerif.Lemmas.MeshTilingQuad
import NurbsVerif.Lemmas.MeshSurface

/-!
# C15  Tessellation is a valid triangulation lying on the surface

Property theorems only (helper lemmas live in `Lemmas/Mesh.lean`, `Lemmas/MeshGeom.lean`).  The model
(`Model/Mesh.lean`) is the one the correspondence check runs against `tessellate.TriangularTessellate`,
`QuadTessellate`, `Surface.tessellate`, `SurfaceContainer.tessellate`, `exchange.export_obj_str /
export_off_str / export_stl_str` and `linalg.triangle_normal`.  It mirrors the code with the repair of
defect F-15; the refutation of the pinned size expression is at the end.

Conventions: vertex `k` of `makeTriangleMesh su sv s` (position `k` of its `uv` / `src` lists) is the vertex
with id `k`; `nu = gridCount su s`, `nv = gridCount sv s` are the numbers of grid lines; the vertex on grid
lines `(i, j)` has id `gridVid nv i j = j + i·nv`.  `K` is any linearly ordered field.

NOT covered here (see PARTIAL in harness/props/c15.py): trimmed tessellation.
-/
namespace C15
open Geomdl Geomdl.Mesh
variable {K : Type} [Field K] [LinearOrder K] [IsStrictOrderedRing K]

/-! ### vertices and faces -/

/-- `fix_numbering` keeps every grid vertex and its id: the kept ids are `0, 1, …, V-1` in order and the
    triangles are unchanged (grids with at least two lines per direction). -/
theorem vertex_ids_consecutive (nu nv : ℕ) (hu : 2 ≤ nu) (hv : 2 ≤ nv) :
    fixNumbering (nu * nv) (meshTriangles nu nv) = (List.range (nu * nv), meshTriangles nu nv) :=
  fixNumbering_grid hu hv

/-- The mesh has `V = nu·nv` vertices (ids `0 … V-1`), each with a parameter pair and a source point. -/
theorem vertex_count (su sv s : ℕ) (hu : 2 ≤ gridCount su s) (hv : 2 ≤ gridCount sv s) :
    (makeTriangleMesh (K := K) su sv s).uv.length = gridCount su s * gridCount sv s ∧
    (makeTriangleMesh (K := K) su sv s).src.length = gridCount su s * gridCount sv s := by
  rw [makeTriangleMesh_eq su sv s hu hv]
  simp [meshVertices_length]

/-- When the spacing divides `size - 1` the number of grid lines is `(size - 1)/s + 1`. -/
theorem grid_lines (k s : ℕ) (hs : 0 < s) : gridCount (k * s + 1) s = k + 1 := gridCount_of_dvd k s hs

/-- Every face index is an existing vertex id. -/
theorem face_index_lt (su sv s : ℕ) (hu : 2 ≤ gridCount su s) (hv : 2 ≤ gridCount sv s) :
    ∀ t ∈ (makeTriangleMesh (K := K) su sv s).faces, ∀ v ∈ t,
      v < (makeTriangleMesh (K := K) su sv s).uv.length := by
  rw [(vertex_count su sv s hu hv).1, makeTriangleMesh_eq su sv s hu hv]
  exact fun t ht => meshTriangles_index_lt ht

/-- The faces are exactly the triangles `(v(i,j), v(i+1,j), v(i+1,j+1))` and `(v(i,j), v(i+1,j+1), v(i,j+1))`
    of all grid cells. -/
theorem faces_exact (su sv s : ℕ) (hu : 2 ≤ gridCount su s) (hv : 2 ≤ gridCount sv s) (t : List ℕ) :
    t ∈ (makeTriangleMesh (K := K) su sv s).faces ↔
      ∃ i, i < gridCount su s - 1 ∧ ∃ j, j < gridCount sv s - 1 ∧
        (t = [gridVid (gridCount sv s) i j, gridVid (gridCount sv s) (i + 1) j, gridVid (gridCount sv s) (i + 1) (j + 1)] ∨
         t = [gridVid (gridCount sv s) i j, gridVid (gridCount sv s) (i + 1) (j + 1), gridVid (gridCount sv s) i (j + 1)]) := by
  rw [makeTriangleMesh_eq su sv s hu hv]; exact mem_meshTriangles

/-- `F = 2 (nu-1)(nv-1)`. -/
theorem face_count (su sv s : ℕ) (hu : 2 ≤ gridCount su s) (hv : 2 ≤ gridCount sv s) :
    (makeTriangleMesh (K := K) su sv s).faces.length = 2 * ((gridCount su s - 1) * (gridCount sv s - 1)) := by
  rw [makeTriangleMesh_eq su sv s hu hv]; exact meshTriangles_length _ _

/-! ### vertex parameters and positions -/

/-- Vertex `(i, j)` stores the parameters `(i·u_jump, j·v_jump)` and copies evaluated point
    `j·s + (i·s)·size_v`. -/
theorem vertex_uv_src (su sv s i j : ℕ) (hu : 2 ≤ gridCount su s) (hv : 2 ≤ gridCount sv s)
    (hi : i < gridCount su s) (hj : j < gridCount sv s) :
    (makeTriangleMesh (K := K) su sv s).uv[gridVid (gridCount sv s) i j]? =
        some ((i : K) * meshJump su s, (j : K) * meshJump sv s) ∧
    (makeTriangleMesh (K := K) su sv s).src[gridVid (gridCount sv s) i j]? = some (j * s + (i * s) * sv) := by
  rw [makeTriangleMesh_eq su sv s hu hv]
  simp only [List.getElem?_map, meshVertices_getElem? su sv s i j hi hj, Option.map_some, accParam_eq, and_self]

/-- The stored parameter of grid line `i` (the accumulated `i·jump`) is exactly the parameter
    `linspace(0,1,size)[i·s]` at which the evaluated points it copies were computed. -/
theorem stored_parameter_is_sample_parameter (size s i : ℕ) (hi : i * s < size) :
    accParam (meshJump size s : K) i = (linspaceCore (0 : K) 1 size).getD (i * s) 0 :=
  accParam_eq_linspace size s i hi

/-- **Each vertex position is the surface evaluated at its stored parameters.**  For a surface with domain
    `[0,1]²` (any degrees, knot vectors, net; rational or not) sampled with `su × sv` points
    (`surfaceGrid … linspace(0,1,su) linspace(0,1,sv)` is what `Surface.evaluate` stores in `evalpts`), the vertex
    of `makeTriangleMesh su sv s` on grid lines `(i, j)` - id `gridVid nv i j` - stores the parameters
    `uv = (i·u_jump, j·v_jump)` and the index `src = j·s + i·s·sv` of an evaluated point; that index is inside the
    evaluated grid and the evaluated point there IS the (projected, if rational) surface point
    `surfacePoint … uv.1 uv.2`.  (With the repaired size `gridCount = ⌈size / s⌉`, `i < gridCount su s` is the same
    as `i·s < su`: every grid line is a sampled line, `grid_line_is_sampled`.) -/
theorem vertex_is_surface_point (rat : Bool) (pu pv : ℕ) (Uu Uv : ℕ → K) (nu nv : ℕ) (P : List (List K))
    (su sv s i j : ℕ) (hu : 2 ≤ gridCount su s) (hv : 2 ≤ gridCount sv s)
    (hi : i < gridCount su s) (hj : j < gridCount sv s) :
    ∃ uv src, (makeTriangleMesh (K := K) su sv s).uv[gridVid (gridCount sv s) i j]? = some uv ∧
      (makeTriangleMesh (K := K) su sv s).src[gridVid (gridCount sv s) i j]? = some src ∧
      uv = ((i : K) * meshJump su s, (j : K) * meshJump sv s) ∧ src = j * s + (i * s) * sv ∧
      src < (surfaceGrid rat pu pv Uu Uv nu nv P (linspaceCore 0 1 su) (linspaceCore 0 1 sv)).length ∧
      (surfaceGrid rat pu pv Uu Uv nu nv P (linspaceCore 0 1 su) (linspaceCore 0 1 sv)).getD src []
        = projIf rat (surfacePoint pu pv Uu Uv nu nv P uv.1 uv.2) :=
  Geomdl.Mesh.vertex_is_surface_point rat pu pv Uu Uv nu nv P su sv s i j hu hv hi hj

/-- grid line `i` exists iff `i·s` is the index of a sampled parameter (repaired size expression) -/
theorem grid_line_is_sampled (size s i : ℕ) : i < gridCount size s ↔ 0 < s ∧ i * s < size :=
  lt_gridCount_iff size s i

/-- Grid lines are strictly increasing, start at parameter 0 and – when the spacing divides
    `size - 1` – end at parameter 1: the grid spans the whole parametric rectangle. -/
theorem grid_spans_domain (k s : ℕ) (hk : 0 < k) (hs : 0 < s) :
    StrictMono (accParam (meshJump (k * s + 1) s : K)) ∧
    accParam (meshJump (k * s + 1) s : K) 0 = 0 ∧ accParam (meshJump (k * s + 1) s : K) k = 1 := by
  refine ⟨accParam_strictMono (meshJump_pos ?_ hs), rfl, accParam_last k s hk hs⟩
  have : 1 ≤ k * s := Nat.mul_pos hk hs
  omega

/-! ### orientation, area, tiling -/

/-- Every triangle has the same positive signed parametric area `u_jump·v_jump / 2` (the theorem is about
    the doubled area): the orientation is consistent. -/
theorem orientation_consistent (su sv s : ℕ) (hs : 0 < s) (hsu : 2 ≤ su) (hsv : 2 ≤ sv)
    (hu : 2 ≤ gridCount su s) (hv : 2 ≤ gridCount sv s) :
    ∀ t ∈ (makeTriangleMesh (K := K) su sv s).faces,
      triArea2 (meshUV (K := K) su sv s) t = meshJump su s * meshJump sv s ∧
      (0 : K) < meshJump su s * meshJump sv s := by
  intro t ht
  rw [makeTriangleMesh_eq su sv s hu hv] at ht
  exact ⟨triArea2_mesh su sv s hu hv ht, mul_pos (meshJump_pos hsu hs) (meshJump_pos hsv hs)⟩

/-- When the spacing divides both `size - 1`, the (doubled) triangle areas sum to (twice) the area of the
    parametric rectangle `[0,1]²`. -/
theorem area_sum_rectangle (ku kv s : ℕ) (hku : 0 < ku) (hkv : 0 < kv) (hs : 0 < s) :
    (((makeTriangleMesh (K := K) (ku * s + 1) (kv * s + 1) s).faces).map
        (triArea2 (meshUV (K := K) (ku * s + 1) (kv * s + 1) s))).sum = 2 := by
  have hu : 2 ≤ gridCount (ku * s + 1) s := by rw [gridCount_of_dvd ku s hs]; omega
  have hv : 2 ≤ gridCount (kv * s + 1) s := by rw [gridCount_of_dvd kv s hs]; omega
  rw [makeTriangleMesh_eq _ _ s hu hv, area_sum _ _ s hu hv, gridCount_of_dvd ku s hs, gridCount_of_dvd kv s hs]
  have h1 := accParam_last (K := K) ku s hku hs
  have h2 := accParam_last (K := K) kv s hkv hs
  rw [accParam_eq] at h1 h2
  simp only [Nat.add_sub_cancel, h1, h2]; ring

/-- One cell `[x0,x1]×[y0,y1]` and its two triangles `(v1,v2,v3)`, `(v1,v3,v4)`: every point of the cell
    lies in one of them, a point in both lies on the diagonal, and the triangles do not leave the cell
    (so triangles of different cells meet at most in grid lines, which are strictly increasing). -/
theorem cell_partition (x0 x1 y0 y1 x y : K) (hX : x0 < x1) (hY : y0 < y1) :
    ((x0 ≤ x ∧ x ≤ x1 ∧ y0 ≤ y ∧ y ≤ y1) ↔
      (inTriangle (x0, y0) (x1, y0) (x1, y1) (x, y) ∨ inTriangle (x0, y0) (x1, y1) (x0, y1) (x, y))) ∧
    (inTriangle (x0, y0) (x1, y0) (x1, y1) (x, y) → inTriangle (x0, y0) (x1, y1) (x0, y1) (x, y) →
      cellCross2 (x0, y0) (x1, y1) (x, y) = 0) :=
  ⟨⟨fun ⟨a, b, c, d⟩ => cell_cover x0 x1 y0 y1 x y a b c d, cell_tri_sub x0 x1 y0 y1 x y hX hY⟩,
   cell_overlap_diag x0 x1 y0 y1 x y⟩

/-! ### the tiling as a point-set statement for the whole rectangle

`meshUV su sv s k` is the parameter pair `uv` the model's mesh assigns to the vertex with id `k`;
`inFace uv [a,b,c] p` says that `p` lies in the closed triangle `uv a, uv b, uv c` (on the non-negative side of
its three positively oriented edges), `inFaceInterior` that it lies strictly inside. -/

/-- **Covering.**  Every point of the rectangle spanned by the grid lines, `[0, (nu-1)·u_jump] × [0, (nv-1)·v_jump]`,
    lies in the closed parametric triangle of at least one face - any sample sizes `≥ 2`, any vertex spacing that
    leaves at least two grid lines per direction. -/
theorem tiling_covers (su sv s : ℕ) (hs : 0 < s) (hsu : 2 ≤ su) (hsv : 2 ≤ sv)
    (hu : 2 ≤ gridCount su s) (hv : 2 ≤ gridCount sv s) (x y : K)
    (hx0 : 0 ≤ x) (hx1 : x ≤ ((gridCount su s - 1 : ℕ) : K) * meshJump su s)
    (hy0 : 0 ≤ y) (hy1 : y ≤ ((gridCount sv s - 1 : ℕ) : K) * meshJump sv s) :
    ∃ t ∈ (makeTriangleMesh (K := K) su sv s).faces, inFace (meshUV (K := K) su sv s) t (x, y) :=
  mesh_cover su sv s hs hsu hsv hu hv x y hx0 hx1 hy0 hy1

/-- **Nothing sticks out**: every point of every face lies in that rectangle. -/
theorem tiling_inside (su sv s : ℕ) (hs : 0 < s) (hsu : 2 ≤ su) (hsv : 2 ≤ sv)
    (hu : 2 ≤ gridCount su s) (hv : 2 ≤ gridCount sv s) (x y : K) (t : List ℕ)
    (ht : t ∈ (makeTriangleMesh (K := K) su sv s).faces) (h : inFace (meshUV (K := K) su sv s) t (x, y)) :
    0 ≤ x ∧ x ≤ ((gridCount su s - 1 : ℕ) : K) * meshJump su s ∧
    0 ≤ y ∧ y ≤ ((gridCount sv s - 1 : ℕ) : K) * meshJump sv s :=
  mesh_faces_inside su sv s hs hsu hsv hu hv x y t ht h

/-- **Exactly once.**  A point in the open interior of a face lies in no other face (not even on the boundary of
    one); equivalently: a point that lies in two different faces lies on an edge of both. -/
theorem tiling_exactly_once (su sv s : ℕ) (hs : 0 < s) (hsu : 2 ≤ su) (hsv : 2 ≤ sv)
    (hu : 2 ≤ gridCount su s) (hv : 2 ≤ gridCount sv s) (p : K × K) (t t' : List ℕ)
    (ht : t ∈ (makeTriangleMesh (K := K) su sv s).faces) (ht' : t' ∈ (makeTriangleMesh (K := K) su sv s).faces)
    (h : inFaceInterior (meshUV (K := K) su sv s) t p) (h' : inFace (meshUV (K := K) su sv s) t' p) : t = t' :=
  mesh_interior_unique su sv s hs hsu hsv hu hv p t t' ht ht' h h'

/-- The open interiors of two different faces are disjoint. -/
theorem tiling_interiors_disjoint (su sv s : ℕ) (hs : 0 < s) (hsu : 2 ≤ su) (hsv : 2 ≤ sv)
    (hu : 2 ≤ gridCount su s) (hv : 2 ≤ gridCount sv s) (p : K × K) (t t' : List ℕ)
    (ht : t ∈ (makeTriangleMesh (K := K) su sv s).faces) (ht' : t' ∈ (makeTriangleMesh (K := K) su sv s).faces)
    (hne : t ≠ t') :
    ¬ (inFaceInterior (meshUV (K := K) su sv s) t p ∧ inFaceInterior (meshUV (K := K) su sv s) t' p) :=
  mesh_interiors_disjoint su sv s hs hsu hsv hu hv p t t' ht ht' hne

/-- **The parametric rectangle `[0,1]²`.**  When the spacing divides `size - 1` in both directions (always for
    spacing 1) the faces tile `[0,1]²` exactly once: every `(x, y) ∈ [0,1]²` lies in a face, every face lies in
    `[0,1]²`, and a point interior to one face lies in no other. -/
theorem tiling_unit_square (ku kv s : ℕ) (hku : 0 < ku) (hkv : 0 < kv) (hs : 0 < s) :
    (∀ x y : K, 0 ≤ x → x ≤ 1 → 0 ≤ y → y ≤ 1 →
      ∃ t ∈ (makeTriangleMesh (K := K) (ku * s + 1) (kv * s + 1) s).faces,
        inFace (meshUV (K := K) (ku * s + 1) (kv * s + 1) s) t (x, y)) ∧
    (∀ (x y : K) (t : List ℕ), t ∈ (makeTriangleMesh (K := K) (ku * s + 1) (kv * s + 1) s).faces →
      inFace (meshUV (K := K) (ku * s + 1) (kv * s + 1) s) t (x, y) → 0 ≤ x ∧ x ≤ 1 ∧ 0 ≤ y ∧ y ≤ 1) ∧
    (∀ (p : K × K) (t t' : List ℕ), t ∈ (makeTriangleMesh (K := K) (ku * s + 1) (kv * s + 1) s).faces →
      t' ∈ (makeTriangleMesh (K := K) (ku * s + 1) (kv * s + 1) s).faces →
      inFaceInterior (meshUV (K := K) (ku * s + 1) (kv * s + 1) s) t p →
      inFace (meshUV (K := K) (ku * s + 1) (kv * s + 1) s) t' p → t = t') := by
  have hu : 2 ≤ gridCount (ku * s + 1) s := by rw [gridCount_of_dvd ku s hs]; omega
  have hv : 2 ≤ gridCount (kv * s + 1) s := by rw [gridCount_of_dvd kv s hs]; omega
  have hsu : 2 ≤ ku * s + 1 := by have := Nat.mul_pos hku hs; omega
  have hsv : 2 ≤ kv * s + 1 := by have := Nat.mul_pos hkv hs; omega
  have e1 := last_line_one (K := K) ku s hku hs
  have e2 := last_line_one (K := K) kv s hkv hs
  refine ⟨fun x y hx0 hx1 hy0 hy1 => mesh_cover _ _ s hs hsu hsv hu hv x y hx0 (by rw [e1]; exact hx1) hy0
      (by rw [e2]; exact hy1), fun x y t ht h => ?_,
    fun p t t' ht ht' h h' => mesh_interior_unique _ _ s hs hsu hsv hu hv p t t' ht ht' h h'⟩
  have := mesh_faces_inside _ _ s hs hsu hsv hu hv x y t ht h
  rwa [e1, e2] at this

/-! ### edges, Euler characteristic -/

/-- The undirected edges of the mesh are the `E = (nu-1)·nv + nu·(nv-1) + (nu-1)(nv-1)` listed ones
    (u-direction, v-direction, cell diagonals): the list has no repetitions, every edge of every face is
    listed (in one of the two directions) and every listed edge is an edge of a face. -/
theorem edges_exact (nu nv : ℕ) (hu : 2 ≤ nu) (hv : 2 ≤ nv) :
    (meshEdges nu nv).Nodup ∧
    (meshEdges nu nv).length = (nu - 1) * nv + nu * (nv - 1) + (nu - 1) * (nv - 1) ∧
    (∀ t ∈ meshTriangles nu nv, ∀ e ∈ triDirEdges t, e ∈ meshEdges nu nv ∨ e.swap ∈ meshEdges nu nv) ∧
    (∀ e ∈ meshEdges nu nv, ∃ t ∈ meshTriangles nu nv, e ∈ triDirEdges t ∨ e.swap ∈ triDirEdges t) :=
  ⟨meshEdges_nodup nu nv, meshEdges_length nu nv, fun _ ht => face_edges_listed ht,
   fun _ he => listed_edge_in_face hu hv he⟩

/-- Edge incidences.  No directed edge belongs to two triangles (so every undirected edge belongs to at
    most two, and two triangles sharing an edge traverse it in opposite directions: consistent
    orientation).  A u-direction edge `(i,j)–(i+1,j)` is used forwards iff `j < nv-1` and backwards iff
    `0 < j`; a v-direction edge `(i,j)–(i,j+1)` forwards iff `0 < i` and backwards iff `i < nu-1`; every
    diagonal in both directions.  Hence the edges on the boundary of the parametric rectangle (`j = 0`,
    `j = nv-1`, `i = 0`, `i = nu-1`) belong to exactly one triangle and all other edges to exactly two. -/
theorem edge_incidence (nu nv : ℕ) (hv : 2 ≤ nv) :
    (meshDirEdges nu nv).Nodup ∧
    (∀ i j, i < nu - 1 → j < nv →
      (((gridVid nv i j, gridVid nv (i + 1) j) ∈ meshDirEdges nu nv ↔ j < nv - 1) ∧
       ((gridVid nv (i + 1) j, gridVid nv i j) ∈ meshDirEdges nu nv ↔ 0 < j))) ∧
    (∀ i j, i < nu → j < nv - 1 →
      (((gridVid nv i j, gridVid nv i (j + 1)) ∈ meshDirEdges nu nv ↔ 0 < i) ∧
       ((gridVid nv i (j + 1), gridVid nv i j) ∈ meshDirEdges nu nv ↔ i < nu - 1))) ∧
    (∀ i j, i < nu - 1 → j < nv - 1 →
      ((gridVid nv i j, gridVid nv (i + 1) (j + 1)) ∈ meshDirEdges nu nv ∧
       (gridVid nv (i + 1) (j + 1), gridVid nv i j) ∈ meshDirEdges nu nv)) :=
  ⟨meshDirEdges_nodup nu nv hv,
   fun _ _ hi hj => ⟨uEdge_fwd hv hi hj, uEdge_bwd hv hi hj⟩,
   fun _ _ hi hj => ⟨vEdge_fwd hv hi hj, vEdge_bwd hv hi hj⟩,
   fun _ _ hi hj => diag_both hi hj⟩

/-- Euler characteristic of a disc: `V - E + F = 1` (stated as `V + F = E + 1`). -/
theorem euler_characteristic (su sv s : ℕ) (hu : 2 ≤ gridCount su s) (hv : 2 ≤ gridCount sv s) :
    (makeTriangleMesh (K := K) su sv s).uv.length + (makeTriangleMesh (K := K) su sv s).faces.length =
      (meshEdges (gridCount su s) (gridCount sv s)).length + 1 := by
  rw [(vertex_count su sv s hu hv).1, makeTriangleMesh_eq su sv s hu hv]
  exact euler_grid _ _ (by omega) (by omega)

/-! ### quadrilateral tessellation -/

/-- `make_quad_mesh`: `(su-1)(sv-1)` quads, exactly the cells `(v(i,j), v(i+1,j), v(i+1,j+1), v(i,j+1))`,
    all indices below the number `su·sv` of points. -/
theorem quad_mesh (su sv : ℕ) :
    (makeQuadFaces su sv).length = (su - 1) * (sv - 1) ∧
    (∀ t, t ∈ makeQuadFaces su sv ↔ ∃ i, i < su - 1 ∧ ∃ j, j < sv - 1 ∧
      t = [gridVid sv i j, gridVid sv (i + 1) j, gridVid sv (i + 1) (j + 1), gridVid sv i (j + 1)]) ∧
    (∀ t ∈ makeQuadFaces su sv, ∀ v ∈ t, v < su * sv) :=
  ⟨makeQuadFaces_length su sv, fun _ => mem_makeQuadFaces, fun _ ht => makeQuadFaces_index_lt ht⟩

/-- `make_quad_mesh` after the repair of F-15c stores a parameter pair in every vertex (`quadVertexUV`): for the
    `su·sv` evaluated points of a surface the vertex of grid position `(i, j)` (id = point index `j + i·sv`) gets
    `(i/(su-1), j/(sv-1))`, which is the pair of sample parameters `linspace(0,1,su)[i]`, `linspace(0,1,sv)[j]` at which
    that point was evaluated (so re-evaluating the surface at the stored parameters returns the point itself);
    sizes `≥ 2` (`hu`, `hv`: for a size of 1 the repaired `make_quad_mesh` raises `ZeroDivisionError`, the driver op
    `quaduv` answers `ERR`, and the model's `0 / 0 = 0` would be "equal" to `linspaceCore 0 1 1`) ... -/
theorem quad_vertex_parameters (su sv i j : ℕ) (hu : 2 ≤ su) (hv : 2 ≤ sv) (hi : i < su) (hj : j < sv) :
    (quadVertexUV (K := K) (su * sv) su sv).length = su * sv ∧
    (quadVertexUV (K := K) (su * sv) su sv)[gridVid sv i j]? =
      some ((i : K) / ((su - 1 : ℕ) : K), (j : K) / ((sv - 1 : ℕ) : K)) ∧
    (quadVertexUV (K := K) (su * sv) su sv)[gridVid sv i j]? =
      some ((linspaceCore (0 : K) 1 su).getD i 0, (linspaceCore (0 : K) 1 sv).getD j 0) :=
  ⟨quadVertexUV_length _ su sv, quadVertexUV_getElem? su sv i j hi hj, quadVertexUV_linspace su sv i j hi hj⟩

/-- ... and the whole list is the parameter list of the triangle mesher for vertex spacing 1 (sizes `≥ 2`; for a size
    of 1 the code divides by zero). -/
theorem quad_vertex_parameters_eq_triangle_mesh (su sv : ℕ) (hu : 2 ≤ su) (hv : 2 ≤ sv) :
    quadVertexUV (K := K) (su * sv) su sv = (makeTriangleMesh (K := K) su sv 1).uv :=
  quadVertexUV_eq_tri su sv hu hv

/-- non-vacuity: 2 x 3 points -/
example : quadVertexUV (K := ℚ) (2 * 3) 2 3 = [(0, 0), (0, 1/2), (0, 1), (1, 0), (1, 1/2), (1, 1)] := by
  decide +kernel

/-! ### containers and exporters -/

/-- OBJ (`base = 1`), OFF and container ids (`base = 0`): for any list of sample sizes, the written face
    records are as many as the surfaces have triangles, and every written index lies in
    `[base, base + total number of vertices)`. -/
theorem export_indices_in_range (base s : ℕ) (sizes : List (ℕ × ℕ))
    (h : ∀ p ∈ sizes, 2 ≤ gridCount p.1 s ∧ 2 ≤ gridCount p.2 s) :
    let ms := sizes.map fun p => ((makeTriangleMesh (K := K) p.1 p.2 s).uv.length, (makeTriangleMesh (K := K) p.1 p.2 s).faces)
    (offsetFaces base 0 ms).length = (ms.map (·.2.length)).sum ∧
    ∀ t ∈ offsetFaces base 0 ms, ∀ v ∈ t, base ≤ v ∧ v < base + meshTotalVerts ms := by
  intro ms
  refine ⟨offsetFaces_length base 0 ms, ?_⟩
  have := offsetFaces_range base 0 ms (by
    intro m hm
    obtain ⟨p, hp, rfl⟩ := List.mem_map.1 hm
    exact face_index_lt p.1 p.2 s (h p hp).1 (h p hp).2)
  simpa using this

/-- The faces of a surface are written into its own vertex block: with `off` vertices written before it,
    its records lie in `[base + off, base + off + V)`. -/
theorem export_block (base off nV : ℕ) (fs : List (List ℕ)) (rest : List (ℕ × List (List ℕ)))
    (h : ∀ t ∈ fs, ∀ v ∈ t, v < nV) (k : ℕ) (hk : k < fs.length) :
    ∀ v ∈ (offsetFaces base off ((nV, fs) :: rest)).getD k [], base + off ≤ v ∧ v < base + off + nV :=
  offsetFaces_head_block base off nV fs rest h k hk

/-- STL facet normal: `triangle_normal` is `(p1-p0) × (p2-p0)`, orthogonal to the facet's edges.
    (A fact about any three points (cross product of two edge vectors), not about the surface.) -/
theorem stl_normal (p0 p1 p2 : List K) :
    triangleNormal p0 p1 p2 = triVecCross (triVecGen p0 p1) (triVecGen p0 p2) ∧
    triDot3 (triangleNormal p0 p1 p2) (triVecGen p0 p1) = 0 ∧ triDot3 (triangleNormal p0 p1 p2) (triVecGen p1 p2) = 0 :=
  ⟨triangleNormal_eq p0 p1 p2, triangleNormal_orth1 p0 p1 p2, triangleNormal_orth2 p0 p1 p2⟩

/-! ### defect F-15 (pinned code) -/

/-- The pinned vertex-array size `int(round(size/spacing + 10e-8))` is smaller than the number of grid
    lines for EVERY spacing `≥ 3` that divides `size - 1` … -/
theorem pinned_refutes_undercount (k s : ℕ) (hs : 3 ≤ s) :
    gridCountPinned (k * s + 1) s = k ∧ gridCount (k * s + 1) s = k + 1 :=
  ⟨gridCountPinned_of_dvd k s hs, gridCount_of_dvd k s (by omega)⟩

/-- … so the vertex loop of the pinned `make_triangle_mesh` runs past its array (`IndexError`), e.g. for
    sample size 7×7 or 4×7 with `vertex_spacing = 3`; the repaired size expression is `gridCount`.
    (Closed witness check: a statement about this one concrete input, decided by evaluation.) -/
theorem pinned_refutes_witness : meshOkPinned 7 7 3 = false ∧ meshOkPinned 4 7 3 = false := by decide

/-- Spacing 1 and 2 are not affected by the defect. -/
theorem pinned_ok_spacing_1_2 (size : ℕ) :
    gridCountPinned size 1 = gridCount size 1 ∧ gridCountPinned size 2 = gridCount size 2 :=
  ⟨by rw [gridCountPinned_one, gridCount_one], gridCountPinned_two size⟩

/-! ### non-vacuity -/

/-- sample sizes 7×4, spacing 3 (the F-15 witness): 3×2 grid lines, hypotheses of the theorems hold -/
example : 2 ≤ gridCount 7 3 ∧ 2 ≤ gridCount 4 3 ∧ gridCount 7 3 = 3 ∧ gridCount 4 3 = 2 := by decide
/-- `vertex_is_surface_point` applies to the last vertex (grid lines (2, 1), id 5) of that mesh, for any surface:
    it copies evaluated point 3 + 6·4 = 27 (the last one) of the 7 × 4 grid, the surface point at (2·u_jump, 1·v_jump) = (1, 1) -/
example (rat : Bool) (pu pv : ℕ) (Uu Uv : ℕ → ℚ) (nu nv : ℕ) (P : List (List ℚ)) :
    ∃ uv src, (makeTriangleMesh (K := ℚ) 7 4 3).uv[gridVid (gridCount 4 3) 2 1]? = some uv ∧
      (makeTriangleMesh (K := ℚ) 7 4 3).src[gridVid (gridCount 4 3) 2 1]? = some src ∧
      uv = (((2 : ℕ) : ℚ) * meshJump 7 3, ((1 : ℕ) : ℚ) * meshJump 4 3) ∧ src = 1 * 3 + (2 * 3) * 4 ∧
      src < (surfaceGrid rat pu pv Uu Uv nu nv P (linspaceCore 0 1 7) (linspaceCore 0 1 4)).length ∧
      (surfaceGrid rat pu pv Uu Uv nu nv P (linspaceCore 0 1 7) (linspaceCore 0 1 4)).getD src []
        = projIf rat (surfacePoint pu pv Uu Uv nu nv P uv.1 uv.2) :=
  vertex_is_surface_point rat pu pv Uu Uv nu nv P 7 4 3 2 1 (by decide) (by decide) (by decide) (by decide)

/-- the tiling statement on sample sizes 7×4 with spacing 3 (grid lines u = 0, 1/2, 1 and v = 0, 1): the point
    `(1/8, 3/4)` lies strictly inside face `[0, 3, 1]`, hence in no other face -/
example : inFaceInterior (meshUV (K := ℚ) 7 4 3) [0, 3, 1] (1/8, 3/4) ∧
    [0, 3, 1] ∈ (makeTriangleMesh (K := ℚ) 7 4 3).faces := by
  refine ⟨?_, by decide⟩
  refine (inFaceInterior_B (K := ℚ) 7 4 3 (by decide) (by decide) 0 0 (by decide) (by decide) (1/8, 3/4)).2 ?_
  simp only [inTriangleInterior, cellCross2, meshJump]
  norm_num

/-- and the model's mesh there is the expected one -/
example : (makeTriangleMesh (K := ℚ) 7 4 3).faces = [[0, 2, 3], [0, 3, 1], [2, 4, 5], [2, 5, 3]] ∧
    (makeTriangleMesh (K := ℚ) 7 4 3).src = [0, 3, 12, 15, 24, 27] := by decide

end C15
