import NurbsVerif.Lemmas.MeshGeom
import NurbsVerif.Lemmas.MeshEdges
import NurbsVerif.Lemmas.MeshTiling
import NurbsVerif.Lemmas.MeshTilingQuad
import NurbsVerif.Lemmas.MeshSurface
import NurbsVerif.Lemmas.TrimMeshWithin
import NurbsVerif.Lemmas.TrimMeshWhole
import NurbsVerif.Lemmas.TrimMeshBox

/-!
# C15  Tessellation is a valid triangulation lying on the surface

Property theorems only (helper lemmas live in `Lemmas/Mesh.lean`, `Lemmas/MeshGeom.lean`).  The model
(`Model/Mesh.lean`) is the one the correspondence check runs against `tessellate.TriangularTessellate`,
`QuadTessellate`, `Surface.tessellate`, `SurfaceContainer.tessellate`, `exchange.export_obj_str /
export_off_str / export_stl_str` and `linalg.triangle_normal`.  It mirrors the code with the repair of
defect F-15; the refutation of the pinned size expression is at the end.

Conventions: vertex `k` of `makeTriangleMesh su sv s` (position `k` of its `uv` / `src` lists) is the vertex
with id `k`; `nu = gridCount su s`, `nv = gridCount sv s` are the numbers of grid lines; the vertex on grid
lines `(i, j)` has id `gridVid nv i j = j + i·nv`.  `K` is any linearly ordered field.

Trimmed tessellation (`surface_trim_tessellate` and the cell loop of `make_triangle_mesh` that calls it) is modelled in
`Model/TrimMesh.lean` (`trimCell`, `trimCells`, `makeTrimMesh`); its theorems are in the last section.
-/
namespace C15
open Geomdl Geomdl.Mesh
variable {K : Type} [Field K] [LinearOrder K] [IsStrictOrderedRing K]

/-! ### vertices and faces -/

/-- `fix_numbering` keeps every grid vertex and its id: the kept ids are `0, 1, …, V-1` in order and the
    triangles are unchanged (grids with at least two lines per direction). -/
theorem vertex_ids_consecutive (nu nv : ℕ) (hu : 2 ≤ nu) (hv : 2 ≤ nv) :
    fixNumbering (nu * nv) (meshTriangles nu nv) = (List.range (nu * nv), meshTriangles nu nv) :=
  fixNumbering_grid hu hv

/-- The mesh has `V = nu·nv` vertices (ids `0 … V-1`), each with a parameter pair and a source point. -/
theorem vertex_count (su sv s : ℕ) (hu : 2 ≤ gridCount su s) (hv : 2 ≤ gridCount sv s) :
    (makeTriangleMesh (K := K) su sv s).uv.length = gridCount su s * gridCount sv s ∧
    (makeTriangleMesh (K := K) su sv s).src.length = gridCount su s * gridCount sv s := by
  rw [makeTriangleMesh_eq su sv s hu hv]
  simp [meshVertices_length]

/-- When the spacing divides `size - 1` the number of grid lines is `(size - 1)/s + 1`. -/
theorem grid_lines (k s : ℕ) (hs : 0 < s) : gridCount (k * s + 1) s = k + 1 := gridCount_of_dvd k s hs

/-- Every face index is an existing vertex id. -/
theorem face_index_lt (su sv s : ℕ) (hu : 2 ≤ gridCount su s) (hv : 2 ≤ gridCount sv s) :
    ∀ t ∈ (makeTriangleMesh (K := K) su sv s).faces, ∀ v ∈ t,
      v < (makeTriangleMesh (K := K) su sv s).uv.length := by
  rw [(vertex_count su sv s hu hv).1, makeTriangleMesh_eq su sv s hu hv]
  exact fun t ht => meshTriangles_index_lt ht

/-- The faces are exactly the triangles `(v(i,j), v(i+1,j), v(i+1,j+1))` and `(v(i,j), v(i+1,j+1), v(i,j+1))`
    of all grid cells. -/
theorem faces_exact (su sv s : ℕ) (hu : 2 ≤ gridCount su s) (hv : 2 ≤ gridCount sv s) (t : List ℕ) :
    t ∈ (makeTriangleMesh (K := K) su sv s).faces ↔
      ∃ i, i < gridCount su s - 1 ∧ ∃ j, j < gridCount sv s - 1 ∧
        (t = [gridVid (gridCount sv s) i j, gridVid (gridCount sv s) (i + 1) j, gridVid (gridCount sv s) (i + 1) (j + 1)] ∨
         t = [gridVid (gridCount sv s) i j, gridVid (gridCount sv s) (i + 1) (j + 1), gridVid (gridCount sv s) i (j + 1)]) := by
  rw [makeTriangleMesh_eq su sv s hu hv]; exact mem_meshTriangles

/-- `F = 2 (nu-1)(nv-1)`. -/
theorem face_count (su sv s : ℕ) (hu : 2 ≤ gridCount su s) (hv : 2 ≤ gridCount sv s) :
    (makeTriangleMesh (K := K) su sv s).faces.length = 2 * ((gridCount su s - 1) * (gridCount sv s - 1)) := by
  rw [makeTriangleMesh_eq su sv s hu hv]; exact meshTriangles_length _ _

/-! ### vertex parameters and positions -/

/-- Vertex `(i, j)` stores the parameters `(i·u_jump, j·v_jump)` and copies evaluated point
    `j·s + (i·s)·size_v`. -/
theorem vertex_uv_src (su sv s i j : ℕ) (hu : 2 ≤ gridCount su s) (hv : 2 ≤ gridCount sv s)
    (hi : i < gridCount su s) (hj : j < gridCount sv s) :
    (makeTriangleMesh (K := K) su sv s).uv[gridVid (gridCount sv s) i j]? =
        some ((i : K) * meshJump su s, (j : K) * meshJump sv s) ∧
    (makeTriangleMesh (K := K) su sv s).src[gridVid (gridCount sv s) i j]? = some (j * s + (i * s) * sv) := by
  rw [makeTriangleMesh_eq su sv s hu hv]
  simp only [List.getElem?_map, meshVertices_getElem? su sv s i j hi hj, Option.map_some, accParam_eq, and_self]

/-- The stored parameter of grid line `i` (the accumulated `i·jump`) is exactly the parameter
    `linspace(0,1,size)[i·s]` at which the evaluated points it copies were computed. -/
theorem stored_parameter_is_sample_parameter (size s i : ℕ) (hi : i * s < size) :
    accParam (meshJump size s : K) i = (linspaceCore (0 : K) 1 size).getD (i * s) 0 :=
  accParam_eq_linspace size s i hi

/-- **Each vertex position is the surface evaluated at its stored parameters.**  For a surface with domain
    `[0,1]²` (any degrees, knot vectors, net; rational or not) sampled with `su × sv` points
    (`surfaceGrid … linspace(0,1,su) linspace(0,1,sv)` is what `Surface.evaluate` stores in `evalpts`), the vertex
    of `makeTriangleMesh su sv s` on grid lines `(i, j)` - id `gridVid nv i j` - stores the parameters
    `uv = (i·u_jump, j·v_jump)` and the index `src = j·s + i·s·sv` of an evaluated point; that index is inside the
    evaluated grid and the evaluated point there IS the (projected, if rational) surface point
    `surfacePoint … uv.1 uv.2`.  (With the repaired size `gridCount = ⌈size / s⌉`, `i < gridCount su s` is the same
    as `i·s < su`: every grid line is a sampled line, `grid_line_is_sampled`.) -/
theorem vertex_is_surface_point (rat : Bool) (pu pv : ℕ) (Uu Uv : ℕ → K) (nu nv : ℕ) (P : List (List K))
    (su sv s i j : ℕ) (hu : 2 ≤ gridCount su s) (hv : 2 ≤ gridCount sv s)
    (hi : i < gridCount su s) (hj : j < gridCount sv s) :
    ∃ uv src, (makeTriangleMesh (K := K) su sv s).uv[gridVid (gridCount sv s) i j]? = some uv ∧
      (makeTriangleMesh (K := K) su sv s).src[gridVid (gridCount sv s) i j]? = some src ∧
      uv = ((i : K) * meshJump su s, (j : K) * meshJump sv s) ∧ src = j * s + (i * s) * sv ∧
      src < (surfaceGrid rat pu pv Uu Uv nu nv P (linspaceCore 0 1 su) (linspaceCore 0 1 sv)).length ∧
      (surfaceGrid rat pu pv Uu Uv nu nv P (linspaceCore 0 1 su) (linspaceCore 0 1 sv)).getD src []
        = projIf rat (surfacePoint pu pv Uu Uv nu nv P uv.1 uv.2) :=
  Geomdl.Mesh.vertex_is_surface_point rat pu pv Uu Uv nu nv P su sv s i j hu hv hi hj

/-- grid line `i` exists iff `i·s` is the index of a sampled parameter (repaired size expression) -/
theorem grid_line_is_sampled (size s i : ℕ) : i < gridCount size s ↔ 0 < s ∧ i * s < size :=
  lt_gridCount_iff size s i

/-- Grid lines are strictly increasing, start at parameter 0 and – when the spacing divides
    `size - 1` – end at parameter 1: the grid spans the whole parametric rectangle. -/
theorem grid_spans_domain (k s : ℕ) (hk : 0 < k) (hs : 0 < s) :
    StrictMono (accParam (meshJump (k * s + 1) s : K)) ∧
    accParam (meshJump (k * s + 1) s : K) 0 = 0 ∧ accParam (meshJump (k * s + 1) s : K) k = 1 := by
  refine ⟨accParam_strictMono (meshJump_pos ?_ hs), rfl, accParam_last k s hk hs⟩
  have : 1 ≤ k * s := Nat.mul_pos hk hs
  omega

/-! ### orientation, area, tiling -/

/-- Every triangle has the same positive signed parametric area `u_jump·v_jump / 2` (the theorem is about
    the doubled area): the orientation is consistent. -/
theorem orientation_consistent (su sv s : ℕ) (hs : 0 < s) (hsu : 2 ≤ su) (hsv : 2 ≤ sv)
    (hu : 2 ≤ gridCount su s) (hv : 2 ≤ gridCount sv s) :
    ∀ t ∈ (makeTriangleMesh (K := K) su sv s).faces,
      triArea2 (meshUV (K := K) su sv s) t = meshJump su s * meshJump sv s ∧
      (0 : K) < meshJump su s * meshJump sv s := by
  intro t ht
  rw [makeTriangleMesh_eq su sv s hu hv] at ht
  exact ⟨triArea2_mesh su sv s hu hv ht, mul_pos (meshJump_pos hsu hs) (meshJump_pos hsv hs)⟩

/-- When the spacing divides both `size - 1`, the (doubled) triangle areas sum to (twice) the area of the
    parametric rectangle `[0,1]²`. -/
theorem area_sum_rectangle (ku kv s : ℕ) (hku : 0 < ku) (hkv : 0 < kv) (hs : 0 < s) :
    (((makeTriangleMesh (K := K) (ku * s + 1) (kv * s + 1) s).faces).map
        (triArea2 (meshUV (K := K) (ku * s + 1) (kv * s + 1) s))).sum = 2 := by
  have hu : 2 ≤ gridCount (ku * s + 1) s := by rw [gridCount_of_dvd ku s hs]; omega
  have hv : 2 ≤ gridCount (kv * s + 1) s := by rw [gridCount_of_dvd kv s hs]; omega
  rw [makeTriangleMesh_eq _ _ s hu hv, area_sum _ _ s hu hv, gridCount_of_dvd ku s hs, gridCount_of_dvd kv s hs]
  have h1 := accParam_last (K := K) ku s hku hs
  have h2 := accParam_last (K := K) kv s hkv hs
  rw [accParam_eq] at h1 h2
  simp only [Nat.add_sub_cancel, h1, h2]; ring

/-- One cell `[x0,x1]×[y0,y1]` and its two triangles `(v1,v2,v3)`, `(v1,v3,v4)`: every point of the cell
    lies in one of them, a point in both lies on the diagonal, and the triangles do not leave the cell
    (so triangles of different cells meet at most in grid lines, which are strictly increasing). -/
theorem cell_partition (x0 x1 y0 y1 x y : K) (hX : x0 < x1) (hY : y0 < y1) :
    ((x0 ≤ x ∧ x ≤ x1 ∧ y0 ≤ y ∧ y ≤ y1) ↔
      (inTriangle (x0, y0) (x1, y0) (x1, y1) (x, y) ∨ inTriangle (x0, y0) (x1, y1) (x0, y1) (x, y))) ∧
    (inTriangle (x0, y0) (x1, y0) (x1, y1) (x, y) → inTriangle (x0, y0) (x1, y1) (x0, y1) (x, y) →
      cellCross2 (x0, y0) (x1, y1) (x, y) = 0) :=
  ⟨⟨fun ⟨a, b, c, d⟩ => cell_cover x0 x1 y0 y1 x y a b c d, cell_tri_sub x0 x1 y0 y1 x y hX hY⟩,
   cell_overlap_diag x0 x1 y0 y1 x y⟩

/-! ### the tiling as a point-set statement for the whole rectangle

`meshUV su sv s k` is the parameter pair `uv` the model's mesh assigns to the vertex with id `k`;
`inFace uv [a,b,c] p` says that `p` lies in the closed triangle `uv a, uv b, uv c` (on the non-negative side of
its three positively oriented edges), `inFaceInterior` that it lies strictly inside. -/

/-- **Covering.**  Every point of the rectangle spanned by the grid lines, `[0, (nu-1)·u_jump] × [0, (nv-1)·v_jump]`,
    lies in the closed parametric triangle of at least one face - any sample sizes `≥ 2`, any vertex spacing that
    leaves at least two grid lines per direction. -/
theorem tiling_covers (su sv s : ℕ) (hs : 0 < s) (hsu : 2 ≤ su) (hsv : 2 ≤ sv)
    (hu : 2 ≤ gridCount su s) (hv : 2 ≤ gridCount sv s) (x y : K)
    (hx0 : 0 ≤ x) (hx1 : x ≤ ((gridCount su s - 1 : ℕ) : K) * meshJump su s)
    (hy0 : 0 ≤ y) (hy1 : y ≤ ((gridCount sv s - 1 : ℕ) : K) * meshJump sv s) :
    ∃ t ∈ (makeTriangleMesh (K := K) su sv s).faces, inFace (meshUV (K := K) su sv s) t (x, y) :=
  mesh_cover su sv s hs hsu hsv hu hv x y hx0 hx1 hy0 hy1

/-- **Nothing sticks out**: every point of every face lies in that rectangle. -/
theorem tiling_inside (su sv s : ℕ) (hs : 0 < s) (hsu : 2 ≤ su) (hsv : 2 ≤ sv)
    (hu : 2 ≤ gridCount su s) (hv : 2 ≤ gridCount sv s) (x y : K) (t : List ℕ)
    (ht : t ∈ (makeTriangleMesh (K := K) su sv s).faces) (h : inFace (meshUV (K := K) su sv s) t (x, y)) :
    0 ≤ x ∧ x ≤ ((gridCount su s - 1 : ℕ) : K) * meshJump su s ∧
    0 ≤ y ∧ y ≤ ((gridCount sv s - 1 : ℕ) : K) * meshJump sv s :=
  mesh_faces_inside su sv s hs hsu hsv hu hv x y t ht h

/-- **Exactly once.**  A point in the open interior of a face lies in no other face (not even on the boundary of
    one); equivalently: a point that lies in two different faces lies on an edge of both. -/
theorem tiling_exactly_once (su sv s : ℕ) (hs : 0 < s) (hsu : 2 ≤ su) (hsv : 2 ≤ sv)
    (hu : 2 ≤ gridCount su s) (hv : 2 ≤ gridCount sv s) (p : K × K) (t t' : List ℕ)
    (ht : t ∈ (makeTriangleMesh (K := K) su sv s).faces) (ht' : t' ∈ (makeTriangleMesh (K := K) su sv s).faces)
    (h : inFaceInterior (meshUV (K := K) su sv s) t p) (h' : inFace (meshUV (K := K) su sv s) t' p) : t = t' :=
  mesh_interior_unique su sv s hs hsu hsv hu hv p t t' ht ht' h h'

/-- The open interiors of two different faces are disjoint. -/
theorem tiling_interiors_disjoint (su sv s : ℕ) (hs : 0 < s) (hsu : 2 ≤ su) (hsv : 2 ≤ sv)
    (hu : 2 ≤ gridCount su s) (hv : 2 ≤ gridCount sv s) (p : K × K) (t t' : List ℕ)
    (ht : t ∈ (makeTriangleMesh (K := K) su sv s).faces) (ht' : t' ∈ (makeTriangleMesh (K := K) su sv s).faces)
    (hne : t ≠ t') :
    ¬ (inFaceInterior (meshUV (K := K) su sv s) t p ∧ inFaceInterior (meshUV (K := K) su sv s) t' p) :=
  mesh_interiors_disjoint su sv s hs hsu hsv hu hv p t t' ht ht' hne

/-- **The parametric rectangle `[0,1]²`.**  When the spacing divides `size - 1` in both directions (always for
    spacing 1) the faces tile `[0,1]²` exactly once: every `(x, y) ∈ [0,1]²` lies in a face, every face lies in
    `[0,1]²`, and a point interior to one face lies in no other. -/
theorem tiling_unit_square (ku kv s : ℕ) (hku : 0 < ku) (hkv : 0 < kv) (hs : 0 < s) :
    (∀ x y : K, 0 ≤ x → x ≤ 1 → 0 ≤ y → y ≤ 1 →
      ∃ t ∈ (makeTriangleMesh (K := K) (ku * s + 1) (kv * s + 1) s).faces,
        inFace (meshUV (K := K) (ku * s + 1) (kv * s + 1) s) t (x, y)) ∧
    (∀ (x y : K) (t : List ℕ), t ∈ (makeTriangleMesh (K := K) (ku * s + 1) (kv * s + 1) s).faces →
      inFace (meshUV (K := K) (ku * s + 1) (kv * s + 1) s) t (x, y) → 0 ≤ x ∧ x ≤ 1 ∧ 0 ≤ y ∧ y ≤ 1) ∧
    (∀ (p : K × K) (t t' : List ℕ), t ∈ (makeTriangleMesh (K := K) (ku * s + 1) (kv * s + 1) s).faces →
      t' ∈ (makeTriangleMesh (K := K) (ku * s + 1) (kv * s + 1) s).faces →
      inFaceInterior (meshUV (K := K) (ku * s + 1) (kv * s + 1) s) t p →
      inFace (meshUV (K := K) (ku * s + 1) (kv * s + 1) s) t' p → t = t') := by
  have hu : 2 ≤ gridCount (ku * s + 1) s := by rw [gridCount_of_dvd ku s hs]; omega
  have hv : 2 ≤ gridCount (kv * s + 1) s := by rw [gridCount_of_dvd kv s hs]; omega
  have hsu : 2 ≤ ku * s + 1 := by have := Nat.mul_pos hku hs; omega
  have hsv : 2 ≤ kv * s + 1 := by have := Nat.mul_pos hkv hs; omega
  have e1 := last_line_one (K := K) ku s hku hs
  have e2 := last_line_one (K := K) kv s hkv hs
  refine ⟨fun x y hx0 hx1 hy0 hy1 => mesh_cover _ _ s hs hsu hsv hu hv x y hx0 (by rw [e1]; exact hx1) hy0
      (by rw [e2]; exact hy1), fun x y t ht h => ?_,
    fun p t t' ht ht' h h' => mesh_interior_unique _ _ s hs hsu hsv hu hv p t t' ht ht' h h'⟩
  have := mesh_faces_inside _ _ s hs hsu hsv hu hv x y t ht h
  rwa [e1, e2] at this

/-! ### edges, Euler characteristic -/

/-- The undirected edges of the mesh are the `E = (nu-1)·nv + nu·(nv-1) + (nu-1)(nv-1)` listed ones
    (u-direction, v-direction, cell diagonals): the list has no repetitions, every edge of every face is
    listed (in one of the two directions) and every listed edge is an edge of a face. -/
theorem edges_exact (nu nv : ℕ) (hu : 2 ≤ nu) (hv : 2 ≤ nv) :
    (meshEdges nu nv).Nodup ∧
    (meshEdges nu nv).length = (nu - 1) * nv + nu * (nv - 1) + (nu - 1) * (nv - 1) ∧
    (∀ t ∈ meshTriangles nu nv, ∀ e ∈ triDirEdges t, e ∈ meshEdges nu nv ∨ e.swap ∈ meshEdges nu nv) ∧
    (∀ e ∈ meshEdges nu nv, ∃ t ∈ meshTriangles nu nv, e ∈ triDirEdges t ∨ e.swap ∈ triDirEdges t) :=
  ⟨meshEdges_nodup nu nv, meshEdges_length nu nv, fun _ ht => face_edges_listed ht,
   fun _ he => listed_edge_in_face hu hv he⟩

/-- Edge incidences.  No directed edge belongs to two triangles (so every undirected edge belongs to at
    most two, and two triangles sharing an edge traverse it in opposite directions: consistent
    orientation).  A u-direction edge `(i,j)–(i+1,j)` is used forwards iff `j < nv-1` and backwards iff
    `0 < j`; a v-direction edge `(i,j)–(i,j+1)` forwards iff `0 < i` and backwards iff `i < nu-1`; every
    diagonal in both directions.  Hence the edges on the boundary of the parametric rectangle (`j = 0`,
    `j = nv-1`, `i = 0`, `i = nu-1`) belong to exactly one triangle and all other edges to exactly two. -/
theorem edge_incidence (nu nv : ℕ) (hv : 2 ≤ nv) :
    (meshDirEdges nu nv).Nodup ∧
    (∀ i j, i < nu - 1 → j < nv →
      (((gridVid nv i j, gridVid nv (i + 1) j) ∈ meshDirEdges nu nv ↔ j < nv - 1) ∧
       ((gridVid nv (i + 1) j, gridVid nv i j) ∈ meshDirEdges nu nv ↔ 0 < j))) ∧
    (∀ i j, i < nu → j < nv - 1 →
      (((gridVid nv i j, gridVid nv i (j + 1)) ∈ meshDirEdges nu nv ↔ 0 < i) ∧
       ((gridVid nv i (j + 1), gridVid nv i j) ∈ meshDirEdges nu nv ↔ i < nu - 1))) ∧
    (∀ i j, i < nu - 1 → j < nv - 1 →
      ((gridVid nv i j, gridVid nv (i + 1) (j + 1)) ∈ meshDirEdges nu nv ∧
       (gridVid nv (i + 1) (j + 1), gridVid nv i j) ∈ meshDirEdges nu nv)) :=
  ⟨meshDirEdges_nodup nu nv hv,
   fun _ _ hi hj => ⟨uEdge_fwd hv hi hj, uEdge_bwd hv hi hj⟩,
   fun _ _ hi hj => ⟨vEdge_fwd hv hi hj, vEdge_bwd hv hi hj⟩,
   fun _ _ hi hj => diag_both hi hj⟩

/-- Euler characteristic of a disc: `V - E + F = 1` (stated as `V + F = E + 1`). -/
theorem euler_characteristic (su sv s : ℕ) (hu : 2 ≤ gridCount su s) (hv : 2 ≤ gridCount sv s) :
    (makeTriangleMesh (K := K) su sv s).uv.length + (makeTriangleMesh (K := K) su sv s).faces.length =
      (meshEdges (gridCount su s) (gridCount sv s)).length + 1 := by
  rw [(vertex_count su sv s hu hv).1, makeTriangleMesh_eq su sv s hu hv]
  exact euler_grid _ _ (by omega) (by omega)

/-! ### quadrilateral tessellation -/

/-- `make_quad_mesh`: `(su-1)(sv-1)` quads, exactly the cells `(v(i,j), v(i+1,j), v(i+1,j+1), v(i,j+1))`,
    all indices below the number `su·sv` of points. -/
theorem quad_mesh (su sv : ℕ) :
    (makeQuadFaces su sv).length = (su - 1) * (sv - 1) ∧
    (∀ t, t ∈ makeQuadFaces su sv ↔ ∃ i, i < su - 1 ∧ ∃ j, j < sv - 1 ∧
      t = [gridVid sv i j, gridVid sv (i + 1) j, gridVid sv (i + 1) (j + 1), gridVid sv i (j + 1)]) ∧
    (∀ t ∈ makeQuadFaces su sv, ∀ v ∈ t, v < su * sv) :=
  ⟨makeQuadFaces_length su sv, fun _ => mem_makeQuadFaces, fun _ ht => makeQuadFaces_index_lt ht⟩

/-- `make_quad_mesh` after the repair of F-15c stores a parameter pair in every vertex (`quadVertexUV`): for the
    `su·sv` evaluated points of a surface the vertex of grid position `(i, j)` (id = point index `j + i·sv`) gets
    `(i/(su-1), j/(sv-1))`, which is the pair of sample parameters `linspace(0,1,su)[i]`, `linspace(0,1,sv)[j]` at which
    that point was evaluated (so re-evaluating the surface at the stored parameters returns the point itself);
    sizes `≥ 2` (`hu`, `hv`: for a size of 1 the repaired `make_quad_mesh` raises `ZeroDivisionError`, the driver op
    `quaduv` answers `ERR`, and the model's `0 / 0 = 0` would be "equal" to `linspaceCore 0 1 1`) ... -/
theorem quad_vertex_parameters (su sv i j : ℕ) (hu : 2 ≤ su) (hv : 2 ≤ sv) (hi : i < su) (hj : j < sv) :
    (quadVertexUV (K := K) (su * sv) su sv).length = su * sv ∧
    (quadVertexUV (K := K) (su * sv) su sv)[gridVid sv i j]? =
      some ((i : K) / ((su - 1 : ℕ) : K), (j : K) / ((sv - 1 : ℕ) : K)) ∧
    (quadVertexUV (K := K) (su * sv) su sv)[gridVid sv i j]? =
      some ((linspaceCore (0 : K) 1 su).getD i 0, (linspaceCore (0 : K) 1 sv).getD j 0) :=
  ⟨quadVertexUV_length _ su sv, quadVertexUV_getElem? su sv i j hi hj, quadVertexUV_linspace su sv i j hi hj⟩

/-- ... and the whole list is the parameter list of the triangle mesher for vertex spacing 1 (sizes `≥ 2`; for a size
    of 1 the code divides by zero). -/
theorem quad_vertex_parameters_eq_triangle_mesh (su sv : ℕ) (hu : 2 ≤ su) (hv : 2 ≤ sv) :
    quadVertexUV (K := K) (su * sv) su sv = (makeTriangleMesh (K := K) su sv 1).uv :=
  quadVertexUV_eq_tri su sv hu hv

/-- non-vacuity: 2 x 3 points -/
example : quadVertexUV (K := ℚ) (2 * 3) 2 3 = [(0, 0), (0, 1/2), (0, 1), (1, 0), (1, 1/2), (1, 1)] := by
  decide +kernel

/-! ### containers and exporters -/

/-- OBJ (`base = 1`), OFF and container ids (`base = 0`): for any list of sample sizes, the written face
    records are as many as the surfaces have triangles, and every written index lies in
    `[base, base + total number of vertices)`. -/
theorem export_indices_in_range (base s : ℕ) (sizes : List (ℕ × ℕ))
    (h : ∀ p ∈ sizes, 2 ≤ gridCount p.1 s ∧ 2 ≤ gridCount p.2 s) :
    let ms := sizes.map fun p => ((makeTriangleMesh (K := K) p.1 p.2 s).uv.length, (makeTriangleMesh (K := K) p.1 p.2 s).faces)
    (offsetFaces base 0 ms).length = (ms.map (·.2.length)).sum ∧
    ∀ t ∈ offsetFaces base 0 ms, ∀ v ∈ t, base ≤ v ∧ v < base + meshTotalVerts ms := by
  intro ms
  refine ⟨offsetFaces_length base 0 ms, ?_⟩
  have := offsetFaces_range base 0 ms (by
    intro m hm
    obtain ⟨p, hp, rfl⟩ := List.mem_map.1 hm
    exact face_index_lt p.1 p.2 s (h p hp).1 (h p hp).2)
  simpa using this

/-- The faces of a surface are written into its own vertex block: with `off` vertices written before it,
    its records lie in `[base + off, base + off + V)`. -/
theorem export_block (base off nV : ℕ) (fs : List (List ℕ)) (rest : List (ℕ × List (List ℕ)))
    (h : ∀ t ∈ fs, ∀ v ∈ t, v < nV) (k : ℕ) (hk : k < fs.length) :
    ∀ v ∈ (offsetFaces base off ((nV, fs) :: rest)).getD k [], base + off ≤ v ∧ v < base + off + nV :=
  offsetFaces_head_block base off nV fs rest h k hk

/-- STL facet normal: `triangle_normal` is `(p1-p0) × (p2-p0)`, orthogonal to the facet's edges.
    (A fact about any three points (cross product of two edge vectors), not about the surface.) -/
theorem stl_normal (p0 p1 p2 : List K) :
    triangleNormal p0 p1 p2 = triVecCross (triVecGen p0 p1) (triVecGen p0 p2) ∧
    triDot3 (triangleNormal p0 p1 p2) (triVecGen p0 p1) = 0 ∧ triDot3 (triangleNormal p0 p1 p2) (triVecGen p1 p2) = 0 :=
  ⟨triangleNormal_eq p0 p1 p2, triangleNormal_orth1 p0 p1 p2, triangleNormal_orth2 p0 p1 p2⟩

/-! ### defect F-15 (pinned code) -/

/-- The pinned vertex-array size `int(round(size/spacing + 10e-8))` is smaller than the number of grid
    lines for EVERY spacing `≥ 3` that divides `size - 1` … -/
theorem pinned_refutes_undercount (k s : ℕ) (hs : 3 ≤ s) :
    gridCountPinned (k * s + 1) s = k ∧ gridCount (k * s + 1) s = k + 1 :=
  ⟨gridCountPinned_of_dvd k s hs, gridCount_of_dvd k s (by omega)⟩

/-- … so the vertex loop of the pinned `make_triangle_mesh` runs past its array (`IndexError`), e.g. for
    sample size 7×7 or 4×7 with `vertex_spacing = 3`; the repaired size expression is `gridCount`.
    (Closed witness check: a statement about this one concrete input, decided by evaluation.) -/
theorem pinned_refutes_witness : meshOkPinned 7 7 3 = false ∧ meshOkPinned 4 7 3 = false := by decide

/-- Spacing 1 and 2 are not affected by the defect. -/
theorem pinned_ok_spacing_1_2 (size : ℕ) :
    gridCountPinned size 1 = gridCount size 1 ∧ gridCountPinned size 2 = gridCount size 2 :=
  ⟨by rw [gridCountPinned_one, gridCount_one], gridCountPinned_two size⟩

/-! ### non-vacuity -/

/-- sample sizes 7×4, spacing 3 (the F-15 witness): 3×2 grid lines, hypotheses of the theorems hold -/
example : 2 ≤ gridCount 7 3 ∧ 2 ≤ gridCount 4 3 ∧ gridCount 7 3 = 3 ∧ gridCount 4 3 = 2 := by decide
/-- `vertex_is_surface_point` applies to the last vertex (grid lines (2, 1), id 5) of that mesh, for any surface:
    it copies evaluated point 3 + 6·4 = 27 (the last one) of the 7 × 4 grid, the surface point at (2·u_jump, 1·v_jump) = (1, 1) -/
example (rat : Bool) (pu pv : ℕ) (Uu Uv : ℕ → ℚ) (nu nv : ℕ) (P : List (List ℚ)) :
    ∃ uv src, (makeTriangleMesh (K := ℚ) 7 4 3).uv[gridVid (gridCount 4 3) 2 1]? = some uv ∧
      (makeTriangleMesh (K := ℚ) 7 4 3).src[gridVid (gridCount 4 3) 2 1]? = some src ∧
      uv = (((2 : ℕ) : ℚ) * meshJump 7 3, ((1 : ℕ) : ℚ) * meshJump 4 3) ∧ src = 1 * 3 + (2 * 3) * 4 ∧
      src < (surfaceGrid rat pu pv Uu Uv nu nv P (linspaceCore 0 1 7) (linspaceCore 0 1 4)).length ∧
      (surfaceGrid rat pu pv Uu Uv nu nv P (linspaceCore 0 1 7) (linspaceCore 0 1 4)).getD src []
        = projIf rat (surfacePoint pu pv Uu Uv nu nv P uv.1 uv.2) :=
  vertex_is_surface_point rat pu pv Uu Uv nu nv P 7 4 3 2 1 (by decide) (by decide) (by decide) (by decide)

/-- the tiling statement on sample sizes 7×4 with spacing 3 (grid lines u = 0, 1/2, 1 and v = 0, 1): the point
    `(1/8, 3/4)` lies strictly inside face `[0, 3, 1]`, hence in no other face -/
example : inFaceInterior (meshUV (K := ℚ) 7 4 3) [0, 3, 1] (1/8, 3/4) ∧
    [0, 3, 1] ∈ (makeTriangleMesh (K := ℚ) 7 4 3).faces := by
  refine ⟨?_, by decide⟩
  refine (inFaceInterior_B (K := ℚ) 7 4 3 (by decide) (by decide) 0 0 (by decide) (by decide) (1/8, 3/4)).2 ?_
  simp only [inTriangleInterior, cellCross2, meshJump]
  norm_num

/-- and the model's mesh there is the expected one -/
example : (makeTriangleMesh (K := ℚ) 7 4 3).faces = [[0, 2, 3], [0, 3, 1], [2, 4, 5], [2, 5, 3]] ∧
    (makeTriangleMesh (K := ℚ) 7 4 3).src = [0, 3, 12, 15, 24, 27] := by decide

/-! ### trimmed tessellation (`surface_trim_tessellate`, `tessellate.TrimTessellate`)

`trimCell tt sq trims v1 v2 v3 v4 vidx tidx` is one call of `surface_trim_tessellate` (`Model/TrimMesh.lean`), `trimCells`
the cell loop of `make_triangle_mesh` with it, `makeTrimMesh` the mesh after `fix_numbering`.  `tt` holds the doubles of
the routine (`tol`, `tol²`, `1.0 + tol`, the tolerance of `ray.intersect`), `sq` the rounded square root used inside
`ray.intersect`; the theorems hold for every `tt` and `sq` unless a hypothesis says otherwise.  A trim is its closed
polyline `pts` (`trim.evalpts`) and the flag `reversed`.  `cornerFlags tt trims k v` are the flags of corner `k` after the
corner loop, `InSomeTrim trims p` says `wn_poly(p, trim.evalpts)` is true for some trim, `NearInside tols trims uv` that
one of the four offset points `uv ± (tol², tol²)` of a grid vertex is in some trim. -/
section trimmed
open Geomdl.Trim

/-- (i) **A cell whose four corners are all classified inside is omitted entirely**: no vertex, no triangle (the flags
    the corner loop wrote stay on the corner vertices). -/
theorem trim_cell_all_inside_omitted (tt : TrimTol K) (sq : K → K) (trims : List (Trim K)) (v1 v2 v3 v4 : TVertex K)
    (vidx tidx : ℕ)
    (h1 : (cornerFlags tt trims 0 v1).inside = true) (h2 : (cornerFlags tt trims 1 v2).inside = true)
    (h3 : (cornerFlags tt trims 2 v3).inside = true) (h4 : (cornerFlags tt trims 3 v4).inside = true) :
    (trimCell tt sq trims v1 v2 v3 v4 vidx tidx).verts = [] ∧ (trimCell tt sq trims v1 v2 v3 v4 vidx tidx).tris = [] ∧
    (trimCell tt sq trims v1 v2 v3 v4 vidx tidx).flags
      = [cornerFlags tt trims 0 v1, cornerFlags tt trims 1 v2, cornerFlags tt trims 2 v3, cornerFlags tt trims 3 v4] :=
  ⟨(trimCell_of_allInside tt sq trims v1 v2 v3 v4 vidx tidx (by simp [allInside, h1, h2, h3, h4])).1,
   (trimCell_of_allInside tt sq trims v1 v2 v3 v4 vidx tidx (by simp [allInside, h1, h2, h3, h4])).2,
   trimCell_flags tt sq trims v1 v2 v3 v4 vidx tidx⟩

/-- With only non-reversed trims (the default sense), a corner is classified inside iff it already carried the flag
    (from a neighbouring cell) or its offset point for this cell lies in some trim; a fresh triangle iff its centre
    lies in some trim. -/
theorem trim_classification_nonreversed (tt : TrimTol K) (trims : List (Trim K)) (hnr : ∀ tr ∈ trims, tr.reversed = false)
    (k : ℕ) (v : TVertex K) (ctr : K × K) :
    (cornerFlags tt trims k v).inside
      = (v.fl.inside || trims.any fun tr => wnPoly (cornerPoint tt.tols k v.uv false) tr.pts) ∧
    (classifyTri trims ctr).inside = trims.any fun tr => wnPoly ctr tr.pts :=
  ⟨cornerFlags_nonreversed tt trims hnr k v, classifyTri_nonreversed trims hnr ctr⟩

/-- (ii) **Away from the trims the trimmed and the untrimmed tessellation agree.**  A cell none of whose corners is
    classified inside and whose two candidate triangle centres are not classified inside returns its four corners
    (own ids, own parameters, no new vertex) and exactly the two triangles of the untrimmed tessellation:
    `polygon_triangulate(v1, v2, v3, v4)`, ids `tidx`, `tidx + 1`. -/
theorem trim_cell_away_is_untrimmed (tt : TrimTol K) (sq : K → K) (trims : List (Trim K)) (v1 v2 v3 v4 : TVertex K)
    (vidx tidx : ℕ)
    (h1 : (cornerFlags tt trims 0 v1).inside = false) (h2 : (cornerFlags tt trims 1 v2).inside = false)
    (h3 : (cornerFlags tt trims 2 v3).inside = false) (h4 : (cornerFlags tt trims 3 v4).inside = false)
    (hc1 : (classifyTri trims (triCenterUV v1.uv v2.uv v3.uv)).inside = false)
    (hc2 : (classifyTri trims (triCenterUV v1.uv v3.uv v4.uv)).inside = false) :
    (trimCell tt sq trims v1 v2 v3 v4 vidx tidx).verts = [(v1.id, v1.uv), (v2.id, v2.uv), (v3.id, v3.uv), (v4.id, v4.uv)] ∧
    (trimCell tt sq trims v1 v2 v3 v4 vidx tidx).tris = [(tidx, [v1.id, v2.id, v3.id]), (tidx + 1, [v1.id, v3.id, v4.id])] ∧
    (trimCell tt sq trims v1 v2 v3 v4 vidx tidx).tris.map (·.2) = polygonTriangulate [v1.id, v2.id, v3.id, v4.id] := by
  obtain ⟨e1, e2⟩ := trimCell_outside tt sq trims v1 v2 v3 v4 vidx tidx h1 h2 h3 h4 hc1 hc2
  exact ⟨e1, e2, by rw [e2]; rfl⟩

/-- (iii, triangles) **Every emitted triangle has its centre outside every non-reversed trim** (by `wn_poly`); its
    three vertices `(p, q, r)` are entries of the returned vertex list, `p` being the FIRST entry (the apex of the fan),
    it references exactly the ids of these vertices, and its id lies in `tidx … tidx + len(vertices) - 3`.  (That `q`,
    `r` are CONSECUTIVE entries `verts[k+1]`, `verts[k+2]` with `tid = tidx + k` – what makes it a fan triangle – is true
    of the model, `cellCandidates = numberFrom tidx (fanTriangles verts)` – is the separate statement
    `trim_cell_triangles_are_fan_triangles` below; this one states membership only; statement audit 5, T1.) -/
theorem trim_cell_triangles (tt : TrimTol K) (sq : K → K) (trims : List (Trim K)) (v1 v2 v3 v4 : TVertex K)
    (vidx tidx tid : ℕ) (t : List ℕ) (h : (tid, t) ∈ (trimCell tt sq trims v1 v2 v3 v4 vidx tidx).tris) :
    ∃ p q r, p ∈ (trimCell tt sq trims v1 v2 v3 v4 vidx tidx).verts ∧ q ∈ (trimCell tt sq trims v1 v2 v3 v4 vidx tidx).verts ∧
      r ∈ (trimCell tt sq trims v1 v2 v3 v4 vidx tidx).verts ∧
      (trimCell tt sq trims v1 v2 v3 v4 vidx tidx).verts.head? = some p ∧ t = [p.1, q.1, r.1] ∧
      tidx ≤ tid ∧ tid + 2 < tidx + (trimCell tt sq trims v1 v2 v3 v4 vidx tidx).verts.length ∧
      (classifyTri trims (triCenterUV p.2 q.2 r.2)).inside = false ∧
      ∀ tr ∈ trims, tr.reversed = false → wnPoly (triCenterUV p.2 q.2 r.2) tr.pts = false :=
  trimCell_triangles tt sq trims v1 v2 v3 v4 vidx tidx tid t h

/-- (iii, triangles, fan form) **Every kept triangle IS a fan triangle of the returned vertex list**: the triangle with
    id `tid` is `(verts[0], verts[k+1], verts[k+2])` with `k = tid − tidx` – the apex and two CONSECUTIVE entries, ids
    taken from these vertices (the consecutiveness that `trim_cell_triangles` does not state; statement audit 5, T1). -/
theorem trim_cell_triangles_are_fan_triangles (tt : TrimTol K) (sq : K → K) (trims : List (Trim K))
    (v1 v2 v3 v4 : TVertex K) (vidx tidx tid : ℕ) (t : List ℕ)
    (h : (tid, t) ∈ (trimCell tt sq trims v1 v2 v3 v4 vidx tidx).tris) :
    ∃ k p q r, tid = tidx + k ∧
      (trimCell tt sq trims v1 v2 v3 v4 vidx tidx).verts[0]? = some p ∧
      (trimCell tt sq trims v1 v2 v3 v4 vidx tidx).verts[k + 1]? = some q ∧
      (trimCell tt sq trims v1 v2 v3 v4 vidx tidx).verts[k + 2]? = some r ∧ t = [p.1, q.1, r.1] :=
  trimCell_triangles_fan tt sq trims v1 v2 v3 v4 vidx tidx tid t h

/-- (iii, vertices) Every returned vertex is either a corner that is not classified inside, with its own id and
    parameters, or a NEW vertex with id `vidx + k`, `k < nvi ≤ 4`, whose parameters are the snapped point `a + t·(b - a)`
    of one of the four cell edges `a → b` (`v1→v2, v2→v3, v3→v4, v4→v1`) at a parameter `t ∈ (0.0 - tol, 1.0 + tol)`:
    for `tol ≥ 0` within `tol` per coordinate of that edge point (snapping only moves a coordinate onto 0 or 1).
    Hence every vertex id referenced by an emitted triangle (`trim_cell_triangles`) is a corner id or one of
    `vidx … vidx + nvi - 1`. -/
theorem trim_cell_vertices (tt : TrimTol K) (htol : 0 ≤ tt.tol) (sq : K → K) (trims : List (Trim K))
    (v1 v2 v3 v4 : TVertex K) (vidx tidx : ℕ) :
    ∀ e ∈ (trimCell tt sq trims v1 v2 v3 v4 vidx tidx).verts,
      (∃ w ∈ cellCorners tt trims v1 v2 v3 v4, w.fl.inside = false ∧ e = (w.id, w.uv)) ∨
      (∃ k, k < (cellPoly tt sq trims v1 v2 v3 v4 vidx).nvi ∧ (cellPoly tt sq trims v1 v2 v3 v4 vidx).nvi ≤ 4 ∧
        e.1 = vidx + k ∧
        ∃ n a b t, (n, a, b) ∈ cellEdges v1.uv v2.uv v3.uv v4.uv ∧ 0 - tt.tol < t ∧ t < tt.hi ∧
          |e.2.1 - (rayEval2 a b t).1| ≤ tt.tol ∧ |e.2.2 - (rayEval2 a b t).2| ≤ tt.tol) := by
  intro e he
  obtain ⟨hn, _, hv⟩ := trimCell_vertices tt sq trims v1 v2 v3 v4 vidx tidx
  rcases hv e he with h | ⟨k, hk, hid, is, his, huv⟩
  · exact Or.inl h
  · obtain ⟨a, b, t, hm, h1, h2, h3, h4⟩ := isHit_snap_close tt htol _ _ _ _ is his
    exact Or.inr ⟨k, hk, hn, hid, is.1, a, b, t, hm, h1, h2, by rw [huv]; exact h3, by rw [huv]; exact h4⟩

/-- (iii, counts) A call returns at most 8 vertices, of which at most 4 are new, and at most `len(vertices) - 2`
    triangles. -/
theorem trim_cell_counts (tt : TrimTol K) (sq : K → K) (trims : List (Trim K)) (v1 v2 v3 v4 : TVertex K) (vidx tidx : ℕ) :
    (trimCell tt sq trims v1 v2 v3 v4 vidx tidx).verts.length ≤ 8 ∧
    (cellPoly tt sq trims v1 v2 v3 v4 vidx).nvi ≤ 4 ∧
    (trimCell tt sq trims v1 v2 v3 v4 vidx tidx).tris.length ≤ (trimCell tt sq trims v1 v2 v3 v4 vidx tidx).verts.length - 2 :=
  ⟨(trimCell_vertices tt sq trims v1 v2 v3 v4 vidx tidx).2.1, (trimCell_vertices tt sq trims v1 v2 v3 v4 vidx tidx).1,
   trimCell_tris_length tt sq trims v1 v2 v3 v4 vidx tidx⟩

/-- The intersection chosen on an edge is one of the recorded intersections and has the minimal parameter among them
    (`uv_min = []` is never read: every recorded parameter is `< 1.0 + tol`). -/
theorem trim_selected_intersection_minimal (hi : K) (l : List (ℕ × K × (K × K))) (hne : l ≠ [])
    (hlt : ∀ is ∈ l, is.2.1 < hi) :
    (∃ is ∈ l, selMin hi l = (is.2.1, is.2.2)) ∧ ∀ is ∈ l, (selMin hi l).1 ≤ is.2.1 :=
  ⟨selMin_mem hi l hne hlt, selMin_le hi l⟩

/-- The cell loop: one call per grid cell, in loop order; the triangles and the appended vertices are the
    concatenation of the per-call results, and the numbering handed to the next call continues
    (`vrt_idx = #grid vertices + #appended`, `tri_idx = #triangles`). -/
theorem trim_loop_bookkeeping (tt : TrimTol K) (sq : K → K) (trims : List (Trim K)) (uvs : List (K × K)) (nu nv : ℕ) :
    (trimCells tt sq trims uvs nu nv).trace.length = (nu - 1) * (nv - 1) ∧
    (trimCells tt sq trims uvs nu nv).tris = (trimCells tt sq trims uvs nu nv).trace.flatMap (·.tris) ∧
    (trimCells tt sq trims uvs nu nv).extra = (trimCells tt sq trims uvs nu nv).trace.flatMap (·.verts) ∧
    (trimCells tt sq trims uvs nu nv).vidx = uvs.length + (trimCells tt sq trims uvs nu nv).extra.length ∧
    (trimCells tt sq trims uvs nu nv).tidx = (trimCells tt sq trims uvs nu nv).tris.length :=
  ⟨trimCells_trace_length tt sq trims uvs nu nv, (trimCells_booked tt sq trims uvs nu nv).1,
   (trimCells_booked tt sq trims uvs nu nv).2.1, (trimCells_booked tt sq trims uvs nu nv).2.2.1,
   (trimCells_booked tt sq trims uvs nu nv).2.2.2⟩

/-- (i) on the grid (non-reversed trims): a cell each of whose four corners has the offset point THIS cell tests inside
    some trim is omitted, whatever happened in the cells before. -/
theorem trim_grid_cell_omitted (tt : TrimTol K) (sq : K → K) (trims : List (Trim K)) (hnr : ∀ tr ∈ trims, tr.reversed = false)
    (uvs : List (K × K)) (nu nv i j : ℕ) (hi : i < nu - 1) (hj : j < nv - 1)
    (h1 : InSomeTrim trims (cornerPoint tt.tols 0 (uvs.getD (j + i * nv) (0, 0)) false))
    (h2 : InSomeTrim trims (cornerPoint tt.tols 1 (uvs.getD (j + (i + 1) * nv) (0, 0)) false))
    (h3 : InSomeTrim trims (cornerPoint tt.tols 2 (uvs.getD (j + 1 + (i + 1) * nv) (0, 0)) false))
    (h4 : InSomeTrim trims (cornerPoint tt.tols 3 (uvs.getD (j + 1 + i * nv) (0, 0)) false)) :
    ∃ r, (trimCells tt sq trims uvs nu nv).trace[j + i * (nv - 1)]? = some r ∧ r.verts = [] ∧ r.tris = [] :=
  trimCells_cell_omitted tt sq trims hnr uvs nu nv i j hi hj h1 h2 h3 h4

/-- (ii) on the grid (non-reversed trims): a cell none of whose corners has ANY of its four offset points in a trim (so
    that no neighbouring cell can have flagged it either) and whose two triangle centres lie in no trim is emitted as
    exactly the two triangles of the untrimmed tessellation of that cell, on the grid's own vertex ids. -/
theorem trim_grid_cell_untrimmed (tt : TrimTol K) (sq : K → K) (trims : List (Trim K)) (hnr : ∀ tr ∈ trims, tr.reversed = false)
    (uvs : List (K × K)) (nu nv i j : ℕ) (hi : i < nu - 1) (hj : j < nv - 1)
    (h1 : ¬ NearInside tt.tols trims (uvs.getD (j + i * nv) (0, 0)))
    (h2 : ¬ NearInside tt.tols trims (uvs.getD (j + (i + 1) * nv) (0, 0)))
    (h3 : ¬ NearInside tt.tols trims (uvs.getD (j + 1 + (i + 1) * nv) (0, 0)))
    (h4 : ¬ NearInside tt.tols trims (uvs.getD (j + 1 + i * nv) (0, 0)))
    (hc1 : ¬ InSomeTrim trims (triCenterUV (uvs.getD (j + i * nv) (0, 0)) (uvs.getD (j + (i + 1) * nv) (0, 0))
      (uvs.getD (j + 1 + (i + 1) * nv) (0, 0))))
    (hc2 : ¬ InSomeTrim trims (triCenterUV (uvs.getD (j + i * nv) (0, 0)) (uvs.getD (j + 1 + (i + 1) * nv) (0, 0))
      (uvs.getD (j + 1 + i * nv) (0, 0)))) :
    ∃ r, (trimCells tt sq trims uvs nu nv).trace[j + i * (nv - 1)]? = some r ∧
      r.verts = [(j + i * nv, uvs.getD (j + i * nv) (0, 0)), (j + (i + 1) * nv, uvs.getD (j + (i + 1) * nv) (0, 0)),
         (j + 1 + (i + 1) * nv, uvs.getD (j + 1 + (i + 1) * nv) (0, 0)), (j + 1 + i * nv, uvs.getD (j + 1 + i * nv) (0, 0))] ∧
      r.tris.map (·.2) = polygonTriangulate (quadCell nv i j) :=
  trimCells_cell_untrimmed tt sq trims hnr uvs nu nv i j hi hj h1 h2 h3 h4 hc1 hc2

/-- (ii) for the whole mesh: **if every cell is away from the (non-reversed) trims, the trimmed tessellation IS the
    untrimmed one** - same faces, same vertex parameters, `fix_numbering` keeps exactly the grid vertices with their ids
    (the corner vertices every call returns again are recognised as duplicates).  `CellAway`: none of the four offset
    points of the cell's four corners and neither of its two triangle centres lies in a trim. -/
theorem trim_all_cells_away_is_untrimmed_mesh (tt : TrimTol K) (sq : K → K) (trims : List (Trim K))
    (hnr : ∀ tr ∈ trims, tr.reversed = false) (su sv s : ℕ) (hu : 2 ≤ gridCount su s) (hv : 2 ≤ gridCount sv s)
    (haway : ∀ i j, i < gridCount su s - 1 → j < gridCount sv s - 1 →
      CellAway tt.tols trims ((meshVertices (K := K) su sv s).map (·.1)) (gridCount sv s) (i, j)) :
    (makeTrimMesh tt sq trims su sv s).faces = (makeTriangleMesh (K := K) su sv s).faces ∧
    (makeTrimMesh tt sq trims su sv s).uv = (makeTriangleMesh (K := K) su sv s).uv ∧
    (makeTrimMesh tt sq trims su sv s).old = List.range (gridCount su s * gridCount sv s) :=
  makeTrimMesh_all_away tt sq trims hnr su sv s hu hv haway

/-- Without trims `TrimTessellate` produces the mesh of `TriangularTessellate`. -/
theorem trim_no_trims_is_untrimmed (tt : TrimTol K) (sq : K → K) (su sv s : ℕ) (hu : 2 ≤ gridCount su s)
    (hv : 2 ≤ gridCount sv s) :
    (makeTrimMesh tt sq [] su sv s).faces = (makeTriangleMesh (K := K) su sv s).faces ∧
    (makeTrimMesh tt sq [] su sv s).uv = (makeTriangleMesh (K := K) su sv s).uv ∧
    (makeTrimMesh tt sq [] su sv s).old = List.range (gridCount su s * gridCount sv s) :=
  makeTrimMesh_no_trims tt sq su sv s hu hv

/-- **The winding counter of `wn_poly` does not change along a segment that no polygon edge crosses**: for a closed
    polyline (`V₀ … Vₙ = V₀`, any shape, self-intersections allowed) and two points `p`, `q` such that no edge `a → b`
    passes the segment-intersection test `Crosses a b p q` (`is_left(a,b,p)·is_left(a,b,q) ≤ 0` and
    `is_left(p,q,a)·is_left(p,q,b) ≤ 0`: the edge meets the segment or is collinear with it), the counters are equal. -/
theorem winding_constant_without_crossing (p q : K × K) (poly : List (K × K)) (hclosed : poly.head? = poly.getLast?)
    (h : ∀ e ∈ poly.zip poly.tail, ¬ Crosses e.1 e.2 p q) : wnNum p poly = wnNum q poly ∧ wnPoly p poly = wnPoly q poly :=
  ⟨wnNum_eq_of_no_crossing p q poly hclosed h, wnPoly_eq_of_no_crossing p q poly hclosed h⟩

/-- A crossing in the sense of the test `Crosses` that is not a collinear configuration IS a common point of the two
    segments: `p + t (q - p) = a + s (b - a)` with `s, t ∈ [0, 1]`. -/
theorem crossing_is_common_point (a b p q : K × K) (hc : Crosses a b p q) (hn : ¬ AllCollinear a b p q) :
    ∃ t, 0 ≤ t ∧ t ≤ 1 ∧ ∃ s, 0 ≤ s ∧ s ≤ 1 ∧
      p.1 + t * (q.1 - p.1) = a.1 + s * (b.1 - a.1) ∧ p.2 + t * (q.2 - p.2) = a.2 + s * (b.2 - a.2) :=
  crosses_common_point a b p q hc hn

/-- **`wn_poly` is constant on a box that the polygon stays out of**: for a closed polyline none of whose edges has a
    point in the closed box `[lo.1, hi.1] × [lo.2, hi.2]`, all points of the box have the same winding counter. -/
theorem winding_constant_on_box_polygon_avoids (lo hi p q : K × K) (hp : InBox lo hi p) (hq : InBox lo hi q)
    (poly : List (K × K)) (hclosed : poly.head? = poly.getLast?)
    (h : ∀ e ∈ poly.zip poly.tail, SegmentAvoidsBox lo hi e.1 e.2) :
    wnNum p poly = wnNum q poly ∧ wnPoly p poly = wnPoly q poly :=
  ⟨wnNum_eq_of_avoids_box lo hi p q hp hq poly hclosed h, wnPoly_eq_of_avoids_box lo hi p q hp hq poly hclosed h⟩

/-- (iv), geometric form, for the grid of `make_triangle_mesh` itself.  **A sampling cell that no trim polyline enters is
    either omitted or emitted exactly as in the untrimmed tessellation, according to where it lies.**  Trims:
    non-reversed closed polylines; cell `(i, j)` is `[i·u_jump, (i+1)·u_jump] × [j·v_jump, (j+1)·v_jump]`; if no point of
    any trim edge lies in this rectangle enlarged by `tol²` on every side, then for every point `x` of the enlarged
    rectangle: `x` in some trim ⇒ the call for this cell returns nothing; `x` in no trim ⇒ it returns exactly the two
    triangles `polygon_triangulate(v1, v2, v3, v4)` of the untrimmed tessellation.  Consequently the triangles of the
    trimmed mesh differ from "untrimmed triangles of the cells outside the trims" only in cells that a trim polyline
    enters: the omitted region matches the trimmed region to within one sampling cell. -/
theorem trim_cell_no_trim_enters_is_whole (tt : TrimTol K) (ht : 0 ≤ tt.tols) (sq : K → K) (trims : List (Trim K))
    (hnr : ∀ tr ∈ trims, tr.reversed = false) (hcl : ∀ tr ∈ trims, tr.pts.head? = tr.pts.getLast?)
    (su sv s : ℕ) (hs : 0 < s) (hsu : 2 ≤ su) (hsv : 2 ≤ sv) (i j : ℕ) (hi : i < gridCount su s - 1) (hj : j < gridCount sv s - 1)
    (hav : TrimsAvoidBox trims ((i : K) * meshJump su s - tt.tols, (j : K) * meshJump sv s - tt.tols)
      (((i + 1 : ℕ) : K) * meshJump su s + tt.tols, ((j + 1 : ℕ) : K) * meshJump sv s + tt.tols))
    (x : K × K) (hx : InBox ((i : K) * meshJump su s - tt.tols, (j : K) * meshJump sv s - tt.tols)
      (((i + 1 : ℕ) : K) * meshJump su s + tt.tols, ((j + 1 : ℕ) : K) * meshJump sv s + tt.tols) x) :
    ∃ r, (trimCells tt sq trims ((meshVertices (K := K) su sv s).map (·.1)) (gridCount su s) (gridCount sv s)).trace[
        j + i * (gridCount sv s - 1)]? = some r ∧
      (InSomeTrim trims x → r.verts = [] ∧ r.tris = []) ∧
      (¬ InSomeTrim trims x → r.tris.map (·.2) = polygonTriangulate (quadCell (gridCount sv s) i j)) :=
  makeTrimMesh_cell_untouched tt ht sq trims hnr hcl su sv s hs hsu hsv i j hi hj hav x hx

/-- (iv) **The omitted region matches the trimmed region to within one sampling cell.**  Trims: non-reversed closed
    polylines.  The sample points of cell `(i, j)` are the four offset points `uv ± (tol², tol²)` of each of its four
    corners and the centres of its two candidate triangles (`cellSamples`, 18 points, all within `tol²` of the cell).
    If NO trim edge crosses (test `Crosses`) any of the segments joining the first of these points, `p0`, to the others,
    the cell is treated as a whole, exactly "keep iff outside": if `p0` lies in a trim the cell is omitted; if it lies in
    no trim the cell is emitted as the two triangles of the untrimmed tessellation.  So the trimmed mesh can differ from
    "drop the cells inside, keep the cells outside unchanged" only in cells whose (tol²-enlarged) extent is crossed by a
    trim polyline - `trim_differs_only_where_a_trim_crosses`. -/
theorem trim_within_one_cell (tt : TrimTol K) (sq : K → K) (trims : List (Trim K)) (hnr : ∀ tr ∈ trims, tr.reversed = false)
    (hcl : ∀ tr ∈ trims, tr.pts.head? = tr.pts.getLast?) (uvs : List (K × K)) (nu nv i j : ℕ)
    (hi : i < nu - 1) (hj : j < nv - 1)
    (hno : ∀ s ∈ cellSamples tt.tols (uvs.getD (j + i * nv) (0, 0)) (uvs.getD (j + (i + 1) * nv) (0, 0))
        (uvs.getD (j + 1 + (i + 1) * nv) (0, 0)) (uvs.getD (j + 1 + i * nv) (0, 0)),
      NoTrimCrossing trims (cornerPoint tt.tols 0 (uvs.getD (j + i * nv) (0, 0)) false) s) :
    ∃ r, (trimCells tt sq trims uvs nu nv).trace[j + i * (nv - 1)]? = some r ∧
      (InSomeTrim trims (cornerPoint tt.tols 0 (uvs.getD (j + i * nv) (0, 0)) false) → r.verts = [] ∧ r.tris = []) ∧
      (¬ InSomeTrim trims (cornerPoint tt.tols 0 (uvs.getD (j + i * nv) (0, 0)) false) →
        r.tris.map (·.2) = polygonTriangulate (quadCell nv i j)) :=
  trimCells_cell_whole tt sq trims hnr hcl uvs nu nv i j hi hj hno

/-- (iv), contrapositive: a cell whose result is neither "nothing" nor "the two untrimmed triangles" has a trim edge
    that crosses a segment between two of its sample points.  Strength (statement audit 5, T2): `cellSamples` contains
    the reference point `p0` itself, so the quantification of `hno` in `trim_within_one_cell` includes the DEGENERATE
    segment `p0 → p0`, which `Crosses a b p0 p0` for every trim edge whose LINE passes through `p0` – however far away
    the edge is (and `p0 →` the offset point of corner 4 is a vertical segment at `x = u − tol²`).  Hence this conclusion
    can be met by a far-away collinear edge and does not by itself locate the difference "in cells crossed by a trim
    polyline"; the statement that carries "within one sampling cell" is the geometric one,
    `trim_cell_no_trim_enters_is_whole` (no trim point in the tol²-enlarged box of the cell), which is not affected. -/
theorem trim_differs_only_where_a_trim_crosses (tt : TrimTol K) (sq : K → K) (trims : List (Trim K))
    (hnr : ∀ tr ∈ trims, tr.reversed = false) (hcl : ∀ tr ∈ trims, tr.pts.head? = tr.pts.getLast?)
    (uvs : List (K × K)) (nu nv i j : ℕ) (hi : i < nu - 1) (hj : j < nv - 1) (r : TrimCellResult K)
    (hr : (trimCells tt sq trims uvs nu nv).trace[j + i * (nv - 1)]? = some r)
    (hdiff : r.tris ≠ [] ∧ r.tris.map (·.2) ≠ polygonTriangulate (quadCell nv i j)) :
    ∃ s ∈ cellSamples tt.tols (uvs.getD (j + i * nv) (0, 0)) (uvs.getD (j + (i + 1) * nv) (0, 0))
        (uvs.getD (j + 1 + (i + 1) * nv) (0, 0)) (uvs.getD (j + 1 + i * nv) (0, 0)),
      ∃ tr ∈ trims, ∃ e ∈ polySegments tr.pts,
        Crosses e.1 e.2 (cornerPoint tt.tols 0 (uvs.getD (j + i * nv) (0, 0)) false) s := by
  by_contra hc
  have hno : ∀ s ∈ cellSamples tt.tols (uvs.getD (j + i * nv) (0, 0)) (uvs.getD (j + (i + 1) * nv) (0, 0))
        (uvs.getD (j + 1 + (i + 1) * nv) (0, 0)) (uvs.getD (j + 1 + i * nv) (0, 0)),
      NoTrimCrossing trims (cornerPoint tt.tols 0 (uvs.getD (j + i * nv) (0, 0)) false) s := by
    intro s hs tr htr e he hx
    exact hc ⟨s, hs, tr, htr, e, he, hx⟩
  obtain ⟨r', hr', hin, hout⟩ := trim_within_one_cell tt sq trims hnr hcl uvs nu nv i j hi hj hno
  rw [hr] at hr'
  cases hr'
  by_cases hp : InSomeTrim trims (cornerPoint tt.tols 0 (uvs.getD (j + i * nv) (0, 0)) false)
  · exact hdiff.1 (hin hp).2
  · exact hdiff.2 (hout hp)

/-! non-vacuity: a 3 × 3-cell grid (sample size 4 × 4, parameters multiples of 1/3) with the triangular trim
    `(1/6,1/6), (5/6,1/4), (1/4,5/6)`, resp. the triangle `(-1/10,-1/10), (9/10,-1/10), (-1/10,9/10)` that cuts off a
    corner of the domain; `tol = 10⁻⁷`, exact square roots -/

/-- the doubles of the routine, rounded to decimal fractions for the examples -/
def exTol : TrimTol ℚ := { tol := 1 / 10000000, tols := 1 / 100000000000000, hi := 10000001 / 10000000, rtol := 1 / 17592186044416 }
/-- the square roots needed for the first cell (exact) -/
def exSq : ℚ → ℚ := fun x => if x = 1 / 1296 then 1 / 36 else if x = 49 / 1296 then 7 / 36 else if x = 4 / 81 then 2 / 9 else 0
def exTrim : Trim ℚ := { pts := [(1/6, 1/6), (5/6, 1/4), (1/4, 5/6), (1/6, 1/6)], reversed := false }
def exTrimCorner : Trim ℚ := { pts := [(-1/10, -1/10), (9/10, -1/10), (-1/10, 9/10), (-1/10, -1/10)], reversed := false }
def exUV : List (ℚ × ℚ) := (meshVertices (K := ℚ) 4 4 1).map (·.1)

/-- a cell the trim cuts through (cell (0,0): corner `(1/3,1/3)` is inside the triangle): two new vertices `16`, `17` on
    the edges `v2→v3` and `v3→v4`, the fan `(0,4,16), (0,16,17), (0,17,1)`, of which the middle triangle is dropped
    because its centre is inside the trim -/
example : let r := trimCell exTol exSq [exTrim] ⟨0, (0, 0), {}⟩ ⟨4, (1/3, 0), {}⟩ ⟨5, (1/3, 1/3), {}⟩ ⟨1, (0, 1/3), {}⟩ 16 0
    r.verts = [(0, (0, 0)), (4, (1/3, 0)), (16, (1/3, 3/16)), (17, (3/16, 1/3)), (1, (0, 1/3))] ∧
    r.tris = [(0, [0, 4, 16]), (2, [0, 17, 1])] ∧
    r.flags = [{}, {}, { inside := true, trim := true }, {}] := by decide +kernel

/-- `trim_cell_triangles_are_fan_triangles` on that cell: the kept triangle with id 2 is `(verts[0], verts[3], verts[4])`,
    `k = 2` (the fan triangle with id 1 was dropped: ids are positions in the fan, gaps included) -/
example : ∃ k p q r, (2 : ℕ) = 0 + k ∧
    (trimCell exTol exSq [exTrim] ⟨0, (0, 0), {}⟩ ⟨4, (1/3, 0), {}⟩ ⟨5, (1/3, 1/3), {}⟩ ⟨1, (0, 1/3), {}⟩ 16 0).verts[0]? = some p ∧
    (trimCell exTol exSq [exTrim] ⟨0, (0, 0), {}⟩ ⟨4, (1/3, 0), {}⟩ ⟨5, (1/3, 1/3), {}⟩ ⟨1, (0, 1/3), {}⟩ 16 0).verts[k + 1]? = some q ∧
    (trimCell exTol exSq [exTrim] ⟨0, (0, 0), {}⟩ ⟨4, (1/3, 0), {}⟩ ⟨5, (1/3, 1/3), {}⟩ ⟨1, (0, 1/3), {}⟩ 16 0).verts[k + 2]? = some r ∧
    [0, 17, 1] = [p.1, q.1, r.1] :=
  trim_cell_triangles_are_fan_triangles exTol exSq [exTrim] _ _ _ _ 16 0 2 [0, 17, 1] (by decide +kernel)

/-- the hypotheses of `trim_grid_cell_untrimmed` / `trim_within_one_cell` hold for cell (2,2) (the trim stays away
    from it): no offset point of its corners and no centre in the trim, no trim edge crosses a sample segment -/
example : exUV.getD 10 (0, 0) = (2/3, 2/3) ∧ exUV.getD 15 (0, 0) = (1, 1) ∧ quadCell 4 2 2 = [10, 14, 15, 11] ∧
    (∀ k ∈ [10, 14, 15, 11], ∀ s ∈ offsetPoints exTol.tols (exUV.getD k (0, 0)), wnPoly s exTrim.pts = false) ∧
    wnPoly (triCenterUV (exUV.getD 10 (0, 0)) (exUV.getD 14 (0, 0)) (exUV.getD 15 (0, 0))) exTrim.pts = false ∧
    wnPoly (triCenterUV (exUV.getD 10 (0, 0)) (exUV.getD 15 (0, 0)) (exUV.getD 11 (0, 0))) exTrim.pts = false ∧
    (∀ s ∈ cellSamples exTol.tols (exUV.getD 10 (0, 0)) (exUV.getD 14 (0, 0)) (exUV.getD 15 (0, 0)) (exUV.getD 11 (0, 0)),
      ∀ e ∈ polySegments exTrim.pts, ¬ Crosses e.1 e.2 (cornerPoint exTol.tols 0 (exUV.getD 10 (0, 0)) false) s) ∧
    exTrim.pts.head? = exTrim.pts.getLast? := by decide +kernel

/-- the hypotheses of `trim_grid_cell_omitted` / `trim_within_one_cell` (inside branch) hold for cell (0,0) and the
    corner-cutting triangle: the tested offset point of each of its corners is in the trim, and no trim edge crosses a
    sample segment -/
example : wnPoly (cornerPoint exTol.tols 0 (exUV.getD 0 (0, 0)) false) exTrimCorner.pts = true ∧
    wnPoly (cornerPoint exTol.tols 1 (exUV.getD 4 (0, 0)) false) exTrimCorner.pts = true ∧
    wnPoly (cornerPoint exTol.tols 2 (exUV.getD 5 (0, 0)) false) exTrimCorner.pts = true ∧
    wnPoly (cornerPoint exTol.tols 3 (exUV.getD 1 (0, 0)) false) exTrimCorner.pts = true ∧
    (∀ s ∈ cellSamples exTol.tols (exUV.getD 0 (0, 0)) (exUV.getD 4 (0, 0)) (exUV.getD 5 (0, 0)) (exUV.getD 1 (0, 0)),
      ∀ e ∈ polySegments exTrimCorner.pts, ¬ Crosses e.1 e.2 (cornerPoint exTol.tols 0 (exUV.getD 0 (0, 0)) false) s) := by
  decide +kernel

/-- the whole loop on that grid with the corner-cutting triangle: nine calls; cell (0,0) returns nothing, cell (2,2) its
    two untrimmed triangles, cell (0,1) (cut by the trim) one triangle with two new vertices -/
example : let st := trimCells exTol (fun x => if x = 1 / 9 then 1 / 3 else 0) [exTrimCorner] exUV 4 4
    st.trace.length = 9 ∧ (st.trace.map (·.tris.length)) = [0, 1, 3, 1, 3, 2, 3, 2, 2] ∧
    (st.trace.getD 8 ⟨[], [], []⟩).tris.map (·.2) = polygonTriangulate (quadCell 4 2 2) ∧
    (st.trace.getD 1 ⟨[], [], []⟩).verts = [(16, (1/3, 7/15)), (6, (1/3, 2/3)), (17, (2/15, 2/3))] := by decide +kernel

/-- `trim_all_cells_away_is_untrimmed_mesh` is not vacuous: a small triangular trim strictly inside the open lower
    triangle of cell (0,0) touches none of the 18 sample points of any cell of the 2 × 2-cell grid (sample size 3 × 3),
    yet it is a proper trim (the point (3/10, 1/20) is inside it) -/
example : let tr : Trim ℚ := { pts := [(1/4, 1/40), (2/5, 1/20), (1/4, 1/10), (1/4, 1/40)], reversed := false }
    wnPoly ((3/10 : ℚ), (1/20 : ℚ)) tr.pts = true ∧
    ∀ i ∈ [0, 1], ∀ j ∈ [0, 1],
      ∀ s ∈ cellSamples exTol.tols (((meshVertices (K := ℚ) 3 3 1).map (·.1)).getD (j + i * 3) (0, 0))
          (((meshVertices (K := ℚ) 3 3 1).map (·.1)).getD (j + (i + 1) * 3) (0, 0))
          (((meshVertices (K := ℚ) 3 3 1).map (·.1)).getD (j + 1 + (i + 1) * 3) (0, 0))
          (((meshVertices (K := ℚ) 3 3 1).map (·.1)).getD (j + 1 + i * 3) (0, 0)), wnPoly s tr.pts = false := by
  decide +kernel

/-- the hypothesis `TrimsAvoidBox` of `trim_cell_no_trim_enters_is_whole` holds for cell (2,2) = `[2/3,1]²` of the
    3 × 3-cell grid and the triangular trim (every point of the triangle's edges has `u + v ≤ 13/12`, every point of the
    enlarged cell has `u + v ≥ 4/3 - 2·10⁻¹⁴`), and the cell corner (2/3, 2/3) is a point of the enlarged cell -/
example : TrimsAvoidBox [exTrim] (((2 : ℕ) : ℚ) * meshJump 4 1 - exTol.tols, ((2 : ℕ) : ℚ) * meshJump 4 1 - exTol.tols)
      (((2 + 1 : ℕ) : ℚ) * meshJump 4 1 + exTol.tols, ((2 + 1 : ℕ) : ℚ) * meshJump 4 1 + exTol.tols) ∧
    InBox (((2 : ℕ) : ℚ) * meshJump 4 1 - exTol.tols, ((2 : ℕ) : ℚ) * meshJump 4 1 - exTol.tols)
      (((2 + 1 : ℕ) : ℚ) * meshJump 4 1 + exTol.tols, ((2 + 1 : ℕ) : ℚ) * meshJump 4 1 + exTol.tols) ((2/3 : ℚ), (2/3 : ℚ)) := by
  have hj : meshJump (K := ℚ) 4 1 = 1 / 3 := by norm_num [meshJump]
  constructor
  · intro tr htr e he s hs0 hs1 hb
    simp only [List.mem_singleton] at htr
    subst htr
    have hcases : e = ((1/6, 1/6), (5/6, 1/4)) ∨ e = ((5/6, 1/4), (1/4, 5/6)) ∨ e = ((1/4, 5/6), (1/6, 1/6)) := by
      simpa [polySegments, exTrim] using he
    obtain ⟨h1, _, h3, _⟩ := hb
    rw [hj] at h1 h3
    simp only [exTol] at h1 h3
    rcases hcases with rfl | rfl | rfl <;> norm_num at h1 h3 <;> linarith
  · rw [hj]; simp only [InBox, exTol]; norm_num

end trimmed

end C15
