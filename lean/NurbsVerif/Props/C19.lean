import NurbsVerif.Lemmas.Equality

/-!
# C19  Equality of shapes is an equivalence that tracks the definition

Property theorems only.  `eqShape a b` is `a == b` as the REPAIRED `SplineGeometry.__eq__` decides
it (finding F-19; the model is compared with the real `==`/`!=` on BSpline/NURBS curves, surfaces
and volumes by the correspondence check); `a.tol` is the value of `10 ** (-a._precision)`, "the
comparison tolerance".  `K` is any linearly ordered field.  `CmpShape.wf` is what the public setters
guarantee: one degree / size / knot vector per parametric direction and `|net| = Π sizes`.
A deep copy has the same fields as its source, so "a deep copy equals its source" is reflexivity
(`deepcopy_eq`); that `copy.deepcopy` really copies every field is checked on the real objects.
-/
namespace C19
open Geomdl Geomdl.EqWitness
variable {K : Type} [Field K] [LinearOrder K] [IsStrictOrderedRing K]

/-- `a == a` for every shape (the tolerance `10 ** (-precision)` is positive). -/
theorem eqShape_refl (a : CmpShape K) (h : 0 < a.tol) : eqShape a a = true :=
  eqShape_refl' a h

/-- A deep copy (same fields) equals its source, in both directions.
    (This is reflexivity of `eqShape` (the hypothesis is `b = a`); that `copy.deepcopy` yields equal fields is a harness check, not a theorem.) -/
theorem deepcopy_eq (a b : CmpShape K) (h : 0 < a.tol) (hcopy : b = a) :
    eqShape a b = true ∧ eqShape b a = true := by
  subst hcopy; exact ⟨eqShape_refl' b h, eqShape_refl' b h⟩

/-- `a == b` and `b == a` give the same answer for objects of the same precision
    (no well-formedness needed). -/
theorem eqShape_symm (a b : CmpShape K) (h : a.tol = b.tol) : eqShape a b = eqShape b a :=
  eqShape_symm' a b h

/-- `a != b` is the negation of `a == b`.
    (Unfolding lemma (`rfl`): `__ne__` is defined as `not __eq__` in the model as in the code.) -/
theorem neShape_eq_not (a b : CmpShape K) : neShape a b = !eqShape a b := rfl

/-- Two shapes are equal **exactly if** they have the same parametric kind and rationality, equal
    sizes and degrees, equally long knot vectors and control points, and every knot and every
    homogeneous coordinate differs by less than the tolerance. -/
theorem eqShape_iff (a b : CmpShape K) (ha : a.wf) (hb : b.wf) :
    eqShape a b = true ↔
      a.pdim = b.pdim ∧ a.rational = b.rational ∧ a.size = b.size ∧ a.degree = b.degree ∧
      NetWithin a.tol a.knots b.knots ∧ NetWithin a.tol a.net b.net :=
  Geomdl.eqShape_iff a b ha hb

/-- "equal only if": the index form of the previous theorem – same kind, rationality, degrees,
    sizes, and knot `j` of direction `i` / coordinate `j` of control point `i` within tolerance. -/
theorem eqShape_sound (a b : CmpShape K) (ha : a.wf) (hb : b.wf) (h : eqShape a b = true) :
    a.pdim = b.pdim ∧ a.rational = b.rational ∧ a.degree = b.degree ∧ a.size = b.size ∧
    (∀ i j, i < a.knots.length → j < (a.knots.getD i []).length →
        |(a.knots.getD i []).getD j 0 - (b.knots.getD i []).getD j 0| < a.tol) ∧
    (∀ i j, i < a.net.length → j < (a.net.getD i []).length →
        |(a.net.getD i []).getD j 0 - (b.net.getD i []).getD j 0| < a.tol) := by
  obtain ⟨hp, hr, hs, hd, hk, hn⟩ := (Geomdl.eqShape_iff a b ha hb).1 h
  exact ⟨hp, hr, hd, hs, fun i j hi hj => netWithin_getD hk i j hi hj,
    fun i j hi hj => netWithin_getD hn i j hi hj⟩

/-- A homogeneous control-point coordinate (in particular a weight) that differs by the tolerance
    or more makes the shapes unequal, whatever else is the same. -/
theorem net_far_ne (a b : CmpShape K) (ha : a.wf) (hb : b.wf) (i j : ℕ) (hi : i < a.net.length)
    (hj : j < (a.net.getD i []).length)
    (far : a.tol ≤ |(a.net.getD i []).getD j 0 - (b.net.getD i []).getD j 0|) :
    eqShape a b = false := by
  by_contra hne
  have h : eqShape a b = true := by simpa using hne
  have := (eqShape_sound a b ha hb h).2.2.2.2.2 i j hi hj
  exact absurd this (not_lt.mpr far)

/-- A knot that differs by the tolerance or more makes the shapes unequal. -/
theorem knot_far_ne (a b : CmpShape K) (ha : a.wf) (hb : b.wf) (i j : ℕ) (hi : i < a.knots.length)
    (hj : j < (a.knots.getD i []).length)
    (far : a.tol ≤ |(a.knots.getD i []).getD j 0 - (b.knots.getD i []).getD j 0|) :
    eqShape a b = false := by
  by_contra hne
  have h : eqShape a b = true := by simpa using hne
  have := (eqShape_sound a b ha hb h).2.2.2.2.1 i j hi hj
  exact absurd this (not_lt.mpr far)

/-- Different degrees, sizes, rationality or parametric kind make the shapes unequal. -/
theorem structure_ne (a b : CmpShape K) (ha : a.wf) (hb : b.wf)
    (h : a.degree ≠ b.degree ∨ a.size ≠ b.size ∨ a.rational ≠ b.rational ∨ a.pdim ≠ b.pdim) :
    eqShape a b = false := by
  by_contra hne
  have h' : eqShape a b = true := by simpa using hne
  obtain ⟨hp, hr, hd, hs, -, -⟩ := eqShape_sound a b ha hb h'
  rcases h with h | h | h | h <;> contradiction

/-- Single-component form: replacing ONE coordinate `(i, j)` of the homogeneous net by a value at
    least the tolerance away gives a shape that is unequal to the original, from both sides. -/
theorem perturb_net_ne (a : CmpShape K) (ha : a.wf) (i j : ℕ) (x : K) (hi : i < a.net.length)
    (hj : j < (a.net.getD i []).length) (far : a.tol ≤ |(a.net.getD i []).getD j 0 - x|) :
    eqShape a { a with net := setAt2 a.net i j x } = false ∧
    eqShape { a with net := setAt2 a.net i j x } a = false := by
  have hb : CmpShape.wf { a with net := setAt2 a.net i j x } := by
    obtain ⟨h1, h2, h3, h4⟩ := ha
    exact ⟨h1, h2, h3, by simpa [setAt2_length] using h4⟩
  have h1 : eqShape a { a with net := setAt2 a.net i j x } = false :=
    net_far_ne a _ ha hb i j hi hj (by rw [setAt2_getD a.net i j x hi hj]; exact far)
  exact ⟨h1, (eqShape_symm' a { a with net := setAt2 a.net i j x } rfl).symm.trans h1⟩

/-- Single-component form for knot `j` of direction `i`. -/
theorem perturb_knot_ne (a : CmpShape K) (ha : a.wf) (i j : ℕ) (x : K) (hi : i < a.knots.length)
    (hj : j < (a.knots.getD i []).length) (far : a.tol ≤ |(a.knots.getD i []).getD j 0 - x|) :
    eqShape a { a with knots := setAt2 a.knots i j x } = false ∧
    eqShape { a with knots := setAt2 a.knots i j x } a = false := by
  have hb : CmpShape.wf { a with knots := setAt2 a.knots i j x } := by
    obtain ⟨h1, h2, h3, h4⟩ := ha
    exact ⟨h1, h2, by simpa [setAt2_length] using h3, h4⟩
  have h1 : eqShape a { a with knots := setAt2 a.knots i j x } = false :=
    knot_far_ne a _ ha hb i j hi hj (by rw [setAt2_getD a.knots i j x hi hj]; exact far)
  exact ⟨h1, (eqShape_symm' a { a with knots := setAt2 a.knots i j x } rfl).symm.trans h1⟩

/-- Single-component form for the degree of direction `i`. -/
theorem perturb_degree_ne (a : CmpShape K) (ha : a.wf) (i d : ℕ) (hi : i < a.degree.length)
    (hd : a.degree.getD i 0 ≠ d) :
    eqShape a { a with degree := a.degree.set i d } = false ∧
    eqShape { a with degree := a.degree.set i d } a = false := by
  have hb : CmpShape.wf { a with degree := a.degree.set i d } := by
    obtain ⟨h1, h2, h3, h4⟩ := ha
    exact ⟨by simpa using h1, h2, h3, h4⟩
  have hne : a.degree ≠ a.degree.set i d := by
    intro h
    apply hd
    have : a.degree.getD i 0 = (a.degree.set i d).getD i 0 := by rw [← h]
    simpa [List.getD_eq_getElem?_getD, hi] using this
  have h1 := structure_ne a _ ha hb (Or.inl hne)
  exact ⟨h1, (eqShape_symm' a { a with degree := a.degree.set i d } rfl).symm.trans h1⟩

/-! ### the pinned tree (F-19) violates the property

`cA` and `cB` are two degree-1 rational curves in the plane that differ in the second control point
(coordinates 5 and 7 instead of 1 and 1); `cC` differs from `cA` in an interior knot by 1/4.  The
repaired `==` tells them apart, the pinned one (tolerance 18, control-point verdict discarded)
calls them equal.  (Witnesses: `Geomdl.EqWitness` in `Lemmas/Equality.lean`.) -/

/-- pinned `==` ignores the control points.
    (Closed witness check: a statement about this one concrete input, decided by evaluation.) -/
theorem pinned_refutes_ctrlpts : eqShapePinned cA cB = true ∧ eqShape cA cB = false := by decide

/-- pinned `==` compares knots with tolerance 18.
    (Closed witness check: a statement about this one concrete input, decided by evaluation.) -/
theorem pinned_refutes_tolerance : eqShapePinned cA cC = true ∧ eqShape cA cC = false := by decide

/-- the same two refutations over `ℚ` (quadratic curve `qA`, tolerance `10⁻¹⁸`): `qB` differs in one
    control-point coordinate by 1/2, `qC` in the interior knot by `2·10⁻¹⁸`.
    (Closed witness check: a statement about this one concrete input, decided by evaluation.) -/
theorem pinned_refutes_rat :
    eqShapePinned qA qB = true ∧ eqShape qA qB = false ∧
    eqShapePinned qA qC = true ∧ eqShape qA qC = false := by decide +kernel

/-! ### non-vacuity
`sQ`: a well-formed rational surface of degrees 2 × 1, sizes 3 × 2, precision 3; changing its last
weight by twice the tolerance is a legal instance of `perturb_net_ne`. -/


example : sQ.wf ∧ 0 < sQ.tol := by
  refine ⟨⟨rfl, rfl, rfl, ?_⟩, ?_⟩
  · decide
  · norm_num [sQ]

example : 5 < sQ.net.length ∧ 3 < (sQ.net.getD 5 []).length ∧
    sQ.tol ≤ |(sQ.net.getD 5 []).getD 3 0 - (1 + 2/1000)| := by
  refine ⟨by decide, by decide, ?_⟩
  norm_num [sQ, abs_of_neg]

end C19
