import NurbsVerif.Lemmas.Weights

/-!
# C09  Weights, weighted and unweighted control points stay mutually consistent

Property theorems only.  The model (`Model/Weights.lean`) mirrors `compatibility.*`, the
`ctrlpts` / `weights` / `ctrlptsw` properties of `NURBS.Curve/Surface/Volume` (stored homogeneous
net plus two lazily filled caches), `convert.*` and `CPGen.GridWeighted` **as repaired** (findings
F-09 and F-12a); the pinned variants are refuted at the end.  `K` is any linearly ordered field.
`HomOk Pw` = every homogeneous point has a last coordinate and it is non-zero.
-/
namespace C09
open Geomdl Geomdl.WWitness
variable {K : Type} [Field K] [LinearOrder K] [IsStrictOrderedRing K]

/-! ### the list helpers are mutually inverse -/

/-- `separate_ctrlpts_weights(combine_ctrlpts_weights(P, w)) = [P, w]` for non-zero weights. -/
theorem separate_combine (P : List (List K)) (w : List K) (hl : P.length = w.length)
    (hw : ∀ x ∈ w, x ≠ 0) : separate (combine P w) = (P, w) :=
  separate_combine' P w hl hw

/-- `combine_ctrlpts_weights(*separate_ctrlpts_weights(Pw)) = Pw` when every last coordinate is non-zero. -/
theorem combine_separate (Pw : List (List K)) (h : HomOk Pw) :
    combine (separate Pw).1 (separate Pw).2 = Pw :=
  combine_separate' Pw h

/-- `generate_ctrlpts_weights ∘ generate_ctrlptsw = id` and `generate_ctrlptsw ∘ generate_ctrlpts_weights = id`
    on `(x, y, z, w)` lists with non-zero `w`. -/
theorem generate_inverse (P : List (List K)) (h : HomOk P) :
    genCtrlptsWeights (genCtrlptsw P) = P ∧ genCtrlptsw (genCtrlptsWeights P) = P := by
  unfold genCtrlptsWeights genCtrlptsw
  constructor <;>
  · rw [List.map_map]
    conv_rhs => rw [← List.map_id P]
    apply List.map_congr_left
    intro pt hpt
    obtain ⟨h1, h2⟩ := h pt hpt
    simp only [Function.comp, id, toUnweighted_toWeighted pt h1 h2, toWeighted_toUnweighted pt h1 h2]

/-- the same for the 2-D (`[u][v]`) versions. -/
theorem generate2d_inverse (P : List (List (List K))) (h : ∀ row ∈ P, HomOk row) :
    genCtrlpts2dWeights (genCtrlptsw2d P) = P ∧ genCtrlptsw2d (genCtrlpts2dWeights P) = P := by
  unfold genCtrlpts2dWeights genCtrlptsw2d
  constructor <;>
  · rw [List.map_map]
    conv_rhs => rw [← List.map_id P]
    apply List.map_congr_left
    intro row hrow
    simp only [Function.comp, id, (generate_inverse row (h row hrow)).1, (generate_inverse row (h row hrow)).2]

/-! ### the three views of a rational shape, for every history -/

/-- Invariant for **every history**: starting from a fresh object (or any consistent state), after any
    finite sequence of `ctrlpts =`, `weights =`, `ctrlptsw =`, reads of the three views and
    `reverse` that does not raise (weights non-zero, homogeneous points with non-zero last
    coordinate), every cache is empty or agrees with the stored net, and the stored net is
    well-formed. -/
theorem views_invariant (ops : List (NOp K)) (s s' : NState K) (outs : List (NOut K))
    (h : NInv s) (hok : ∀ op ∈ ops, NOpOk op) (hr : nRun s ops = some (s', outs)) : NInv s' :=
  ninv_run ops s h hok s' outs hr

/-- … and therefore the views read after any such history (in either order) satisfy
    `ctrlptsw = combine_ctrlpts_weights(ctrlpts, weights)`, with `ctrlpts`, `weights` being exactly
    `separate_ctrlpts_weights(ctrlptsw)`. -/
theorem views_consistent (ops : List (NOp K)) (s' : NState K) (outs : List (NOut K))
    (hok : ∀ op ∈ ops, NOpOk op) (hr : nRun NState.init ops = some (s', outs)) :
    nGetPw s' = combine (nGetP s').2 (nGetW s').2 ∧
    nGetPw (nGetW (nGetP s').1).1 = combine (nGetP s').2 (nGetW (nGetP s').1).2 ∧
    nGetPw (nGetP (nGetW s').1).1 = combine (nGetP (nGetW s').1).2 (nGetW s').2 ∧
    (nGetP s').2 = (separate s'.net).1 ∧ (nGetW s').2 = (separate s'.net).2 := by
  have hinv := ninv_run ops _ ninv_init hok s' outs hr
  obtain ⟨a, b, c⟩ := views_of_inv s' hinv
  exact ⟨a, b, c, (nGetP_spec s' hinv.2).1, (nGetW_spec s' hinv.2).1⟩

/-- Setting the unweighted points (as many as before, or on a fresh object) and reading them back
    returns them unchanged; the weights stay what they were (ones on a fresh object). -/
theorem set_ctrlpts_roundtrip (s : NState K) (P : List (List K)) (h : NInv s)
    (hl : s.net = [] ∨ P.length = s.net.length) :
    (nGetP (nSetP s P)).2 = P ∧
    (nGetW (nSetP s P)).2 = (if s.net.isEmpty then List.replicate P.length 1 else (nGetW s).2) :=
  setP_roundtrip s P h hl

/-- Setting non-zero weights (one per point) and reading them back returns them unchanged, and the
    unweighted points stay what they were. -/
theorem set_weights_roundtrip (s : NState K) (w : List K) (h : NInv s) (hne : s.net ≠ [])
    (hl : w.length = s.net.length) (hw : ∀ x ∈ w, x ≠ 0) :
    ∃ s', nSetW s w = some s' ∧ (nGetW s').2 = w ∧ (nGetP s').2 = (nGetP s).2 :=
  setW_roundtrip s w h hne hl hw

/-- Setting the homogeneous points and reading the other two views splits them; recombining gives
    them back. -/
theorem set_ctrlptsw_roundtrip (s : NState K) (Pw : List (List K)) (h : HomOk Pw) :
    nGetPw (nSetPw s Pw) = Pw ∧
    combine (nGetP (nSetPw s Pw)).2 (nGetW (nSetPw s Pw)).2 = Pw := by
  have := views_of_inv _ (ninv_setPw s Pw h)
  exact ⟨rfl, this.1.symm⟩

/-! ### conversion, common factor -/

/-- `bspline_to_nurbs` appends the weight 1 to every control point … -/
theorem bsplineToNurbs_unit (P : List (List K)) : bsplineToNurbs P = P.map (· ++ [1]) := by
  rw [bsplineToNurbs_eq, combineUnit_eq]

/-- … `nurbs_to_bspline` of the result gives the control points back (for every tolerance ≥ 0) … -/
theorem nurbsToBspline_bsplineToNurbs (P : List (List K)) (tol : K) (ht : 0 ≤ tol) :
    nurbsToBspline tol (bsplineToNurbs P) = some P := by
  rw [bsplineToNurbs_eq]
  unfold combineUnit
  have hs := separate_combine' P (List.replicate P.length 1) (by simp)
    (fun x hx => by rw [List.mem_replicate] at hx; rw [hx.2]; exact one_ne_zero)
  unfold nurbsToBspline
  rw [hs]
  have : (List.replicate P.length (1:K)).any (fun w => decide (tol < absK (w - 1))) = false := by
    rw [List.any_eq_false]
    intro x hx
    rw [List.mem_replicate] at hx
    simp [hx.2, absK, not_lt.mpr ht]
  simp [this]

/-- … and the rational curve with unit weights evaluates (A3.1 + projection) to the same point as the
    non-rational curve, on every non-empty span (`Σ N_i · 1 = 1`) … -/
theorem unit_weights_same_point_curve (p : ℕ) (U : ℕ → K) (P : List (List K)) (k : ℕ) (u : K) (d : ℕ)
    (hd : ∀ pt ∈ P, pt.length = d) (hk : k < P.length) (hpk : p ≤ k) (hs : SpanOk U k u) :
    project (curvePointAt p U (bsplineToNurbs P) k u) = curvePointAt p U P k u := by
  rw [bsplineToNurbs_eq]; exact curvePointAt_unit p U P k u d hd hk hpk hs

/-- … likewise the surface (A3.5, net of `su × sv` points, flat index `v + sv·u`) … -/
theorem unit_weights_same_point_surface (pu pv : ℕ) (Uu Uv : ℕ → K) (su sv : ℕ) (P : List (List K))
    (ku kv : ℕ) (u v : K) (d : ℕ) (hd : ∀ pt ∈ P, pt.length = d) (hlen : P.length = su * sv)
    (hku : ku < su) (hkv : kv < sv) (hpu : pu ≤ ku) (hpv : pv ≤ kv) (hsu : SpanOk Uu ku u) (hsv : SpanOk Uv kv v) :
    project (surfacePointAt pu pv Uu Uv sv (bsplineToNurbs P) ku kv u v) = surfacePointAt pu pv Uu Uv sv P ku kv u v := by
  rw [bsplineToNurbs_eq]; exact surfacePointAt_unit pu pv Uu Uv su sv P ku kv u v d hd hlen hku hkv hpu hpv hsu hsv

/-- … and the volume (net of `su × sv × sw` points, flat index `v + sv·(u + su·w)`). -/
theorem unit_weights_same_point_volume (pu pv pw : ℕ) (Uu Uv Uw : ℕ → K) (su sv sw : ℕ) (P : List (List K))
    (ku kv kw : ℕ) (u v w : K) (d : ℕ) (hd : ∀ pt ∈ P, pt.length = d) (hlen : P.length = su * sv * sw)
    (hku : ku < su) (hkv : kv < sv) (hkw : kw < sw) (hpu : pu ≤ ku) (hpv : pv ≤ kv) (hpw : pw ≤ kw)
    (hsu : SpanOk Uu ku u) (hsv : SpanOk Uv kv v) (hsw : SpanOk Uw kw w) :
    project (volumePointAt pu pv pw Uu Uv Uw su sv (bsplineToNurbs P) ku kv kw u v w) =
      volumePointAt pu pv pw Uu Uv Uw su sv P ku kv kw u v w := by
  rw [bsplineToNurbs_eq]
  exact volumePointAt_unit pu pv pw Uu Uv Uw su sv sw P ku kv kw u v w d hd hlen hku hkv hkw hpu hpv hpw hsu hsv hsw

/-- Multiplying all weights by one non-zero constant multiplies every homogeneous control point by
    it … -/
theorem scale_weights_net (P : List (List K)) (w : List K) (c : K) :
    combine P (w.map (c * ·)) = (combine P w).map (vsmul c) :=
  combine_scale P w c

/-- … and moves no point of a rational curve, surface or volume (evaluation + projection). -/
theorem scale_weights_same_point (P : List (List K)) (w : List K) (c : K) (hc : c ≠ 0) :
    (∀ p U u, project (curvePoint p U (combine P (w.map (c * ·))) u) = project (curvePoint p U (combine P w) u)) ∧
    (∀ pu pv Uu Uv su sv u v, project (surfacePoint pu pv Uu Uv su sv (combine P (w.map (c * ·))) u v) =
        project (surfacePoint pu pv Uu Uv su sv (combine P w) u v)) ∧
    (∀ pu pv pw Uu Uv Uw su sv sw u v t, project (volumePoint pu pv pw Uu Uv Uw su sv sw (combine P (w.map (c * ·))) u v t) =
        project (volumePoint pu pv pw Uu Uv Uw su sv sw (combine P w) u v t)) := by
  rw [combine_scale]
  refine ⟨fun p U u => ?_, fun pu pv Uu Uv su sv u v => ?_, fun pu pv pw Uu Uv Uw su sv sw u v t => ?_⟩
  · rw [curvePoint_smul, project_vsmul c hc]
  · rw [surfacePoint_smul, project_vsmul c hc]
  · rw [volumePoint_smul, project_vsmul c hc]

/-! ### the weighted grid generator -/

/-- Entry `[i][j]` of `GridWeighted.grid` is grid point `[i][j]` multiplied by – and extended with –
    its own weight `weights[j + i * len_v]`. -/
theorem grid_own_weight (G : List (List (List K))) (w : List K) (i j : ℕ) (hi : i < G.length)
    (hj : j < (G.getD i []).length) :
    ((gridWeighted G w).getD i []).getD j [] =
      weighPt ((G.getD i []).getD j []) (w.getD (j + i * (G.headD []).length) 0) :=
  gridWeighted_getD G w i j hi hj

/-- Setting a weights list succeeds only if it has one positive entry per grid point, and the next
    read of `grid` uses exactly these weights, whatever was read or cached before. -/
theorem grid_set_then_get (s s' : GState K) (w : List K) (h : gwSet s w = some s') :
    (gwGet s').2 = gridWeighted s.grid w ∧ w.length = s.count ∧ ∀ x ∈ w, 0 < x := by
  obtain ⟨rfl, hl, hp⟩ := gwSet_spec s s' w h
  refine ⟨?_, hl, hp⟩
  have hinv : GInv ({ s with w := w, cache := [] } : GState K) := Or.inl rfl
  rw [(gwGet_spec _ hinv).1]
  simp only [gEff, GState.count] at hl ⊢
  split
  · rename_i he
    have : w = [] := by simpa using he
    subst this
    simp only [List.length_nil] at hl
    show gridWeighted s.grid (List.replicate (s.grid.length * (s.grid.headD []).length) 1) = _
    rw [← hl]; rfl
  · rfl

/-- Reading `grid` keeps the cache consistent: any number of reads returns the weighted grid of the
    current weights. -/
theorem grid_get_consistent (s : GState K) (h : GInv s) :
    (gwGet s).2 = gridWeighted s.grid (gEff s) ∧ GInv (gwGet s).1 ∧
    (gwGet (gwGet s).1).2 = (gwGet s).2 := by
  obtain ⟨h1, h2, h3, h4⟩ := gwGet_spec s h
  refine ⟨h1, h2, ?_⟩
  rw [(gwGet_spec _ h2).1, h3, h4, h1]

/-! ### the pinned tree violates the property (F-09, F-12a) -/

/-- F-09: the pinned `GridWeighted.grid` multiplies all of row `i` by `weights[i]`: on the 2 × 3 grid
    with weights 1..6 point `[0][1]` gets weight 1 instead of 2 and point `[1][0]` gets 2 instead
    of 4.
    (Closed witness check: a statement about this one concrete input, decided by evaluation.) -/
theorem pinned_grid_refutes_own_weight :
    ((gridWeightedPinned g23 w6).getD 0 []).getD 1 [] = [0, 1, 0, 1] ∧
    ((gridWeighted g23 w6).getD 0 []).getD 1 [] = [0, 2, 0, 2] ∧
    ((gridWeightedPinned g23 w6).getD 1 []).getD 0 [] = [2, 0, 0, 2] ∧
    ((gridWeighted g23 w6).getD 1 []).getD 0 [] = [4, 0, 0, 4] := by decide

/-- F-09: on the pinned tree a weight set after a read of `grid` is ignored by the next read
    (stale cache); the repaired setter clears the cache.
    (Closed witness check: a statement about this one concrete input, decided by evaluation.) -/
theorem pinned_grid_refutes_cache :
    ((gwSetPinned (gwGetPinned gs0).1 w6).map (fun s => (gwGetPinned s).2)) = some (gwGetPinned gs0).2 ∧
    ((gwSet (gwGet gs0).1 w6).map (fun s => (gwGet s).2)) = some (gridWeighted g23 w6) ∧
    (gwGetPinned gs0).2 ≠ gridWeightedPinned g23 w6 := by decide

/-- F-09: the pinned setter accepts a list with non-positive entries (it rejects only if ALL are).
    (Closed witness check: a statement about this one concrete input, decided by evaluation.) -/
theorem pinned_grid_refutes_validation :
    (gwSetPinned gs0 [1, 0, -3, 4, 5, 6]).isSome = true ∧ (gwSet gs0 [1, 0, -3, 4, 5, 6]).isSome = false := by decide

/-- F-12a: after a read of `ctrlpts`, the pinned `reverse` leaves both caches, so the views no longer
    fit together; the repaired one keeps them consistent.
    (Closed witness check: a statement about this one concrete input, decided by evaluation.) -/
theorem pinned_reverse_refutes_views :
    (let s := nReversePinned (nGetP ns0).1
     nGetPw s ≠ combine (nGetP s).2 (nGetW s).2) ∧
    (let s := nReverse (nGetP ns0).1
     nGetPw s = combine (nGetP s).2 (nGetW s).2) := by decide

/-! ### non-vacuity -/

example : HomOk netQ ∧ NInv (⟨netQ, [], []⟩ : NState ℚ) := by
  have h : HomOk netQ := by
    intro pt hpt
    simp only [netQ, List.mem_cons, List.not_mem_nil, or_false] at hpt
    rcases hpt with rfl | rfl | rfl <;> exact ⟨by simp, by norm_num [List.getLastD]⟩
  exact ⟨h, h, Or.inl rfl, Or.inl rfl⟩

/-- a history with all three setters, reads in between and a reverse; it does not raise -/
example : (nRun (NState.init : NState ℚ)
    [.setP [[0, 0], [1, 3], [2, 0]], .getW, .setW [1, 2, 1/2], .getP, .reverse, .getPw, .setPw netQ, .getW]).isSome = true := by
  decide +kernel

/-- a clamped quadratic span satisfying `SpanOk`, with `p ≤ k < |P|` -/
example : SpanOk (fun i => if i ≤ 2 then (0:ℚ) else 1) 2 (1/3) where
  mono := by
    intro a b hab
    by_cases ha : a ≤ 2 <;> by_cases hb : b ≤ 2 <;> simp [ha, hb] <;> omega
  lo := by norm_num
  hi := by norm_num
  nonempty := by norm_num

example : (gwSet (⟨[[[0, 0, 0], [0, 1, 0]], [[1, 0, 0], [1, 1, 0]]], [], []⟩ : GState ℚ) [1, 2, 3, 1/2]).isSome = true := by
  decide +kernel

end C09
