import NurbsVerif.Model.Knots2
import NurbsVerif.Lemmas.InsertModel
import NurbsVerif.Lemmas.InsertAll

/-!
# C05  Knot refinement never changes the shape

The executable model of `helpers.knot_refinement` is specification-level: the list `X` of knots the
code computes (default knot list, `density` bisection rounds, `p - s` copies each) inserted one at a
time with the model of A5.1, whose shape preservation is C04's theorem.
-/
namespace C05
open Geomdl
variable {K : Type} [Field K] [LinearOrder K] [IsStrictOrderedRing K]

/-- one density round keeps every listed knot and puts exactly one new value between neighbours -/
theorem densify_length : ∀ (l : List K), l ≠ [] → (densify l).length = 2 * l.length - 1
  | [], h => absurd rfl h
  | [a], _ => by simp [densify]
  | a :: b :: rest, _ => by
      have ih := densify_length (b :: rest) (by simp)
      simp only [densify, List.length_cons] at ih ⊢
      omega

/-- … the new value is the midpoint … -/
theorem densify_even_odd : ∀ (l : List K) (i : ℕ), i + 1 < l.length →
    (densify l).getD (2 * i) 0 = l.getD i 0 ∧
    (densify l).getD (2 * i + 1) 0 = l.getD i 0 + (l.getD (i+1) 0 - l.getD i 0) / (1 + 1)
  | a :: b :: rest, 0, _ => by simp [densify]
  | a :: b :: rest, i+1, h => by
      have ih := densify_even_odd (b :: rest) i (by simpa using h)
      have e1 : 2 * (i + 1) = (2 * i) + 1 + 1 := by ring
      have e2 : 2 * (i + 1) + 1 = (2 * i + 1) + 1 + 1 := by ring
      simp only [densify, e1, e2, List.getD_cons_succ]
      exact ih
  | [], i, h => by simp at h
  | [a], i, h => by simp at h

/-- … and it lies strictly between its neighbours when they are distinct and ordered. -/
theorem midpoint_between (a b : K) (h : a < b) : a < a + (b - a) / (1 + 1) ∧ a + (b - a) / (1 + 1) < b := by
  have h2 : (0:K) < 1 + 1 := by norm_num
  constructor
  · have : 0 < (b - a) / (1 + 1) := div_pos (by linarith) h2
    linarith
  · have : (b - a) / (1 + 1) < b - a := by
      rw [div_lt_iff₀ h2]; nlinarith
    linarith

/-- every knot to be refined is inserted exactly `p - s` times (`s` its multiplicity in `U`) -/
theorem refineX_eq (p : ℕ) (U : List K) (density : ℕ) (tol : K) :
    refineX p U density tol
      = (iterate densify density (sortDedup ((U.drop p).take (U.length - 2 * p)))).flatMap
          (fun mk => List.replicate (p - findMultiplicity mk U tol) mk) := rfl

/-- the refinement model IS the left fold of single knot insertions over `X` … -/
theorem knotRefinement_is_insert_fold (p : ℕ) (U : List K) (P : List (List K)) (d : ℕ) (tol : K)
    (h : (refineX p U d tol).isEmpty = false) :
    knotRefinement p U P d tol = some ((refineX p U d tol).foldl (insertOne p tol) (U, P)) := by
  unfold knotRefinement
  simp [h]

/-- … each of which grows the knot vector and the control polygon by exactly one, so the result has
    `|X|` more knots and control points. -/
theorem insert_fold_lengths (p : ℕ) (tol : K) (X : List K) : ∀ (U : List K) (P : List (List K)),
    ((X.foldl (insertOne p tol) (U, P)).1.length = U.length + X.length) ∧
    ((X.foldl (insertOne p tol) (U, P)).2.length = P.length + X.length) := by
  induction X with
  | nil => intro U P; simp
  | cons x xs ih =>
    intro U P
    simp only [List.foldl_cons, List.length_cons]
    obtain ⟨h1, h2⟩ := ih (insertOne p tol (U, P) x).1 (insertOne p tol (U, P) x).2
    constructor
    · rw [h1]; simp only [insertOne, knotInsertionKv, List.length_append, List.length_take, List.length_replicate, List.length_drop]; omega
    · rw [h2]; simp only [insertOne, knotInsertion_length]; omega

/-- **Refinement never changes the shape (curves).**  The model of `helpers.knot_refinement` is the fold
    of `insertOne` over `X`; if every knot of `X` is admissible when its turn comes (`RefineOk`: inside
    the domain, multiplicity as the library computes it, below the degree) then every point of a
    well-formed curve is unchanged, for every parameter of the domain and every coordinate. -/
theorem refine_preserves_curve (p d : ℕ) (tol : K) (X : List K) (st : List K × List (List K))
    (hwf : CurveWF p d st.1 st.2) (hok : RefineOk p tol st X) (u : K)
    (hlo : fnOf st.1 p ≤ u) (hhi : u ≤ fnOf st.1 st.2.length) (j : ℕ) :
    (curvePoint p (fnOf (X.foldl (insertOne p tol) st).1) (X.foldl (insertOne p tol) st).2 u).getD j 0
      = (curvePoint p (fnOf st.1) st.2 u).getD j 0 :=
  refine_fold_preserves_curve p d tol X st hwf hok u hlo hhi j

/-- non-vacuity -/
example : densify ([0, 1/2, 1] : List ℚ) = [0, 1/4, 1/2, 3/4, 1] := by norm_num [densify]

end C05
