import NurbsVerif.Model.Knots2
import NurbsVerif.Lemmas.InsertModel
import NurbsVerif.Lemmas.InsertAll
import NurbsVerif.Lemmas.RefineObj
import NurbsVerif.Lemmas.RefineDyadic
import NurbsVerif.Lemmas.VolRefineObj
import NurbsVerif.Lemmas.InsertObjExamples
import NurbsVerif.Lemmas.A54Helper
import NurbsVerif.Lemmas.A54Kv2
import NurbsVerif.Lemmas.KnotRowsRefineVol
import NurbsVerif.Lemmas.UniqueRemove
import NurbsVerif.Lemmas.RefineCodedObj
import NurbsVerif.Lemmas.RefineCurveObj

/-!
# C05  Knot refinement never changes the shape

The executable model of `helpers.knot_refinement` is specification-level: the list `X` of knots the
code computes (default knot list, `density` bisection rounds, `p - s` copies each) inserted one at a
time with the model of A5.1, whose shape preservation is C04's theorem.
-/
namespace C05
open Geomdl
variable {K : Type} [Field K] [LinearOrder K] [IsStrictOrderedRing K]

/-- one density round keeps every listed knot and puts exactly one new value between neighbours -/
theorem densify_length : ∀ (l : List K), l ≠ [] → (densify l).length = 2 * l.length - 1
  | [], h => absurd rfl h
  | [a], _ => by simp [densify]
  | a :: b :: rest, _ => by
      have ih := densify_length (b :: rest) (by simp)
      simp only [densify, List.length_cons] at ih ⊢
      omega

/-- … the new value is the midpoint … -/
theorem densify_even_odd : ∀ (l : List K) (i : ℕ), i + 1 < l.length →
    (densify l).getD (2 * i) 0 = l.getD i 0 ∧
    (densify l).getD (2 * i + 1) 0 = l.getD i 0 + (l.getD (i+1) 0 - l.getD i 0) / (1 + 1)
  | a :: b :: rest, 0, _ => by simp [densify]
  | a :: b :: rest, i+1, h => by
      have ih := densify_even_odd (b :: rest) i (by simpa using h)
      have e1 : 2 * (i + 1) = (2 * i) + 1 + 1 := by ring
      have e2 : 2 * (i + 1) + 1 = (2 * i + 1) + 1 + 1 := by ring
      simp only [densify, e1, e2, List.getD_cons_succ]
      exact ih
  | [], i, h => by simp at h
  | [a], i, h => by simp at h

/-- … and it lies strictly between its neighbours when they are distinct and ordered. -/
theorem midpoint_between (a b : K) (h : a < b) : a < a + (b - a) / (1 + 1) ∧ a + (b - a) / (1 + 1) < b := by
  have h2 : (0:K) < 1 + 1 := by norm_num
  constructor
  · have : 0 < (b - a) / (1 + 1) := div_pos (by linarith) h2
    linarith
  · have : (b - a) / (1 + 1) < b - a := by
      rw [div_lt_iff₀ h2]; nlinarith
    linarith

/-- every knot to be refined is inserted exactly `p - s` times (`s` its multiplicity in `U`)
    (Unfolding lemma (`rfl`): it displays the definition of the model in readable form.) -/
theorem refineX_eq (p : ℕ) (U : List K) (density : ℕ) (tol : K) :
    refineX p U density tol
      = (iterate densify density (sortDedup ((U.drop p).take (U.length - 2 * p)))).flatMap
          (fun mk => List.replicate (p - findMultiplicity mk U tol) mk) := rfl

/-- the refinement model IS the left fold of single knot insertions over `X` …
    (Unfolding lemma: the model `knotRefinement` is DEFINED as this fold (the literal A5.4 loop is the separate model `refineA54`, tied to it by `refineA54_eq_insert_fold`).) -/
theorem knotRefinement_is_insert_fold (p : ℕ) (U : List K) (P : List (List K)) (d : ℕ) (tol : K)
    (h : (refineX p U d tol).isEmpty = false) :
    knotRefinement p U P d tol = some ((refineX p U d tol).foldl (insertOne p tol) (U, P)) := by
  unfold knotRefinement
  simp [h]

/-- … each of which grows the knot vector and the control polygon by exactly one, so the result has
    `|X|` more knots and control points. -/
theorem insert_fold_lengths (p : ℕ) (tol : K) (X : List K) : ∀ (U : List K) (P : List (List K)),
    ((X.foldl (insertOne p tol) (U, P)).1.length = U.length + X.length) ∧
    ((X.foldl (insertOne p tol) (U, P)).2.length = P.length + X.length) := by
  induction X with
  | nil => intro U P; simp
  | cons x xs ih =>
    intro U P
    simp only [List.foldl_cons, List.length_cons]
    obtain ⟨h1, h2⟩ := ih (insertOne p tol (U, P) x).1 (insertOne p tol (U, P) x).2
    constructor
    · rw [h1]; simp only [insertOne, knotInsertionKv, List.length_append, List.length_take, List.length_replicate, List.length_drop]; omega
    · rw [h2]; simp only [insertOne, knotInsertion_length]; omega

/-- **Refinement never changes the shape (curves).**  The model of `helpers.knot_refinement` is the fold
    of `insertOne` over `X`; if every knot of `X` is admissible when its turn comes (`RefineOk`: inside
    the domain, multiplicity as the library computes it, below the degree) then every point of a
    well-formed curve is unchanged, for every parameter of the domain and every coordinate. -/
theorem refine_preserves_curve (p d : ℕ) (tol : K) (X : List K) (st : List K × List (List K))
    (hwf : CurveWF p d st.1 st.2) (hok : RefineOk p tol st X) (u : K)
    (hlo : fnOf st.1 p ≤ u) (hhi : u ≤ fnOf st.1 st.2.length) (j : ℕ) :
    (curvePoint p (fnOf (X.foldl (insertOne p tol) st).1) (X.foldl (insertOne p tol) st).2 u).getD j 0
      = (curvePoint p (fnOf st.1) st.2 u).getD j 0 :=
  refine_fold_preserves_curve p d tol X st hwf hok u hlo hhi j

/-- non-vacuity -/
example : densify ([0, 1/2, 1] : List ℚ) = [0, 1/4, 1/2, 3/4, 1] := by norm_num [densify]

/-! ## (A) the admissibility predicate discharged; the unconditional curve theorem

Hypotheses used throughout (all explicit and decidable on concrete input):
* `CurveWF p d U P` – sorted knots of the right number, enough control points of one dimension, last
  span non-empty;
* `hend` – the knot vector is clamped at the END of the domain (the entries from index `n = |P|` on
  are equal; `clampedEnd_of_drop` gives the decidable form).  The library's default list `U[p:-p]`
  contains the end knot `U_n`; only its multiplicity `≥ p` keeps it out of `X`;
* `0 ≤ tol` and `SepBy tol (U ++ refineKnots p U density)` – any two of the old knots and the
  bisection knots are equal or further apart than the tolerance of `find_multiplicity`, so that the
  multiplicity the library computes is the exact number of occurrences. -/

/-- **`RefineOk` from counting, in any order.**  In a well-formed state whose knots, together with the
    knots to insert, are tolerance separated: if every listed knot lies in `[U_p, U_n)` and its
    multiplicity stays `≤ p` after ALL listed copies are in, then every single insertion of the fold is
    admissible (inside the domain, multiplicity as the library computes it, below the degree). -/
theorem refine_admissible_of_counts (p d : ℕ) (tol : K) (h0 : 0 ≤ tol) (S : List K) (hS : SepBy tol S)
    (X : List K) (st : List K × List (List K)) (hwf : CurveWF p d st.1 st.2)
    (hU : ∀ a ∈ st.1, a ∈ S) (hX : ∀ a ∈ X, a ∈ S)
    (hdom : ∀ x ∈ X, fnOf st.1 p ≤ x ∧ x < fnOf st.1 st.2.length)
    (hcnt : ∀ x ∈ X, st.1.count x + X.count x ≤ p) : RefineOk p tol st X :=
  refineOk_of_counts p d tol h0 S hS X st hwf hU hX hdom hcnt

/-- **The list `X` the library generates is admissible** (any density): the hypothesis `RefineOk` of
    `refine_preserves_curve` holds for `X = refineX p U density tol`. -/
theorem refineX_admissible (p d : ℕ) (U : List K) (P : List (List K)) (density : ℕ) (tol : K)
    (hwf : CurveWF p d U P) (hend : ∀ i, P.length ≤ i → fnOf U i = fnOf U P.length)
    (h0 : 0 ≤ tol) (hsep : SepBy tol (U ++ refineKnots p U density)) :
    RefineOk p tol (U, P) (refineX p U density tol) :=
  refineX_ok p d U P density tol hwf hend h0 hsep

/-- **Refinement never changes the shape (curves, unconditional, any density).**  Whatever
    `knot_refinement` returns for a well-formed curve with clamped end and tolerance-separated knots
    evaluates, at every parameter of the domain (both ends included) and in every coordinate, to the
    same point as the original. -/
theorem knotRefinement_preserves_curve (p d : ℕ) (U : List K) (P : List (List K)) (density : ℕ) (tol : K)
    (hwf : CurveWF p d U P) (hend : ∀ i, P.length ≤ i → fnOf U i = fnOf U P.length)
    (h0 : 0 ≤ tol) (hsep : SepBy tol (U ++ refineKnots p U density))
    (U' : List K) (P' : List (List K)) (h : knotRefinement p U P density tol = some (U', P'))
    (u : K) (hlo : fnOf U p ≤ u) (hhi : u ≤ fnOf U P.length) (j : ℕ) :
    (curvePoint p (fnOf U') P' u).getD j 0 = (curvePoint p (fnOf U) P u).getD j 0 :=
  knotRefinement_preserves_curve' p d U P density tol hwf hend h0 hsep U' P' h u hlo hhi j

/-- The same for the helper-level call with explicit `knot_list` / `add_knot_list` whose values lie in
    the domain (`baseList` is the merged list, `genKnots` its `sorted(set(·))` after the density loop). -/
theorem knotRefinementOf_preserves_curve (p d : ℕ) (U : List K) (P : List (List K)) (kl : Option (List K))
    (add : List K) (density : ℕ) (tol : K)
    (hwf : CurveWF p d U P) (hend : ∀ i, P.length ≤ i → fnOf U i = fnOf U P.length)
    (hkl : ∀ l, kl = some l → ∀ a ∈ l, fnOf U p ≤ a ∧ a ≤ fnOf U P.length)
    (hadd : ∀ a ∈ add, fnOf U p ≤ a ∧ a ≤ fnOf U P.length)
    (h0 : 0 ≤ tol) (hsep : SepBy tol (U ++ genKnots (baseList p U kl add) density))
    (U' : List K) (P' : List (List K)) (h : knotRefinementOf p U P kl add density tol = some (U', P'))
    (u : K) (hlo : fnOf U p ≤ u) (hhi : u ≤ fnOf U P.length) (j : ℕ) :
    (curvePoint p (fnOf U') P' u).getD j 0 = (curvePoint p (fnOf U) P u).getD j 0 :=
  knotRefinementOf_preserves_curve' p d U P kl add density tol hwf hend hkl hadd h0 hsep U' P' h u hlo hhi j

/-! ## (B) the knot vector after refinement -/

/-- the bisected knot list (`density` rounds over `sorted(set(U[p:-p]))`) is strictly increasing -/
theorem refineKnots_strictly_sorted (p : ℕ) (U : List K) (density : ℕ) :
    (iterate densify density (sortDedup ((U.drop p).take (U.length - 2 * p)))).Pairwise (· < ·) :=
  refineKnots_sorted p U density

/-- `sorted(set(l))` is strictly increasing and has exactly the members of `l` -/
theorem sortDedup_spec (l : List K) : (sortDedup l).Pairwise (· < ·) ∧ ∀ y, y ∈ sortDedup l ↔ y ∈ l :=
  ⟨sortDedup_sorted l, mem_sortDedup l⟩

/-- **The refined curve is well formed again**: its knot vector is sorted and has the right length
    for the new control polygon, all points keep their dimension, and the domain ends are unchanged. -/
theorem refined_curve_wellformed (p d : ℕ) (U : List K) (P : List (List K)) (density : ℕ) (tol : K)
    (hwf : CurveWF p d U P) (hend : ∀ i, P.length ≤ i → fnOf U i = fnOf U P.length)
    (h0 : 0 ≤ tol) (hsep : SepBy tol (U ++ refineKnots p U density))
    (U' : List K) (P' : List (List K)) (h : knotRefinement p U P density tol = some (U', P')) :
    CurveWF p d U' P' ∧ fnOf U' p = fnOf U p ∧ fnOf U' P'.length = fnOf U P.length :=
  knotRefinement_wf p d U P density tol hwf hend h0 hsep U' P' h

/-- The new knot vector is, as a multiset, the old one plus the list `X` (with the previous theorem:
    it is the sorted merge of the two) … -/
theorem refined_kv_is_old_plus_X (p : ℕ) (U : List K) (P : List (List K)) (density : ℕ) (tol : K)
    (U' : List K) (P' : List (List K)) (h : knotRefinement p U P density tol = some (U', P')) :
    U'.Perm (refineX p U density tol ++ U) :=
  knotRefinement_perm p U P density tol U' P' h

/-- … so it has `|X|` more entries, and so has the control polygon; `X` is not empty and `1 ≤ p`. -/
theorem refined_lengths (p : ℕ) (U : List K) (P : List (List K)) (density : ℕ) (tol : K)
    (U' : List K) (P' : List (List K)) (h : knotRefinement p U P density tol = some (U', P')) :
    U'.length = U.length + (refineX p U density tol).length ∧
    P'.length = P.length + (refineX p U density tol).length ∧ refineX p U density tol ≠ [] ∧ 1 ≤ p :=
  ⟨(knotRefinement_lengths p U P density tol U' P' h).1, (knotRefinement_lengths p U P density tol U' P' h).2,
   (knotRefinement_some p U P density tol U' P' h).1, (knotRefinement_some p U P density tol U' P' h).2.1⟩

/-- **Multiplicities after refinement**: every knot of the bisected list occurs exactly
    `max p (old multiplicity)` times (so `p` times unless it already had more – the clamped ends), every
    other value keeps its number of occurrences. -/
theorem refined_kv_count (p d : ℕ) (U : List K) (P : List (List K)) (density : ℕ) (tol : K)
    (hwf : CurveWF p d U P) (hend : ∀ i, P.length ≤ i → fnOf U i = fnOf U P.length)
    (h0 : 0 ≤ tol) (hsep : SepBy tol (U ++ refineKnots p U density))
    (U' : List K) (P' : List (List K)) (h : knotRefinement p U P density tol = some (U', P')) (y : K) :
    U'.count y = if y ∈ refineKnots p U density then max p (U.count y) else U.count y :=
  knotRefinement_count p d U P density tol hwf hend h0 hsep U' P' h y

/-- **Every interior knot of the result has multiplicity exactly the degree** – as a number of
    occurrences and as `find_multiplicity` computes it – provided it did not exceed the degree before. -/
theorem refined_interior_multiplicity_eq_degree (p d : ℕ) (U : List K) (P : List (List K)) (density : ℕ) (tol : K)
    (hwf : CurveWF p d U P) (hend : ∀ i, P.length ≤ i → fnOf U i = fnOf U P.length)
    (h0 : 0 ≤ tol) (hsep : SepBy tol (U ++ refineKnots p U density))
    (U' : List K) (P' : List (List K)) (h : knotRefinement p U P density tol = some (U', P'))
    (y : K) (hy : y ∈ U') (h1 : fnOf U p < y) (h2 : y < fnOf U P.length) (hmul : U.count y ≤ p) :
    U'.count y = p ∧ findMultiplicity y U' tol = p :=
  knotRefinement_interior p d U P density tol hwf hend h0 hsep U' P' h y hy h1 h2 hmul

/-- **The distinct domain knots of the result are exactly the `density`-fold bisection of the distinct
    domain knots of the original** (`densify_length`, `densify_even_odd`, `midpoint_between` say what
    one round does: every interval gets its midpoint). -/
theorem refined_domain_knots (p d : ℕ) (U : List K) (P : List (List K)) (density : ℕ) (tol : K)
    (hwf : CurveWF p d U P) (hend : ∀ i, P.length ≤ i → fnOf U i = fnOf U P.length)
    (h0 : 0 ≤ tol) (hsep : SepBy tol (U ++ refineKnots p U density))
    (U' : List K) (P' : List (List K)) (h : knotRefinement p U P density tol = some (U', P')) :
    sortDedup ((U'.drop p).take (U'.length - 2 * p))
      = iterate densify density (sortDedup ((U.drop p).take (U.length - 2 * p))) :=
  knotRefinement_domainKnots p d U P density tol hwf hend h0 hsep U' P' h

/-- after `d` density rounds a list of `m` values has `2^d (m - 1) + 1` values … -/
theorem density_loop_length (d : ℕ) (l : List K) (h : l ≠ []) :
    (iterate densify d l).length = 2 ^ d * (l.length - 1) + 1 :=
  iterate_densify_length d l h

/-- … **every interval of the original list has been bisected `d` times**: entry `2^d·i + r`
    (`0 ≤ r ≤ 2^d`) is `l_i + (l_{i+1} - l_i)·r / 2^d`; in particular (`r = 0`) the original values
    are kept, at the positions `2^d·i`. -/
theorem density_loop_closed_form (d : ℕ) (l : List K) (i r : ℕ) (hi : i + 1 < l.length) (hr : r ≤ 2 ^ d) :
    (iterate densify d l).getD (2 ^ d * i + r) 0
      = l.getD i 0 + (l.getD (i+1) 0 - l.getD i 0) * (r : K) / (2 : K) ^ d :=
  iterate_densify_getD d l i r hi hr

example : iterate densify 2 ([0, 1/2, 1] : List ℚ) = [0, 1/8, 1/4, 3/8, 1/2, 5/8, 3/4, 7/8, 1] := by decide +kernel

/-! ## (C) unselected directions -/

/-- **A direction with density 0 is untouched** by `refine_knotvector` (its knot vector and its size;
    degrees and the rational flag never change), for objects of any dimension. -/
theorem refineKnotvector_unselected (S : Shape K) (dens : List ℕ) (tol : K) (d' : ℕ) (h : dens.getD d' 0 = 0) :
    (refineKnotvector S dens tol).1.degs = S.degs ∧ (refineKnotvector S dens tol).1.rat = S.rat ∧
    (refineKnotvector S dens tol).1.kv d' = S.kv d' ∧ (refineKnotvector S dens tol).1.size d' = S.size d' :=
  refineKnotvector_unselected' S dens tol d' h

/-- **No direction selected: the object is returned unchanged** (net included). -/
theorem refineKnotvector_none_selected (S : Shape K) (dens : List ℕ) (tol : K)
    (h : ∀ d, d < S.pdim → dens.getD d 0 = 0) : refineKnotvector S dens tol = (S, true) :=
  refineKnotvector_none' S dens tol h

/-- One direction step changes only that direction (knot vector, size) and the net. -/
theorem refineDir_other_directions (S : Shape K) (dir density : ℕ) (tol : K) (S' : Shape K)
    (h : refineDir S dir density tol = some S') :
    S'.degs = S.degs ∧ S'.rat = S.rat ∧ ∀ d', d' ≠ dir → S'.kv d' = S.kv d' ∧ S'.size d' = S.size d' :=
  refineDir_other S dir density tol S' h

/-! ## (D) objects: curves and surfaces -/

/-- On a curve object the direction step of `refine_knotvector` IS the helper-level refinement, so
    `knotRefinement_preserves_curve` and the (B) theorems apply to it. -/
theorem refineDir_curve_is_helper (S : Shape K) (h1 : S.degs.length = 1) (hsize : S.size 0 = S.net.length)
    (density : ℕ) (tol : K) :
    refineDir S 0 density tol = (knotRefinement (S.deg 0) (S.kv 0) S.net density tol).map
      (fun r => { S with kvs := S.kvs.set 0 r.1, sizes := S.sizes.set 0 r.2.length, net := r.2 }) :=
  refineDir_curve S h1 hsize density tol

/-- **Surfaces, v direction** (`refineDir … 1`): every row (iso-curve `u = const`) goes through the
    fold of insertions; the result is a well-formed surface, direction 0 is untouched, the domain of
    direction 1 is the same and every surface point – spans found by the library's search – is
    unchanged in every coordinate. -/
theorem refineDir_v_preserves_surface (d : ℕ) (S : Shape K) (hS : SurfWF d S) (density : ℕ) (tol : K)
    (hend : ∀ i, S.size 1 ≤ i → fnOf (S.kv 1) i = fnOf (S.kv 1) (S.size 1)) (h0 : 0 ≤ tol)
    (hsep : SepBy tol (S.kv 1 ++ refineKnots (S.deg 1) (S.kv 1) density))
    (S' : Shape K) (h : refineDir S 1 density tol = some S') :
    SurfWF d S' ∧ S'.degs = S.degs ∧ S'.kv 0 = S.kv 0 ∧ S'.size 0 = S.size 0 ∧
    S'.size 1 = S.size 1 + (refineX (S.deg 1) (S.kv 1) density tol).length ∧
    fnOf (S'.kv 1) (S'.deg 1) = fnOf (S.kv 1) (S.deg 1) ∧ fnOf (S'.kv 1) (S'.size 1) = fnOf (S.kv 1) (S.size 1) ∧
    ∀ (u v : K), fnOf (S.kv 0) (S.deg 0) ≤ u → fnOf (S.kv 1) (S.deg 1) ≤ v → v ≤ fnOf (S.kv 1) (S.size 1) → ∀ j,
      (surfacePoint (S'.deg 0) (S'.deg 1) (fnOf (S'.kv 0)) (fnOf (S'.kv 1)) (S'.size 0) (S'.size 1) S'.net u v).getD j 0
        = (surfacePoint (S.deg 0) (S.deg 1) (fnOf (S.kv 0)) (fnOf (S.kv 1)) (S.size 0) (S.size 1) S.net u v).getD j 0 :=
  refineDir_v_surface d S hS density tol hend h0 hsep S' h

/-- **Surfaces, u direction** (`refineDir … 0`): every column (iso-curve `v = const`) is refined and
    scattered back into the layout `v + sv·u`. -/
theorem refineDir_u_preserves_surface (d : ℕ) (S : Shape K) (hS : SurfWF d S) (density : ℕ) (tol : K)
    (hend : ∀ i, S.size 0 ≤ i → fnOf (S.kv 0) i = fnOf (S.kv 0) (S.size 0)) (h0 : 0 ≤ tol)
    (hsep : SepBy tol (S.kv 0 ++ refineKnots (S.deg 0) (S.kv 0) density))
    (S' : Shape K) (h : refineDir S 0 density tol = some S') :
    SurfWF d S' ∧ S'.degs = S.degs ∧ S'.kv 1 = S.kv 1 ∧ S'.size 1 = S.size 1 ∧
    S'.size 0 = S.size 0 + (refineX (S.deg 0) (S.kv 0) density tol).length ∧
    fnOf (S'.kv 0) (S'.deg 0) = fnOf (S.kv 0) (S.deg 0) ∧ fnOf (S'.kv 0) (S'.size 0) = fnOf (S.kv 0) (S.size 0) ∧
    ∀ (u v : K), fnOf (S.kv 0) (S.deg 0) ≤ u → u ≤ fnOf (S.kv 0) (S.size 0) → fnOf (S.kv 1) (S.deg 1) ≤ v → ∀ j,
      (surfacePoint (S'.deg 0) (S'.deg 1) (fnOf (S'.kv 0)) (fnOf (S'.kv 1)) (S'.size 0) (S'.size 1) S'.net u v).getD j 0
        = (surfacePoint (S.deg 0) (S.deg 1) (fnOf (S.kv 0)) (fnOf (S.kv 1)) (S.size 0) (S.size 1) S.net u v).getD j 0 :=
  refineDir_u_surface d S hS density tol hend h0 hsep S' h

/-- **`refine_knotvector` on a surface – any subset of the two directions, any densities – leaves
    every evaluated point unchanged**; the result is a well-formed surface over the same domain
    (`SurfSame`), whether or not the call completed.  `DirHyp S dir density tol` = clamped end and
    tolerance separation for direction `dir`, required only for the selected directions. -/
theorem refineKnotvector_preserves_surface (d : ℕ) (S : Shape K) (hS : SurfWF d S) (dens : List ℕ) (tol : K)
    (h0 : 0 ≤ tol) (_hlen : dens.length = S.pdim)
    (hd0 : dens.getD 0 0 ≠ 0 → DirHyp S 0 (dens.getD 0 0) tol)
    (hd1 : dens.getD 1 0 ≠ 0 → DirHyp S 1 (dens.getD 1 0) tol)
    (u v : K) (hu1 : fnOf (S.kv 0) (S.deg 0) ≤ u) (hu2 : u ≤ fnOf (S.kv 0) (S.size 0))
    (hv1 : fnOf (S.kv 1) (S.deg 1) ≤ v) (hv2 : v ≤ fnOf (S.kv 1) (S.size 1)) (j : ℕ) :
    SurfWF d (refineKnotvector S dens tol).1 ∧
    (surfacePoint ((refineKnotvector S dens tol).1.deg 0) ((refineKnotvector S dens tol).1.deg 1)
        (fnOf ((refineKnotvector S dens tol).1.kv 0)) (fnOf ((refineKnotvector S dens tol).1.kv 1))
        ((refineKnotvector S dens tol).1.size 0) ((refineKnotvector S dens tol).1.size 1)
        (refineKnotvector S dens tol).1.net u v).getD j 0
      = (surfacePoint (S.deg 0) (S.deg 1) (fnOf (S.kv 0)) (fnOf (S.kv 1)) (S.size 0) (S.size 1) S.net u v).getD j 0 :=
  ⟨(refineKnotvector_surface' d S hS dens tol h0 hd0 hd1).wf,
   (refineKnotvector_surface' d S hS dens tol h0 hd0 hd1).eval u v hu1 hu2 hv1 hv2 j⟩

/-! ### non-vacuity of the new hypotheses -/

/-- a quadratic with one interior knot: well formed, clamped end, knots separated by 1e-7 … -/
example : CurveWF 2 2 ([0,0,0,1/2,1,1,1] : List ℚ) [[0,0],[1,2],[2,0],[3,1]] where
  mono := mono_of_pairwise _ (by decide +kernel)
  len := by simp
  pn := by simp
  last := by decide +kernel
  net := by intro pt hpt; simp at hpt; rcases hpt with h | h | h | h <;> simp [h]

example : ∀ i, ([[0,0],[1,2],[2,0],[3,1]] : List (List ℚ)).length ≤ i →
    fnOf ([0,0,0,1/2,1,1,1] : List ℚ) i = fnOf ([0,0,0,1/2,1,1,1] : List ℚ) ([[0,0],[1,2],[2,0],[3,1]] : List (List ℚ)).length :=
  clampedEnd_of_drop _ _ (by simp) (by decide +kernel)

example : SepBy (1/10000000 : ℚ) (([0,0,0,1/2,1,1,1] : List ℚ) ++ refineKnots 2 [0,0,0,1/2,1,1,1] 2) := by
  unfold SepBy; decide +kernel

/-- … is refined (density 1) to knots 0,0,0,¼,¼,½,½,¾,¾,1,1,1 -/
example : (knotRefinement 2 ([0,0,0,1/2,1,1,1] : List ℚ) [[0,0],[1,2],[2,0],[3,1]] 1 (1/10000000)).map (·.1)
    = some [0,0,0,1/4,1/4,1/2,1/2,3/4,3/4,1,1,1] := by decide +kernel

/-- a bilinear-by-quadratic surface (used only in the non-vacuity examples below) -/
def exSurf : Shape ℚ where
  rat := false
  degs := [1, 2]
  kvs := [[0,0,1,1], [0,0,0,1/2,1,1,1]]
  sizes := [2, 4]
  net := [[0,0,0],[0,1,1],[0,2,0],[0,3,1],[1,0,0],[1,1,2],[1,2,0],[1,3,1]]

/-- it satisfies the hypotheses of the surface theorems in both directions -/
example : SurfWF 3 exSurf where
  degs := rfl
  kvs := rfl
  sizes := rfl
  netlen := rfl
  net := by intro pt hpt; simp [exSurf] at hpt; rcases hpt with h | h | h | h | h | h | h | h <;> simp [h]
  dir0 := ⟨mono_of_pairwise _ (by decide +kernel), rfl, by decide, by decide +kernel⟩
  dir1 := ⟨mono_of_pairwise _ (by decide +kernel), rfl, by decide, by decide +kernel⟩

example : DirHyp exSurf 1 1 (1/10000000) :=
  ⟨clampedEnd_of_drop _ _ (by decide) (by decide +kernel), by unfold SepBy; decide +kernel⟩

example : DirHyp exSurf 0 2 (1/10000000) :=
  ⟨clampedEnd_of_drop _ _ (by decide) (by decide +kernel), by unfold SepBy; decide +kernel⟩

/-- and both directions are refined by `refine_knotvector` -/
example : (refineKnotvector exSurf [2, 1] (1/10000000)).2 = true ∧
    (refineKnotvector exSurf [2, 1] (1/10000000)).1.kvs
      = [[0,0,1/4,1/2,3/4,1,1], [0,0,0,1/4,1/4,1/2,1/2,3/4,3/4,1,1,1]] := by decide +kernel

/-! ## (E) volumes

`VolWF d S`: three directions, each with a well-formed knot vector (sorted, right length, enough
control points, non-empty last span), net of `su·sv·sw` points of dimension `d` in the layout
`v + sv·(u + su·w)`.  `refineDir` / `refine_knotvector` gather every iso-curve of the refined
direction (`mapVol`), refine it and scatter it back. -/

/-- **Volumes, any one direction** (`refineDir … dir`, `dir = 0, 1, 2` for u, v, w): the result is a
    well-formed volume, the other two directions are untouched, the refined direction has `|X|` more
    control points and the same domain, and EVERY volume point – spans found by the library's search in
    all three directions, every parameter triple of the domain (ends included), every coordinate – is
    unchanged. -/
theorem refineDir_preserves_volume (d : ℕ) (S : Shape K) (hS : VolWF d S) (dir : ℕ) (hdir : dir < 3)
    (density : ℕ) (tol : K) (h0 : 0 ≤ tol)
    (hend : ∀ i, S.size dir ≤ i → fnOf (S.kv dir) i = fnOf (S.kv dir) (S.size dir))
    (hsep : SepBy tol (S.kv dir ++ refineKnots (S.deg dir) (S.kv dir) density))
    (S' : Shape K) (h : refineDir S dir density tol = some S') :
    VolWF d S' ∧ S'.degs = S.degs ∧ (∀ d', d' ≠ dir → S'.kv d' = S.kv d' ∧ S'.size d' = S.size d') ∧
    S'.size dir = S.size dir + (refineX (S.deg dir) (S.kv dir) density tol).length ∧
    (∀ i, i < 3 → fnOf (S'.kv i) (S'.deg i) = fnOf (S.kv i) (S.deg i) ∧ fnOf (S'.kv i) (S'.size i) = fnOf (S.kv i) (S.size i)) ∧
    ∀ (u v w : K), fnOf (S.kv 0) (S.deg 0) ≤ u → u ≤ fnOf (S.kv 0) (S.size 0) →
      fnOf (S.kv 1) (S.deg 1) ≤ v → v ≤ fnOf (S.kv 1) (S.size 1) →
      fnOf (S.kv 2) (S.deg 2) ≤ w → w ≤ fnOf (S.kv 2) (S.size 2) → ∀ j,
      (volumePoint (S'.deg 0) (S'.deg 1) (S'.deg 2) (fnOf (S'.kv 0)) (fnOf (S'.kv 1)) (fnOf (S'.kv 2))
          (S'.size 0) (S'.size 1) (S'.size 2) S'.net u v w).getD j 0
        = (volumePoint (S.deg 0) (S.deg 1) (S.deg 2) (fnOf (S.kv 0)) (fnOf (S.kv 1)) (fnOf (S.kv 2))
          (S.size 0) (S.size 1) (S.size 2) S.net u v w).getD j 0 :=
  let r := refineDir_volume d S hS dir hdir density tol h0 ⟨hend, hsep⟩ S' h
  ⟨r.1.wf, r.2.1, r.2.2.2.1, r.2.2.2.2, r.1.ends, r.1.eval⟩

/-- **`refine_knotvector` on a volume – any subset of the three directions, any densities – leaves
    every evaluated point unchanged**; the result is a well-formed volume over the same domain with the
    same degrees, whether or not the call completed.  `DirHyp S dir density tol` (clamped end and
    tolerance separation for direction `dir`) is required only for the selected directions, and is
    stated on the ORIGINAL object. -/
theorem refineKnotvector_preserves_volume (d : ℕ) (S : Shape K) (hS : VolWF d S) (dens : List ℕ) (tol : K)
    (h0 : 0 ≤ tol) (_hlen : dens.length = S.pdim)
    (hd : ∀ dir, dir < 3 → dens.getD dir 0 ≠ 0 → DirHyp S dir (dens.getD dir 0) tol)
    (u v w : K) (hu1 : fnOf (S.kv 0) (S.deg 0) ≤ u) (hu2 : u ≤ fnOf (S.kv 0) (S.size 0))
    (hv1 : fnOf (S.kv 1) (S.deg 1) ≤ v) (hv2 : v ≤ fnOf (S.kv 1) (S.size 1))
    (hw1 : fnOf (S.kv 2) (S.deg 2) ≤ w) (hw2 : w ≤ fnOf (S.kv 2) (S.size 2)) (j : ℕ) :
    VolWF d (refineKnotvector S dens tol).1 ∧ (refineKnotvector S dens tol).1.degs = S.degs ∧
    (∀ i, i < 3 →
      fnOf ((refineKnotvector S dens tol).1.kv i) ((refineKnotvector S dens tol).1.deg i) = fnOf (S.kv i) (S.deg i) ∧
      fnOf ((refineKnotvector S dens tol).1.kv i) ((refineKnotvector S dens tol).1.size i) = fnOf (S.kv i) (S.size i)) ∧
    (volumePoint ((refineKnotvector S dens tol).1.deg 0) ((refineKnotvector S dens tol).1.deg 1)
        ((refineKnotvector S dens tol).1.deg 2)
        (fnOf ((refineKnotvector S dens tol).1.kv 0)) (fnOf ((refineKnotvector S dens tol).1.kv 1))
        (fnOf ((refineKnotvector S dens tol).1.kv 2))
        ((refineKnotvector S dens tol).1.size 0) ((refineKnotvector S dens tol).1.size 1)
        ((refineKnotvector S dens tol).1.size 2) (refineKnotvector S dens tol).1.net u v w).getD j 0
      = (volumePoint (S.deg 0) (S.deg 1) (S.deg 2) (fnOf (S.kv 0)) (fnOf (S.kv 1)) (fnOf (S.kv 2))
          (S.size 0) (S.size 1) (S.size 2) S.net u v w).getD j 0 :=
  let r := refineKnotvector_volume' d S hS dens tol h0 hd
  ⟨r.1.wf, r.2.1, r.1.ends, r.1.eval u v w hu1 hu2 hv1 hv2 hw1 hw2 j⟩

/-! ### non-vacuity of the volume hypotheses -/

/-- a volume of degrees (1, 1, 2) and sizes 2 × 2 × 4 satisfies `VolWF` … -/
example : VolWF 3 exVolQ := exVolQ_wf

/-- … and the direction hypotheses in all three directions … -/
example : DirHyp exVolQ 0 1 (1/10000000) :=
  ⟨clampedEnd_of_drop _ _ (by decide) (by decide +kernel), by unfold SepBy; decide +kernel⟩
example : DirHyp exVolQ 1 2 (1/10000000) :=
  ⟨clampedEnd_of_drop _ _ (by decide) (by decide +kernel), by unfold SepBy; decide +kernel⟩
example : DirHyp exVolQ 2 1 (1/10000000) :=
  ⟨clampedEnd_of_drop _ _ (by decide) (by decide +kernel), by unfold SepBy; decide +kernel⟩

/-- … and `refine_knotvector` refines all three directions of it -/
example : (refineKnotvector exVolQ [1, 1, 1] (1/10000000)).2 = true ∧
    (refineKnotvector exVolQ [1, 1, 1] (1/10000000)).1.kvs
      = [[0,0,1/2,1,1], [0,0,1/2,1,1], [0,0,0,1/4,1/4,1/2,1/2,3/4,3/4,1,1,1]] ∧
    (refineKnotvector exVolQ [1, 1, 1] (1/10000000)).1.sizes = [3, 3, 9] := by decide +kernel

/-! ## (F) A5.4 AS CODED (`refineA54`: the literal transcription of the loops of `helpers.knot_refinement`)

`refineA54 p U P X tol` transcribes everything the code does after the list `X` has been computed: the
spans `a`, `b`, the initial copies into `new_ctrlpts` / `new_kv`, the `while j >= 0` loop with the
shifting `while`, the `for l` blends and the `abs(alpha) < tol` branch.  `knotRefinementA54` is the whole
call (`X` as the code computes it, then `refineA54`).  Both are run against the real function by the
correspondence check (`refa54`, `refa54h`).  Hypotheses on `X` (all decidable on concrete input):
non-empty, sorted, every knot in `[U_p, U_n)`, old knots and `X` tolerance separated, no knot of `X`
exceeds multiplicity `p` once all its copies are in. -/

/-- **Every pass of the outer loop of A5.4 is ONE knot insertion**: the work arrays, read across the gap
    that moves to the left, always hold the curve obtained by inserting the knots processed so far, so
    A5.4 as coded returns (knot vector and control points) the fold of single library insertions
    (`insertOne`: span by `find_span_linear`, multiplicity by `find_multiplicity`, A5.1 with `num = 1`)
    over `X` in DESCENDING order. -/
theorem refineA54_is_descending_insert_fold (p d : ℕ) (U : List K) (P : List (List K)) (X : List K) (tol : K)
    (hwf : CurveWF p d U P) (hX : X ≠ []) (hsort : X.Pairwise (· ≤ ·))
    (hdom : ∀ x ∈ X, fnOf U p ≤ x ∧ x < fnOf U P.length) (h0 : 0 ≤ tol) (hsep : SepBy tol (U ++ X))
    (hcnt : ∀ x ∈ X, U.count x + X.count x ≤ p) :
    refineA54 p U P X tol = X.reverse.foldl (insertOne p tol) (U, P) :=
  refineA54_eq_desc_fold p d U P X tol hwf hX hsort hdom h0 hsep hcnt

/-- **The knot vector A5.4 returns (`new_kv`) is the sorted merge of `U` and `X`**: it is sorted, as a
    multiset the old knots plus `X`, and equal to the knot vector of the specification-level model (the
    fold of insertions in ascending order) – for every sorted knot vector of the right length and every
    non-empty sorted list `X` inside `[U_p, U_n)`; no hypothesis on multiplicities, tolerance or control
    points. -/
theorem refineA54_knot_vector (p : ℕ) (U : List K) (P : List (List K)) (X : List K) (tol : K)
    (hm : Monotone (fnOf U)) (hlen : U.length = P.length + p + 1) (hpn : p + 1 ≤ P.length) (hX : X ≠ [])
    (hsort : X.Pairwise (· ≤ ·)) (hdom : ∀ x ∈ X, fnOf U p ≤ x ∧ x < fnOf U P.length) :
    (refineA54 p U P X tol).1 = (X.foldl (insertOne p tol) (U, P)).1 ∧
    (refineA54 p U P X tol).1.Pairwise (· ≤ ·) ∧ (refineA54 p U P X tol).1.Perm (X ++ U) :=
  refineA54_kv_weak p U P X tol hm hlen hpn hX hsort hdom

/-- **A5.4 as coded never changes the shape**: what the literal transcription returns is a well-formed
    curve over the same domain that evaluates – spans by the library's search – to the same point at
    every parameter of the domain (both ends included), in every coordinate. -/
theorem refineA54_preserves_shape (p d : ℕ) (U : List K) (P : List (List K)) (X : List K) (tol : K)
    (hwf : CurveWF p d U P) (hX : X ≠ []) (hsort : X.Pairwise (· ≤ ·))
    (hdom : ∀ x ∈ X, fnOf U p ≤ x ∧ x < fnOf U P.length) (h0 : 0 ≤ tol) (hsep : SepBy tol (U ++ X))
    (hcnt : ∀ x ∈ X, U.count x + X.count x ≤ p) :
    CurveWF p d (refineA54 p U P X tol).1 (refineA54 p U P X tol).2 ∧
    fnOf (refineA54 p U P X tol).1 p = fnOf U p ∧
    fnOf (refineA54 p U P X tol).1 (refineA54 p U P X tol).2.length = fnOf U P.length ∧
    ∀ (u : K), fnOf U p ≤ u → u ≤ fnOf U P.length → ∀ j,
      (curvePoint p (fnOf (refineA54 p U P X tol).1) (refineA54 p U P X tol).2 u).getD j 0
        = (curvePoint p (fnOf U) P u).getD j 0 :=
  refineA54_preserves_curve p d U P X tol hwf hX hsort hdom h0 hsep hcnt

/-- **The order of insertion does not matter.**  Two admissible folds of library insertions over
    permutations of the same list return the same knot vector and the same control points: every new
    control point is the polar value of the ORIGINAL curve at `p` consecutive new knots
    (`fold_ctrlpt_is_polar`).  `SuppOk p V n`: every basis function of the refined curve has non-empty
    support inside the domain (`V_{max i p} < V_{i+p+1}` for `i < n`). -/
theorem insertion_order_irrelevant (p d : ℕ) (tol : K) (U : List K) (P : List (List K)) (X Y : List K)
    (hwf : CurveWF p d U P) (hX : RefineOk p tol (U, P) X) (hY : RefineOk p tol (U, P) Y) (hperm : X.Perm Y)
    (hsupp : SuppOk p (X.foldl (insertOne p tol) (U, P)).1 (P.length + X.length)) :
    X.foldl (insertOne p tol) (U, P) = Y.foldl (insertOne p tol) (U, P) :=
  Prod.ext (fold_kv_order_indep p d U P X Y tol hwf hX hY hperm)
    (fold_cp_order_indep p d tol U P X Y hwf hX hY hperm hsupp)

/-- **A5.4 as coded returns exactly what the specification-level model returns** – the fold of single
    knot insertions over `X` in ascending order – knot vector AND control points; general form with the
    support condition on the refined knot vector. -/
theorem refineA54_eq_insert_fold_of_supp (p d : ℕ) (U : List K) (P : List (List K)) (X : List K) (tol : K)
    (hwf : CurveWF p d U P) (hX : X ≠ []) (hsort : X.Pairwise (· ≤ ·))
    (hdom : ∀ x ∈ X, fnOf U p ≤ x ∧ x < fnOf U P.length) (h0 : 0 ≤ tol) (hsep : SepBy tol (U ++ X))
    (hcnt : ∀ x ∈ X, U.count x + X.count x ≤ p)
    (hsupp : SuppOk p (X.foldl (insertOne p tol) (U, P)).1 (P.length + X.length)) :
    refineA54 p U P X tol = X.foldl (insertOne p tol) (U, P) :=
  refineA54_eq_fold_of_supp p d U P X tol hwf hX hsort hdom h0 hsep hcnt hsupp

/-- The same for a knot vector clamped at the start (`U_0 = U_p`) in which no value occurs more than
    `p + 1` times (then every basis function of the refined curve has support: `suppOk_of_clamped`). -/
theorem refineA54_eq_insert_fold (p d : ℕ) (U : List K) (P : List (List K)) (X : List K) (tol : K)
    (hwf : CurveWF p d U P) (hX : X ≠ []) (hsort : X.Pairwise (· ≤ ·))
    (hdom : ∀ x ∈ X, fnOf U p ≤ x ∧ x < fnOf U P.length) (h0 : 0 ≤ tol) (hsep : SepBy tol (U ++ X))
    (hcnt : ∀ x ∈ X, U.count x + X.count x ≤ p)
    (hclamp : fnOf U 0 = fnOf U p) (hmult : ∀ y ∈ U, U.count y ≤ p + 1) :
    refineA54 p U P X tol = X.foldl (insertOne p tol) (U, P) :=
  refineA54_eq_fold p d U P X tol hwf hX hsort hdom h0 hsep hcnt hclamp hmult

/-- **`helpers.knot_refinement` as coded = the specification-level model** (helper level, explicit
    `knot_list` / `add_knot_list` inside the domain, any density): under the hypotheses of
    `knotRefinementOf_preserves_curve` plus "clamped at the start, no knot more than `p + 1` times", the
    literal transcription of the whole call returns exactly what `knotRefinementOf` returns (including the
    "Cannot refine" case). -/
theorem knotRefinementA54_is_model (p d : ℕ) (U : List K) (P : List (List K)) (kl : Option (List K))
    (add : List K) (density : ℕ) (tol : K)
    (hwf : CurveWF p d U P) (hend : ∀ i, P.length ≤ i → fnOf U i = fnOf U P.length)
    (hclamp : fnOf U 0 = fnOf U p) (hmult : ∀ y ∈ U, U.count y ≤ p + 1)
    (hkl : ∀ l, kl = some l → ∀ a ∈ l, fnOf U p ≤ a ∧ a ≤ fnOf U P.length)
    (hadd : ∀ a ∈ add, fnOf U p ≤ a ∧ a ≤ fnOf U P.length)
    (h0 : 0 ≤ tol) (hsep : SepBy tol (U ++ genKnots (baseList p U kl add) density)) :
    knotRefinementA54 p U P kl add density tol = knotRefinementOf p U P kl add density tol :=
  knotRefinementA54_eq_model p d U P kl add density tol hwf hend hclamp hmult hkl hadd h0 hsep

/-- … and for the default call (`knot_list = U[p:-p]`): the model all other C05 theorems are about. -/
theorem knotRefinementA54_is_model_default (p d : ℕ) (U : List K) (P : List (List K)) (density : ℕ) (tol : K)
    (hwf : CurveWF p d U P) (hend : ∀ i, P.length ≤ i → fnOf U i = fnOf U P.length)
    (hclamp : fnOf U 0 = fnOf U p) (hmult : ∀ y ∈ U, U.count y ≤ p + 1)
    (h0 : 0 ≤ tol) (hsep : SepBy tol (U ++ refineKnots p U density)) :
    knotRefinementA54 p U P none [] density tol = knotRefinement p U P density tol :=
  knotRefinementA54_eq_model_default p d U P density tol hwf hend hclamp hmult h0 hsep

/-! ### non-vacuity of the (F) hypotheses: the quadratic of (A) and the list `X` the code computes for it -/

example : refineX 2 ([0,0,0,1/2,1,1,1] : List ℚ) 1 (1/10000000) = [1/4,1/4,1/2,3/4,3/4] := by decide +kernel

example : ([1/4,1/4,1/2,3/4,3/4] : List ℚ).Pairwise (· ≤ ·) := by decide +kernel

example : ∀ x ∈ ([1/4,1/4,1/2,3/4,3/4] : List ℚ), fnOf ([0,0,0,1/2,1,1,1] : List ℚ) 2 ≤ x ∧
    x < fnOf ([0,0,0,1/2,1,1,1] : List ℚ) ([[0,0],[1,2],[2,0],[3,1]] : List (List ℚ)).length := by decide +kernel

example : SepBy (1/10000000 : ℚ) (([0,0,0,1/2,1,1,1] : List ℚ) ++ [1/4,1/4,1/2,3/4,3/4]) := by
  unfold SepBy; decide +kernel

example : ∀ x ∈ ([1/4,1/4,1/2,3/4,3/4] : List ℚ),
    ([0,0,0,1/2,1,1,1] : List ℚ).count x + ([1/4,1/4,1/2,3/4,3/4] : List ℚ).count x ≤ 2 := by decide +kernel

example : fnOf ([0,0,0,1/2,1,1,1] : List ℚ) 0 = fnOf ([0,0,0,1/2,1,1,1] : List ℚ) 2 ∧
    ∀ y ∈ ([0,0,0,1/2,1,1,1] : List ℚ), ([0,0,0,1/2,1,1,1] : List ℚ).count y ≤ 2 + 1 := by decide +kernel

/-- A5.4 as coded on that input (the arrays the Python loops produce) -/
example : refineA54 2 ([0,0,0,1/2,1,1,1] : List ℚ) [[0,0],[1,2],[2,0],[3,1]] [1/4,1/4,1/2,3/4,3/4] (1/10000000)
    = ([0,0,0,1/4,1/4,1/2,1/2,3/4,3/4,1,1,1],
       [[0,0],[1/2,1],[7/8,5/4],[5/4,3/2],[3/2,1],[7/4,1/2],[17/8,1/2],[5/2,1/2],[3,1]]) := by decide +kernel

/-- all hypotheses of (F) hold together on that input: there A5.4 as coded IS the fold of insertions -/
example : refineA54 2 ([0,0,0,1/2,1,1,1] : List ℚ) [[0,0],[1,2],[2,0],[3,1]] [1/4,1/4,1/2,3/4,3/4] (1/10000000)
    = ([1/4,1/4,1/2,3/4,3/4] : List ℚ).foldl (insertOne 2 (1/10000000)) ([0,0,0,1/2,1,1,1], [[0,0],[1,2],[2,0],[3,1]]) :=
  refineA54_eq_insert_fold 2 2 _ _ _ _
    ⟨mono_of_pairwise _ (by decide +kernel), by simp, by simp, by decide +kernel,
      by intro pt hpt; simp at hpt; rcases hpt with h | h | h | h <;> simp [h]⟩
    (by simp) (by decide +kernel) (by decide +kernel) (by norm_num) (by unfold SepBy; decide +kernel)
    (by decide +kernel) (by decide +kernel) (by decide +kernel)

/-! ## (R) The LIST-OF-ROWS branch of `helpers.knot_refinement` (A5.4 on rows) as coded

For a volume `operations.refine_knotvector` gathers one ROW per control-point index of the direction (a
whole layer of the net) and calls `helpers.knot_refinement` once; in the `else` branch of
`isinstance(ctrlpts[0][0], float)` every blend of A5.4 becomes `for idx2 in range(len(ctrlpts[0])):
new_ctrlpts[idx-1][idx2] = …`.  `refineA54Rows` transcribes the loops for rows, `knotRefinementRows` is the
whole helper call, `refineVolRows` one direction of the operation (gather `volRows`, A5.4 on the rows,
scatter `volUnrows`); they are run against the real helper / operation by the correspondence check
(`rowsref`, `rowsrefh`, `rowsvol … F`). -/

/-- **Every iso-curve of A5.4 on rows is A5.4 of that iso-curve, and the knot vector is the same** – for
    every column index inside the rows (`c < len(ctrlpts[0])`).  Guards of the code / the driver op (`hR`, `hX`; the
    equation itself holds in the model without them): the rows are rectangular – on ragged rows the code raises
    `IndexError` in `for idx2 in range(len(ctrlpts[0]))` while the model pads with `[]` – and `X` is not empty – the
    helper raises "Cannot refine" before A5.4 is reached. -/
theorem refineA54Rows_isocurve (c p : ℕ) (U : List K) (R : List (List (List K))) (X : List K) (tol : K)
    (hR : Rows.RectW (R.headD []).length R) (hX : X ≠ []) (hc : c < (R.headD []).length) :
    (refineA54Rows p U R X tol).1 = (refineA54 p U (isoCol c R) X tol).1 ∧
    isoCol c (refineA54Rows p U R X tol).2 = (refineA54 p U (isoCol c R) X tol).2 :=
  Rows.isoCol_refineA54Rows c p U R X tol hc

/-- the whole helper call on rows, iso-curve by iso-curve: the same knot vector and the control points
    of `knotRefinementA54` on that iso-curve (including the "Cannot refine" case); rectangular rows (`hR`: guard of
    the code / driver op, as above) -/
theorem knotRefinementRows_isocurve (c p : ℕ) (U : List K) (R : List (List (List K))) (kl : Option (List K))
    (add : List K) (density : ℕ) (tol : K) (hR : Rows.RectW (R.headD []).length R) (hc : c < (R.headD []).length) :
    (knotRefinementRows p U R kl add density tol).map (fun x => (x.1, isoCol c x.2))
      = knotRefinementA54 p U (isoCol c R) kl add density tol :=
  Rows.isoCol_knotRefinementRows c p U R kl add density tol hc

/-- **One direction of `operations.refine_knotvector` on a volume, computed through the list of rows with
    A5.4 AS CODED, is exactly the specification-level model `refineDir`** (fold of single insertions per
    iso-curve) – so `refineDir_preserves_volume` / `refineKnotvector_preserves_volume` are statements about
    what the rows branch computes.  Hypotheses: well-formed volume with points of dimension `d > 0`, the
    direction's knot vector clamped at both ends with no value more than `p + 1` times, tolerance
    separation of the old knots and the bisection knots (`DirHyp`). -/
theorem refineVolRows_is_refineDir (d : ℕ) (S : Shape K) (hS : VolWF d S) (hd : 0 < d) (density : ℕ) (tol : K)
    (h0 : 0 ≤ tol) (dir : ℕ) (hdir : dir < 3) (hyp : DirHyp S dir density tol)
    (hclamp : fnOf (S.kv dir) 0 = fnOf (S.kv dir) (S.deg dir))
    (hmult : ∀ y ∈ S.kv dir, (S.kv dir).count y ≤ S.deg dir + 1) :
    refineVolRows S dir density tol = refineDir S dir density tol :=
  Rows.refineVolRows_eq d S hS hd density tol h0 dir hdir hyp hclamp hmult

/-- **Volumes, as the code computes the refinement**: the volume returned by gather / A5.4 on rows /
    scatter is well formed, has `|X|` more control points in the refined direction, and evaluates at every
    parameter triple of the domain, in every coordinate, to the point of the original volume. -/
theorem refineVolRows_preserves_volume (d : ℕ) (S : Shape K) (hS : VolWF d S) (hd : 0 < d) (dir : ℕ) (hdir : dir < 3)
    (density : ℕ) (tol : K) (h0 : 0 ≤ tol)
    (hend : ∀ i, S.size dir ≤ i → fnOf (S.kv dir) i = fnOf (S.kv dir) (S.size dir))
    (hsep : SepBy tol (S.kv dir ++ refineKnots (S.deg dir) (S.kv dir) density))
    (hclamp : fnOf (S.kv dir) 0 = fnOf (S.kv dir) (S.deg dir))
    (hmult : ∀ y ∈ S.kv dir, (S.kv dir).count y ≤ S.deg dir + 1)
    (S' : Shape K) (h : refineVolRows S dir density tol = some S') :
    VolWF d S' ∧ S'.degs = S.degs ∧
    S'.size dir = S.size dir + (refineX (S.deg dir) (S.kv dir) density tol).length ∧
    ∀ (u v w : K), fnOf (S.kv 0) (S.deg 0) ≤ u → u ≤ fnOf (S.kv 0) (S.size 0) →
      fnOf (S.kv 1) (S.deg 1) ≤ v → v ≤ fnOf (S.kv 1) (S.size 1) →
      fnOf (S.kv 2) (S.deg 2) ≤ w → w ≤ fnOf (S.kv 2) (S.size 2) → ∀ j,
      (volumePoint (S'.deg 0) (S'.deg 1) (S'.deg 2) (fnOf (S'.kv 0)) (fnOf (S'.kv 1)) (fnOf (S'.kv 2))
          (S'.size 0) (S'.size 1) (S'.size 2) S'.net u v w).getD j 0
        = (volumePoint (S.deg 0) (S.deg 1) (S.deg 2) (fnOf (S.kv 0)) (fnOf (S.kv 1)) (fnOf (S.kv 2))
          (S.size 0) (S.size 1) (S.size 2) S.net u v w).getD j 0 :=
  let r := refineDir_preserves_volume d S hS dir hdir density tol h0 hend hsep S'
    (by rw [← Rows.refineVolRows_eq d S hS hd density tol h0 dir hdir ⟨hend, hsep⟩ hclamp hmult]; exact h)
  ⟨r.1, r.2.1, r.2.2.2.1, r.2.2.2.2.2⟩

/-! ### non-vacuity -/

/-- A5.4 as coded on two quadratic iso-curves at once (rows of two 1-D points) -/
example : refineA54Rows 2 ([0,0,0,1,1,1] : List ℚ) [[[0],[10]], [[2],[12]], [[0],[16]]] [1/2, 1/2] (1/10000000)
    = ([0,0,0,1/2,1/2,1,1,1], [[[0],[10]], [[1],[11]], [[1],[25/2]], [[1],[14]], [[0],[16]]]) := by decide +kernel

/-- the example volume: clamped at the start, no knot more than `p + 1` times, in the w direction … -/
example : fnOf (exVolQ.kv 2) 0 = fnOf (exVolQ.kv 2) (exVolQ.deg 2) ∧
    ∀ y ∈ exVolQ.kv 2, (exVolQ.kv 2).count y ≤ exVolQ.deg 2 + 1 := by decide +kernel

/-- … so the refinement of its w direction through the rows IS `refineDir` … -/
example : refineVolRows exVolQ 2 1 (1/10000000) = refineDir exVolQ 2 1 (1/10000000) :=
  refineVolRows_is_refineDir 3 exVolQ exVolQ_wf (by decide) 1 _ (by norm_num) 2 (by decide)
    ⟨clampedEnd_of_drop _ _ (by decide) (by decide +kernel), by unfold SepBy; decide +kernel⟩
    (by decide +kernel) (by decide +kernel)

/-- … and a concrete run of the rows model (u direction: rows of 2·4 points) -/
example : (refineVolRows exVolQ 0 1 (1/10000000)).map (fun T => (T.sizes, T.kv 0)) = some ([3, 2, 4], [0,0,1/2,1,1]) := by
  decide +kernel

/-! ## (S) why the specification-level model is legitimate: control points over a knot vector are unique -/

/-- **Whatever returns a net with the same curve over the refined knot vector returns the fold of single
    insertions.**  `X` admissible (`RefineOk`; discharged for the generated list by `refineX_admissible`), refined
    knot vector and net `X.foldl insertOne (U, P)`; `R` any net of the same size and dimension over that knot
    vector (in which no basis function vanishes on the whole domain, `AllActive`) whose curve has the points of
    the original curve on the half-open domain: then `R` IS the fold's net (C06 `control_points_unique`).  So
    any correct refinement algorithm – A5.4 in the code, for which this is also proved directly in (F) –
    agrees with the specification-level model `knotRefinement`.  The hypothesis `hact : AllActive …` (no basis function
    of the REFINED knot vector vanishes on the whole domain; decidable) is part of the statement and is NECESSARY
    (a knot of multiplicity `p + 2` makes a control point invisible: C06 counterexample). -/
theorem refinement_net_unique (p d : ℕ) (tol : K) (X : List K) (st : List K × List (List K))
    (hwf : CurveWF p d st.1 st.2) (hok : RefineOk p tol st X) (R : List (List K)) (hR : NetOk d R)
    (hlen : R.length = (X.foldl (insertOne p tol) st).2.length)
    (hact : AllActive p (X.foldl (insertOne p tol) st).2.length (fnOf (X.foldl (insertOne p tol) st).1))
    (hsame : ∀ u, fnOf st.1 p ≤ u → u < fnOf st.1 st.2.length → ∀ j,
      (curvePoint p (fnOf (X.foldl (insertOne p tol) st).1) R u).getD j 0 = (curvePoint p (fnOf st.1) st.2 u).getD j 0) :
    R = (X.foldl (insertOne p tol) st).2 :=
  refine_fold_unique p d tol X st hwf hok R hR hlen hact hsame

/-- non-vacuity of `AllActive` on a refined knot vector (the density-1 refinement of the quadratic of (A)) -/
example : AllActive 2 9 (fnOf ([0,0,0,1/4,1/4,1/2,1/2,3/4,3/4,1,1,1] : List ℚ)) := by decide +kernel

/-! ## (G) the object-level operation with A5.4 AS CODED (`refineDirCoded`, `refineKnotvectorCoded`)

`refineDirCoded` / `refineKnotvectorCoded` are `refineDir` / `refineKnotvector` with every helper call replaced by the
literal transcription of A5.4: `refineA54` on every iso-curve of a curve or a surface (the new knot vector is the
`new_kv` of the LAST helper call of the loop over the iso-curves, `Shape.lastIso`), ONE call of `refineA54Rows` on the
gathered rows for a volume (`refineVolRows`).  They are run against `operations.refine_knotvector` by the
correspondence check (`refc`).  Hypotheses per refined direction, on the ORIGINAL object: `DirHyp` (clamped end,
tolerance separation of the old knots and the bisection knots) and `DirHypA54` (the two extra hypotheses of
`refineA54_eq_insert_fold`: clamped at the start, no value more than `p + 1` times).
`CurveObjWF d S`: a shape with one direction, `size = len(ctrlpts)`, `CurveWF`; `curveEval S u` its curve point. -/

/-- **`refine_knotvector` on a curve object (specification-level model) keeps every curve point**; the result is a
    well-formed curve object over the same domain, whether or not the call completed. -/
theorem refineKnotvector_preserves_curve (d : ℕ) (S : Shape K) (hS : CurveObjWF d S) (dens : List ℕ) (tol : K)
    (h0 : 0 ≤ tol) (_hlen : dens.length = S.pdim) (hd : dens.getD 0 0 ≠ 0 → DirHyp S 0 (dens.getD 0 0) tol)
    (u : K) (hlo : fnOf (S.kv 0) (S.deg 0) ≤ u) (hhi : u ≤ fnOf (S.kv 0) (S.size 0)) (j : ℕ) :
    CurveObjWF d (refineKnotvector S dens tol).1 ∧
    (curveEval (refineKnotvector S dens tol).1 u).getD j 0 = (curveEval S u).getD j 0 :=
  ⟨(refineKnotvector_curve' d S hS dens tol h0 hd).1, (refineKnotvector_curve' d S hS dens tol h0 hd).2.2.2 u hlo hhi j⟩

/-- **The direction step on a curve object, A5.4 as coded on the control polygon = `refineDir`** (which is the
    helper-level `knotRefinement`, `refineDir_curve_is_helper`). -/
theorem refineDir_as_coded_eq_model_curve (d : ℕ) (S : Shape K) (hS : CurveObjWF d S) (density : ℕ) (tol : K)
    (h0 : 0 ≤ tol) (hyp : DirHyp S 0 density tol) (ha : DirHypA54 S 0) :
    refineDirCoded S 0 density tol = refineDir S 0 density tol :=
  refineDirCoded_curve d S density tol h0 hS.degs hS.size hS.wf hyp ha

/-- **One direction of a surface, A5.4 as coded on every iso-curve = `refineDir`** (u direction `dir = 0`: every
    column; v direction `dir = 1`: every row; knot vector of the last helper call). -/
theorem refineDir_as_coded_eq_model_surface (d : ℕ) (S : Shape K) (hS : SurfWF d S) (dir : ℕ) (hdir : dir < 2)
    (density : ℕ) (tol : K) (h0 : 0 ≤ tol) (hyp : DirHyp S dir density tol) (ha : DirHypA54 S dir) :
    refineDirCoded S dir density tol = refineDir S dir density tol :=
  refineDirCoded_surface d S density tol h0 hS dir hdir hyp ha

/-- **One direction of a volume, A5.4 as coded on the list of rows = `refineDir`** (`refineVolRows_is_refineDir`
    read through `refineDirCoded`; points of dimension `d > 0`). -/
theorem refineDir_as_coded_eq_model_volume (d : ℕ) (S : Shape K) (hS : VolWF d S) (hd : 0 < d) (dir : ℕ) (hdir : dir < 3)
    (density : ℕ) (tol : K) (h0 : 0 ≤ tol) (hyp : DirHyp S dir density tol) (ha : DirHypA54 S dir) :
    refineDirCoded S dir density tol = refineDir S dir density tol :=
  refineDirCoded_volume d S density tol h0 hS hd dir hdir hyp ha

/-! `_hlen : dens.length = S.pdim` in the nine object-level statements (`refineKnotvector_preserves_*`,
`refineKnotvector_as_coded_eq_model_*`, `refine_as_coded_preserves_*`; statement audit 5, I2): the guard of
`operations.refine_knotvector` on its density list – with another number of entries the code raises `GeomdlException`
("The length of the param array …"), the ops `refc` / `ops … F` answer ERR; the model reads a missing entry as
"direction not selected", so the hypothesis is not used by the proofs. -/

/-- **`refine_knotvector` on a curve object through A5.4 as coded = the specification-level model** (object, flag). -/
theorem refineKnotvector_as_coded_eq_model_curve (d : ℕ) (S : Shape K) (hS : CurveObjWF d S) (dens : List ℕ) (tol : K)
    (h0 : 0 ≤ tol) (_hlen : dens.length = S.pdim) (hd : dens.getD 0 0 ≠ 0 → DirHyp S 0 (dens.getD 0 0) tol ∧ DirHypA54 S 0) :
    refineKnotvectorCoded S dens tol = refineKnotvector S dens tol :=
  refineKnotvectorCoded_curve d S hS.degs hS.size hS.wf dens tol h0 hd

/-- **`refine_knotvector` on a surface through A5.4 as coded = the specification-level model** (object and flag):
    any subset of the two directions, any densities; each direction is applied to the object as the earlier one
    left it, the hypotheses are on the original object and only for the selected directions. -/
theorem refineKnotvector_as_coded_eq_model_surface (d : ℕ) (S : Shape K) (hS : SurfWF d S) (dens : List ℕ) (tol : K)
    (h0 : 0 ≤ tol) (_hlen : dens.length = S.pdim)
    (hd : ∀ dir, dir < 2 → dens.getD dir 0 ≠ 0 → DirHyp S dir (dens.getD dir 0) tol ∧ DirHypA54 S dir) :
    refineKnotvectorCoded S dens tol = refineKnotvector S dens tol :=
  refineKnotvectorCoded_surface d S hS dens tol h0 hd

/-- **`refine_knotvector` on a volume through A5.4 on rows as coded = the specification-level model.** -/
theorem refineKnotvector_as_coded_eq_model_volume (d : ℕ) (S : Shape K) (hS : VolWF d S) (hd0 : 0 < d) (dens : List ℕ)
    (tol : K) (h0 : 0 ≤ tol) (_hlen : dens.length = S.pdim)
    (hd : ∀ dir, dir < 3 → dens.getD dir 0 ≠ 0 → DirHyp S dir (dens.getD dir 0) tol ∧ DirHypA54 S dir) :
    refineKnotvectorCoded S dens tol = refineKnotvector S dens tol :=
  refineKnotvectorCoded_volume d S hS hd0 dens tol h0 hd

/-- **Refinement through the loops as coded never changes the shape, curves**: the object `refine_knotvector`
    computes with A5.4 as coded is a well-formed curve object and every point of the closed domain is unchanged. -/
theorem refine_as_coded_preserves_curve (d : ℕ) (S : Shape K) (hS : CurveObjWF d S) (dens : List ℕ) (tol : K)
    (h0 : 0 ≤ tol) (_hlen : dens.length = S.pdim) (hd : dens.getD 0 0 ≠ 0 → DirHyp S 0 (dens.getD 0 0) tol ∧ DirHypA54 S 0)
    (u : K) (hlo : fnOf (S.kv 0) (S.deg 0) ≤ u) (hhi : u ≤ fnOf (S.kv 0) (S.size 0)) (j : ℕ) :
    CurveObjWF d (refineKnotvectorCoded S dens tol).1 ∧
    (curveEval (refineKnotvectorCoded S dens tol).1 u).getD j 0 = (curveEval S u).getD j 0 := by
  rw [refineKnotvectorCoded_curve d S hS.degs hS.size hS.wf dens tol h0 hd]
  exact refineKnotvector_preserves_curve d S hS dens tol h0 _hlen (fun h => (hd h).1) u hlo hhi j

/-- **Refinement through the loops as coded never changes the shape, surfaces**: any subset of the two directions,
    any densities; well-formed result, every surface point of the domain unchanged. -/
theorem refine_as_coded_preserves_surface (d : ℕ) (S : Shape K) (hS : SurfWF d S) (dens : List ℕ) (tol : K)
    (h0 : 0 ≤ tol) (_hlen : dens.length = S.pdim)
    (hd : ∀ dir, dir < 2 → dens.getD dir 0 ≠ 0 → DirHyp S dir (dens.getD dir 0) tol ∧ DirHypA54 S dir)
    (u v : K) (hu1 : fnOf (S.kv 0) (S.deg 0) ≤ u) (hu2 : u ≤ fnOf (S.kv 0) (S.size 0))
    (hv1 : fnOf (S.kv 1) (S.deg 1) ≤ v) (hv2 : v ≤ fnOf (S.kv 1) (S.size 1)) (j : ℕ) :
    SurfWF d (refineKnotvectorCoded S dens tol).1 ∧
    (surfEval (refineKnotvectorCoded S dens tol).1 u v).getD j 0 = (surfEval S u v).getD j 0 := by
  rw [refineKnotvectorCoded_surface d S hS dens tol h0 hd]
  exact refineKnotvector_preserves_surface d S hS dens tol h0 _hlen (fun h => (hd 0 (by omega) h).1)
    (fun h => (hd 1 (by omega) h).1) u v hu1 hu2 hv1 hv2 j

/-- **Refinement through the loops as coded never changes the shape, volumes**: any subset of the three directions,
    any densities, every direction through gather / A5.4 on rows / scatter; well-formed result with the same degrees,
    every volume point of the domain unchanged. -/
theorem refine_as_coded_preserves_volume (d : ℕ) (S : Shape K) (hS : VolWF d S) (hd0 : 0 < d) (dens : List ℕ) (tol : K)
    (h0 : 0 ≤ tol) (_hlen : dens.length = S.pdim)
    (hd : ∀ dir, dir < 3 → dens.getD dir 0 ≠ 0 → DirHyp S dir (dens.getD dir 0) tol ∧ DirHypA54 S dir)
    (u v w : K) (hu1 : fnOf (S.kv 0) (S.deg 0) ≤ u) (hu2 : u ≤ fnOf (S.kv 0) (S.size 0))
    (hv1 : fnOf (S.kv 1) (S.deg 1) ≤ v) (hv2 : v ≤ fnOf (S.kv 1) (S.size 1))
    (hw1 : fnOf (S.kv 2) (S.deg 2) ≤ w) (hw2 : w ≤ fnOf (S.kv 2) (S.size 2)) (j : ℕ) :
    VolWF d (refineKnotvectorCoded S dens tol).1 ∧ (refineKnotvectorCoded S dens tol).1.degs = S.degs ∧
    (volEval (refineKnotvectorCoded S dens tol).1 u v w).getD j 0 = (volEval S u v w).getD j 0 := by
  rw [refineKnotvectorCoded_volume d S hS hd0 dens tol h0 hd]
  have r := refineKnotvector_preserves_volume d S hS dens tol h0 _hlen (fun dir hdir h => (hd dir hdir h).1)
    u v w hu1 hu2 hv1 hv2 hw1 hw2 j
  exact ⟨r.1, r.2.1, r.2.2.2⟩

/-! ### non-vacuity of the (G) hypotheses -/

/-- the quadratic of (A) as a curve object -/
def exCurve : Shape ℚ where
  rat := false
  degs := [2]
  kvs := [[0,0,0,1/2,1,1,1]]
  sizes := [4]
  net := [[0,0],[1,2],[2,0],[3,1]]

example : CurveObjWF 2 exCurve where
  degs := rfl
  kvs := rfl
  sizes := rfl
  size := rfl
  wf := ⟨mono_of_pairwise _ (by decide +kernel), by decide, by decide, by decide +kernel,
    by intro pt hpt; simp [exCurve] at hpt; rcases hpt with h | h | h | h <;> simp [h]⟩

example : DirHyp exCurve 0 1 (1/10000000) ∧ DirHypA54 exCurve 0 :=
  ⟨⟨clampedEnd_of_drop _ _ (by decide) (by decide +kernel), by unfold SepBy; decide +kernel⟩, by unfold DirHypA54; decide +kernel⟩

/-- `refine_knotvector(curve, [1])` through A5.4 as coded: the arrays of (F) -/
example : (refineKnotvectorCoded exCurve [1] (1/10000000)).2 = true ∧
    (refineKnotvectorCoded exCurve [1] (1/10000000)).1.kvs = [[0,0,0,1/4,1/4,1/2,1/2,3/4,3/4,1,1,1]] ∧
    (refineKnotvectorCoded exCurve [1] (1/10000000)).1.net
      = [[0,0],[1/2,1],[7/8,5/4],[5/4,3/2],[3/2,1],[7/4,1/2],[17/8,1/2],[5/2,1/2],[3,1]] := by decide +kernel

/-- the example surface: clamped at the start, no knot more than `p + 1` times, in both directions … -/
example : DirHypA54 exSurf 0 ∧ DirHypA54 exSurf 1 := by unfold DirHypA54; decide +kernel

/-- … so `refine_knotvector(surface, [2, 1])` through A5.4 as coded IS the specification-level model … -/
example : refineKnotvectorCoded exSurf [2, 1] (1/10000000) = refineKnotvector exSurf [2, 1] (1/10000000) :=
  refineKnotvector_as_coded_eq_model_surface 3 exSurf
    { degs := rfl, kvs := rfl, sizes := rfl, netlen := rfl,
      net := by intro pt hpt; simp [exSurf] at hpt; rcases hpt with h | h | h | h | h | h | h | h <;> simp [h],
      dir0 := ⟨mono_of_pairwise _ (by decide +kernel), rfl, by decide, by decide +kernel⟩,
      dir1 := ⟨mono_of_pairwise _ (by decide +kernel), rfl, by decide, by decide +kernel⟩ }
    [2, 1] _ (by norm_num) rfl
    (fun dir hdir _ => by
      rcases (by omega : dir = 0 ∨ dir = 1) with rfl | rfl
      · exact ⟨⟨clampedEnd_of_drop _ _ (by decide) (by decide +kernel), by unfold SepBy; decide +kernel⟩, by unfold DirHypA54; decide +kernel⟩
      · exact ⟨⟨clampedEnd_of_drop _ _ (by decide) (by decide +kernel), by unfold SepBy; decide +kernel⟩, by unfold DirHypA54; decide +kernel⟩)

/-- … and a concrete run of the loops as coded on it (both knot vectors refined) -/
example : (refineKnotvectorCoded exSurf [2, 1] (1/10000000)).2 = true ∧
    (refineKnotvectorCoded exSurf [2, 1] (1/10000000)).1.kvs
      = [[0,0,1/4,1/2,3/4,1,1], [0,0,0,1/4,1/4,1/2,1/2,3/4,3/4,1,1,1]] := by decide +kernel

/-- the example volume, all three directions through A5.4 on rows as coded -/
example : (refineKnotvectorCoded exVolQ [1, 1, 1] (1/10000000)).2 = true ∧
    (refineKnotvectorCoded exVolQ [1, 1, 1] (1/10000000)).1.sizes = [3, 3, 9] := by decide +kernel

end C05
