import NurbsVerif.Model.KnotRows
import NurbsVerif.Model.InsertRowsA51
import NurbsVerif.Model.KnotOpsCoded
import NurbsVerif.Driver.Shape
/- ops for the list-of-rows branches of the knot helpers and the volume gather / scatter (C04, C05, C06) -/
namespace Drv
open Geomdl

/-- rows are rectangular and non-empty: what `operations.*` build -/
def rowsOk (R : List (List (List Rat))) : Bool :=
  !R.isEmpty && decide (0 < (R.headD []).length) && R.all (fun row => decide (row.length = (R.headD []).length))

/-- requests on a volume, each through the list-of-rows models; an exception aborts with `ERR` -/
def rowsScript : Nat → Shape Rat → List String → Option String
  | _, S, [] => some (showShape S)
  | 0, _, _ => none
  | fuel+1, S, "I" :: dir :: u :: r :: chk :: rest => do
      let dir ← dir.toNat?; let u ← parseRat u; let r ← r.toNat?
      if dir ≥ 3 || !inDomS S dir u then return "ERR"
      if r != 0 && spanOutS S dir u then return "OUT"
      match insertKnotVolRows S dir u r tolMult (chk == "1") with
      | some T => rowsScript fuel T rest
      | none => return "ERR"
  | fuel+1, S, "R" :: dir :: u :: num :: chk :: rest => do
      let dir ← dir.toNat?; let u ← parseRat u; let num ← num.toNat?
      if dir ≥ 3 || !inDomS S dir u then return "ERR"
      if num != 0 && spanOutS S dir u then return "OUT"
      match removeKnotVolRows S dir u num tolMult (tolRemove * tolRemove) (chk == "1") with
      | some T => rowsScript fuel T rest
      | none => return "ERR"
  | fuel+1, S, "F" :: dir :: dens :: rest => do
      let dir ← dir.toNat?; let dens ← dens.toNat?
      if dir ≥ 3 || dens = 0 then return "ERR"
      match refineVolRows S dir dens tolMult with
      | some T => rowsScript fuel T rest
      | none => return "ERR"
  | _, _, _ => none

/-- fold a list of `(params, nums, check)` insertion requests through `insertKnotCoded` (the helper's loops as
    coded); an exception aborts with `ERR` (operations level) -/
def insSeqCoded : Shape Rat → List String → Option String
  | S, [] => some (showShape S)
  | S, ps :: ns :: chk :: rest => do
      let params ← parseOptList ps
      let nums ← parseNats ns
      if !callListsOk S params nums (chk == "1") then return "ERR"
      -- a direction with `num = 0` is skipped by the code whatever its parameter is (I5)
      if (List.range S.pdim).any (fun d => match params.getD d none with | some u => nums.getD d 0 != 0 && !inDomS S d u | none => false) then return "ERR"
      if reqSpanOut S params nums || uncheckedOver S params nums (chk == "1") then return "OUT"
      let res := insertKnotCoded S params nums tolMult (chk == "1")
      if res.2 then insSeqCoded res.1 rest else return "ERR"
  | _, _ => none

def handleKnotRows (toks : List String) : Option String :=
  match toks with
  -- A5.1 AS CODED on rows (literal transcription `knotInsertionRowsA51`), same call and guard as `rowsins`
  -- (incl. `a51DivByZero`: an EMPTY span argument can make an alpha denominator vanish - ZeroDivisionError in the helper)
  | ["rowsinsa51", p, us, rs, u, r, s, k] => do
      let p ← p.toNat?; let U ← parseList us; let R ← parsePts2 rs; let u ← parseRat u
      let r ← r.toNat?; let s ← s.toNat?; let k ← k.toNat?
      if p = 0 || U.length != R.length + p + 1 || !isSortedB U || !rowsOk R || r + s > p || k < p || k ≥ R.length
          || a51DivByZero p (fn U) r s k then return "ERR"
      return showPts2 (knotInsertionRowsA51 p (fn U) R u r s k)
  -- operations.insert_knot with the helper's loops as coded (point branch per iso-curve / rows branch for volumes)
  | "insc" :: rest => do
      let (S, rest) ← parseShape rest
      if !shapeOk S then return "ERR"
      insSeqCoded S rest
  -- operations.refine_knotvector with A5.4 as coded (per iso-curve / on rows for volumes)
  | "refc" :: rest => do
      let (S, rest) ← parseShape rest
      if !shapeOk S then return "ERR"
      match rest with
      | [ds] =>
          let dens ← parseNats ds
          if dens.length != S.pdim then return "ERR"
          let res := refineKnotvectorCoded S dens tolMult
          if res.2 then return showShape res.1 else return "ERR"
      | _ => none
  -- helpers.knot_insertion(p, U, rows, u, num=r, s=s, span=k)
  | ["rowsins", p, us, rs, u, r, s, k] => do
      let p ← p.toNat?; let U ← parseList us; let R ← parsePts2 rs; let u ← parseRat u
      let r ← r.toNat?; let s ← s.toNat?; let k ← k.toNat?
      if p = 0 || U.length != R.length + p + 1 || !isSortedB U || !rowsOk R || r + s > p || k < p || k ≥ R.length
          || a51DivByZero p (fn U) r s k then return "ERR"
      return showPts2 (knotInsertionRows p (fn U) R u r s k)
  -- helpers.knot_removal(p, U, rows, u, num=num, s=s, span=k)
  | ["rowsrem", p, us, rs, u, num, s, k] => do
      let p ← p.toNat?; let U ← parseList us; let R ← parsePts2 rs; let u ← parseRat u
      let num ← num.toNat?; let s ← s.toNat?; let k ← k.toNat?
      if p = 0 || U.length != R.length + p + 1 || !isSortedB U || !rowsOk R || num > s || s > p || k < p + s || k ≥ R.length then return "ERR"
      return showPts2 (knotRemovalRows p (fn U) R u num s k (tolRemove * tolRemove))
  -- A5.4 as coded on rows for an explicit list X
  | ["rowsref", p, us, rs, xs] => do
      let p ← p.toNat?; let U ← parseList us; let R ← parsePts2 rs; let X ← parseList xs
      if p = 0 || U.length != R.length + p + 1 || !isSortedB U || !rowsOk R || X.isEmpty then return "ERR"
      let (kv, cp) := refineA54Rows p U R X tolMult
      return s!"{showList kv} {showPts2 cp}"
  -- the whole helper call with rows
  | ["rowsrefh", p, us, rs, kl, add, dens] => do
      let p ← p.toNat?; let U ← parseList us; let R ← parsePts2 rs; let add ← parseList add; let dens ← dens.toNat?
      let kl ← (if kl == "default" then some none else (parseList kl).map some)
      if p = 0 || U.length != R.length + p + 1 || !isSortedB U || !rowsOk R || dens = 0 then return "ERR"
      match kl with
      | some l => if l.isEmpty && add.isEmpty then return "ERR" else pure ()
      | none => pure ()
      match knotRefinementRows p U R kl add dens tolMult with
      | some (kv, cp) => return s!"{showList kv} {showPts2 cp}"
      | none => return "ERR"
  -- the gather alone: cpt2d of direction dir
  | "rowsgather" :: rest => do
      let (S, rest) ← parseShape rest
      match rest with
      | [dir] =>
          let dir ← dir.toNat?
          if !shapeOk S || S.pdim != 3 || dir ≥ 3 then return "ERR"
          return showPts2 (volRows dir (S.size 0) (S.size 1) (S.size 2) S.net)
      | _ => none
  -- a script of single-direction requests on a volume, every one computed through the rows:
  -- `I dir u r chk` | `R dir u num chk` | `F dir dens`
  | "rowsvol" :: rest => do
      let (S, rest) ← parseShape rest
      if !shapeOk S || S.pdim != 3 then return "ERR"
      rowsScript rest.length S rest
  | _ => none

end Drv
