import NurbsVerif.Model.Degree
import NurbsVerif.Driver.Parse
/- handlers for the degree elevation / reduction ops (C08) -/
namespace Drv
open Geomdl

def showOptPts (o : Option (List (List Rat))) : String :=
  match o with
  | some P => showPts P
  | none => "ERR"

/-- every point has the dimension of the first one and that dimension is positive
    (ragged input is outside the property; the harness never sends it) -/
def rectOk (P : List (List Rat)) : Bool :=
  match P with
  | [] => true
  | p0 :: rest => decide (0 < p0.length) && rest.all (fun pt => pt.length == p0.length)

def handleDegree : List String → Option String
  | ["binom", k, i] => do
      let k ← k.toNat?; let i ← i.toNat?
      return toString (binomialCoefficient k i)
  | ["binomrow", k] => do
      -- the whole row C(k,0) .. C(k,k+2) through the same model function (one case for the float-mode companion)
      let k ← k.toNat?
      return ",".intercalate ((List.range (k + 3)).map (fun i => toString (binomialCoefficient k i)))
  | ["elev", p, num, ps] => do
      let p ← p.toNat?; let num ← num.toInt?; let P ← parsePts ps
      if !rectOk P then return "ERR"
      return showOptPts (degreeElevationChecked p num P)
  | ["red", p, ps] => do
      let p ← p.toNat?; let P ← parsePts ps
      if !rectOk P then return "ERR"
      return showOptPts (degreeReductionChecked p P)
  | ["elevred", p, num, ps] => do
      -- elevate by `num`, then reduce `num` times
      let p ← p.toNat?; let num ← num.toNat?; let P ← parsePts ps
      if !rectOk P then return "ERR"
      match degreeElevationChecked p (num : Int) P with
      | none => return "ERR"
      | some Q => return showOptPts (degreeReduceTimes num (p + num) Q)
  | ["bern", ps, u] => do
      let P ← parsePts ps; let u ← parseRat u
      if P.isEmpty || !rectOk P then return "ERR"
      return showList (bernsteinEval P u)
  | ["opdeg", p, num, ps] => do
      -- operations.degree_operations(curve, [num]) on a one-span (Bezier) curve: the control
      -- points (homogeneous if rational) go through the helper unchanged
      let p ← p.toNat?; let num ← num.toInt?; let P ← parsePts ps
      if !rectOk P || P.length != p + 1 then return "ERR"
      if num == 0 then return showPts P
      if num > 0 then return showOptPts (degreeElevationChecked p num P)
      return showOptPts (degreeReductionChecked p P)
  | _ => none

end Drv
