import NurbsVerif.Model.Shape
import NurbsVerif.Driver.Parse
/- shape parsing / printing and the knot-operation ops (C04 …) -/
namespace Drv
open Geomdl

/-- `c rat p U P` | `s rat pu pv Uu Uv su sv P` | `v rat pu pv pw Uu Uv Uw su sv sw P`; returns the shape and the remaining tokens -/
def parseShape : List String → Option (Shape Rat × List String)
  | "c" :: rat :: p :: us :: ps :: rest => do
      let p ← p.toNat?; let U ← parseList us; let P ← parsePts ps
      return ({ rat := rat == "1", degs := [p], kvs := [U], sizes := [P.length], net := P }, rest)
  | "s" :: rat :: pu :: pv :: uus :: uvs :: su :: sv :: ps :: rest => do
      let pu ← pu.toNat?; let pv ← pv.toNat?; let Uu ← parseList uus; let Uv ← parseList uvs
      let su ← su.toNat?; let sv ← sv.toNat?; let P ← parsePts ps
      return ({ rat := rat == "1", degs := [pu, pv], kvs := [Uu, Uv], sizes := [su, sv], net := P }, rest)
  | "v" :: rat :: pu :: pv :: pw :: uus :: uvs :: uws :: su :: sv :: sw :: ps :: rest => do
      let pu ← pu.toNat?; let pv ← pv.toNat?; let pw ← pw.toNat?
      let Uu ← parseList uus; let Uv ← parseList uvs; let Uw ← parseList uws
      let su ← su.toNat?; let sv ← sv.toNat?; let sw ← sw.toNat?; let P ← parsePts ps
      return ({ rat := rat == "1", degs := [pu, pv, pw], kvs := [Uu, Uv, Uw], sizes := [su, sv, sw], net := P }, rest)
  | _ => none

def shapeOk (S : Shape Rat) : Bool :=
  (List.range S.pdim).all (fun d =>
    decide (1 ≤ S.deg d) && decide (S.deg d + 1 ≤ S.size d) && decide ((S.kv d).length = S.size d + S.deg d + 1)
      && isSortedB (S.kv d))
  && decide (S.net.length = S.sizes.foldl (· * ·) 1)

def showShape (S : Shape Rat) : String :=
  s!"{showNats S.degs} {";".intercalate (S.kvs.map showList)} {showNats S.sizes} {showPts S.net}"

def parseOptList (s : String) : Option (List (Option Rat)) :=
  (s.splitOn ",").mapM (fun t => if t == "None" then some none else (parseRat t).map some)

def inDomS (S : Shape Rat) (d : Nat) (u : Rat) : Bool :=
  decide (fnOf (S.kv d) (S.deg d) ≤ u) && decide (u ≤ fnOf (S.kv d) (S.size d))

/-- fold a list of `(params, nums, check)` insertion requests; `strict` = operations-level (an
    exception aborts), otherwise method-level (a rejected request leaves the object unchanged) -/
def insSeq (strict : Bool) : Shape Rat → List String → Option String
  | S, [] => some (showShape S)
  | S, ps :: ns :: chk :: rest => do
      let params ← parseOptList ps
      let nums ← parseNats ns
      if params.length != S.pdim || nums.length != S.pdim then return "ERR"
      if (List.range S.pdim).any (fun d => match params.getD d none with | some u => !inDomS S d u | none => false) then return "ERR"
      let res := insertKnot S params nums tolMult (chk == "1")
      if res.2 then insSeq strict res.1 rest
      else if strict then return "ERR" else insSeq strict res.1 rest
  | _, _ => none

def handleShape (toks : List String) : Option String :=
  match toks with
  | "ins" :: rest => do
      let (S, rest) ← parseShape rest
      if !shapeOk S then return "ERR"
      insSeq true S rest
  | "insm" :: rest => do
      let (S, rest) ← parseShape rest
      if !shapeOk S then return "ERR"
      insSeq false S rest
  | _ => none

end Drv
