import NurbsVerif.Model.Shape
import NurbsVerif.Model.Knots2
import NurbsVerif.Model.DecomposeE
import NurbsVerif.Model.RefineA54
import NurbsVerif.Model.InsertA51
import NurbsVerif.Model.Transform
import NurbsVerif.Model.SpanR
import NurbsVerif.Driver.Parse
/- shape parsing / printing and the knot-operation ops (C04 …) -/
namespace Drv
open Geomdl

/-- `c rat p U P` | `s rat pu pv Uu Uv su sv P` | `v rat pu pv pw Uu Uv Uw su sv sw P`; returns the shape and the remaining tokens -/
def parseShape : List String → Option (Shape Rat × List String)
  | "c" :: rat :: p :: us :: ps :: rest => do
      let p ← p.toNat?; let U ← parseList us; let P ← parsePts ps
      return ({ rat := rat == "1", degs := [p], kvs := [U], sizes := [P.length], net := P }, rest)
  | "s" :: rat :: pu :: pv :: uus :: uvs :: su :: sv :: ps :: rest => do
      let pu ← pu.toNat?; let pv ← pv.toNat?; let Uu ← parseList uus; let Uv ← parseList uvs
      let su ← su.toNat?; let sv ← sv.toNat?; let P ← parsePts ps
      return ({ rat := rat == "1", degs := [pu, pv], kvs := [Uu, Uv], sizes := [su, sv], net := P }, rest)
  | "v" :: rat :: pu :: pv :: pw :: uus :: uvs :: uws :: su :: sv :: sw :: ps :: rest => do
      let pu ← pu.toNat?; let pv ← pv.toNat?; let pw ← pw.toNat?
      let Uu ← parseList uus; let Uv ← parseList uvs; let Uw ← parseList uws
      let su ← su.toNat?; let sv ← sv.toNat?; let sw ← sw.toNat?; let P ← parsePts ps
      return ({ rat := rat == "1", degs := [pu, pv, pw], kvs := [Uu, Uv, Uw], sizes := [su, sv, sw], net := P }, rest)
  | _ => none

/-- `n` shapes one after the other -/
def parseShapes : Nat → List String → Option (List (Shape Rat) × List String)
  | 0, toks => some ([], toks)
  | n+1, toks => do
      let (S, rest) ← parseShape toks
      let (Ss, rest) ← parseShapes n rest
      return (S :: Ss, rest)

def shapeOk (S : Shape Rat) : Bool :=
  (List.range S.pdim).all (fun d =>
    decide (1 ≤ S.deg d) && decide (S.deg d + 1 ≤ S.size d) && decide ((S.kv d).length = S.size d + S.deg d + 1)
      && isSortedB (S.kv d))
  && decide (S.net.length = S.sizes.foldl (· * ·) 1)

/-- a rational shape with a stored weight 0: the Cartesian `ctrlpts` getter (`separate_ctrlpts_weights`) raises -/
def zeroWeightStored (S : Shape Rat) : Bool := S.rat && S.net.any (fun pt => pt.getLastD 0 == 0)

/-- the homogeneous point at the start of the domain (what `startPoint` projects: the rotation centre) -/
def startPointW (S : Shape Rat) : List Rat :=
  let U (d : Nat) := fnOf (S.kv d)
  let u0 (d : Nat) : Rat := U d (S.deg d)
  if S.pdim = 1 then curvePoint (S.deg 0) (U 0) S.net (u0 0)
  else if S.pdim = 2 then surfacePoint (S.deg 0) (S.deg 1) (U 0) (U 1) (S.size 0) (S.size 1) S.net (u0 0) (u0 1)
  else volumePoint (S.deg 0) (S.deg 1) (S.deg 2) (U 0) (U 1) (U 2) (S.size 0) (S.size 1) (S.size 2) S.net (u0 0) (u0 1) (u0 2)

def spatialDim (S : Shape Rat) : Nat := if S.rat then (dimOf S.net) - 1 else dimOf S.net

def showShape (S : Shape Rat) : String :=
  s!"{showNats S.degs} {";".intercalate (S.kvs.map showList)} {showNats S.sizes} {showPts S.net}"

def parseOptList (s : String) : Option (List (Option Rat)) :=
  (s.splitOn ",").mapM (fun t => if t == "None" then some none else (parseRat t).map some)

def inDomS (S : Shape Rat) (d : Nat) (u : Rat) : Bool :=
  decide (fnOf (S.kv d) (S.deg d) ≤ u) && decide (u ≤ fnOf (S.kv d) (S.size d))

/-- **outside the model** (statement audit 5, I3): the object-level knot-operation models (`insertKnotDir`,
    `insertKnotDirCoded`, `removeKnotDir`, the volume-rows twins) search the span with `findSpanLinear`, the search
    WITHOUT the step back of the F-01b repair, while /repo's `find_span_linear` steps back over empty spans
    (`findSpanLinearR`, Model/SpanR.lean).  The two differ only for a parameter at the domain end `u = U_n` of a knot
    vector whose last domain span is empty (`U_{n-1} = U_n`) – excluded by every theorem (`KvWF.last`, `DirReqOk.hi`).
    On exactly those requests the ops answer `OUT` ("not the model's business"): the harness then does not compare the
    model line and judges the implementation with the oracle alone. -/
def spanOutS (S : Shape Rat) (d : Nat) (u : Rat) : Bool :=
  findSpanLinearR (S.deg d) (fnOf (S.kv d)) (S.size d) u != findSpanLinear (S.deg d) (fnOf (S.kv d)) (S.size d) u

/-- some direction that the call really works on (`param` given, `num > 0`) has a span outside the model -/
def reqSpanOut (S : Shape Rat) (params : List (Option Rat)) (nums : List Nat) : Bool :=
  (List.range S.pdim).any (fun d => match params.getD d none with
    | some u => nums.getD d 0 != 0 && spanOutS S d u
    | none => false)

/-- `check_num=False` with a request beyond the degree (`num + s > degree` in a direction the call works on): the
    theorems carry `check = false → r + s ≤ p`; the code then raises `ValueError` (empty control points) or silently
    wraps negative indices and returns another net than the totalised model – outside the model (`OUT`) -/
def uncheckedOver (S : Shape Rat) (params : List (Option Rat)) (nums : List Nat) (check : Bool) : Bool :=
  !check && (List.range S.pdim).any (fun d => match params.getD d none with
    | some u => nums.getD d 0 != 0 && decide (nums.getD d 0 + findMultiplicity u (S.kv d) tolMult > S.deg d)
    | none => false)

/-- the guard of `operations.insert_knot` / `remove_knot` on the two lists, exactly as the code has it: `param[i]` is
    read for every parametric direction (`IndexError` when `param` is too short; a longer list is accepted, the
    surplus is never read); with `check_num` the `num` list must have exactly one entry per direction; without it
    `num[i]` is read only where `param[i]` is not `None` (short-circuit `and`), so only those entries must exist -/
def callListsOk (S : Shape Rat) (params : List (Option Rat)) (nums : List Nat) (check : Bool) : Bool :=
  decide (S.pdim ≤ params.length) &&
    (if check then nums.length == S.pdim
     else (List.range S.pdim).all (fun d => (params.getD d none).isNone || decide (d < nums.length)))

/-- fold a list of `(params, nums, check)` insertion requests; `strict` = operations-level (an
    exception aborts), otherwise method-level (a rejected request leaves the object unchanged) -/
def insSeq (strict : Bool) : Shape Rat → List String → Option String
  | S, [] => some (showShape S)
  | S, ps :: ns :: chk :: rest => do
      let params ← parseOptList ps
      let nums ← parseNats ns
      if !callListsOk S params nums (chk == "1") then return "ERR"
      -- a direction with `num = 0` is skipped by the code whatever its parameter is (I5)
      if (List.range S.pdim).any (fun d => match params.getD d none with | some u => nums.getD d 0 != 0 && !inDomS S d u | none => false) then return "ERR"
      if reqSpanOut S params nums || uncheckedOver S params nums (chk == "1") then return "OUT"
      let res := insertKnot S params nums tolMult (chk == "1")
      if res.2 then insSeq strict res.1 rest
      else if strict then return "ERR" else insSeq strict res.1 rest
  | _, _ => none

/-- one request of a knot-operation script -/
def applyReq (S : Shape Rat) : List String → Option ((Shape Rat × Bool) × List String)
  | "I" :: ps :: ns :: chk :: rest => do
      let params ← parseOptList ps
      let nums ← parseNats ns
      if !callListsOk S params nums (chk == "1") then none
      if (List.range S.pdim).any (fun d => match params.getD d none with | some u => !inDomS S d u | none => false) then none
      return (insertKnot S params nums tolMult (chk == "1"), rest)
  | "R" :: ps :: ns :: chk :: rest => do
      let params ← parseOptList ps
      let nums ← parseNats ns
      if !callListsOk S params nums (chk == "1") then none
      if (List.range S.pdim).any (fun d => match params.getD d none with | some u => !inDomS S d u | none => false) then none
      return (removeKnot S params nums tolMult (tolRemove * tolRemove) (chk == "1"), rest)
  | "F" :: ds :: rest => do
      let dens ← parseNats ds
      if dens.length != S.pdim then none
      return (refineKnotvector S dens tolMult, rest)
  | _ => none

/-- the next request of a script is an insertion / removal whose span search is outside the model (`spanOutS`) -/
def scriptReqOut (S : Shape Rat) : List String → Bool
  | "I" :: ps :: ns :: _ | "R" :: ps :: ns :: _ =>
      match parseOptList ps, parseNats ns with
      | some params, some nums =>
          !(List.range S.pdim).any (fun d => match params.getD d none with | some u => !inDomS S d u | none => false)
            && reqSpanOut S params nums
      | _, _ => false
  | _ => false

/-- a script of requests (`I` insert, `R` remove, `F` refine); `strict`: an exception aborts the
    script with `ERR`; otherwise (method level) the exception is swallowed and the script continues
    with whatever state the object has -/
def runScript (strict : Bool) : Nat → Shape Rat → List String → Option String
  | _, S, [] => some (showShape S)
  | 0, _, _ => none
  | fuel+1, S, toks =>
      if scriptReqOut S toks then some "OUT" else
      match applyReq S toks with
      | none => some "ERR"
      | some ((S', ok), rest) =>
          if ok then runScript strict fuel S' rest
          else if strict then some "ERR" else runScript strict fuel S' rest

/-- `helpers.knot_insertion` divides by `U[i+k+1] - U[L+i]` (`knot_insertion_alpha`), `L = k - p + j`, for
    `j = 1..num`, `i = 0..p-j-s`: `true` when one of these denominators is zero (the code raises `ZeroDivisionError`) -/
def a51DivByZero (p : Nat) (U : Nat → Rat) (r s k : Nat) : Bool :=
  (List.range' 1 r).any fun j => (List.range (p - j - s + 1)).any fun i => U (i + k + 1) == U (k - p + j + i)

def handleShape (toks : List String) : Option String :=
  match toks with
  | "ops" :: rest => do
      let (S, rest) ← parseShape rest
      if !shapeOk S then return "ERR"
      runScript true rest.length S rest
  | "opsm" :: rest => do
      let (S, rest) ← parseShape rest
      if !shapeOk S then return "ERR"
      runScript false rest.length S rest
  | "ins" :: rest => do
      let (S, rest) ← parseShape rest
      if !shapeOk S then return "ERR"
      insSeq true S rest
  | "insm" :: rest => do
      let (S, rest) ← parseShape rest
      if !shapeOk S then return "ERR"
      insSeq false S rest
  -- A5.1 as coded (literal transcription `knotInsertionA51`): helpers.knot_insertion(p, U, P, u, num=r, s=s, span=k),
  -- point branch.  Guard: no negative index (p <= k, r + s <= p), no read past the net (k < len P) and no zero alpha
  -- denominator among those the loops compute (`a51DivByZero`; for a non-empty span k of a sorted knot vector there
  -- is none); outside it the answer is ERR
  | ["insa51", p, us, ps, u, r, s, k] => do
      let p ← p.toNat?; let U ← parseList us; let P ← parsePts ps; let u ← parseRat u
      let r ← r.toNat?; let s ← s.toNat?; let k ← k.toNat?
      if p = 0 || U.length != P.length + p + 1 || !isSortedB U || r + s > p || k < p || k ≥ P.length
          || a51DivByZero p (fn U) r s k then return "ERR"
      return showPts (knotInsertionA51 p (fn U) P u r s k)
  -- the same call against the index-by-index model `knotInsertion`
  | ["inspt", p, us, ps, u, r, s, k] => do
      let p ← p.toNat?; let U ← parseList us; let P ← parsePts ps; let u ← parseRat u
      let r ← r.toNat?; let s ← s.toNat?; let k ← k.toNat?
      if p = 0 || U.length != P.length + p + 1 || !isSortedB U || r + s > p || k < p || k ≥ P.length
          || a51DivByZero p (fn U) r s k then return "ERR"
      return showPts (knotInsertion p (fn U) P u r s k)
  | "xform" :: rest => do
      let (S, rest) ← parseShape rest
      if !shapeOk S then return "ERR"
      -- the `ctrlpts` getter of a NURBS shape divides EVERY stored point by its weight: ZeroDivisionError on a zero weight
      if zeroWeightStored S then return "ERR"
      match rest with
      | ["T", vs] =>
          let vec ← parseList vs
          if vec.length != (if S.rat then (dimOf S.net) - 1 else dimOf S.net) then return "ERR"
          return showShape (translate S vec)
      | ["S", m] =>
          let m ← parseRat m
          return showShape (scale S m)
      | ["R", axis, c, sn] =>
          let axis ← axis.toNat?; let c ← parseRat c; let sn ← parseRat sn
          -- 2-D shapes: the code ignores `axis` (`axis = 2 if obj.dimension == 2 else int(axis)`), as `rotatePt` does
          if axis > 2 && spatialDim S != 2 then return "ERR"
          -- rotate_x / rotate_y write zeros into the coordinates >= 3, `rotatePt` keeps them: outside the model
          if spatialDim S > 3 && axis != 2 then return "OUT"
          -- the centre is the evaluated start point: a rational evaluation divides by its weight
          if S.rat && (startPointW S).getLastD 0 == 0 then return "ERR"
          return showShape (rotate S axis c sn)
      | _ => none
  -- containers: `xformc <n> <n shapes, each with its kind tag> <T vec | S m | R axis c s>`; answer: the elements joined by ` # `
  -- (`EMPTY` for an empty container).  ERR: an element that is not a valid shape, elements of different parametric / spatial
  -- dimension (the container refuses them), and the exceptions of the operations (see `translateAll`, `rotateAll`)
  | "xformc" :: n :: rest => do
      let n ← n.toNat?
      let (Ss, rest) ← parseShapes n rest
      if !(Ss.all shapeOk) then return "ERR"
      if Ss.any zeroWeightStored then return "ERR"
      let dimS (S : Shape Rat) := if S.rat then (dimOf S.net) - 1 else dimOf S.net
      match Ss with
      | S0 :: tl => if !(tl.all (fun S => S.pdim == S0.pdim && dimS S == dimS S0)) then return "ERR"
      | [] => pure ()
      let showAll (l : List (Shape Rat)) := if l.isEmpty then "EMPTY" else " # ".intercalate (l.map showShape)
      match rest with
      | ["T", vs] =>
          let vec ← parseList vs
          match Ss with
          | S0 :: _ => if vec.length != dimS S0 then return "ERR"
          | [] => pure ()
          match translateAll Ss vec with
          | some r => return showAll r
          | none => return "ERR"
      | ["S", m] =>
          let m ← parseRat m
          return showAll (scaleAll Ss m)
      | ["R", axis, c, sn] =>
          let axis ← axis.toNat?; let c ← parseRat c; let sn ← parseRat sn
          if axis > 2 && !(Ss.all (fun S => spatialDim S == 2)) then return "ERR"
          if Ss.any (fun S => spatialDim S > 3) && axis != 2 then return "OUT"
          match Ss with
          | S0 :: _ => if S0.rat && (startPointW S0).getLastD 0 == 0 then return "ERR"
          | [] => pure ()
          match rotateAll Ss axis c sn with
          | some r => return showAll r
          | none => return "ERR"
      | _ => none
  | ["refh", p, us, ps, kl, add, dens] => do
      let p ← p.toNat?; let U ← parseList us; let P ← parsePts ps; let add ← parseList add; let dens ← dens.toNat?
      let kl ← (if kl == "default" then some none else (parseList kl).map some)
      if p = 0 || U.length != P.length + p + 1 || !isSortedB U || dens = 0 then return "ERR"
      match kl with
      | some l => if l.isEmpty && add.isEmpty then return "ERR" else pure ()
      | none => pure ()
      match knotRefinementOf p U P kl add dens tolMult with
      | some (kv, cp) => return s!"{showList kv} {showPts cp}"
      | none => return "ERR"
  -- A5.4 as coded (literal transcription `refineA54`) for an explicit list X of knots to insert
  | ["refa54", p, us, ps, xs] => do
      let p ← p.toNat?; let U ← parseList us; let P ← parsePts ps; let X ← parseList xs
      if p = 0 || U.length != P.length + p + 1 || !isSortedB U || X.isEmpty then return "ERR"
      let (kv, cp) := refineA54 p U P X tolMult
      return s!"{showList kv} {showPts cp}"
  -- the whole helper call: X as the code computes it (`refineXOf`), then A5.4 as coded
  | ["refa54h", p, us, ps, kl, add, dens] => do
      let p ← p.toNat?; let U ← parseList us; let P ← parsePts ps; let add ← parseList add; let dens ← dens.toNat?
      let kl ← (if kl == "default" then some none else (parseList kl).map some)
      if p = 0 || U.length != P.length + p + 1 || !isSortedB U || dens = 0 then return "ERR"
      match kl with
      | some l => if l.isEmpty && add.isEmpty then return "ERR" else pure ()
      | none => pure ()
      match knotRefinementA54 p U P kl add dens tolMult with
      | some (kv, cp) => return s!"{showList kv} {showPts cp}"
      | none => return "ERR"
  | "split" :: rest => do
      let (S, rest) ← parseShape rest
      match rest with
      | [dir, u] =>
          let dir ← dir.toNat?; let u ← parseRat u
          if !shapeOk S || dir ≥ S.pdim then return "ERR"
          -- `splitDirD`: `splitDir` plus the exceptions of the code for a parameter of multiplicity > p (`splitDirE`)
          -- and for a parameter outside the domain [U_p, U_n] of the split direction
          match splitDirD S dir u tolMult with
          | some (a, b) => return s!"{showShape a} # {showShape b}"
          | none => return "ERR"
      | _ => none
  | "decomp" :: rest => do
      let (S, rest) ← parseShape rest
      match rest with
      | [dirs] =>
          if !shapeOk S then return "ERR"
          let fuelOf (d : Nat) (T : Shape Rat) := (T.kv d).length
          -- `decomposeDirE` / `decomposeUVE`: `decomposeDir` / `decomposeUV` with the exceptions of the code
          -- (`none` = the implementation raises: first interior knot on a domain end, or multiplicity > p)
          let pieces : Option (List (Shape Rat)) :=
            if dirs == "u" then decomposeDirE 0 tolMult (fuelOf 0 S) S
            else if dirs == "v" then decomposeDirE 1 tolMult (fuelOf 1 S) S
            else decomposeUVE tolMult S
          match pieces with
          | some ps => return " # ".intercalate (ps.map showShape)
          | none => return "ERR"
      | _ => none
  | _ => none

end Drv
