import NurbsVerif.Model.Predicates
import NurbsVerif.Driver.Parse
/- handlers for the C20 ops: is_left / wn_poly / convex_hull / ray.intersect / frange / voxel grid /
   in-out test / voxelize / find_ctrlpts -/
namespace Drv
open Geomdl

def toP2 : List Rat → Option (Rat × Rat)
  | x :: y :: _ => some (x, y)
  | _ => none
def toP3 : List Rat → Option (Rat × Rat × Rat)
  | [x, y, z] => some (x, y, z)
  | _ => none
def ofP2 (p : Rat × Rat) : List Rat := [p.1, p.2]
def ofP3 (p : Rat × Rat × Rat) : List Rat := [p.1, p.2.1, p.2.2]
def parseP2 (s : String) : Option (Rat × Rat) := parseList s >>= toP2
def parseP3 (s : String) : Option (Rat × Rat × Rat) := parseList s >>= toP3
def parseP2s (s : String) : Option (List (Rat × Rat)) := parsePts s >>= (·.mapM toP2)
def parseP3s (s : String) : Option (List (Rat × Rat × Rat)) := parsePts s >>= (·.mapM toP3)
def toN3 : List Nat → Option (Nat × Nat × Nat)
  | [a, b, c] => some (a, b, c)
  | _ => none

def showGrid (g : List ((Rat × Rat × Rat) × (Rat × Rat × Rat))) : String :=
  showPts2 (g.map (fun bb => [ofP3 bb.1, ofP3 bb.2]))

/-- fuel handed to `frange`: far above anything the generators produce -/
def frFuel : Nat := 200000

def okKv' (p n : Nat) (U : List Rat) : Bool :=
  decide (1 ≤ p) && decide (p + 1 ≤ n) && decide (U.length = n + p + 1) && isSortedB U
def inDom' (p n : Nat) (U : List Rat) (u : Rat) : Bool := decide (fn U p ≤ u) && decide (u ≤ fn U n)
/-- F-01b guard for the ops that only SEARCH a span: the repaired `find_span_linear` steps back from an empty found
    span `k > p` (`U_k = U_{k+1}`) to the last non-empty one; the model `findSpanLinear` does not (all theorems assume
    `KnotsOk`), so the op answers ERR where the two differ -/
def stepBackAt (p n : Nat) (U : List Rat) (u : Rat) : Bool :=
  let k := findSpanLinear p (fn U) n u
  decide (p < k) && fn U k == fn U (k + 1)

def handlePredicates : List String → Option String
  | ["isleft", a, b, c] => do
      let a ← parseP2 a; let b ← parseP2 b; let c ← parseP2 c
      return showRat (isLeft a b c)
  | ["wn", pt, vs] => do
      let pt ← parseP2 pt; let vs ← parseP2s vs
      return (if wnPoly pt vs then "True" else "False")
  | ["hull", ps] => do
      let ps ← parseP2s ps
      return showPts ((convexHull ps).map ofP2)
  | ["ray", a1, a2, b1, b2, tol, m] => do
      let a1 ← parseList a1; let a2 ← parseList a2; let b1 ← parseList b1; let b2 ← parseList b2
      let tol ← parseRat tol; let m ← parseRat m
      -- Ray(): both points of a ray have the same length; intersect(): equal dimensions, 2 or 3
      if a1.length ≠ a2.length ∨ b1.length ≠ b2.length ∨ a1.length ≠ b1.length then return "ERR"
      match a1, a2, b1, b2 with
      | [a1x, a1y], [a2x, a2y], [b1x, b1y], [b2x, b2y] =>
        let r := intersect2d (a1x, a1y) (a2x, a2y) (b1x, b1y) (b2x, b2y) tol m
        return s!"{showRat r.1} {showRat r.2.1} {r.2.2}"
      | [a1x, a1y, a1z], [a2x, a2y, a2z], [b1x, b1y, b1z], [b2x, b2y, b2z] =>
        let r := intersect3d (a1x, a1y, a1z) (a2x, a2y, a2z) (b1x, b1y, b1z) (b2x, b2y, b2z) tol m
        return s!"{showRat r.1} {showRat r.2.1} {r.2.2}"
      | _, _, _, _ => return "ERR"
  | ["frange", a, b, s] => do
      let a ← parseRat a; let b ← parseRat b; let s ← parseRat s
      match frange a b s frFuel with
      | some l => return showList l
      | none => return "HANG"
  | ["voxgrid", bmin, bmax, sz, cubes] => do
      let bmin ← parseP3 bmin; let bmax ← parseP3 bmax; let sz ← parseNats sz >>= toN3
      if sz.1 ≤ 1 ∨ sz.2.1 ≤ 1 ∨ sz.2.2 ≤ 1 then return "ERR"
      match generateVoxelGrid bmin bmax sz (cubes == "1") frFuel with
      | some g => return showGrid g
      | none => return "HANG"
  | ["inside", bbmin, bbmax, tol, pts] => do
      let bbmin ← parseP3 bbmin; let bbmax ← parseP3 bbmax; let tol ← parseRat tol; let pts ← parseP3s pts
      return (if isPointInsideVoxel (bbmin, bbmax) pts tol then "1" else "0")
  | ["vox", bmin, bmax, sz, cubes, tol, pts] => do
      let bmin ← parseP3 bmin; let bmax ← parseP3 bmax; let sz ← parseNats sz >>= toN3
      let tol ← parseRat tol; let pts ← parseP3s pts
      if sz.1 ≤ 1 ∨ sz.2.1 ≤ 1 ∨ sz.2.2 ≤ 1 then return "ERR"
      match voxelize bmin bmax pts sz (cubes == "1") tol frFuel with
      | some (g, f) => return showNats f ++ " " ++ showGrid g
      | none => return "HANG"
  | ["fcpc", p, us, ps, u] => do
      let p ← p.toNat?; let U ← parseList us; let P ← parsePts ps; let u ← parseRat u
      -- `operations.find_ctrlpts` has NO domain check (audit 4, H6 note): outside [U_p, U_n] the span search returns the
      -- first / last span and its control points are returned; driver = code
      if !(okKv' p P.length U) || stepBackAt p P.length U u then return "ERR"
      return showPts (findCtrlptsCurve [] p (fn U) P u)
  | ["fcps", pu, pv, uus, uvs, su, sv, ps, u, v] => do
      let pu ← pu.toNat?; let pv ← pv.toNat?; let Uu ← parseList uus; let Uv ← parseList uvs
      let su ← su.toNat?; let sv ← sv.toNat?; let P2 ← parsePts2 ps; let u ← parseRat u; let v ← parseRat v
      if !(okKv' pu su Uu && okKv' pv sv Uv
           && P2.length == su && P2.all (·.length == sv)) || stepBackAt pu su Uu u || stepBackAt pv sv Uv v then return "ERR"
      return showPts2 (findCtrlptsSurface [] pu pv (fn Uu) (fn Uv) su sv P2 u v)
  | _ => none

end Drv
