import NurbsVerif.Model.Equality
import NurbsVerif.Driver.Parse
/- handler for the equality op (C19)

   eq  <shape a> <shape b>          ->  "<a == b> <b == a> <a != b>"   (True / False)
   a shape is 8 tokens:  pdim rat(0|1) degrees sizes knotvectors(`..;..`) net(`..;..`) precision tol
   (`tol` is the value of `10 ** (-precision)`, computed by the harness with the code's expression) -/
namespace Drv
open Geomdl

def parseCmpShape : List String → Option (CmpShape Rat)
  | [pd, rat, degs, sizes, kvs, net, prec, tol] => do
      let pd ← pd.toNat?; let degs ← parseNats degs; let sizes ← parseNats sizes
      let kvs ← parsePts kvs; let net ← parsePts net; let prec ← prec.toNat?; let tol ← parseRat tol
      return ⟨pd, rat == "1", degs, kvs, sizes, net, prec, tol⟩
  | _ => none

def pyBool (b : Bool) : String := if b then "True" else "False"

def handleEquality : List String → Option String
  | "eq" :: rest => do
      if rest.length ≠ 16 then none
      let a ← parseCmpShape (rest.take 8); let b ← parseCmpShape (rest.drop 8)
      return s!"{pyBool (eqShape a b)} {pyBool (eqShape b a)} {pyBool (neShape a b)}"
  | _ => none

end Drv
