import NurbsVerif.Model.Linalg
import NurbsVerif.Driver.Parse
/- handlers for the linear-algebra ops (C16); all op names start with `la.` -/
namespace Drv
open Lin

/-- every row has at least `c` entries (Python indexes `row[j]` for `j < c`) -/
def rowsGe (A : List (List Rat)) (c : Nat) : Bool := A.all (fun r => decide (c ≤ r.length))

def isPow2 : Nat → Nat → Bool
  | 0, _ => false
  | fuel+1, d => d == 1 || (d % 2 == 0 && isPow2 fuel (d / 2))

/-- exact square root of a rational, if it has one that is a (small) dyadic rational, i.e. a value
    `math.sqrt` returns exactly; otherwise `none` (the square root is not a model quantity) -/
def ratSqrt (r : Rat) : Option Rat :=
  if r < 0 then none else
  let n := r.num.toNat; let d := r.den
  let sn := Nat.sqrt n; let sd := Nat.sqrt d
  if sn * sn = n ∧ sd * sd = d ∧ isPow2 64 sd ∧ sn < 2 ^ 50 then some (mkRat sn sd) else none

def showOut : Out Rat → String
  | none => "ERR"
  | some l => showPts2 l

/-- the guard under which the implementation raises for reasons other than a zero pivot -/
def opOk : Op Rat → Bool
  | .identity _ => true
  | .pivot m => isSquare m
  | .inverse m => isSquare m && decide (0 < m.length)
  | .det m => isSquare m
  | .luSolve A b => isSquare A && decide (0 < b.length) && decide (b.length ≤ A.length) && rowsGe b (b.headD []).length
  | .luFactor A b => isSquare A && decide (0 < b.length) && decide (b.length = A.length) && isRect b (b.headD []).length

def parseOp : List String → Option (Op Rat)
  | ["ident", n] => do let n ← n.toNat?; return .identity n
  | ["pivot", a] => do let a ← parsePts a; return .pivot a
  | ["inverse", a] => do let a ← parsePts a; return .inverse a
  | ["det", a] => do let a ← parsePts a; return .det a
  | ["lusolve", a, b] => do let a ← parsePts a; let b ← parsePts b; return .luSolve a b
  | ["lufactor", a, b] => do let a ← parsePts a; let b ← parsePts b; return .luFactor a b
  | _ => none

/-- a history: ops separated by `;` tokens, run on the model with the cache as explicit state,
    starting from the empty cache; a call whose guard fails answers `ERR` and leaves the state alone -/
def runHist : Cache Rat → List (Op Rat) → List String
  | _, [] => []
  | c, op :: ops =>
    if opOk op then let r := stepC c op; showOut r.2 :: runHist r.1 ops
    else "ERR" :: runHist c ops

def handleLinalg : List String → Option String
  | ["la.dot", v, w] => do
      let v ← parseList v; let w ← parseList w
      if v.isEmpty || w.isEmpty then return "ERR"
      return showRat (vectorDot v w)
  | ["la.cross", v, w] => do
      let v ← parseList v; let w ← parseList w
      match vectorCross v w with
      | some r => return showList r
      | none => return "ERR"
  | ["la.normsq", v] => do
      let v ← parseList v
      return showRat (normSq v)
  | ["la.norm", v] => do
      let v ← parseList v
      match ratSqrt (normSq v) with
      | some r => return showRat r
      | none => return "IRR"
  | ["la.normalize", v] => do
      let v ← parseList v
      if v.isEmpty then return "ERR"
      match ratSqrt (normSq v) with
      | some r => match vectorNormalize v r with
          | some o => return showList o
          | none => return "ERR"
      | none => return "IRR"
  | ["la.vmul", v, s] => do
      let v ← parseList v; let s ← parseRat s
      return showList (vectorMultiply v s)
  | ["la.vsum", v, w, c] => do
      let v ← parseList v; let w ← parseList w; let c ← parseRat c
      return showList (vectorSum v w c)
  | ["la.vgen", s, e] => do
      let s ← parseList s; let e ← parseList e
      if s.isEmpty || e.isEmpty then return "ERR"
      return showList (vectorGenerate s e)
  | ["la.ptrans", p, v] => do
      let p ← parseList p; let v ← parseList v
      if p.isEmpty || v.isEmpty then return "ERR"
      return showList (pointTranslate p v)
  | ["la.pmid", p, q] => do
      let p ← parseList p; let q ← parseList q
      if p.length != q.length || p.isEmpty then return "ERR"
      return showList (pointMid p q)
  | ["la.vmean", m] => do
      let m ← parsePts m
      if m.isEmpty then return "ERR"
      return showList (vectorMean m)
  | ["la.viszero", v] => do
      let v ← parseList v
      return (if vectorIsZero v tolMult then "True" else "False")
  | ["la.transpose", m] => do
      let m ← parsePts m
      if m.isEmpty || !(rowsGe m (m.headD []).length) then return "ERR"
      return showPts (matrixTranspose m)
  | ["la.mmul", a, b] => do
      let a ← parsePts a; let b ← parsePts b
      if !(matrixMultiplyOk a b) then return "ERR"
      return showPts (matrixMultiply a b)
  | ["la.mvec", a, v] => do
      let a ← parsePts a; let v ← parseList v
      if !(matrixVectorOk a v) then return "ERR"
      return showList (matrixVector a v)
  | ["la.mscal", m, s] => do
      let m ← parsePts m; let s ← parseRat s
      if m.isEmpty || !(rowsGe m (m.headD []).length) then return "ERR"
      return showPts ((matrixScalar m s).map (fun r => r.take (m.headD []).length))
  | ["la.binom", k, i] => do
      let k ← k.toNat?; let i ← i.toNat?
      return toString (binomialCoefficient k i)
  | ["la.lud", a] => do
      let a ← parsePts a
      if !(isSquare a) then return "ERR"
      let lu := luDecomposition a
      return showPts2 [lu.1, lu.2]
  | ["la.fwd", l, b] => do
      let l ← parsePts l; let b ← parseList b
      if b.isEmpty || l.length < b.length || !(rowsGe (l.take b.length) b.length) then return "ERR"
      match fwdSub (ent l) (vent b) b.length with
      | some y => return showList y
      | none => return "ERR"
  | ["la.bwd", u, y] => do
      let u ← parsePts u; let y ← parseList y
      if y.isEmpty || u.length < y.length || !(rowsGe (u.take y.length) y.length) then return "ERR"
      match bwdSub (ent u) (vent y) y.length with
      | some x => return showList x
      | none => return "ERR"
  | ["la.detlaplace", a] => do
      let a ← parsePts a
      if !(isSquare a) then return "ERR"
      return showRat (detLaplace a.length a)
  | "la.hist" :: rest => do
      let ops ← (rest.splitOn ";").mapM parseOp
      return " ; ".intercalate (runHist [] ops)
  | "la.op" :: rest => do
      let op ← parseOp rest
      if !(opOk op) then return "ERR"
      return showOut (pureOut op)
  | _ => none

end Drv
