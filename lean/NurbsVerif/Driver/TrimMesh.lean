import NurbsVerif.Model.TrimMesh
import NurbsVerif.Driver.Parse
/- handlers for the trimmed tessellation ops (C15)

   mesh trimcell tol tols hi rtol SQ TRIMS CORNERS vidx tidx
        -> fl=<bbb,bbb,bbb,bbb> V=<id@u,v;…> T=<tid:a,b,c;…>        one call of surface_trim_tessellate
   mesh trim     tol tols hi rtol SQ TRIMS su sv s
        -> <cell> | <cell> | … || old=<ids> uv=<u,v;…> F=<a,b,c;…>     every call of the cell loop, then the mesh after fix_numbering

   SQ      = rad,root;rad,root;…   table of the square roots the implementation computed (`-` = empty)
   TRIMS   = r:x,y;x,y;…|r:…       r = 1 reversed, 0 not (`-` = no trims)
   CORNERS = id:u,v:bbb|…          four corners; bbb = inside, trim, no_trim as 0/1
-/
namespace Drv
open Geomdl

def parseTrim (s : String) : Option (Trim Rat) :=
  match s.splitOn ":" with
  | [r, ps] => do
      let pts ← parsePts ps
      let pts ← pts.mapM fun p => match p with
        | [x, y] => some (x, y)
        | _ => none
      some { pts := pts, reversed := r == "1" }
  | _ => none

def parseTrims (s : String) : Option (List (Trim Rat)) :=
  if s == "-" then some [] else (s.splitOn "|").mapM parseTrim

def parseFlags (s : String) : Option TrimFlags :=
  match s.toList with
  | [a, b, c] => some { inside := a == '1', trim := b == '1', noTrim := c == '1' }
  | _ => none

def parseCorner (s : String) : Option (TVertex Rat) :=
  match s.splitOn ":" with
  | [i, uv, fl] => do
      let i ← i.toNat?
      let uv ← parseList uv
      let fl ← parseFlags fl
      match uv with
      | [u, v] => some { id := i, uv := (u, v), fl := fl }
      | _ => none
  | _ => none

def parseSqTable (s : String) : Option (Rat → Rat) := do
  let t ← parsePts s
  let t ← t.mapM fun p => match p with
    | [a, b] => some (a, b)
    | _ => none
  some fun x => match t.find? (fun p => p.1 == x) with
    | some p => p.2
    | none => 0

def bit (b : Bool) : String := if b then "1" else "0"
def showFlags (f : TrimFlags) : String := bit f.inside ++ bit f.trim ++ bit f.noTrim

def showTrimVerts (l : List (Nat × (Rat × Rat))) : String :=
  if l.isEmpty then "-" else ";".intercalate (l.map fun p => s!"{p.1}@{showRat p.2.1},{showRat p.2.2}")

def showTrimTris (l : List (Nat × List Nat)) : String :=
  if l.isEmpty then "-" else ";".intercalate (l.map fun p => s!"{p.1}:{showNats p.2}")

def showTrimCell (r : TrimCellResult Rat) : String :=
  s!"fl={",".intercalate (r.flags.map showFlags)} V={showTrimVerts r.verts} T={showTrimTris r.tris}"

def handleTrimMesh : List String → Option String
  | ["mesh", "trimcell", tol, tols, hi, rtol, sqs, trims, corners, vidx, tidx] => do
      let tol ← parseRat tol; let tols ← parseRat tols; let hi ← parseRat hi; let rtol ← parseRat rtol
      let sq ← parseSqTable sqs; let trims ← parseTrims trims
      let cs ← (corners.splitOn "|").mapM parseCorner
      let vidx ← vidx.toNat?; let tidx ← tidx.toNat?
      match cs with
      | [v1, v2, v3, v4] =>
        return showTrimCell (trimCell { tol := tol, tols := tols, hi := hi, rtol := rtol } sq trims v1 v2 v3 v4 vidx tidx)
      | _ => none
  | ["mesh", "trim", tol, tols, hi, rtol, sqs, trims, su, sv, s] => do
      let tol ← parseRat tol; let tols ← parseRat tols; let hi ← parseRat hi; let rtol ← parseRat rtol
      let sq ← parseSqTable sqs; let trims ← parseTrims trims
      let su ← su.toNat?; let sv ← sv.toNat?; let s ← s.toNat?
      if su < 2 ∨ sv < 2 ∨ s < 1 then return "ERR"
      let tt : TrimTol Rat := { tol := tol, tols := tols, hi := hi, rtol := rtol }
      let uvs : List (Rat × Rat) := (meshVertices (K := Rat) su sv s).map (·.1)
      let st := trimCells tt sq trims uvs (gridCount su s) (gridCount sv s)
      let m := makeTrimMesh tt sq trims su sv s
      let uvStr := if m.uv.isEmpty then "-" else ";".intercalate (m.uv.map fun p => showRat p.1 ++ "," ++ showRat p.2)
      let fStr := if m.faces.isEmpty then "-" else ";".intercalate (m.faces.map showNats)
      return " | ".intercalate (st.trace.map showTrimCell) ++ s!" || old={showNats m.old} uv={uvStr} F={fStr}"
  | _ => none

end Drv
