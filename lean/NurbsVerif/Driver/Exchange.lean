import NurbsVerif.Model.Exchange
import NurbsVerif.Driver.Parse
/- handlers for the exchange formats (C14): token streams of the writers, results of the readers.

  text forms
    FILE   lines `;`-separated, tokens `,`-separated (a natural number is an integer token, `a/b` or a
           negative number a number token, anything else a word)
    FILE2  lines `|`, points `;`, coordinates `,`  (= `showPts2`)
    shapes  c:rat:p:U:P:delta:rev            rev ∈ n (absent) | t | f
            s:rat:pu:pv:su:sv:Uu:Uv:P:du:dv:rev:ntrims   followed by the trims:
                 c:…  |  f:P:name:rev  |  k:n:rev followed by n curves
            v:rat:pu:pv:pw:su:sv:sw:Uu:Uv:Uw:P:du:dv:dw
-/
namespace Drv
namespace Ex
open Geomdl Geomdl.Exch

def showTok : Tok Rat → String
  | .nat n => toString n
  | .num x => showRat x
  | .word s => s

def showFile (f : File Rat) : String := ";".intercalate (f.map (fun l => ",".intercalate (l.map showTok)))

def parseTok (s : String) : Tok Rat :=
  match s.toNat? with
  | some n => .nat n
  | none => match parseRat s with
    | some x => .num x
    | none => .word s

def parseFile (s : String) : File Rat :=
  (s.splitOn ";").map (fun l => if l == "" then [] else (l.splitOn ",").map parseTok)

def parseFile2 (s : String) : File2 Rat :=
  (s.splitOn "|").map (fun l => if l == "" then [] else
    (l.splitOn ";").map (fun p => if p == "" then [] else (p.splitOn ",").map parseTok))

def showB (b : Bool) : String := if b then "1" else "0"
def showRev : Option Bool → String
  | none => "n"
  | some true => "t"
  | some false => "f"
def parseRev (s : String) : Option (Option Bool) :=
  if s == "n" then some none else if s == "t" then some (some true) else if s == "f" then some (some false) else none

def showSrf (s : Srf Rat) : String :=
  s!"{showB s.rational} {s.degU} {s.degV} {s.sizeU} {s.sizeV} {showList s.knotsU} {showList s.knotsV} {showPts s.net}"
def showVol (v : Vol Rat) : String :=
  s!"{showB v.rational} {v.degU} {v.degV} {v.degW} {v.sizeU} {v.sizeV} {v.sizeW} {showList v.knotsU} {showList v.knotsV} {showList v.knotsW} {showPts v.net}"

/-! shapes of the dict form -/
def showCrvX (c : CrvX Rat) : String :=
  s!"c:{showB c.g.rational}:{c.g.degree}:{showList c.g.knots}:{showPts c.g.net}:{showRat c.delta}:{showRev c.reversed}"

def parseCrvX (s : String) : Option (CrvX Rat) :=
  match s.splitOn ":" with
  | ["c", rat, p, us, ps, d, rev] => do
      let p ← p.toNat?; let U ← parseList us; let P ← parsePts ps; let d ← parseRat d; let rev ← parseRev rev
      some { g := { rational := rat == "1", degree := p, knots := U, net := P }, delta := d, reversed := rev }
  | _ => none

def showTrim : Trim Rat → String
  | .spline c => showCrvX c
  | .freeform f => s!"f:{showPts f.points}:{f.name}:{showRev f.reversed}"
  | .container items rev => " ".intercalate (s!"k:{items.length}:{showRev rev}" :: items.map showCrvX)

def showSrfX (s : SrfX Rat) : String :=
  " ".intercalate (s!"s:{showB s.g.rational}:{s.g.degU}:{s.g.degV}:{s.g.sizeU}:{s.g.sizeV}:{showList s.g.knotsU}:{showList s.g.knotsV}:{showPts s.g.net}:{showRat s.delta.1}:{showRat s.delta.2}:{showRev s.reversed}:{s.trims.length}"
    :: s.trims.map showTrim)

def showVolX (v : VolX Rat) : String :=
  s!"v:{showB v.g.rational}:{v.g.degU}:{v.g.degV}:{v.g.degW}:{v.g.sizeU}:{v.g.sizeV}:{v.g.sizeW}:{showList v.g.knotsU}:{showList v.g.knotsV}:{showList v.g.knotsW}:{showPts v.g.net}:{showRat v.delta.1}:{showRat v.delta.2.1}:{showRat v.delta.2.2}"

def showShapes : Shapes Rat → String
  | .curves l => " ".intercalate (l.map showCrvX)
  | .surfaces l => " ".intercalate (l.map showSrfX)
  | .volumes l => " ".intercalate (l.map showVolX)

/-- `n` curves from the front of the token list -/
def takeCrvs : Nat → List String → Option (List (CrvX Rat) × List String)
  | 0, r => some ([], r)
  | n + 1, t :: r => do
      let c ← parseCrvX t
      let (cs, r') ← takeCrvs n r
      some (c :: cs, r')
  | _ + 1, [] => none

/-- `n` trims from the front of the token list -/
def takeTrims : Nat → List String → Option (List (Trim Rat) × List String)
  | 0, r => some ([], r)
  | _ + 1, [] => none
  | n + 1, t :: r =>
    match t.splitOn ":" with
    | ["f", ps, name, rev] => do
        let P ← parsePts ps; let rev ← parseRev rev
        let (ts, r') ← takeTrims n r
        some (.freeform { points := P, name := name, reversed := rev } :: ts, r')
    | ["k", k, rev] => do
        let k ← k.toNat?; let rev ← parseRev rev
        let (cs, r1) ← takeCrvs k r
        let (ts, r') ← takeTrims n r1
        some (.container cs rev :: ts, r')
    | _ => do
        let c ← parseCrvX t
        let (ts, r') ← takeTrims n r
        some (.spline c :: ts, r')

def takeSrfs : Nat → List String → Option (List (SrfX Rat) × List String)
  | 0, r => some ([], r)
  | _ + 1, [] => none
  | n + 1, t :: r =>
    match t.splitOn ":" with
    | ["s", rat, pu, pv, su, sv, uus, uvs, ps, du, dv, rev, nt] => do
        let pu ← pu.toNat?; let pv ← pv.toNat?; let su ← su.toNat?; let sv ← sv.toNat?
        let Uu ← parseList uus; let Uv ← parseList uvs; let P ← parsePts ps
        let du ← parseRat du; let dv ← parseRat dv; let rev ← parseRev rev; let nt ← nt.toNat?
        let (ts, r1) ← takeTrims nt r
        let (ss, r') ← takeSrfs n r1
        some ({ g := { rational := rat == "1", degU := pu, degV := pv, sizeU := su, sizeV := sv, knotsU := Uu, knotsV := Uv, net := P },
                delta := (du, dv), reversed := rev, trims := ts } :: ss, r')
    | _ => none

def parseVolX (s : String) : Option (VolX Rat) :=
  match s.splitOn ":" with
  | ["v", rat, pu, pv, pw, su, sv, sw, uus, uvs, uws, ps, du, dv, dw] => do
      let pu ← pu.toNat?; let pv ← pv.toNat?; let pw ← pw.toNat?
      let su ← su.toNat?; let sv ← sv.toNat?; let sw ← sw.toNat?
      let Uu ← parseList uus; let Uv ← parseList uvs; let Uw ← parseList uws; let P ← parsePts ps
      let du ← parseRat du; let dv ← parseRat dv; let dw ← parseRat dw
      some { g := { rational := rat == "1", degU := pu, degV := pv, degW := pw, sizeU := su, sizeV := sv, sizeW := sw,
                    knotsU := Uu, knotsV := Uv, knotsW := Uw, net := P }, delta := (du, dv, dw) }
  | _ => none

def parseShapes (kind : String) (toks : List String) : Option (Shapes Rat) :=
  if kind == "curve" then (toks.mapM parseCrvX).map Shapes.curves
  else if kind == "surface" then
    match takeSrfs ((toks.filter (fun t => t.startsWith "s:")).length) toks with
    | some (l, []) => some (Shapes.surfaces l)
    | _ => none
  else if kind == "volume" then (toks.mapM parseVolX).map Shapes.volumes
  else none

/-! the record text (key order of the dict literals, i.e. of the JSON file) -/
def jList (l : List Rat) : String := "[" ++ ",".intercalate (l.map showRat) ++ "]"
def jPts (l : List (List Rat)) : String := "[" ++ ",".intercalate (l.map jList) ++ "]"
def jBool (b : Bool) : String := if b then "true" else "false"
def jRev : Option Bool → String
  | none => ""
  | some b => ",reversed:" ++ jBool b
def jCps (pts : List (List Rat)) (ws : Option (List Rat)) : String :=
  "control_points:{points:" ++ jPts pts ++ (match ws with | some w => ",weights:" ++ jList w | none => "") ++ "}"

def jCrv (r : CrvRec Rat) : String :=
  "{type:spline,rational:" ++ jBool r.rational ++ s!",dimension:{r.dimension},degree:{r.degree},knotvector:" ++ jList r.knotvector
   ++ "," ++ jCps r.points r.weights ++ ",delta:" ++ showRat r.delta ++ jRev r.reversed ++ "}"
def jFf (r : FfRec Rat) : String :=
  "{type:freeform," ++ s!"dimension:{r.dimension},points:" ++ jPts r.points ++ ",name:" ++ r.name ++ jRev r.reversed ++ "}"
def jTrim : TrimRec Rat → String
  | .spline c => jCrv c
  | .freeform f => jFf f
  | .container m => "{type:container," ++ s!"count:{m.count},data:[" ++ ",".intercalate (m.data.map jCrv) ++ "]" ++ jRev m.reversed ++ "}"
def jSrf (r : SrfRec Rat) : String :=
  "{type:spline,rational:" ++ jBool r.rational ++ s!",dimension:{r.dimension},degree_u:{r.degU},degree_v:{r.degV},knotvector_u:"
   ++ jList r.knotsU ++ ",knotvector_v:" ++ jList r.knotsV ++ s!",size_u:{r.sizeU},size_v:{r.sizeV}," ++ jCps r.points r.weights
   ++ ",delta:" ++ jList [r.delta.1, r.delta.2] ++ jRev r.reversed
   ++ (match r.trims with
       | some (n, l) => ",trims:{" ++ s!"count:{n},data:[" ++ ",".intercalate (l.map jTrim) ++ "]}"
       | none => "") ++ "}"
def jVol (r : VolRec Rat) : String :=
  "{type:spline,rational:" ++ jBool r.rational ++ s!",dimension:{r.dimension},degree_u:{r.degU},degree_v:{r.degV},degree_w:{r.degW},knotvector_u:"
   ++ jList r.knotsU ++ ",knotvector_v:" ++ jList r.knotsV ++ ",knotvector_w:" ++ jList r.knotsW
   ++ s!",size_u:{r.sizeU},size_v:{r.sizeV},size_w:{r.sizeW}," ++ jCps r.points r.weights
   ++ ",delta:" ++ jList [r.delta.1, r.delta.2.1, r.delta.2.2] ++ "}"
def jShape : ShapeRec Rat → String
  | .curve n d => "{shape:{type:curve," ++ s!"count:{n},data:[" ++ ",".intercalate (d.map jCrv) ++ "]}}"
  | .surface n d => "{shape:{type:surface," ++ s!"count:{n},data:[" ++ ",".intercalate (d.map jSrf) ++ "]}}"
  | .volume n d => "{shape:{type:volume," ++ s!"count:{n},data:[" ++ ",".intercalate (d.map jVol) ++ "]}}"

def showSaved : Option (List (List (List Rat))) → String
  | some l => showPts2 l
  | none => "ERR"

def parseOv (s : String) : Option (Option Rat) := if s == "-" then some none else (parseRat s).map some

def handleExchange : List String → Option String
  | ["smesh-w", rat, pu, pv, su, sv, uus, uvs, ps] => do
      let pu ← pu.toNat?; let pv ← pv.toNat?; let su ← su.toNat?; let sv ← sv.toNat?
      let Uu ← parseList uus; let Uv ← parseList uvs; let P ← parsePts ps
      if P.length < su * sv then return "ERR"
      return showFile (smeshWrite { rational := rat == "1", degU := pu, degV := pv, sizeU := su, sizeV := sv, knotsU := Uu, knotsV := Uv, net := P })
  | ["smesh-r", f] =>
      match smeshRead (parseFile f) with
      | some s => some (showSrf s)
      | none => some "ERR"
  | ["vmesh-w", rat, pu, pv, pw, su, sv, sw, uus, uvs, uws, ps] => do
      let pu ← pu.toNat?; let pv ← pv.toNat?; let pw ← pw.toNat?
      let su ← su.toNat?; let sv ← sv.toNat?; let sw ← sw.toNat?
      let Uu ← parseList uus; let Uv ← parseList uvs; let Uw ← parseList uws; let P ← parsePts ps
      if P.length < su * sv * sw then return "ERR"
      return showFile (vmeshWrite { rational := rat == "1", degU := pu, degV := pv, degW := pw, sizeU := su, sizeV := sv, sizeW := sw,
                                    knotsU := Uu, knotsV := Uv, knotsW := Uw, net := P })
  | ["vmesh-r", f] =>
      match vmeshRead (parseFile f) with
      | some v => some (showVol v)
      | none => some "ERR"
  | ["enum", n] => do
      let n ← n.toNat?
      return ",".intercalate ((enumerate (List.replicate n ())).map (fun p => match p.1 with | some i => toString i | none => "-"))
  | ["txt-w", ps] => do
      let P ← parsePts ps
      return showFile (txtWrite P)
  | ["txt-r", f] =>
      match txtRead (parseFile f) with
      | some P => some (showPts P)
      | none => some "ERR"
  | ["txt2-w", su, sv, ps] => do
      let su ← su.toNat?; let sv ← sv.toNat?; let P ← parsePts ps
      if P.length < su * sv then return "ERR"
      return "|".intercalate ((txt2Write P su sv).map (fun l => ";".intercalate (l.map (fun p => ",".intercalate (p.map showTok)))))
  | ["txt2-r", f] =>
      match txt2Read (parseFile2 f) with
      | some (P, su, sv) => some s!"{showPts P} {su} {sv}"
      | none => some "ERR"
  | ["csv-w", ps] => do
      let P ← parsePts ps
      return showFile (csvWrite P)
  | ["csv-r", f] =>
      match csvRead (parseFile f) with
      | some P => some (showPts P)
      | none => some "ERR"
  | ["flip2d-file", f] => some (showSaved (flip2dFile (parseFile2 f)))
  | ["w2d-file", f] => some (showSaved (weight2dFile (parseFile2 f)))
  | ["uw2d-file", f] => some (showSaved (unweight2dFile (parseFile2 f)))
  | "json-w" :: kind :: _ :: toks => do
      let x ← parseShapes kind toks
      return jShape (exportShapes x)
  | "json-rt" :: kind :: ov :: toks => do
      let x ← parseShapes kind toks
      let ov ← parseOv ov
      return showShapes (importShapes ov (exportShapes x))
  | _ => none

end Ex
/-- handler of the exchange-format ops (C14) -/
def handleExchange : List String → Option String := Ex.handleExchange
end Drv
