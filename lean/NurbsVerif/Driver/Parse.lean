/- Line-protocol parsing / printing at `Rat` (core).  No Mathlib. -/
namespace Drv

def parseRat (s : String) : Option Rat :=
  match s.splitOn "/" with
  | [a] => a.toInt?.map (fun n => (n : Rat))
  | [a, b] => do
      let n ← a.toInt?
      let d ← b.toNat?
      if d = 0 then none else some (mkRat n d)
  | _ => none

def showRat (r : Rat) : String := if r.den = 1 then toString r.num else s!"{r.num}/{r.den}"

/-- `a,b,c`  (`-` = empty list) -/
def parseList (s : String) : Option (List Rat) :=
  if s == "-" then some [] else (s.splitOn ",").mapM parseRat
def parseNats (s : String) : Option (List Nat) :=
  if s == "-" then some [] else (s.splitOn ",").mapM String.toNat?
/-- `a,b;c,d` -/
def parsePts (s : String) : Option (List (List Rat)) :=
  if s == "-" then some [] else (s.splitOn ";").mapM parseList
/-- `a,b;c,d|e,f;g,h` -/
def parsePts2 (s : String) : Option (List (List (List Rat))) :=
  if s == "-" then some [] else (s.splitOn "|").mapM parsePts

def showList (l : List Rat) : String := if l.isEmpty then "-" else ",".intercalate (l.map showRat)
def showNats (l : List Nat) : String := if l.isEmpty then "-" else ",".intercalate (l.map toString)
def showPts (l : List (List Rat)) : String := if l.isEmpty then "-" else ";".intercalate (l.map showList)
def showPts2 (l : List (List (List Rat))) : String := if l.isEmpty then "-" else "|".intercalate (l.map showPts)
def showOptList (l : List (Option Rat)) : String :=
  ",".intercalate (l.map (fun o => match o with | some r => showRat r | none => "None"))

/-- list as total function, padded with its last value (knot vectors; same function as `Geomdl.fnOf`) -/
def fn (l : List Rat) : Nat → Rat := let a := l.toArray; let z := l.getLastD 0; fun i => a.getD i z

/- the tolerance literals of the code, as the exact values of the doubles Python uses -/
def tolSpan : Rat := mkRat 5902958103587057 590295810358705651712        -- the double 10e-6
def tolMult : Rat := mkRat 944473296573929 9444732965739290427392        -- the double 10e-8
def tolRemove : Rat := mkRat 1152921504606847 1152921504606846976        -- the double 10e-4

end Drv
