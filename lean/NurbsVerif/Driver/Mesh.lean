import NurbsVerif.Model.Mesh
import NurbsVerif.Model.Eval
import NurbsVerif.Driver.Parse
import NurbsVerif.Driver.TrimMesh
/- handlers for the tessellation ops (C15)

   mesh tri  su sv s            -> V=<n> uv=<u,v;…> src=<i,…> F=<a,b,c;…> E=<n>
   mesh pin  su sv s            -> ok | ERR       (guard of the pinned vertex-array size, defect F-15)
   mesh quad su sv              -> V=<n> F=<a,b,c,d;…>
   mesh quaduv su sv            -> V=<n> uv=<u,v;…>     (vertex parameters of make_quad_mesh for su*sv points, repair F-15c)
   mesh exp  base s su,sv;su,sv;…   -> V=<total> F=<faces with running offsets>   (base 1 = OBJ, 0 = OFF / container ids)
   mesh nrm  p0 p1 p2           -> nx,ny,nz
   mesh pos  rat pu pv Uu Uv cu cv P su sv s  -> positions of the vertices (surface evaluated at the stored uv)
-/
namespace Drv
open Geomdl

def showMeshFaces (fs : List (List Nat)) : String :=
  if fs.isEmpty then "-" else ";".intercalate (fs.map showNats)

def showMeshUV (l : List (Rat × Rat)) : String :=
  if l.isEmpty then "-" else ";".intercalate (l.map fun p => showRat p.1 ++ "," ++ showRat p.2)

def parseMeshSizes (s : String) : Option (List (Nat × Nat)) :=
  (s.splitOn ";").mapM fun t => match t.splitOn "," with
    | [a, b] => do let a ← a.toNat?; let b ← b.toNat?; some (a, b)
    | _ => none

def handleMesh : List String → Option String
  | ["mesh", "tri", su, sv, s] => do
      let su ← su.toNat?; let sv ← sv.toNat?; let s ← s.toNat?
      if su < 2 ∨ sv < 2 ∨ s < 1 then return "ERR"
      let m : TriMesh Rat := makeTriangleMesh su sv s
      return s!"V={m.uv.length} uv={showMeshUV m.uv} src={showNats m.src} F={showMeshFaces m.faces} E={(facesEdges m.faces).length}"
  | ["mesh", "pin", su, sv, s] => do
      let su ← su.toNat?; let sv ← sv.toNat?; let s ← s.toNat?
      if su < 2 ∨ sv < 2 ∨ s < 1 then return "ERR"
      return (if meshOkPinned su sv s then "ok" else "ERR")
  | ["mesh", "quad", su, sv] => do
      let su ← su.toNat?; let sv ← sv.toNat?
      -- after the repair of F-15c `make_quad_mesh` computes `i / (size_u - 1)`: a size of 1 raises ZeroDivisionError
      if su < 2 ∨ sv < 2 then return "ERR"
      return s!"V={su * sv} F={showMeshFaces (makeQuadFaces su sv)}"
  | ["mesh", "quaduv", su, sv] => do
      let su ← su.toNat?; let sv ← sv.toNat?
      if su < 2 ∨ sv < 2 then return "ERR"
      let uv : List (Rat × Rat) := quadVertexUV (su * sv) su sv
      return s!"V={uv.length} uv={showMeshUV uv}"
  | ["mesh", "exp", base, s, sizes] => do
      let base ← base.toNat?; let s ← s.toNat?; let sz ← parseMeshSizes sizes
      if s < 1 ∨ sz.any (fun p => p.1 < 2 ∨ p.2 < 2) then return "ERR"
      let ms := sz.map fun p => let m : TriMesh Rat := makeTriangleMesh p.1 p.2 s; (m.uv.length, m.faces)
      return s!"V={meshTotalVerts ms} F={showMeshFaces (offsetFaces base 0 ms)}"
  | ["mesh", "nrm", a, b, c] => do
      let a ← parseList a; let b ← parseList b; let c ← parseList c
      if a.length ≠ 3 ∨ b.length ≠ 3 ∨ c.length ≠ 3 then return "ERR"
      return showList (triangleNormal a b c)
  | ["mesh", "pos", rat, pu, pv, uus, uvs, cu, cv, ps, su, sv, s] => do
      let pu ← pu.toNat?; let pv ← pv.toNat?; let Uu ← parseList uus; let Uv ← parseList uvs
      let cu ← cu.toNat?; let cv ← cv.toNat?; let P ← parsePts ps
      let su ← su.toNat?; let sv ← sv.toNat?; let s ← s.toNat?
      if su < 2 ∨ sv < 2 ∨ s < 1 then return "ERR"
      if !(decide (1 ≤ pu) && decide (pu + 1 ≤ cu) && decide (Uu.length = cu + pu + 1) && isSortedB Uu
           && decide (1 ≤ pv) && decide (pv + 1 ≤ cv) && decide (Uv.length = cv + pv + 1) && isSortedB Uv
           && P.length == cu * cv) then return "ERR"
      -- F-01b guard: an empty last span (the model does not step back at the domain end; x / 0 = 0)
      if fn Uu (cu - 1) == fn Uu cu || fn Uv (cv - 1) == fn Uv cv then return "ERR"
      let m : TriMesh Rat := makeTriangleMesh su sv s
      let pts := m.uv.map fun p =>
        let x := surfacePoint pu pv (fn Uu) (fn Uv) cu cv P p.1 p.2
        if rat == "1" then project x else x
      return showPts pts
  | toks => handleTrimMesh toks   -- mesh trimcell / mesh trim (Driver/TrimMesh.lean)

end Drv
