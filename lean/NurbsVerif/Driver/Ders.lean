import NurbsVerif.Model.SurfDersLoops
import NurbsVerif.Model.Hodograph
import NurbsVerif.Model.SpanRGrid
import NurbsVerif.Driver.Basic
/- handlers for the literal transcriptions of the derivative evaluators (A3.2, A3.6, A3.7, A3.8), the
   hodograph constructors and tangent / normal (C02) -/
namespace Drv
open Geomdl

/-- what the knot vector setter of the new object stores: normalised iff the object normalises -/
def setKv (norm : Bool) (U : List Rat) : Option (List Rat) :=
  if !norm then some U
  else if U.isEmpty || U.headD 0 == U.getLastD 0 then none
  else some (knotNormalize U)

def showSurfData (norm : Bool × Bool) (s : SurfData Rat) : Option String := do
  let _ ← setKv norm.1 s.2.2.1
  let _ ← setKv norm.2 s.2.2.2.1
  let (pu, pv, Uu, Uv, su, sv, P) := surfDataNormalize norm.1 norm.2 s
  return s!"{pu} {pv} {showList Uu} {showList Uv} {su} {sv} {showPts P}"

/-- `Curve.derivatives(u, 1)` (default evaluator, A3.2 as coded; A4.2 for rational curves) -/
def curveDers1 (rat : Bool) (p : Nat) (U : List Rat) (P : List (List Rat)) (u : Rat) (ord : Nat) : List (List Rat) :=
  let CK := curveDersA32 p (fn U) P (findSpanLinear p (fn U) P.length u) u ord
  if rat then ratCurveDers CK else CK

/-- `Surface.derivatives(u, v, ord)` (default evaluator, A3.6 as coded; A4.4 for rational surfaces) -/
def surfDers1 (rat : Bool) (pu pv : Nat) (Uu Uv : List Rat) (su sv : Nat) (P : List (List Rat)) (u v : Rat)
    (ord : Nat) : List (List (List Rat)) :=
  let S := surfaceDersA36 pu pv (fn Uu) (fn Uv) sv P (findSpanLinear pu (fn Uu) su u) (findSpanLinear pv (fn Uv) sv v) u v ord
  if rat then ratSurfaceDers S ord else S

/-- sanity guard of the ops with `normalize=True`: the magnitude handed over by the harness (the double
    `vector_magnitude` returned) is non-negative and a square root of `|v|²` up to the rounding of a double
    (relative `2⁻⁴⁹` on the square) – in particular `0` exactly for the zero vector; otherwise the op answers `BADMAG` -/
def magOk (v : List Rat) (m : Rat) : Bool :=
  let s := Lin.normSq v
  let e := m * m - s
  decide (0 ≤ m) && decide ((if e < 0 then -e else e) * (2 : Rat) ^ 49 ≤ s)

def handleDers : List String → Option String
  | ["cders32", rat, p, us, ps, u, ord] => do
      let p ← p.toNat?; let U ← parseList us; let P ← parsePts ps; let u ← parseRat u; let ord ← ord.toNat?
      if !(okKv p P.length U && inDom p P.length U u) then return "ERR"
      if cWZero (rat == "1") p U P u then return "ERR"
      return showPts (curveDers1 (rat == "1") p U P u ord)
  | ["sders36", rat, pu, pv, uus, uvs, su, sv, ps, u, v, ord] => do
      let pu ← pu.toNat?; let pv ← pv.toNat?; let Uu ← parseList uus; let Uv ← parseList uvs
      let su ← su.toNat?; let sv ← sv.toNat?; let P ← parsePts ps; let u ← parseRat u; let v ← parseRat v
      let ord ← ord.toNat?
      if !(okKv pu su Uu && okKv pv sv Uv && inDom pu su Uu u && inDom pv sv Uv v && P.length == su * sv) then return "ERR"
      if sWZero (rat == "1") pu pv Uu Uv su sv P u v then return "ERR"
      return showPts2 (surfDers1 (rat == "1") pu pv Uu Uv su sv P u v ord)
  -- the default evaluators as coded on the span(s) the REPAIRED search finds (`curveDersA32R`, `surfaceDersA36R`,
  -- Model/SpanRGrid.lean): no empty-span guard
  | ["cders32r", rat, p, us, ps, u, ord] => do
      let p ← p.toNat?; let U ← parseList us; let P ← parsePts ps; let u ← parseRat u; let ord ← ord.toNat?
      if !(okKv p P.length U && inDomR p P.length U u) then return "ERR"
      if cWZeroR (rat == "1") p U P u then return "ERR"
      let CK := curveDersA32R p (fn U) P u ord
      return showPts (if rat == "1" then ratCurveDers CK else CK)
  | ["sders36r", rat, pu, pv, uus, uvs, su, sv, ps, u, v, ord] => do
      let pu ← pu.toNat?; let pv ← pv.toNat?; let Uu ← parseList uus; let Uv ← parseList uvs
      let su ← su.toNat?; let sv ← sv.toNat?; let P ← parsePts ps; let u ← parseRat u; let v ← parseRat v
      let ord ← ord.toNat?
      if !(okKv pu su Uu && okKv pv sv Uv && inDomR pu su Uu u && inDomR pv sv Uv v && P.length == su * sv) then return "ERR"
      if sWZeroR (rat == "1") pu pv Uu Uv su sv P u v then return "ERR"
      let S := surfaceDersA36R pu pv (fn Uu) (fn Uv) su sv P u v ord
      return showPts2 (if rat == "1" then ratSurfaceDers S ord else S)
  | ["sders38", pu, pv, uus, uvs, su, sv, ps, u, v, ord] => do
      let pu ← pu.toNat?; let pv ← pv.toNat?; let Uu ← parseList uus; let Uv ← parseList uvs
      let su ← su.toNat?; let sv ← sv.toNat?; let P ← parsePts ps; let u ← parseRat u; let v ← parseRat v
      let ord ← ord.toNat?
      if !(okKv pu su Uu && okKv pv sv Uv && inDom pu su Uu u && inDom pv sv Uv v && P.length == su * sv) then return "ERR"
      return showPts2 (surfaceDersA38 pu pv (fn Uu) (fn Uv) su sv P
        (findSpanLinear pu (fn Uu) su u) (findSpanLinear pv (fn Uv) sv v) u v ord)
  -- A3.7 + A3.8 as coded on the span pair the REPAIRED search finds (`surfaceDersA38R`): no empty-span guard
  | ["sders38r", pu, pv, uus, uvs, su, sv, ps, u, v, ord] => do
      let pu ← pu.toNat?; let pv ← pv.toNat?; let Uu ← parseList uus; let Uv ← parseList uvs
      let su ← su.toNat?; let sv ← sv.toNat?; let P ← parsePts ps; let u ← parseRat u; let v ← parseRat v
      let ord ← ord.toNat?
      if !(okKv pu su Uu && okKv pv sv Uv && inDomR pu su Uu u && inDomR pv sv Uv v && P.length == su * sv) then return "ERR"
      return showPts2 (surfaceDersA38R pu pv (fn Uu) (fn Uv) su sv P u v ord)
  | ["sdcpts37", pu, pv, uus, uvs, su, sv, ps, r1, r2, s1, s2, ord] => do
      let pu ← pu.toNat?; let pv ← pv.toNat?; let Uu ← parseList uus; let Uv ← parseList uvs
      let su ← su.toNat?; let sv ← sv.toNat?; let P ← parsePts ps
      let r1 ← r1.toNat?; let r2 ← r2.toNat?; let s1 ← s1.toNat?; let s2 ← s2.toNat?; let ord ← ord.toNat?
      if !(okKv pu su Uu && okKv pv sv Uv && P.length == su * sv && r1 ≤ r2 && r2 < su && s1 ≤ s2 && s2 < sv
           && min pu ord ≤ r2 - r1 && min pv ord ≤ s2 - s1) then return "ERR"
      -- ZeroDivisionError of curve_deriv_cpts
      if !(derivCptsDivisorsOk pu (fn Uu) r1 r2 (min pu ord) && derivCptsDivisorsOk pv (fn Uv) s1 s2 (min pv ord)) then return "ERR"
      return showPts2 (surfaceDerivCptsList pu pv (fn Uu) (fn Uv) su sv P r1 r2 s1 s2 ord)
  | ["hodoc", p, us, ps] => do
      let p ← p.toNat?; let U ← parseList us; let P ← parsePts ps
      if !(okKv p P.length U) || p < 2 then return "ERR"
      if !(derivCptsDivisorsOk p (fn U) 0 (P.length - 1) 1) then return "ERR"
      let (q, kv, Q) := derivativeCurve p U P
      let kv ← setKv true kv
      return s!"{q} {showList kv} {showPts Q}"
  | ["hodos", norm, pu, pv, uus, uvs, su, sv, ps] => do
      let pu ← pu.toNat?; let pv ← pv.toNat?; let Uu ← parseList uus; let Uv ← parseList uvs
      let su ← su.toNat?; let sv ← sv.toNat?; let P ← parsePts ps
      if !(okKv pu su Uu && okKv pv sv Uv && P.length == su * sv) || pu < 2 || pv < 2 then return "ERR"
      if !(derivCptsDivisorsOk pu (fn Uu) 0 (su - 1) (min pu 2) && derivCptsDivisorsOk pv (fn Uv) 0 (sv - 1) (min pv 2)) then return "ERR"
      let (a, b, c) := derivativeSurface pu pv Uu Uv su sv P
      let n := norm == "1"
      let sa ← showSurfData (n, false) a
      let sb ← showSurfData (false, n) b
      let sc ← showSurfData (true, true) c
      return s!"{sa} | {sb} | {sc}"
  | ["tanc", rat, p, us, ps, params] => do
      let p ← p.toNat?; let U ← parseList us; let P ← parsePts ps; let params ← parseList params
      if !(okKv p P.length U) || params.any (fun u => !(inDom p P.length U u)) then return "ERR"
      if params.any (fun u => cWZero (rat == "1") p U P u) then return "ERR"
      return "|".intercalate (params.map (fun u =>
        let t := tangentCurve (curveDers1 (rat == "1") p U P u 1)
        s!"{showList t.1};{showList t.2}"))
  | ["tans", rat, pu, pv, uus, uvs, su, sv, ps, us, vs] => do
      let pu ← pu.toNat?; let pv ← pv.toNat?; let Uu ← parseList uus; let Uv ← parseList uvs
      let su ← su.toNat?; let sv ← sv.toNat?; let P ← parsePts ps; let us ← parseList us; let vs ← parseList vs
      if !(okKv pu su Uu && okKv pv sv Uv && P.length == su * sv) || us.length != vs.length
         || (us.zip vs).any (fun x => !(inDom pu su Uu x.1 && inDom pv sv Uv x.2)) then return "ERR"
      if (us.zip vs).any (fun x => sWZero (rat == "1") pu pv Uu Uv su sv P x.1 x.2) then return "ERR"
      return "|".intercalate ((us.zip vs).map (fun x =>
        let t := tangentSurface (surfDers1 (rat == "1") pu pv Uu Uv su sv P x.1 x.2 1)
        s!"{showList t.1};{showList t.2.1};{showList t.2.2}"))
  | ["nrms", rat, pu, pv, uus, uvs, su, sv, ps, us, vs] => do
      let pu ← pu.toNat?; let pv ← pv.toNat?; let Uu ← parseList uus; let Uv ← parseList uvs
      let su ← su.toNat?; let sv ← sv.toNat?; let P ← parsePts ps; let us ← parseList us; let vs ← parseList vs
      if !(okKv pu su Uu && okKv pv sv Uv && P.length == su * sv) || us.length != vs.length
         || (us.zip vs).any (fun x => !(inDom pu su Uu x.1 && inDom pv sv Uv x.2)) then return "ERR"
      if (us.zip vs).any (fun x => sWZero (rat == "1") pu pv Uu Uv su sv P x.1 x.2) then return "ERR"
      let rs := (us.zip vs).map (fun x => normalSurface (surfDers1 (rat == "1") pu pv Uu Uv su sv P x.1 x.2 1))
      if rs.any Option.isNone then return "ERR"
      return "|".intercalate (rs.map (fun r => match r with
        | some t => s!"{showList t.1};{showList t.2}"
        | none => "ERR"))
  -- tangent / normal (normalize=False) on the span(s) the REPAIRED search finds (`curveDersA32R`, `surfaceDersA36R`):
  -- no empty-span guard (theorems C02.tangent_curve_/tangent_surface_/normal_surface_repaired_on_domain)
  | ["tancr", rat, p, us, ps, params] => do
      let p ← p.toNat?; let U ← parseList us; let P ← parsePts ps; let params ← parseList params
      if !(okKv p P.length U) || params.any (fun u => !(inDomR p P.length U u)) then return "ERR"
      if params.any (fun u => cWZeroR (rat == "1") p U P u) then return "ERR"
      return "|".intercalate (params.map (fun u =>
        let CK := curveDersA32R p (fn U) P u 1
        let t := tangentCurve (if rat == "1" then ratCurveDers CK else CK)
        s!"{showList t.1};{showList t.2}"))
  | ["tansr", rat, pu, pv, uus, uvs, su, sv, ps, us, vs] => do
      let pu ← pu.toNat?; let pv ← pv.toNat?; let Uu ← parseList uus; let Uv ← parseList uvs
      let su ← su.toNat?; let sv ← sv.toNat?; let P ← parsePts ps; let us ← parseList us; let vs ← parseList vs
      if !(okKv pu su Uu && okKv pv sv Uv && P.length == su * sv) || us.length != vs.length
         || (us.zip vs).any (fun x => !(inDomR pu su Uu x.1 && inDomR pv sv Uv x.2)) then return "ERR"
      if (us.zip vs).any (fun x => sWZeroR (rat == "1") pu pv Uu Uv su sv P x.1 x.2) then return "ERR"
      return "|".intercalate ((us.zip vs).map (fun x =>
        let S := surfaceDersA36R pu pv (fn Uu) (fn Uv) su sv P x.1 x.2 1
        let t := tangentSurface (if rat == "1" then ratSurfaceDers S 1 else S)
        s!"{showList t.1};{showList t.2.1};{showList t.2.2}"))
  | ["nrmsr", rat, pu, pv, uus, uvs, su, sv, ps, us, vs] => do
      let pu ← pu.toNat?; let pv ← pv.toNat?; let Uu ← parseList uus; let Uv ← parseList uvs
      let su ← su.toNat?; let sv ← sv.toNat?; let P ← parsePts ps; let us ← parseList us; let vs ← parseList vs
      if !(okKv pu su Uu && okKv pv sv Uv && P.length == su * sv) || us.length != vs.length
         || (us.zip vs).any (fun x => !(inDomR pu su Uu x.1 && inDomR pv sv Uv x.2)) then return "ERR"
      if (us.zip vs).any (fun x => sWZeroR (rat == "1") pu pv Uu Uv su sv P x.1 x.2) then return "ERR"
      let rs := (us.zip vs).map (fun x =>
        let S := surfaceDersA36R pu pv (fn Uu) (fn Uv) su sv P x.1 x.2 1
        normalSurface (if rat == "1" then ratSurfaceDers S 1 else S))
      if rs.any Option.isNone then return "ERR"
      return "|".intercalate (rs.map (fun r => match r with
        | some t => s!"{showList t.1};{showList t.2}"
        | none => "ERR"))
  -- normalize=True: the magnitudes `vector_magnitude` returned (doubles, exact rationals) are inputs
  | ["tancn", rat, p, us, ps, params, mags] => do
      let p ← p.toNat?; let U ← parseList us; let P ← parsePts ps; let params ← parseList params
      let mags ← parseList mags
      if !(okKv p P.length U) || params.any (fun u => !(inDom p P.length U u)) || mags.length != params.length then
        return "ERR"
      if params.any (fun u => cWZero (rat == "1") p U P u) then return "ERR"
      let ds := (params.map (fun u => curveDers1 (rat == "1") p U P u 1)).zip mags
      if ds.any (fun x => !(magOk (tangentCurve x.1).2 x.2)) then return "BADMAG"
      let rs := ds.map (fun x => tangentCurveN x.1 x.2)
      if rs.any Option.isNone then return "ERR"
      return "|".intercalate (rs.map (fun r => match r with
        | some t => s!"{showList t.1};{showList t.2}"
        | none => "ERR"))
  | ["tansn", rat, pu, pv, uus, uvs, su, sv, ps, us, vs, magsU, magsV] => do
      let pu ← pu.toNat?; let pv ← pv.toNat?; let Uu ← parseList uus; let Uv ← parseList uvs
      let su ← su.toNat?; let sv ← sv.toNat?; let P ← parsePts ps; let us ← parseList us; let vs ← parseList vs
      let magsU ← parseList magsU; let magsV ← parseList magsV
      if !(okKv pu su Uu && okKv pv sv Uv && P.length == su * sv) || us.length != vs.length
         || magsU.length != us.length || magsV.length != us.length
         || (us.zip vs).any (fun x => !(inDom pu su Uu x.1 && inDom pv sv Uv x.2)) then return "ERR"
      if (us.zip vs).any (fun x => sWZero (rat == "1") pu pv Uu Uv su sv P x.1 x.2) then return "ERR"
      let ds := ((us.zip vs).map (fun x => surfDers1 (rat == "1") pu pv Uu Uv su sv P x.1 x.2 1)).zip (magsU.zip magsV)
      if ds.any (fun x => !(magOk (tangentSurface x.1).2.1 x.2.1 && magOk (tangentSurface x.1).2.2 x.2.2)) then
        return "BADMAG"
      let rs := ds.map (fun x => tangentSurfaceN x.1 x.2.1 x.2.2)
      if rs.any Option.isNone then return "ERR"
      return "|".intercalate (rs.map (fun r => match r with
        | some t => s!"{showList t.1};{showList t.2.1};{showList t.2.2}"
        | none => "ERR"))
  | ["nrmsn", rat, pu, pv, uus, uvs, su, sv, ps, us, vs, mags] => do
      let pu ← pu.toNat?; let pv ← pv.toNat?; let Uu ← parseList uus; let Uv ← parseList uvs
      let su ← su.toNat?; let sv ← sv.toNat?; let P ← parsePts ps; let us ← parseList us; let vs ← parseList vs
      let mags ← parseList mags
      if !(okKv pu su Uu && okKv pv sv Uv && P.length == su * sv) || us.length != vs.length
         || mags.length != us.length
         || (us.zip vs).any (fun x => !(inDom pu su Uu x.1 && inDom pv sv Uv x.2)) then return "ERR"
      if (us.zip vs).any (fun x => sWZero (rat == "1") pu pv Uu Uv su sv P x.1 x.2) then return "ERR"
      let ds := ((us.zip vs).map (fun x => surfDers1 (rat == "1") pu pv Uu Uv su sv P x.1 x.2 1)).zip mags
      if ds.any (fun x => (normalSurface x.1).isNone) then return "ERR"
      if ds.any (fun x => match normalSurface x.1 with
          | some r => !(magOk r.2 x.2)
          | none => false) then return "BADMAG"
      let rs := ds.map (fun x => normalSurfaceN x.1 x.2)
      if rs.any Option.isNone then return "ERR"
      return "|".intercalate (rs.map (fun r => match r with
        | some t => s!"{showList t.1};{showList t.2}"
        | none => "ERR"))
  | _ => none

end Drv
