import NurbsVerif.Model.Basis
import NurbsVerif.Model.BasisDersOne
import NurbsVerif.Model.Eval
import NurbsVerif.Model.Grid
import NurbsVerif.Model.BasisDers
import NurbsVerif.Model.Length
import NurbsVerif.Model.SpanR
import NurbsVerif.Model.SpanRGrid
import NurbsVerif.Driver.Parse
/- handlers for span / basis / knot vector / evaluation / derivative ops (C01, C02, C03, C17, C18) -/
namespace Drv
open Geomdl

/-- distance function given by a table: the harness passes the values `linalg.point_distance` returned
    for the consecutive pairs of `evalpts` (square roots: doubles, as exact rationals); the model of
    `length_curve` looks each pair up (first match) and sums -/
def tableDist (tbl : List ((List Rat × List Rat) × Rat)) (a b : List Rat) : Rat :=
  match tbl.find? (fun e => e.1.1 == a && e.1.2 == b) with
  | some e => e.2
  | none => -1

def sortedR (l : List Rat) : Bool := isSortedB l

/-- admissible curve data: `|U| = n+p+1`, `n ≥ p+1`, `p ≥ 1`, sorted -/
def okKv (p n : Nat) (U : List Rat) : Bool := decide (1 ≤ p) && decide (p + 1 ≤ n) && decide (U.length = n + p + 1) && sortedR U
/-- F-01b guard: the span the MODEL's linear search finds at `u` is empty (`U_k = U_{k+1}`).  On the closed domain of a
    sorted knot vector this happens only at `u = U_n` when `U_{n-1} = U_n` (an unclamped vector whose repeated knot sits
    exactly on the domain end, or an end knot repeated `p + 2` times).  `findSpanLinear` / `findSpanBin` do not have the step
    back to the last non-empty span that the repaired `find_span_linear` / `find_span_binsearch` perform there (the theorems
    about them assume `KnotsOk`: non-empty last span), and evaluating on an empty span divides by zero (`x / 0 = 0` in
    Lean): the ops running them answer ERR instead of printing such a value.  The transcriptions of the repaired searches
    are `findSpanLinearR` / `findSpanBinR` (`Model/SpanR.lean`): ops `span linr`, `span binr`, `cevalr`, `sevalr`, `vevalr`,
    and (`Model/SpanRGrid.lean`) `clistr`, `cgridr`, `sgridr`, `vgridr`, `cdersr`, `sdersr`, `cders32r`, `sders36r`, without
    this guard. -/
def emptySpanAt (p n : Nat) (U : List Rat) (u : Rat) : Bool :=
  let k := findSpanLinear p (fn U) n u
  fn U k == fn U (k + 1)

/-- parameter in the closed domain AND (F-01b guard) the span the model finds there is not empty -/
def inDom (p n : Nat) (U : List Rat) (u : Rat) : Bool :=
  decide (fn U p ≤ u) && decide (u ≤ fn U n) && !emptySpanAt p n U u

/-- guard of the R ops (REPAIRED span searches, `Model/SpanR.lean`: step back to the last non-empty span at the domain
    end): parameter in the closed domain of a non-degenerate domain `U_p < U_n` – NO `emptySpanAt` guard; by
    `Geomdl.findSpanLinearR_dom` the span the repaired search finds is then never empty (on a degenerate domain
    `U_p = U_n` every span of the domain is empty and the code's A2.2 raises ZeroDivisionError: ERR) -/
def inDomR (p n : Nat) (U : List Rat) (u : Rat) : Bool :=
  decide (fn U p ≤ u) && decide (u ≤ fn U n) && decide (fn U p < fn U n)

/-- guard of the R grid ops (`cgridr`, `sgridr`, `vgridr`): a non-degenerate domain `U_p < U_n`; every `linspace` sample of
    `[U_p, U_n]` then lies in the closed domain (`C01.sampled_params_in_domain`) and the repaired search finds a non-empty
    span for it – NO `lastSpanEmpty` guard -/
def domR (p n : Nat) (U : List Rat) : Bool := decide (fn U p < fn U n)

/-- a sampled grid always contains the domain end `U_n`: F-01b guard for the grid ops -/
def lastSpanEmpty (p n : Nat) (U : List Rat) : Bool := emptySpanAt p n U (fn U n)

/-- `sample_size = int(math.floor(1.0/delta + 0.5))` -/
def sampleSize (delta : Rat) : Nat := ((1 / delta + 1/2).floor).toNat

def doProject (rat : Bool) (pt : List Rat) : List Rat := if rat then project pt else pt

/-- VANISHING WEIGHT FUNCTION (statement audit 5, K1 / X3 / S5 / X6): a rational evaluation divides the homogeneous point
    by its last coordinate `W(u)`; the setters accept weights of mixed sign, `W` can then vanish inside the domain and
    the code raises `ZeroDivisionError` (the model's `x / 0 = 0` would go on): the rational ops answer `ERR` when the
    evaluated weight is 0 -/
def wZero (rat : Bool) (pt : List Rat) : Bool := rat && pt.getLastD 0 == 0
def cWZero (rat : Bool) (p : Nat) (U : List Rat) (P : List (List Rat)) (u : Rat) : Bool :=
  wZero rat (curvePoint p (fn U) P u)
def cWZeroR (rat : Bool) (p : Nat) (U : List Rat) (P : List (List Rat)) (u : Rat) : Bool :=
  wZero rat (curvePointR p (fn U) P u)
def sWZero (rat : Bool) (pu pv : Nat) (Uu Uv : List Rat) (su sv : Nat) (P : List (List Rat)) (u v : Rat) : Bool :=
  wZero rat (surfacePoint pu pv (fn Uu) (fn Uv) su sv P u v)
def sWZeroR (rat : Bool) (pu pv : Nat) (Uu Uv : List Rat) (su sv : Nat) (P : List (List Rat)) (u v : Rat) : Bool :=
  wZero rat (surfacePointR pu pv (fn Uu) (fn Uv) su sv P u v)
def vWZero (rat : Bool) (pu pv pw : Nat) (Uu Uv Uw : List Rat) (su sv sw : Nat) (P : List (List Rat)) (u v w : Rat) : Bool :=
  wZero rat (volumePoint pu pv pw (fn Uu) (fn Uv) (fn Uw) su sv sw P u v w)
def vWZeroR (rat : Bool) (pu pv pw : Nat) (Uu Uv Uw : List Rat) (su sv sw : Nat) (P : List (List Rat)) (u v w : Rat) : Bool :=
  wZero rat (volumePointR pu pv pw (fn Uu) (fn Uv) (fn Uw) su sv sw P u v w)

def handleBasic : List String → Option String
  | ["span", kind, p, n, us, u] => do
      let p ← p.toNat?; let n ← n.toNat?; let U ← parseList us; let u ← parseRat u
      -- repaired searches (F-01b): closed domain, no empty-span guard
      if kind == "linr" || kind == "binr" then
        if !(okKv p n U && decide (fn U p ≤ u) && decide (u ≤ fn U n)) then return "ERR"
        if kind == "linr" then return toString (findSpanLinearR p (fn U) n u)
        else match findSpanBinR p (fn U) n u tolSpan with
          | some k => return toString k
          | none => return "ERR"
      if !(okKv p n U && inDom p n U u) then return "ERR"
      if kind == "lin" then return toString (findSpanLinear p (fn U) n u)
      else match findSpanBin p (fn U) n u tolSpan with
        | some k => return toString k
        | none => return "ERR"
  | ["mult", u, us] => do
      let u ← parseRat u; let U ← parseList us
      return toString (findMultiplicity u U tolMult)
  | ["basis", p, us, k, u] => do
      let p ← p.toNat?; let U ← parseList us; let k ← k.toNat?; let u ← parseRat u
      if k < p ∨ k + p ≥ U.length then return "ERR"
      return showList (basisFuns p (fn U) k u)
  | ["basisall", p, us, k, u] => do
      let p ← p.toNat?; let U ← parseList us; let k ← k.toNat?; let u ← parseRat u
      if k < p ∨ k + p ≥ U.length then return "ERR"
      return ";".intercalate ((basisFunAll p (fn U) k u).map showOptList)
  | ["basisone", p, us, i, u] => do
      let p ← p.toNat?; let U ← parseList us; let i ← i.toNat?; let u ← parseRat u
      if i + p + 1 ≥ U.length then return "ERR"
      return showRat (basisFunOne p (fn U) U.length i u)
  | ["bdersone", p, us, i, u, d] => do
      let p ← p.toNat?; let U ← parseList us; let i ← i.toNat?; let u ← parseRat u; let d ← d.toNat?
      if i + p + 1 ≥ U.length then return "ERR"
      -- inside the support the code indexes N[j] for j ≤ order: IndexError for order > degree
      if d > p ∧ ¬ (u < fn U i ∨ fn U (i + p + 1) ≤ u) then return "ERR"
      return showList (basisFunDersOne p (fn U) i u d)
  | ["bders", p, us, k, u, d] => do
      let p ← p.toNat?; let U ← parseList us; let k ← k.toNat?; let u ← parseRat u; let d ← d.toNat?
      if k < p ∨ k + p ≥ U.length ∨ d > p then return "ERR"
      return showPts (basisDers p (fn U) k u d)
  | ["bders23", p, us, k, u, d] => do
      let p ← p.toNat?; let U ← parseList us; let k ← k.toNat?; let u ← parseRat u; let d ← d.toNat?
      if k < p ∨ k + p ≥ U.length ∨ d > p then return "ERR"
      return showPts (basisFunsDersA23 p (fn U) k u d)
  | ["linspace", a, b, n] => do
      let a ← parseRat a; let b ← parseRat b; let n ← n.toNat?
      return showList (linspace a b n tolMult)
  | ["kvgen", p, n, c] => do
      let p ← p.toNat?; let n ← n.toNat?
      if p = 0 ∨ n = 0 then return "ERR"
      return showList (knotGenerate p n (c == "1") tolMult : List Rat)
  | ["kvnorm", us] => do
      let U ← parseList us
      if U.isEmpty then return "ERR"
      if U.headD 0 == U.getLastD 0 then return "ERR"
      return showList (knotNormalize U)
  | ["kvcheck", p, us, n] => do
      let p ← p.toNat?; let U ← parseList us; let n ← n.toNat?
      if U.isEmpty then return "ERR"
      return (if knotCheck p U n then "True" else "False")
  | ["ceval", rat, p, us, ps, u] => do
      let p ← p.toNat?; let U ← parseList us; let P ← parsePts ps; let u ← parseRat u
      if !(okKv p P.length U && inDom p P.length U u) then return "ERR"
      if wZero (rat == "1") (curvePoint p (fn U) P u) then return "ERR"
      return showList (doProject (rat == "1") (curvePoint p (fn U) P u))
  | ["cevalr", rat, p, us, ps, u] => do
      let p ← p.toNat?; let U ← parseList us; let P ← parsePts ps; let u ← parseRat u
      if !(okKv p P.length U && inDomR p P.length U u) then return "ERR"
      if wZero (rat == "1") (curvePointR p (fn U) P u) then return "ERR"
      return showList (doProject (rat == "1") (curvePointR p (fn U) P u))
  | ["sevalr", rat, pu, pv, uus, uvs, su, sv, ps, u, v] => do
      let pu ← pu.toNat?; let pv ← pv.toNat?; let Uu ← parseList uus; let Uv ← parseList uvs
      let su ← su.toNat?; let sv ← sv.toNat?; let P ← parsePts ps; let u ← parseRat u; let v ← parseRat v
      if !(okKv pu su Uu && okKv pv sv Uv && inDomR pu su Uu u && inDomR pv sv Uv v && P.length == su * sv) then return "ERR"
      if wZero (rat == "1") (surfacePointR pu pv (fn Uu) (fn Uv) su sv P u v) then return "ERR"
      return showList (doProject (rat == "1") (surfacePointR pu pv (fn Uu) (fn Uv) su sv P u v))
  | ["vevalr", rat, pu, pv, pw, uus, uvs, uws, su, sv, sw, ps, u, v, w] => do
      let pu ← pu.toNat?; let pv ← pv.toNat?; let pw ← pw.toNat?
      let Uu ← parseList uus; let Uv ← parseList uvs; let Uw ← parseList uws
      let su ← su.toNat?; let sv ← sv.toNat?; let sw ← sw.toNat?
      let P ← parsePts ps; let u ← parseRat u; let v ← parseRat v; let w ← parseRat w
      if !(okKv pu su Uu && okKv pv sv Uv && okKv pw sw Uw && inDomR pu su Uu u && inDomR pv sv Uv v
           && inDomR pw sw Uw w && P.length == su * sv * sw) then return "ERR"
      if wZero (rat == "1") (volumePointR pu pv pw (fn Uu) (fn Uv) (fn Uw) su sv sw P u v w) then return "ERR"
      return showList (doProject (rat == "1") (volumePointR pu pv pw (fn Uu) (fn Uv) (fn Uw) su sv sw P u v w))
  | ["seval", rat, pu, pv, uus, uvs, su, sv, ps, u, v] => do
      let pu ← pu.toNat?; let pv ← pv.toNat?; let Uu ← parseList uus; let Uv ← parseList uvs
      let su ← su.toNat?; let sv ← sv.toNat?; let P ← parsePts ps; let u ← parseRat u; let v ← parseRat v
      if !(okKv pu su Uu && okKv pv sv Uv && inDom pu su Uu u && inDom pv sv Uv v && P.length == su * sv) then return "ERR"
      if wZero (rat == "1") (surfacePoint pu pv (fn Uu) (fn Uv) su sv P u v) then return "ERR"
      return showList (doProject (rat == "1") (surfacePoint pu pv (fn Uu) (fn Uv) su sv P u v))
  | ["veval", rat, pu, pv, pw, uus, uvs, uws, su, sv, sw, ps, u, v, w] => do
      let pu ← pu.toNat?; let pv ← pv.toNat?; let pw ← pw.toNat?
      let Uu ← parseList uus; let Uv ← parseList uvs; let Uw ← parseList uws
      let su ← su.toNat?; let sv ← sv.toNat?; let sw ← sw.toNat?
      let P ← parsePts ps; let u ← parseRat u; let v ← parseRat v; let w ← parseRat w
      if !(okKv pu su Uu && okKv pv sv Uv && okKv pw sw Uw && inDom pu su Uu u && inDom pv sv Uv v
           && inDom pw sw Uw w && P.length == su * sv * sw) then return "ERR"
      if wZero (rat == "1") (volumePoint pu pv pw (fn Uu) (fn Uv) (fn Uw) su sv sw P u v w) then return "ERR"
      return showList (doProject (rat == "1") (volumePoint pu pv pw (fn Uu) (fn Uv) (fn Uw) su sv sw P u v w))
  | ["cders", rat, p, us, ps, u, ord] => do
      let p ← p.toNat?; let U ← parseList us; let P ← parsePts ps; let u ← parseRat u; let ord ← ord.toNat?
      if !(okKv p P.length U && inDom p P.length U u) then return "ERR"
      if cWZero (rat == "1") p U P u then return "ERR"
      let CK := curveDers p (fn U) P u ord
      return showPts (if rat == "1" then ratCurveDers CK else CK)
  | ["sders", rat, tri, pu, pv, uus, uvs, su, sv, ps, u, v, ord] => do
      let pu ← pu.toNat?; let pv ← pv.toNat?; let Uu ← parseList uus; let Uv ← parseList uvs
      let su ← su.toNat?; let sv ← sv.toNat?; let P ← parsePts ps; let u ← parseRat u; let v ← parseRat v
      let ord ← ord.toNat?
      if !(okKv pu su Uu && okKv pv sv Uv && inDom pu su Uu u && inDom pv sv Uv v && P.length == su * sv) then return "ERR"
      if sWZero (rat == "1") pu pv Uu Uv su sv P u v then return "ERR"
      let S := surfaceDersAt pu pv (fn Uu) (fn Uv) sv P (findSpanLinear pu (fn Uu) su u) (findSpanLinear pv (fn Uv) sv v) u v ord (tri == "1")
      return showPts2 (if rat == "1" then ratSurfaceDers S ord else S)
  -- derivatives on the span the REPAIRED search finds (`curveDersR` / `surfaceDersR`, Model/SpanRGrid.lean)
  | ["cdersr", rat, p, us, ps, u, ord] => do
      let p ← p.toNat?; let U ← parseList us; let P ← parsePts ps; let u ← parseRat u; let ord ← ord.toNat?
      if !(okKv p P.length U && inDomR p P.length U u) then return "ERR"
      if cWZeroR (rat == "1") p U P u then return "ERR"
      let CK := curveDersR p (fn U) P u ord
      return showPts (if rat == "1" then ratCurveDers CK else CK)
  | ["sdersr", rat, tri, pu, pv, uus, uvs, su, sv, ps, u, v, ord] => do
      let pu ← pu.toNat?; let pv ← pv.toNat?; let Uu ← parseList uus; let Uv ← parseList uvs
      let su ← su.toNat?; let sv ← sv.toNat?; let P ← parsePts ps; let u ← parseRat u; let v ← parseRat v
      let ord ← ord.toNat?
      if !(okKv pu su Uu && okKv pv sv Uv && inDomR pu su Uu u && inDomR pv sv Uv v && P.length == su * sv) then return "ERR"
      if sWZeroR (rat == "1") pu pv Uu Uv su sv P u v then return "ERR"
      let S := surfaceDersR pu pv (fn Uu) (fn Uv) su sv P u v ord (tri == "1")
      return showPts2 (if rat == "1" then ratSurfaceDers S ord else S)
  | ["bbox", ps] => do
      let P ← parsePts ps
      if P.isEmpty then return "ERR"
      let bb := boundingBox P
      return s!"{showList bb.1} {showList bb.2}"
  | ["cgrid", rat, p, us, ps, delta] => do
      let p ← p.toNat?; let U ← parseList us; let P ← parsePts ps; let dl ← parseRat delta
      if !(okKv p P.length U) || dl ≤ 0 || lastSpanEmpty p P.length U then return "ERR"
      let n := sampleSize dl
      let ks := linspace (fn U p) (fn U P.length) n tolMult
      if ks.any (fun u => cWZero (rat == "1") p U P u) then return "ERR"
      return showPts (curveGrid (rat == "1") p (fn U) P ks)
  -- `evaluate_list` / sampled grids through the REPAIRED search (`curveGridR` / `surfaceGridR` / `volumeGridR`)
  | ["clistr", rat, p, us, ps, params] => do
      let p ← p.toNat?; let U ← parseList us; let P ← parsePts ps; let ks ← parseList params
      if !(okKv p P.length U) || ks.any (fun u => !(inDomR p P.length U u)) then return "ERR"
      if ks.any (fun u => cWZeroR (rat == "1") p U P u) then return "ERR"
      return showPts (curveGridR (rat == "1") p (fn U) P ks)
  | ["cgridr", rat, p, us, ps, delta] => do
      let p ← p.toNat?; let U ← parseList us; let P ← parsePts ps; let dl ← parseRat delta
      if !(okKv p P.length U) || dl ≤ 0 || !(domR p P.length U) then return "ERR"
      let n := sampleSize dl
      let ks := linspace (fn U p) (fn U P.length) n tolMult
      if ks.any (fun u => cWZeroR (rat == "1") p U P u) then return "ERR"
      return showPts (curveGridR (rat == "1") p (fn U) P ks)
  | ["sgridr", rat, pu, pv, uus, uvs, su, sv, ps, du, dv] => do
      let pu ← pu.toNat?; let pv ← pv.toNat?; let Uu ← parseList uus; let Uv ← parseList uvs
      let su ← su.toNat?; let sv ← sv.toNat?; let P ← parsePts ps; let du ← parseRat du; let dv ← parseRat dv
      if !(okKv pu su Uu && okKv pv sv Uv && P.length == su * sv) || du ≤ 0 || dv ≤ 0
          || !(domR pu su Uu) || !(domR pv sv Uv) then return "ERR"
      let kus := linspace (fn Uu pu) (fn Uu su) (sampleSize du) tolMult
      let kvs := linspace (fn Uv pv) (fn Uv sv) (sampleSize dv) tolMult
      if kus.any (fun u => kvs.any (fun v => sWZeroR (rat == "1") pu pv Uu Uv su sv P u v)) then return "ERR"
      return showPts (surfaceGridR (rat == "1") pu pv (fn Uu) (fn Uv) su sv P kus kvs)
  | ["vgridr", rat, pu, pv, pw, uus, uvs, uws, su, sv, sw, ps, du, dv, dw] => do
      let pu ← pu.toNat?; let pv ← pv.toNat?; let pw ← pw.toNat?
      let Uu ← parseList uus; let Uv ← parseList uvs; let Uw ← parseList uws
      let su ← su.toNat?; let sv ← sv.toNat?; let sw ← sw.toNat?
      let P ← parsePts ps; let du ← parseRat du; let dv ← parseRat dv; let dw ← parseRat dw
      if !(okKv pu su Uu && okKv pv sv Uv && okKv pw sw Uw && P.length == su * sv * sw) || du ≤ 0 || dv ≤ 0 || dw ≤ 0
          || !(domR pu su Uu) || !(domR pv sv Uv) || !(domR pw sw Uw) then return "ERR"
      let kus := linspace (fn Uu pu) (fn Uu su) (sampleSize du) tolMult
      let kvs := linspace (fn Uv pv) (fn Uv sv) (sampleSize dv) tolMult
      let kws := linspace (fn Uw pw) (fn Uw sw) (sampleSize dw) tolMult
      if kus.any (fun u => kvs.any (fun v => kws.any (fun w => vWZeroR (rat == "1") pu pv pw Uu Uv Uw su sv sw P u v w))) then return "ERR"
      return showPts (volumeGridR (rat == "1") pu pv pw (fn Uu) (fn Uv) (fn Uw) su sv sw P kus kvs kws)
  | ["clen", rat, p, us, ps, delta, evs, ds] => do
      let p ← p.toNat?; let U ← parseList us; let P ← parsePts ps; let dl ← parseRat delta
      let E ← parsePts evs; let D ← parseList ds
      if !(okKv p P.length U) || dl ≤ 0 || lastSpanEmpty p P.length U then return "ERR"
      let ks := linspace (fn U p) (fn U P.length) (sampleSize dl) tolMult
      if ks.any (fun u => cWZero (rat == "1") p U P u) then return "ERR"
      let pts := curveGrid (rat == "1") p (fn U) P ks
      if pts != E then return "GRID"
      if D.length + 1 != pts.length then return "DISTS"
      let tbl := (pts.zip (pts.drop 1)).zip D
      return showRat (curveLength (tableDist tbl) (rat == "1") p (fn U) P ks)
  | ["sgrid", rat, pu, pv, uus, uvs, su, sv, ps, du, dv] => do
      let pu ← pu.toNat?; let pv ← pv.toNat?; let Uu ← parseList uus; let Uv ← parseList uvs
      let su ← su.toNat?; let sv ← sv.toNat?; let P ← parsePts ps; let du ← parseRat du; let dv ← parseRat dv
      if !(okKv pu su Uu && okKv pv sv Uv && P.length == su * sv) || du ≤ 0 || dv ≤ 0
          || lastSpanEmpty pu su Uu || lastSpanEmpty pv sv Uv then return "ERR"
      let kus := linspace (fn Uu pu) (fn Uu su) (sampleSize du) tolMult
      let kvs := linspace (fn Uv pv) (fn Uv sv) (sampleSize dv) tolMult
      if kus.any (fun u => kvs.any (fun v => sWZero (rat == "1") pu pv Uu Uv su sv P u v)) then return "ERR"
      return showPts (surfaceGrid (rat == "1") pu pv (fn Uu) (fn Uv) su sv P kus kvs)
  | ["vgrid", rat, pu, pv, pw, uus, uvs, uws, su, sv, sw, ps, du, dv, dw] => do
      let pu ← pu.toNat?; let pv ← pv.toNat?; let pw ← pw.toNat?
      let Uu ← parseList uus; let Uv ← parseList uvs; let Uw ← parseList uws
      let su ← su.toNat?; let sv ← sv.toNat?; let sw ← sw.toNat?
      let P ← parsePts ps; let du ← parseRat du; let dv ← parseRat dv; let dw ← parseRat dw
      if !(okKv pu su Uu && okKv pv sv Uv && okKv pw sw Uw && P.length == su * sv * sw) || du ≤ 0 || dv ≤ 0 || dw ≤ 0
          || lastSpanEmpty pu su Uu || lastSpanEmpty pv sv Uv || lastSpanEmpty pw sw Uw then return "ERR"
      let kus := linspace (fn Uu pu) (fn Uu su) (sampleSize du) tolMult
      let kvs := linspace (fn Uv pv) (fn Uv sv) (sampleSize dv) tolMult
      let kws := linspace (fn Uw pw) (fn Uw sw) (sampleSize dw) tolMult
      if kus.any (fun u => kvs.any (fun v => kws.any (fun w => vWZero (rat == "1") pu pv pw Uu Uv Uw su sv sw P u v w))) then return "ERR"
      return showPts (volumeGrid (rat == "1") pu pv pw (fn Uu) (fn Uv) (fn Uw) su sv sw P kus kvs kws)
  | _ => none

end Drv
