import NurbsVerif.Model.Weights
import NurbsVerif.Model.Eval
import NurbsVerif.Driver.Parse
import NurbsVerif.Driver.Basic
/- handlers for the weight ops (C09)

   combine <P> <w|None>                      -> Pw
   separate <Pw>                             -> P w
   genw <P> | genp <Pw> | genw2 <P2> | genp2 <Pw2>
   views <C|S|V> <degrees> <sizes|-> op…     -> outputs of the reads (or `ok`)
        op ::= sP=<pts> | sW=<list> | sPw=<pts> | gP | gW | gPw | rev
   b2n C p U P u | b2n S pu pv Uu Uv su sv P u v | b2n V pu pv pw Uu Uv Uw su sv sw P u v w
                                             -> net point   (point = evaluation of the rational shape)
   n2b … (same shapes, net homogeneous) tol  -> SAME | P point
   gridw <G> op…                             -> outputs of the reads (or `ok`);  op ::= w=<list> | s=<x> | g
-/
namespace Drv
open Geomdl

def ptsOk (P : List (List Rat)) : Bool := P.all (fun pt => !pt.isEmpty)
def lastsOk (P : List (List Rat)) : Bool := P.all (fun pt => !pt.isEmpty && pt.getLastD 0 != 0)

/-- the validation of `set_ctrlpts` on a rational shape: every direction has at least degree+1
    points, the first point has at least 3 (volume: 4) coordinates, all points have the dimension
    of the first, and (surface, volume) there are at least `Π sizes` points -/
def netGuard (kind : String) (degs sizes : List Nat) (net : List (List Rat)) : Bool :=
  let sz := if kind == "C" then [net.length] else sizes
  let mind := if kind == "V" then 4 else 3
  !net.isEmpty &&
  (List.zipWith (fun a d => decide (0 < d ∧ d + 1 ≤ a)) sz degs).all id &&
  decide (mind ≤ (net.headD []).length) &&
  net.all (fun pt => pt.length == (net.headD []).length) &&
  decide (sz.foldl (· * ·) 1 ≤ net.length)

def runViews (kind : String) (degs sizes : List Nat) : NState Rat → List String → List String → Option (List String)
  | _, [], acc => some acc.reverse
  | s, op :: ops, acc =>
    if op == "gP" then let (s', P) := nGetP s; runViews kind degs sizes s' ops (showPts P :: acc)
    else if op == "gW" then let (s', w) := nGetW s; runViews kind degs sizes s' ops (showList w :: acc)
    else if op == "gPw" then runViews kind degs sizes s ops (showPts (nGetPw s) :: acc)
    else if op == "rev" then
      if netGuard kind degs sizes s.net.reverse then runViews kind degs sizes (nReverse s) ops acc else none
    else match op.splitOn "=" with
      | ["sP", v] => do
          let P ← parsePts v
          let s' := nSetP s P
          if !(ptsOk P || P.isEmpty) then none
          if netGuard kind degs sizes s'.net then runViews kind degs sizes s' ops acc else none
      | ["sW", v] => do
          let w ← parseList v
          match nSetW s w with
          | none => none
          | some s' => if netGuard kind degs sizes s'.net then runViews kind degs sizes s' ops acc else none
      | ["sPw", v] => do
          let Pw ← parsePts v
          if netGuard kind degs sizes Pw then runViews kind degs sizes (nSetPw s Pw) ops acc else none
      | _ => none

def runGrid : GState Rat → List String → List String → Option (List String)
  | _, [], acc => some acc.reverse
  | s, op :: ops, acc =>
    if op == "g" then let (s', g) := gwGet s; runGrid s' ops (showPts2 g :: acc)
    else match op.splitOn "=" with
      | ["w", v] => do
          let w ← parseList v
          let s' ← gwSet s w
          runGrid s' ops acc
      | ["s", v] => do
          let x ← parseRat v
          let s' ← gwSetScalar s x
          runGrid s' ops acc
      | _ => none

def outs (r : Option (List String)) : String :=
  match r with
  | none => "ERR"
  | some [] => "ok"
  | some l => " ".intercalate l

def handleWeights : List String → Option String
  | ["combine", ps, ws] => do
      let P ← parsePts ps
      if ws == "None" then return showPts (combineUnit P)
      let w ← parseList ws
      return showPts (combine P w)
  | ["separate", ps] => do
      let Pw ← parsePts ps
      if !lastsOk Pw then return "ERR"
      let r := separate Pw
      return showPts r.1 ++ " " ++ showList r.2
  | ["genw", ps] => do
      let P ← parsePts ps
      if !ptsOk P then return "ERR"
      return showPts (genCtrlptsw P)
  | ["genp", ps] => do
      let P ← parsePts ps
      if !lastsOk P then return "ERR"
      return showPts (genCtrlptsWeights P)
  | ["genw2", ps] => do
      let P ← parsePts2 ps
      if !P.all ptsOk then return "ERR"
      return showPts2 (genCtrlptsw2d P)
  | ["genp2", ps] => do
      let P ← parsePts2 ps
      if !P.all lastsOk then return "ERR"
      return showPts2 (genCtrlpts2dWeights P)
  | "views" :: kind :: degs :: sizes :: ops => do
      let degs ← parseNats degs; let sizes ← parseNats sizes
      return outs (runViews kind degs sizes NState.init ops [])
  | ["b2n", "C", p, us, ps, u] => do
      let p ← p.toNat?; let U ← parseList us; let P ← parsePts ps; let u ← parseRat u
      if !(okKv p P.length U && inDom p P.length U u) then return "ERR"
      let net := bsplineToNurbs P
      return showPts net ++ " " ++ showList (project (curvePoint p (fn U) net u))
  | ["b2n", "S", pu, pv, uus, uvs, su, sv, ps, u, v] => do
      let pu ← pu.toNat?; let pv ← pv.toNat?; let Uu ← parseList uus; let Uv ← parseList uvs
      let su ← su.toNat?; let sv ← sv.toNat?; let P ← parsePts ps; let u ← parseRat u; let v ← parseRat v
      if !(okKv pu su Uu && okKv pv sv Uv && inDom pu su Uu u && inDom pv sv Uv v && P.length == su * sv) then return "ERR"
      let net := bsplineToNurbs P
      return showPts net ++ " " ++ showList (project (surfacePoint pu pv (fn Uu) (fn Uv) su sv net u v))
  | ["b2n", "V", pu, pv, pw, uus, uvs, uws, su, sv, sw, ps, u, v, w] => do
      let pu ← pu.toNat?; let pv ← pv.toNat?; let pw ← pw.toNat?
      let Uu ← parseList uus; let Uv ← parseList uvs; let Uw ← parseList uws
      let su ← su.toNat?; let sv ← sv.toNat?; let sw ← sw.toNat?
      let P ← parsePts ps; let u ← parseRat u; let v ← parseRat v; let w ← parseRat w
      if !(okKv pu su Uu && okKv pv sv Uv && okKv pw sw Uw && inDom pu su Uu u && inDom pv sv Uv v
           && inDom pw sw Uw w && P.length == su * sv * sw) then return "ERR"
      let net := bsplineToNurbs P
      return showPts net ++ " " ++ showList (project (volumePoint pu pv pw (fn Uu) (fn Uv) (fn Uw) su sv sw net u v w))
  | ["n2b", "C", p, us, ps, u, tol] => do
      let p ← p.toNat?; let U ← parseList us; let Pw ← parsePts ps; let u ← parseRat u; let tol ← parseRat tol
      if !(okKv p Pw.length U && inDom p Pw.length U u && lastsOk Pw) then return "ERR"
      match nurbsToBspline tol Pw with
      | none => return "SAME"
      | some P => return showPts P ++ " " ++ showList (curvePoint p (fn U) P u)
  | ["n2b", "S", pu, pv, uus, uvs, su, sv, ps, u, v, tol] => do
      let pu ← pu.toNat?; let pv ← pv.toNat?; let Uu ← parseList uus; let Uv ← parseList uvs
      let su ← su.toNat?; let sv ← sv.toNat?; let Pw ← parsePts ps; let u ← parseRat u; let v ← parseRat v
      let tol ← parseRat tol
      if !(okKv pu su Uu && okKv pv sv Uv && inDom pu su Uu u && inDom pv sv Uv v && Pw.length == su * sv && lastsOk Pw) then return "ERR"
      match nurbsToBspline tol Pw with
      | none => return "SAME"
      | some P => return showPts P ++ " " ++ showList (surfacePoint pu pv (fn Uu) (fn Uv) su sv P u v)
  | ["n2b", "V", pu, pv, pw, uus, uvs, uws, su, sv, sw, ps, u, v, w, tol] => do
      let pu ← pu.toNat?; let pv ← pv.toNat?; let pw ← pw.toNat?
      let Uu ← parseList uus; let Uv ← parseList uvs; let Uw ← parseList uws
      let su ← su.toNat?; let sv ← sv.toNat?; let sw ← sw.toNat?
      let Pw ← parsePts ps; let u ← parseRat u; let v ← parseRat v; let w ← parseRat w; let tol ← parseRat tol
      if !(okKv pu su Uu && okKv pv sv Uv && okKv pw sw Uw && inDom pu su Uu u && inDom pv sv Uv v
           && inDom pw sw Uw w && Pw.length == su * sv * sw && lastsOk Pw) then return "ERR"
      match nurbsToBspline tol Pw with
      | none => return "SAME"
      | some P => return showPts P ++ " " ++ showList (volumePoint pu pv pw (fn Uu) (fn Uv) (fn Uw) su sv sw P u v w)
  | "gridw" :: gs :: ops => do
      let G ← parsePts2 gs
      return outs (runGrid ⟨G, [], []⟩ ops [])
  | _ => none

end Drv
