import NurbsVerif.Model.Basis
import NurbsVerif.Model.Layout
import NurbsVerif.Model.LayoutRat
import NurbsVerif.Driver.Parse
/- handlers for the control-net layout ops (C13).  Points are coordinate lists (homogeneous for
   rational shapes), knot vectors are lists of rationals.

   text forms:  curve   `deg U P`              (3 tokens)
                surface `du dv Uu Uv su sv P`  (7 tokens)
                volume  `du dv dw Uu Uv Uw su sv sw P` (10 tokens)
   several shapes in one answer are joined by ` / `. -/
namespace Drv
open Geomdl

abbrev Pt := List Rat
abbrev CrvR := Crv Pt (List Rat)
abbrev SrfR := Srf Pt (List Rat)
abbrev VolR := Vol Pt (List Rat)

def showCrv (c : CrvR) : String := s!"{c.deg} {showList c.kv} {showPts c.pts}"
def showSrf (s : SrfR) : String :=
  s!"{s.du} {s.dv} {showList s.ku} {showList s.kv} {s.su} {s.sv} {showPts s.pts}"
def showVol (v : VolR) : String :=
  s!"{v.du} {v.dv} {v.dw} {showList v.ku} {showList v.kv} {showList v.kw} {v.su} {v.sv} {v.sw} {showPts v.pts}"
def joinShapes (l : List String) : String := " / ".intercalate l

def parseCrv : List String → Option CrvR
  | [d, u, p] => do
      let d ← d.toNat?; let U ← parseList u; let P ← parsePts p
      return { deg := d, kv := U, pts := P }
  | _ => none

def parseSrf : List String → Option SrfR
  | [du, dv, uu, uv, su, sv, p] => do
      let du ← du.toNat?; let dv ← dv.toNat?; let Uu ← parseList uu; let Uv ← parseList uv
      let su ← su.toNat?; let sv ← sv.toNat?; let P ← parsePts p
      return { du := du, dv := dv, ku := Uu, kv := Uv, su := su, sv := sv, pts := P }
  | _ => none

def parseVol : List String → Option VolR
  | [du, dv, dw, uu, uv, uw, su, sv, sw, p] => do
      let du ← du.toNat?; let dv ← dv.toNat?; let dw ← dw.toNat?
      let Uu ← parseList uu; let Uv ← parseList uv; let Uw ← parseList uw
      let su ← su.toNat?; let sv ← sv.toNat?; let sw ← sw.toNat?; let P ← parsePts p
      return { du := du, dv := dv, dw := dw, ku := Uu, kv := Uv, kw := Uw, su := su, sv := sv, sw := sw, pts := P }
  | _ => none

/-- split a token list into groups of `n` -/
def chunks (n : Nat) : Nat → List String → List (List String)
  | 0, _ => []
  | _, [] => []
  | fuel+1, l => l.take n :: chunks n fuel (l.drop n)

def parseDir (s : String) : Option Dir :=
  if s == "u" then some Dir.u else if s == "v" then some Dir.v else if s == "w" then some Dir.w else none

/-- what the object setters accept: `len(ctrlpts) == size_u*size_v`, at least `degree+1` points per direction -/
def srfOk (s : SrfR) : Bool :=
  decide (s.pts.length = s.su * s.sv) && decide (s.du + 1 ≤ s.su) && decide (s.dv + 1 ≤ s.sv)
    && decide (1 ≤ s.du) && decide (1 ≤ s.dv)
def volOk (v : VolR) : Bool :=
  decide (v.pts.length = v.su * v.sv * v.sw) && decide (v.du + 1 ≤ v.su) && decide (v.dv + 1 ≤ v.sv)
    && decide (v.dw + 1 ≤ v.sw) && decide (1 ≤ v.du) && decide (1 ≤ v.dv) && decide (1 ≤ v.dw)
def layoutRectOk (G : List (List Pt)) : Bool :=
  !G.isEmpty && decide (1 ≤ (G.headD []).length) && G.all (fun r => r.length == (G.headD []).length)

/-- every homogeneous point has a last coordinate and it is not zero (else `separate_ctrlpts_weights` raises) -/
def homOkB (P : List Pt) : Bool := P.all fun p => !p.isEmpty && p.getLastD 0 != 0

/-- the knot vector passed as `knotvector=` to `construct_surface` / `construct_volume` as the knot-vector setter of
    the new object stores it: `none` = the code raises (`degree=0`: the eagerly evaluated default
    `knotvector.generate(0, n)` raises; fewer than `degree + 1` inputs: `set_ctrlpts` raises; `knotvector.check` fails:
    `ValueError`; first knot = last knot: `normalize` divides by zero), otherwise the NORMALISED vector -/
def storedKv (deg : Nat) (kv : List Rat) (n : Nat) : Option (List Rat) :=
  if deg = 0 || n < deg + 1 || !knotCheck deg kv n || kv.headD 0 == kv.getLastD 0 then none
  else some (knotNormalize kv)

/-- `sweep_vector`: `point_translate` zips the point with the vector, so a vector with fewer entries than the points
    have SPATIAL coordinates (`rat`: the stored points carry the weight) shortens the translated points and
    `set_ctrlpts` of the swept copy raises -/
def sweepVecShort (rat : Bool) (P : List Pt) (vec : List Rat) : Bool :=
  vec.length < (P.headD []).length - (if rat then 1 else 0)

def showOptPt : Option Pt → String
  | some p => showList p
  | none => "None"

def handleLayout : List String → Option String
  | ["c2d", su, sv, ps] => do
      let su ← su.toNat?; let sv ← sv.toNat?; let P ← parsePts ps
      if P.length ≠ su * sv then return "ERR"
      return showPts2 (ctrlpts2dOf su sv P)
  | ["set2d", du, dv, gs] => do
      let du ← du.toNat?; let dv ← dv.toNat?; let G ← parsePts2 gs
      if !layoutRectOk G then return "ERR"
      let r := setCtrlpts2d G
      if r.1 < du + 1 ∨ r.2.1 < dv + 1 ∨ du = 0 ∨ dv = 0 then return "ERR"
      return s!"{r.1} {r.2.1} {showPts r.2.2}"
  | ["mgrget2", su, sv, ps, u, v] => do
      let su ← su.toNat?; let sv ← sv.toNat?; let P ← parsePts ps; let u ← u.toNat?; let v ← v.toNat?
      return showOptPt (mgrGet P (surfFindIndex su sv u v))
  | ["mgrget3", su, sv, sw, ps, u, v, w] => do
      let su ← su.toNat?; let sv ← sv.toNat?; let sw ← sw.toNat?; let P ← parsePts ps
      let u ← u.toNat?; let v ← v.toNat?; let w ← w.toNat?
      return showOptPt (mgrGet P (volFindIndex su sv sw u v w))
  | ["mgrset2", su, sv, ps, u, v, pt] => do
      let su ← su.toNat?; let sv ← sv.toNat?; let P ← parsePts ps; let u ← u.toNat?; let v ← v.toNat?
      let pt ← parseList pt
      match mgrSet P (surfFindIndex su sv u v) pt with
      | some l => return showPts l
      | none => return "ERR"
  | ["mgrset3", su, sv, sw, ps, u, v, w, pt] => do
      let su ← su.toNat?; let sv ← sv.toNat?; let sw ← sw.toNat?; let P ← parsePts ps
      let u ← u.toNat?; let v ← v.toNat?; let w ← w.toNat?; let pt ← parseList pt
      match mgrSet P (volFindIndex su sv sw u v w) pt with
      | some l => return showPts l
      | none => return "ERR"
  | ["flipu", su, sv, ps] => do
      let su ← su.toNat?; let sv ← sv.toNat?; let P ← parsePts ps
      if P.length < su * sv then return "ERR"
      return showPts (flipCtrlptsU P su sv)
  | ["flipc", su, sv, ps] => do
      let su ← su.toNat?; let sv ← sv.toNat?; let P ← parsePts ps
      if P.length < su * sv then return "ERR"
      return showPts (flipCtrlpts P su sv)
  | ["flip2d", su, sv, gs] => do
      let su ← su.toNat?; let sv ← sv.toNat?; let G ← parsePts2 gs
      if !(G.length ≥ su && (G.take su).all (fun r => r.length ≥ sv)) then return "ERR"
      return showPts2 (flipCtrlpts2d G su sv)
  | "transpose" :: rest => do
      let S ← parseSrf rest
      if !srfOk S then return "ERR"
      return showSrf (transposeSrf S)
  | "flip" :: rest => do
      let S ← parseSrf rest
      if !srfOk S then return "ERR"
      return showSrf (flipSrf S)
  | "fliploop" :: rest => do
      let S ← parseSrf rest
      if !srfOk S then return "ERR"
      return showSrf { S with pts := flipLoop S.pts }
  | "excurves" :: d :: rest => do
      let d ← parseDir d; let S ← parseSrf rest
      if !srfOk S then return "ERR"
      match d with
      | Dir.u => return joinShapes ((extractCurvesU S).map showCrv)
      | Dir.v => return joinShapes ((extractCurvesV S).map showCrv)
      | Dir.w => return "ERR"
  | "consurf" :: d :: deg :: kv :: rest => do
      let deg ← deg.toNat?; let kv ← parseList kv
      let cs ← (chunks 3 rest.length rest).mapM parseCrv
      match parseDir d with
      | none => return "ERR"
      | some d =>
        -- the knot-vector setter validates and normalises `knotvector=` (`storedKv`)
        match storedKv deg kv cs.length with
        | none => return "ERR"
        | some kv =>
        match constructSurface d deg kv cs with
        | some S => if srfOk S && decide (S.ku.length = S.su + S.du + 1) then return showSrf S else return "ERR"
        | none => return "ERR"
  | "exsurfs" :: key :: rest => do
      let V ← parseVol rest
      if !volOk V then return "ERR"
      if key == "uv" then return joinShapes ((extractSurfacesUV V).map showSrf)
      else if key == "uw" then return joinShapes ((extractSurfacesUW V).map showSrf)
      else if key == "vw" then return joinShapes ((extractSurfacesVW V).map showSrf)
      else return "ERR"
  | "convol" :: d :: deg :: kv :: rest => do
      let deg ← deg.toNat?; let kv ← parseList kv
      let ss ← (chunks 7 rest.length rest).mapM parseSrf
      match parseDir d with
      | none => return "ERR"
      | some d =>
        match storedKv deg kv ss.length with
        | none => return "ERR"
        | some kv =>
        match constructVolume d deg kv ss with
        | some V => if volOk V then return showVol V else return "ERR"
        | none => return "ERR"
  | "convolpinned" :: d :: deg :: kv :: rest => do
      let deg ← deg.toNat?; let kv ← parseList kv
      let ss ← (chunks 7 rest.length rest).mapM parseSrf
      match parseDir d with
      | none => return "ERR"
      | some d =>
        match constructVolumePinned d deg kv ss with
        | some V => if volOk V then return showVol V else return "ERR"
        | none => return "ERR"
  | ["sweepc", rat, deg, us, ps, vec] => do
      let deg ← deg.toNat?; let U ← parseList us; let P ← parsePts ps; let vec ← parseList vec
      if vec.isEmpty ∨ P.isEmpty then return "ERR"
      if sweepVecShort (rat == "1") P vec then return "ERR"
      let tr : Pt → Pt := if rat == "1" then pointTranslateW vec else pointTranslate vec
      match sweepCurve tr (knotGenerate 1 2 true tolMult) { deg := deg, kv := U, pts := P } with
      | some S => return showSrf S
      | none => return "ERR"
  | "sweeps" :: rat :: vec :: rest => do
      let vec ← parseList vec; let S ← parseSrf rest
      if vec.isEmpty ∨ !srfOk S then return "ERR"
      -- `Volume.set_ctrlpts` raises on points with fewer than 3 spatial coordinates
      if (S.pts.headD []).length < (if rat == "1" then 4 else 3) then return "ERR"
      if sweepVecShort (rat == "1") S.pts vec then return "ERR"
      let tr : Pt → Pt := if rat == "1" then pointTranslateW vec else pointTranslate vec
      match sweepSurface tr (knotGenerate 1 2 true tolMult) S with
      | some V => return showVol V
      | none => return "ERR"
  -- the same routines on rational shapes with the ctrlpts / weights split-and-recombine written out (Model/LayoutRat.lean)
  | "consurfr" :: d :: deg :: kv :: rest => do
      let deg ← deg.toNat?; let kv ← parseList kv
      let cs ← (chunks 3 rest.length rest).mapM parseCrv
      if !(cs.all fun c => homOkB c.pts) then return "ERR"
      match parseDir d with
      | none => return "ERR"
      | some d =>
        match storedKv deg kv cs.length with
        | none => return "ERR"
        | some kv =>
        match constructSurfaceRat d deg kv cs with
        | some S => if srfOk S && decide (S.ku.length = S.su + S.du + 1) then return showSrf S else return "ERR"
        | none => return "ERR"
  | "convolr" :: d :: deg :: kv :: rest => do
      let deg ← deg.toNat?; let kv ← parseList kv
      let ss ← (chunks 7 rest.length rest).mapM parseSrf
      if !(ss.all fun s => homOkB s.pts) then return "ERR"
      match parseDir d with
      | none => return "ERR"
      | some d =>
        match storedKv deg kv ss.length with
        | none => return "ERR"
        | some kv =>
        match constructVolumeRat d deg kv ss with
        | some V => if volOk V then return showVol V else return "ERR"
        | none => return "ERR"
  | ["sweepcr", deg, us, ps, vec] => do
      let deg ← deg.toNat?; let U ← parseList us; let P ← parsePts ps; let vec ← parseList vec
      if vec.isEmpty ∨ P.isEmpty ∨ !homOkB P then return "ERR"
      if sweepVecShort true P vec then return "ERR"
      match sweepCurveRat vec (knotGenerate 1 2 true tolMult) { deg := deg, kv := U, pts := P } with
      | some S => return showSrf S
      | none => return "ERR"
  | "sweepsr" :: vec :: rest => do
      let vec ← parseList vec; let S ← parseSrf rest
      if vec.isEmpty ∨ !srfOk S ∨ !homOkB S.pts then return "ERR"
      if (S.pts.headD []).length < 4 then return "ERR"
      if sweepVecShort true S.pts vec then return "ERR"
      match sweepSurfaceRat vec (knotGenerate 1 2 true tolMult) S with
      | some V => return showVol V
      | none => return "ERR"
  | _ => none

end Drv
