import NurbsVerif.Model.Fitting
import NurbsVerif.Driver.Parse
namespace Drv
open Geomdl

def floorRat (x : Rat) : Nat := x.floor.toNat

/-- `compute_params_curve` divides by the total chord length of the data line: `ZeroDivisionError` when it is 0
    (all points of the line coincide) -/
def zeroChord (cds : List Rat) : Bool := sumL cds == 0

/-- the data points all have the same number `≥ 2` of coordinates: otherwise `point_distance` raises `ValueError`
    (ragged data) or the control point setter raises "should be at least 2-dimensional" (= `Geomdl.RectData`) -/
def rectData (P : List (List Rat)) : Bool :=
  match P with
  | [] => true
  | p0 :: _ => decide (2 ≤ p0.length) && P.all (fun pt => pt.length == p0.length)

def handleFitting : List String → Option String
  | ["fit.params", cds] => do
      let cds ← parseList cds
      if zeroChord cds then return "ERR"
      return showList (computeParams cds)
  | ["fit.icurve", p, ps, cds, invp] => do
      let p ← p.toNat?; let P ← parsePts ps; let cds ← parseList cds; let invp ← parseRat invp
      if p = 0 || P.length < p + 1 || cds.length + 1 != P.length || zeroChord cds || !rectData P then return "ERR"
      match interpolateCurve p P cds invp with
      | some (kv, cp) => return s!"{showList kv} {showPts cp}"
      | none => return "ERR"
  | ["fit.isurf", pu, pv, su, sv, ps, cu, cv, iu, iv] => do
      let pu ← pu.toNat?; let pv ← pv.toNat?; let su ← su.toNat?; let sv ← sv.toNat?
      let P ← parsePts ps; let cu ← parsePts cu; let cv ← parsePts cv; let iu ← parseRat iu; let iv ← parseRat iv
      if pu = 0 || pv = 0 || su < pu + 1 || sv < pv + 1 || P.length != su * sv then return "ERR"
      if cu.any zeroChord || cv.any zeroChord || !rectData P then return "ERR"
      match interpolateSurface pu pv su sv P cu cv iu iv with
      | some (ku, kv, cp) => return s!"{showList ku} {showList kv} {showPts cp}"
      | none => return "ERR"
  | ["fit.acurve", p, ps, cds, nc] => do
      let p ← p.toNat?; let P ← parsePts ps; let cds ← parseList cds; let nc ← nc.toNat?
      -- with 2 control points `N` has no column and `matrix_multiply` raises IndexError (recorded finding F-11a)
      if p = 0 || nc < p + 1 || nc < 3 || P.length < nc || cds.length + 1 != P.length || zeroChord cds || !rectData P then return "ERR"
      match approximateCurve p P cds nc floorRat with
      | some (kv, cp) => return s!"{showList kv} {showPts cp}"
      | none => return "ERR"
  | ["fit.asurf", pu, pv, su, sv, ps, cu, cv, ncu, ncv] => do
      let pu ← pu.toNat?; let pv ← pv.toNat?; let su ← su.toNat?; let sv ← sv.toNat?
      let P ← parsePts ps; let cu ← parsePts cu; let cv ← parsePts cv; let ncu ← ncu.toNat?; let ncv ← ncv.toNat?
      -- with 2 control points in a direction `N` has no column and `matrix_multiply` raises IndexError
      if pu = 0 || pv = 0 || ncu < pu + 1 || ncv < pv + 1 || ncu < 3 || ncv < 3 || su < ncu || sv < ncv || P.length != su * sv then return "ERR"
      if cu.any zeroChord || cv.any zeroChord || !rectData P then return "ERR"
      match approximateSurface pu pv su sv P cu cv ncu ncv floorRat with
      | some (ku, kv, cp) => return s!"{showList ku} {showList kv} {showPts cp}"
      | none => return "ERR"
  | _ => none

end Drv
