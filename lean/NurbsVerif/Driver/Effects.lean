import NurbsVerif.Model.Effects
/-! Driver handler for C12: value-free abstract replay of a history of logged event sequences.

`c12hist <caches a,b,..> <start e|f|s per cache> <evs of op 1>;<evs of op 2>;…`
where an event is `w:<field>`, `c:<cache>`, `f:<cache>` and an op without events is `-`;
answers the abstract state (one letter per cache) after every op, joined by `;`. -/
namespace Drv
open Eff

def parseCch : String → Option Cch
  | "evalpts" => some .evalpts | "bbox" => some .bbox | "cp2d" => some .cp2d | "cpCache" => some .cpCache
  | "wCache" => some .wCache | "tess" => some .tess | "cEval" => some .cEval | "cVerts" => some .cVerts
  | "cFaces" => some .cFaces | _ => none

def parseFld : String → Option Fld
  | "degree" => some .degree | "knots" => some .knots | "net" => some .net | "sizes" => some .sizes
  | "delta" => some .delta | "trims" => some .trims | "elems" => some .elems | _ => none

def parseEv (s : String) : Option Ev :=
  match s.splitOn ":" with
  | ["w", f] => (parseFld f).map Ev.write
  | ["c", c] => (parseCch c).map Ev.clear
  | ["f", c] => (parseCch c).map Ev.fill
  | _ => none

def parseSt : Char → Option St
  | 'e' => some .empty | 'f' => some .fresh | 's' => some .stale | _ => none

def showSt : St → String
  | .empty => "e" | .fresh => "f" | .stale => "s"

def parseEvs (s : String) : Option (List Ev) :=
  if s = "-" then some [] else (s.splitOn ",").mapM parseEv

/-- states after every op (each op = list of events), starting from `σ` (one state per cache) -/
def replayOps (cs : List Cch) : List St → List (List Ev) → List (List St)
  | _, [] => []
  | σ, evs :: rest =>
    let σ' := (cs.zip σ).map (fun cs => runC cs.1 cs.2 evs)
    σ' :: replayOps cs σ' rest

def handleEffects : List String → Option String
  | ["c12hist", cs, st, ops] =>
    match (cs.splitOn ",").mapM parseCch, st.toList.mapM parseSt, (ops.splitOn ";").mapM parseEvs with
    | some cl, some sl, some ol =>
      if cl.length ≠ sl.length then some "ERR"
      else some (";".intercalate ((replayOps cl sl ol).map (fun σ => String.join (σ.map showSt))))
    | _, _, _ => some "ERR"
  | _ => none

end Drv
