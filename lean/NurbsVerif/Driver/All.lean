import NurbsVerif.Driver.Basic
import NurbsVerif.Driver.Shape
import NurbsVerif.Driver.Degree
import NurbsVerif.Driver.Linalg
import NurbsVerif.Driver.Layout
import NurbsVerif.Driver.Equality
import NurbsVerif.Driver.Weights
import NurbsVerif.Driver.Mesh
import NurbsVerif.Driver.Predicates
import NurbsVerif.Driver.Fitting
import NurbsVerif.Driver.Exchange
import NurbsVerif.Driver.Effects
import NurbsVerif.Driver.Ders
import NurbsVerif.Driver.KnotRows
namespace Drv
def handlers : List (List String → Option String) := [handleBasic, handleShape, handleDegree, handleLinalg, handleLayout, handleEquality, handleWeights, handleMesh, handlePredicates, handleFitting, handleExchange, handleEffects, handleDers, handleKnotRows]
def step (line : String) : String :=
  let toks := (line.trimAscii.toString.splitOn " ").filter (· ≠ "")
  match handlers.findSome? (fun h => h toks) with
  | some s => s
  | none => "bad-op"
end Drv
