import NurbsVerif.Driver.Basic
namespace Drv
def handlers : List (List String → Option String) := [handleBasic]
def step (line : String) : String :=
  let toks := (line.trimAscii.toString.splitOn " ").filter (· ≠ "")
  match handlers.findSome? (fun h => h toks) with
  | some s => s
  | none => "bad-op"
end Drv
