import NurbsVerif.Driver.Basic
import NurbsVerif.Driver.Shape
import NurbsVerif.Driver.Degree
import NurbsVerif.Driver.Linalg
namespace Drv
def handlers : List (List String → Option String) := [handleBasic, handleShape, handleDegree, handleLinalg]
def step (line : String) : String :=
  let toks := (line.trimAscii.toString.splitOn " ").filter (· ≠ "")
  match handlers.findSome? (fun h => h toks) with
  | some s => s
  | none => "bad-op"
end Drv
