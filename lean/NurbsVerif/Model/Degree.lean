/-
  Model of `geomdl/helpers.py: degree_elevation, degree_reduction` and
  `geomdl/linalg.py: binomial_coefficient` (property C08).

  No imports; polymorphic in the number type `K` (core type classes only).  Control polygons are
  `List (List K)` exactly as in Python (a list of points, a point is a list of coordinates – either
  Cartesian or homogeneous, the routines do not care).

  `degreeReduction` mirrors the REPAIRED routine (finding F-08: the second sweep must run
  `for i in range(degree - 2, r, -1)`); `degreeReductionPinned` mirrors the pinned tree
  (`for i in range(degree - 2, r1 + 2)`), it exists only for the refutation in `Props/C08.lean`.
-/
namespace Geomdl
section
variable {K : Type} [Add K] [Sub K] [Mul K] [Div K] [Zero K] [One K] [NatCast K]

/-! ### `linalg.binomial_coefficient` -/

/-- `math.factorial` -/
def factorial : Nat → Nat
  | 0 => 1
  | n+1 => (n+1) * factorial n

/-- `linalg.binomial_coefficient(k, i)`: `0` for `i > k`, else `k! / ((k-i)! * i!)`.
    Python computes the quotient of the two integers with true division and wraps it in `float`;
    the quotient is an integer (theorem `binomialCoefficient_eq_choose`), so the model keeps it in
    `Nat` and casts where the code multiplies it with coordinates. -/
def binomialCoefficient (k i : Nat) : Nat :=
  if i > k then 0 else factorial k / (factorial (k - i) * factorial i)

/-! ### `helpers.degree_elevation` (Eq. 5.36) -/

/-- `[p1 + (coeff * p2) for p1, p2 in zip(acc, pt)]` -/
def axpy (coeff : K) (acc pt : List K) : List K :=
  List.zipWith (fun p1 p2 => p1 + coeff * p2) acc pt

/-- `coeff = binom(degree, j) * binom(num, i - j); coeff /= binom(degree + num, i)` -/
def elevCoeff (degree num i j : Nat) : K :=
  ((binomialCoefficient degree j : K) * (binomialCoefficient num (i - j) : K))
    / (binomialCoefficient (degree + num) i : K)

/-- body of the outer loop: `pts_elev[i]` after the inner loop
    `for j in range(max(0, i - num), min(degree, i) + 1)` (`i - num` is truncated at 0 in `Nat`) -/
def elevPoint (degree num : Nat) (ctrlpts : List (List K)) (i : Nat) : List K :=
  let start := max 0 (i - num)
  let stop := min degree i
  (List.range' start (stop + 1 - start)).foldl
    (fun acc j => axpy (elevCoeff degree num i j) acc (ctrlpts.getD j []))
    (List.replicate (ctrlpts.getD 0 []).length 0)

/-- `helpers.degree_elevation(degree, ctrlpts, num=num)` after the input checks -/
def degreeElevation (degree num : Nat) (ctrlpts : List (List K)) : List (List K) :=
  (List.range (degree + 1 + num)).map (elevPoint degree num ctrlpts)

/-- the two input checks of `degree_elevation` (`GeomdlException` when false) -/
def degreeElevationOk (degree : Nat) (num : Int) (ctrlpts : List (List K)) : Bool :=
  decide (degree + 1 = ctrlpts.length) && decide (0 < num)

/-- `helpers.degree_elevation` with its rejections: `none` = the routine raises -/
def degreeElevationChecked (degree : Nat) (num : Int) (ctrlpts : List (List K)) : Option (List (List K)) :=
  if degreeElevationOk degree num ctrlpts then some (degreeElevation degree num.toNat ctrlpts) else none

/-! ### `helpers.degree_reduction` (Eqs. 5.41, 5.42) -/

/-- first sweep body: `alpha = i / degree; [(c1 - alpha * c2) / (1 - alpha) for c1, c2 in zip(ctrlpts[i], pts_red[i-1])]` -/
def redLeft (degree : Nat) (c prev : List K) (i : Nat) : List K :=
  let alpha : K := (i : K) / (degree : K)
  List.zipWith (fun c1 c2 => (c1 - alpha * c2) / (1 - alpha)) c prev

/-- second sweep body: `alpha = (i + 1) / degree; [(c1 - (1 - alpha) * c2) / alpha for c1, c2 in zip(ctrlpts[i+1], pts_red[i+1])]` -/
def redRight (degree : Nat) (c next : List K) (i : Nat) : List K :=
  let alpha : K := ((i + 1 : Nat) : K) / (degree : K)
  List.zipWith (fun c1 c2 => (c1 - (1 - alpha) * c2) / alpha) c next

/-- `[0.5 * (pl + pr) for pl, pr in zip(left, right)]`; `0.5` is the exact value `1/2` -/
def average (l r : List K) : List K :=
  List.zipWith (fun pl pr => ((1 : K) / ((2 : Nat) : K)) * (pl + pr)) l r

/-- `for i in range(1, r1 + 1): pts_red[i] = …` (one step) -/
def sweepLeftStep (degree : Nat) (ctrlpts : List (List K)) (red : List (List K)) (i : Nat) : List (List K) :=
  red.set i (redLeft degree (ctrlpts.getD i []) (red.getD (i - 1) []) i)

/-- `for i in range(degree - 2, r, -1): pts_red[i] = …` (one step) -/
def sweepRightStep (degree : Nat) (ctrlpts : List (List K)) (red : List (List K)) (i : Nat) : List (List K) :=
  red.set i (redRight degree (ctrlpts.getD (i + 1) []) (red.getD (i + 1) []) i)

/-- initialisation: zero points, then `pts_red[0] = ctrlpts[0]; pts_red[-1] = ctrlpts[-1]`
    (`len(ctrlpts) = degree + 1` by the input check, so `ctrlpts[-1]` is `ctrlpts[degree]`) -/
def redInit (degree : Nat) (ctrlpts : List (List K)) : List (List K) :=
  ((List.replicate degree (List.replicate (ctrlpts.getD 0 []).length (0 : K))).set 0 (ctrlpts.getD 0 [])).set
    (degree - 1) (ctrlpts.getD degree [])

/-- the `if p_is_odd:` block: the middle point is the average of the two one-sided values -/
def redMiddle (degree r : Nat) (ctrlpts : List (List K)) (red : List (List K)) : List (List K) :=
  let left := redLeft degree (ctrlpts.getD r []) (red.getD (r - 1) []) r
  let right := redRight degree (ctrlpts.getD (r + 1) []) (red.getD (r + 1) []) r
  red.set r (average left right)

/-- `r1` of the code.  Python: `r - 2` (= −2) for degree 2, `r - 1` for odd, `r` for even degree; it
    is only used as the bound of `range(1, r1 + 1)`, which is empty for every `r1 ≤ 0`, so the
    truncated subtraction of `Nat` gives the same iterations. -/
def redR1 (degree : Nat) : Nat :=
  let r := (degree - 1) / 2
  if degree = 2 then r - 2 else if degree % 2 ≠ 0 then r - 1 else r

/-- `helpers.degree_reduction(degree, ctrlpts)` after the input checks, REPAIRED second sweep
    `range(degree - 2, r, -1)` = `degree-2, degree-3, …, r+1`. -/
def degreeReduction (degree : Nat) (ctrlpts : List (List K)) : List (List K) :=
  let r := (degree - 1) / 2
  let red0 := redInit degree ctrlpts
  let red1 := (List.range' 1 (redR1 degree)).foldl (sweepLeftStep degree ctrlpts) red0
  let red2 := (List.range' (r + 1) (degree - 2 - r)).reverse.foldl (sweepRightStep degree ctrlpts) red1
  if degree % 2 ≠ 0 then redMiddle degree r ctrlpts red2 else red2

/-- the pinned routine: second sweep `range(degree - 2, r1 + 2)` (ascending; for degree 2 the
    bound is `r1 + 2 = 0`, for odd degree `r + 1`, for even degree `r + 2`) -/
def degreeReductionPinned (degree : Nat) (ctrlpts : List (List K)) : List (List K) :=
  let r := (degree - 1) / 2
  let hi := if degree = 2 then 0 else if degree % 2 ≠ 0 then r + 1 else r + 2
  let red0 := redInit degree ctrlpts
  let red1 := (List.range' 1 (redR1 degree)).foldl (sweepLeftStep degree ctrlpts) red0
  let red2 := (List.range' (degree - 2) (hi - (degree - 2))).foldl (sweepRightStep degree ctrlpts) red1
  if degree % 2 ≠ 0 then redMiddle degree r ctrlpts red2 else red2

/-- the two input checks of `degree_reduction` -/
def degreeReductionOk (degree : Nat) (ctrlpts : List (List K)) : Bool :=
  decide (degree + 1 = ctrlpts.length) && decide (2 ≤ degree)

/-- `helpers.degree_reduction` with its rejections: `none` = the routine raises -/
def degreeReductionChecked (degree : Nat) (ctrlpts : List (List K)) : Option (List (List K)) :=
  if degreeReductionOk degree ctrlpts then some (degreeReduction degree ctrlpts) else none

/-- `num` successive calls of `helpers.degree_reduction`, starting at degree `d` (what
    `operations.degree_operations` does when asked repeatedly); `none` = one of the calls raises -/
def degreeReduceTimes : Nat → Nat → List (List K) → Option (List (List K))
  | 0, _, Q => some Q
  | n+1, d, Q => (degreeReductionChecked d Q).bind (degreeReduceTimes n (d - 1))

def degreeReductionPinnedChecked (degree : Nat) (ctrlpts : List (List K)) : Option (List (List K)) :=
  if degreeReductionOk degree ctrlpts then some (degreeReductionPinned degree ctrlpts) else none

/-! ### Bernstein form (specification side: what "the same curve" means) -/

/-- `x ^ n` by repeated multiplication (the model has no `Pow` class) -/
def powNat (x : K) : Nat → K
  | 0 => 1
  | n+1 => powNat x n * x

/-- Bernstein polynomial `B_{i,n}(u) = C(n,i) u^i (1-u)^(n-i)` -/
def bernstein (n i : Nat) (u : K) : K :=
  (binomialCoefficient n i : K) * powNat u i * powNat (1 - u) (n - i)

/-- the point `Σ_i B_{i,n}(u) · P_i` of the Bézier curve with control polygon `P` (`n = |P| - 1`),
    coordinate by coordinate; the dimension is that of the first control point -/
def bernsteinEval (P : List (List K)) (u : K) : List K :=
  (List.range (P.getD 0 []).length).map (fun c =>
    ((List.range P.length).map (fun i => bernstein (P.length - 1) i u * (P.getD i []).getD c 0)).sum)

end
end Geomdl
