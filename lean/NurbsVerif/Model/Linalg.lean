import NurbsVerif.Model.LU
import NurbsVerif.Model.Basis
/-
  Model of geomdl/linalg.py (LU solvers, pivoting, inverse, determinant, the memoised identity
  matrix, vector / matrix helpers) on top of the list model of `_linalg.doolittle` in `Model/LU.lean`.

  No Mathlib; polymorphic in the number type `K` (core classes only).  Matrices are
  `List (List K)` (list of rows) exactly as in Python; `ent A i j` is `A[i][j]` (0 outside).
  A Python exception (`ZeroDivisionError` of the substitutions) is the `none` of an `Option`.

  Repairs mirrored (DESIGN §8): F-16a (`matrix_pivot` works on a *copy* of the memoised identity),
  F-16c (`lu_factor` solves with the row-permuted right-hand side `P·b`).  The behaviour of the
  pinned tree is kept in the separate definitions `…Pinned` (used by the refutation theorems only).
  F-16b (`matrix_determinant` multiplies the diagonal although Doolittle met a zero pivot) is NOT
  repaired: `matrixDeterminant` mirrors the pinned code.
-/
namespace Lin
open Geomdl (absK)
section
variable {K : Type} [Add K] [Sub K] [Mul K] [Div K] [Neg K] [Zero K] [One K] [NatCast K]
  [LT K] [LE K] [DecidableRel (α := K) (· < ·)] [DecidableRel (α := K) (· ≤ ·)] [DecidableEq K]

/-- `A[i][j]`, zero outside the list -/
def ent (A : List (List K)) (i j : Nat) : K := (A.getD i []).getD j 0
/-- `v[i]`, zero outside the list -/
def vent (v : List K) (i : Nat) : K := v.getD i 0
/-- an `r × c` table from an entry function -/
def tabulate (r c : Nat) (f : Nat → Nat → K) : List (List K) :=
  (List.range r).map (fun i => (List.range c).map (fun j => f i j))
/-- all rows have length `c` -/
def isRect (A : List (List K)) (c : Nat) : Bool := A.all (fun r => r.length == c)
/-- the guard of `lu_decomposition` -/
def isSquare (A : List (List K)) : Bool := isRect A A.length

/-! ### vector helpers -/

/-- `vector_dot`: `prod = 0.0; for v1, v2 in zip(..): prod += v1 * v2` -/
def vectorDot (v w : List K) : K := (v.zip w).foldl (fun acc p => acc + p.1 * p.2) 0

/-- `vector_cross` on (2-D vectors padded to) 3-D vectors; `none` = `ValueError` -/
def vectorCross (v w : List K) : Option (List K) :=
  let pad : List K → Option (K × K × K) := fun
    | [a, b] => some (a, b, 0)
    | [a, b, c] => some (a, b, c)
    | _ => none
  match pad v, pad w with
  | some (a0, a1, a2), some (b0, b1, b2) =>
      some [a1 * b2 - a2 * b1, a2 * b0 - a0 * b2, a0 * b1 - a1 * b0]
  | _, _ => none

/-- the argument of the square root in `vector_magnitude`: `sq_sum += vin**2` -/
def normSq (v : List K) : K := v.foldl (fun acc x => acc + x * x) 0

/-- `vector_normalize`, given the value `mag` of `vector_magnitude(v)` (a square root, supplied
    by the caller; the 18-decimals print/parse of the code is not modelled - the harness' exact number type ignores the
    format spec, so the step is not exercised in exact mode);
    `none` = `ValueError` (zero magnitude) -/
def vectorNormalize (v : List K) (mag : K) : Option (List K) :=
  if 0 < mag then some (v.map (fun x => x / mag)) else none

/-- `vector_multiply` -/
def vectorMultiply (v : List K) (s : K) : List K := v.map (fun x => x * s)
/-- `vector_sum(v1, v2, coeff)` -/
def vectorSum (v w : List K) (c : K) : List K := List.zipWith (fun a b => a + c * b) v w
/-- `vector_generate(start, end)` (not normalised) -/
def vectorGenerate (s e : List K) : List K := List.zipWith (fun a b => b - a) s e
/-- `point_translate` -/
def pointTranslate (p v : List K) : List K := List.zipWith (fun a b => a + b) p v
/-- `point_mid` = `point_translate(pt1, vector_multiply(vector_generate(pt1, pt2), 0.5))` -/
def pointMid (p q : List K) : List K :=
  pointTranslate p (vectorMultiply (vectorGenerate p q) (1 / (1 + 1)))
/-- `vector_mean(*args)` -/
def vectorMean (vs : List (List K)) : List K :=
  let z : List K := List.replicate (vs.headD []).length 0
  (vs.foldl (fun acc v => List.zipWith (fun a b => a + b) acc v) z).map (fun a => a / (Nat.cast vs.length : K))
/-- `vector_is_zero(v, tol)` -/
def vectorIsZero (v : List K) (tol : K) : Bool := v.all (fun x => decide (absK x < tol))

/-! ### matrix helpers -/

/-- `matrix_transpose`: `num_rows = len(m[0])`, `m_t[i][j] = m[j][i]` -/
def matrixTranspose (m : List (List K)) : List (List K) :=
  (List.range (m.headD []).length).map (fun i => m.map (fun r => r.getD i 0))

/-- `matrix_multiply` (matrix–matrix branch): `mat3[i][j] += mat1[i][k] * mat2[k][j]`, `k` ascending -/
def matrixMultiply (a b : List (List K)) : List (List K) :=
  a.map (fun ra => (List.range (b.headD []).length).map (fun j =>
    sumTo b.length (fun k => ra.getD k 0 * ent b k j)))

/-- `matrix_multiply` (matrix–vector branch, entered through the `TypeError`) -/
def matrixVector (a : List (List K)) (v : List K) : List K :=
  a.map (fun ra => sumTo v.length (fun k => ra.getD k 0 * vent v k))

/-- `matrix_scalar` -/
def matrixScalar (m : List (List K)) (s : K) : List (List K) := m.map (fun r => r.map (fun x => x * s))

/-- the list `matrix_identity(n)` builds -/
def identity (n : Nat) : List (List K) := tabulate n n (fun i j => if i = j then 1 else 0)

/-- `math.factorial` -/
def fact : Nat → Nat
  | 0 => 1
  | n+1 => (n+1) * fact n

/-- `binomial_coefficient(k, i)`: `0` if `i > k`, else `k! / ((k-i)! * i!)` (the quotient is exact) -/
def binomialCoefficient (k i : Nat) : Nat := if i > k then 0 else fact k / (fact (k - i) * fact i)

/-! ### LU decomposition on lists, substitutions, `lu_solve` -/

/-- `lu_decomposition(A)` = `_linalg.doolittle(A)` as the pair of full `n × n` row lists `(L, U)` -/
def luDecomposition (A : List (List K)) : List (List K) × List (List K) :=
  let n := A.length
  let st := doolittle (ent A) n
  (tabulate n n (fun i j => st.L i j), tabulate n n (fun i j => st.U i j))

/-- `forward_substitution(L, b)` restricted to its first `m` unknowns:
    `y[i] = (b[i] - sum(L[i][j]*y[j] for j < i)) / L[i][i]`; `none` = `ZeroDivisionError` -/
def fwdSub (L : Nat → Nat → K) (b : Nat → K) : Nat → Option (List K)
  | 0 => some []
  | m+1 =>
    match fwdSub L b m with
    | none => none
    | some y =>
      if L m m = 0 then none
      else some (y ++ [(b m - sumTo m (fun j => L m j * y.getD j 0)) / L m m])

/-- `backward_substitution(U, y)`: the unknowns `x[i .. i+m-1]` of a system of size `q = i + m`
    (the recursion computes `x[q-1]` first, as the code does):
    `x[i] = (y[i] - sum(U[i][j]*x[j] for j in range(i, q))) / U[i][i]` where `x[i]` still holds `0.0`
    when the sum is formed; `none` = `ZeroDivisionError` -/
def bwdSubFrom (U : Nat → Nat → K) (y : Nat → K) : Nat → Nat → Option (List K)
  | _, 0 => some []
  | i, m+1 =>
    match bwdSubFrom U y (i + 1) m with
    | none => none
    | some xt =>
      if U i i = 0 then none
      else some (((y i - sumTo (m + 1) (fun t => U i (i + t) * (0 :: xt).getD t 0)) / U i i) :: xt)

/-- `backward_substitution(U, y)` with `q = len(y)` -/
def bwdSub (U : Nat → Nat → K) (y : Nat → K) (q : Nat) : Option (List K) := bwdSubFrom U y 0 q

/-- all results, unless one of them is an exception -/
def allSome {α : Type} : List (Option α) → Option (List α)
  | [] => some []
  | none :: _ => none
  | some a :: r =>
    match allSome r with
    | none => none
    | some l => some (a :: l)

/-- one right-hand side: `backward_substitution(U, forward_substitution(L, bt))` -/
def solveColumn (st : LU K) (bt : Nat → K) (q : Nat) : Option (List K) :=
  match fwdSub st.L bt q with
  | none => none
  | some y => bwdSub st.U (fun k => y.getD k 0) q

/-- the loop over the columns of `b` shared by `lu_solve` and `lu_factor`, and the final
    `x[j][i] = xt[j]` -/
def solveColumns (st : LU K) (b : List (List K)) : Option (List (List K)) :=
  let q := b.length
  let dim := (b.headD []).length
  match allSome ((List.range dim).map (fun i => solveColumn st (fun k => ent b k i) q)) with
  | none => none
  | some cols => some (tabulate q dim (fun j i => ent cols i j))

/-- `lu_solve(A, b)`; `b` is a list of `len(A)` rows, each a list of `dim` numbers -/
def luSolve (A b : List (List K)) : Option (List (List K)) :=
  solveColumns (doolittle (ent A) A.length) b

/-! ### pivoting -/

/-- exchange two positions of a list (unchanged if an index is out of range) -/
def swapAt {α : Type} (l : List α) (a b : Nat) : List α :=
  match l[a]?, l[b]? with
  | some x, some y => (l.set a y).set b x
  | _, _ => l

/-- inner loop of `matrix_pivot`: first row `i ∈ [j, n)` with the largest `|mp[i][j]|`
    (strict `>` against a running maximum starting at `0.0`, `row = j` initially) -/
def argMaxAbs (mp : List (List K)) (j n : Nat) : Nat :=
  ((List.range (n - j)).foldl (fun (acc : K × Nat) t =>
      let a := absK (ent mp (j + t) j)
      if acc.1 < a then (a, j + t) else acc) ((0 : K), j)).2

/-- state of the outer loop of `matrix_pivot`: `mp`, `p`, `num_rowswap` -/
structure PivotState (K : Type) where
  mp : List (List K)
  p : List (List K)
  swaps : Nat

/-- one iteration `j` of the outer loop of `matrix_pivot` (rows are exchanged as a whole; the
    code exchanges the first `n` entries, which is the whole row of a square matrix) -/
def pivotStep (st : PivotState K) (j : Nat) : PivotState K :=
  let row := argMaxAbs st.mp j st.mp.length
  if j = row then st else ⟨swapAt st.mp j row, swapAt st.p j row, st.swaps + 1⟩

/-- the loop of `matrix_pivot` started with permutation matrix `p0` -/
def pivotFrom (m p0 : List (List K)) : PivotState K :=
  (List.range m.length).foldl pivotStep ⟨m, p0, 0⟩

/-- `matrix_pivot(m, sign=True)` on the repaired tree (F-16a): `p` starts as a fresh identity -/
def matrixPivot (m : List (List K)) : PivotState K := pivotFrom m (identity m.length)

/-- `math.pow(-1, num_rowswap)` -/
def pivotSign (st : PivotState K) : K := if st.swaps % 2 = 0 then 1 else -1

/-- `matrix_inverse(m)` = `lu_solve(mp, p)` -/
def matrixInverse (m : List (List K)) : Option (List (List K)) :=
  let st := matrixPivot m
  luSolve st.mp st.p

/-- `lu_factor(A, b)` on the repaired tree (F-16c): solves `mp · x = p · b` -/
def luFactor (A b : List (List K)) : Option (List (List K)) :=
  let st := matrixPivot A
  luSolve st.mp (matrixMultiply st.p b)

/-- `lu_factor(A, b)` on the pinned tree (F-16c): the right-hand side is not permuted -/
def luFactorPinned (A b : List (List K)) : Option (List (List K)) :=
  luSolve (matrixPivot A).mp b

/-- `matrix_determinant(m)` as on the pinned tree (F-16b is recorded, not repaired):
    `det = prod(L[i][i] * U[i][i]) * sign`, also when Doolittle met a zero pivot -/
def matrixDeterminant (m : List (List K)) : K :=
  let st := matrixPivot m
  let lu := doolittle (ent st.mp) st.mp.length
  (List.range m.length).foldl (fun det i => det * (lu.L i i * lu.U i i)) 1 * pivotSign st

/-- Laplace expansion along the first row (the Leibniz determinant, as an executable
    definition independent of any factorisation) -/
def detLaplace : Nat → List (List K) → K
  | 0, _ => 1
  | n+1, m =>
    let r0 := m.headD []
    let rest := m.tail
    (List.range (n+1)).foldl (fun acc j =>
      let minor := rest.map (fun r => r.eraseIdx j)
      let t := r0.getD j 0 * detLaplace n minor
      if j % 2 = 0 then acc + t else acc - t) 0

/-! ### the memoised `matrix_identity` as explicit state, histories of calls -/

/-- contents of the `lru_cache` of `matrix_identity`: most recently used first -/
abbrev Cache (K : Type) := List (Nat × List (List K))

/-- `functools.lru_cache(maxsize=16)` -/
def cacheMax : Nat := 16

/-- a call `matrix_identity(n)`: the *stored list object* is returned on a hit -/
def cacheGet (c : Cache K) (n : Nat) : List (List K) × Cache K :=
  match c.find? (fun e => e.1 == n) with
  | some e => (e.2, e :: c.filter (fun e => e.1 != n))
  | none => (identity n, ((n, identity n) :: c).take cacheMax)

/-- effect of mutating in place the list object stored for `n` (it is the first entry after a `cacheGet`) -/
def cachePut (c : Cache K) (n : Nat) (p : List (List K)) : Cache K :=
  c.map (fun e => if e.1 == n then (n, p) else e)

/-- the public calls whose interleavings the property quantifies over -/
inductive Op (K : Type) where
  | identity (n : Nat)
  | pivot (m : List (List K))
  | inverse (m : List (List K))
  | det (m : List (List K))
  | luSolve (A b : List (List K))
  | luFactor (A b : List (List K))

/-- result of a call: a list of matrices (`pivot`: `[mp, p, [[sign]]]`, `det`: `[[[d]]]`), `none` = exception -/
abbrev Out (K : Type) := Option (List (List (List K)))

/-- what a call returns as a function of its arguments alone (repaired tree) -/
def pureOut : Op K → Out K
  | .identity n => some [identity n]
  | .pivot m => let st := matrixPivot m; some [st.mp, st.p, [[pivotSign st]]]
  | .inverse m => (matrixInverse m).map (fun x => [x])
  | .det m => some [[[matrixDeterminant m]]]
  | .luSolve A b => (luSolve A b).map (fun x => [x])
  | .luFactor A b => (luFactor A b).map (fun x => [x])

/-- one call on the repaired tree with the cache as explicit state: `matrix_pivot` reads the
    memoised identity and works on a deep copy of it -/
def stepC (c : Cache K) : Op K → Cache K × Out K
  | .identity n => let r := cacheGet c n; (r.2, some [r.1])
  | .pivot m =>
      let r := cacheGet c m.length
      let st := pivotFrom m r.1
      (r.2, some [st.mp, st.p, [[pivotSign st]]])
  | .inverse m =>
      let r := cacheGet c m.length
      let st := pivotFrom m r.1
      (r.2, (luSolve st.mp st.p).map (fun x => [x]))
  | .det m =>
      let r := cacheGet c m.length
      let st := pivotFrom m r.1
      let lu := doolittle (ent st.mp) st.mp.length
      (r.2, some [[[(List.range m.length).foldl (fun det i => det * (lu.L i i * lu.U i i)) 1 * pivotSign st]]])
  | .luSolve A b => (c, (luSolve A b).map (fun x => [x]))
  | .luFactor A b =>
      let r := cacheGet c A.length
      let st := pivotFrom A r.1
      (r.2, (luSolve st.mp (matrixMultiply st.p b)).map (fun x => [x]))

/-- one call on the pinned tree (F-16a): the row exchanges of `matrix_pivot` are performed on the
    memoised list itself, so the cache entry becomes the returned `p`
    (F-16c as well: `lu_factor` does not permute `b`) -/
def stepPinned (c : Cache K) : Op K → Cache K × Out K
  | .identity n => let r := cacheGet c n; (r.2, some [r.1])
  | .pivot m =>
      let r := cacheGet c m.length
      let st := pivotFrom m r.1
      (cachePut r.2 m.length st.p, some [st.mp, st.p, [[pivotSign st]]])
  | .inverse m =>
      let r := cacheGet c m.length
      let st := pivotFrom m r.1
      (cachePut r.2 m.length st.p, (luSolve st.mp st.p).map (fun x => [x]))
  | .det m =>
      let r := cacheGet c m.length
      let st := pivotFrom m r.1
      let lu := doolittle (ent st.mp) st.mp.length
      (cachePut r.2 m.length st.p,
        some [[[(List.range m.length).foldl (fun det i => det * (lu.L i i * lu.U i i)) 1 * pivotSign st]]])
  | .luSolve A b => (c, (luSolve A b).map (fun x => [x]))
  | .luFactor A b =>
      let r := cacheGet c A.length
      let st := pivotFrom A r.1
      (cachePut r.2 A.length st.p, (luSolve st.mp b).map (fun x => [x]))

/-! ### inputs the implementation accepts: SUFFICIENT shape guards

When a guard below is `true` the real routine gets past all its non-arithmetic checks (it can only raise
`ZeroDivisionError` on a zero pivot) – the guards are never too weak (enumerated against the real code on all
matrices / right-hand sides with ≤ 3 rows of length ≤ 3).  They are NOT necessary: on a few degenerate shapes the
guard is `false` although the code returns (and the model returns the same value) – a right-hand side of `lu_factor`
whose later rows are longer (`lu_factor([[10,1],[1,10]], [[1],[2,3]])`), right-hand sides without columns
(`lu_solve([[1]], [[],[]])`, `matrix_multiply([[1],[]], [[]])`), `matrix_pivot` on some ragged inputs
(`[[5],[1,2]]`); `matrix_pivot` on rows longer than `n` is outside what the model mirrors.  The generators do not
produce these shapes; nothing is claimed about them.

These predicates are NOT tested inside `luSolve`, `matrixPivot`, … (which pad missing entries with `0`
and would "return" something on a non-square input); they are the explicit hypotheses of the C16
theorems, and the driver answers `ERR` exactly when they fail (`Drv.opOk`, the same tests written out again). -/

/-- every row has at least `c` entries (Python reads `row[j]` for `j < c`) -/
def rowsAtLeast (A : List (List K)) (c : Nat) : Bool := A.all (fun r => decide (c ≤ r.length))

/-- `lu_solve(A, b)` gets past its non-arithmetic checks: `lu_decomposition` accepts `A` (square: every row has
    `len(A)` entries), `b[0]` exists, `forward_substitution` reads `L[i][j]` for `i < len(b)` only
    (`len(b) ≤ len(A)`), and `[b1[i] for b1 in b]`, `i < len(b[0])`, finds every entry -/
def luSolveOk (A b : List (List K)) : Bool :=
  isSquare A && decide (0 < b.length) && decide (b.length ≤ A.length) && rowsAtLeast b (b.headD []).length

/-- `lu_factor(A, b)`: `A` square, `b` a non-empty rectangular table with `len(A)` rows (`matrix_multiply(p, b)`) -/
def luFactorOk (A b : List (List K)) : Bool :=
  isSquare A && decide (0 < b.length) && decide (b.length = A.length) && isRect b (b.headD []).length

/-- `matrix_inverse(m)`: `m` square and not empty (`lu_solve(mp, p)` reads `p[0]`) -/
def matrixInverseOk (m : List (List K)) : Bool := isSquare m && decide (0 < m.length)

/-- `matrix_multiply(mat1, mat2)`, matrix–matrix branch: both non-empty, `len(mat1[0]) = len(mat2)` (otherwise
    `GeomdlException("Column - row size mismatch")`), and the loops find `mat1[i][k]`, `k < len(mat2)`, and
    `mat2[k][j]`, `j < len(mat2[0])` -/
def matrixMultiplyOk (a b : List (List K)) : Bool :=
  !a.isEmpty && !b.isEmpty && (a.headD []).length == b.length && rowsAtLeast a b.length
    && rowsAtLeast b (b.headD []).length

/-- `matrix_multiply(mat1, vec)`, matrix–vector branch -/
def matrixVectorOk (a : List (List K)) (v : List K) : Bool :=
  !a.isEmpty && !v.isEmpty && (a.headD []).length == v.length && rowsAtLeast a v.length

/-- the guard of a public call: if this is `true` the call does not raise for a reason other than a zero pivot
    (sufficient, not necessary – see the section header; for `matrix_pivot` with rows longer than `n` the code
    exchanges only the first `n` entries, which the model does not mirror, and the guard is `false`) -/
def admissible : Op K → Bool
  | .identity _ => true
  | .pivot m => isSquare m
  | .inverse m => matrixInverseOk m
  | .det m => isSquare m
  | .luSolve A b => luSolveOk A b
  | .luFactor A b => luFactorOk A b

/-- a history of calls: the list of results, threading the cache -/
def runWith (step : Cache K → Op K → Cache K × Out K) : Cache K → List (Op K) → List (Out K)
  | _, [] => []
  | c, op :: ops => let r := step c op; r.2 :: runWith step r.1 ops

end
end Lin
