/-
  Bézier decomposition WITH the exceptions of the implementation (`operations.decompose_curve`,
  `operations.decompose_surface`): `decomposeDirE` / `decomposeUVE` answer `none` exactly where the code
  raises; otherwise they return what `decomposeDir` / `decomposeUV` (Model/Knots2) return.  `splitDirE` is
  `splitDir` with the one exception `splitDir` does not model (multiplicity of the parameter above the degree).
-/
import NurbsVerif.Model.Knots2

namespace Geomdl
section
variable {K : Type} [Add K] [Sub K] [Mul K] [Div K] [Neg K] [Zero K] [One K] [NatCast K]
  [LT K] [LE K] [DecidableRel (α := K) (· < ·)] [DecidableRel (α := K) (· ≤ ·)] [DecidableEq K]

/-- `operations.split_curve` / `split_surface_u` / `split_surface_v` with the exceptions of the code for a parameter
    of the CLOSED DOMAIN `[U_p, U_n]` (all parameters the decomposition loop ever passes; the exception for a parameter
    outside the domain is added by `splitDirD`): `none` = the implementation raises.  Besides the rejection at the two
    domain ends (`splitDir`), the
    code raises `ValueError` ("Input is not a valid knot vector") when `find_multiplicity` reports more
    than `p` copies of the split parameter: then `r = p - s < 0`, `insert_knot` inserts nothing, and the
    control-point slices `[0 : ks + r]`, `[ks + r - 1 :]` do not fit the cut knot vectors
    (`|U| ≠ n + p + 1`). -/
def splitDirE (S : Shape K) (dir : Nat) (u : K) (tol : K) : Option (Shape K × Shape K) :=
  if S.deg dir < findMultiplicity u (S.kv dir) tol then none else splitDir S dir u tol

/-- `split_curve` / `split_surface_u` / `split_surface_v` WITH ALL exceptions of the code (what the driver op `split`
    runs): in addition to `splitDirE`, a parameter OUTSIDE the closed domain `[U_p, U_n]` of the split direction makes the
    code raise – below `U_p` / above `U_n` the span search returns the first / a late span, the cut knot vectors do not
    fit the control-point slices (`ValueError: Input is not a valid knot vector`, or `GeomdlException` from
    `set_ctrlpts`); for a clamped input these are the parameters outside the knot range, for an unclamped one also
    the parameters between the outer knots and the domain (audit 4, H8: real code, 400 random curves / surfaces,
    clamped and not, on and off knots, both sides: always an exception). -/
def splitDirD (S : Shape K) (dir : Nat) (u : K) (tol : K) : Option (Shape K × Shape K) :=
  if u < (S.kv dir).getD (S.deg dir) 0 ∨ (S.kv dir).getD (S.size dir) 0 < u then none else splitDirE S dir u tol

/-- `operations.decompose_curve` / one direction of `decompose_surface` WITH the exceptions of the code:
    `none` = the implementation raises.  The loop of the code takes the knots `U[p+1 : -(p+1)]` of the
    current remainder and calls `split_*` at the first of them; that call raises
    ("Cannot split from the domain edge") when this knot equals the domain start `U_p` (an unclamped
    input with `U_{p+1} = U_p`, or a clamped one whose first knot is repeated `p+2` times) or the domain
    end `U_n` (empty last span(s)), and it raises `ValueError` when the knot is repeated more than `p`
    times (`splitDirE`).  Otherwise the pieces are those of `decomposeDir` (`decomposeDirE_some`). -/
def decomposeDirE (dir : Nat) (tol : K) : Nat → Shape K → Option (List (Shape K))
  | 0, S => some [S]
  | fuel+1, S =>
    let p := S.deg dir
    let U := S.kv dir
    let interior := (U.drop (p + 1)).take (U.length - 2 * (p + 1))
    match interior with
    | [] => some [S]
    | knot :: _ =>
      match splitDirE S dir knot tol with
      | some (a, b) => (decomposeDirE dir tol fuel b).map (fun l => a :: l)
      | none => none

/-- `mapM` over `Option`, structurally (no monad instances needed in proofs) -/
def allSome {α : Type} : List (Option α) → Option (List α)
  | [] => some []
  | none :: _ => none
  | some a :: rest => (allSome rest).map (fun l => a :: l)

/-- `decompose_surface(obj, decompose_dir='uv')` with the exceptions of the code: u first (any
    exception aborts), then every strip in v, in order -/
def decomposeUVE (tol : K) (S : Shape K) : Option (List (Shape K)) :=
  match decomposeDirE 0 tol (S.kv 0).length S with
  | none => none
  | some strips => (allSome (strips.map (fun T => decomposeDirE 1 tol (T.kv 1).length T))).map List.flatten

end
end Geomdl
