/-
  Model of the knot operations of geomdl/helpers.py and their per-direction application in
  geomdl/operations.py: knot insertion (A5.1), its knot-vector part, and the gather / scatter of
  iso-curves for surfaces and volumes (layout `v + sv*(u + su*w)`).
-/
import NurbsVerif.Model.Eval

namespace Geomdl
section
variable {K : Type} [Add K] [Sub K] [Mul K] [Div K] [Neg K] [Zero K] [One K] [NatCast K]
  [LT K] [LE K] [DecidableRel (α := K) (· < ·)] [DecidableRel (α := K) (· ≤ ·)] [DecidableEq K]

/-- knot vector as a total function: padded with its last value, so that a sorted list gives a
    monotone function -/
def fnOf (l : List K) : Nat → K := fun i => l.getD i (l.getLastD 0)

/-! ### knot insertion, curve level (`helpers.knot_insertion`, `knot_insertion_kv`) -/

/-- `helpers.knot_insertion_kv(U, u, span, r)` -/
def knotInsertionKv (U : List K) (u : K) (span r : Nat) : List K :=
  U.take (span + 1) ++ List.replicate r u ++ U.drop (span + 1)

/-- `helpers.knot_insertion_alpha(u, U, k, i, L)` -/
def insAlpha (U : Nat → K) (u : K) (k i L : Nat) : K := (u - U (L + i)) / (U (i + k + 1) - U (L + i))

/-- the `temp` array of A5.1 before the first insertion (`p - s + 1` points) -/
def insTempInit (P : List (List K)) (k p s : Nat) : List (List K) :=
  (List.range (p - s + 1)).map (fun i => ptsGet P (k - p + i))

/-- insertion level `j`: `temp[i] = alpha*temp[i+1] + (1-alpha)*temp[i]` for `i = 0..p-j-s`, in place -/
def insTempStep (U : Nat → K) (u : K) (k p s j : Nat) (temp : List (List K)) : List (List K) :=
  (List.range (p - j - s + 1)).map (fun i =>
      let alpha := insAlpha U u k i (k - p + j)
      List.zipWith (fun e1 e2 => alpha * e2 + (1 - alpha) * e1) (ptsGet temp i) (ptsGet temp (i+1)))
    ++ temp.drop (p - j - s + 1)

def insTempAt (U : Nat → K) (u : K) (P : List (List K)) (k p s : Nat) : Nat → List (List K)
  | 0 => insTempInit P k p s
  | j+1 => insTempStep U u k p s (j+1) (insTempAt U u P k p s j)

/-- `helpers.knot_insertion(p, U, P, u, num=r, s=s, span=k)`: the output array, index by index
    (the unaffected copies, the left-edge writes `ctrlpts_new[L] = temp[0]`, the last `temp` row,
    the right-edge writes `ctrlpts_new[k+r-j-s] = temp[p-j-s]`) -/
def knotInsertion (p : Nat) (U : Nat → K) (P : List (List K)) (u : K) (r s k : Nat) : List (List K) :=
  (List.range (P.length + r)).map (fun i =>
    if i + p ≤ k then ptsGet P i
    else if i + p ≤ k + r then ptsGet (insTempAt U u P k p s (i + p - k)) 0
    else if i + s < k then ptsGet (insTempAt U u P k p s r) (i + p - k - r)
    else if i + s < k + r then ptsGet (insTempAt U u P k p s (k + r - s - i)) (p - (k + r - s - i) - s)
    else ptsGet P (i - r))

/-! ### iso-curve gather / scatter -/

/-- surface, u direction: apply `f` to every u-curve (`v` fixed); returns the new net and `su'` -/
def mapSurfU (su sv : Nat) (P : List (List K)) (f : List (List K) → List (List K)) : List (List K) × Nat :=
  let cols := (List.range sv).map (fun v => f ((List.range su).map (fun u => ptsGet P (v + sv * u))))
  let su' := (cols.headD []).length
  ((List.range su').flatMap (fun u => (List.range sv).map (fun v => ptsGet (cols.getD v []) u)), su')

/-- surface, v direction -/
def mapSurfV (su sv : Nat) (P : List (List K)) (f : List (List K) → List (List K)) : List (List K) × Nat :=
  let rows := (List.range su).map (fun u => f ((List.range sv).map (fun v => ptsGet P (v + sv * u))))
  (rows.flatten, (rows.headD []).length)

/-- volume, direction `dir ∈ {0,1,2}`: apply `f` to every iso-curve; returns the new net and the new size -/
def mapVol (dir su sv sw : Nat) (P : List (List K)) (f : List (List K) → List (List K)) : List (List K) × Nat :=
  let idx (u v w : Nat) := v + sv * (u + su * w)
  if dir = 0 then
    let lines := (List.range sw).map (fun w => (List.range sv).map (fun v =>
      f ((List.range su).map (fun u => ptsGet P (idx u v w)))))
    let n' := ((lines.headD []).headD []).length
    ((List.range sw).flatMap (fun w => (List.range n').flatMap (fun u => (List.range sv).map (fun v =>
      ptsGet ((lines.getD w []).getD v []) u))), n')
  else if dir = 1 then
    let lines := (List.range sw).map (fun w => (List.range su).map (fun u =>
      f ((List.range sv).map (fun v => ptsGet P (idx u v w)))))
    let n' := ((lines.headD []).headD []).length
    ((List.range sw).flatMap (fun w => (List.range su).flatMap (fun u => (List.range n').map (fun v =>
      ptsGet ((lines.getD w []).getD u []) v))), n')
  else
    let lines := (List.range su).map (fun u => (List.range sv).map (fun v =>
      f ((List.range sw).map (fun w => ptsGet P (idx u v w)))))
    let n' := ((lines.headD []).headD []).length
    ((List.range n').flatMap (fun w => (List.range su).flatMap (fun u => (List.range sv).map (fun v =>
      ptsGet ((lines.getD u []).getD v []) w))), n')

end
end Geomdl
