import NurbsVerif.Model.Basis
/-
  Model of the planar predicates and spatial queries of geomdl (property C20):

  * `linalg.is_left`, `linalg.wn_poly`, `linalg.convex_hull`            (geomdl/linalg.py)
  * `ray.intersect`, `ray._intersect2d`, `ray._intersect3d`             (geomdl/ray.py)
  * `linalg.frange`, `_voxelize.generate_voxel_grid`, `_voxelize.is_point_inside_voxel`,
    `_voxelize.find_inouts_st`, `voxelize.voxelize` (one object, `num_procs = 1`)
  * `_operations.find_ctrlpts_curve / find_ctrlpts_surface`             (`operations.find_ctrlpts`)

  No Mathlib; polymorphic in the number type `K` (core classes only).  Python points are lists of
  numbers; the routines modelled here only ever read the components `[0]`, `[1]` (planar
  predicates) resp. `[0]`, `[1]`, `[2]` (rays, voxels), so points are modelled as pairs `K × K`
  resp. triples `K × K × K` (the driver converts).

  Square roots.  `ray._intersect3d` calls `linalg.vector_magnitude` (a `math.sqrt`) twice:
  (1) `d_magn = |d₁ × d₂|`, used only as `d_magn ** 2`; the model takes the value `m` of that
      square root as an *input* (the harness passes the very double Python computed, as an exact
      dyadic rational); theorems that need it assume `m * m = |d₁ × d₂|²`;
  (2) `point_distance(r₁(t₁), r₂(t₂)) < tol`, used only in this comparison; the model compares the
      squares: `0 < tol ∧ |r₁(t₁) - r₂(t₂)|² < tol²`, which is the same proposition for the real
      square root (specification-level definition; for a correctly rounded double square root the
      two differ only if the squared distance lies within one rounding error, relative 2⁻⁵³, of
      `tol²` – the harness checks that no generated case is in that band).
-/
namespace Geomdl
section
variable {K : Type} [Add K] [Sub K] [Mul K] [Div K] [Neg K] [Zero K] [One K] [NatCast K]
  [LT K] [LE K] [DecidableRel (α := K) (· < ·)] [DecidableRel (α := K) (· ≤ ·)] [DecidableEq K]

/-! ### `linalg.is_left`, `linalg.wn_poly` -/

/-- `linalg.is_left(point0, point1, point2)` -/
def isLeft (p0 p1 p2 : K × K) : K :=
  ((p1.1 - p0.1) * (p2.2 - p0.2)) - ((p2.1 - p0.1) * (p1.2 - p0.2))

/-- contribution of the edge `a → b` to the winding counter (body of the `for` loop of `wn_poly`) -/
def wnEdge (pt a b : K × K) : Int :=
  if a.2 ≤ pt.2 then
    (if pt.2 < b.2 then (if 0 < isLeft a b pt then 1 else 0) else 0)
  else
    (if b.2 ≤ pt.2 then (if isLeft a b pt < 0 then -1 else 0) else 0)

/-- the loop `for i in range(len(vertices) - 1)` with the counter `wn` as accumulator -/
def wnLoop (pt : K × K) : Int → List (K × K) → Int
  | wn, a :: b :: rest => wnLoop pt (wn + wnEdge pt a b) (b :: rest)
  | wn, _ => wn

/-- the winding counter `wn` at the end of `wn_poly` -/
def wnNum (pt : K × K) (vertices : List (K × K)) : Int := wnLoop pt 0 vertices

/-- `linalg.wn_poly(point, vertices)` (= `bool(wn)`); `vertices` is the closed polygon
    `V₀, …, Vₙ = V₀` -/
def wnPoly (pt : K × K) (vertices : List (K × K)) : Bool := wnNum pt vertices != 0

/-! ### `linalg.convex_hull` (Andrew's monotone chain, "Graham scan" in the doc string) -/

/-- the local `cmp(a, b) = (a > b) - (a < b)` -/
def cmpK (a b : K) : Int := (if b < a then 1 else 0) - (if a < b then 1 else 0)

/-- the local `turn(p, q, r)`: 1 = left, -1 = right, 0 = none -/
def turn (p q r : K × K) : Int :=
  cmpK ((q.1 - p.1) * (r.2 - p.2) - (r.1 - p.1) * (q.2 - p.2)) 0

/-- `while len(hull) > 1 and turn(hull[-2], hull[-1], r) != turn_left: hull.pop()`.
    The hull is kept as a stack, **top first** (`hull[-1]` is the head); the loop is a structural
    recursion on the stack, so it terminates without fuel. -/
def popWhile (r : K × K) : List (K × K) → List (K × K)
  | b :: a :: rest => if turn a b r ≠ 1 then popWhile r (a :: rest) else b :: a :: rest
  | h => h

/-- the local `keep_left(hull, r)` on the top-first stack -/
def keepLeft (hull : List (K × K)) (r : K × K) : List (K × K) :=
  let h := popWhile r hull
  match h with
  | [] => [r]
  | t :: _ => if t ≠ r then r :: h else h

/-- lexicographic `<=` of Python lists `[x, y]` -/
def lexLe (a b : K × K) : Bool := decide (a.1 < b.1) || (decide (a.1 = b.1) && decide (a.2 ≤ b.2))

def insertLex (x : K × K) : List (K × K) → List (K × K)
  | [] => [x]
  | y :: ys => if lexLe x y then x :: y :: ys else y :: insertLex x ys

/-- `sorted(points)` (specification level: insertion sort; any sort returns the same list up to
    the order of equal points, which `keep_left` drops anyway) -/
def sortLex (l : List (K × K)) : List (K × K) := l.foldr insertLex []

/-- one `reduce(keep_left, pts, [])`, returned in Python order (bottom of the stack first) -/
def halfHull (pts : List (K × K)) : List (K × K) := (pts.foldl keepLeft []).reverse

/-- `linalg.convex_hull(points)`: `l + u[1:len(u)-1]` -/
def convexHull (points : List (K × K)) : List (K × K) :=
  let s := sortLex points
  let l := halfHull s
  let u := halfHull s.reverse
  l ++ (u.drop 1).dropLast

/-! ### `ray.intersect` -/

/-- `linalg.vector_cross` for 3-D input -/
def cross3 (a b : K × K × K) : K × K × K :=
  ((a.2.1 * b.2.2) - (a.2.2 * b.2.1), (a.2.2 * b.1) - (a.1 * b.2.2), (a.1 * b.2.1) - (a.2.1 * b.1))

/-- `linalg.vector_dot` (`prod = 0.0; prod += v1 * v2`) -/
def dot3 (a b : K × K × K) : K := 0 + a.1 * b.1 + a.2.1 * b.2.1 + a.2.2 * b.2.2

/-- `linalg.vector_generate(start, end)` = `end - start`, also `Ray.d` -/
def vgen3 (s e : K × K × K) : K × K × K := (e.1 - s.1, e.2.1 - s.2.1, e.2.2 - s.2.2)

/-- `linalg.vector_is_zero(v, tol)` -/
def isZero3 (v : K × K × K) (tol : K) : Bool :=
  decide (absK v.1 < tol) && decide (absK v.2.1 < tol) && decide (absK v.2.2 < tol)

/-- `Ray.eval(t)` = `point_translate(p, vector_multiply(d, t))` -/
def rayEval (p d : K × K × K) (t : K) : K × K × K := (p.1 + d.1 * t, p.2.1 + d.2.1 * t, p.2.2 + d.2.2 * t)

/-- the sum of squares under the square root of `vector_magnitude` (`sq_sum = 0.0; sq_sum += vin**2`) -/
def normSq3 (v : K × K × K) : K := 0 + v.1 * v.1 + v.2.1 * v.2.1 + v.2.2 * v.2.2

/-- `RayIntersection.INTERSECT / COLINEAR / SKEW` -/
def stINTERSECT : Nat := 1
def stCOLINEAR : Nat := 2
def stSKEW : Nat := 3

/-- `ray._intersect3d(ray1, ray2, tol)`; ray `i` is given by its two defining points, `m` is the
    value of `vector_magnitude(d_cross)` (see the header about square roots).
    Returns `(t1, t2, status)`. -/
def intersect3d (a1 a2 b1 b2 : K × K × K) (tol m : K) : K × K × Nat :=
  let d1 := vgen3 a1 a2
  let d2 := vgen3 b1 b2
  let dCross := cross3 d1 d2
  if isZero3 dCross tol then
    -- tmp1 = vector_sum(ray2.p, ray1.p, coeff=-1.0)[0],  tmp2 = vector_sum(ray1.p, ray2.p, coeff=-1.0)[0]
    let tmp1 := b1.1 + (-(1:K)) * a1.1
    let t1 := if absK d1.1 < tol then 0 else tmp1 / d1.1
    let tmp2 := a1.1 + (-(1:K)) * b1.1
    let t2 := if absK d2.1 < tol then 0 else tmp2 / d2.1
    (t1, t2, stCOLINEAR)
  else
    let pDiff := vgen3 a1 b1
    let m2 := m * m
    let t1 := dot3 (cross3 pDiff d2) dCross / m2
    let t2 := dot3 (cross3 pDiff d1) dCross / m2
    let r1 := rayEval a1 d1 t1
    let r2 := rayEval b1 d2 t2
    if 0 < tol ∧ normSq3 (vgen3 r1 r2) < tol * tol then (t1, t2, stINTERSECT) else (t1, t2, stSKEW)

/-- `ray._intersect2d`: the same with homogeneous coordinate 1 appended to every point -/
def intersect2d (a1 a2 b1 b2 : K × K) (tol m : K) : K × K × Nat :=
  intersect3d (a1.1, a1.2, 1) (a2.1, a2.2, 1) (b1.1, b1.2, 1) (b2.1, b2.2, 1) tol m

/-! ### `linalg.frange`, voxel grid, in/out classification -/

/-- the `while x + epsilon < stop` loop of `linalg.frange` (values yielded after the first one);
    `none` = fuel exhausted (the Python generator would not stop) -/
def frangeLoop (x0 stop step : K) : Nat → Nat → K → Option (List K)
  | 0, _, _ => none
  | fuel+1, i, x =>
    if x + step / ((2:Nat):K) < stop then
      let x' := x0 + ((i+1 : Nat) : K) * step
      (frangeLoop x0 stop step fuel (i+1) x').map (fun l => x' :: l)
    else some (if x < stop then [stop] else [])

/-- `list(linalg.frange(start, stop, step))` -/
def frange (start stop step : K) (fuel : Nat) : Option (List K) :=
  (frangeLoop start stop step fuel 0 start).map (fun l => start :: l)

def minK (a b : K) : K := if b < a then b else a

/-- `_voxelize.generate_voxel_grid(bbox, szval, use_cubes)`; `none` = the `GeomdlException` for a
    size `<= 1` (or exhausted fuel).  A voxel is `(bbmin, bbmax)`. -/
def generateVoxelGrid (bmin bmax : K × K × K) (sz : Nat × Nat × Nat) (useCubes : Bool) (fuel : Nat) :
    Option (List ((K × K × K) × (K × K × K))) :=
  if sz.1 ≤ 1 ∨ sz.2.1 ≤ 1 ∨ sz.2.2 ≤ 1 then none else
  let s0 : K × K × K := ((bmax.1 - bmin.1) / ((sz.1 - 1 : Nat) : K),
                          (bmax.2.1 - bmin.2.1) / ((sz.2.1 - 1 : Nat) : K),
                          (bmax.2.2 - bmin.2.2) / ((sz.2.2 - 1 : Nat) : K))
  let steps : K × K × K :=
    if useCubes then let mn := minK (minK s0.1 s0.2.1) s0.2.2; (mn, mn, mn) else s0
  match frange bmin.1 bmax.1 steps.1 fuel, frange bmin.2.1 bmax.2.1 steps.2.1 fuel,
        frange bmin.2.2 bmax.2.2 steps.2.2 fuel with
  | some r0, some r1, some r2 =>
    some (r0.flatMap (fun u => r1.flatMap (fun v => r2.map (fun w =>
      ((u, v, w), (u + steps.1, v + steps.2.1, w + steps.2.2))))))
  | _, _, _ => none

/-- `_voxelize.is_point_inside_voxel(bbox, ptsarr, tol=tol)` (returns 1 / 0), as coded: dot
    products with the three edge vectors `i, j, k` of the padded box -/
def isPointInsideVoxel (bb : (K × K × K) × (K × K × K)) (pts : List (K × K × K)) (tol : K) : Bool :=
  let bbmin : K × K × K := (bb.1.1 - tol, bb.1.2.1 - tol, bb.1.2.2 - tol)
  let bbmax : K × K × K := (bb.2.1 + tol, bb.2.2.1 + tol, bb.2.2.2 + tol)
  let i : K × K × K := (bbmax.1 - bbmin.1, 0, 0)
  let j : K × K × K := (0, bbmax.2.1 - bbmin.2.1, 0)
  let k : K × K × K := (0, 0, bbmax.2.2 - bbmin.2.2)
  let idi := dot3 i i
  let jdj := dot3 j j
  let kdk := dot3 k k
  pts.any (fun pt =>
    let v : K × K × K := (pt.1 - bbmin.1, pt.2.1 - bbmin.2.1, pt.2.2 - bbmin.2.2)
    let vdi := dot3 v i
    let vdj := dot3 v j
    let vdk := dot3 v k
    decide (vdi < idi) && decide (0 ≤ vdi) && decide (vdj < jdj) && decide (0 ≤ vdj)
      && decide (vdk < kdk) && decide (0 ≤ vdk))

/-- `_voxelize.find_inouts_st(voxel_grid, datapts, tol=tol)` -/
def findInouts (grid : List ((K × K × K) × (K × K × K))) (pts : List (K × K × K)) (tol : K) : List Nat :=
  grid.map (fun bb => if isPointInsideVoxel bb pts tol then 1 else 0)

/-- `voxelize.voxelize(obj, grid_size=sz, use_cubes=…, tol=…, num_procs=1)` for a single object
    with bounding box `(bmin, bmax)` and evaluated points `pts`: `(grid, filled)` -/
def voxelize (bmin bmax : K × K × K) (pts : List (K × K × K)) (sz : Nat × Nat × Nat) (useCubes : Bool)
    (tol : K) (fuel : Nat) : Option (List ((K × K × K) × (K × K × K)) × List Nat) :=
  (generateVoxelGrid bmin bmax sz useCubes fuel).map (fun g => (g, findInouts g pts tol))

end

/-! ### `operations.find_ctrlpts` -/
section
variable {K : Type} [LT K] [LE K] [DecidableRel (α := K) (· < ·)] [DecidableRel (α := K) (· ≤ ·)]

/-- the index range `span - degree, …, span` read by `find_ctrlpts_curve` -/
def findCtrlptsIdx (p : Nat) (U : Nat → K) (n : Nat) (u : K) : List Nat :=
  let span := findSpanLinear p U n u
  let idx := span - p
  (List.range (p + 1)).map (fun i => idx + i)

/-- `_operations.find_ctrlpts_curve(t, curve)`; `α` is the type of a control point -/
def findCtrlptsCurve {α : Type} (dflt : α) (p : Nat) (U : Nat → K) (P : List α) (u : K) : List α :=
  (findCtrlptsIdx p U P.length u).map (fun i => P.getD i dflt)

/-- `_operations.find_ctrlpts_surface(t_u, t_v, surf)`; `P2` is `surf.ctrlpts2d` (rows along u) -/
def findCtrlptsSurface {α : Type} (dflt : α) (pu pv : Nat) (Uu Uv : Nat → K) (su sv : Nat)
    (P2 : List (List α)) (u v : K) : List (List α) :=
  (findCtrlptsIdx pu Uu su u).map (fun k =>
    (findCtrlptsIdx pv Uv sv v).map (fun l => (P2.getD k []).getD l dflt))

end
end Geomdl
