/-
  Model of `operations.length_curve` (geomdl/operations.py): the approximate length of a curve is the
  sum of the distances of consecutive evaluated points,

      length = 0.0
      for idx in range(len(evalpts) - 1):
          length += linalg.point_distance(evalpts[idx], evalpts[idx + 1])

  The distance function is a parameter (the code uses the Euclidean distance, a floating-point square
  root; the theorems of C18 hold for every distance that comes from a seminorm).
-/
import NurbsVerif.Model.Eval
import NurbsVerif.Model.Grid

namespace Geomdl
section
variable {K : Type} [Add K] [Sub K] [Mul K] [Div K] [Neg K] [Zero K] [One K] [NatCast K]
  [LT K] [LE K] [DecidableRel (α := K) (· < ·)] [DecidableRel (α := K) (· ≤ ·)] [DecidableEq K]

/-- `operations.length_curve` on the point list `pts`: left fold over `idx = 0 .. len-2`, starting
    from `0`, adding `dist pts[idx] pts[idx+1]` -/
def polylineLength (dist : List K → List K → K) (pts : List (List K)) : K :=
  (List.range (pts.length - 1)).foldl (fun acc idx => acc + dist (ptsGet pts idx) (ptsGet pts (idx + 1))) 0

/-- `operations.length_curve(obj)` for a non-rational / rational curve whose `evalpts` are the points
    at the parameter list `ks` -/
def curveLength (dist : List K → List K → K) (rat : Bool) (p : Nat) (U : Nat → K) (P : List (List K))
    (ks : List K) : K :=
  polylineLength dist (curveGrid rat p U P ks)

end
end Geomdl
