/-
  `operations.insert_knot` and `operations.refine_knotvector` at OBJECT level with the loops of the helpers AS
  CODED: the same per-direction wrappers as `insertKnotDir` / `insertKnot` (`Model/Shape.lean`) and `refineDir` /
  `refineKnotvector` (`Model/Knots2.lean`), but every helper call is the literal transcription of the helper:

  * curves, and the iso-curves of surfaces (point branch of the helpers, one call per iso-curve: `Shape.mapDir`):
    `knotInsertionA51` (A5.1 loops) resp. `refineA54` (A5.4 loops);
  * volumes (list-of-rows branch, ONE call on `cpt2d`: gather `volRows`, scatter `volUnrows`):
    `knotInsertionRowsA51` resp. `refineA54Rows` (`refineVolRows`).

  The knot vector of a refined direction is the `new_kv` of the LAST helper call of the loop over the iso-curves
  (`ptmp, new_kv = helpers.knot_refinement(…)` inside `for v in range(size_v)` / `for u in range(size_u)`):
  `Shape.lastIso`.  The index-form / specification-level operations are proved equal to these under the
  hypotheses of the object-level theorems (`Lemmas/InsertCodedObj.lean`, `Lemmas/RefineCodedObj.lean`).

  WHICH SPAN SEARCH (statement audit 5, I3): like `insertKnotDir` (`Model/Shape.lean`), `removeKnotDir`
  (`Model/Knots2.lean`), `a54Init` / `a54InitRows` and the volume-rows wrappers, these models call `findSpanLinear`,
  the search WITHOUT the step back that the F-01b repair added to /repo's `find_span_linear` (the literal model of
  the repaired routine is `findSpanLinearR`, `Model/SpanR.lean`).  The two agree unless the parameter is the domain
  end `u = U_n` of a knot vector whose last domain span is empty (`U_{n-1} = U_n`; `findSpanLinearR_eq_of_nonempty`,
  `findSpanLinearR_eq_of_lt`).  Every theorem about these models excludes that input (`KvWF.last`: non-empty last
  span; `DirReqOk.hi`: parameter strictly below `U_n`), so under their hypotheses it does not matter which search is
  called.  Outside them the transcription is NOT literal: real `insert_knot(c, [5], [1])` on the cubic
  `U = [0,1,2,3,4,5,5,6,7,8]` (span 4 after the step back) and this model (span 5) return different nets.  The
  driver ops therefore answer `OUT` (outside the model, `Drv.spanOutS` in `Driver/Shape.lean`) for exactly those
  insertion / removal requests, and the harness judges them with the oracle alone.
-/
import NurbsVerif.Model.Shape
import NurbsVerif.Model.Knots2
import NurbsVerif.Model.RefineA54
import NurbsVerif.Model.InsertA51
import NurbsVerif.Model.InsertRowsA51
import NurbsVerif.Model.KnotRows

namespace Geomdl
section
variable {K : Type} [Add K] [Sub K] [Mul K] [Div K] [Neg K] [Zero K] [One K] [NatCast K]
  [LT K] [LE K] [DecidableRel (α := K) (· < ·)] [DecidableRel (α := K) (· ≤ ·)] [DecidableEq K]

/-! ### `operations.insert_knot` -/

/-- one direction of `operations.insert_knot`, the helper as coded: per iso-curve through the point branch
    (curves, surfaces), through the list-of-rows branch in one call (volumes); `none` = the GeomdlException of the
    multiplicity check -/
def insertKnotDirCoded (S : Shape K) (dir : Nat) (u : K) (r : Nat) (tol : K) (check : Bool) : Option (Shape K) :=
  let p := S.deg dir
  let U := S.kv dir
  let s := findMultiplicity u U tol
  if check ∧ r + s > p then none
  else
    let span := findSpanLinear p (fnOf U) (S.size dir) u
    let res :=
      if S.pdim = 3 then
        mapVolRows dir (S.size 0) (S.size 1) (S.size 2) S.net (fun R => knotInsertionRowsA51 p (fnOf U) R u r s span)
      else S.mapDir dir (fun c => knotInsertionA51 p (fnOf U) c u r s span)
    some { S with kvs := S.kvs.set dir (knotInsertionKv U u span r), sizes := S.sizes.set dir res.2, net := res.1 }

/-- `operations.insert_knot(obj, params, nums)` with the helper as coded (the loop of `insertKnot`) -/
def insertKnotCoded (S : Shape K) (params : List (Option K)) (nums : List Nat) (tol : K) (check : Bool) : Shape K × Bool :=
  (List.range S.pdim).foldl (fun (acc : Shape K × Bool) d =>
    if acc.2 = false then acc else
      match params.getD d none with
      | none => acc
      | some u =>
        if nums.getD d 0 = 0 then acc
        else match insertKnotDirCoded acc.1 d u (nums.getD d 0) tol check with
          | some S' => (S', true)
          | none => (acc.1, false)) (S, true)

/-! ### `operations.refine_knotvector` -/

/-- the iso-curve of the LAST helper call of direction `dir` (curve: the polygon; surface, u direction: the column
    `v = size_v - 1`; surface, v direction: the row `u = size_u - 1`) -/
def Shape.lastIso (S : Shape K) (dir : Nat) : List (List K) :=
  if S.pdim = 1 then S.net
  else if dir = 0 then (List.range (S.size 0)).map (fun u => ptsGet S.net (S.size 1 - 1 + S.size 1 * u))
  else (List.range (S.size 1)).map (fun v => ptsGet S.net (v + S.size 1 * (S.size 0 - 1)))

/-- one direction of `operations.refine_knotvector`, A5.4 as coded: per iso-curve (`refineA54`; curves, surfaces),
    on the list of rows in one call (volumes: `refineVolRows`); `none` = "Cannot refine knot vector" -/
def refineDirCoded (S : Shape K) (dir density : Nat) (tol : K) : Option (Shape K) :=
  if S.pdim = 3 then refineVolRows S dir density tol
  else
    let p := S.deg dir
    let U := S.kv dir
    let X := refineX p U density tol
    if X.isEmpty then none
    else
      let res := S.mapDir dir (fun c => (refineA54 p U c X tol).2)
      let kv' := (refineA54 p U (S.lastIso dir) X tol).1
      some { S with kvs := S.kvs.set dir kv', sizes := S.sizes.set dir res.2, net := res.1 }

/-- `operations.refine_knotvector(obj, densities)` with A5.4 as coded (the loop of `refineKnotvector`) -/
def refineKnotvectorCoded (S : Shape K) (dens : List Nat) (tol : K) : Shape K × Bool :=
  (List.range S.pdim).foldl (fun (acc : Shape K × Bool) d =>
    if acc.2 = false then acc
    else if dens.getD d 0 = 0 then acc
    else match refineDirCoded acc.1 d (dens.getD d 0) tol with
      | some S' => (S', true)
      | none => (acc.1, false)) (S, true)

end
end Geomdl
