/-
  Model of `operations.translate / scale / rotate` on a shape definition: the maps act on the
  Cartesian control points, weights are unchanged; rotation is about a coordinate axis through the
  shape's start point, with `c = cos`, `s = sin` of the angle passed in as numbers.
-/
import NurbsVerif.Model.Shape

namespace Geomdl
section
variable {K : Type} [Add K] [Sub K] [Mul K] [Div K] [Neg K] [Zero K] [One K] [NatCast K]
  [LT K] [LE K] [DecidableRel (α := K) (· < ·)] [DecidableRel (α := K) (· ≤ ·)] [DecidableEq K]

/-- apply `f` to the Cartesian point behind a (possibly homogeneous) control point -/
def onCartesian (rat : Bool) (f : List K → List K) (pt : List K) : List K :=
  if rat then
    let w := pt.getLastD 1
    (f (pt.dropLast.map (· / w))).map (· * w) ++ [w]
  else f pt

def translatePt (vec : List K) (pt : List K) : List K := List.zipWith (· + ·) pt vec
def scalePt (m : K) (pt : List K) : List K := pt.map (· * m)

/-- the three rotation formulas of `operations.rotate` (axis 0, 1, 2); 2-D points always use axis 2 -/
def rotatePt (axis : Nat) (c s : K) (pt : List K) : List K :=
  let x := pt.getD 0 0
  let y := pt.getD 1 0
  let z := pt.getD 2 0
  if pt.length = 2 ∨ axis = 2 then [x * c - y * s, y * c + x * s] ++ pt.drop 2
  else if axis = 0 then [x, y * c - z * s, z * c + y * s] ++ pt.drop 3
  else [x * c - z * s, y, z * c + x * s] ++ pt.drop 3

def Shape.mapPts (S : Shape K) (f : List K → List K) : Shape K :=
  { S with net := S.net.map (onCartesian S.rat f) }

def translate (S : Shape K) (vec : List K) : Shape K := S.mapPts (translatePt vec)
def scale (S : Shape K) (m : K) : Shape K := S.mapPts (scalePt m)

/-- the evaluated point at the start of the domain (the rotation centre) -/
def startPoint (S : Shape K) : List K :=
  let U (d : Nat) := fnOf (S.kv d)
  let u0 (d : Nat) : K := U d (S.deg d)
  let pt :=
    if S.pdim = 1 then curvePoint (S.deg 0) (U 0) S.net (u0 0)
    else if S.pdim = 2 then surfacePoint (S.deg 0) (S.deg 1) (U 0) (U 1) (S.size 0) (S.size 1) S.net (u0 0) (u0 1)
    else volumePoint (S.deg 0) (S.deg 1) (S.deg 2) (U 0) (U 1) (U 2) (S.size 0) (S.size 1) (S.size 2) S.net (u0 0) (u0 1) (u0 2)
  if S.rat then project pt else pt

def rotate (S : Shape K) (axis : Nat) (c s : K) : Shape K :=
  let o := startPoint S
  let back := o.map (fun x => 0 - (0 - x))
  ((S.mapPts (translatePt (o.map (fun x => 0 - x)))).mapPts (rotatePt axis c s)).mapPts (translatePt back)

/-- one call of the inner `rotate_x / rotate_y / rotate_z (ncs, opt, alpha)` of `operations.rotate`: the three steps of
    `rotate` about a GIVEN point `o` (`rotate S axis c s = rotateAt S (startPoint S) axis c s` by definition) -/
def rotateAt (S : Shape K) (o : List K) (axis : Nat) (c s : K) : Shape K :=
  let back := o.map (fun x => 0 - (0 - x))
  ((S.mapPts (translatePt (o.map (fun x => 0 - x)))).mapPts (rotatePt axis c s)).mapPts (translatePt back)

/-! ### containers (`multi.CurveContainer / SurfaceContainer / VolumeContainer`): `for g in geom` visits the elements
    in order.  A container is the list of its elements. -/

/-- `operations.translate` on a container: every element is translated.  `none` = the `GeomdlException` of the
    input check for an EMPTY container (its `dimension` is 0, so no vector has the right number of components;
    the empty vector is refused before that).  The check `len(vec) == dimension` for a non-empty container is
    the caller's guard (as for `translate`). -/
def translateAll (Ss : List (Shape K)) (vec : List K) : Option (List (Shape K)) :=
  if Ss.isEmpty then none else some (Ss.map (fun S => translate S vec))

/-- `operations.scale` on a container: every element is scaled (an empty container stays empty). -/
def scaleAll (Ss : List (Shape K)) (m : K) : List (Shape K) := Ss.map (fun S => scale S m)

/-- `operations.rotate` on a container: ONE origin, the evaluated start point of the FIRST element
    (`geom[0].evaluate_single(domain starts)`), then every element is rotated about that point.
    `none` = the `IndexError` of `geom[0]` for an empty container. -/
def rotateAll (Ss : List (Shape K)) (axis : Nat) (c s : K) : Option (List (Shape K)) :=
  match Ss with
  | [] => none
  | S0 :: _ =>
    let origin := startPoint S0
    some (Ss.map (fun S => rotateAt S origin axis c s))

end
end Geomdl
