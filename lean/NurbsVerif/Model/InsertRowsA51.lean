/-
  LITERAL transcription of `helpers.knot_insertion` (geomdl/helpers.py, Algorithm A5.1), the LIST-OF-ROWS
  branch – the `else:` of `isinstance(temp[i][0], float)` – which `operations.insert_knot` feeds for VOLUMES
  (`ctrlpts` = `cpt2d`: one row per control-point index of the direction, a row = one whole layer of points):

      np = len(ctrlpts); nq = np + num
      ctrlpts_new = [[] for _ in range(nq)]
      temp = [[] for _ in range(degree + 1)]
      for i in range(0, k - degree + 1):  ctrlpts_new[i] = ctrlpts[i]
      for i in range(k - s, np):          ctrlpts_new[i + num] = ctrlpts[i]
      for i in range(0, degree - s + 1):  temp[i] = deepcopy(ctrlpts[k - degree + i])
      for j in range(1, num + 1):
          L = k - degree + j
          for i in range(0, degree - j - s + 1):
              alpha = knot_insertion_alpha(u, tuple(knotvector), k, i, L)
              for idx in range(len(temp[i])):
                  temp[i][idx][:] = [alpha * elem2 + (1.0 - alpha) * elem1 for elem1, elem2 in
                                     zip(temp[i][idx], temp[i + 1][idx])]
          ctrlpts_new[L] = deepcopy(temp[0])
          ctrlpts_new[k + num - j - s] = deepcopy(temp[degree - j - s])
      L = k - degree + num
      for i in range(L + 1, k - s):       ctrlpts_new[i] = deepcopy(temp[i - L])
      return ctrlpts_new

  Same conventions and the same index arithmetic as the point branch (`Model/InsertA51.lean`, read its header):
  a `for` is a `List.foldl` over `List.range` / `List.range'`, an in-place update returns the new list, reads are
  padded (`rowGet`, `ptsGet`), every Python range that is empty is empty here, negative indices are NOT modelled
  (guard `degree ≤ k`, `num + s ≤ degree`, `k < len(ctrlpts)`).  Everything outside the sweep does not look at
  what an element of `ctrlpts` is: the allocation, the two copy loops and the initialisation of `temp` are
  `a51Init` at element type "row", the state is `A51St (List K)` (`cp`, `temp` : lists of rows).

  The sweep.  `for idx in range(len(temp[i]))` is transcribed as its own fold (`a51RowPoint`): the point
  `temp[i][idx]` is replaced, the pass for `idx` reads the CURRENT row `temp[i]` (points `< idx` already blended,
  point `idx` not yet) and the row `temp[i + 1]`, which this pass of the `i` loop has not touched.  The bound
  `len(temp[i])` is evaluated once, before the loop, and the loop does not change it.

  Object identity (why value semantics is enough here, unlike the rows branch of `knot_removal`).
    * `ctrlpts_new[i] = ctrlpts[i]` stores the caller's row object itself.  Neither these slots of
      `ctrlpts_new` nor the rows of `ctrlpts` are ever mutated afterwards: every later statement on `ctrlpts_new`
      REBINDS a slot (`ctrlpts_new[L] = deepcopy(…)`), and the only mutating statement of the routine,
      `temp[i][idx][:] = …`, acts on point objects reachable from `temp` only.
    * `temp[i] = deepcopy(ctrlpts[k - degree + i])`: one `deepcopy` call per slot, so two slots of `temp` never share
      a row or a point, and nothing in `temp` is shared with `ctrlpts` / `ctrlpts_new`.
    * `ctrlpts_new[L] = deepcopy(temp[0])` etc. store fresh copies: later sweeps over `temp` do not reach them.
    * What `deepcopy` does preserve is aliasing INSIDE one row: if a row of the input holds the same point OBJECT
      at two positions, the copy does too, and `temp[i][idx][:] = …` would then blend that point twice.  The
      transcription assumes the points of a row are pairwise distinct objects.  This is what
      `operations.insert_knot` builds: the rows of `cpt2d` collect `cpts[…]` at pairwise different flat indices, and
      the points of a geometry are pairwise distinct lists (`abstract.set_ctrlpts`: `pts_out[idx] = [float(c) …]`;
      `ctrlptsw` builds a new list per point).  The harness streams call the real helper with rows built this way
      (`rowsops.qrows`, and the rows `operations.insert_knot` itself gathers) and also check that the caller's rows
      are left unchanged by the call, so a statement that mutated a shared object would be noticed.
  Rows are assumed RECTANGULAR (all of length `len(ctrlpts[0])`, what `operations.*` build): on ragged rows with
  `len(temp[i + 1]) < len(temp[i])` the code raises `IndexError`, the padded reader returns `[]`.

  `Lemmas/A51LoopsRows.lean` proves `knotInsertionRowsA51 = knotInsertionRows` (the index-form model) under the
  guard `degree ≤ k`, `num + s ≤ degree`.
-/
import NurbsVerif.Model.InsertA51
import NurbsVerif.Model.KnotRows

namespace Geomdl
section
variable {K : Type} [Add K] [Sub K] [Mul K] [Div K] [Neg K] [Zero K] [One K] [NatCast K]
  [LT K] [LE K] [DecidableRel (α := K) (· < ·)] [DecidableRel (α := K) (· ≤ ·)] [DecidableEq K]

/-- body of `for idx in range(len(temp[i]))`:
    `temp[i][idx][:] = [alpha * elem2 + (1.0 - alpha) * elem1 for elem1, elem2 in zip(temp[i][idx], temp[i + 1][idx])]`
    – `row` is the current value of `temp[i]`, `nxt` the row `temp[i + 1]` -/
def a51RowPoint (alpha : K) (nxt : List (List K)) (row : List (List K)) (idx : Nat) : List (List K) :=
  row.set idx (List.zipWith (fun elem1 elem2 => alpha * elem2 + (1 - alpha) * elem1) (ptsGet row idx) (ptsGet nxt idx))

/-- body of `for i in range(0, degree - j - s + 1)`, rows branch: `alpha = knot_insertion_alpha(u, U, k, i, L)`, then
    the loop over the points of `temp[i]` (in place: slot `i` of `temp` holds the row the loop leaves) -/
def a51InnerRows (U : Nat → K) (u : K) (k L : Nat) (temp : List (List (List K))) (i : Nat) : List (List (List K)) :=
  let alpha := insAlpha U u k i L
  temp.set i ((List.range (rowGet temp i).length).foldl (a51RowPoint alpha (rowGet temp (i + 1))) (rowGet temp i))

/-- body of `for j in range(1, num + 1)`, rows branch: the sweep, then `ctrlpts_new[L] = deepcopy(temp[0])` and
    `ctrlpts_new[k + num - j - s] = deepcopy(temp[degree - j - s])`, in this order -/
def a51OuterRows (p : Nat) (U : Nat → K) (u : K) (num s k : Nat) (st : A51St (List K)) (j : Nat) : A51St (List K) :=
  let L := k - p + j
  let temp := (List.range (p + 1 - j - s)).foldl (a51InnerRows U u k L) st.temp
  let cp1 := st.cp.set L (rowGet temp 0)
  let cp2 := cp1.set (k + num - j - s) (rowGet temp (p - j - s))
  { cp := cp2, temp := temp }

/-- **A5.1 as coded, list-of-rows branch**: `helpers.knot_insertion(p, U, rows, u, num=num, s=s, span=k)` when
    `rows[0][0]` is a point -/
def knotInsertionRowsA51 (p : Nat) (U : Nat → K) (R : List (List (List K))) (u : K) (num s k : Nat) :
    List (List (List K)) :=
  let st := (List.range' 1 num).foldl (a51OuterRows p U u num s k) (a51Init p R num s k)
  let L := k - p + num
  (List.range' (L + 1) (k - s - (L + 1))).foldl (fun c i => c.set i (rowGet st.temp (i - L))) st.cp

end
end Geomdl
