/-
  LITERAL transcription of the A5.4 part of `helpers.knot_refinement` (geomdl/helpers.py): everything
  after the list `X` of knots to insert has been computed – the spans `a`, `b`, the initial copies into
  the work arrays `new_ctrlpts` / `new_kv`, the `while j >= 0` loop with the inner shifting `while`,
  the `for l` blending loop with its `abs(alpha) < tol` branch, and the returned pair.

  Conventions: a `for` is a fold over `List.range`, a `while` takes fuel, an in-place update returns the
  new list (`List.set`; `deepcopy` is irrelevant for values).  Reads use the padded readers of the
  other models (`fnOf` for the old knot vector, `getD · 0` for `new_kv`, `ptsGet` for points); on the
  inputs for which the Python code does not raise, every index is in range.
  Control points are points (`List K`): the curve branch `isinstance(ctrlpts[0][0], float)`.
-/
import NurbsVerif.Model.Knots
import NurbsVerif.Model.Knots2

namespace Geomdl
section
variable {K : Type} [Add K] [Sub K] [Mul K] [Div K] [Neg K] [Zero K] [One K] [NatCast K]
  [LT K] [LE K] [DecidableRel (α := K) (· < ·)] [DecidableRel (α := K) (· ≤ ·)] [DecidableEq K]

/-- the state of the refinement loop: work arrays `new_kv`, `new_ctrlpts` and the indices `i`, `k` -/
structure A54St (K : Type) where
  kv : List K
  cp : List (List K)
  i : Nat
  k : Nat

/-- `while X[j] <= knotvector[i] and i > a:` shift one old knot / control point to the right end of the gap -/
def a54Shift (p : Nat) (U : Nat → K) (P : List (List K)) (x : K) (a : Nat) : Nat → A54St K → A54St K
  | 0, st => st
  | fuel+1, st =>
    if x ≤ U st.i ∧ a < st.i then
      a54Shift p U P x a fuel
        { cp := st.cp.set (st.k - p - 1) (ptsGet P (st.i - p - 1)),
          kv := st.kv.set st.k (U st.i),
          k := st.k - 1, i := st.i - 1 }
    else st

/-- one pass of `for l in range(1, degree + 1)` (here `l = l0 + 1`) -/
def a54Blend (p : Nat) (U : Nat → K) (x tol : K) (kv : List K) (i k : Nat) (cp : List (List K)) (l0 : Nat) :
    List (List K) :=
  let l := l0 + 1
  let idx := k - p + l
  let alpha := kv.getD (k + l) 0 - x
  if absK alpha < tol then cp.set (idx - 1) (ptsGet cp idx)
  else
    let alpha := alpha / (kv.getD (k + l) 0 - U (i - p + l))
    cp.set (idx - 1) (List.zipWith (fun p1 p2 => alpha * p1 + (1 - alpha) * p2) (ptsGet cp (idx - 1)) (ptsGet cp idx))

/-- the body of `while j >= 0` for the knot `x = X[j]` -/
def a54Outer (p : Nat) (U : Nat → K) (P : List (List K)) (a : Nat) (tol : K) (fuel : Nat) (st : A54St K) (x : K) :
    A54St K :=
  let s1 := a54Shift p U P x a fuel st
  let cp1 := s1.cp.set (s1.k - p - 1) (ptsGet s1.cp (s1.k - p))
  let cp2 := (List.range p).foldl (a54Blend p U x tol s1.kv s1.i s1.k) cp1
  { kv := s1.kv.set s1.k x, cp := cp2, i := s1.i, k := s1.k - 1 }

/-- `j = r; while j >= 0: … j -= 1` : the argument counts `j + 1` -/
def a54Loop (p : Nat) (U : Nat → K) (P : List (List K)) (X : List K) (a : Nat) (tol : K) (fuel : Nat) :
    Nat → A54St K → A54St K
  | 0, st => st
  | j+1, st => a54Loop p U P X a tol fuel j (a54Outer p U P a tol fuel st (X.getD j 0))

/-- the work arrays after "Fill unchanged control points" / "Fill unchanged knots" and the start indices -/
def a54Init (p : Nat) (U : List K) (P : List (List K)) (X : List K) : A54St K × Nat :=
  let r := X.length - 1
  let n := P.length - 1
  let m := n + p + 1
  let a := findSpanLinear p (fnOf U) (n + 1) (X.getD 0 0)
  let b := findSpanLinear p (fnOf U) (n + 1) (X.getD r 0) + 1
  let cp0 : List (List K) := List.replicate (n + r + 2) []
  let cp1 := (List.range (a - p + 1)).foldl (fun c j => c.set j (ptsGet P j)) cp0
  let cp2 := (List.range' (b - 1) (n + 1 - (b - 1))).foldl (fun c j => c.set (j + r + 1) (ptsGet P j)) cp1
  let kv0 : List K := List.replicate (m + r + 2) 0
  let kv1 := (List.range (a + 1)).foldl (fun c j => c.set j (fnOf U j)) kv0
  let kv2 := (List.range' (b + p) (m + 1 - (b + p))).foldl (fun c j => c.set (j + r + 1) (fnOf U j)) kv1
  ({ kv := kv2, cp := cp2, i := b + p - 1, k := b + p + r }, a)

/-- **A5.4 as coded**: `helpers.knot_refinement` from "Initialize common variables" to the `return`,
    for the already computed non-empty list `X`; returns `(new_kv, new_ctrlpts)` -/
def refineA54 (p : Nat) (U : List K) (P : List (List K)) (X : List K) (tol : K) : List K × List (List K) :=
  let init := a54Init p U P X
  let st := a54Loop p (fnOf U) P X init.2 tol (U.length + 1) X.length init.1
  (st.kv, st.cp)

/-- the whole helper call `helpers.knot_refinement(p, U, P, knot_list=kl, add_knot_list=add, density=d)`
    with A5.4 AS CODED: the list `X` as the code computes it (`refineXOf`), then `refineA54`;
    `none` = "Cannot refine knot vector on this parametric dimension" -/
def knotRefinementA54 (p : Nat) (U : List K) (P : List (List K)) (kl : Option (List K)) (add : List K)
    (density : Nat) (tol : K) : Option (List K × List (List K)) :=
  let X := refineXOf p U kl add density tol
  if X.isEmpty then none else some (refineA54 p U P X tol)

end
end Geomdl
