/-
  Sampled point grids (`Curve/Surface/Volume.evaluate()` → `evalpts`) and parameter lists
  (`evaluate_list`): the evaluators loop over `linspace` parameter lists, u slowest, the last
  direction fastest, and append the points to one flat list.
-/
import NurbsVerif.Model.Eval

namespace Geomdl
section
variable {K : Type} [Add K] [Sub K] [Mul K] [Div K] [Neg K] [Zero K] [One K] [NatCast K]
  [LT K] [LE K] [DecidableRel (α := K) (· < ·)] [DecidableRel (α := K) (· ≤ ·)] [DecidableEq K]

/-- `project` for rational shapes, identity otherwise (`NURBS.*.evaluate` divides by the weight) -/
def projIf (rat : Bool) (pt : List K) : List K := if rat then project pt else pt

/-- `Curve.evaluate_list(params)` / the curve grid for the parameter list `ks` -/
def curveGrid (rat : Bool) (p : Nat) (U : Nat → K) (P : List (List K)) (ks : List K) : List (List K) :=
  ks.map (fun u => projIf rat (curvePoint p U P u))

/-- `SurfaceEvaluator.evaluate`: `for u in kus: for v in kvs: append` -/
def surfaceGrid (rat : Bool) (pu pv : Nat) (Uu Uv : Nat → K) (su sv : Nat) (P : List (List K))
    (kus kvs : List K) : List (List K) :=
  kus.flatMap (fun u => kvs.map (fun v => projIf rat (surfacePoint pu pv Uu Uv su sv P u v)))

/-- `VolumeEvaluator.evaluate`: `for u: for v: for w: append` -/
def volumeGrid (rat : Bool) (pu pv pw : Nat) (Uu Uv Uw : Nat → K) (su sv sw : Nat) (P : List (List K))
    (kus kvs kws : List K) : List (List K) :=
  kus.flatMap (fun u => kvs.flatMap (fun v => kws.map (fun w =>
    projIf rat (volumePoint pu pv pw Uu Uv Uw su sv sw P u v w))))

end
end Geomdl
