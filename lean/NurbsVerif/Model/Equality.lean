/-
  Model of `SplineGeometry.__eq__` / `__ne__` (geomdl/abstract.py), as REPAIRED (finding F-19):
  the tolerance is `10 ** (-self._precision)` and the control-point verdict tests `chk_ctrlpts`.
  `eqShapePinned` is the behaviour of the pinned tree (tolerance = the number `precision` itself,
  control-point verdict re-tests the knot-vector verdict), kept only for the refutation.

  A shape is what `__eq__` reads: `pdimension`, `rational`, `_degree`, `_knot_vector`,
  `_control_points_size`, `_control_points` (the homogeneous net for rational shapes) and the
  object's own `_precision`.  `tol` is the value of the expression `10 ** (-self._precision)` (a
  double in Python; the harness passes exactly that dyadic rational).
-/
import NurbsVerif.Model.Basis

namespace Geomdl

structure CmpShape (K : Type) where
  pdim : Nat
  rational : Bool
  degree : List Nat
  knots : List (List K)
  size : List Nat
  net : List (List K)
  /-- `self._precision` (number of decimals) -/
  precision : Nat
  /-- `10 ** (-self._precision)` -/
  tol : K

section
variable {K : Type} [Add K] [Sub K] [Mul K] [Div K] [Neg K] [Zero K] [One K] [NatCast K]
  [LT K] [LE K] [DecidableRel (α := K) (· < ·)] [DecidableRel (α := K) (· ≤ ·)] [DecidableEq K]

/-- `True if abs(s - o) < tol else False` -/
def closeB (tol s o : K) : Bool := decide (absK (s - o) < tol)

/-- one knot vector / one control point: `if len(sk) != len(ok): return False`, then
    `all(chk)` over `zip(sk, ok)` -/
def eqVec (tol : K) (s o : List K) : Bool :=
  decide (s.length = o.length) && (List.zipWith (closeB tol) s o).all id

/-- the loop `for sk, ok in zip(A, B)`: an early `return False` on a length mismatch and the final
    `if not all(chk): return False` together are the conjunction over the zipped pairs (the loop
    has no other effect, so the order of the tests cannot be observed) -/
def eqVecs (tol : K) : List (List K) → List (List K) → Bool
  | s :: ss, o :: os => eqVec tol s o && eqVecs tol ss os
  | _, _ => true

/-- `for s, o in zip(A, B): if s != o: return False` (sizes) and `all(chk_degree)` (degrees) -/
def eqNats : List Nat → List Nat → Bool
  | s :: ss, o :: os => decide (s = o) && eqNats ss os
  | _, _ => true

/-- `a == b` as the repaired `__eq__` decides it (`a` is `self`: its tolerance is used) -/
def eqShape (a b : CmpShape K) : Bool :=
  decide (a.pdim = b.pdim) && (a.rational == b.rational) &&
  eqNats a.size b.size && eqNats a.degree b.degree &&
  eqVecs a.tol a.knots b.knots && eqVecs a.tol a.net b.net

/-- `a != b` -/
def neShape (a b : CmpShape K) : Bool := !eqShape a b

/-- the pinned `__eq__`: compares with `self._precision` (18) instead of `10 ** -18`, and after the
    control-point loop (whose early returns on a length mismatch are still effective) tests
    `all(chk_kv)` again, so the control-point verdict is discarded -/
def eqLens : List (List K) → List (List K) → Bool
  | s :: ss, o :: os => decide (s.length = o.length) && eqLens ss os
  | _, _ => true

def eqShapePinned (a b : CmpShape K) : Bool :=
  decide (a.pdim = b.pdim) && (a.rational == b.rational) &&
  eqNats a.size b.size && eqNats a.degree b.degree &&
  eqVecs (a.precision : K) a.knots b.knots && eqLens a.net b.net

/-- what the public API guarantees about the stored fields: one degree / knot vector / size per
    parametric direction, and `|net| = Π sizes` -/
def CmpShape.wf (s : CmpShape K) : Prop :=
  s.degree.length = s.pdim ∧ s.size.length = s.pdim ∧ s.knots.length = s.pdim ∧
  s.net.length = s.size.foldl (· * ·) 1

/-- replace coordinate `j` of point / knot vector `i` -/
def setAt2 (L : List (List K)) (i j : Nat) (x : K) : List (List K) :=
  L.set i ((L.getD i []).set j x)

end
end Geomdl
