/-
  The remaining entry points of the evaluators through the REPAIRED linear span search (`findSpanLinearR`,
  `Model/SpanR.lean`; finding F-01b, repair commit fd821bb): `evaluate_list`, the sampled grids (`evalpts`) and the
  derivatives.  Each definition is the one of `Model/Grid.lean` / `Model/Eval.lean` / `Model/SurfDersLoops.lean` with
  `findSpanLinear` replaced by `findSpanLinearR` – the per-span functions (`curvePointAt`, `curveDersAt`,
  `curveDersA32`, `surfaceDersAt`, `surfaceDersA36`) take the span as an argument and are reused unchanged.

  No Mathlib.
-/
import NurbsVerif.Model.SpanR
import NurbsVerif.Model.Grid
import NurbsVerif.Model.SurfDersLoops

namespace Geomdl
section
variable {K : Type} [Add K] [Sub K] [Mul K] [Div K] [Neg K] [Zero K] [One K] [NatCast K]
  [LT K] [LE K] [DecidableRel (α := K) (· < ·)] [DecidableRel (α := K) (· ≤ ·)] [DecidableEq K]

/-! ### parameter lists and sampled grids (`curveGrid`, `surfaceGrid`, `volumeGrid` with the R point evaluation) -/

/-- `Curve.evaluate_list(params)` / the curve grid for the parameter list `ks`, repaired span search -/
def curveGridR (rat : Bool) (p : Nat) (U : Nat → K) (P : List (List K)) (ks : List K) : List (List K) :=
  ks.map (fun u => projIf rat (curvePointR p U P u))

/-- `SurfaceEvaluator.evaluate`: `for u in kus: for v in kvs: append`, repaired span search -/
def surfaceGridR (rat : Bool) (pu pv : Nat) (Uu Uv : Nat → K) (su sv : Nat) (P : List (List K))
    (kus kvs : List K) : List (List K) :=
  kus.flatMap (fun u => kvs.map (fun v => projIf rat (surfacePointR pu pv Uu Uv su sv P u v)))

/-- `VolumeEvaluator.evaluate`: `for u: for v: for w: append`, repaired span search -/
def volumeGridR (rat : Bool) (pu pv pw : Nat) (Uu Uv Uw : Nat → K) (su sv sw : Nat) (P : List (List K))
    (kus kvs kws : List K) : List (List K) :=
  kus.flatMap (fun u => kvs.flatMap (fun v => kws.map (fun w =>
    projIf rat (volumePointR pu pv pw Uu Uv Uw su sv sw P u v w))))

/-! ### derivatives on the span the repaired search finds -/

/-- `CurveEvaluator2.derivatives` (A3.3 / A3.4, `curveDersAt`) after the repaired span search -/
def curveDersR (p : Nat) (U : Nat → K) (P : List (List K)) (u : K) (order : Nat) : List (List K) :=
  curveDersAt p U P (findSpanLinearR p U P.length u) u order

/-- `CurveEvaluator.derivatives` (A3.2 as coded over A2.3 as coded, `curveDersA32`) after the repaired span search -/
def curveDersA32R (p : Nat) (U : Nat → K) (P : List (List K)) (u : K) (order : Nat) : List (List K) :=
  curveDersA32 p U P (findSpanLinearR p U P.length u) u order

/-- the tensor-formula table `surfaceDersAt` (`tri = true`: `SurfaceEvaluator2`) on the span pair the repaired search
    finds -/
def surfaceDersR (pu pv : Nat) (Uu Uv : Nat → K) (su sv : Nat) (P : List (List K)) (u v : K) (order : Nat)
    (tri : Bool) : List (List (List K)) :=
  surfaceDersAt pu pv Uu Uv sv P (findSpanLinearR pu Uu su u) (findSpanLinearR pv Uv sv v) u v order tri

/-- `SurfaceEvaluator.derivatives` (A3.6 as coded, `surfaceDersA36`) on the span pair the repaired search finds -/
def surfaceDersA36R (pu pv : Nat) (Uu Uv : Nat → K) (su sv : Nat) (P : List (List K)) (u v : K) (order : Nat) :
    List (List (List K)) :=
  surfaceDersA36 pu pv Uu Uv sv P (findSpanLinearR pu Uu su u) (findSpanLinearR pv Uv sv v) u v order

/-- `SurfaceEvaluator2.derivatives` (A3.7 + A3.8 as coded, `surfaceDersA38`) on the span pair the repaired search finds -/
def surfaceDersA38R (pu pv : Nat) (Uu Uv : Nat → K) (su sv : Nat) (P : List (List K)) (u v : K) (order : Nat) :
    List (List (List K)) :=
  surfaceDersA38 pu pv Uu Uv su sv P (findSpanLinearR pu Uu su u) (findSpanLinearR pv Uv sv v) u v order

end
end Geomdl
