/-
  Model of the REPAIRED span searches of geomdl/helpers.py (finding F-01b, repair commit fd821bb):
  `find_span_linear` and `find_span_binsearch` step back, at the end of the domain, to the last NON-EMPTY knot span,
  so that evaluation at `u = U_n` works for knot vectors whose last domain span is empty (`U_{n-1} = U_n`).

  Literal transcriptions, next to (not instead of) `findSpanLinear` / `findSpanBin` of `Model/Basis.lean`, which have
  no step back and which every theorem about `KnotsOk` knot vectors (non-empty last span) is stated for.
  `Lemmas/SpanR.lean` proves that the two pairs agree whenever the span found is not empty.

  No Mathlib; `n` is the number of control points (`num_ctrlpts`), the domain is `[U p, U n]`.
-/
import NurbsVerif.Model.Eval

namespace Geomdl
section
variable {K : Type} [Add K] [Sub K] [Mul K] [Div K] [Neg K] [Zero K] [One K] [NatCast K]
  [LT K] [LE K] [DecidableRel (α := K) (· < ·)] [DecidableRel (α := K) (· ≤ ·)] [DecidableEq K]

/-- the loop `while span - 1 > degree and knot_vector[span - 1] == knot_vector[span]: span -= 1` of the repaired
    `find_span_linear`, with fuel -/
def stepBackSpan (p : Nat) (U : Nat → K) : Nat → Nat → Nat
  | 0, span => span
  | fuel+1, span => if p < span - 1 ∧ U (span - 1) = U span then stepBackSpan p U fuel (span - 1) else span

/-- repaired `helpers.find_span_linear(degree, U, num_ctrlpts, knot)`: the first loop as before
    (`findSpanLinearAux`), then the step back, then `return span - 1` -/
def findSpanLinearR (p : Nat) (U : Nat → K) (n : Nat) (u : K) : Nat :=
  stepBackSpan p U (n + 1) (findSpanLinearAux U n u (n + 1) (p + 1)) - 1

/-- the loop `while n > degree and knot_vector[n] == knot_vector[n + 1]: n -= 1` of the repaired
    `find_span_binsearch` (the code's `n` is `num_ctrlpts - 1`: argument `m`), with fuel -/
def stepBackIdx (p : Nat) (U : Nat → K) : Nat → Nat → Nat
  | 0, m => m
  | fuel+1, m => if p < m ∧ U m = U (m + 1) then stepBackIdx p U fuel (m - 1) else m

/-- repaired `helpers.find_span_binsearch`: the tolerance shortcut at the domain end now returns the result of the
    step back from `num_ctrlpts - 1`; the bisection is unchanged (`findSpanBinLoop`, same start index) -/
def findSpanBinR (p : Nat) (U : Nat → K) (n : Nat) (u : K) (tol : K) : Option Nat :=
  if absK (U n - u) ≤ tol then some (stepBackIdx p U n (n - 1))
  else findSpanBinLoop U u (n + p + 2) p n ((p + n + 1) / 2)

/-! ### evaluation through the repaired linear search (what `evaluate_single` runs after the repair) -/

def curvePointR (p : Nat) (U : Nat → K) (P : List (List K)) (u : K) : List K :=
  curvePointAt p U P (findSpanLinearR p U P.length u) u

def surfacePointR (pu pv : Nat) (Uu Uv : Nat → K) (su sv : Nat) (P : List (List K)) (u v : K) : List K :=
  surfacePointAt pu pv Uu Uv sv P (findSpanLinearR pu Uu su u) (findSpanLinearR pv Uv sv v) u v

def volumePointR (pu pv pw : Nat) (Uu Uv Uw : Nat → K) (su sv sw : Nat) (P : List (List K))
    (u v w : K) : List K :=
  volumePointAt pu pv pw Uu Uv Uw su sv P
    (findSpanLinearR pu Uu su u) (findSpanLinearR pv Uv sv v) (findSpanLinearR pw Uw sw w) u v w

end
end Geomdl
