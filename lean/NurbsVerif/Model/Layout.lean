/-
  Model of the control-net layout bookkeeping of geomdl (property C13):
  `BSpline.Surface.set_ctrlpts` / `ctrlpts2d` (getter and setter), `control_points.SurfaceManager` /
  `VolumeManager`, `compatibility.flip_ctrlpts` / `flip_ctrlpts_u` / `flip_ctrlpts2d`,
  `operations.transpose` / `operations.flip`, `construct.extract_curves` / `extract_surfaces` /
  `construct_surface` / `construct_volume`, `sweeping.sweep_vector`.

  No imports.  Everything here is index bookkeeping, so the point type is a parameter `α` (a
  coordinate list, a homogeneous point, a number, …) and the knot-vector type a parameter `κ`; only
  the translation used by `sweep_vector` needs a number type.  Reading a flat list at an index is
  `List.getD · · default` (Python raises `IndexError` where the index is out of range; the guards
  under which that cannot happen are the hypotheses of the theorems and the `ERR` answers of the
  driver).

  A loop nest `for a in range(A): for b in range(B): out.append(f(a, b))` is `tab2 A B f`, the
  three-deep nest is `tab3`.  Two routines assign into a pre-allocated list instead of appending
  (`ctrlpts2d` setter: `ctrlpts[v + size_v*u] = value[u][v]` inside `for u: for v:`;
  `operations.flip`: `new_cpts[idx] = pt; idx -= 1`); their faithful in-place versions are
  `setCtrlpts2dLoop` / `flipLoop`, and `Lemmas/LayoutVol.lean` / `LayoutOps.lean` prove them equal to the append form
  `tab2 …` / `List.reverse` used everywhere else.

  `constructVolume` mirrors the REPAIRED `construct_volume` (finding F-13a); the pinned loops are
  kept as `constructVolumePinned` for the refutation.  `sweepCurve` mirrors the repaired
  `sweep_vector` (finding F-13b: `degree=1`); `sweepCurvePinned` is the pinned call (default degree 2).
-/
namespace Geomdl
section
variable {α κ : Type}

/-! ### the layout -/

/-- flat index of the surface control point `(u, v)`: `v + size_v * u` -/
def flatIdx2 (sv u v : Nat) : Nat := v + sv * u

/-- flat index of the volume control point `(u, v, w)`: `v + size_v * (u + size_u * w)` -/
def flatIdx3 (su sv u v w : Nat) : Nat := v + sv * (u + su * w)

/-- `for a in range(A): for b in range(B): out.append(f(a, b))` -/
def tab2 (A B : Nat) (f : Nat → Nat → α) : List α :=
  (List.range A).flatMap fun a => (List.range B).map fun b => f a b

/-- `for c in range(C): for a in range(A): for b in range(B): out.append(f(c, a, b))` -/
def tab3 (C A B : Nat) (f : Nat → Nat → Nat → α) : List α :=
  (List.range C).flatMap fun c => tab2 A B (f c)

/-- nested list `[[f(a, b) for b in range(B)] for a in range(A)]` -/
def grid2 (A B : Nat) (f : Nat → Nat → α) : List (List α) :=
  (List.range A).map fun a => (List.range B).map fun b => f a b

/-- `value[a][b]` on a nested list -/
def get2 [Inhabited α] (G : List (List α)) (a b : Nat) : α := (G.getD a []).getD b default

/-! ### `Surface.set_ctrlpts` (builds `ctrlpts2d`) and the `ctrlpts2d` setter -/

/-- the 2-D view built by `BSpline.Surface.set_ctrlpts`:
    `ctrlpts2d[i][j] = ctrlpts[j + i*size_v]` -/
def ctrlpts2dOf [Inhabited α] (su sv : Nat) (P : List α) : List (List α) :=
  grid2 su sv fun i j => P.getD (j + i * sv) default

/-- `ctrlpts2d` setter: `size_u = len(value)`, `size_v = len(value[0])`,
    `ctrlpts[v + size_v*u] = value[u][v]` for `u`, `v` in loop order – the indices are visited in
    increasing order, so this is the append form (proved equal to `setCtrlpts2dLoop`).
    Returns `(size_u, size_v, ctrlpts)`. -/
def setCtrlpts2d [Inhabited α] (value : List (List α)) : Nat × Nat × List α :=
  let su := value.length
  let sv := (value.headD []).length
  (su, sv, tab2 su sv fun u v => get2 value u v)

/-- the same setter as written: a list of `size_u*size_v` empty slots, assigned in place -/
def setCtrlpts2dLoop [Inhabited α] (value : List (List α)) : Nat × Nat × List α :=
  let su := value.length
  let sv := (value.headD []).length
  (su, sv, (List.range su).foldl (fun acc u =>
      (List.range sv).foldl (fun acc v => acc.set (v + sv * u) (get2 value u v)) acc)
    (List.replicate (su * sv) default))

/-! ### control point managers (`control_points.py`) -/

/-- `SurfaceManager(size_u, size_v).find_index(u, v)` -/
def surfFindIndex (su sv u v : Nat) : Nat := v + u * sv

/-- `VolumeManager(size_u, size_v, size_w).find_index(u, v, w)` -/
def volFindIndex (su sv sw u v w : Nat) : Nat := v + u * sv + w * su * sv

/-- `get_ctrlpt`: `None` on `IndexError` -/
def mgrGet (P : List α) (idx : Nat) : Option α := P[idx]?

/-- `set_ctrlpt`: the new point list (`none` = "Index is out of range") -/
def mgrSet (P : List α) (idx : Nat) (pt : α) : Option (List α) :=
  if idx < P.length then some (P.set idx pt) else none

/-! ### `compatibility.flip_ctrlpts*` -/

/-- `flip_ctrlpts_u(ctrlpts, size_u, size_v)`: `for i < size_u: for j < size_v: ctrlpts[i + j*size_u]` -/
def flipCtrlptsU [Inhabited α] (P : List α) (su sv : Nat) : List α :=
  tab2 su sv fun i j => P.getD (i + j * su) default

/-- `flip_ctrlpts(ctrlpts, size_u, size_v)`: `for i < size_v: for j < size_u: ctrlpts[i + j*size_v]` -/
def flipCtrlpts [Inhabited α] (P : List α) (su sv : Nat) : List α :=
  tab2 sv su fun i j => P.getD (i + j * sv) default

/-- `flip_ctrlpts2d(ctrlpts2d, size_u, size_v)`: `new[i][j] = old[j][i]`, `i < size_v`, `j < size_u` -/
def flipCtrlpts2d [Inhabited α] (G : List (List α)) (su sv : Nat) : List (List α) :=
  grid2 sv su fun i j => get2 G j i

/-! ### shapes as (degrees, knot vectors, sizes, net) -/

structure Crv (α κ : Type) where
  deg : Nat
  kv : κ
  pts : List α
deriving DecidableEq, Repr

structure Srf (α κ : Type) where
  du : Nat
  dv : Nat
  ku : κ
  kv : κ
  su : Nat
  sv : Nat
  pts : List α
deriving DecidableEq, Repr

structure Vol (α κ : Type) where
  du : Nat
  dv : Nat
  dw : Nat
  ku : κ
  kv : κ
  kw : κ
  su : Nat
  sv : Nat
  sw : Nat
  pts : List α
deriving DecidableEq, Repr

/-- the net has as many points as the sizes say, and at least 2 per direction (every geomdl shape) -/
def Srf.WF (S : Srf α κ) : Prop := S.pts.length = S.su * S.sv ∧ 2 ≤ S.su ∧ 2 ≤ S.sv
def Vol.WF (V : Vol α κ) : Prop :=
  V.pts.length = V.su * V.sv * V.sw ∧ 2 ≤ V.su ∧ 2 ≤ V.sv ∧ 2 ≤ V.sw

/-- control point `(u, v)` of a surface -/
def Srf.at [Inhabited α] (S : Srf α κ) (u v : Nat) : α := S.pts.getD (flatIdx2 S.sv u v) default
/-- control point `(u, v, w)` of a volume -/
def Vol.at [Inhabited α] (V : Vol α κ) (u v w : Nat) : α :=
  V.pts.getD (flatIdx3 V.su V.sv u v w) default

/-! ### `operations.transpose`, `operations.flip` -/

/-- `operations.transpose`: degrees and knot vectors swapped;
    `ctrlpts2d_new[v][u] = ctrlpts2d_old[u][v]`, stored through the `ctrlpts2d` setter -/
def transposeSrf [Inhabited α] (S : Srf α κ) : Srf α κ :=
  let old := ctrlpts2dOf S.su S.sv S.pts
  let r := setCtrlpts2d (grid2 S.sv S.su fun v u => get2 old u v)
  { du := S.dv, dv := S.du, ku := S.kv, kv := S.ku, su := r.1, sv := r.2.1, pts := r.2.2 }

/-- the in-place loop of `operations.flip`: `idx = n-1; for pt in cpts: new[idx] = pt; idx -= 1` -/
def flipLoop [Inhabited α] (P : List α) : List α :=
  ((P.foldl (fun (acc : List α × Nat) pt => (acc.1.set acc.2 pt, acc.2 - 1))
    (List.replicate P.length default, P.length - 1))).1

/-- `operations.flip`: the flat net reversed, sizes kept (append form of `flipLoop`) -/
def flipSrf (S : Srf α κ) : Srf α κ := { S with pts := S.pts.reverse }

/-! ### `construct.extract_curves`, `construct.construct_surface` -/

inductive Dir where
  | u | v | w
deriving DecidableEq, Repr

/-- `extract_curves(surf)['v']`: for every `u` the curve `[cpts[v + size_v*u] for v]`
    with the surface's v-degree and v-knots -/
def extractCurvesV [Inhabited α] (S : Srf α κ) : List (Crv α κ) :=
  (List.range S.su).map fun u =>
    { deg := S.dv, kv := S.kv, pts := (List.range S.sv).map fun v => S.pts.getD (v + S.sv * u) default }

/-- `extract_curves(surf)['u']`: for every `v` the curve `[cpts[v + size_v*u] for u]` -/
def extractCurvesU [Inhabited α] (S : Srf α κ) : List (Crv α κ) :=
  (List.range S.sv).map fun v =>
    { deg := S.du, kv := S.ku, pts := (List.range S.su).map fun u => S.pts.getD (v + S.sv * u) default }

/-- `construct_surface(direction, *args, degree=…, knotvector=…)`; `none` where the code raises
    (fewer than two curves, different degrees or sizes) -/
def constructSurface [Inhabited α] (dir : Dir) (degOther : Nat) (kvOther : κ) (args : List (Crv α κ)) :
    Option (Srf α κ) :=
  match args with
  | [] => none
  | c0 :: _ =>
    let sizeOther := args.length
    let num := c0.pts.length
    if sizeOther < 2 then none
    else if !(args.all fun c => c.deg == c0.deg && c.pts.length == num) then none
    else
      let new := args.flatMap fun c => c.pts
      match dir with
      | Dir.u => some { du := degOther, dv := c0.deg, ku := kvOther, kv := c0.kv,
                        su := sizeOther, sv := num, pts := new }
      | Dir.v => some { du := c0.deg, dv := degOther, ku := c0.kv, kv := kvOther,
                        su := num, sv := sizeOther, pts := flipCtrlptsU new num sizeOther }
      | Dir.w => none

/-! ### `construct.extract_surfaces`, `construct.construct_volume` -/

/-- a surface filled through `ctrlpts_size_* = …` and the `ctrlpts2d` setter -/
def srfOf2d [Inhabited α] (du dv : Nat) (ku kv : κ) (G : List (List α)) : Srf α κ :=
  let r := setCtrlpts2d G
  { du := du, dv := dv, ku := ku, kv := kv, su := r.1, sv := r.2.1, pts := r.2.2 }

/-- `extract_surfaces(vol)['uv']`: one surface per `w` -/
def extractSurfacesUV [Inhabited α] (V : Vol α κ) : List (Srf α κ) :=
  (List.range V.sw).map fun w =>
    srfOf2d V.du V.dv V.ku V.kv
      (grid2 V.su V.sv fun u v => V.pts.getD (v + V.sv * (u + V.su * w)) default)

/-- `extract_surfaces(vol)['uw']`: one surface per `v` -/
def extractSurfacesUW [Inhabited α] (V : Vol α κ) : List (Srf α κ) :=
  (List.range V.sv).map fun v =>
    srfOf2d V.du V.dw V.ku V.kw
      (grid2 V.su V.sw fun u w => V.pts.getD (v + V.sv * (u + V.su * w)) default)

/-- `extract_surfaces(vol)['vw']`: one surface per `u` -/
def extractSurfacesVW [Inhabited α] (V : Vol α κ) : List (Srf α κ) :=
  (List.range V.su).map fun u =>
    srfOf2d V.dv V.dw V.kv V.kw
      (grid2 V.sv V.sw fun v w => V.pts.getD (v + V.sv * (u + V.su * w)) default)

/-- the part of `construct_volume` shared by the repaired and the pinned code: validation,
    stacking; `perm dir sizeOther a b stacked` is the direction-dependent re-ordering -/
def constructVolumeWith [Inhabited α] (perm : Dir → Nat → Nat → Nat → List α → List α)
    (dir : Dir) (degOther : Nat) (kvOther : κ) (args : List (Srf α κ)) : Option (Vol α κ) :=
  match args with
  | [] => none
  | s0 :: _ =>
    let n := args.length
    if n < 2 then none
    else if !(args.all fun s => s.du == s0.du && s.dv == s0.dv && s.su == s0.su && s.sv == s0.sv) then none
    else
      let new := args.flatMap fun s => s.pts
      match dir with
      | Dir.u => some { du := degOther, dv := s0.du, dw := s0.dv, ku := kvOther, kv := s0.ku, kw := s0.kv,
                        su := n, sv := s0.su, sw := s0.sv, pts := perm Dir.u n s0.su s0.sv new }
      | Dir.v => some { du := s0.du, dv := degOther, dw := s0.dv, ku := s0.ku, kv := kvOther, kw := s0.kv,
                        su := s0.su, sv := n, sw := s0.sv, pts := perm Dir.v n s0.su s0.sv new }
      | Dir.w => some { du := s0.du, dv := s0.dv, dw := degOther, ku := s0.ku, kv := s0.kv, kw := kvOther,
                        su := s0.su, sv := s0.sv, sw := n, pts := perm Dir.w n s0.su s0.sv new }

/-- re-ordering of the stacked nets, REPAIRED code (F-13a).  `n` surfaces of size `a × b`.
    * `u`: volume sizes `(n, a, b)`; `for w < b: for u < n: for v < a: new[w + v*b + u*a*b]`
    * `v`: volume sizes `(a, n, b)`; `for w < b: for u < a: for v < n: new[w + u*b + v*a*b]`
    * `w`: unchanged -/
def volPerm [Inhabited α] : Dir → Nat → Nat → Nat → List α → List α
  | Dir.u, n, a, b, new => tab3 b n a fun w u v => new.getD (w + v * b + u * a * b) default
  | Dir.v, n, a, b, new => tab3 b a n fun w u v => new.getD (w + u * b + v * a * b) default
  | Dir.w, _, _, _, new => new

/-- re-ordering of the stacked nets, PINNED code.
    * `u`: sizes `(su,sv,sw) = (n, a, b)`; `for v < sv: for w < sw: for u < su: new[v + u*sv + w*su*sv]`
    * `v`: sizes `(su,sv,sw) = (a, n, b)`; `for v < sv: for u < su: for w < sw: new[v + u*sv + w*su*sv]` -/
def volPermPinned [Inhabited α] : Dir → Nat → Nat → Nat → List α → List α
  | Dir.u, n, a, b, new => tab3 a b n fun v w u => new.getD (v + u * a + w * n * a) default
  | Dir.v, n, a, b, new => tab3 n a b fun v u w => new.getD (v + u * n + w * a * n) default
  | Dir.w, _, _, _, new => new

/-- `construct_volume(direction, *args, degree=…, knotvector=…)`, repaired -/
def constructVolume [Inhabited α] (dir : Dir) (degOther : Nat) (kvOther : κ) (args : List (Srf α κ)) :
    Option (Vol α κ) := constructVolumeWith volPerm dir degOther kvOther args

/-- `construct_volume` as pinned -/
def constructVolumePinned [Inhabited α] (dir : Dir) (degOther : Nat) (kvOther : κ) (args : List (Srf α κ)) :
    Option (Vol α κ) := constructVolumeWith volPermPinned dir degOther kvOther args

/-! ### `sweeping.sweep_vector` -/

/-- `sweep_vector` on a curve with the degree it passes to `construct_surface("u", obj, obj_swept, degree=deg)`.
    `knotvector.generate(deg, 2)` (evaluated before anything is built) raises
    "Number of control points should be at least degree + 1" when `2 < deg + 1`.
    `tr` is the translation of one control point, `kvGen = knotvector.generate(deg, 2)`. -/
def sweepCurveDeg [Inhabited α] (deg : Nat) (tr : α → α) (kvGen : κ) (C : Crv α κ) : Option (Srf α κ) :=
  if 2 < deg + 1 then none
  else constructSurface Dir.u deg kvGen [C, { C with pts := C.pts.map tr }]

/-- REPAIRED `sweep_vector` on a curve (F-13b): `degree=1` -/
def sweepCurve [Inhabited α] (tr : α → α) (kvGen : κ) (C : Crv α κ) : Option (Srf α κ) :=
  sweepCurveDeg 1 tr kvGen C

/-- pinned `sweep_vector` on a curve: `construct_surface`'s default `degree=2` -/
def sweepCurvePinned [Inhabited α] (tr : α → α) (kvGen : κ) (C : Crv α κ) : Option (Srf α κ) :=
  sweepCurveDeg 2 tr kvGen C

/-- `sweep_vector` on a surface: `construct_volume("w", obj, obj_swept)` (default degree 1) -/
def sweepSurface [Inhabited α] (tr : α → α) (kvGen : κ) (S : Srf α κ) : Option (Vol α κ) :=
  constructVolume Dir.w 1 kvGen [S, { S with pts := S.pts.map tr }]

end

section
variable {K : Type} [Add K] [Mul K] [Div K] [Zero K]

/-- `linalg.point_translate`: `[c + t for c, t in zip(point, vec)]` -/
def pointTranslate (vec p : List K) : List K := List.zipWith (· + ·) p vec

/-- what `sweep_vector` does to a homogeneous control point `(x·w, w)` of a rational shape:
    `ctrlpts` divides by the weight, `point_translate` adds the vector, the `ctrlpts` setter
    multiplies by the (unchanged) weight again and appends it -/
def pointTranslateW (vec pw : List K) : List K :=
  let w := pw.getLastD 0
  List.zipWith (fun c t => (c / w + t) * w) pw.dropLast vec ++ [w]

end
end Geomdl
