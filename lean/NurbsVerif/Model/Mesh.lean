/-
  Model of geomdl/_tessellate.py (`make_triangle_mesh` with `surface_tessellate` /
  `polygon_triangulate` / `fix_numbering`, `make_quad_mesh`), of the vertex bookkeeping of
  `multi.SurfaceContainer.tessellate`, of the index offsets of `exchange.export_obj_str` /
  `export_off_str` and of `linalg.triangle_normal` (STL facet normal).

  No imports.  Vertex ids, face indices and counts are `Nat`; parameters and coordinates are in `K`.
  The model mirrors the code WITH the repair of defect F-15 (`varr_size = len(range(0, size,
  vertex_spacing))`); the pinned expression `int(round(size / spacing + 10e-8))` is kept as
  `gridCountPinned` for the refutation.

  Trimmed tessellation (`surface_trim_tessellate` and the cell loop that calls it) is modelled in Model/TrimMesh.lean.
-/
namespace Geomdl

/-! ### loops over a grid -/

/-- `for i in range(n): for j in range(m): out.append(f i j)` -/
def meshGrid2 {α : Type} (n m : Nat) (f : Nat → Nat → α) : List α :=
  (List.range n).flatMap fun i => (List.range m).map (f i)

/-- `len(range(0, size, spacing))`: number of grid vertices per direction (repaired code) -/
def gridCount (size spacing : Nat) : Nat := (size + spacing - 1) / spacing

/-- `int(round(size / spacing + 10e-8))` of the pinned code, on exact numbers (Python rounds half
    to even; the `+ 10e-8` turns every tie into "up" and changes nothing else as long as
    `spacing < 5·10⁶`): `⌊(2·size + spacing) / (2·spacing)⌋`. -/
def gridCountPinned (size spacing : Nat) : Nat := (2 * size + spacing) / (2 * spacing)

/-- guard of the pinned `make_triangle_mesh`: the vertex loop writes `vertices[vrt_idx]` for
    `vrt_idx < gridCount su s * gridCount sv s` into an array of `gridCountPinned …` entries;
    `false` ⇒ `IndexError` -/
def meshOkPinned (su sv s : Nat) : Bool :=
  decide (gridCount su s * gridCount sv s ≤ gridCountPinned su s * gridCountPinned sv s)

/-- vertex id of grid position `(i, j)` (`j + i * varr_size_v`) -/
def gridVid (nv i j : Nat) : Nat := j + i * nv

/-- the four corner ids of cell `(i, j)` in the order `vertex1 … vertex4` of the code
    (`(i,j)`, `(i+1,j)`, `(i+1,j+1)`, `(i,j+1)`) -/
def quadCell (nv i j : Nat) : List Nat :=
  [j + i * nv, j + (i + 1) * nv, j + 1 + (i + 1) * nv, j + 1 + i * nv]

/-- `polygon_triangulate`: the fan `(args[0], args[idx], args[idx+1])`, `idx = 1 … len-2` -/
def polygonTriangulate : List Nat → List (List Nat)
  | [] => []
  | a :: rest => List.zipWith (fun b c => [a, b, c]) rest rest.tail

/-- the triangle loop of `make_triangle_mesh` with `surface_tessellate` (no new vertices):
    `for i in range(nu-1): for j in range(nv-1): triangles += polygon_triangulate(v1,v2,v3,v4)` -/
def meshTriangles (nu nv : Nat) : List (List Nat) :=
  (meshGrid2 (nu - 1) (nv - 1) fun i j => polygonTriangulate (quadCell nv i j)).flatten

/-! ### `fix_numbering` -/

/-- `if td not in tri_vertex_ids: tri_vertex_ids.append(td)` -/
def insertNewId (acc : List Nat) (x : Nat) : List Nat := if acc.contains x then acc else acc ++ [x]

/-- all vertex ids occurring in the triangle list, first occurrence order -/
def usedIds (tris : List (List Nat)) : List Nat :=
  tris.foldl (fun acc t => t.foldl insertNewId acc) []

/-- `fix_numbering(vertex_list, triangle_list)` for vertices with ids `0 … nVerts-1` in list order:
    returns the old ids of the vertices that are kept (in order; the new id of a vertex is its
    position in that list) and the triangles with renumbered indices (in the code the triangles
    hold the vertex objects, so changing `vertex.id` renumbers them implicitly). -/
def fixNumbering (nVerts : Nat) (tris : List (List Nat)) : List Nat × List (List Nat) :=
  let used := usedIds tris
  let kept := (List.range nVerts).filter fun v => used.contains v
  (kept, tris.map fun t => t.map fun v => kept.idxOf v)

/-! ### edges (not computed by the code; used to state Euler's formula) -/

/-- explicit edge list of the grid triangulation: u-direction, v-direction, cell diagonals -/
def meshEdges (nu nv : Nat) : List (Nat × Nat) :=
  meshGrid2 (nu - 1) nv (fun i j => (gridVid nv i j, gridVid nv (i + 1) j))
  ++ meshGrid2 nu (nv - 1) (fun i j => (gridVid nv i j, gridVid nv i (j + 1)))
  ++ meshGrid2 (nu - 1) (nv - 1) (fun i j => (gridVid nv i j, gridVid nv (i + 1) (j + 1)))

/-- directed edges of a triangle `(a,b,c)`: `a→b, b→c, c→a` -/
def triDirEdges : List Nat → List (Nat × Nat)
  | [a, b, c] => [(a, b), (b, c), (c, a)]
  | _ => []

/-- all directed edges of all faces of the grid triangulation, in face order -/
def meshDirEdges (nu nv : Nat) : List (Nat × Nat) := (meshTriangles nu nv).flatMap triDirEdges

def normEdge (e : Nat × Nat) : Nat × Nat := if e.1 ≤ e.2 then e else (e.2, e.1)

def insertNewEdge (acc : List (Nat × Nat)) (x : Nat × Nat) : List (Nat × Nat) :=
  if acc.contains x then acc else acc ++ [x]

/-- undirected edges of a face list, duplicates removed (what the driver counts) -/
def facesEdges (faces : List (List Nat)) : List (Nat × Nat) :=
  (faces.flatMap fun t => (triDirEdges t).map normEdge).foldl insertNewEdge []

/-! ### `make_quad_mesh` -/

/-- `make_quad_mesh(points, size_u, size_v)`: vertex ids are the point indices; the quads -/
def makeQuadFaces (su sv : Nat) : List (List Nat) := meshGrid2 (su - 1) (sv - 1) fun i j => quadCell sv i j

/-! ### container / exporter index offsets -/

/-- Faces of several meshes `(vertex count, faces)` written with a running vertex offset:
    `vl[k] + base + vertex_offset`, `vertex_offset = len(str_v)` after each surface
    (`base = 1` OBJ, `base = 0` OFF; `base = 0` is also what `SurfaceContainer.tessellate` does to
    the vertex ids, `v[i].id += v_offset`). -/
def offsetFaces (base : Nat) : Nat → List (Nat × List (List Nat)) → List (List Nat)
  | _, [] => []
  | off, (nV, fs) :: rest => fs.map (fun t => t.map fun v => v + base + off) ++ offsetFaces base (off + nV) rest

def meshTotalVerts (ms : List (Nat × List (List Nat))) : Nat := (ms.map (·.1)).sum

section
variable {K : Type} [Add K] [Sub K] [Mul K] [Div K] [Zero K] [One K] [NatCast K]

/-! ### vertices of `make_triangle_mesh` -/

/-- `(1.0 / float(size - 1)) * vertex_spacing` -/
def meshJump (size spacing : Nat) : K := (1 / (Nat.cast (size - 1) : K)) * (Nat.cast spacing : K)

/-- value of the accumulator (`u = 0.0 … u += u_jump`) when the `i`-th grid line is written -/
def accParam (jump : K) : Nat → K
  | 0 => 0
  | i + 1 => accParam jump i + jump

/-- the vertex loop: vertex `k` of the result (id `k`) is `((u, v), idx)` where `idx = j + i*size_v`
    (`i`, `j` multiples of the spacing) is the index of the evaluated point it copies -/
def meshVertices (su sv s : Nat) : List ((K × K) × Nat) :=
  meshGrid2 (gridCount su s) (gridCount sv s) fun i j =>
    ((accParam (meshJump su s) i, accParam (meshJump sv s) j), j * s + (i * s) * sv)

/-- result of `make_triangle_mesh` (untrimmed): vertex `k` has id `k` -/
structure TriMesh (K : Type) where
  uv : List (K × K)
  src : List Nat
  faces : List (List Nat)

/-- `make_triangle_mesh(points, size_u, size_v, vertex_spacing=s)` with the default
    `surface_tessellate`, followed by `fix_numbering` -/
def makeTriangleMesh (su sv s : Nat) : TriMesh K :=
  let verts : List ((K × K) × Nat) := meshVertices su sv s
  let r := fixNumbering verts.length (meshTriangles (gridCount su s) (gridCount sv s))
  let vs := r.1.filterMap fun k => verts[k]?
  { uv := vs.map (·.1), src := vs.map (·.2), faces := r.2 }

/-- vertex parameters of `make_quad_mesh(points, size_u, size_v)` (with the repair of F-15c) for `n` points:
    vertex `k` (id `k` = point index) gets
    `uv = [float(k // size_v) / float(size_u - 1), float(k % size_v) / float(size_v - 1)]`.
    The code raises `ZeroDivisionError` when `size_u = 1` or `size_v = 1` (guarded by the driver). -/
def quadVertexUV (n su sv : Nat) : List (K × K) :=
  (List.range n).map fun k =>
    ((Nat.cast (k / sv) : K) / (Nat.cast (su - 1) : K), (Nat.cast (k % sv) : K) / (Nat.cast (sv - 1) : K))

/-- twice the signed area of the parametric triangle `t = [a,b,c]` for a vertex → uv table -/
def triArea2 (uv : Nat → K × K) : List Nat → K
  | [a, b, c] => ((uv b).1 - (uv a).1) * ((uv c).2 - (uv a).2) - ((uv c).1 - (uv a).1) * ((uv b).2 - (uv a).2)
  | _ => 0

/-! ### `linalg.triangle_normal` (STL facet normal) -/

/-- `vector_generate(start, end)` on 3-D points -/
def triVecGen (a b : List K) : List K := [b.getD 0 0 - a.getD 0 0, b.getD 1 0 - a.getD 1 0, b.getD 2 0 - a.getD 2 0]

/-- `vector_cross` on 3-D vectors -/
def triVecCross (a b : List K) : List K :=
  [a.getD 1 0 * b.getD 2 0 - a.getD 2 0 * b.getD 1 0,
   a.getD 2 0 * b.getD 0 0 - a.getD 0 0 * b.getD 2 0,
   a.getD 0 0 * b.getD 1 0 - a.getD 1 0 * b.getD 0 0]

/-- `triangle_normal`: cross product of the edges `p0→p1` and `p1→p2` (not normalised) -/
def triangleNormal (p0 p1 p2 : List K) : List K := triVecCross (triVecGen p0 p1) (triVecGen p1 p2)

def triDot3 (a b : List K) : K := a.getD 0 0 * b.getD 0 0 + a.getD 1 0 * b.getD 1 0 + a.getD 2 0 * b.getD 2 0

end
end Geomdl
