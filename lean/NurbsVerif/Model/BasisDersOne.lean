import NurbsVerif.Model.Basis
/-
  Model of `helpers.basis_function_ders_one` (Algorithm A2.5): literal transcription.

  The 2-D table `N[j][k]` of the code is filled column by column with exactly the loop body of A2.4
  (`bfOneLevel`); column `k` holds the `p+1-k` entries `N[0..p-k][k]` (the remaining entries of the
  code's square array stay `0.0` and are never read).  For the `k`-th derivative the code copies
  `ND[0..k] = N[0..k][p-k]` (the whole column `p-k`) and runs `k` differencing levels `jj = 1..k`
  with the integer factor `p-k+jj` and zero detection.

  Guard (carried by the driver): `order ≤ p` (for `order > p` the code raises IndexError when the
  parameter is inside the support) and `span + p + 1 < len(knot_vector)`.
-/
namespace Geomdl
section
variable {K : Type} [Add K] [Sub K] [Mul K] [Div K] [Neg K] [Zero K] [One K] [NatCast K]
  [LT K] [LE K] [DecidableRel (α := K) (· < ·)] [DecidableRel (α := K) (· ≤ ·)] [DecidableEq K]

/-- column `k` of the table `N` of A2.5 (entries `j = 0..p-k`) -/
def bdoColumn (p : Nat) (U : Nat → K) (span : Nat) (u : K) (k : Nat) : List K :=
  (List.range' 1 k).foldl (bfOneLevel U span u)
    ((List.range (p+1)).map (fun j => if U (span + j) ≤ u ∧ u < U (span + j + 1) then (1:K) else 0))

/-- inner `for j in range(0, k-jj+1)` loop over `ND[1..]`; `q = degree - k + jj` -/
def bdoInner (U : Nat → K) (span q : Nat) : Nat → List K → K → List K
  | _, [], _ => []
  | j, n1 :: ns, saved =>
      let Uleft := U (span + j + 1)
      let Uright := U (span + j + q + 1)
      if n1 = 0 then ((Nat.cast q : K) * saved) :: bdoInner U span q (j+1) ns 0
      else
        let temp := n1 / (Uright - Uleft)
        ((Nat.cast q : K) * (saved - temp)) :: bdoInner U span q (j+1) ns temp

/-- one differencing level `jj` (with `q = degree - k + jj`); input `ND[0..k-jj+1]`, output `ND[0..k-jj]` -/
def bdoLevel (U : Nat → K) (span : Nat) (ND : List K) (q : Nat) : List K :=
  let n0 := ND.headD 0
  let saved := if n0 = 0 then 0 else n0 / (U (span + q) - U span)
  bdoInner U span q 0 ND.tail saved

/-- `ders[k]` for `1 ≤ k ≤ p` -/
def bdoDer (p : Nat) (U : Nat → K) (span : Nat) (u : K) (k : Nat) : K :=
  ((List.range' (p - k + 1) k).foldl (bdoLevel U span) (bdoColumn p U span u (p - k))).headD 0

/-- `helpers.basis_function_ders_one(degree, U, span, knot, order)` -/
def basisFunDersOne (p : Nat) (U : Nat → K) (span : Nat) (u : K) (order : Nat) : List K :=
  if u < U span ∨ U (span + p + 1) ≤ u then List.replicate (order + 1) 0
  else (bdoColumn p U span u p).headD 0 :: (List.range' 1 order).map (fun k => bdoDer p U span u k)

end
end Geomdl
