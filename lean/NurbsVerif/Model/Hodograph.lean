/-
  Model of the hodograph constructors `operations.derivative_curve`, `operations.derivative_surface`
  and of `operations.tangent` / `operations.normal` (`_operations.tangent_curve_single`,
  `tangent_surface_single`, `normal_surface_single`; `normalize=False`, and `normalize=True` with the
  magnitude(s) as inputs: `tangentCurveN`, `tangentSurfaceN`, `normalSurfaceN`).

  A constructor result is the data handed to the setters of the new object: degree(s), knot vector(s),
  control points.  (The setters of a fresh object normalise the knot vector when the object was
  created with `normalize_kv=True` – the default of `obj.__class__()` – that is `knotNormalize` of
  `Model/Basis.lean`, applied by the driver where the code does.)

  `helpers.curve_deriv_cpts` returns every level padded with `None` points to `r + 1` entries; the
  model `curveDerivCpts` returns the `r - k + 1` assigned points of level `k`, so the slices
  `pkl[1][0:-1]` / `range(0, len(..) - 1)` that drop the padding are the identity here.
-/
import NurbsVerif.Model.SurfDersLoops
import NurbsVerif.Model.Knots
import NurbsVerif.Model.Linalg

namespace Geomdl
section
variable {K : Type} [Add K] [Sub K] [Mul K] [Div K] [Neg K] [Zero K] [One K] [NatCast K]
  [LT K] [LE K] [DecidableRel (α := K) (· < ·)] [DecidableRel (α := K) (· ≤ ·)] [DecidableEq K]

/-- `knotvector[1:-1]` -/
def kvInner (U : List K) : List K := (U.drop 1).dropLast

/-- `operations.derivative_curve(obj)` for a non-rational curve: `(degree - 1, knotvector[1:-1], pkl[1][0:-1])`
    with `pkl = curve_deriv_cpts(dim, degree, kv, ctrlpts, rs=(0, n - 1), deriv_order=1)` -/
def derivativeCurve (p : Nat) (U : List K) (P : List (List K)) : Nat × List K × List (List K) :=
  let pkl := curveDerivCpts p (fnOf U) P 0 (P.length - 1) 1
  (p - 1, kvInner U, pkl.getD 1 [])

/-- every divisor `kv[r1 + i + degree + 1] - kv[r1 + i + k]` met by `curve_deriv_cpts` (levels `1..d`) is
    non-zero (otherwise Python raises `ZeroDivisionError`) -/
def derivCptsDivisorsOk (p : Nat) (U : Nat → K) (r1 r2 d : Nat) : Bool :=
  (List.range' 1 d).all (fun k => (List.range (r2 - r1 - k + 1)).all (fun i =>
    !(decide (U (r1 + i + p + 1) - U (r1 + i + k) = 0))))

/-- the rows `PKL[k][l][i][0..nv-1]`, `i < nu`, concatenated (a flat net with layout `j + nv * i`) -/
def pklNet (T : Arr4 (Option (List K))) (k l nu nv : Nat) : List (List K) :=
  (List.range nu).flatMap (fun i => (List.range nv).map (fun j => (T.get k l i j).getD []))

/-- result of a surface constructor: `(degree_u, degree_v, knotvector_u, knotvector_v, size_u, size_v, ctrlpts)` -/
abbrev SurfData (K : Type) := Nat × Nat × List K × List K × Nat × Nat × List (List K)

/-- `operations.derivative_surface(obj)` for a non-rational surface: the `u`-, `v`- and `uv`-derivative
    surfaces, from `pkl = surface_deriv_cpts(.., rs=(0, su - 1), ss=(0, sv - 1), deriv_order=2)` -/
def derivativeSurface (pu pv : Nat) (Uu Uv : List K) (su sv : Nat) (P : List (List K)) :
    SurfData K × SurfData K × SurfData K :=
  let pkl := surfaceDerivCptsA37 pu pv (fnOf Uu) (fnOf Uv) su sv P 0 (su - 1) 0 (sv - 1) 2
  ((pu - 1, pv, kvInner Uu, Uv, su - 1, sv, pklNet pkl 1 0 (su - 1) sv),
   (pu, pv - 1, Uu, kvInner Uv, su, sv - 1, pklNet pkl 0 1 su (sv - 1)),
   (pu - 1, pv - 1, kvInner Uu, kvInner Uv, su - 1, sv - 1, pklNet pkl 1 1 (su - 1) (sv - 1)))

/-- what the knot-vector setters of a constructed surface store: `knotvector.normalize` is applied in the
    directions (`nu`, `nv`) whose setter runs on an object created with `normalize_kv=True` (for `surf_u` / `surf_v`,
    deep copies of the input, the differentiated direction iff the input normalises; for `surf_uv`, a fresh
    `obj.__class__()`, both directions always) -/
def surfDataNormalize (nu nv : Bool) (s : SurfData K) : SurfData K :=
  (s.1, s.2.1, (if nu then knotNormalize s.2.2.1 else s.2.2.1), (if nv then knotNormalize s.2.2.2.1 else s.2.2.2.1),
   s.2.2.2.2.1, s.2.2.2.2.2.1, s.2.2.2.2.2.2)

/-- `tangent_curve_single(obj, u, normalize=False)`: `(ders[0], ders[1])` of `obj.derivatives(u, 1)` -/
def tangentCurve (ders : List (List K)) : List K × List K := (ders.getD 0 [], ders.getD 1 [])

/-- `tangent_surface_single(obj, uv, normalize=False)`: `(skl[0][0], skl[1][0], skl[0][1])` of
    `obj.derivatives(u, v, 1)` -/
def tangentSurface (skl : List (List (List K))) : List K × List K × List K :=
  ((skl.getD 0 []).getD 0 [], (skl.getD 1 []).getD 0 [], (skl.getD 0 []).getD 1 [])

/-- `normal_surface_single(obj, uv, normalize=False)`: `(skl[0][0], vector_cross(skl[1][0], skl[0][1]))`;
    `none` = the `ValueError` of `vector_cross` (dimension not 2 or 3) -/
def normalSurface (skl : List (List (List K))) : Option (List K × List K) :=
  (Lin.vectorCross ((skl.getD 1 []).getD 0 []) ((skl.getD 0 []).getD 1 [])).map
    (fun n => ((skl.getD 0 []).getD 0 [], n))

/-! ### `normalize=True`

`linalg.vector_normalize(v)` divides by `vector_magnitude(v) = math.sqrt(Σ vᵢ²)`; the square root is not a model
quantity: as in `Lin.vectorNormalize` the value the implementation obtained for it is an INPUT (`mag…`; the driver ops
`tancn` / `tansn` / `nrmsn` receive it from the harness).  `none` = the `ValueError` of `vector_normalize`
("The magnitude of the vector is zero": `magnitude > 0` fails) or of `vector_cross`.  The 18-decimals print / parse of
`vector_normalize` is NOT modelled: in the exact mode of the harness the number type ignores the format spec (the step is the
identity there only for that reason and is not exercised by the correspondence); in doubles it rounds to 18 decimals. -/

/-- `tangent_curve_single(obj, u, normalize=True)`: `(ders[0], vector_normalize(ders[1]))` -/
def tangentCurveN (ders : List (List K)) (mag : K) : Option (List K × List K) :=
  (Lin.vectorNormalize (tangentCurve ders).2 mag).map (fun t => ((tangentCurve ders).1, t))

/-- `tangent_surface_single(obj, uv, normalize=True)`: `(skl[0][0], vector_normalize(skl[1][0]), vector_normalize(skl[0][1]))`
    – `skl[1][0]` is normalised first; either call may raise -/
def tangentSurfaceN (skl : List (List (List K))) (magU magV : K) : Option (List K × List K × List K) :=
  match Lin.vectorNormalize (tangentSurface skl).2.1 magU with
  | none => none
  | some tu => (Lin.vectorNormalize (tangentSurface skl).2.2 magV).map (fun tv => ((tangentSurface skl).1, tu, tv))

/-- `normal_surface_single(obj, uv, normalize=True)`: `(skl[0][0], vector_normalize(vector_cross(skl[1][0], skl[0][1])))`;
    `mag` = magnitude of the cross product -/
def normalSurfaceN (skl : List (List (List K))) (mag : K) : Option (List K × List K) :=
  match normalSurface skl with
  | none => none
  | some r => (Lin.vectorNormalize r.2 mag).map (fun n => (r.1, n))

end
end Geomdl
