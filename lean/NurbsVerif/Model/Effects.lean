/-!
# Cache-effect model of the geomdl object layer (C12) – the fixed part

The Python objects (`abstract.Curve/Surface/Volume`, their `BSpline`/`NURBS` subclasses, the `multi`
containers) hold a *definition* (fields) and lazily filled *caches* (derived views).  A public
mutator is, as far as cache coherence is concerned, a sequence of three kinds of events:

* `write f`  – a definition field is assigned (`self._degree[0] = …`, `self._control_points = …`),
* `clear c`  – a cache is emptied (`self._eval_points = self._init_array()`, `self._cache['ctrlpts'] = []`,
               `self._tsl_component.reset()`),
* `fill c`   – a cache is (re)computed from the *current* fields (`self._eval_points = self._evaluator.evaluate(…)`).

The event paths of every public mutator / reader are extracted from the Python AST on every run
(`harness/effects.py` → `Gen/Effects.lean`, a literal `List OpSummary`); this file is what that table
is interpreted with.  No imports; everything is computable and closed terms are decidable by kernel
reduction.
-/
namespace Eff

/-- definition fields: `_degree`, `_knot_vector`, `_control_points` (homogeneous for rational
    kinds), `_control_points_size`, `_delta`, `_trims`; `elems` = `_elements` of a container -/
inductive Fld | degree | knots | net | sizes | delta | trims | elems
  deriving DecidableEq, Repr

/-- caches: `_eval_points`, `_bounding_box`, `_control_points2D`, `_cache['ctrlpts']`,
    `_cache['weights']` (NURBS), the tessellator's vertices/faces; of containers:
    `_cache['evalpts']`, `_cache['vertices']`, `_cache['faces']` -/
inductive Cch | evalpts | bbox | cp2d | cpCache | wCache | tess | cEval | cVerts | cFaces
  deriving DecidableEq, Repr

/-- three-valued abstract state of one cache -/
inductive St | empty | fresh | stale
  deriving DecidableEq, Repr

inductive Ev | write (f : Fld) | clear (c : Cch) | fill (c : Cch)
  deriving DecidableEq, Repr

/-- the fields a cache's fresh value is a function of -/
def deps : Cch → List Fld
  | .evalpts => [.degree, .knots, .net, .sizes, .delta]
  | .bbox => [.net]
  | .cp2d => [.net, .sizes]
  | .cpCache => [.net]
  | .wCache => [.net]
  | .tess => [.degree, .knots, .net, .sizes, .delta, .trims]
  | .cEval => [.elems, .delta]
  | .cVerts => [.elems, .delta]
  | .cFaces => [.elems, .delta]

/-- caches that are never filled lazily by their getter (`ctrlpts2d` returns `_control_points2D`
    as it is): for these "empty" is only right while the net is empty, so a mutator has to leave
    them *fresh* if it found them fresh -/
def eager : Cch → Bool
  | .cp2d => true
  | _ => false

def allC : List Cch := [.evalpts, .bbox, .cp2d, .cpCache, .wCache, .tess, .cEval, .cVerts, .cFaces]

def Cch.idx : Cch → Nat
  | .evalpts => 0 | .bbox => 1 | .cp2d => 2 | .cpCache => 3 | .wCache => 4 | .tess => 5
  | .cEval => 6 | .cVerts => 7 | .cFaces => 8

abbrev AState := Cch → St

/-- effect of one event on the abstract state of cache `c` (caches evolve independently) -/
def stepC (c : Cch) (s : St) : Ev → St
  | .write f => if f ∈ deps c ∧ s = .fresh then .stale else s
  | .clear c' => if c = c' then .empty else s
  | .fill c' => if c = c' then .fresh else s

def absStep (σ : AState) (e : Ev) : AState := fun c => stepC c (σ c) e

def absRun (evs : List Ev) (σ : AState) : AState := evs.foldl absStep σ

/-- no cache among `cs` (the caches an object of the class has) is stale -/
def noStaleOn (cs : List Cch) (σ : AState) : Bool := cs.all (fun c => σ c != .stale)

def noStale (σ : AState) : Bool := noStaleOn allC σ

/-- all 2^9 stale-free start states (bit `i` of `n` = cache number `i` is filled and fresh) -/
def startOf (n : Nat) : AState := fun c => if (n >>> c.idx) % 2 = 1 then St.fresh else St.empty

def starts : List AState := (List.range 512).map startOf

/-- run of one cache from one start value -/
def runC (c : Cch) (s : St) (evs : List Ev) : St := evs.foldl (stepC c) s

/-- The check of one extracted path for a class with caches `cs`: from an empty and from a fresh
    start, no cache of the class ends stale.  (Because caches evolve independently this is the same
    as running all stale-free start states – `Eff.pathOk_preserves`, `Eff.pathOk_starts` – but costs
    2·|cs| single-cache runs instead of 512·9.) -/
def pathOkOn (cs : List Cch) (evs : List Ev) : Bool :=
  cs.all (fun c => [St.empty, St.fresh].all (fun s => runC c s evs != .stale))

def pathOk (evs : List Ev) : Bool := pathOkOn allC evs

/-- eager caches found fresh are left fresh -/
def eagerOkOn (cs : List Cch) (evs : List Ev) : Bool :=
  cs.all (fun c => !eager c || runC c .fresh evs == .fresh)

/-- one public operation of one class: the caches objects of the class have, the event paths that
    return normally and the ones that end in an explicit `raise` -/
structure OpSummary where
  cls : String
  op : String
  caches : List Cch
  paths : List (List Ev)
  raising : List (List Ev)
  deriving Repr

/-- all paths of the operation (normal and raising) -/
def OpSummary.all (s : OpSummary) : List (List Ev) := s.paths ++ s.raising

def OpSummary.ok (s : OpSummary) : Bool :=
  s.all.all (pathOkOn s.caches) && s.paths.all (eagerOkOn s.caches)

/-! ### concrete model the abstraction is sound for -/

/-- an object: field values and cache contents (values are opaque – `Nat` codes) -/
structure Obj where
  fields : Fld → Nat
  caches : Cch → Option Nat

/-- concrete execution of one event; a write stores the given value, a fill stores the value
    `fresh c` computes from the *current* fields -/
def cstep (fresh : Cch → (Fld → Nat) → Nat) (o : Obj) : Ev × Nat → Obj
  | (.write f, v) => { o with fields := fun g => if g = f then v else o.fields g }
  | (.clear c, _) => { o with caches := fun d => if d = c then none else o.caches d }
  | (.fill c, _) => { o with caches := fun d => if d = c then some (fresh c o.fields) else o.caches d }

def crun (fresh : Cch → (Fld → Nat) → Nat) (evs : List (Ev × Nat)) (o : Obj) : Obj :=
  evs.foldl (cstep fresh) o

/-- every non-empty cache (of the class) holds what a freshly built object with the same fields reports -/
def InvOn (cs : List Cch) (fresh : Cch → (Fld → Nat) → Nat) (o : Obj) : Prop :=
  ∀ c, c ∈ cs → o.caches c = none ∨ o.caches c = some (fresh c o.fields)

def Inv (fresh : Cch → (Fld → Nat) → Nat) (o : Obj) : Prop := InvOn allC fresh o

/-- `fresh c` looks at the fields in `deps c` only -/
def DepsOnly (fresh : Cch → (Fld → Nat) → Nat) : Prop :=
  ∀ c φ ψ, (∀ f, f ∈ deps c → φ f = ψ f) → fresh c φ = fresh c ψ

end Eff
