/-
  Object-level model: the definition of a spline shape (what BSpline/NURBS Curve/Surface/Volume are
  built from) and `operations.insert_knot` on it.
-/
import NurbsVerif.Model.Knots

namespace Geomdl
section
variable {K : Type} [Add K] [Sub K] [Mul K] [Div K] [Neg K] [Zero K] [One K] [NatCast K]
  [LT K] [LE K] [DecidableRel (α := K) (· < ·)] [DecidableRel (α := K) (· ≤ ·)] [DecidableEq K]

/-- degrees, knot vectors and sizes per parametric direction (1, 2 or 3 of them), flat net
    (homogeneous points when `rat`) -/
structure Shape (K : Type) where
  rat : Bool
  degs : List Nat
  kvs : List (List K)
  sizes : List Nat
  net : List (List K)

def Shape.pdim (S : Shape K) : Nat := S.degs.length
def Shape.deg (S : Shape K) (d : Nat) : Nat := S.degs.getD d 0
def Shape.kv (S : Shape K) (d : Nat) : List K := S.kvs.getD d []
def Shape.size (S : Shape K) (d : Nat) : Nat := S.sizes.getD d 0

/-- apply a curve-level net transformation along direction `dir` -/
def Shape.mapDir (S : Shape K) (dir : Nat) (f : List (List K) → List (List K)) : List (List K) × Nat :=
  if S.pdim = 1 then let q := f S.net; (q, q.length)
  else if S.pdim = 2 then
    (if dir = 0 then mapSurfU (S.size 0) (S.size 1) S.net f else mapSurfV (S.size 0) (S.size 1) S.net f)
  else mapVol dir (S.size 0) (S.size 1) (S.size 2) S.net f

/-- one direction of `operations.insert_knot`; `none` = the GeomdlException of the multiplicity check -/
def insertKnotDir (S : Shape K) (dir : Nat) (u : K) (r : Nat) (tol : K) (check : Bool) : Option (Shape K) :=
  let p := S.deg dir
  let U := S.kv dir
  let s := findMultiplicity u U tol
  if check ∧ r + s > p then none
  else
    let span := findSpanLinear p (fnOf U) (S.size dir) u
    let res := S.mapDir dir (fun c => knotInsertion p (fnOf U) c u r s span)
    some { S with kvs := S.kvs.set dir (knotInsertionKv U u span r), sizes := S.sizes.set dir res.2, net := res.1 }

/-- `operations.insert_knot(obj, params, nums)`: directions in order; a `none` parameter or a zero
    count skips the direction.  Returns the object state and whether the call completed: when the
    multiplicity check of a later direction raises, the earlier directions have already been applied
    to the (mutable) object -/
def insertKnot (S : Shape K) (params : List (Option K)) (nums : List Nat) (tol : K) (check : Bool) : Shape K × Bool :=
  (List.range S.pdim).foldl (fun (acc : Shape K × Bool) d =>
    if acc.2 = false then acc else
      match params.getD d none with
      | none => acc
      | some u =>
        if nums.getD d 0 = 0 then acc
        else match insertKnotDir acc.1 d u (nums.getD d 0) tol check with
          | some S' => (S', true)
          | none => (acc.1, false)) (S, true)

end
end Geomdl
