/-
  A least-recently-used cache of any capacity in front of a function – the contract of
  `functools.lru_cache` that geomdl relies on (`GEOMDL_CACHE_SIZE` sets the capacity).
-/
namespace Geomdl
section
variable {α β : Type} [DecidableEq α]

structure LRU (α β : Type) where
  cap : Nat
  entries : List (α × β)      -- most recently used first

/-- a call through the cache: a hit returns the stored value and moves the entry to the front, a
    miss calls `f`, stores the value and evicts beyond the capacity -/
def LRU.call (f : α → β) (c : LRU α β) (x : α) : β × LRU α β :=
  match c.entries.find? (fun e => e.1 = x) with
  | some e => (e.2, { c with entries := (x, e.2) :: c.entries.filter (fun e' => e'.1 ≠ x) })
  | none => (f x, { c with entries := ((x, f x) :: c.entries).take c.cap })

/-- the answers to a sequence of calls -/
def LRU.run (f : α → β) : LRU α β → List α → List β
  | _, [] => []
  | c, x :: xs => let r := c.call f x; r.1 :: LRU.run f r.2 xs

end
end Geomdl
