/-
  Literal transcription of Algorithm A2.3 as coded in `helpers.basis_function_ders`
  (geomdl/helpers.py): the `ndu` table (basis values of all degrees in the upper triangle, knot
  differences in the lower one), the two alternating rows `a[s1]`, `a[s2]` with the `j1 / j2` window,
  the accumulation of `d`, and the final multiplication by `p!/(p-k)!`.

  The Python lists `ndu`, `a`, `ders` are updated in place; here a 2-D array is a function
  `Nat → Nat → K` wrapped in the structure `Arr2` (so that an array is a value that is computed once,
  not a partially applied function that is re-run at every look-up) and `arr[i][j] = v` is `upd2`.  Same loop order, same reads after writes, same
  guards.  The integer `rk = r - k` may be negative: the indices `rk + j` that the code actually uses
  are non-negative and written `r + j - k`; the tests `r >= k`, `rk >= -1`, `(r - 1) <= pk` are written
  without subtraction.  Guard (carried by the driver / the theorems): `order ≤ degree` – for larger
  orders the code indexes `ders[k]` out of range (all callers pass `min(degree, order)`).
-/
import NurbsVerif.Model.Basis

namespace Geomdl
section
variable {K : Type} [Add K] [Sub K] [Mul K] [Div K] [Neg K] [Zero K] [One K] [NatCast K]

/-- a 2-D array viewed as a function of the two indices -/
structure Arr2 (K : Type) where
  get : Nat → Nat → K

/-- `arr[i][j] = v` -/
def upd2 (f : Arr2 K) (i j : Nat) (v : K) : Arr2 K :=
  ⟨fun a b => if a = i ∧ b = j then v else f.get a b⟩

/-- body of `for r in range(0, j)` of the `ndu` loop; the state is `(ndu, saved)` -/
def nduStep (L R : Nat → K) (j : Nat) (st : Arr2 K × K) (r : Nat) : Arr2 K × K :=
  let ndu1 := upd2 st.1 j r (R (r+1) + L (j - r))            -- lower triangle
  let temp := ndu1.get r (j-1) / ndu1.get j r
  (upd2 ndu1 r j (st.2 + R (r+1) * temp), L (j - r) * temp)    -- upper triangle, new `saved`

/-- one pass `j` of the outer loop: the inner loop, then `ndu[j][j] = saved` -/
def nduRow (L R : Nat → K) (ndu : Arr2 K) (j : Nat) : Arr2 K :=
  let st := (List.range j).foldl (nduStep L R j) (ndu, 0)
  upd2 st.1 j j st.2

/-- the table `ndu` after `for j in range(1, degree + 1)` (initially all `1.0`) -/
def nduTable (p : Nat) (U : Nat → K) (span : Nat) (u : K) : Arr2 K :=
  (List.range' 1 p).foldl (nduRow (left U span u) (right U span u)) ⟨fun _ _ => 1⟩

/-- the state of the derivative loops: the two rows `a`, the row selectors, the output table -/
structure A23State (K : Type) where
  a : Arr2 K
  s1 : Nat
  s2 : Nat
  ders : Arr2 K

/-- body of `for j in range(j1, j2 + 1)`; the state is `(a, d)` -/
def a23Mid (p : Nat) (ndu : Arr2 K) (r k s1 s2 : Nat) (ad : Arr2 K × K) (j : Nat) : Arr2 K × K :=
  let v := (ad.1.get s1 j - ad.1.get s1 (j-1)) / ndu.get (p - k + 1) (r + j - k)
  (upd2 ad.1 s2 j v, ad.2 + v * ndu.get (r + j - k) (p - k))

/-- body of `for k in range(1, order + 1)` -/
def a23K (p : Nat) (ndu : Arr2 K) (r : Nat) (st : A23State K) (k : Nat) : A23State K :=
  let pk := p - k
  let ad1 : Arr2 K × K :=
    if k ≤ r then                                            -- `if r >= k`
      let v := st.a.get st.s1 0 / ndu.get (pk + 1) (r - k)
      (upd2 st.a st.s2 0 v, v * ndu.get (r - k) pk)
    else (st.a, 0)
  let j1 := if k ≤ r + 1 then 1 else k - r                   -- `if rk >= -1: j1 = 1 else: j1 = -rk`
  let j2 := if r + k ≤ p + 1 then k - 1 else p - r           -- `if (r - 1) <= pk: j2 = k - 1 else: j2 = degree - r`
  let ad2 := (List.range' j1 (j2 + 1 - j1)).foldl (a23Mid p ndu r k st.s1 st.s2) ad1
  let ad3 : Arr2 K × K :=
    if r ≤ pk then                                           -- `if r <= pk`
      let v := -(ad2.1.get st.s1 (k - 1)) / ndu.get (pk + 1) r
      (upd2 ad2.1 st.s2 k v, ad2.2 + v * ndu.get r pk)
    else ad2
  { a := ad3.1, s1 := st.s2, s2 := st.s1, ders := upd2 st.ders k r ad3.2 }

/-- body of `for r in range(0, degree + 1)` -/
def a23R (p order : Nat) (ndu : Arr2 K) (st : A23State K) (r : Nat) : A23State K :=
  (List.range' 1 order).foldl (a23K p ndu r)
    { a := upd2 st.a 0 0 1, s1 := 0, s2 := 1, ders := st.ders }

/-- body of the final loop: `ders[k][j] *= r` for all `j`, then `r *= (degree - k)` -/
def a23ScaleStep (p : Nat) (dr : Arr2 K × K) (k : Nat) : Arr2 K × K :=
  (⟨fun a b => if a = k ∧ b ≤ p then dr.1.get a b * dr.2 else dr.1.get a b⟩, dr.2 * (Nat.cast (p - k) : K))

/-- the table `ders` as a function, before it is returned -/
def a23Table (p : Nat) (U : Nat → K) (span : Nat) (u : K) (order : Nat) : Arr2 K :=
  let ndu := nduTable p U span u
  let st0 : A23State K :=
    { a := ⟨fun _ _ => 1⟩, s1 := 0, s2 := 1, ders := ⟨fun k j => if k = 0 then ndu.get j p else 0⟩ }
  let st := (List.range (p + 1)).foldl (a23R p order ndu) st0
  ((List.range' 1 order).foldl (a23ScaleStep p) (st.ders, (Nat.cast p : K))).1

/-- `helpers.basis_function_ders(degree, U, span, knot, order)` (A2.3), `order ≤ degree` -/
def basisFunsDersA23 (p : Nat) (U : Nat → K) (span : Nat) (u : K) (order : Nat) : List (List K) :=
  let T := a23Table p U span u order
  (List.range (min p order + 1)).map (fun k => (List.range (p + 1)).map (fun j => T.get k j))

end
end Geomdl
