/-
  The LIST-OF-ROWS branches of the knot helpers of geomdl/helpers.py, and the gather / scatter that
  `operations.insert_knot / remove_knot / refine_knotvector` wrap around them for VOLUMES.

  For a volume the operations do not push one iso-curve after the other through the helper: they build
  `cpt2d`, a list with one ROW per control-point index of the chosen direction – the row holds all the
  points of the net that have this index, i.e. one whole layer – and call the helper once.  The helper
  sees that `ctrlpts[0][0]` is not a number and runs its second branch, in which every statement on a
  point becomes a loop `for idx in range(len(row))` over the points of the row:

  * `knot_insertion`  : `temp[i][idx][:] = [alpha*e2 + (1-alpha)*e1 …]`                 → `knotInsertionRows`
                        (index form; the loops as coded are `knotInsertionRowsA51`, Model/InsertRowsA51.lean)
  * `knot_removal`    : `temp[ii][idx] = […]`, `temp[jj][idx] = […]`, the removability flag from the
                        FIRST point of the rows only (`temp[ii-1][0]` …)                   → `knotRemovalRows`
  * `knot_refinement` : `new_ctrlpts[idx-1][idx2] = [alpha*p1 + (1-alpha)*p2 …]` (A5.4) → `refineA54Rows`

  Conventions as in the point-branch models (`Knots.lean`, `Knots2.lean`, `RefineA54.lean`): a `for` is a
  fold / map over `List.range`, a `while` takes fuel, an in-place update returns the new list, reads are
  padded (`rowGet`, `ptsGet`).  A row is `List (List K)`; the rows are assumed RECTANGULAR (every row
  has `len(ctrlpts[0])` points – what `operations.*` build), so that `for idx in range(len(ctrlpts[0])):
  row[idx] = …` replaces the whole row.

  Object identity.  In the rows branch of `knot_removal` the statement `temp[jj][idx] = …` MUTATES the
  list object `temp[jj]`, and `temp[last - first + 2] = ctrlpts_new[last + 1]` (and `temp[0] =
  ctrlpts_new[first - 1]`) stores in `temp` the very list object that is a row of `ctrlpts_new`.  One
  removal step later that slot of `temp` is written by the sweep, which therefore changes a row of
  `ctrlpts_new` behind the back of the algorithm (the point branch rebinds `temp[jj] = […]` and has no
  such effect).  The model keeps the table `al` of pairs (slot of `temp`, index of `ctrlpts_new`) that
  hold the SAME object and writes through it; `ctrlpts_new[i] = list(temp[…])` stores a fresh copy and
  ends the sharing of slot `i`.  (Two slots of `temp` never share an object, and the rows of the input are
  distinct objects – `deepcopy` keeps them distinct.)  In `knot_insertion` every mutated object is a fresh
  `deepcopy`; in `knot_refinement` the mutated rows of the input are never read again (value semantics).
-/
import NurbsVerif.Model.Knots
import NurbsVerif.Model.Knots2
import NurbsVerif.Model.RefineA54
import NurbsVerif.Model.Layout

namespace Geomdl
section
variable {K : Type} [Add K] [Sub K] [Mul K] [Div K] [Neg K] [Zero K] [One K] [NatCast K]
  [LT K] [LE K] [DecidableRel (α := K) (· < ·)] [DecidableRel (α := K) (· ≤ ·)] [DecidableEq K]

/-- `rows[i]` (a row is a list of points) -/
def rowGet (R : List (List (List K))) (i : Nat) : List (List K) := R.getD i []

/-- the iso-curve number `c` of a list of rows: the `c`-th point of every row -/
def isoCol (c : Nat) (R : List (List (List K))) : List (List K) := R.map (fun row => ptsGet row c)

/-! ### `helpers.knot_insertion`, list-of-rows branch -/

/-- `for idx in range(len(a)): a[idx][:] = [f(e1, e2) for e1, e2 in zip(a[idx], b[idx])]` -/
def rowZip (f : K → K → K) (a b : List (List K)) : List (List K) :=
  (List.range a.length).map (fun idx => List.zipWith f (ptsGet a idx) (ptsGet b idx))

/-- the `temp` array before the first insertion: `temp[i] = deepcopy(ctrlpts[k - degree + i])` -/
def insTempInitRows (R : List (List (List K))) (k p s : Nat) : List (List (List K)) :=
  (List.range (p - s + 1)).map (fun i => rowGet R (k - p + i))

/-- insertion level `j`, rows branch: every point `temp[i][idx]` is blended with `temp[i+1][idx]` -/
def insTempStepRows (U : Nat → K) (u : K) (k p s j : Nat) (temp : List (List (List K))) : List (List (List K)) :=
  (List.range (p - j - s + 1)).map (fun i =>
      let alpha := insAlpha U u k i (k - p + j)
      rowZip (fun e1 e2 => alpha * e2 + (1 - alpha) * e1) (rowGet temp i) (rowGet temp (i+1)))
    ++ temp.drop (p - j - s + 1)

def insTempAtRows (U : Nat → K) (u : K) (R : List (List (List K))) (k p s : Nat) : Nat → List (List (List K))
  | 0 => insTempInitRows R k p s
  | j+1 => insTempStepRows U u k p s (j+1) (insTempAtRows U u R k p s j)

/-- `helpers.knot_insertion(p, U, rows, u, num=r, s=s, span=k)` when `rows[0][0]` is a point: the
    output array index by index, exactly as `knotInsertion` (same α's), every entry a row -/
def knotInsertionRows (p : Nat) (U : Nat → K) (R : List (List (List K))) (u : K) (r s k : Nat) :
    List (List (List K)) :=
  (List.range (R.length + r)).map (fun i =>
    if i + p ≤ k then rowGet R i
    else if i + p ≤ k + r then rowGet (insTempAtRows U u R k p s (i + p - k)) 0
    else if i + s < k then rowGet (insTempAtRows U u R k p s r) (i + p - k - r)
    else if i + s < k + r then rowGet (insTempAtRows U u R k p s (k + r - s - i)) (p - (k + r - s - i) - s)
    else rowGet R (i - r))

/-! ### `helpers.knot_removal`, list-of-rows branch (`is_volume`) -/

/-- working state: `ctrlpts_new`, `temp`, the sharing table and the loop indices -/
structure RemRowsSt (K : Type) where
  cp : List (List (List K))
  temp : List (List (List K))
  /-- `(y, x)`: `temp[y]` and `ctrlpts_new[x]` are the same list object -/
  al : List (Nat × Nat)
  i : Nat
  j : Nat
  ii : Nat
  jj : Nat

/-- `temp[y] = ctrlpts_new[x]` (the object itself, no copy) -/
def RemRowsSt.bindTemp (st : RemRowsSt K) (y x : Nat) : RemRowsSt K :=
  { st with temp := st.temp.set y (rowGet st.cp x), al := (y, x) :: st.al.filter (fun a => a.1 != y) }

/-- `for idx in range(m): temp[y][idx] = row[idx]` : mutates the object in slot `y`, hence every row of
    `ctrlpts_new` that is this object -/
def RemRowsSt.writeTemp (st : RemRowsSt K) (y : Nat) (row : List (List K)) : RemRowsSt K :=
  { st with temp := st.temp.set y row,
            cp := st.al.foldl (fun c a => if a.1 = y then c.set a.2 row else c) st.cp }

/-- `ctrlpts_new[x] = list(temp[y])` : a fresh list, slot `x` is no longer shared -/
def RemRowsSt.copyBack (st : RemRowsSt K) (x y : Nat) : RemRowsSt K :=
  { st with cp := st.cp.set x (rowGet st.temp y), al := st.al.filter (fun a => a.2 != x) }

/-- the `while j - i > t` sweep, rows branch (`m = len(ctrlpts[0])`) -/
def remSweepRows (U : Nat → K) (u : K) (p t m : Nat) : Nat → RemRowsSt K → RemRowsSt K
  | 0, st => st
  | fuel+1, st =>
    if st.i + t < st.j then
      let ai := alphaI U u p t st.i
      let aj := alphaJ U u p t st.j
      let ti := (List.range m).map (fun idx => List.zipWith (fun cpt x => (cpt - (1 - ai) * x) / ai)
        (ptsGet (rowGet st.cp st.i) idx) (ptsGet (rowGet st.temp (st.ii - 1)) idx))
      let s1 := st.writeTemp st.ii ti
      let tj := (List.range m).map (fun idx => List.zipWith (fun cpt x => (cpt - aj * x) / (1 - aj))
        (ptsGet (rowGet s1.cp st.j) idx) (ptsGet (rowGet s1.temp (st.jj + 1)) idx))
      let s2 := s1.writeTemp st.jj tj
      remSweepRows U u p t m fuel { s2 with i := st.i + 1, j := st.j - 1, ii := st.ii + 1, jj := st.jj - 1 }
    else st

/-- the copy-back loop `ctrlpts_new[i] = list(temp[i - first + 1]); ctrlpts_new[j] = list(temp[j - first + 1])` -/
def remCopyRows (first t : Nat) : Nat → Nat → Nat → RemRowsSt K → RemRowsSt K
  | 0, _, _, st => st
  | fuel+1, i, j, st =>
    if i + t < j then
      let s1 := st.copyBack i (i - first + 1)
      let s2 := s1.copyBack j (j - first + 1)
      remCopyRows first t fuel (i + 1) (j - 1) s2
    else st

/-- the removability flag of step `t` after the sweep: computed from the FIRST point of the rows only -/
def remFlagRows (U : Nat → K) (u : K) (p t : Nat) (tol2 : K) (sw : RemRowsSt K) : Bool :=
  if sw.j < sw.i + t then
    decide (sqDist (ptsGet (rowGet sw.temp (sw.ii - 1)) 0) (ptsGet (rowGet sw.temp (sw.jj + 1)) 0) ≤ tol2)
  else
    let ai := alphaI U u p t sw.i
    let ptn := List.zipWith (fun t1 t2 => ai * t1 + (1 - ai) * t2)
      (ptsGet (rowGet sw.temp (sw.ii + t + 1)) 0) (ptsGet (rowGet sw.temp (sw.ii - 1)) 0)
    decide (sqDist (ptsGet (rowGet sw.cp sw.i) 0) ptn ≤ tol2)

/-- one removal step `t`, rows branch (state, `first`, `last`) -/
def remStepRows (U : Nat → K) (u : K) (p m : Nat) (tol2 : K)
    (st : RemRowsSt K × Nat × Nat) (t : Nat) : RemRowsSt K × Nat × Nat :=
  let first := st.2.1
  let last := st.2.2
  let s0 := (st.1.bindTemp 0 (first - 1)).bindTemp (last - first + 2) (last + 1)
  let sw := remSweepRows U u p t m (p + 2) { s0 with i := first, j := last, ii := 1, jj := last - first + 1 }
  let s' := if remFlagRows U u p t tol2 sw then remCopyRows first t (p + 2) first last sw else sw
  (s', first - 1, last + 1)

/-- `helpers.knot_removal(p, U, rows, u, num=num, s=s, span=r)` when `rows[0][0]` is a point (repaired
    code), as coded: one sweep over whole rows, ONE removability flag per step taken from the first
    point of the rows, object sharing between `temp` and `ctrlpts_new` -/
def knotRemovalRows (p : Nat) (U : Nat → K) (R : List (List (List K))) (u : K) (num s r : Nat) (tol2 : K) :
    List (List (List K)) :=
  if num = 0 then R else
  let m := (R.headD []).length
  let st0 : RemRowsSt K := { cp := R, temp := List.replicate (2 * p + 1) (List.replicate m []), al := [],
                             i := 0, j := 0, ii := 0, jj := 0 }
  let st := (List.range num).foldl (remStepRows U u p m tol2) (st0, r - p, r - s)
  let cp := st.1.cp
  let t := num
  let j0 := (2 * r - s - p) / 2
  let i := j0 + t / 2
  let j := j0 - (t - 1) / 2
  let shifted := (List.range (R.length - (i + 1))).foldl
    (fun (c : List (List (List K))) k => c.set (j + k) (rowGet c (i + 1 + k))) cp
  shifted.take (R.length - t)

/-! ### `helpers.knot_refinement`, A5.4 loops, list-of-rows branch -/

structure A54RowsSt (K : Type) where
  kv : List K
  cp : List (List (List K))
  i : Nat
  k : Nat

def a54ShiftRows (p : Nat) (U : Nat → K) (R : List (List (List K))) (x : K) (a : Nat) :
    Nat → A54RowsSt K → A54RowsSt K
  | 0, st => st
  | fuel+1, st =>
    if x ≤ U st.i ∧ a < st.i then
      a54ShiftRows p U R x a fuel
        { cp := st.cp.set (st.k - p - 1) (rowGet R (st.i - p - 1)),
          kv := st.kv.set st.k (U st.i),
          k := st.k - 1, i := st.i - 1 }
    else st

/-- one pass of `for l in range(1, degree + 1)`, rows branch: `for idx2 in range(len(ctrlpts[0]))` -/
def a54BlendRows (p m : Nat) (U : Nat → K) (x tol : K) (kv : List K) (i k : Nat) (cp : List (List (List K)))
    (l0 : Nat) : List (List (List K)) :=
  let l := l0 + 1
  let idx := k - p + l
  let alpha := kv.getD (k + l) 0 - x
  if absK alpha < tol then cp.set (idx - 1) (rowGet cp idx)
  else
    let alpha := alpha / (kv.getD (k + l) 0 - U (i - p + l))
    cp.set (idx - 1) ((List.range m).map (fun idx2 =>
      List.zipWith (fun p1 p2 => alpha * p1 + (1 - alpha) * p2)
        (ptsGet (rowGet cp (idx - 1)) idx2) (ptsGet (rowGet cp idx) idx2)))

def a54OuterRows (p m : Nat) (U : Nat → K) (R : List (List (List K))) (a : Nat) (tol : K) (fuel : Nat)
    (st : A54RowsSt K) (x : K) : A54RowsSt K :=
  let s1 := a54ShiftRows p U R x a fuel st
  let cp1 := s1.cp.set (s1.k - p - 1) (rowGet s1.cp (s1.k - p))
  let cp2 := (List.range p).foldl (a54BlendRows p m U x tol s1.kv s1.i s1.k) cp1
  { kv := s1.kv.set s1.k x, cp := cp2, i := s1.i, k := s1.k - 1 }

def a54LoopRows (p m : Nat) (U : Nat → K) (R : List (List (List K))) (X : List K) (a : Nat) (tol : K) (fuel : Nat) :
    Nat → A54RowsSt K → A54RowsSt K
  | 0, st => st
  | j+1, st => a54LoopRows p m U R X a tol fuel j (a54OuterRows p m U R a tol fuel st (X.getD j 0))

def a54InitRows (p : Nat) (U : List K) (R : List (List (List K))) (X : List K) : A54RowsSt K × Nat :=
  let r := X.length - 1
  let n := R.length - 1
  let m := n + p + 1
  let w := (R.headD []).length
  let a := findSpanLinear p (fnOf U) (n + 1) (X.getD 0 0)
  let b := findSpanLinear p (fnOf U) (n + 1) (X.getD r 0) + 1
  let cp0 : List (List (List K)) := List.replicate (n + r + 2) (List.replicate w [])
  let cp1 := (List.range (a - p + 1)).foldl (fun c j => c.set j (rowGet R j)) cp0
  let cp2 := (List.range' (b - 1) (n + 1 - (b - 1))).foldl (fun c j => c.set (j + r + 1) (rowGet R j)) cp1
  let kv0 : List K := List.replicate (m + r + 2) 0
  let kv1 := (List.range (a + 1)).foldl (fun c j => c.set j (fnOf U j)) kv0
  let kv2 := (List.range' (b + p) (m + 1 - (b + p))).foldl (fun c j => c.set (j + r + 1) (fnOf U j)) kv1
  ({ kv := kv2, cp := cp2, i := b + p - 1, k := b + p + r }, a)

/-- **A5.4 as coded, rows branch**: `helpers.knot_refinement` from "Initialize common variables" to the
    `return` when `ctrlpts[0][0]` is a point, for the already computed non-empty list `X` -/
def refineA54Rows (p : Nat) (U : List K) (R : List (List (List K))) (X : List K) (tol : K) :
    List K × List (List (List K)) :=
  let init := a54InitRows p U R X
  let st := a54LoopRows p (R.headD []).length (fnOf U) R X init.2 tol (U.length + 1) X.length init.1
  (st.kv, st.cp)

/-- the whole helper call with rows: `X` as the code computes it, then A5.4 as coded (rows branch) -/
def knotRefinementRows (p : Nat) (U : List K) (R : List (List (List K))) (kl : Option (List K)) (add : List K)
    (density : Nat) (tol : K) : Option (List K × List (List (List K))) :=
  let X := refineXOf p U kl add density tol
  if X.isEmpty then none else some (refineA54Rows p U R X tol)

/-! ### the gather / scatter of `operations.insert_knot / remove_knot / refine_knotvector` (volumes) -/

/-- `cpt2d`: one row per index of direction `dir`
    (`u`: `for w: for v:`, `v`: `for w: for u:`, `w`: `for uv in range(su*sv)`), flat index as coded -/
def volRows (dir su sv sw : Nat) (P : List (List K)) : List (List (List K)) :=
  if dir = 0 then (List.range su).map (fun u => tab2 sw sv (fun w v => ptsGet P (v + u * sv + w * su * sv)))
  else if dir = 1 then (List.range sv).map (fun v => tab2 sw su (fun w u => ptsGet P (v + u * sv + w * su * sv)))
  else (List.range sw).map (fun w => (List.range (su * sv)).map (fun uv => ptsGet P (uv + w * su * sv)))

/-- "Flatten to 1-dimensional structure" for a result with `n'` rows -/
def volUnrows (dir su sv sw n' : Nat) (R : List (List (List K))) : List (List K) :=
  if dir = 0 then tab3 sw n' sv (fun w u v => ptsGet (rowGet R u) (v + w * sv))
  else if dir = 1 then tab3 sw su n' (fun w u v => ptsGet (rowGet R v) (u + w * su))
  else (List.range n').flatMap (fun w => rowGet R w)

/-- gather, ONE helper call on the list of rows, scatter; returns the new net and the new size -/
def mapVolRows (dir su sv sw : Nat) (P : List (List K)) (F : List (List (List K)) → List (List (List K))) :
    List (List K) × Nat :=
  let R' := F (volRows dir su sv sw P)
  (volUnrows dir su sv sw R'.length R', R'.length)

/-- one direction of `operations.insert_knot` on a VOLUME, computed the way the code does it (rows) -/
def insertKnotVolRows (S : Shape K) (dir : Nat) (u : K) (r : Nat) (tol : K) (check : Bool) : Option (Shape K) :=
  let p := S.deg dir
  let U := S.kv dir
  let s := findMultiplicity u U tol
  if check ∧ r + s > p then none
  else
    let span := findSpanLinear p (fnOf U) (S.size dir) u
    let res := mapVolRows dir (S.size 0) (S.size 1) (S.size 2) S.net
      (fun R => knotInsertionRows p (fnOf U) R u r s span)
    some { S with kvs := S.kvs.set dir (knotInsertionKv U u span r), sizes := S.sizes.set dir res.2, net := res.1 }

/-- one direction of `operations.remove_knot` on a VOLUME, computed the way the code does it (rows) -/
def removeKnotVolRows (S : Shape K) (dir : Nat) (u : K) (num : Nat) (tol tol2 : K) (check : Bool) : Option (Shape K) :=
  let p := S.deg dir
  let U := S.kv dir
  let s := findMultiplicity u U tol
  if check ∧ num > s then none
  else
    let span := findSpanLinear p (fnOf U) (S.size dir) u
    let res := mapVolRows dir (S.size 0) (S.size 1) (S.size 2) S.net
      (fun R => knotRemovalRows p (fnOf U) R u num s span tol2)
    some { S with kvs := S.kvs.set dir (knotRemovalKv U span num), sizes := S.sizes.set dir res.2, net := res.1 }

/-- one direction of `operations.refine_knotvector` on a VOLUME, computed the way the code does it:
    the list `X`, then A5.4 as coded on the list of rows; `none` = "Cannot refine knot vector" -/
def refineVolRows (S : Shape K) (dir density : Nat) (tol : K) : Option (Shape K) :=
  let p := S.deg dir
  let U := S.kv dir
  let X := refineX p U density tol
  if X.isEmpty then none
  else
    let R := volRows dir (S.size 0) (S.size 1) (S.size 2) S.net
    let res := refineA54Rows p U R X tol
    some { S with kvs := S.kvs.set dir res.1, sizes := S.sizes.set dir res.2.length,
                  net := volUnrows dir (S.size 0) (S.size 1) (S.size 2) res.2.length res.2 }

end
end Geomdl
