/-
  Model of the weight handling of geomdl (C09):

  * `compatibility.combine_ctrlpts_weights / separate_ctrlpts_weights`,
    `generate_ctrlptsw(2d) / generate_ctrlpts(2d)_weights`;
  * the three control-point views of `NURBS.Curve / Surface / Volume` (`ctrlptsw` = the stored
    homogeneous net, `ctrlpts` and `weights` = lazily filled caches) with their setters, and the
    curve's `reverse` as REPAIRED (finding F-12a: it goes through `set_ctrlpts`, which clears the
    caches); `nReversePinned` is the pinned behaviour, kept for the refutation;
  * `convert.bspline_to_nurbs / nurbs_to_bspline` (control-net part);
  * `CPGen.GridWeighted` as REPAIRED (finding F-09: each grid point is multiplied by its own weight
    `weights[j + i * len_v]`, the weight setter clears the cache, and a list with any non-positive
    entry is rejected); `gridWeightedPinned`, `gwSetPinned` are the pinned behaviour.

  Python's `zip` truncation is kept (`List.zipWith`).  Where Python raises (`ptw[-1]` of an empty
  point, division by a zero weight, failed validation) the functions below return a default and the
  guard is carried by the driver (`ERR`) / by the hypotheses of the theorems.
-/
import NurbsVerif.Model.Basis

namespace Geomdl
section
variable {K : Type} [Add K] [Sub K] [Mul K] [Div K] [Neg K] [Zero K] [One K] [NatCast K]
  [LT K] [LE K] [DecidableRel (α := K) (· < ·)] [DecidableRel (α := K) (· ≤ ·)] [DecidableEq K]

/-! ### list helpers (`geomdl/compatibility.py`) -/

/-- `temp = [c * w for c in pt]; temp.append(w)` -/
def weighPt (pt : List K) (w : K) : List K := pt.map (· * w) ++ [w]

/-- `combine_ctrlpts_weights(ctrlpts, weights)`: `for pt, w in zip(ctrlpts, weights)` -/
def combine (P : List (List K)) (w : List K) : List (List K) := List.zipWith weighPt P w

/-- `combine_ctrlpts_weights(ctrlpts, None)`: a weights vector of ones -/
def combineUnit (P : List (List K)) : List (List K) := combine P (List.replicate P.length 1)

/-- `[pw / ptw[-1] for pw in ptw[:-1]]` -/
def unweighPt (ptw : List K) : List K := ptw.dropLast.map (· / ptw.getLastD 0)

/-- `separate_ctrlpts_weights(ctrlptsw)` = `[ctrlpts, weights]` -/
def separate (Pw : List (List K)) : List (List K) × List K :=
  (Pw.map unweighPt, Pw.map (fun ptw => ptw.getLastD 0))

/-- one point of `generate_ctrlptsw`: `(x, y, z, w) ↦ (x*w, y*w, z*w, w)`
    (`temp = [pt * cpt[-1] for pt in cpt]; temp[-1] = cpt[-1]`) -/
def toWeighted (cpt : List K) : List K := cpt.dropLast.map (· * cpt.getLastD 0) ++ [cpt.getLastD 0]

/-- one point of `generate_ctrlpts_weights`: `(x*w, y*w, z*w, w) ↦ (x, y, z, w)` -/
def toUnweighted (cpt : List K) : List K := cpt.dropLast.map (· / cpt.getLastD 0) ++ [cpt.getLastD 0]

def genCtrlptsw (P : List (List K)) : List (List K) := P.map toWeighted
def genCtrlptsWeights (Pw : List (List K)) : List (List K) := Pw.map toUnweighted
def genCtrlptsw2d (P : List (List (List K))) : List (List (List K)) := P.map genCtrlptsw
def genCtrlpts2dWeights (Pw : List (List (List K))) : List (List (List K)) := Pw.map genCtrlptsWeights

/-! ### the three views of a rational shape (`geomdl/NURBS.py`) -/

/-- `_control_points` (homogeneous), `_cache['ctrlpts']`, `_cache['weights']` -/
structure NState (K : Type) where
  net : List (List K)
  cP : List (List K)
  cW : List K

/-- a freshly constructed object -/
def NState.init : NState K := ⟨[], [], []⟩

/-- `c, w = separate_ctrlpts_weights(self._control_points)`; both caches are filled at once -/
def nFill (s : NState K) : NState K := { s with cP := (separate s.net).1, cW := (separate s.net).2 }

/-- `ctrlpts` getter: `if not self._cache['ctrlpts']: fill`; returns the cache -/
def nGetP (s : NState K) : NState K × List (List K) :=
  let s' := if s.cP.isEmpty then nFill s else s
  (s', s'.cP)

/-- `weights` getter: `if not self._cache['weights']: fill`; returns the cache -/
def nGetW (s : NState K) : NState K × List K :=
  let s' := if s.cW.isEmpty then nFill s else s
  (s', s'.cW)

/-- `ctrlptsw` getter -/
def nGetPw (s : NState K) : List (List K) := s.net

/-- `set_ctrlpts(ctrlptsw, …)` after successful validation: `reset(ctrlpts=True)` empties the
    stored net and both caches, then the new net is stored -/
def nSetPw (_s : NState K) (Pw : List (List K)) : NState K := ⟨Pw, [], []⟩

/-- `ctrlpts` setter: existing weights if there are any, else ones; combine; `set_ctrlpts` -/
def nSetP (s : NState K) (P : List (List K)) : NState K :=
  let (s1, w) := nGetW s
  let w' := if w.isEmpty then List.replicate P.length 1 else w
  nSetPw s1 (combine P w')

/-- `weights` setter: `if not self.ctrlpts: raise ValueError` (`none`); combine; `set_ctrlpts` -/
def nSetW (s : NState K) (w : List K) : Option (NState K) :=
  let (s1, P) := nGetP s
  if P.isEmpty then none else some (nSetPw s1 (combine P w))

/-- `Curve.reverse` (control-point part) as repaired: `self.set_ctrlpts(list(reversed(net)))` -/
def nReverse (s : NState K) : NState K := nSetPw s s.net.reverse

/-- pinned `reverse`: overwrites `_control_points`, both caches stay as they are -/
def nReversePinned (s : NState K) : NState K := { s with net := s.net.reverse }

inductive NOp (K : Type) where
  | setP (P : List (List K))
  | setW (w : List K)
  | setPw (Pw : List (List K))
  | getP
  | getW
  | getPw
  | reverse

inductive NOut (K : Type) where
  | pts (P : List (List K))
  | ws (w : List K)
  | unit

/-- one public operation; `none` = the operation raises -/
def nStep (s : NState K) : NOp K → Option (NState K × NOut K)
  | .setP P => some (nSetP s P, .unit)
  | .setW w => (nSetW s w).map (fun s' => (s', .unit))
  | .setPw Pw => some (nSetPw s Pw, .unit)
  | .getP => let (s', P) := nGetP s; some (s', .pts P)
  | .getW => let (s', w) := nGetW s; some (s', .ws w)
  | .getPw => some (s, .pts (nGetPw s))
  | .reverse => some (nReverse s, .unit)

/-- a history of operations from a state; outputs in order; `none` as soon as one raises -/
def nRun : NState K → List (NOp K) → Option (NState K × List (NOut K))
  | s, [] => some (s, [])
  | s, op :: ops =>
    match nStep s op with
    | none => none
    | some (s', o) => (nRun s' ops).map (fun r => (r.1, o :: r.2))

/-! ### `convert.bspline_to_nurbs` / `nurbs_to_bspline` (control nets) -/

/-- B-spline → NURBS: the `ctrlpts` setter of a fresh rational object (no weights yet → ones) -/
def bsplineToNurbs (P : List (List K)) : List (List K) := (nSetP NState.init P).net

/-- NURBS → B-spline: `none` ("cannot extract", the object itself is returned) when a weight is
    further than `tol` from 1, else the unweighted control points -/
def nurbsToBspline (tol : K) (Pw : List (List K)) : Option (List (List K)) :=
  if (separate Pw).2.any (fun w => decide (tol < absK (w - 1))) then none else some (separate Pw).1

/-! ### `CPGen.GridWeighted` -/

/-- `GridWeighted.grid` as repaired: row `idx`, column `jdx` gets `weights[jdx + idx * len_v]`,
    `len_v = len(grid[0])` -/
def gridWeighted (G : List (List (List K))) (w : List K) : List (List (List K)) :=
  let lenV := (G.headD []).length
  G.zipIdx.map (fun (cols, idx) => cols.zipIdx.map (fun (pt, jdx) => weighPt pt (w.getD (jdx + idx * lenV) 0)))

/-- pinned: every point of row `idx` gets `weights[idx]` -/
def gridWeightedPinned (G : List (List (List K))) (w : List K) : List (List (List K)) :=
  G.zipIdx.map (fun (cols, idx) => cols.map (fun pt => weighPt pt (w.getD idx 0)))

/-- grid points, weights, `_cache['gridptsw']` -/
structure GState (K : Type) where
  grid : List (List (List K))
  w : List K
  cache : List (List (List K))

/-- number of grid points, `len(self)` -/
def GState.count (s : GState K) : Nat := s.grid.length * (s.grid.headD []).length

/-- `weight` setter with a list, as repaired: length and positivity of EVERY entry are checked
    (`none` = ValueError), the weights are stored and the cache is emptied -/
def gwSet (s : GState K) (w : List K) : Option (GState K) :=
  if s.grid.isEmpty ∨ w.length ≠ s.count ∨ w.any (fun x => decide (x ≤ 0)) then none
  else some { s with w := w, cache := [] }

/-- `weight` setter with a single number -/
def gwSetScalar (s : GState K) (x : K) : Option (GState K) :=
  if s.grid.isEmpty ∨ x ≤ 0 then none
  else some { s with w := List.replicate s.count x, cache := [] }

/-- pinned setter: rejects only when ALL entries are non-positive, keeps the cache -/
def gwSetPinned (s : GState K) (w : List K) : Option (GState K) :=
  if s.grid.isEmpty ∨ w.length ≠ s.count ∨ w.all (fun x => decide (x ≤ 0)) then none
  else some { s with w := w }

/-- `grid` getter: default weights of ones, fill the cache if it is empty, return it -/
def gwGet (s : GState K) : GState K × List (List (List K)) :=
  let w := if s.w.isEmpty then List.replicate s.count 1 else s.w
  let c := if s.cache.isEmpty then gridWeighted s.grid w else s.cache
  ({ s with w := w, cache := c }, c)

def gwGetPinned (s : GState K) : GState K × List (List (List K)) :=
  let w := if s.w.isEmpty then List.replicate s.count 1 else s.w
  let c := if s.cache.isEmpty then gridWeightedPinned s.grid w else s.cache
  ({ s with w := w, cache := c }, c)

end
end Geomdl
