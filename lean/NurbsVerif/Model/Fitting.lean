/-
  Model of geomdl/fitting.py: parametrisation (chord lengths / their square roots are inputs: they
  are square roots in the code), averaged knot vectors (Eq. 9.8, 9.68/9.69), the collocation
  matrix, global curve / surface interpolation and least-squares curve / surface approximation, on top of the
  LU model of geomdl/linalg.py.
-/
import NurbsVerif.Model.Basis
import NurbsVerif.Model.Knots
import NurbsVerif.Model.Linalg

namespace Geomdl
section
variable {K : Type} [Add K] [Sub K] [Mul K] [Div K] [Neg K] [Zero K] [One K] [NatCast K]
  [LT K] [LE K] [DecidableRel (α := K) (· < ·)] [DecidableRel (α := K) (· ≤ ·)] [DecidableEq K]

def sumL (l : List K) : K := l.foldl (· + ·) 0

/-- `compute_params_curve`: `cds` = the `n-1` chord lengths (or their square roots) -/
def computeParams (cds : List K) : List K :=
  let d := sumL cds
  (List.range (cds.length + 1)).map (fun i => sumL (cds.take i) / d)

/-- `compute_knot_vector(p, n, uk)` with `invp` = the double `1.0 / degree` -/
def computeKnotVector (p n : Nat) (uk : List K) (invp : K) : List K :=
  List.replicate (p + 1) 0
    ++ (List.range (n - p - 1)).map (fun i => invp * sumL ((List.range' (i + 1) p).map (fun j => uk.getD j 0)))
    ++ List.replicate (p + 1) 1

/-- `compute_knot_vector2(p, num_dpts, num_cpts, uk)`; `floorK` = `int(·)` on non-negative numbers -/
def computeKnotVector2 (p nd nc : Nat) (uk : List K) (floorK : K → Nat) : List K :=
  let d : K := (Nat.cast nd : K) / (Nat.cast (nc - p) : K)
  List.replicate (p + 1) 0
    ++ (List.range' 1 (nc - p - 1)).map (fun j =>
        let jd := (Nat.cast j : K) * d
        let i := floorK jd
        let alpha := jd - (Nat.cast i : K)
        (1 - alpha) * uk.getD (i - 1) 0 + alpha * uk.getD i 0)
    ++ List.replicate (p + 1) 1

/-- `_build_coeff_matrix`: row `i` holds the `p+1` basis functions of `uk[i]` at columns `span-p..span` -/
def buildCoeffMatrix (p : Nat) (U : Nat → K) (uk : List K) (n : Nat) : List (List K) :=
  uk.map (fun u =>
    let span := findSpanLinear p U n u
    let N := basisFuns p U span u
    (List.range n).map (fun j => if span - p ≤ j ∧ j ≤ span then N.getD (j - (span - p)) 0 else 0))

/-- `fitting.interpolate_curve`: knot vector and control points (`none` = the solver raised) -/
def interpolateCurve (p : Nat) (pts : List (List K)) (cds : List K) (invp : K) : Option (List K × List (List K)) :=
  let n := pts.length
  let uk := computeParams cds
  let kv := computeKnotVector p n uk invp
  match Lin.luSolve (buildCoeffMatrix p (fnOf kv) uk n) pts with
  | some cp => some (kv, cp)
  | none => none

/-- `compute_params_surface`: per-curve parameters averaged over the other direction -/
def averageParams (cdsList : List (List K)) (n : Nat) : List K :=
  let tabs := cdsList.map computeParams
  (List.range n).map (fun i => sumL (tabs.map (fun t => t.getD i 0)) / (Nat.cast cdsList.length : K))

/-- `fitting.interpolate_surface` (two passes of curve interpolation) -/
def interpolateSurface (pu pv su sv : Nat) (pts : List (List K)) (cdsU cdsV : List (List K)) (invpu invpv : K) :
    Option (List K × List K × List (List K)) :=
  let uk := averageParams cdsU su
  let vl := averageParams cdsV sv
  let kvu := computeKnotVector pu su uk invpu
  let kvv := computeKnotVector pv sv vl invpv
  let Au := buildCoeffMatrix pu (fnOf kvu) uk su
  let Av := buildCoeffMatrix pv (fnOf kvv) vl sv
  -- u direction: for each v, solve for the column of points
  let passU := Lin.allSome ((List.range sv).map (fun v =>
    Lin.luSolve Au ((List.range su).map (fun u => pts.getD (v + sv * u) []))))
  match passU with
  | none => none
  | some colsU =>
    let r : List (List K) := colsU.flatten          -- ctrlpts_r[u + su*v]
    let passV := Lin.allSome ((List.range su).map (fun u =>
      Lin.luSolve Av ((List.range sv).map (fun v => r.getD (u + su * v) []))))
    match passV with
    | none => none
    | some rows => some (kvu, kvv, rows.flatten)

/-- `fitting.approximate_curve` (Eqs. 9.63–9.67): interior control points from the normal equations -/
def approximateCurve (p : Nat) (pts : List (List K)) (cds : List K) (nc : Nat) (floorK : K → Nat) :
    Option (List K × List (List K)) :=
  let nd := pts.length
  let dim := (pts.headD []).length
  let uk := computeParams cds
  let kv := computeKnotVector2 p nd nc uk floorK
  let U := fnOf kv
  let m := kv.length
  let N : List (List K) := (List.range' 1 (nd - 2)).map (fun i =>
    (List.range' 1 (nc - 2)).map (fun j => basisFunOne p U m j (uk.getD i 0)))
  let NT := Lin.matrixTranspose N
  let NTN := Lin.matrixMultiply NT N
  let p0 := pts.headD []
  let pm := pts.getLastD []
  let rk : List (List K) := (List.range' 1 (nd - 2)).map (fun i =>
    let n0 := basisFunOne p U m 0 (uk.getD i 0)
    let nn := basisFunOne p U m (nc - 1) (uk.getD i 0)
    (List.range dim).map (fun c => (pts.getD i []).getD c 0 - p0.getD c 0 * n0 - pm.getD c 0 * nn))
  let R : List (List K) := (List.range' 1 (nc - 2)).map (fun i =>
    (List.range dim).map (fun c =>
      sumL ((List.range (nd - 2)).map (fun idx => (rk.getD idx []).getD c 0 * basisFunOne p U m i (uk.getD (idx + 1) 0)))))
  match Lin.luSolve NTN R with
  | none => none
  | some x => some (kv, [p0] ++ x ++ [pm])

/-- One least-squares pass (The NURBS Book Eqs. 9.63–9.67) as coded in `fitting.approximate_surface`
    (and, line by line, in `approximate_curve`) on ONE line of data points `pts` with parameters `uk`,
    knot function `U` over `m` knots, `nc` control points, `dim` coordinates: the first and the last
    data point are copied, the `nc − 2` interior control points come from `lu_solve` on `NᵀN`
    (`none` = the solver raised).  The code factorises `NᵀN` once per direction and substitutes per
    line and coordinate; the result is the same list. -/
def lsqPass (p : Nat) (U : Nat → K) (m : Nat) (uk : List K) (pts : List (List K)) (nc dim : Nat) :
    Option (List (List K)) :=
  let nd := pts.length
  let N : List (List K) := (List.range' 1 (nd - 2)).map (fun i =>
    (List.range' 1 (nc - 2)).map (fun j => basisFunOne p U m j (uk.getD i 0)))
  let NT := Lin.matrixTranspose N
  let NTN := Lin.matrixMultiply NT N
  let p0 := pts.headD []
  let pm := pts.getLastD []
  let rk : List (List K) := (List.range' 1 (nd - 2)).map (fun i =>
    let n0 := basisFunOne p U m 0 (uk.getD i 0)
    let nn := basisFunOne p U m (nc - 1) (uk.getD i 0)
    (List.range dim).map (fun c => (pts.getD i []).getD c 0 - p0.getD c 0 * n0 - pm.getD c 0 * nn))
  let R : List (List K) := (List.range' 1 (nc - 2)).map (fun i =>
    (List.range dim).map (fun c =>
      sumL ((List.range (nd - 2)).map (fun idx => (rk.getD idx []).getD c 0 * basisFunOne p U m i (uk.getD (idx + 1) 0)))))
  match Lin.luSolve NTN R with
  | none => none
  | some x => some ([p0] ++ x ++ [pm])

/-- `fitting.approximate_surface` (A9.7 as coded): parameters by `compute_params_surface` (chord lengths are
    inputs), `compute_knot_vector2` in both directions, then a least-squares pass in the u direction for
    each of the `sv` data columns (intermediate points `ctrlpts_tmp[j + sv·i]`, `i < ncu`), then a pass
    in the v direction for each of the `ncu` lines of intermediate points (`ctrlpts[j + ncv·i]`).
    `dim = len(points[0])`.  `none` = a solver call raised. -/
def approximateSurface (pu pv su sv : Nat) (pts : List (List K)) (cdsU cdsV : List (List K))
    (ncu ncv : Nat) (floorK : K → Nat) : Option (List K × List K × List (List K)) :=
  let dim := (pts.headD []).length
  let uk := averageParams cdsU su
  let vl := averageParams cdsV sv
  let kvu := computeKnotVector2 pu su ncu uk floorK
  let kvv := computeKnotVector2 pv sv ncv vl floorK
  -- u direction: for each data column j, fit the points `points[j + sv*i]`, `i < su`
  let passU := Lin.allSome ((List.range sv).map (fun j =>
    lsqPass pu (fnOf kvu) kvu.length uk ((List.range su).map (fun i => pts.getD (j + sv * i) [])) ncu dim))
  match passU with
  | none => none
  | some cols =>
    -- ctrlpts_tmp[j + sv*i] = i-th control point of column j
    let tmp : List (List K) := (List.range (ncu * sv)).map (fun k => (cols.getD (k % sv) []).getD (k / sv) [])
    let passV := Lin.allSome ((List.range ncu).map (fun i =>
      lsqPass pv (fnOf kvv) kvv.length vl ((List.range sv).map (fun j => tmp.getD (j + sv * i) [])) ncv dim))
    match passV with
    | none => none
    | some rows => some (kvu, kvv, rows.flatten)         -- ctrlpts[j + ncv*i]

end
end Geomdl
