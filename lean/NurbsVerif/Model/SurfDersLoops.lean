/-
  Literal transcriptions of the derivative evaluators of geomdl/evaluators.py, loop by loop:

  * `curveDersA32`   – `CurveEvaluator.derivatives`   (A3.2: loop over the rows of `basis_function_ders`),
  * `surfaceDersA36` – `SurfaceEvaluator.derivatives` (A3.6 as coded: `temp[s]`, `dd = min(deriv_order, d[1])`),
  * `surfaceDerivCptsA37` – `helpers.surface_deriv_cpts` (A3.7 as coded after the fix `a380c58`),
  * `surfaceDersA38` – `SurfaceEvaluator2.derivatives` (A3.8 as coded: `dd = min(deriv_order - k, d[1])`).

  Python's nested lists that are filled in place (`CK`, `temp`, `SKL`, `PKL`) are arrays viewed as
  functions of the indices, wrapped in a structure (`Arr1`, `Arr2`, `Arr4`; an assignment `a[i].. = v` is
  `upd1 / upd2 / upd4`), exactly as `ndu`, `a`, `ders` in `Model/BasisDers.lean`.  Same loop order, same
  accumulators, same reads after writes, same bounds.  `PKL` starts as `None` everywhere: its entries
  are `Option (List K)` and an entry that was never assigned is `none` (Python would raise `TypeError`
  when it is multiplied; `Lemmas/SurfLoopsA37.lean` proves that A3.8 reads assigned entries only).
  The calls `helpers.basis_function_ders`, `helpers.basis_function_all`, `helpers.curve_deriv_cpts` are
  the existing models `basisFunsDersA23`, `basisFunAll`, `curveDerivCpts` (the latter returns level `k`
  as the list of its `r - k + 1` assigned points; Python pads it with `None` points to `r + 1`).
-/
import NurbsVerif.Model.Eval
import NurbsVerif.Model.BasisDers
import NurbsVerif.Model.Degree

namespace Geomdl

/-- a 1-D array viewed as a function of the index -/
structure Arr1 (α : Type) where
  get : Nat → α

/-- `arr[i] = v` -/
def upd1 {α : Type} (f : Arr1 α) (i : Nat) (v : α) : Arr1 α :=
  ⟨fun a => if a = i then v else f.get a⟩

/-- a 4-D array viewed as a function of the indices -/
structure Arr4 (α : Type) where
  get : Nat → Nat → Nat → Nat → α

/-- `arr[k][l][i][j] = v` -/
def upd4 {α : Type} (f : Arr4 α) (k l i j : Nat) (v : α) : Arr4 α :=
  ⟨fun a b c e => if a = k ∧ b = l ∧ c = i ∧ e = j then v else f.get a b c e⟩

section
variable {K : Type} [Add K] [Sub K] [Mul K] [Div K] [Neg K] [Zero K] [One K] [NatCast K]
  [LT K] [LE K] [DecidableRel (α := K) (· < ·)] [DecidableRel (α := K) (· ≤ ·)] [DecidableEq K]

/-! ### A3.2 `CurveEvaluator.derivatives` -/

/-- body of `for j in range(0, degree + 1)`:
    `CK[k][:] = [drv + (bfunsders[k][j] * ctl_pt) for drv, ctl_pt in zip(CK[k], ctrlpts[span - degree + j])]` -/
def a32Step (p : Nat) (P : List (List K)) (span : Nat) (bfd : List (List K)) (k : Nat)
    (CK : Arr1 (List K)) (j : Nat) : Arr1 (List K) :=
  upd1 CK k (axpy ((bfd.getD k []).getD j 0) (CK.get k) (ptsGet P (span - p + j)))

/-- `CurveEvaluator.derivatives` on a given span (`CK[0..deriv_order]`) -/
def curveDersA32 (p : Nat) (U : Nat → K) (P : List (List K)) (span : Nat) (u : K) (order : Nat) :
    List (List K) :=
  let d := dimOf P
  let du := min p order
  let bfd := basisFunsDersA23 p U span u du
  let CK := (List.range (du + 1)).foldl (fun CK k =>
      (List.range (p + 1)).foldl (a32Step p P span bfd k) CK) (⟨fun _ => vzero d⟩ : Arr1 (List K))
  (List.range (order + 1)).map CK.get

/-! ### A3.6 `SurfaceEvaluator.derivatives` -/

/-- body of `for r in range(0, degree[0] + 1)` (inside `for s`):
    `temp[s][:] = [tmp + (basisdrv[0][k][r] * cp) for tmp, cp in zip(temp[s], ctrlpts[cv + (size[1] * cu)])]` -/
def a36TempStep (pu pv sv : Nat) (P : List (List K)) (spanU spanV : Nat) (bu : List (List K)) (k s : Nat)
    (temp : Arr1 (List K)) (r : Nat) : Arr1 (List K) :=
  let cu := spanU - pu + r
  let cv := spanV - pv + s
  upd1 temp s (axpy ((bu.getD k []).getD r 0) (temp.get s) (ptsGet P (cv + sv * cu)))

/-- the array `temp` after `for s in range(0, degree[1] + 1): for r in range(0, degree[0] + 1)` -/
def a36Temp (pu pv sv : Nat) (P : List (List K)) (spanU spanV : Nat) (bu : List (List K)) (d k : Nat) :
    Arr1 (List K) :=
  (List.range (pv + 1)).foldl (fun temp s =>
    (List.range (pu + 1)).foldl (a36TempStep pu pv sv P spanU spanV bu k s) temp) ⟨fun _ => vzero d⟩

/-- body of `for s in range(0, degree[1] + 1)` (inside `for l`):
    `SKL[k][l][:] = [elem + (basisdrv[1][l][s] * tmp) for elem, tmp in zip(SKL[k][l], temp[s])]` -/
def a36SklStep (bv : List (List K)) (temp : Arr1 (List K)) (k l : Nat) (SKL : Arr2 (List K)) (s : Nat) :
    Arr2 (List K) :=
  upd2 SKL k l (axpy ((bv.getD l []).getD s 0) (SKL.get k l) (temp.get s))

/-- body of `for k in range(0, d[0] + 1)`; `dd = min(deriv_order, d[1])` as coded (the book's
    `min(deriv_order - k, d[1])` is commented out in the source) -/
def a36K (pu pv sv : Nat) (P : List (List K)) (spanU spanV : Nat) (bu bv : List (List K)) (d order dv : Nat)
    (SKL : Arr2 (List K)) (k : Nat) : Arr2 (List K) :=
  let temp := a36Temp pu pv sv P spanU spanV bu d k
  let dd := min order dv
  (List.range (dd + 1)).foldl (fun SKL l =>
    (List.range (pv + 1)).foldl (a36SklStep bv temp k l) SKL) SKL

/-- the table `SKL` as an array, before it is returned -/
def a36Table (pu pv : Nat) (Uu Uv : Nat → K) (sv : Nat) (P : List (List K))
    (spanU spanV : Nat) (u v : K) (order : Nat) : Arr2 (List K) :=
  let d := dimOf P
  let du := min pu order
  let dv := min pv order
  let bu := basisFunsDersA23 pu Uu spanU u du
  let bv := basisFunsDersA23 pv Uv spanV v dv
  (List.range (du + 1)).foldl (a36K pu pv sv P spanU spanV bu bv d order dv) ⟨fun _ _ => vzero d⟩

/-- `SurfaceEvaluator.derivatives` on a given span pair: `SKL[0..deriv_order][0..deriv_order]` -/
def surfaceDersA36 (pu pv : Nat) (Uu Uv : Nat → K) (sv : Nat) (P : List (List K))
    (spanU spanV : Nat) (u v : K) (order : Nat) : List (List (List K)) :=
  let T := a36Table pu pv Uu Uv sv P spanU spanV u v order
  (List.range (order + 1)).map (fun k => (List.range (order + 1)).map (fun l => T.get k l))

/-! ### A3.7 `helpers.surface_deriv_cpts` -/

/-- body of `for i in range(0, r - k + 1)` of the copy loop: `PKL[k][0][i][j - ss[0]] = PKu[k][i]` -/
def a37CopyU (PKu : List (List (List K))) (jj k : Nat) (PKL : Arr4 (Option (List K))) (i : Nat) :
    Arr4 (Option (List K)) :=
  upd4 PKL k 0 i jj (some ((PKu.getD k []).getD i []))

/-- body of `for j in range(ss[0], ss[1] + 1)` (first loop); `jj = j - ss[0]` -/
def a37U (pu : Nat) (Uu : Nat → K) (su sv : Nat) (P : List (List K)) (r1 r2 s1 du : Nat)
    (PKL : Arr4 (Option (List K))) (jj : Nat) : Arr4 (Option (List K)) :=
  let j := s1 + jj
  let PKu := curveDerivCpts pu Uu ((List.range su).map (fun i => ptsGet P (j + sv * i))) r1 r2 du
  (List.range (du + 1)).foldl (fun PKL k =>
    (List.range (r2 - r1 - k + 1)).foldl (a37CopyU PKu jj k) PKL) PKL

/-- body of `for j in range(0, s - l + 1)` of the second copy loop: `PKL[k][l][i][j] = PKuv[l][j]` -/
def a37CopyV (PKuv : List (List (List K))) (k l i : Nat) (PKL : Arr4 (Option (List K))) (j : Nat) :
    Arr4 (Option (List K)) :=
  upd4 PKL k l i j (some ((PKuv.getD l []).getD j []))

/-- body of `for i in range(0, r - k + 1)` (second loop): `curve_deriv_cpts` of the row `PKL[k][0][i]`
    (`cpsize[1]` entries, the unassigned ones are `None` points) on the knot vector `kv[1][ss[0]:]` -/
def a37V (pv : Nat) (Uv : Nat → K) (sv s1 s2 order dv k : Nat)
    (PKL : Arr4 (Option (List K))) (i : Nat) : Arr4 (Option (List K)) :=
  let dd := min (order - k) dv
  let s := s2 - s1
  let PKuv := curveDerivCpts pv (fun x => Uv (s1 + x))
                ((List.range sv).map (fun j => (PKL.get k 0 i j).getD [])) 0 s dd
  (List.range' 1 dd).foldl (fun PKL l =>
    (List.range (s - l + 1)).foldl (a37CopyV PKuv k l i) PKL) PKL

/-- `helpers.surface_deriv_cpts(dim, degree, kv, cpts, cpsize, rs=(r1, r2), ss=(s1, s2), deriv_order)`
    (second loop `for k in range(0, du + 1)`: the repaired code) -/
def surfaceDerivCptsA37 (pu pv : Nat) (Uu Uv : Nat → K) (su sv : Nat) (P : List (List K))
    (r1 r2 s1 s2 order : Nat) : Arr4 (Option (List K)) :=
  let du := min pu order
  let dv := min pv order
  let PKL1 := (List.range (s2 - s1 + 1)).foldl (a37U pu Uu su sv P r1 r2 s1 du) ⟨fun _ _ _ _ => none⟩
  (List.range (du + 1)).foldl (fun PKL k =>
    (List.range (r2 - r1 - k + 1)).foldl (a37V pv Uv sv s1 s2 order dv k) PKL) PKL1

/-! ### A3.8 `SurfaceEvaluator2.derivatives` -/

/-- `basis[idx][j][q]` of `helpers.basis_function_all` (`None` → never read for `j ≤ q`) -/
def bfAllGet (N : List (List (Option K))) (j q : Nat) : K := ((N.getD j []).getD q none).getD 0

/-- body of `for j in range(0, degree[0] - k + 1)`:
    `temp[:] = [elem + (basis[0][j][degree[0] - k] * drv_ctl_p) for elem, drv_ctl_p in zip(temp, PKL[k][l][j][i])]` -/
def a38TempStep (pu : Nat) (Nu : List (List (Option K))) (PKL : Arr4 (Option (List K))) (k l i : Nat)
    (temp : List K) (j : Nat) : List K :=
  axpy (bfAllGet Nu j (pu - k)) temp ((PKL.get k l j i).getD [])

/-- body of `for i in range(0, degree[1] - l + 1)`: `temp`, then
    `SKL[k][l][:] = [elem + (basis[1][i][degree[1] - l] * drv_ctl_p) for elem, drv_ctl_p in zip(SKL[k][l], temp)]` -/
def a38I (pu pv : Nat) (Nu Nv : List (List (Option K))) (PKL : Arr4 (Option (List K))) (d k l : Nat)
    (SKL : Arr2 (List K)) (i : Nat) : Arr2 (List K) :=
  let temp := (List.range (pu - k + 1)).foldl (a38TempStep pu Nu PKL k l i) (vzero d)
  upd2 SKL k l (axpy (bfAllGet Nv i (pv - l)) (SKL.get k l) temp)

/-- body of `for l in range(0, dd + 1)`: `SKL[k][l] = [0.0 …]`, then the loop over `i` -/
def a38L (pu pv : Nat) (Nu Nv : List (List (Option K))) (PKL : Arr4 (Option (List K))) (d k : Nat)
    (SKL : Arr2 (List K)) (l : Nat) : Arr2 (List K) :=
  (List.range (pv - l + 1)).foldl (a38I pu pv Nu Nv PKL d k l) (upd2 SKL k l (vzero d))

/-- the table `SKL` as an array, before it is returned -/
def a38Table (pu pv : Nat) (Uu Uv : Nat → K) (su sv : Nat) (P : List (List K))
    (spanU spanV : Nat) (u v : K) (order : Nat) : Arr2 (List K) :=
  let d := dimOf P
  let du := min pu order
  let dv := min pv order
  let Nu := basisFunAll pu Uu spanU u
  let Nv := basisFunAll pv Uv spanV v
  let PKL := surfaceDerivCptsA37 pu pv Uu Uv su sv P (spanU - pu) spanU (spanV - pv) spanV order
  (List.range (du + 1)).foldl (fun SKL k =>
    let dd := min (order - k) dv
    (List.range (dd + 1)).foldl (a38L pu pv Nu Nv PKL d k) SKL) ⟨fun _ _ => vzero d⟩

/-- `SurfaceEvaluator2.derivatives` on a given span pair -/
def surfaceDersA38 (pu pv : Nat) (Uu Uv : Nat → K) (su sv : Nat) (P : List (List K))
    (spanU spanV : Nat) (u v : K) (order : Nat) : List (List (List K)) :=
  let T := a38Table pu pv Uu Uv su sv P spanU spanV u v order
  (List.range (order + 1)).map (fun k => (List.range (order + 1)).map (fun l => T.get k l))

/-- the assigned part of `PKL` as nested lists (for the comparison with the real function):
    `PKL[k][l][i][j]` for `k ≤ du`, `l ≤ min(order - k, dv)`, `i ≤ r - k`, `j ≤ s - l`; one list of points
    per `(k, l)`, rows `i` concatenated -/
def surfaceDerivCptsList (pu pv : Nat) (Uu Uv : Nat → K) (su sv : Nat) (P : List (List K))
    (r1 r2 s1 s2 order : Nat) : List (List (List K)) :=
  let T := surfaceDerivCptsA37 pu pv Uu Uv su sv P r1 r2 s1 s2 order
  let du := min pu order
  let dv := min pv order
  (List.range (du + 1)).flatMap (fun k =>
    (List.range (min (order - k) dv + 1)).map (fun l =>
      (List.range (r2 - r1 - k + 1)).flatMap (fun i =>
        (List.range (s2 - s1 - l + 1)).map (fun j => (T.get k l i j).getD []))))

end
end Geomdl
