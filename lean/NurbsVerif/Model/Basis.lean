/-
  Model of geomdl/helpers.py (span search, multiplicity, A2.2, A2.4, "all degrees"),
  geomdl/knotvector.py (generate / normalize / check) and linalg.linspace.

  No imports; polymorphic in the number type `K` (core type classes only) so that the same
  definitions run at `Rat` (driver / correspondence) and are reasoned about over any linearly
  ordered field (proof files).  Knot vectors are viewed as `Nat → K`; the index guards that Python
  enforces by raising are carried by the driver / by the hypotheses of the theorems.
-/
namespace Geomdl
section
variable {K : Type} [Add K] [Sub K] [Mul K] [Div K] [Neg K] [Zero K] [One K] [NatCast K]
  [LT K] [LE K] [DecidableRel (α := K) (· < ·)] [DecidableRel (α := K) (· ≤ ·)] [DecidableEq K]

def absK (x : K) : K := if x < 0 then -x else x

/-! ### span search (`helpers.find_span_linear`, `helpers.find_span_binsearch`) -/

/-- the `while span < num_ctrlpts and knot_vector[span] <= knot: span += 1` loop, with fuel -/
def findSpanLinearAux (U : Nat → K) (n : Nat) (u : K) : Nat → Nat → Nat
  | 0, span => span
  | fuel+1, span => if span < n ∧ U span ≤ u then findSpanLinearAux U n u fuel (span+1) else span

/-- `helpers.find_span_linear(degree, U, num_ctrlpts, knot)`; `n` is the number of control points -/
def findSpanLinear (p : Nat) (U : Nat → K) (n : Nat) (u : K) : Nat :=
  findSpanLinearAux U n u (n + 1) (p + 1) - 1

/-- the `while` loop of `find_span_binsearch`; `none` = fuel exhausted (never for valid input) -/
def findSpanBinLoop (U : Nat → K) (u : K) : Nat → Nat → Nat → Nat → Option Nat
  | 0, _, _, _ => none
  | fuel+1, low, high, mid =>
    if u < U mid ∨ U (mid+1) ≤ u then
      let lh : Nat × Nat := if u < U mid then (low, mid) else (mid, high)
      findSpanBinLoop U u fuel lh.1 lh.2 ((lh.1 + lh.2) / 2)
    else some mid

/-- `helpers.find_span_binsearch`; the start index `int(round((low+high)/2 + tol))` is
    `(low+high+1)/2` for every `0 < tol < 1/2` -/
def findSpanBin (p : Nat) (U : Nat → K) (n : Nat) (u : K) (tol : K) : Option Nat :=
  if absK (U n - u) ≤ tol then some (n - 1)
  else findSpanBinLoop U u (n + p + 2) p n ((p + n + 1) / 2)

/-- `helpers.find_multiplicity` -/
def findMultiplicity (u : K) (U : List K) (tol : K) : Nat :=
  (U.filter (fun kv => absK (u - kv) ≤ tol)).length

/-! ### A2.2 `helpers.basis_function` -/

def left (U : Nat → K) (span : Nat) (u : K) (j : Nat) : K := u - U (span + 1 - j)
def right (U : Nat → K) (span : Nat) (u : K) (j : Nat) : K := U (span + j) - u

/-- inner `for r in range(0, j)` loop, carrying `saved`; the list is `N[0..j-1]` -/
def bfInner (L R : Nat → K) (j : Nat) : Nat → List K → K → List K
  | _, [], saved => [saved]
  | r, n :: ns, saved =>
      let temp := n / (R (r+1) + L (j - r))
      (saved + R (r+1) * temp) :: bfInner L R j (r+1) ns (L (j - r) * temp)

def bfStep (L R : Nat → K) (N : List K) (j : Nat) : List K := bfInner L R j 0 N 0

def basisFuns (p : Nat) (U : Nat → K) (span : Nat) (u : K) : List K :=
  (List.range' 1 p).foldl (bfStep (left U span u) (right U span u)) [1]

/-- `helpers.basis_function_all`: `N[j][i] = basisFuns i [j]` for `j ≤ i`, `none` (Python `None`) otherwise -/
def basisFunAll (p : Nat) (U : Nat → K) (span : Nat) (u : K) : List (List (Option K)) :=
  (List.range (p+1)).map (fun j => (List.range (p+1)).map (fun i =>
    if j ≤ i then (basisFuns i U span u)[j]? else none))

/-! ### A2.4 `helpers.basis_function_one` -/

/-- inner `for j in range(0, degree-k+1)` loop of A2.4 over the list `N[1..]`, with zero detection -/
def bfOneInner (U : Nat → K) (span k : Nat) (u : K) : Nat → List K → K → List K
  | _, [], _ => []
  | j, n1 :: ns, saved =>
      let Uleft := U (span + j + 1)
      let Uright := U (span + j + k + 1)
      if n1 = 0 then saved :: bfOneInner U span k u (j+1) ns 0
      else
        let temp := n1 / (Uright - Uleft)
        (saved + (Uright - u) * temp) :: bfOneInner U span k u (j+1) ns ((u - Uleft) * temp)

/-- one level `k` of the triangular table of A2.4; input `N[0..p-k+1]`, output `N[0..p-k]` -/
def bfOneLevel (U : Nat → K) (span : Nat) (u : K) (N : List K) (k : Nat) : List K :=
  let n0 := N.headD 0
  let saved := if n0 = 0 then 0 else ((u - U span) * n0) / (U (span + k) - U span)
  bfOneInner U span k u 0 N.tail saved

/-- `helpers.basis_function_one(degree, U, span, knot)`; `m` = number of knots -/
def basisFunOne (p : Nat) (U : Nat → K) (m : Nat) (span : Nat) (u : K) : K :=
  if (span = 0 ∧ u = U 0) ∨ (span + p + 2 = m ∧ u = U (m - 1)) then 1
  else if u < U span ∨ U (span + p + 1) ≤ u then 0
  else
    let N0 : List K := (List.range (p+1)).map (fun j =>
      if U (span + j) ≤ u ∧ u < U (span + j + 1) then 1 else 0)
    ((List.range' 1 p).foldl (bfOneLevel U span u) N0).headD 0

/-! ### `linalg.linspace`, `knotvector.generate/normalize/check` -/

/-- the `num > 1` branch of `linalg.linspace` -/
def linspaceCore (start stop : K) (num : Nat) : List K :=
  let delta := stop - start
  (List.range num).map (fun (x : Nat) => start + (Nat.cast x : K) * delta / (Nat.cast (num - 1) : K))

/-- `linalg.linspace(start, stop, num)` (the 18-decimals print/parse is the identity on exact
    numbers); `tol` is the literal `10e-8` of the code -/
def linspace (start stop : K) (num : Nat) (tol : K) : List K :=
  if absK (start - stop) ≤ tol then [start]
  else if 1 < num then linspaceCore start stop num else [start]

/-- `knotvector.generate(degree, num_ctrlpts, clamped)` -/
def knotGenerate (p n : Nat) (clamped : Bool) (tol : K) : List K :=
  if clamped then
    List.replicate p 0 ++ linspace (0:K) 1 (n - p + 1) tol ++ List.replicate p 1
  else
    linspace (0:K) 1 (p + n + 1) tol

/-- `knotvector.normalize` on exact numbers -/
def knotNormalize (U : List K) : List K :=
  let first := U.headD 0
  let last := U.getLastD 0
  U.map (fun x => (x - first) / (last - first))

def isSortedB : List K → Bool
  | [] => true
  | [_] => true
  | a :: b :: r => decide (a ≤ b) && isSortedB (b :: r)

/-- `knotvector.check(degree, knot_vector, num_ctrlpts)` -/
def knotCheck (p : Nat) (U : List K) (n : Nat) : Bool :=
  decide (U.length = p + n + 1) && isSortedB U

end
end Geomdl
