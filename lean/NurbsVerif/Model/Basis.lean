namespace Geomdl
section
variable {K : Type} [Add K] [Sub K] [Mul K] [Div K] [Zero K] [One K]

def left (U : Nat → K) (span : Nat) (u : K) (j : Nat) : K := u - U (span + 1 - j)
def right (U : Nat → K) (span : Nat) (u : K) (j : Nat) : K := U (span + j) - u

def bfInner (L R : Nat → K) (j : Nat) : Nat → List K → K → List K
  | _, [], saved => [saved]
  | r, n :: ns, saved =>
      let temp := n / (R (r+1) + L (j - r))
      (saved + R (r+1) * temp) :: bfInner L R j (r+1) ns (L (j - r) * temp)

def bfStep (L R : Nat → K) (N : List K) (j : Nat) : List K := bfInner L R j 0 N 0

def basisFuns (p : Nat) (U : Nat → K) (span : Nat) (u : K) : List K :=
  (List.range' 1 p).foldl (bfStep (left U span u) (right U span u)) [1]
end
end Geomdl
