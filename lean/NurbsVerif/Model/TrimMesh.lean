import NurbsVerif.Model.Mesh
import NurbsVerif.Model.Predicates
/-
  Model of the trimmed tessellation of geomdl/_tessellate.py:

  * `surface_trim_tessellate(v1, v2, v3, v4, vidx, tidx, trims, tessellate_args)`  (one grid cell) – `trimCell`
  * the cell loop of `make_triangle_mesh(points, size_u, size_v, trims=…, tessellate_func=surface_trim_tessellate)`
    with the running numbering (`vrt_idx += len(vlst)`, `tri_idx += len(tlst)`) and the flags the shared `Vertex`
    objects keep from one cell to the next – `trimCells`, and the final `fix_numbering` – `makeTrimMesh`.

  No Mathlib.  A literal transcription: same loop order, same accumulators, same comparisons.

  What a `Vertex` / `Triangle` object carries for trimming is its `_opt_data` entries `inside`, `trim`, `no_trim`
  (`TrimFlags`; `trim` / `no_trim` are only ever set to `True`, "unset" and "False" are treated alike by the code).
  The four corner vertices of a cell are objects SHARED with the neighbouring cells: their flags survive from one call
  to the next (the model threads them through the cell loop).

  A trim is `(trim.evalpts, trim.opt['reversed'])`: the closed polyline of evaluated 2-D points and the sense flag.

  Numbers of the code that are doubles even in exact mode are inputs (`TrimTol`): `tol = 10e-8`,
  `tols = tol ** 2`, `hi = 1.0 + tol` (rounded sum), `rtol = (1 << 8) * sys.float_info.epsilon` (default of
  `ray.intersect`); `0.0 - tol` is exact.  `ray.intersect` is the existing model `intersect2d`; the value of
  `vector_magnitude(d_cross)` (a rounded `math.sqrt`) is supplied by the function `sq` applied to the exact sum
  of squares (the harness records the table of the square roots the implementation computed).
-/
namespace Geomdl

/-- `_opt_data['inside']`, `_opt_data['trim']`, `_opt_data['no_trim']` of a Vertex / Triangle -/
structure TrimFlags where
  inside : Bool := false
  trim : Bool := false
  noTrim : Bool := false
deriving DecidableEq, Repr, Inhabited

/-- the body of the classification loops (lines 287-298 for a corner, 391-402 for a triangle); `hit` is the value of
    `linalg.wn_poly(point, trim.evalpts)`, `rev` is `trim.opt['reversed']` -/
def trimFlagStep (f : TrimFlags) (hit rev : Bool) : TrimFlags :=
  if hit then
    if rev then
      (if !f.trim then { f with inside := false, noTrim := true } else f)
    else { f with inside := true, trim := true }
  else
    if rev then (if !f.noTrim then { f with inside := true } else f) else f

/-- generic `polygon_triangulate`: the fan `(args[0], args[idx], args[idx+1])`, `idx = 1 … len-2` -/
def fanTriangles {α : Type} : List α → List (α × α × α)
  | [] => []
  | a :: rest => List.zipWith (fun b c => (a, b, c)) rest rest.tail

/-- `tri.id = tri_idx + tidx` for the `tidx`-th triangle of a list -/
def numberFrom {α : Type} (start : Nat) (l : List α) : List (Nat × α) :=
  (List.range l.length).zipWith (fun k x => (start + k, x)) l

section
variable {K : Type} [Add K] [Sub K] [Mul K] [Div K] [Neg K] [Zero K] [One K] [NatCast K]
  [LT K] [LE K] [DecidableRel (α := K) (· < ·)] [DecidableRel (α := K) (· ≤ ·)] [DecidableEq K]

/-- a trim curve as the routine reads it: `trim.evalpts` and `trim.opt['reversed']` -/
structure Trim (K : Type) where
  pts : List (K × K)
  reversed : Bool

/-- the double constants of `surface_trim_tessellate` and the default tolerance of `ray.intersect` -/
structure TrimTol (K : Type) where
  /-- `tol = 10e-8` -/
  tol : K
  /-- `tols = tol ** 2` -/
  tols : K
  /-- `1.0 + tol` (a double sum) -/
  hi : K
  /-- `(1 << 8) * sys.float_info.epsilon` -/
  rtol : K

/-- a vertex as the routine sees it: `id`, `uv`, trimming flags -/
structure TVertex (K : Type) where
  id : Nat
  uv : K × K
  fl : TrimFlags

/-- `vtol[idx]` -/
def vtolOf (tols : K) : Nat → K × K
  | 0 => (tols, tols)
  | 1 => (-tols, tols)
  | 2 => (-tols, -tols)
  | _ => (tols, -tols)

/-- `uv = [p + (cf * t) for p, t in zip(vertices[idx].uv, vtol[idx])]` with `cf = 1 if reversed else -1` -/
def cornerPoint (tols : K) (idx : Nat) (uv : K × K) (rev : Bool) : K × K :=
  let cf : K := if rev then 1 else -1
  (uv.1 + cf * (vtolOf tols idx).1, uv.2 + cf * (vtolOf tols idx).2)

/-- `for trim in trims:` of the corner loop, for corner number `idx` -/
def classifyCorner (tols : K) (trims : List (Trim K)) (idx : Nat) (uv : K × K) (f : TrimFlags) : TrimFlags :=
  trims.foldl (fun f tr => trimFlagStep f (wnPoly (cornerPoint tols idx uv tr.reversed) tr.pts) tr.reversed) f

/-- the corner loop `for idx in range(len(vertices))` -/
def classifyCorners (tols : K) (trims : List (Trim K)) (vs : List (TVertex K)) : List (TVertex K) :=
  (List.range vs.length).zipWith (fun idx v => { v with fl := classifyCorner tols trims idx v.uv v.fl }) vs

/-- the sum of squares `vector_magnitude(d_cross)` takes the root of, for two planar rays lifted to `z = 1` -/
def ray2Sq (a1 a2 b1 b2 : K × K) : K :=
  normSq3 (cross3 (vgen3 (a1.1, a1.2, 1) (a2.1, a2.2, 1)) (vgen3 (b1.1, b1.2, 1) (b2.1, b2.2, 1)))

/-- `ray.intersect(Ray(a1, a2), Ray(b1, b2))` for planar rays; `sq` is the (rounded) square root -/
def rayIntersect2 (sq : K → K) (rtol : K) (a1 a2 b1 b2 : K × K) : K × K × Nat :=
  intersect2d a1 a2 b1 b2 rtol (sq (ray2Sq a1 a2 b1 b2))

/-- `Ray(p, q).eval(t)` in the plane -/
def rayEval2 (p q : K × K) (t : K) : K × K := (p.1 + (q.1 - p.1) * t, p.2 + (q.2 - p.2) * t)

/-- `edges = [Ray(v1.uv, v2.uv), Ray(v2.uv, v3.uv), Ray(v3.uv, v4.uv), Ray(v4.uv, v1.uv)]` with their index -/
def cellEdges (c1 c2 c3 c4 : K × K) : List (Nat × (K × K) × (K × K)) :=
  [(0, c1, c2), (1, c2, c3), (2, c3, c4), (3, c4, c1)]

/-- the test of one edge against one trim segment: `[idx2, t1, edges[idx2].eval(t=t1)]` when the status is
    INTERSECT and both parameters are in `(0.0 - tol, 1.0 + tol)` -/
def edgeHit (tt : TrimTol K) (sq : K → K) (e : Nat × (K × K) × (K × K)) (s : (K × K) × (K × K)) :
    Option (Nat × K × (K × K)) :=
  let r := rayIntersect2 sq tt.rtol e.2.1 e.2.2 s.1 s.2
  if r.2.2 = stINTERSECT ∧ (0 - tt.tol < r.1 ∧ r.1 < tt.hi) ∧ (0 - tt.tol < r.2.1 ∧ r.2.1 < tt.hi) then
    some (e.1, r.1, rayEval2 e.2.1 e.2.2 r.1)
  else none

/-- `for idx in range(len(pts) - 1)`: the segments `(pts[idx], pts[idx+1])` -/
def polySegments (pts : List (K × K)) : List ((K × K) × (K × K)) := pts.zip pts.tail

/-- the list `intersections` (lines 315-329): for every trim, every segment of it, every edge -/
def cellIntersections (tt : TrimTol K) (sq : K → K) (c1 c2 c3 c4 : K × K) (trims : List (Trim K)) :
    List (Nat × K × (K × K)) :=
  trims.flatMap fun tr => (polySegments tr.pts).flatMap fun s =>
    (cellEdges c1 c2 c3 c4).filterMap fun e => edgeHit tt sq e s

/-- lines 359-364: `t_min = 1.0 + tol; uv_min = []; for isect in isects: if isect[1] < t_min: …`.
    (`uv_min = []` is modelled by `(0, 0)`; every stored `t1` is `< 1.0 + tol`, so a non-empty `isects` always
    replaces it – `selMin_mem` in Lemmas/TrimMesh.lean.) -/
def selMin (hi : K) (isects : List (Nat × K × (K × K))) : K × (K × K) :=
  isects.foldl (fun acc is => if is.2.1 < acc.1 then (is.2.1, is.2.2) else acc) (hi, ((0 : K), (0 : K)))

/-- lines 367-371 for one component -/
def snap1 (tol x : K) : K :=
  if x - tol ≤ 0 ∧ 0 ≤ x + tol then 0
  else if x - tol ≤ 1 ∧ 1 ≤ x + tol then 1
  else x

def snapUV (tol : K) (p : K × K) : K × K := (snap1 tol p.1, snap1 tol p.2)

/-- accumulator of the loop of lines 339-382: `nvi` and `tris_vertices` (as `(id, uv)`) -/
structure PolyAcc (K : Type) where
  nvi : Nat
  verts : List (Nat × (K × K))

/-- one pass of `for idx in range(0, len(vertices) - 1)` with `cur = vertices[idx]`, `nxt = vertices[idx + 1]` -/
def polyStep (tt : TrimTol K) (isx : List (Nat × K × (K × K))) (vidx : Nat) (acc : PolyAcc K)
    (idx : Nat) (cur nxt : TVertex K) : PolyAcc K :=
  if cur.fl.inside && nxt.fl.inside then acc
  else
    let acc1 : PolyAcc K := if !cur.fl.inside then { acc with verts := acc.verts ++ [(cur.id, cur.uv)] } else acc
    if (!cur.fl.inside && nxt.fl.inside) || (cur.fl.inside && !nxt.fl.inside) then
      let isects := isx.filter fun is => is.1 == idx
      if isects.isEmpty then acc1
      else
        let uvMin := snapUV tt.tol (selMin tt.hi isects).2
        { nvi := acc1.nvi + 1, verts := acc1.verts ++ [(vidx + acc1.nvi, uvMin)] }
    else acc1

/-- the whole loop over the four edges (`vertices.append(v1)` closes the cycle) -/
def polyVertices (tt : TrimTol K) (isx : List (Nat × K × (K × K))) (vidx : Nat) (v1 v2 v3 v4 : TVertex K) : PolyAcc K :=
  let a0 : PolyAcc K := { nvi := 0, verts := [] }
  let a1 := polyStep tt isx vidx a0 0 v1 v2
  let a2 := polyStep tt isx vidx a1 1 v2 v3
  let a3 := polyStep tt isx vidx a2 2 v3 v4
  polyStep tt isx vidx a3 3 v4 v1

/-- `linalg.triangle_center(tri, uv=True)` -/
def triCenterUV (a b c : K × K) : K × K :=
  ((0 + a.1 + b.1 + c.1) / ((3 : Nat) : K), (0 + a.2 + b.2 + c.2) / ((3 : Nat) : K))

/-- lines 388-402: the flags of a fresh triangle after the loop over the trims -/
def classifyTri (trims : List (Trim K)) (ctr : K × K) : TrimFlags :=
  trims.foldl (fun f tr => trimFlagStep f (wnPoly ctr tr.pts) tr.reversed) {}

/-- what one call returns / leaves behind -/
structure TrimCellResult (K : Type) where
  /-- the flags of `v1 … v4` after the call -/
  flags : List TrimFlags
  /-- `tris_vertices` as `(id, uv)` -/
  verts : List (Nat × (K × K))
  /-- `tris_final` as `(tri.id, tri.data)` -/
  tris : List (Nat × List Nat)

/-- candidate triangles `polygon_triangulate(tidx, *tris_vertices)` with their ids -/
def cellCandidates (tidx : Nat) (verts : List (Nat × (K × K))) :
    List (Nat × ((Nat × (K × K)) × (Nat × (K × K)) × (Nat × (K × K)))) :=
  numberFrom tidx (fanTriangles verts)

/-- `surface_trim_tessellate(v1, v2, v3, v4, vidx, tidx, trims, _)` -/
def trimCell (tt : TrimTol K) (sq : K → K) (trims : List (Trim K)) (v1 v2 v3 v4 : TVertex K) (vidx tidx : Nat) :
    TrimCellResult K :=
  match classifyCorners tt.tols trims [v1, v2, v3, v4] with
  | [w1, w2, w3, w4] =>
    let flags := [w1.fl, w2.fl, w3.fl, w4.fl]
    if w1.fl.inside && w2.fl.inside && w3.fl.inside && w4.fl.inside then
      { flags := flags, verts := [], tris := [] }
    else
      let isx := cellIntersections tt sq w1.uv w2.uv w3.uv w4.uv trims
      let pv := (polyVertices tt isx vidx w1 w2 w3 w4).verts
      let cand := cellCandidates tidx pv
      let kept := cand.filter fun t => !(classifyTri trims (triCenterUV t.2.1.2 t.2.2.1.2 t.2.2.2.2)).inside
      { flags := flags, verts := pv, tris := kept.map fun t => (t.1, [t.2.1.1, t.2.2.1.1, t.2.2.2.1]) }
  | _ => { flags := [], verts := [], tris := [] }

/-! ### the cell loop of `make_triangle_mesh` with `surface_trim_tessellate` -/

/-- state of the loop: flags of the grid vertices (by id), the appended `vlst` entries, the triangles,
    `vrt_idx`, `tri_idx`, and the per-cell results (trace, for the correspondence check) -/
structure TrimLoop (K : Type) where
  flags : List TrimFlags
  extra : List (Nat × (K × K))
  tris : List (Nat × List Nat)
  vidx : Nat
  tidx : Nat
  trace : List (TrimCellResult K)

/-- body of `for i … for j …` (lines 128-143) -/
def trimLoopStep (tt : TrimTol K) (sq : K → K) (trims : List (Trim K)) (uvs : List (K × K)) (nv : Nat)
    (st : TrimLoop K) (ij : Nat × Nat) : TrimLoop K :=
  let id1 := ij.2 + ij.1 * nv
  let id2 := ij.2 + (ij.1 + 1) * nv
  let id3 := ij.2 + 1 + (ij.1 + 1) * nv
  let id4 := ij.2 + 1 + ij.1 * nv
  let mk := fun (k : Nat) => ({ id := k, uv := uvs.getD k (0, 0), fl := st.flags.getD k {} } : TVertex K)
  let r := trimCell tt sq trims (mk id1) (mk id2) (mk id3) (mk id4) st.vidx st.tidx
  let fl := (((st.flags.set id1 (r.flags.getD 0 {})).set id2 (r.flags.getD 1 {})).set id3 (r.flags.getD 2 {})).set id4
    (r.flags.getD 3 {})
  { flags := fl, extra := st.extra ++ r.verts, tris := st.tris ++ r.tris,
    vidx := st.vidx + r.verts.length, tidx := st.tidx + r.tris.length, trace := st.trace ++ [r] }

/-- the cell loop over a grid with `nu × nv` vertices whose parameters are `uvs` (vertex `k` has id `k`) -/
def trimCells (tt : TrimTol K) (sq : K → K) (trims : List (Trim K)) (uvs : List (K × K)) (nu nv : Nat) : TrimLoop K :=
  (meshGrid2 (nu - 1) (nv - 1) fun i j => (i, j)).foldl (trimLoopStep tt sq trims uvs nv)
    { flags := List.replicate uvs.length {}, extra := [], tris := [], vidx := uvs.length, tidx := 0, trace := [] }

/-- `fix_numbering` for an arbitrary vertex list (ids may repeat: the corner objects a cell returns are appended
    again): the vertices that are kept (first object with an id that a triangle uses), in order -/
def keptVertices {α : Type} (used : List Nat) (vs : List (Nat × α)) : List (Nat × α) :=
  vs.foldl (fun acc v => if used.contains v.1 && !(acc.map (·.1)).contains v.1 then acc ++ [v] else acc) []

/-- result of the trimmed `make_triangle_mesh`: vertex `k` of `verts` gets id `k`; `old` is its id before
    `fix_numbering`; `faces` are in the new numbering -/
structure TrimMesh (K : Type) where
  old : List Nat
  uv : List (K × K)
  faces : List (List Nat)

/-- `make_triangle_mesh(points, size_u, size_v, vertex_spacing=s, trims=trims,
    tessellate_func=surface_trim_tessellate)` -/
def makeTrimMesh (tt : TrimTol K) (sq : K → K) (trims : List (Trim K)) (su sv s : Nat) : TrimMesh K :=
  let uvs : List (K × K) := (meshVertices (K := K) su sv s).map (·.1)
  let st := trimCells tt sq trims uvs (gridCount su s) (gridCount sv s)
  let all : List (Nat × (K × K)) := (List.range uvs.length).zipWith (fun k p => (k, p)) uvs ++ st.extra
  let tris := st.tris.map (·.2)
  let kept := keptVertices (usedIds tris) all
  let ids := kept.map (·.1)
  { old := ids, uv := kept.map (·.2), faces := tris.map fun t => t.map fun v => ids.idxOf v }

end
end Geomdl
