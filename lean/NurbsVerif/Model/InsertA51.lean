/-
  LITERAL transcription of `helpers.knot_insertion` (geomdl/helpers.py, Algorithm A5.1), the POINT
  branch `isinstance(temp[i][0], float)` (curves, and the iso-curves of surfaces), loop by loop:

      np = len(ctrlpts); nq = np + num
      ctrlpts_new = [[] for _ in range(nq)]
      temp = [[] for _ in range(degree + 1)]
      for i in range(0, k - degree + 1):  ctrlpts_new[i] = ctrlpts[i]
      for i in range(k - s, np):          ctrlpts_new[i + num] = ctrlpts[i]
      for i in range(0, degree - s + 1):  temp[i] = deepcopy(ctrlpts[k - degree + i])
      for j in range(1, num + 1):
          L = k - degree + j
          for i in range(0, degree - j - s + 1):
              alpha = knot_insertion_alpha(u, tuple(knotvector), k, i, L)
              temp[i][:] = [alpha * elem2 + (1.0 - alpha) * elem1 for elem1, elem2 in zip(temp[i], temp[i + 1])]
          ctrlpts_new[L] = deepcopy(temp[0])
          ctrlpts_new[k + num - j - s] = deepcopy(temp[degree - j - s])
      L = k - degree + num
      for i in range(L + 1, k - s):       ctrlpts_new[i] = deepcopy(temp[i - L])
      return ctrlpts_new

  Conventions (as in `Model/RefineA54.lean`): a `for` is a `List.foldl` over `List.range` / `List.range'`,
  an in-place update `a[i] = v` returns the new list `a.set i v` (`deepcopy` is irrelevant for values; the
  slice assignment `temp[i][:] = …` replaces the VALUE of slot `i` – slot `i + 1` is read before it is
  overwritten in the next pass of the inner loop, and the transcription keeps that order: the fold is
  sequential, every pass reads the list left by the previous pass).  Reads use the padded reader `ptsGet`
  (`[]` outside the list) and the knot vector is a total function (`fnOf`).

  Index arithmetic.  Python integers are signed, `Nat` subtraction is truncated.  The transcription writes
  every bound so that a Python range that is EMPTY because its upper bound is ≤ its lower bound is empty
  here too:
    * `range(0, k - degree + 1)`      has `k + 1 - p` elements           (empty iff `k < p`, as in Python);
    * `range(0, degree - s + 1)`      has `p + 1 - s` elements;
    * `range(0, degree - j - s + 1)`  has `p + 1 - j - s` elements       (empty iff `j + s > p`);
    * `range(k - s, np)`              is `range' (k - s) (np - (k - s))`;
    * `range(L + 1, k - s)`           is `range' (L + 1) (k - s - (L + 1))`.
  What is NOT modelled is Python's meaning of a NEGATIVE index (`a[-1]` = last element).  No negative index
  or negative range start occurs when
        `degree ≤ k`   (then `k - degree + i`, `L = k - degree + j` are the true differences),
        `s ≤ k`        (`k - s`, `k + num - j - s`; implied by `s ≤ degree ≤ k`),
        `num + s ≤ degree`  (`degree - j - s` for `j ≤ num`),
  and under `k < len(ctrlpts)` no read `ctrlpts[k - degree + i]` (`i ≤ degree - s`) is out of range.  Under
  this guard the model is the code, statement by statement; outside it the Python code either raises or
  wraps around and the model is not claimed to follow it (the driver answers `ERR`).
  `Lemmas/A51Loops*.lean` prove `knotInsertionA51 = knotInsertion` (the index-by-index model) under the guard.
  The list-of-rows branch of the same routine is `Model/InsertRowsA51.lean`.
-/
import NurbsVerif.Model.Knots

namespace Geomdl
section
variable {K : Type} [Add K] [Sub K] [Mul K] [Div K] [Neg K] [Zero K] [One K] [NatCast K]
  [LT K] [LE K] [DecidableRel (α := K) (· < ·)] [DecidableRel (α := K) (· ≤ ·)] [DecidableEq K]

/-- the two work arrays of `knot_insertion`: `ctrlpts_new` and `temp` -/
structure A51St (K : Type) where
  cp : List (List K)
  temp : List (List K)

/-- body of `for i in range(0, degree - j - s + 1)`:
    `alpha = knot_insertion_alpha(u, U, k, i, L)`;
    `temp[i][:] = [alpha * elem2 + (1.0 - alpha) * elem1 for elem1, elem2 in zip(temp[i], temp[i + 1])]`
    – reads the CURRENT `temp` (slot `i + 1` has not been touched yet in this sweep, slot `i - 1` has) -/
def a51Inner (U : Nat → K) (u : K) (k L : Nat) (temp : List (List K)) (i : Nat) : List (List K) :=
  let alpha := insAlpha U u k i L
  temp.set i (List.zipWith (fun elem1 elem2 => alpha * elem2 + (1 - alpha) * elem1) (ptsGet temp i) (ptsGet temp (i + 1)))

/-- body of `for j in range(1, num + 1)`: the in-place sweep over `temp`, then the two edge writes
    `ctrlpts_new[L] = temp[0]` and `ctrlpts_new[k + num - j - s] = temp[degree - j - s]`, in this order -/
def a51Outer (p : Nat) (U : Nat → K) (u : K) (num s k : Nat) (st : A51St K) (j : Nat) : A51St K :=
  let L := k - p + j
  let temp := (List.range (p + 1 - j - s)).foldl (a51Inner U u k L) st.temp
  let cp1 := st.cp.set L (ptsGet temp 0)
  let cp2 := cp1.set (k + num - j - s) (ptsGet temp (p - j - s))
  { cp := cp2, temp := temp }

/-- the work arrays before the insertion loop: allocation (`nq` resp. `degree + 1` empty slots), the two
    copy loops "Save unaltered control points" and the initialisation of `temp` -/
def a51Init (p : Nat) (P : List (List K)) (num s k : Nat) : A51St K :=
  let np := P.length
  let nq := np + num
  let cp0 : List (List K) := List.replicate nq []
  let temp0 : List (List K) := List.replicate (p + 1) []
  let cp1 := (List.range (k + 1 - p)).foldl (fun c i => c.set i (ptsGet P i)) cp0
  let cp2 := (List.range' (k - s) (np - (k - s))).foldl (fun c i => c.set (i + num) (ptsGet P i)) cp1
  let temp1 := (List.range (p + 1 - s)).foldl (fun t i => t.set i (ptsGet P (k - p + i))) temp0
  { cp := cp2, temp := temp1 }

/-- **A5.1 as coded**: `helpers.knot_insertion(p, U, P, u, num=num, s=s, span=k)`, point branch -/
def knotInsertionA51 (p : Nat) (U : Nat → K) (P : List (List K)) (u : K) (num s k : Nat) : List (List K) :=
  let st := (List.range' 1 num).foldl (a51Outer p U u num s k) (a51Init p P num s k)
  let L := k - p + num
  (List.range' (L + 1) (k - s - (L + 1))).foldl (fun c i => c.set i (ptsGet st.temp (i - L))) st.cp

end
end Geomdl
