/-
  Model of geomdl/evaluators.py: A3.1 / A3.5 / volume point evaluation, rational projection,
  sampled grids, and the derivative algorithms (A3.3/A3.4, A3.7/A3.8, A4.2, A4.4).
  Points are coordinate lists (`List K`) exactly as in Python; control nets are flat lists with the
  library's layout `v + size_v * (u + size_u * w)`.
-/
import NurbsVerif.Model.Basis

namespace Geomdl
section
variable {K : Type} [Add K] [Sub K] [Mul K] [Div K] [Neg K] [Zero K] [One K] [NatCast K]
  [LT K] [LE K] [DecidableRel (α := K) (· < ·)] [DecidableRel (α := K) (· ≤ ·)] [DecidableEq K]

/-! ### coordinate-list vectors -/
def vzero (d : Nat) : List K := List.replicate d 0
def vadd (a b : List K) : List K := List.zipWith (· + ·) a b
def vsub (a b : List K) : List K := List.zipWith (· - ·) a b
def vsmul (c : K) (a : List K) : List K := a.map (c * ·)

/-- `acc[:] = [a + N_i * c for a, c in zip(acc, pt_i)]` folded over `i` -/
def linComb (d : Nat) (N : List K) (pts : List (List K)) : List K :=
  (List.zip N pts).foldl (fun acc x => vadd acc (vsmul x.1 x.2)) (vzero d)

def ptsGet (P : List (List K)) (i : Nat) : List K := P.getD i []
def dimOf (P : List (List K)) : Nat := (P.headD []).length

/-- divide by the last coordinate and drop it (`CurveEvaluatorRational.evaluate`) -/
def project (pt : List K) : List K :=
  let w := pt.getLastD 1
  pt.dropLast.map (· / w)

/-! ### points -/

/-- A3.1 inner loop on a given span -/
def curvePointAt (p : Nat) (U : Nat → K) (P : List (List K)) (span : Nat) (u : K) : List K :=
  linComb (dimOf P) (basisFuns p U span u) ((List.range (p+1)).map (fun i => ptsGet P (span - p + i)))

def curvePoint (p : Nat) (U : Nat → K) (P : List (List K)) (u : K) : List K :=
  curvePointAt p U P (findSpanLinear p U P.length u) u

/-- A3.5 inner loops on given spans; flat index `v + sv * u` -/
def surfacePointAt (pu pv : Nat) (Uu Uv : Nat → K) (sv : Nat) (P : List (List K))
    (spanU spanV : Nat) (u v : K) : List K :=
  let d := dimOf P
  let Nu := basisFuns pu Uu spanU u
  let Nv := basisFuns pv Uv spanV v
  let iu := spanU - pu
  let iv := spanV - pv
  linComb d Nu ((List.range (pu+1)).map (fun k =>
    linComb d Nv ((List.range (pv+1)).map (fun l => ptsGet P (iv + l + sv * (iu + k))))))

def surfacePoint (pu pv : Nat) (Uu Uv : Nat → K) (su sv : Nat) (P : List (List K)) (u v : K) : List K :=
  surfacePointAt pu pv Uu Uv sv P (findSpanLinear pu Uu su u) (findSpanLinear pv Uv sv v) u v

/-- volume evaluation; flat index `v + sv * (u + su * w)` -/
def volumePointAt (pu pv pw : Nat) (Uu Uv Uw : Nat → K) (su sv : Nat) (P : List (List K))
    (spanU spanV spanW : Nat) (u v w : K) : List K :=
  let d := dimOf P
  let Nu := basisFuns pu Uu spanU u
  let Nv := basisFuns pv Uv spanV v
  let Nw := basisFuns pw Uw spanW w
  let iu := spanU - pu
  let iv := spanV - pv
  let iw := spanW - pw
  linComb d Nu ((List.range (pu+1)).map (fun a =>
    linComb d Nv ((List.range (pv+1)).map (fun b =>
      linComb d Nw ((List.range (pw+1)).map (fun c =>
        ptsGet P (iv + b + sv * (iu + a + su * (iw + c)))))))))

def volumePoint (pu pv pw : Nat) (Uu Uv Uw : Nat → K) (su sv sw : Nat) (P : List (List K))
    (u v w : K) : List K :=
  volumePointAt pu pv pw Uu Uv Uw su sv P
    (findSpanLinear pu Uu su u) (findSpanLinear pv Uv sv v) (findSpanLinear pw Uw sw w) u v w

/-! ### derivative control points (A3.3) and A3.4 -/

/-- one level of `helpers.curve_deriv_cpts`: from `PK[k-1]` to `PK[k]` -/
def dcStep (p : Nat) (U : Nat → K) (r1 k : Nat) : Nat → List (List K) → List (List K)
  | i, a :: b :: rest =>
      (List.zipWith (fun e1 e2 => (Nat.cast (p - k + 1) : K) * (e1 - e2) / (U (r1 + i + p + 1) - U (r1 + i + k))) b a)
        :: dcStep p U r1 k (i+1) (b :: rest)
  | _, _ => []

/-- `helpers.curve_deriv_cpts(dim, p, U, P, (r1, r2), d)`: the list `PK[0..d]` -/
def curveDerivCpts (p : Nat) (U : Nat → K) (P : List (List K)) (r1 r2 d : Nat) : List (List (List K)) :=
  let PK0 := (List.range (r2 - r1 + 1)).map (fun i => ptsGet P (r1 + i))
  ((List.range' 1 d).foldl (fun (acc : List (List (List K)) × List (List K)) k =>
      let nxt := dcStep p U r1 k 0 acc.2
      (acc.1 ++ [nxt], nxt)) ([PK0], PK0)).1

/-- A3.4 (`CurveEvaluator2.derivatives`) on a given span: `CK[0..order]`, zero above the degree -/
def curveDersAt (p : Nat) (U : Nat → K) (P : List (List K)) (span : Nat) (u : K) (order : Nat) :
    List (List K) :=
  let du := min p order
  let d := dimOf P
  let PK := curveDerivCpts p U P (span - p) span du
  (List.range (order + 1)).map (fun k =>
    if k ≤ du then linComb d (basisFuns (p - k) U span u) (PK.getD k []) else vzero d)

def curveDers (p : Nat) (U : Nat → K) (P : List (List K)) (u : K) (order : Nat) : List (List K) :=
  curveDersAt p U P (findSpanLinear p U P.length u) u order

/-- derivatives of the `p+1` non-vanishing basis functions, specified as the derivatives of the
    curves with unit control sequences (what A2.3 `helpers.basis_function_ders` must return):
    row `k` (`k ≤ d`), column `r` -/
def basisDers (p : Nat) (U : Nat → K) (span : Nat) (u : K) (d : Nat) : List (List K) :=
  let cols := (List.range (p+1)).map (fun r =>
    let P : List (List K) := (List.range (span + 1)).map (fun i => [if i = span - p + r then 1 else 0])
    (curveDersAt p U P span u d).map (fun v => v.headD 0))
  (List.range (d+1)).map (fun k => cols.map (fun c => c.getD k 0))

/-! ### rational derivatives (A4.2) -/

def binom : Nat → Nat → Nat
  | _, 0 => 1
  | 0, _+1 => 0
  | n+1, k+1 => binom n k + binom n (k+1)

/-- A4.2: from the homogeneous derivatives `CKw[0..order]` to the derivatives of the projection -/
def ratCurveDers (CKw : List (List K)) : List (List K) :=
  let w0 := (CKw.headD []).getLastD 1
  (List.range CKw.length).foldl (fun (CK : List (List K)) k =>
    let v0 := (CKw.getD k []).dropLast
    let v := (List.range' 1 k).foldl (fun v i =>
      List.zipWith (fun tmp drv => tmp - (Nat.cast (binom k i) : K) * (CKw.getD i []).getLastD 0 * drv) v (CK.getD (k - i) [])) v0
    CK ++ [v.map (· / w0)]) []

/-! ### surface derivatives -/

/-- `SKL[k][l] = Σ_r Σ_s Nu⁽ᵏ⁾_r Nv⁽ˡ⁾_s P[..]` for `k, l ≤ order`; zero above the degrees; with
    `tri = true` (alternative evaluator) entries with `k + l > order` are left zero -/
def surfaceDersAt (pu pv : Nat) (Uu Uv : Nat → K) (sv : Nat) (P : List (List K))
    (spanU spanV : Nat) (u v : K) (order : Nat) (tri : Bool) : List (List (List K)) :=
  let d := dimOf P
  let du := min pu order
  let dv := min pv order
  let Du := basisDers pu Uu spanU u du
  let Dv := basisDers pv Uv spanV v dv
  let iu := spanU - pu
  let iv := spanV - pv
  (List.range (order+1)).map (fun k => (List.range (order+1)).map (fun l =>
    if k ≤ du ∧ l ≤ dv ∧ (tri = false ∨ k + l ≤ order) then
      linComb d (Du.getD k []) ((List.range (pu+1)).map (fun r =>
        linComb d (Dv.getD l []) ((List.range (pv+1)).map (fun s => ptsGet P (iv + s + sv * (iu + r))))))
    else vzero d))

/-- A4.4 as coded (`SurfaceEvaluatorRational.derivatives`): all `k, l ≤ order` -/
def ratSurfaceDers (SKLw : List (List (List K))) (order : Nat) : List (List (List K)) :=
  let get (T : List (List (List K))) (k l : Nat) : List K := (T.getD k []).getD l []
  let wOf (k l : Nat) : K := (get SKLw k l).getLastD 0
  let w00 := (get SKLw 0 0).getLastD 1
  (List.range (order+1)).foldl (fun (SKL : List (List (List K))) k =>
    let row := (List.range (order+1)).foldl (fun (row : List (List K)) l =>
      let getS (a b : Nat) : List K := if a = k then row.getD b [] else get SKL a b
      let v0 := get SKLw k l
      let v1 := (List.range' 1 l).foldl (fun v j =>
        List.zipWith (fun tmp drv => tmp - (Nat.cast (binom l j) : K) * wOf 0 j * drv) v (getS k (l - j))) v0
      let v2 := (List.range' 1 k).foldl (fun v i =>
        let va := List.zipWith (fun tmp drv => tmp - (Nat.cast (binom k i) : K) * wOf i 0 * drv) v (getS (k - i) l)
        let inner := (List.range' 1 l).foldl (fun acc j =>
          List.zipWith (fun tmp drv => tmp + (Nat.cast (binom l j) : K) * wOf i j * drv) acc (getS (k - i) (l - j)))
          (vzero (v0.length - 1))
        List.zipWith (fun tmp tmp2 => tmp - (Nat.cast (binom k i) : K) * tmp2) va inner) v1
      row ++ [(v2.take (v0.length - 1)).map (· / w00)]) []
    SKL ++ [row]) []

end
end Geomdl

namespace Geomdl
section
variable {K : Type} [LT K] [DecidableRel (α := K) (· < ·)]

/-- `utilities.evaluate_bounding_box`: coordinatewise minimum and maximum scan (the `±inf` start
    values are replaced by the first point) -/
def boundingBox (P : List (List K)) : List K × List K :=
  match P with
  | [] => ([], [])
  | p0 :: rest =>
    rest.foldl (fun (acc : List K × List K) pt =>
      (List.zipWith (fun c m => if c < m then c else m) pt acc.1,
       List.zipWith (fun c m => if m < c then c else m) pt acc.2)) (p0, p0)
end
end Geomdl
