/-
  Model of `construct.construct_surface` / `construct_volume` / `sweeping.sweep_vector` on RATIONAL shapes with the
  control-point / weight split-and-recombine they perform written out (property C13, with the views of C09):

  * every input object is read through its `ctrlpts` and `weights` views (`separate_ctrlpts_weights` of the stored
    homogeneous net, cached – `nGetP` / `nGetW` of `Model/Weights.lean`);
  * the unweighted points and the weights are concatenated (and re-ordered) as two separate lists;
    `construct_surface('v', …)` combines them, flips the homogeneous net and separates again;
  * the result object is a fresh rational shape filled by `ns.ctrlpts = P` (no weights yet: ones) followed by
    `ns.weights = w` (reads `ctrlpts` back – division by the ones – and combines) – `nSetP` / `nSetW`;
  * `sweep_vector` translates `obj.ctrlpts`, writes them into a deep copy (caches re-initialised by
    `__deepcopy__`) through the `ctrlpts` setter (existing weights are kept) and calls the repaired
    `construct_surface("u", obj, copy, degree=1)` / `construct_volume("w", obj, copy)`.

  `Model/Layout.lean` models the same routines as the identity on homogeneous points (`constructSurface`, …,
  `pointTranslateW`); `Lemmas/ConstructRat.lean` proves the two models equal for non-zero weights.  Where Python
  raises (`ptw[-1]` of an empty point, division by a zero weight) the functions below return a value; the guard is
  carried by the driver (`ERR`) and by the hypotheses of the theorems.
-/
import NurbsVerif.Model.Layout
import NurbsVerif.Model.Weights

namespace Geomdl
section
variable {K : Type} [Add K] [Sub K] [Mul K] [Div K] [Neg K] [Zero K] [One K] [NatCast K]
  [LT K] [LE K] [DecidableRel (α := K) (· < ·)] [DecidableRel (α := K) (· ≤ ·)] [DecidableEq K]
variable {κ : Type}

/-- a rational input object: the stored homogeneous net, both caches empty -/
def ratObj (Pw : List (List K)) : NState K := nSetPw NState.init Pw

/-- `arg.ctrlpts` followed by `arg.weights` of one input object -/
def ratViews (Pw : List (List K)) : List (List K) × List K :=
  let r := nGetP (ratObj Pw)
  (r.2, (nGetW r.1).2)

/-- `ns = shortcuts.generate_…(rational=True); ns.ctrlpts = P; ns.weights = w`: the homogeneous net stored in the
    end; `none` where the `weights` setter raises ("Set control points first") -/
def ratAssign (P : List (List K)) (w : List K) : Option (List (List K)) :=
  (nSetW (nSetP NState.init P) w).map fun s => s.net

/-- `construct_surface(direction, *args, degree=…, knotvector=…)` on rational curves, split-and-recombine explicit -/
def constructSurfaceRat (dir : Dir) (degOther : Nat) (kvOther : κ) (args : List (Crv (List K) κ)) :
    Option (Srf (List K) κ) :=
  match args with
  | [] => none
  | c0 :: _ =>
    let sizeOther := args.length
    let num := c0.pts.length
    if sizeOther < 2 then none
    else if !(args.all fun c => c.deg == c0.deg && c.pts.length == num) then none
    else
      let newP := args.flatMap fun c => (ratViews c.pts).1
      let newW := args.flatMap fun c => (ratViews c.pts).2
      match dir with
      | Dir.u => (ratAssign newP newW).map fun net =>
          { du := degOther, dv := c0.deg, ku := kvOther, kv := c0.kv, su := sizeOther, sv := num, pts := net }
      | Dir.v =>
          let pw := separate (flipCtrlptsU (combine newP newW) num sizeOther)
          (ratAssign pw.1 pw.2).map fun net =>
            { du := c0.deg, dv := degOther, ku := c0.kv, kv := kvOther, su := num, sv := sizeOther, pts := net }
      | Dir.w => none

/-- `construct_volume(direction, *args, degree=…, knotvector=…)` (repaired, F-13a) on rational surfaces: the loops
    re-order the point list and the weight list separately -/
def constructVolumeRat (dir : Dir) (degOther : Nat) (kvOther : κ) (args : List (Srf (List K) κ)) :
    Option (Vol (List K) κ) :=
  match args with
  | [] => none
  | s0 :: _ =>
    let n := args.length
    if n < 2 then none
    else if !(args.all fun s => s.du == s0.du && s.dv == s0.dv && s.su == s0.su && s.sv == s0.sv) then none
    else
      let newP := args.flatMap fun s => (ratViews s.pts).1
      let newW := args.flatMap fun s => (ratViews s.pts).2
      let updP := volPerm dir n s0.su s0.sv newP
      let updW := @volPerm K ⟨0⟩ dir n s0.su s0.sv newW
      (ratAssign updP updW).map fun net =>
        match dir with
        | Dir.u => { du := degOther, dv := s0.du, dw := s0.dv, ku := kvOther, kv := s0.ku, kw := s0.kv,
                     su := n, sv := s0.su, sw := s0.sv, pts := net }
        | Dir.v => { du := s0.du, dv := degOther, dw := s0.dv, ku := s0.ku, kv := kvOther, kw := s0.kv,
                     su := s0.su, sv := n, sw := s0.sv, pts := net }
        | Dir.w => { du := s0.du, dv := s0.dv, dw := degOther, ku := s0.ku, kv := s0.kv, kw := kvOther,
                     su := s0.su, sv := s0.sv, sw := n, pts := net }

/-- the homogeneous net of the swept copy: `[point_translate(p, vec) for p in obj.ctrlpts]` written into
    `deepcopy(obj)` through the `ctrlpts` setter -/
def sweptNet (vec : List K) (Pw : List (List K)) : List (List K) :=
  (nSetP (ratObj Pw) ((nGetP (ratObj Pw)).2.map (pointTranslate vec))).net

/-- repaired `sweep_vector` on a rational curve -/
def sweepCurveRat (vec : List K) (kvGen : κ) (C : Crv (List K) κ) : Option (Srf (List K) κ) :=
  constructSurfaceRat Dir.u 1 kvGen [C, { C with pts := sweptNet vec C.pts }]

/-- `sweep_vector` on a rational surface -/
def sweepSurfaceRat (vec : List K) (kvGen : κ) (S : Srf (List K) κ) : Option (Vol (List K) κ) :=
  constructVolumeRat Dir.w 1 kvGen [S, { S with pts := sweptNet vec S.pts }]

end
end Geomdl
