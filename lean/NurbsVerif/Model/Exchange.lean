import NurbsVerif.Model.Basis
/-
  Token-level model of geomdl/exchange.py, geomdl/_exchange.py, the file helpers of
  geomdl/compatibility.py and the per-file / per-record enumeration of geomdl/multi.py containers
  (property C14, export followed by import).

  Numbers are abstract tokens of type `K`: printing a number (`str`, `repr`, `"{:.18f}"`, `json`) and
  parsing it back (`float(...)`) is NOT modelled (trusted to round-trip up to the printed precision).
  What IS modelled is the structure of every format: which numbers are written, in which order
  (row / column order, the flips between v-row and u-row order, `(xw,yw,zw,w)` versus `(x,y,z,w)`),
  the headers (dimension, degrees, sizes, knot vectors), the enumeration of the shapes of a
  container, and how the readers reassemble the shapes (including what the setters called by the
  readers do: knot vectors are normalised, every imported shape is rational).

  The vmesh reader is the REPAIRED one (`range(dim_w)`); `vmeshReadPinned` is the pinned reader
  (`range(dim_w - 1)`, finding F-14a).  `save2d` is the REPAIRED `_save_ctrlpts2d_file`
  (separator test on `size_v`) and `flip2dFile` the repaired `flip_ctrlpts2d_file` (sizes swapped);
  `save2dPinned` / `flip2dFilePinned` are the pinned ones (finding F-14b).
  No Mathlib.
-/
namespace Geomdl
namespace Exch

/-! ## generic list plumbing -/

/-- `for i in range(m): for j in range(n): out.append(f i j)` -/
def tab {α : Type} (m n : Nat) (f : Nat → Nat → α) : List α :=
  (List.range m).flatMap (fun i => (List.range n).map (fun j => f i j))

/-- Python slice `l[a : a + n]` -/
def slice {α : Type} (l : List α) (a n : Nat) : List α := (l.drop a).take n

/-- `out = []; for w in range(n): out += g(l[w*S : (w+1)*S])` -/
def layers {α : Type} (l : List α) (S n : Nat) (g : List α → List α) : List α :=
  (List.range n).flatMap (fun w => g (slice l (w * S) S))

/-- all entries present -/
def allSome {α : Type} : List (Option α) → Option (List α)
  | [] => some []
  | none :: _ => none
  | some a :: r => match allSome r with
      | some as => some (a :: as)
      | none => none

/-- `compatibility.flip_ctrlpts`: v-row order (index `v + u*size_v`, the library's own layout) to
    u-row order (index `u + v*size_u`, the layout of the mesh files). -/
def flipCtrlpts {α : Type} (pts : List (List α)) (su sv : Nat) : List (List α) :=
  tab sv su (fun i j => pts.getD (i + j * sv) [])

/-- `compatibility.flip_ctrlpts_u`: u-row order to v-row order. -/
def flipCtrlptsU {α : Type} (pts : List (List α)) (su sv : Nat) : List (List α) :=
  tab su sv (fun i j => pts.getD (i + j * su) [])

/-- `compatibility.flip_ctrlpts2d`: `[u][v]` to `[v][u]` -/
def flipCtrlpts2d {α : Type} (g : List (List (List α))) (su sv : Nat) : List (List (List α)) :=
  (List.range sv).map (fun i => (List.range su).map (fun j => (g.getD j []).getD i []))

section
variable {K : Type} [Mul K] [Div K] [Zero K] [One K]

/-- one point of `generate_ctrlpts_weights`: `(xw,yw,zw,w) ↦ (x,y,z,w)` -/
def unweightPt (cpt : List K) : List K :=
  match cpt.getLast? with
  | none => []
  | some w => cpt.dropLast.map (· / w) ++ [w]

/-- one point of `generate_ctrlptsw`: `(x,y,z,w) ↦ (xw,yw,zw,w)` -/
def weightPt (cpt : List K) : List K :=
  match cpt.getLast? with
  | none => []
  | some w => cpt.dropLast.map (· * w) ++ [w]

/-- `compatibility.combine_ctrlpts_weights(ctrlpts, weights)` (`zip` truncates) -/
def combine (pts : List (List K)) (ws : List K) : List (List K) :=
  List.zipWith (fun pt w => pt.map (· * w) ++ [w]) pts ws

/-- `[1.0 for _ in range(n)]` -/
def ones (n : Nat) : List K := List.replicate n 1

/-- `compatibility.separate_ctrlpts_weights(ctrlptsw)[0]` -/
def separatePts (net : List (List K)) : List (List K) :=
  net.map (fun ptw => ptw.dropLast.map (· / ptw.getLastD 0))

/-- `compatibility.separate_ctrlpts_weights(ctrlptsw)[1]` -/
def separateWts (net : List (List K)) : List K := net.map (·.getLastD 0)

/-- the homogeneous net the mesh writers start from: `ctrlptsw` of a rational shape,
    `combine_ctrlpts_weights(ctrlpts)` (unit weights) of a non-rational one -/
def homNet (rational : Bool) (net : List (List K)) : List (List K) :=
  if rational then net else combine net (ones net.length)

/-- `obj.dimension`: length of a stored point, minus the weight for rational shapes -/
def dimOf (rational : Bool) (net : List (List K)) : Nat :=
  (net.headD []).length - (if rational then 1 else 0)

end

/-! ## shapes (what the property compares) -/

structure Crv (K : Type) where
  rational : Bool
  degree : Nat
  knots : List K
  /-- control points as stored (`_control_points`): homogeneous `(xw,..,w)` iff `rational` -/
  net : List (List K)

structure Srf (K : Type) where
  rational : Bool
  degU : Nat
  degV : Nat
  sizeU : Nat
  sizeV : Nat
  knotsU : List K
  knotsV : List K
  /-- stored net, index `v + u*sizeV` -/
  net : List (List K)

structure Vol (K : Type) where
  rational : Bool
  degU : Nat
  degV : Nat
  degW : Nat
  sizeU : Nat
  sizeV : Nat
  sizeW : Nat
  knotsU : List K
  knotsV : List K
  knotsW : List K
  /-- stored net, index `v + u*sizeV + w*sizeU*sizeV` -/
  net : List (List K)

/-! ## tokens and files -/

/-- one whitespace / separator delimited token of a text file -/
inductive Tok (K : Type) where
  | nat (n : Nat)
  | num (x : K)
  | word (s : String)

/-- a text file: lines of tokens -/
abbrev File (K : Type) := List (List (Tok K))

section
variable {K : Type} [NatCast K]

/-- `int(token)` -/
def Tok.nat? : Tok K → Option Nat
  | .nat n => some n
  | _ => none

/-- `float(token)` -/
def Tok.num? : Tok K → Option K
  | .num x => some x
  | .nat n => some (n : K)
  | .word _ => none

def lineNums (l : List (Tok K)) : Option (List K) := allSome (l.map Tok.num?)
def linesNums (f : List (List (Tok K))) : Option (List (List K)) := allSome (f.map lineNums)
/-- `int(content[i][j])` -/
def natAt (f : File K) (i j : Nat) : Option Nat :=
  match (f.getD i [])[j]? with
  | some t => t.nat?
  | none => none
end

section
variable {K : Type} [Add K] [Sub K] [Mul K] [Div K] [Zero K] [One K] [NatCast K] [LE K]
  [DecidableRel (α := K) (· ≤ ·)] [DecidableEq K]

/-- what the knot vector setters called by every reader accept: `knotvector.check` and a
    non-degenerate range (otherwise `knotvector.normalize` divides by zero) -/
def kvOk (p : Nat) (U : List K) (n : Nat) : Bool :=
  decide (1 ≤ p) && decide (p + 1 ≤ n) && knotCheck p U n && !(decide (U.headD 0 = U.getLastD 0))

/-! ## smesh (surface mesh files) -/

/-- `exchange.export_smesh`, the text of one surface: dimension / degrees / sizes / two knot
    vectors / the control points in u-row order as `(x,y,z,w)` / `1`. -/
def smeshWrite (s : Srf K) : File K :=
  let pts := homNet s.rational s.net
  [[Tok.nat (dimOf s.rational s.net)], [Tok.nat s.degU, Tok.nat s.degV], [Tok.nat s.sizeU, Tok.nat s.sizeV],
   s.knotsU.map Tok.num, s.knotsV.map Tok.num]
  ++ ((flipCtrlpts pts s.sizeU s.sizeV).map unweightPt).map (·.map Tok.num)
  ++ [[Tok.nat 1]]

/-- `_exchange.import_surf_mesh`; `none` where the reader (or a setter it calls) raises -/
def smeshRead (f : File K) : Option (Srf K) := do
  let dim ← natAt f 0 0
  if dim ≠ 3 then none
  let pu ← natAt f 1 0
  let pv ← natAt f 1 1
  let su ← natAt f 2 0
  let sv ← natAt f 2 1
  let mesh ← linesNums (slice f 5 (su * sv))
  if mesh.length ≠ su * sv then none
  let Uu ← lineNums (f.getD 3 [])
  let Uv ← lineNums (f.getD 4 [])
  let net := (flipCtrlptsU mesh su sv).map weightPt
  if !(kvOk pu Uu su && kvOk pv Uv sv) then none
  some { rational := true, degU := pu, degV := pv, sizeU := su, sizeV := sv,
         knotsU := knotNormalize Uu, knotsV := knotNormalize Uv, net := net }

/-! ## vmesh (volume mesh files) -/

/-- `exchange.export_vmesh`, the text of one volume: every w-layer is flipped to u-row order -/
def vmeshWrite (v : Vol K) : File K :=
  let pts := homNet v.rational v.net
  let S := v.sizeU * v.sizeV
  [[Tok.nat (dimOf v.rational v.net)], [Tok.nat v.degU, Tok.nat v.degV, Tok.nat v.degW],
   [Tok.nat v.sizeU, Tok.nat v.sizeV, Tok.nat v.sizeW],
   v.knotsU.map Tok.num, v.knotsV.map Tok.num, v.knotsW.map Tok.num]
  ++ ((layers pts S v.sizeW (fun l => flipCtrlpts l v.sizeU v.sizeV)).map unweightPt).map (·.map Tok.num)
  ++ [[Tok.nat 1]]

/-- `_exchange.import_vol_mesh` reading `nl sw` layers: `nl = id` is the repaired reader,
    `nl = (· - 1)` the pinned one -/
def vmeshReadWith (nl : Nat → Nat) (f : File K) : Option (Vol K) := do
  let dim ← natAt f 0 0
  if dim ≠ 3 then none
  let pu ← natAt f 1 0
  let pv ← natAt f 1 1
  let pw ← natAt f 1 2
  let su ← natAt f 2 0
  let sv ← natAt f 2 1
  let sw ← natAt f 2 2
  let S := su * sv
  let mesh ← linesNums (slice f 6 (S * sw))
  if mesh.length ≠ S * sw then none
  let Uu ← lineNums (f.getD 3 [])
  let Uv ← lineNums (f.getD 4 [])
  let Uw ← lineNums (f.getD 5 [])
  let net := (layers mesh S (nl sw) (fun l => flipCtrlptsU l su sv)).map weightPt
  if !(kvOk pu Uu su && kvOk pv Uv sv && kvOk pw Uw sw) then none
  some { rational := true, degU := pu, degV := pv, degW := pw, sizeU := su, sizeV := sv, sizeW := sw,
         knotsU := knotNormalize Uu, knotsV := knotNormalize Uv, knotsW := knotNormalize Uw, net := net }

/-- the repaired reader (`for i in range(dim_w)`) -/
def vmeshRead (f : File K) : Option (Vol K) := vmeshReadWith id f
/-- the pinned reader (`for i in range(dim_w - 1)`, F-14a) -/
def vmeshReadPinned (f : File K) : Option (Vol K) := vmeshReadWith (· - 1) f

/-! ## per-file enumeration of containers (`export_smesh` / `export_vmesh`, `multi.py` iteration) -/

/-- file-name suffixes: a single shape keeps the name, `n > 1` shapes get `.1 … .n` (in container order) -/
def enumerate {α : Type} (l : List α) : List (Option Nat × α) :=
  if l.length > 1 then (List.range l.length).zipWith (fun i x => (some (i + 1), x)) l
  else l.map (fun x => (none, x))

def smeshWriteAll (l : List (Srf K)) : List (Option Nat × File K) := enumerate (l.map smeshWrite)
def vmeshWriteAll (l : List (Vol K)) : List (Option Nat × File K) := enumerate (l.map vmeshWrite)
/-- `import_smesh(directory)` on the files in the order given -/
def smeshReadAll (fs : List (Option Nat × File K)) : Option (List (Srf K)) := allSome (fs.map (fun p => smeshRead p.2))
def vmeshReadAll (fs : List (Option Nat × File K)) : Option (List (Vol K)) := allSome (fs.map (fun p => vmeshRead p.2))

end

/-! ## control point text files (`export_txt` / `import_txt`, `export_csv` / `import_csv`) -/

/-- `_exchange.export_text_data(two_dimensional=False)`: one stored point per line -/
def txtWrite {K : Type} (net : List (List K)) : File K := net.map (·.map Tok.num)

/-- `_exchange.import_text_data(two_dimensional=False)` -/
def txtRead {K : Type} [NatCast K] (f : File K) : Option (List (List K)) := linesNums f

/-- a 2-D control point file: lines (u) of points (v) of coordinates -/
abbrev File2 (K : Type) := List (List (List (Tok K)))

/-- `_exchange.export_text_data(two_dimensional=True)`: line `i` holds the points `j + size_v*i`, `j < size_v` -/
def txt2Write {K : Type} (net : List (List K)) (su sv : Nat) : File2 K :=
  (List.range su).map (fun i => (List.range sv).map (fun j => (net.getD (j + sv * i) []).map Tok.num))

/-- `_exchange.import_text_data(two_dimensional=True)`: points of all lines appended, `size_u` = number of
    lines, `size_v` = number of points of the last line -/
def txt2Read {K : Type} [NatCast K] (f : File2 K) : Option (List (List K) × Nat × Nat) :=
  match allSome (f.map linesNums) with
  | some rows => some (rows.flatten, rows.length, (rows.getLastD []).length)
  | none => none

/-- `export_csv(point_type='ctrlpts')`: header `dim 1, …, dim n` (n = length of the first point), then as `txtWrite` -/
def csvWrite {K : Type} (net : List (List K)) : File K :=
  ((List.range (net.headD []).length).flatMap (fun i => [Tok.word "dim", Tok.nat (i + 1)])) :: txtWrite net

/-- `import_csv`: the first line is skipped -/
def csvRead {K : Type} [NatCast K] (f : File K) : Option (List (List K)) := txtRead (f.drop 1)

/-! ## the 2-D file helpers of `compatibility.py` -/

section
variable {K : Type} [Mul K] [Div K] [Zero K] [One K] [NatCast K]

/-- `_read_ctrltps2d_file` -/
def read2d (f : File2 K) : Option (List (List (List K)) × Nat × Nat) :=
  match allSome (f.map linesNums) with
  | some rows => some (rows, rows.length, (rows.getLastD []).length)
  | none => none

/-- a line of the saved file: points, and whether the line is ended after each point
    (`true` = `"\n"` follows, `false` = `";"` follows) -/
abbrev Saved (K : Type) := List (List (List K × Bool))

/-- REPAIRED `_save_ctrlpts2d_file(ctrlpts2d, size_u, size_v)`: `size_u` rows of `size_v` points, the line
    ends after point `size_v - 1`; `none` where indexing `ctrlpts2d[i][j]` raises -/
def save2dWith (endAt : Nat) (g : List (List (List K))) (su sv : Nat) : Option (Saved K) :=
  allSome ((List.range su).map (fun i => allSome ((List.range sv).map (fun j =>
    match g[i]? with
    | some row => match row[j]? with
        | some pt => some (pt, decide (j = endAt))
        | none => none
    | none => none))))

def save2d (g : List (List (List K))) (su sv : Nat) : Option (Saved K) := save2dWith (sv - 1) g su sv
/-- pinned `_save_ctrlpts2d_file`: the line ends after point `size_u - 1` (F-14b) -/
def save2dPinned (g : List (List (List K))) (su sv : Nat) : Option (Saved K) := save2dWith (su - 1) g su sv

/-- the text the saved structure denotes: a new line starts after every `true` -/
def savedLines (s : Saved K) : List (List (List K)) :=
  let flat := s.flatten
  let step (acc : List (List (List K)) × List (List K)) (p : List K × Bool) :=
    if p.2 then (acc.1 ++ [acc.2 ++ [p.1]], []) else (acc.1, acc.2 ++ [p.1])
  let r := flat.foldl step ([], [])
  if r.2.isEmpty then r.1 else r.1 ++ [r.2]

/-- REPAIRED `flip_ctrlpts2d_file`: read, flip `[u][v] → [v][u]`, save with the sizes swapped -/
def flip2dFile (f : File2 K) : Option (List (List (List K))) :=
  match read2d f with
  | some (g, su, sv) => (save2d (flipCtrlpts2d g su sv) sv su).map savedLines
  | none => none

/-- pinned `flip_ctrlpts2d_file`: saves the flipped array with the unflipped sizes -/
def flip2dFilePinned (f : File2 K) : Option (List (List (List K))) :=
  match read2d f with
  | some (g, su, sv) => (save2dPinned (flipCtrlpts2d g su sv) su sv).map savedLines
  | none => none

/-- `generate_ctrlptsw2d_file` (repaired saver) -/
def weight2dFile (f : File2 K) : Option (List (List (List K))) :=
  match read2d f with
  | some (g, su, sv) => (save2d (g.map (·.map weightPt)) su sv).map savedLines
  | none => none

/-- `generate_ctrlpts2d_weights_file` (repaired saver) -/
def unweight2dFile (f : File2 K) : Option (List (List (List K))) :=
  match read2d f with
  | some (g, su, sv) => (save2d (g.map (·.map unweightPt)) su sv).map savedLines
  | none => none

/-- the same two with the pinned saver -/
def weight2dFilePinned (f : File2 K) : Option (List (List (List K))) :=
  match read2d f with
  | some (g, su, sv) => (save2dPinned (g.map (·.map weightPt)) su sv).map savedLines
  | none => none

end

/-! ## the dict form behind JSON / YAML / libconfig (`export_dict_*`, `import_dict_*`) -/

/-- `export_dict_crv` output (key order of the dict literal) -/
structure CrvRec (K : Type) where
  rational : Bool
  dimension : Nat
  degree : Nat
  knotvector : List K
  points : List (List K)
  weights : Option (List K)
  delta : K
  reversed : Option Bool

/-- `export_dict_ff` output -/
structure FfRec (K : Type) where
  dimension : Nat
  points : List (List K)
  name : String
  reversed : Option Bool

/-- `export_dict_multi_crv` output (only spline curves can be members, see `multi.AbstractContainer.add`) -/
structure MultiRec (K : Type) where
  count : Nat
  data : List (CrvRec K)
  reversed : Option Bool

inductive TrimRec (K : Type) where
  | spline (c : CrvRec K)
  | freeform (f : FfRec K)
  | container (m : MultiRec K)

structure SrfRec (K : Type) where
  rational : Bool
  dimension : Nat
  degU : Nat
  degV : Nat
  knotsU : List K
  knotsV : List K
  sizeU : Nat
  sizeV : Nat
  points : List (List K)
  weights : Option (List K)
  delta : K × K
  reversed : Option Bool
  /-- `none` = no `trims` key (written only when the surface has trims) -/
  trims : Option (Nat × List (TrimRec K))

structure VolRec (K : Type) where
  rational : Bool
  dimension : Nat
  degU : Nat
  degV : Nat
  degW : Nat
  knotsU : List K
  knotsV : List K
  knotsW : List K
  sizeU : Nat
  sizeV : Nat
  sizeW : Nat
  points : List (List K)
  weights : Option (List K)
  delta : K × K × K

/-- the top-level dict: `shape.type`, `shape.count`, `shape.data` -/
inductive ShapeRec (K : Type) where
  | curve (count : Nat) (data : List (CrvRec K))
  | surface (count : Nat) (data : List (SrfRec K))
  | volume (count : Nat) (data : List (VolRec K))

/-! shapes with the extra state the dict form carries -/

structure CrvX (K : Type) where
  g : Crv K
  delta : K
  /-- `opt['reversed']` (trim curve sense) -/
  reversed : Option Bool

structure Ff (K : Type) where
  points : List (List K)
  name : String
  reversed : Option Bool

inductive Trim (K : Type) where
  | spline (c : CrvX K)
  | freeform (f : Ff K)
  | container (items : List (CrvX K)) (reversed : Option Bool)

structure SrfX (K : Type) where
  g : Srf K
  delta : K × K
  reversed : Option Bool
  trims : List (Trim K)

structure VolX (K : Type) where
  g : Vol K
  delta : K × K × K

/-- a curve / surface / volume or a container of them (`multi.py`: iteration order = insertion order) -/
inductive Shapes (K : Type) where
  | curves (l : List (CrvX K))
  | surfaces (l : List (SrfX K))
  | volumes (l : List (VolX K))

section
variable {K : Type} [Add K] [Sub K] [Mul K] [Div K] [Zero K] [One K] [LT K] [DecidableRel (α := K) (· < ·)]

/-- `control_points.points` / `.weights` of a stored net -/
def recPoints (rational : Bool) (net : List (List K)) : List (List K) := if rational then separatePts net else net
def recWeights (rational : Bool) (net : List (List K)) : Option (List K) := if rational then some (separateWts net) else none
/-- what the importer stores: `shape.ctrlpts = points` (unit weights), then `shape.weights = weights` if present -/
def recNet (points : List (List K)) (weights : Option (List K)) : List (List K) :=
  let net1 := combine points (ones points.length)
  match weights with
  | some ws => combine (separatePts net1) ws
  | none => net1

def exportCrv (c : CrvX K) : CrvRec K :=
  { rational := c.g.rational, dimension := dimOf c.g.rational c.g.net, degree := c.g.degree,
    knotvector := c.g.knots, points := recPoints c.g.rational c.g.net, weights := recWeights c.g.rational c.g.net,
    delta := c.delta, reversed := c.reversed }

/-- `import_dict_str`'s `if 0.0 < delta < 1.0: temp.delta = delta` -/
def pickDelta (override : Option K) (d : K) : K :=
  match override with
  | some o => if 0 < o ∧ o < 1 then o else d
  | none => d

def pickDelta2 (override : Option K) (d : K × K) : K × K :=
  match override with
  | some o => if 0 < o ∧ o < 1 then (o, o) else d
  | none => d

def pickDelta3 (override : Option K) (d : K × K × K) : K × K × K :=
  match override with
  | some o => if 0 < o ∧ o < 1 then (o, o, o) else d
  | none => d

def importCrv (override : Option K) (r : CrvRec K) : CrvX K :=
  { g := { rational := true, degree := r.degree, knots := knotNormalize r.knotvector, net := recNet r.points r.weights },
    delta := pickDelta override r.delta, reversed := r.reversed }

def exportFf (f : Ff K) : FfRec K :=
  { dimension := (f.points.headD []).length, points := f.points, name := f.name, reversed := f.reversed }
def importFf (r : FfRec K) : Ff K := { points := r.points, name := r.name, reversed := r.reversed }

def exportTrim : Trim K → TrimRec K
  | .spline c => .spline (exportCrv c)
  | .freeform f => .freeform (exportFf f)
  | .container items rev => .container { count := items.length, data := items.map exportCrv, reversed := rev }

/-- trims are imported without the `delta` override (it applies to the top-level shapes only) -/
def importTrim : TrimRec K → Trim K
  | .spline c => .spline (importCrv none c)
  | .freeform f => .freeform (importFf f)
  | .container m => .container (m.data.map (importCrv none)) m.reversed

def exportSrf (s : SrfX K) : SrfRec K :=
  { rational := s.g.rational, dimension := dimOf s.g.rational s.g.net, degU := s.g.degU, degV := s.g.degV,
    knotsU := s.g.knotsU, knotsV := s.g.knotsV, sizeU := s.g.sizeU, sizeV := s.g.sizeV,
    points := recPoints s.g.rational s.g.net, weights := recWeights s.g.rational s.g.net,
    delta := s.delta, reversed := s.reversed,
    trims := if s.trims.isEmpty then none else some (s.trims.length, s.trims.map exportTrim) }

def importSrf (override : Option K) (r : SrfRec K) : SrfX K :=
  { g := { rational := true, degU := r.degU, degV := r.degV, sizeU := r.sizeU, sizeV := r.sizeV,
           knotsU := knotNormalize r.knotsU, knotsV := knotNormalize r.knotsV, net := recNet r.points r.weights },
    delta := pickDelta2 override r.delta,
    reversed := r.reversed,
    trims := match r.trims with
      | some (_, l) => l.map importTrim
      | none => [] }

def exportVol (v : VolX K) : VolRec K :=
  { rational := v.g.rational, dimension := dimOf v.g.rational v.g.net, degU := v.g.degU, degV := v.g.degV, degW := v.g.degW,
    knotsU := v.g.knotsU, knotsV := v.g.knotsV, knotsW := v.g.knotsW,
    sizeU := v.g.sizeU, sizeV := v.g.sizeV, sizeW := v.g.sizeW,
    points := recPoints v.g.rational v.g.net, weights := recWeights v.g.rational v.g.net, delta := v.delta }

def importVol (override : Option K) (r : VolRec K) : VolX K :=
  { g := { rational := true, degU := r.degU, degV := r.degV, degW := r.degW, sizeU := r.sizeU, sizeV := r.sizeV, sizeW := r.sizeW,
           knotsU := knotNormalize r.knotsU, knotsV := knotNormalize r.knotsV, knotsW := knotNormalize r.knotsW,
           net := recNet r.points r.weights },
    delta := pickDelta3 override r.delta }

/-- `_exchange.export_dict_str`: one record per element, in container order, `count = len(obj)` -/
def exportShapes : Shapes K → ShapeRec K
  | .curves l => .curve l.length (l.map exportCrv)
  | .surfaces l => .surface l.length (l.map exportSrf)
  | .volumes l => .volume l.length (l.map exportVol)

/-- `_exchange.import_dict_str`: a list of shapes in record order (`count` is not read) -/
def importShapes (override : Option K) : ShapeRec K → Shapes K
  | .curve _ d => .curves (d.map (importCrv override))
  | .surface _ d => .surfaces (d.map (importSrf override))
  | .volume _ d => .volumes (d.map (importVol override))

/-! the reimported shape one expects: rational, homogeneous net, knots normalised -/

def Crv.asRational (c : Crv K) : Crv K :=
  { rational := true, degree := c.degree, knots := knotNormalize c.knots, net := homNet c.rational c.net }
def Srf.asRational (s : Srf K) : Srf K :=
  { rational := true, degU := s.degU, degV := s.degV, sizeU := s.sizeU, sizeV := s.sizeV,
    knotsU := knotNormalize s.knotsU, knotsV := knotNormalize s.knotsV, net := homNet s.rational s.net }
def Vol.asRational (v : Vol K) : Vol K :=
  { rational := true, degU := v.degU, degV := v.degV, degW := v.degW, sizeU := v.sizeU, sizeV := v.sizeV, sizeW := v.sizeW,
    knotsU := knotNormalize v.knotsU, knotsV := knotNormalize v.knotsV, knotsW := knotNormalize v.knotsW,
    net := homNet v.rational v.net }

/-- the same for the shapes with the extra state of the dict form; `ov` is the `delta=` keyword of the importer -/
def CrvX.asRational (ov : Option K) (c : CrvX K) : CrvX K :=
  { g := c.g.asRational, delta := pickDelta ov c.delta, reversed := c.reversed }
def Trim.asRational : Trim K → Trim K
  | .spline c => .spline (c.asRational none)
  | .freeform f => .freeform f
  | .container items rev => .container (items.map (CrvX.asRational none)) rev
def SrfX.asRational (ov : Option K) (s : SrfX K) : SrfX K :=
  { g := s.g.asRational, delta := pickDelta2 ov s.delta, reversed := s.reversed, trims := s.trims.map Trim.asRational }
def VolX.asRational (ov : Option K) (v : VolX K) : VolX K :=
  { g := v.g.asRational, delta := pickDelta3 ov v.delta }
def Shapes.asRational (ov : Option K) : Shapes K → Shapes K
  | .curves l => .curves (l.map (CrvX.asRational ov))
  | .surfaces l => .surfaces (l.map (SrfX.asRational ov))
  | .volumes l => .volumes (l.map (VolX.asRational ov))

end
end Exch
end Geomdl
