/-
  Knot refinement (`helpers.knot_refinement`, specified as the sequence of single knot insertions
  it must be equivalent to), knot removal (`helpers.knot_removal`, A5.8 as coded after the repair
  of defect F-06), splitting and Bézier decomposition (`operations.split_* / decompose_*`).
-/
import NurbsVerif.Model.Shape

namespace Geomdl
section
variable {K : Type} [Add K] [Sub K] [Mul K] [Div K] [Neg K] [Zero K] [One K] [NatCast K]
  [LT K] [LE K] [DecidableRel (α := K) (· < ·)] [DecidableRel (α := K) (· ≤ ·)] [DecidableEq K]

/-! ### refinement -/

def insertSorted (x : K) : List K → List K
  | [] => [x]
  | y :: ys => if x ≤ y then x :: y :: ys else y :: insertSorted x ys

/-- `sorted(set(l))` -/
def sortDedup (l : List K) : List K :=
  l.foldl (fun acc x => if acc.contains x then acc else insertSorted x acc) []

/-- one round of the density loop: every interval gets its midpoint `a + (b - a)/2` -/
def densify : List K → List K
  | a :: b :: rest => a :: (a + (b - a) / (1 + 1)) :: densify (b :: rest)
  | l => l

def iterate (f : List K → List K) : Nat → List K → List K
  | 0, l => l
  | n+1, l => iterate f n (f l)

/-- the list `X` of knots to insert: default knot list `U[p:-p]`, `density` rounds, `p - s` copies each -/
def refineX (p : Nat) (U : List K) (density : Nat) (tol : K) : List K :=
  let kl := iterate densify density (sortDedup ((U.drop p).take (U.length - 2 * p)))
  kl.flatMap (fun mk => List.replicate (p - findMultiplicity mk U tol) mk)

/-- the list `X` for an explicit `knot_list` (`none` = default `U[p:-p]`) and `add_knot_list`, as
    `helpers.knot_refinement` computes it: merge, `sorted(set(..))`, `density` bisection rounds,
    `p - s` copies of every listed knot -/
def refineXOf (p : Nat) (U : List K) (kl : Option (List K)) (add : List K) (density : Nat) (tol : K) : List K :=
  let base := match kl with
    | some l => l
    | none => (U.drop p).take (U.length - 2 * p)
  let ks := iterate densify density (sortDedup (base ++ add))
  ks.flatMap (fun mk => List.replicate (p - findMultiplicity mk U tol) mk)

/-- insert one knot once (span and multiplicity recomputed on the current knot vector) -/
def insertOne (p : Nat) (tol : K) (st : List K × List (List K)) (x : K) : List K × List (List K) :=
  let k := findSpanLinear p (fnOf st.1) st.2.length x
  let s := findMultiplicity x st.1 tol
  (knotInsertionKv st.1 x k 1, knotInsertion p (fnOf st.1) st.2 x 1 s k)

/-- what `helpers.knot_refinement(p, U, P, density=d)` must return: the knots `X` inserted one by
    one (B-spline control points over a given knot vector are unique, so any correct refinement
    algorithm – A5.4 in the code – returns exactly these); `none` = "Cannot refine knot vector" -/
def knotRefinement (p : Nat) (U : List K) (P : List (List K)) (density : Nat) (tol : K) :
    Option (List K × List (List K)) :=
  let X := refineX p U density tol
  if X.isEmpty then none else some (X.foldl (insertOne p tol) (U, P))

/-- helper-level `helpers.knot_refinement(p, U, P, knot_list=kl, add_knot_list=add, density=d)` -/
def knotRefinementOf (p : Nat) (U : List K) (P : List (List K)) (kl : Option (List K)) (add : List K)
    (density : Nat) (tol : K) : Option (List K × List (List K)) :=
  let X := refineXOf p U kl add density tol
  if X.isEmpty then none else some (X.foldl (insertOne p tol) (U, P))

def refineDir (S : Shape K) (dir density : Nat) (tol : K) : Option (Shape K) :=
  let p := S.deg dir
  let U := S.kv dir
  let X := refineX p U density tol
  if X.isEmpty then none
  else
    let res := S.mapDir dir (fun c => (X.foldl (insertOne p tol) (U, c)).2)
    let kv' := (X.foldl (insertOne p tol) (U, (List.replicate (S.size dir) ([] : List K)))).1
    some { S with kvs := S.kvs.set dir kv', sizes := S.sizes.set dir res.2, net := res.1 }

/-- `operations.refine_knotvector(obj, densities)` -/
def refineKnotvector (S : Shape K) (dens : List Nat) (tol : K) : Shape K × Bool :=
  (List.range S.pdim).foldl (fun (acc : Shape K × Bool) d =>
    if acc.2 = false then acc
    else if dens.getD d 0 = 0 then acc
    else match refineDir acc.1 d (dens.getD d 0) tol with
      | some S' => (S', true)
      | none => (acc.1, false)) (S, true)

/-! ### removal (A5.8) -/

def sqDist (a b : List K) : K := (List.zipWith (fun x y => (x - y) * (x - y)) a b).foldl (· + ·) 0

/-- `helpers.knot_removal_kv(U, span, r)` -/
def knotRemovalKv (U : List K) (span r : Nat) : List K :=
  if r = 0 then U else U.take (span + 1 - r) ++ U.drop (span + 1)

def alphaI (U : Nat → K) (u : K) (p t i : Nat) : K := (u - U i) / (U (i + p + 1 + t) - U i)
def alphaJ (U : Nat → K) (u : K) (p t j : Nat) : K := (u - U (j - t)) / (U (j + p + 1) - U (j - t))

structure RemSt (K : Type) where
  temp : List (List K)
  i : Nat
  j : Nat
  ii : Nat
  jj : Nat

/-- the `while j - i > t` sweep of one removal step -/
def remSweep (U : Nat → K) (u : K) (p t : Nat) (cp : List (List K)) : Nat → RemSt K → RemSt K
  | 0, st => st
  | fuel+1, st =>
    if st.i + t < st.j then
      let ai := alphaI U u p t st.i
      let aj := alphaJ U u p t st.j
      let ti := List.zipWith (fun cpt x => (cpt - (1 - ai) * x) / ai) (ptsGet cp st.i) (ptsGet st.temp (st.ii - 1))
      let temp1 := st.temp.set st.ii ti
      let tj := List.zipWith (fun cpt x => (cpt - aj * x) / (1 - aj)) (ptsGet cp st.j) (ptsGet temp1 (st.jj + 1))
      let temp2 := temp1.set st.jj tj
      remSweep U u p t cp fuel { temp := temp2, i := st.i + 1, j := st.j - 1, ii := st.ii + 1, jj := st.jj - 1 }
    else st

/-- the `while j - i > t` copy-back loop -/
def remCopy (temp : List (List K)) (first t : Nat) : Nat → Nat → Nat → List (List K) → List (List K)
  | 0, _, _, cp => cp
  | fuel+1, i, j, cp =>
    if i + t < j then
      let cp1 := cp.set i (ptsGet temp (i - first + 1))
      let cp2 := cp1.set j (ptsGet temp (j - first + 1))
      remCopy temp first t fuel (i + 1) (j - 1) cp2
    else cp

/-- one removal step `t` (state: working control points, temp, first, last) -/
def remStep (U : Nat → K) (u : K) (p : Nat) (tol2 : K)
    (st : List (List K) × List (List K) × Nat × Nat) (t : Nat) : List (List K) × List (List K) × Nat × Nat :=
  let cp := st.1
  let first := st.2.2.1
  let last := st.2.2.2
  let temp0 := (st.2.1.set 0 (ptsGet cp (first - 1))).set (last - first + 2) (ptsGet cp (last + 1))
  let sw := remSweep U u p t cp (p + 2) { temp := temp0, i := first, j := last, ii := 1, jj := last - first + 1 }
  let remflag : Bool :=
    if sw.j < sw.i + t then decide (sqDist (ptsGet sw.temp (sw.ii - 1)) (ptsGet sw.temp (sw.jj + 1)) ≤ tol2)
    else
      let ai := alphaI U u p t sw.i
      let ptn := List.zipWith (fun t1 t2 => ai * t1 + (1 - ai) * t2) (ptsGet sw.temp (sw.ii + t + 1)) (ptsGet sw.temp (sw.ii - 1))
      decide (sqDist (ptsGet cp sw.i) ptn ≤ tol2)
  let cp' := if remflag then remCopy sw.temp first t (p + 2) first last cp else cp
  (cp', sw.temp, first - 1, last + 1)

/-- `helpers.knot_removal(p, U, P, u, num=num, s=s, span=r)` (repaired code) -/
def knotRemoval (p : Nat) (U : Nat → K) (P : List (List K)) (u : K) (num s r : Nat) (tol2 : K) : List (List K) :=
  if num = 0 then P else
  let st0 : List (List K) × List (List K) × Nat × Nat := (P, List.replicate (2 * p + 1) [], r - p, r - s)
  let st := (List.range num).foldl (remStep U u p tol2) st0
  let cp := st.1
  let t := num
  let j0 := (2 * r - s - p) / 2
  -- for k in 1..t-1: odd → i += 1, even → j -= 1
  let i := j0 + t / 2
  let j := j0 - (t - 1) / 2
  let shifted := (List.range (P.length - (i + 1))).foldl (fun (c : List (List K)) k => c.set (j + k) (ptsGet c (i + 1 + k))) cp
  shifted.take (P.length - t)

def removeKnotDir (S : Shape K) (dir : Nat) (u : K) (num : Nat) (tol tol2 : K) (check : Bool) : Option (Shape K) :=
  let p := S.deg dir
  let U := S.kv dir
  let s := findMultiplicity u U tol
  if check ∧ num > s then none
  else
    let span := findSpanLinear p (fnOf U) (S.size dir) u
    let res := S.mapDir dir (fun c => knotRemoval p (fnOf U) c u num s span tol2)
    some { S with kvs := S.kvs.set dir (knotRemovalKv U span num), sizes := S.sizes.set dir res.2, net := res.1 }

def removeKnot (S : Shape K) (params : List (Option K)) (nums : List Nat) (tol tol2 : K) (check : Bool) : Shape K × Bool :=
  (List.range S.pdim).foldl (fun (acc : Shape K × Bool) d =>
    if acc.2 = false then acc else
      match params.getD d none with
      | none => acc
      | some u =>
        if nums.getD d 0 = 0 then acc
        else match removeKnotDir acc.1 d u (nums.getD d 0) tol tol2 check with
          | some S' => (S', true)
          | none => (acc.1, false)) (S, true)

/-! ### splitting and decomposition -/

/-- pieces are built by `obj.__class__()`, i.e. with knot-vector normalisation -/
def normKv (U : List K) : List K := knotNormalize U

/-- `operations.split_curve` / `split_surface_u` / `split_surface_v` along direction `dir`;
    `none` = rejected (parameter on a domain end) -/
def splitDir (S : Shape K) (dir : Nat) (u : K) (tol : K) : Option (Shape K × Shape K) :=
  let p := S.deg dir
  let U := S.kv dir
  let n := S.size dir
  if u = U.getD p 0 ∨ u = U.getD n 0 then none
  else
    let ks := findSpanLinear p (fnOf U) n u - p + 1
    let s := findMultiplicity u U tol
    let r := p - s
    let S' : Shape K := if r = 0 then S else
      match insertKnotDir S dir u r tol false with
      | some T => T
      | none => S
    let U' := S'.kv dir
    let knotSpan := findSpanLinear p (fnOf U') (S'.size dir) u + 1
    let kv1 := U'.take knotSpan ++ [u]
    let kv2 := List.replicate (p + 1) u ++ U'.drop knotSpan
    let cut1 := ks + r
    let cut2 := ks + r - 1
    -- slices of the net along `dir`
    let piece (lo hi : Nat) : List (List K) × Nat :=
      S'.mapDir dir (fun c => (c.take hi).drop lo)
    let p1 := piece 0 cut1
    let p2 := piece cut2 (S'.size dir)
    let mk (kv : List K) (pc : List (List K) × Nat) : Shape K :=
      { S' with kvs := (S'.kvs.set dir kv).map normKv, sizes := S'.sizes.set dir pc.2, net := pc.1 }
    some (mk kv1 p1, mk kv2 p2)

/-- `operations.decompose_curve` and one direction of `decompose_surface`: split repeatedly at the
    first interior knot (of the normalised remainder) -/
def decomposeDir (dir : Nat) (tol : K) : Nat → Shape K → List (Shape K)
  | 0, S => [S]
  | fuel+1, S =>
    let p := S.deg dir
    let U := S.kv dir
    let interior := (U.drop (p + 1)).take (U.length - 2 * (p + 1))
    match interior with
    | [] => [S]
    | knot :: _ =>
      match splitDir S dir knot tol with
      | some (a, b) => a :: decomposeDir dir tol fuel b
      | none => [S]

/-- `operations.decompose_surface(obj, decompose_dir='uv')`: decomposition in u, then every strip in
    v, u-major order (fuel: the lengths of the knot vectors, always enough) -/
def decomposeUV (tol : K) (S : Shape K) : List (Shape K) :=
  (decomposeDir 0 tol (S.kv 0).length S).flatMap (fun T => decomposeDir 1 tol (T.kv 1).length T)

end
end Geomdl
