namespace Lin
section
variable {K : Type} [Add K] [Sub K] [Mul K] [Div K] [Zero K] [One K]

/-- Python `sum([f j for j in range(n)])` -/
def sumTo (n : Nat) (f : Nat → K) : K := (List.range n).foldl (fun acc j => acc + f j) 0

structure LU (K : Type) where
  urows : List (List K)   -- urows[j][k] = U[j][k]
  lcols : List (List K)   -- lcols[j][k] = L[k][j]

def LU.U (st : LU K) (j k : Nat) : K := (st.urows.getD j []).getD k 0
def LU.L (st : LU K) (k j : Nat) : K := (st.lcols.getD j []).getD k 0

/-- one outer iteration `i` of `_linalg.doolittle` (row `i` of U, column `i` of L) -/
def luStep (A : Nat → Nat → K) (n : Nat) (st : LU K) : LU K :=
  let i := st.urows.length
  let urow := (List.range n).map (fun k =>
    if k < i then 0 else A i k - sumTo i (fun j => st.L i j * st.U j k))
  let piv := urow.getD i 0
  let lcol := (List.range n).map (fun k =>
    if k < i then 0 else if k = i then 1 else (A k i - sumTo i (fun j => st.L k j * st.U j i)) / piv)
  ⟨st.urows ++ [urow], st.lcols ++ [lcol]⟩

def luSteps (A : Nat → Nat → K) (n : Nat) : Nat → LU K
  | 0 => ⟨[], []⟩
  | m+1 => luStep A n (luSteps A n m)

def doolittle (A : Nat → Nat → K) (n : Nat) : LU K := luSteps A n n
end
end Lin
