import NurbsVerif.Lemmas.SurfDerivPoly

/-! The surface derivative model `surfaceDersAt` (A3.6 / A3.8 as specified through `basisDers`):
    entry `[k][l]` is the mixed partial derivative `∂ᵏ/∂uᵏ ∂ˡ/∂vˡ` of the bivariate span polynomial
    at `(u, v)`. -/
namespace Geomdl
open Blossom Polynomial Finset
open scoped Polynomial.Bivariate
variable {K : Type} [Field K] [LinearOrder K] [IsStrictOrderedRing K]

theorem flat_index_lt (a b su sv : ℕ) (ha : a < su) (hb : b < sv) : b + sv * a < su * sv :=
  calc b + sv * a < sv + sv * a := by omega
    _ = sv * (a + 1) := by ring
    _ ≤ sv * su := Nat.mul_le_mul_left _ ha
    _ = su * sv := Nat.mul_comm _ _

theorem vzero_getD (d j : ℕ) : (vzero d : List K).getD j 0 = 0 := by
  simp only [vzero, List.getD_eq_getElem?_getD, List.getElem?_replicate]
  split <;> simp

/-- the entry `[k][l]` of the table, as the model computes it -/
theorem surfaceDersAt_entry (pu pv : ℕ) (Uu Uv : ℕ → K) (sv : ℕ) (P : List (List K)) (κu κv : ℕ) (u v : K)
    (order : ℕ) (tri : Bool) (k l : ℕ) (hk : k ≤ order) (hl : l ≤ order) :
    ((surfaceDersAt pu pv Uu Uv sv P κu κv u v order tri).getD k []).getD l []
      = if k ≤ min pu order ∧ l ≤ min pv order ∧ (tri = false ∨ k + l ≤ order) then
          linComb (dimOf P) ((basisDers pu Uu κu u (min pu order)).getD k []) ((List.range (pu+1)).map (fun r =>
            linComb (dimOf P) ((basisDers pv Uv κv v (min pv order)).getD l [])
              ((List.range (pv+1)).map (fun s => ptsGet P (κv - pv + s + sv * (κu - pu + r))))))
        else vzero (dimOf P) := by
  unfold surfaceDersAt
  simp only [List.getD_eq_getElem?_getD, List.getElem?_map]
  rw [List.getElem?_range (by omega)]
  simp only [Option.map_some, Option.getD_some, List.getElem?_map]
  rw [List.getElem?_range (by omega)]
  simp only [Option.map_some, Option.getD_some]

/-- the table has `order+1` rows of `order+1` entries -/
theorem surfaceDersAt_length (pu pv : ℕ) (Uu Uv : ℕ → K) (sv : ℕ) (P : List (List K)) (κu κv : ℕ) (u v : K)
    (order : ℕ) (tri : Bool) : (surfaceDersAt pu pv Uu Uv sv P κu κv u v order tri).length = order + 1 := by
  simp [surfaceDersAt]

theorem surfaceDersAt_row_length (pu pv : ℕ) (Uu Uv : ℕ → K) (sv : ℕ) (P : List (List K)) (κu κv : ℕ) (u v : K)
    (order : ℕ) (tri : Bool) (k : ℕ) (hk : k ≤ order) :
    ((surfaceDersAt pu pv Uu Uv sv P κu κv u v order tri).getD k []).length = order + 1 := by
  unfold surfaceDersAt
  simp only [List.getD_eq_getElem?_getD, List.getElem?_map]
  rw [List.getElem?_range (by omega)]
  simp

/-- every entry has the dimension of the control points -/
theorem surfaceDersAt_entry_length (pu pv : ℕ) (Uu Uv : ℕ → K) (su sv : ℕ) (P : List (List K)) (κu κv : ℕ) (u v : K)
    (d order : ℕ) (tri : Bool) (k l : ℕ)
    (hpu : pu ≤ κu) (hpv : pv ≤ κv) (hκu : κu < su) (hκv : κv < sv) (hlen : P.length = su * sv) (hP : NetOk d P)
    (hk : k ≤ order) (hl : l ≤ order) :
    (((surfaceDersAt pu pv Uu Uv sv P κu κv u v order tri).getD k []).getD l []).length = d := by
  have hpos : 0 < P.length := by
    have := flat_index_lt κu κv su sv hκu hκv
    omega
  rw [surfaceDersAt_entry pu pv Uu Uv sv P κu κv u v order tri k l hk hl, dimOf_eq hP hpos]
  split
  · apply linComb_length
    intro pt hpt
    simp only [List.mem_map, List.mem_range] at hpt
    obtain ⟨r, hr, rfl⟩ := hpt
    apply linComb_length
    intro pt hpt
    simp only [List.mem_map, List.mem_range] at hpt
    obtain ⟨s, hs, rfl⟩ := hpt
    apply ptsGet_length hP
    rw [hlen]
    exact flat_index_lt _ _ su sv (by omega) (by omega)
  · simp [vzero]

/-- **All mixed derivative orders (surfaces)**: entry `[k][l]`, coordinate `j`, of the model of
    `Surface.derivatives(u, v, order)` is the mixed partial derivative `∂ᵏ/∂uᵏ ∂ˡ/∂vˡ` of the bivariate
    span polynomial at `(u, v)`, for all `k, l ≤ order` (with the triangular evaluator: `k + l ≤ order`);
    zero above the degrees on both sides. -/
theorem surfaceDersAt_all (pu pv : ℕ) (Uu Uv : ℕ → K) (su sv : ℕ) (P : List (List K)) (κu κv : ℕ) (u v : K)
    (d j order k l : ℕ) (tri : Bool)
    (hpu : pu ≤ κu) (hpv : pv ≤ κv) (hκu : κu < su) (hκv : κv < sv) (hlen : P.length = su * sv) (hP : NetOk d P)
    (hmu : Monotone Uu) (hmv : Monotone Uv) (hspu : Uu κu < Uu (κu+1)) (hspv : Uv κv < Uv (κv+1))
    (hk : k ≤ order) (hl : l ≤ order) (htri : tri = false ∨ k + l ≤ order) :
    (((surfaceDersAt pu pv Uu Uv sv P κu κv u v order tri).getD k []).getD l []).getD j 0
      = (pderivU^[k] (pderivV^[l] (surfSpanPoly pu pv Uu Uv sv P κu κv j))).evalEval u v := by
  have hpos : 0 < P.length := by
    have := flat_index_lt κu κv su sv hκu hκv
    omega
  have hidx : ∀ r s, r ≤ pu → s ≤ pv → (ptsGet P (κv - pv + s + sv * (κu - pu + r))).length = d := by
    intro r s hr hs
    apply ptsGet_length hP
    rw [hlen]
    exact flat_index_lt _ _ su sv (by omega) (by omega)
  rw [evalEval_surfSpanPoly_pderiv, surfaceDersAt_entry pu pv Uu Uv sv P κu κv u v order tri k l hk hl,
    dimOf_eq hP hpos]
  by_cases hc : k ≤ pu ∧ l ≤ pv
  · obtain ⟨hkp, hlp⟩ := hc
    rw [if_pos ⟨by omega, by omega, htri⟩]
    rw [linComb_range d j pu _ (basisDers_row_length pu Uu κu u _ k (by omega)) _ (by
      intro r hr
      apply linComb_length
      intro pt hpt
      simp only [List.mem_map, List.mem_range] at hpt
      obtain ⟨s, hs, rfl⟩ := hpt
      exact hidx r s hr (by omega))]
    apply Finset.sum_congr rfl
    intro r hr
    rw [Finset.mem_range] at hr
    rw [linComb_range d j pv _ (basisDers_row_length pv Uv κv v _ l (by omega)) _ (by
      intro s hs
      exact hidx r s (by omega) hs)]
    rw [Finset.mul_sum]
    apply Finset.sum_congr rfl
    intro s hs
    rw [Finset.mem_range] at hs
    rw [basisDers_eq_derivative pu Uu κu u _ k r hpu hmu hspu (by omega) (by omega),
      basisDers_eq_derivative pv Uv κv v _ l s hpv hmv hspv (by omega) (by omega)]
    ring
  · rw [if_neg (by omega), vzero_getD]
    symm
    apply Finset.sum_eq_zero
    intro r _
    apply Finset.sum_eq_zero
    intro s _
    by_cases hkp : k ≤ pu
    · rw [basisSpanPoly_derivative_above pv Uv κv s hpv hmv hspv l (by omega)]
      simp
    · rw [basisSpanPoly_derivative_above pu Uu κu r hpu hmu hspu k (by omega)]
      simp

/-- with the triangular evaluator (`SurfaceEvaluator2`, `tri = true`) the entries with `k + l > order`
    are left at their initial value zero -/
theorem surfaceDersAt_tri_zero (pu pv : ℕ) (Uu Uv : ℕ → K) (sv : ℕ) (P : List (List K)) (κu κv : ℕ) (u v : K)
    (order k l : ℕ) (hk : k ≤ order) (hl : l ≤ order) (hkl : order < k + l) :
    ((surfaceDersAt pu pv Uu Uv sv P κu κv u v order true).getD k []).getD l [] = vzero (dimOf P) := by
  rw [surfaceDersAt_entry pu pv Uu Uv sv P κu κv u v order true k l hk hl, if_neg]
  intro h
  rcases h.2.2 with h | h
  · exact absurd h (by decide)
  · omega

/-- order `(0,0)`: the bivariate span polynomial evaluates to the surface point (A3.5) -/
theorem surfacePointAt_eq_surfSpanPoly (pu pv : ℕ) (Uu Uv : ℕ → K) (su sv : ℕ) (P : List (List K)) (κu κv : ℕ) (u v : K)
    (d j : ℕ) (hpu : pu ≤ κu) (hpv : pv ≤ κv) (hκu : κu < su) (hκv : κv < sv) (hlen : P.length = su * sv)
    (hP : NetOk d P) :
    (surfacePointAt pu pv Uu Uv sv P κu κv u v).getD j 0
      = (surfSpanPoly pu pv Uu Uv sv P κu κv j).evalEval u v := by
  have hpos : 0 < P.length := by
    have := flat_index_lt κu κv su sv hκu hκv
    omega
  have hidx : ∀ r s, r ≤ pu → s ≤ pv → (ptsGet P (κv - pv + s + sv * (κu - pu + r))).length = d := by
    intro r s hr hs
    apply ptsGet_length hP
    rw [hlen]
    exact flat_index_lt _ _ su sv (by omega) (by omega)
  have h0 := evalEval_surfSpanPoly_pderiv pu pv Uu Uv sv P κu κv j 0 0 u v
  simp only [Function.iterate_zero, id_eq] at h0
  rw [h0]
  unfold surfacePointAt
  simp only []
  rw [dimOf_eq hP hpos]
  rw [linComb_range d j pu _ (Blossom.basisFuns_length _ _ _ _) _ (by
    intro r hr
    apply linComb_length
    intro pt hpt
    simp only [List.mem_map, List.mem_range] at hpt
    obtain ⟨s, hs, rfl⟩ := hpt
    exact hidx r s hr (by omega))]
  apply Finset.sum_congr rfl
  intro r hr
  rw [Finset.mem_range] at hr
  rw [linComb_range d j pv _ (Blossom.basisFuns_length _ _ _ _) _ (by
    intro s hs
    exact hidx r s (by omega) hs)]
  rw [Finset.mul_sum]
  apply Finset.sum_congr rfl
  intro s hs
  rw [Finset.mem_range] at hs
  rw [eval_basisSpanPoly pu Uu κu u r hpu (by omega), eval_basisSpanPoly pv Uv κv v s hpv (by omega)]
  ring

end Geomdl
