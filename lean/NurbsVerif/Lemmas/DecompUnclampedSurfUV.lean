import NurbsVerif.Lemmas.DecompUnclampedSurfUMain
import NurbsVerif.Lemmas.DecompUnclampedSurfVMain
import NurbsVerif.Lemmas.SplitSurfUVMain

/-! `decompose_surface(…, decompose_dir='uv')` for knot vectors that need NOT be clamped: decomposition in
    u, then every strip in v (model with exceptions `decomposeUVE`). -/
set_option linter.unusedSectionVars false
namespace Geomdl
open Blossom Finset
variable {K : Type} [Field K] [LinearOrder K] [IsStrictOrderedRing K]

theorem SplitKvWF.head_last {p n : ℕ} {V : List K} (h : SplitKvWF p n V) :
    V ≠ [] ∧ V.headD 0 = fnOf V 0 ∧ V.getLastD 0 = fnOf V (n + p) ∧ V.headD 0 < V.getLastD 0 := by
  have hlen := h.len
  have hne : V ≠ [] := by intro e; rw [e] at hlen; simp at hlen
  have hhead : V.headD 0 = fnOf V 0 := by
    cases V with
    | nil => exact absurd rfl hne
    | cons a as => simp [fnOf]
  have hlast : V.getLastD 0 = fnOf V (n + p) := by
    unfold fnOf
    rw [List.getLastD_eq_getLast?, List.getLast?_eq_getElem?, List.getD_eq_getElem?_getD]
    have e : V.length - 1 = n + p := by omega
    rw [e, List.getElem?_eq_getElem (by omega)]
    simp
  refine ⟨hne, hhead, hlast, ?_⟩
  rw [hhead, hlast]
  have hpn := h.pn
  exact lt_of_le_of_lt (h.mono (by omega)) (lt_of_lt_of_le h.last (h.mono (by omega)))

/-- a knot vector whose first knot is 0 and last knot is 1 is its own normalisation -/
theorem knotNormalize_of_ends {p n : ℕ} {V : List K} (h : SplitKvWF p n V) (h0 : fnOf V 0 = 0)
    (h1 : fnOf V (n + p) = 1) : knotNormalize V = V := by
  obtain ⟨_, hh, hl, _⟩ := h.head_last
  unfold knotNormalize
  simp only [hh, hl, h0, h1, sub_zero, div_one, List.map_id']

/-- a well-formed knot vector that is its own normalisation starts at 0 and ends at 1 -/
theorem normalized_endsU {p n : ℕ} {U : List K} (h : SplitKvWF p n U) (hn : knotNormalize U = U) :
    fnOf U 0 = 0 ∧ fnOf U (n + p) = 1 := by
  obtain ⟨hne, hh, hl, hr⟩ := h.head_last
  obtain ⟨_, h0, h1, _⟩ := knotNormalize_spec U hne hr
  rw [hn] at h0 h1
  exact ⟨by rw [← hh]; exact h0, by rw [← hl]; exact h1⟩

theorem allSome_map_some {α β : Type} (f : α → Option β) (g : α → β) :
    ∀ xs : List α, (∀ a ∈ xs, f a = some (g a)) → allSome (xs.map f) = some (xs.map g) := by
  intro xs
  induction xs with
  | nil => intro _; rfl
  | cons x xs ih =>
    intro h
    rw [List.map_cons, h x (by simp)]
    simp only [allSome]
    rw [ih (fun a ha => h a (by simp [ha]))]
    rfl

/-- **`decompose_surface(…, 'uv')` end to end, knot vectors clamped or not** (both normalised and
    admissible): no exception; one patch per PAIR of non-empty knot intervals, u-major; patch `(i, l)` has
    `(pu+1)(pv+1)` control points over well-formed single-span knot vectors and coincides with the original on
    its rectangle under the affine maps of its own domains; in each direction its knot vector is
    `0^{p+1} 1^{p+1}` (Bézier) whenever the patch does not touch an unclamped end of the input. -/
theorem decompose_surface_uv_allU (rat : Bool) (pu pv d : ℕ) (tol : K) (Uu Uv : List K) (su sv : ℕ)
    (P : List (List K)) (hP : NetOk d P) (hlenP : P.length = su * sv)
    (hUn : knotNormalize Uu = Uu) (hVn : knotNormalize Uv = Uv)
    (hU0 : DecompWFU pu d Uu (colOf su sv P 0) tol) (hV0 : DecompWFU pv d Uv (rowOf sv P 0) tol) :
    ∃ L : List (Shape K),
      decomposeUVE tol (surfShape rat pu pv Uu Uv su sv P) = some L ∧
      decomposeUV tol (surfShape rat pu pv Uu Uv su sv P) = L ∧
      L.length = (spanStarts pu (fnOf Uu) su).length * (spanStarts pv (fnOf Uv) sv).length ∧
      ∀ i, i < (spanStarts pu (fnOf Uu) su).length → ∀ l, l < (spanStarts pv (fnOf Uv) sv).length →
        ∃ (VU VV : List K) (Pil : List (List K)),
          L.getD (l + (spanStarts pv (fnOf Uv) sv).length * i) (surfShape rat pu pv [] [] 0 0 [])
            = surfShape rat pu pv VU VV (pu + 1) (pv + 1) Pil ∧
          SplitKvWF pu (pu + 1) VU ∧ SplitKvWF pv (pv + 1) VV ∧
          Pil.length = (pu + 1) * (pv + 1) ∧ NetOk d Pil ∧
          (∀ s, 0 ≤ s → s ≤ 1 → ∀ t, 0 ≤ t → t ≤ 1 → ∀ j,
            (surfacePoint pu pv (fnOf VU) (fnOf VV) (pu + 1) (pv + 1) Pil
                (fnOf VU pu + s * (fnOf VU (pu + 1) - fnOf VU pu))
                (fnOf VV pv + t * (fnOf VV (pv + 1) - fnOf VV pv))).getD j 0
              = (surfacePoint pu pv (fnOf Uu) (fnOf Uv) su sv P
                  ((breaks pu (fnOf Uu) su).getD i 0
                    + s * ((breaks pu (fnOf Uu) su).getD (i + 1) 0 - (breaks pu (fnOf Uu) su).getD i 0))
                  ((breaks pv (fnOf Uv) sv).getD l 0
                    + t * ((breaks pv (fnOf Uv) sv).getD (l + 1) 0 - (breaks pv (fnOf Uv) sv).getD l 0))).getD j 0) ∧
          ((1 ≤ i ∨ fnOf Uu 0 = fnOf Uu pu) →
            (i + 1 < (spanStarts pu (fnOf Uu) su).length ∨ fnOf Uu (su + pu) = fnOf Uu su) → VU = bezKv pu) ∧
          ((1 ≤ l ∨ fnOf Uv 0 = fnOf Uv pv) →
            (l + 1 < (spanStarts pv (fnOf Uv) sv).length ∨ fnOf Uv (sv + pv) = fnOf Uv sv) → VV = bezKv pv) := by
  have hkU : SplitKvWF pu su Uu := hU0.toKv
  have hkV : SplitKvWF pv sv Uv := hV0.toKvRow
  have hpnU := hkU.pn
  have hpnV := hkV.pn
  have hUlen := hkU.len
  have hVlen := hkV.len
  have hUm := hkU.mono
  have hVm := hkV.mono
  have hUends := normalized_endsU hkU hUn
  have hVends := normalized_endsU hkV hVn
  have hcU := spanStarts_length_le pu (fnOf Uu) su
  have hcV := spanStarts_length_le pv (fnOf Uv) sv
  set cU := (spanStarts pu (fnOf Uu) su).length with hcUdef
  set cV := (spanStarts pv (fnOf Uv) sv).length with hcVdef
  obtain ⟨piecesU, hdecEU, hdecU, hlenU, hpU, hclU, hnormU⟩ :=
    decompose_surface_u_allU rat pu pv d tol Uu.length Uu Uv su sv P hP hlenP hVm hpnV hVn hU0 (by omega)
  have hnormU' := hnormU (Or.inr hUends)
  -- the v decomposition of strip `i`
  have key : ∀ i, i < piecesU.length →
      ∃ piecesV : List (List K × ℕ × List (List K)),
        decomposeDirE 1 tol Uv.length
            (surfShape rat pu pv (piecesU.getD i ([], 0, [])).1 Uv (pu + 1) sv (piecesU.getD i ([], 0, [])).2.2)
          = some (piecesV.map (fun r => surfShape rat pu pv (piecesU.getD i ([], 0, [])).1 r.1 (pu + 1) r.2.1 r.2.2)) ∧
        piecesV.length = cV ∧
        ∀ l, l < cV →
          (piecesV.getD l ([], 0, [])).2.1 = pv + 1 ∧
          SplitKvWF pv (pv + 1) (piecesV.getD l ([], 0, [])).1 ∧
          (piecesV.getD l ([], 0, [])).2.2.length = (pu + 1) * (pv + 1) ∧ NetOk d (piecesV.getD l ([], 0, [])).2.2 ∧
          (∀ s, 0 ≤ s → s ≤ 1 → ∀ t, 0 ≤ t → t ≤ 1 → ∀ j,
            (surfacePoint pu pv (fnOf (piecesU.getD i ([], 0, [])).1) (fnOf (piecesV.getD l ([], 0, [])).1)
                (pu + 1) (pv + 1) (piecesV.getD l ([], 0, [])).2.2
                (fnOf (piecesU.getD i ([], 0, [])).1 pu
                  + s * (fnOf (piecesU.getD i ([], 0, [])).1 (pu + 1) - fnOf (piecesU.getD i ([], 0, [])).1 pu))
                (fnOf (piecesV.getD l ([], 0, [])).1 pv
                  + t * (fnOf (piecesV.getD l ([], 0, [])).1 (pv + 1) - fnOf (piecesV.getD l ([], 0, [])).1 pv))).getD j 0
              = (surfacePoint pu pv (fnOf Uu) (fnOf Uv) su sv P
                  ((breaks pu (fnOf Uu) su).getD i 0
                    + s * ((breaks pu (fnOf Uu) su).getD (i + 1) 0 - (breaks pu (fnOf Uu) su).getD i 0))
                  ((breaks pv (fnOf Uv) sv).getD l 0
                    + t * ((breaks pv (fnOf Uv) sv).getD (l + 1) 0 - (breaks pv (fnOf Uv) sv).getD l 0))).getD j 0) ∧
          ((1 ≤ l ∨ fnOf Uv 0 = fnOf Uv pv) → (l + 1 < cV ∨ fnOf Uv (sv + pv) = fnOf Uv sv) →
            (piecesV.getD l ([], 0, [])).1 = bezKv pv) := by
    intro i hi
    obtain ⟨hq2, kq, hqlen, hqnet, hqc⟩ := hpU i hi
    obtain ⟨n0, n1⟩ := hnormU' i hi
    have hqn : knotNormalize (piecesU.getD i ([], 0, [])).1 = (piecesU.getD i ([], 0, [])).1 :=
      knotNormalize_of_ends kq n0 n1
    have hrow0 : DecompWFU pv d Uv (rowOf sv (piecesU.getD i ([], 0, [])).2.2 0) tol :=
      hV0.swap (by rw [rowOf_length, rowOf_length])
        (rowOf_netOk (pu + 1) sv d _ hqnet hqlen 0 (by omega))
    obtain ⟨piecesV, hdecEV, _, hlenV, hpV, hclV, _⟩ :=
      decompose_surface_v_allU rat pu pv d tol Uv.length (piecesU.getD i ([], 0, [])).1 Uv (pu + 1) sv
        (piecesU.getD i ([], 0, [])).2.2 hqnet hqlen kq.mono (le_refl _) hqn hrow0 (by omega)
    refine ⟨piecesV, hdecEV, hlenV, ?_⟩
    intro l hl
    obtain ⟨hr2, kr, hrlen, hrnet, hrc⟩ := hpV l (by omega)
    refine ⟨hr2, kr, hrlen, hrnet, ?_, ?_⟩
    · intro s hs0 hs1 t ht0 ht1 j
      have hbrV := breaks_getD_range pv sv (fnOf Uv) hVm (by omega) 0
      have hcntV : (breaks pv (fnOf Uv) sv).length = cV + 1 := by rw [breaks_length]
      have ra := hbrV l (by omega)
      have rb := hbrV (l + 1) (by omega)
      have hdomU : fnOf (piecesU.getD i ([], 0, [])).1 pu ≤ fnOf (piecesU.getD i ([], 0, [])).1 (pu + 1) :=
        kq.mono (by omega)
      rw [hrc _ (by nlinarith) t ht0 ht1 j]
      exact hqc _ (by nlinarith [ra.1, rb.1]) s hs0 hs1 j
    · intro hs he
      exact (hclV l (by omega) hs (by rw [hlenV]; exact he)).2 (Or.inr hVends)
  -- the list of rows
  set g : List K × ℕ × List (List K) → List (Shape K) := fun q =>
    decomposeDir 1 tol Uv.length (surfShape rat pu pv q.1 Uv q.2.1 sv q.2.2) with hg
  have hrowE : ∀ q ∈ piecesU,
      decomposeDirE 1 tol Uv.length (surfShape rat pu pv q.1 Uv q.2.1 sv q.2.2) = some (g q) := by
    intro q hq
    obtain ⟨i, hi, rfl⟩ := List.getElem_of_mem hq
    rw [← List.getD_eq_getElem piecesU ([], 0, []) hi]
    obtain ⟨hq2, _, _, _, _⟩ := hpU i hi
    obtain ⟨piecesV, hdecEV, _, _⟩ := key i hi
    simp only [hg]
    rw [hq2, hdecEV, decomposeDirE_some 1 tol _ _ _ hdecEV]
  have hLE : decomposeUVE tol (surfShape rat pu pv Uu Uv su sv P) = some (List.flatten (piecesU.map g)) := by
    unfold decomposeUVE
    have e0 : ((surfShape rat pu pv Uu Uv su sv P).kv 0).length = Uu.length := rfl
    rw [e0, hdecEU]
    simp only [List.map_map]
    have := allSome_map_some
      (fun q : List K × ℕ × List (List K) =>
        decomposeDirE 1 tol Uv.length (surfShape rat pu pv q.1 Uv q.2.1 sv q.2.2)) g piecesU hrowE
    have e1 : ((fun T : Shape K => decomposeDirE 1 tol (T.kv 1).length T) ∘
        fun q : List K × ℕ × List (List K) => surfShape rat pu pv q.1 Uv q.2.1 sv q.2.2)
        = fun q => decomposeDirE 1 tol Uv.length (surfShape rat pu pv q.1 Uv q.2.1 sv q.2.2) := rfl
    rw [e1, this]
    rfl
  have hrowAt : ∀ i, i < piecesU.length →
      (piecesU.map g).getD i []
        = decomposeDir 1 tol Uv.length
            (surfShape rat pu pv (piecesU.getD i ([], 0, [])).1 Uv (pu + 1) sv (piecesU.getD i ([], 0, [])).2.2) := by
    intro i hi
    rw [getD_map_lt _ piecesU i ([], 0, []) _ hi]
    obtain ⟨hq2, _, _, _, _⟩ := hpU i hi
    simp only [hg]
    rw [hq2]
  have hrows : ∀ r ∈ piecesU.map g, r.length = cV := by
    intro r hr
    obtain ⟨i, hi, rfl⟩ := List.getElem_of_mem hr
    have hi' : i < piecesU.length := by simpa using hi
    rw [← List.getD_eq_getElem _ [] hi, hrowAt i hi']
    obtain ⟨piecesV, hdecEV, hlenV, _⟩ := key i hi'
    rw [decomposeDirE_some 1 tol _ _ _ hdecEV, List.length_map, hlenV]
  refine ⟨List.flatten (piecesU.map g), hLE, decomposeUVE_some tol _ _ hLE, ?_, ?_⟩
  · rw [flatten_uniform_length cV _ hrows, List.length_map, hlenU, Nat.mul_comm]
  · intro i hi l hl
    have hi' : i < piecesU.length := by omega
    obtain ⟨piecesV, hdecEV, hlenV, hfacts⟩ := key i hi'
    obtain ⟨hr2, kr, hrlen, hrnet, hrc, hrb⟩ := hfacts l hl
    obtain ⟨_, kq, _, _, _⟩ := hpU i hi'
    refine ⟨(piecesU.getD i ([], 0, [])).1, (piecesV.getD l ([], 0, [])).1, (piecesV.getD l ([], 0, [])).2.2,
      ?_, kq, kr, hrlen, hrnet, hrc, ?_, hrb⟩
    · rw [flatten_uniform_getD _ cV _ hrows i l (by simpa using hi') hl, hrowAt i hi',
          decomposeDirE_some 1 tol _ _ _ hdecEV, getD_map_lt _ piecesV l ([], 0, []) _ (by omega), hr2]
    · intro hs he
      exact (hclU i hi' hs (by rw [hlenU]; exact he)).2 (Or.inr hUends)

end Geomdl
