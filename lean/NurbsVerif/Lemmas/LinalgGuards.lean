import NurbsVerif.Model.Linalg
/-!
# The shape guards of the linear-algebra routines (C16)

The list-level model functions (`luSolve`, `matrixPivot`, …) pad missing entries with `0`; the implementation
raises on a non-square / ragged input.  The guards `Lin.luSolveOk`, `luFactorOk`, `matrixInverseOk`,
`admissible` (Model/Linalg.lean) state the inputs the code accepts.  Here: what they say in plain terms.
-/
namespace Lin
variable {K : Type}

theorem isRect_rows_iff (A : List (List K)) (c : Nat) : isRect A c = true ↔ ∀ r ∈ A, r.length = c := by
  simp [isRect, List.all_eq_true]

theorem isSquare_iff (A : List (List K)) : isSquare A = true ↔ ∀ r ∈ A, r.length = A.length :=
  isRect_rows_iff A A.length

theorem rowsAtLeast_iff (A : List (List K)) (c : Nat) : rowsAtLeast A c = true ↔ ∀ r ∈ A, c ≤ r.length := by
  simp [rowsAtLeast, List.all_eq_true]

theorem luSolveOk_iff (A b : List (List K)) :
    luSolveOk A b = true ↔
      (∀ r ∈ A, r.length = A.length) ∧ 0 < b.length ∧ b.length ≤ A.length ∧ ∀ r ∈ b, (b.headD []).length ≤ r.length := by
  simp only [luSolveOk, Bool.and_eq_true, decide_eq_true_eq, isSquare_iff, rowsAtLeast_iff, and_assoc]

theorem luFactorOk_iff (A b : List (List K)) :
    luFactorOk A b = true ↔
      (∀ r ∈ A, r.length = A.length) ∧ 0 < b.length ∧ b.length = A.length ∧ ∀ r ∈ b, r.length = (b.headD []).length := by
  simp only [luFactorOk, Bool.and_eq_true, decide_eq_true_eq, isSquare_iff, isRect_rows_iff, and_assoc]

theorem luFactorOk_length (A b : List (List K)) (h : luFactorOk A b = true) : b.length = A.length :=
  ((luFactorOk_iff A b).1 h).2.2.1

theorem luFactorOk_square (A b : List (List K)) (h : luFactorOk A b = true) : isSquare A = true :=
  (isSquare_iff A).2 ((luFactorOk_iff A b).1 h).1

theorem matrixInverseOk_iff (m : List (List K)) :
    matrixInverseOk m = true ↔ (∀ r ∈ m, r.length = m.length) ∧ 0 < m.length := by
  simp only [matrixInverseOk, Bool.and_eq_true, decide_eq_true_eq, isSquare_iff]

/-- a rectangular right-hand side with `len(A)` rows is admissible for `lu_solve` -/
theorem luSolveOk_of_luFactorOk (A b : List (List K)) (h : luFactorOk A b = true) : luSolveOk A b = true := by
  obtain ⟨h1, h2, h3, h4⟩ := (luFactorOk_iff A b).1 h
  exact (luSolveOk_iff A b).2 ⟨h1, h2, by omega, fun r hr => by rw [h4 r hr]; exact Nat.le_refl _⟩

end Lin
