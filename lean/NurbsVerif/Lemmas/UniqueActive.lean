import NurbsVerif.Lemmas.UniqueRemove

/-! # Knot insertion preserves `AllActive`

If no basis function of the knot vector `U` vanishes on the whole domain, none of the refined knot vector does
after `ub` was inserted `r` times with `r + s ≤ p` (final multiplicity at most the degree), PROVIDED `ub` lies
strictly inside the domain at the left (`U_p < ub`).  The proviso is necessary for unclamped knot vectors: knots
`0,1,2,3,4,5`, `p = 2`, `n = 3` (domain `[2,3)`) is `AllActive`, but after inserting `2 = U_p` once the first basis
function has support `[0,2)`, outside the domain (`allActive_insert_needs_interior`).  For clamped knot vectors
`ub = U_p` has multiplicity `p + 1` and cannot be inserted anyway.

Consequence (`RemovableKnot.of_reduced_active`): the activity hypothesis of "whenever removable at all" may be
checked on the REDUCED knot vector (the one with the `r` copies taken out) instead of the refined one. -/
namespace Geomdl
open Blossom
variable {K : Type} [Field K] [LinearOrder K] [IsStrictOrderedRing K]

omit [Field K] [IsStrictOrderedRing K] in
/-- knot function form: `W = Uh k r ub U` (the knots after the insertion) -/
theorem allActive_Uh (p n : ℕ) (U : ℕ → K) (ub : K) (k r s : ℕ) (hm : Monotone U)
    (hact : AllActive p n U) (hk : U k ≤ ub) (hbelow : U (k - s) < ub) (habove : ub < U (k + 1))
    (hlo : U p < ub) (hrs : r + s ≤ p) (hpk : p ≤ k) (hkn : k < n) :
    AllActive p (n + r) (Uh k r ub U) := by
  intro i hi
  by_contra hnot
  rw [not_lt] at hnot
  generalize ha : max i p = a at hnot
  generalize hb : min (i + p + 1) (n + r) = b at hnot
  have hab : a < b := by omega
  unfold Uh at hnot
  by_cases a1 : a ≤ k
  · rw [if_pos a1] at hnot
    by_cases b1 : b ≤ k
    · rw [if_pos b1] at hnot
      have h1 := hact i (by omega)
      rw [show max i p = a by omega, show min (i + p + 1) n = b by omega] at h1
      exact absurd h1 (not_lt.mpr hnot)
    · rw [if_neg b1] at hnot
      by_cases b2 : b ≤ k + r
      · rw [if_pos b2] at hnot
        by_cases a2 : a ≤ k - s
        · exact absurd (lt_of_le_of_lt (hm a2) hbelow) (not_lt.mpr hnot)
        · have : a = p := by omega
          rw [this] at hnot
          exact absurd hlo (not_lt.mpr hnot)
      · rw [if_neg b2] at hnot
        have h1 : U (k + 1) ≤ U (b - r) := hm (by omega)
        have h2 : U a ≤ U k := hm a1
        exact absurd (lt_of_lt_of_le habove (le_trans h1 (le_trans hnot (le_trans h2 hk)))) (lt_irrefl _)
  · rw [if_neg a1] at hnot
    by_cases a2 : a ≤ k + r
    · rw [if_pos a2, if_neg (by omega)] at hnot
      by_cases b2 : b ≤ k + r
      · omega
      · rw [if_neg b2] at hnot
        have h1 : U (k + 1) ≤ U (b - r) := hm (by omega)
        exact absurd (lt_of_lt_of_le habove (le_trans h1 hnot)) (lt_irrefl _)
    · rw [if_neg a2, if_neg (by omega), if_neg (by omega)] at hnot
      have h1 := hact (i - r) (by omega)
      rw [show max (i - r) p = a - r by omega, show min (i - r + p + 1) n = b - r by omega] at h1
      exact absurd h1 (not_lt.mpr hnot)

/-- **Knot insertion preserves `AllActive`** (`knotInsertionKv`, the knot vector `operations.insert_knot` builds):
    sorted knots, `ub` in the span `k` (`U_k ≤ ub < U_{k+1}`, `p ≤ k < n`) with `s` earlier copies (`U_{k-s} < ub`),
    `r + s ≤ p`, and `ub` strictly right of the left end of the domain. -/
theorem allActive_insert (p n : ℕ) (U : List K) (ub : K) (k r s : ℕ) (hm : Monotone (fnOf U)) (hk1 : k + 1 < U.length)
    (hact : AllActive p n (fnOf U)) (hk : fnOf U k ≤ ub) (hbelow : fnOf U (k - s) < ub) (habove : ub < fnOf U (k + 1))
    (hlo : fnOf U p < ub) (hrs : r + s ≤ p) (hpk : p ≤ k) (hkn : k < n) :
    AllActive p (n + r) (fnOf (knotInsertionKv U ub k r)) := by
  rw [fnOf_knotInsertionKv U ub k r hk1]
  exact allActive_Uh p n (fnOf U) ub k r s hm hact hk hbelow habove hlo hrs hpk hkn

/-- the proviso `U_p < ub` cannot be dropped for unclamped knot vectors -/
theorem allActive_insert_needs_interior :
    AllActive 2 3 (fnOf ([0,1,2,3,4,5] : List ℚ)) ∧
      ¬ AllActive 2 (3 + 1) (fnOf (knotInsertionKv ([0,1,2,3,4,5] : List ℚ) 2 2 1)) := by
  decide +kernel

/-- **`RemovableKnot` with the activity hypothesis on the REDUCED knot vector**: all fields of `RemovableKnot` but
    `active`, `AllActive` for the knot vector with the `r` copies taken out, and `ub` strictly inside the domain at
    the left. -/
theorem RemovableKnot.of_reduced_active (p d : ℕ) (V : List K) (Ph Q : List (List K)) (ub : K) (r s k : ℕ)
    (hwf : CurveWF p d V Ph)
    (hrun : ∀ x, k - s < x → x ≤ k + r → fnOf V x = ub)
    (hbelow : fnOf V (k - s) < ub) (habove : ub < fnOf V (k + r + 1))
    (hr1 : 1 ≤ r) (hrs : r + s ≤ p) (hpk : p ≤ k) (hkn : k + r < Ph.length)
    (hQ : CurveWF p d (knotRemovalKv V (k + r) r) Q)
    (hactQ : AllActive p Q.length (fnOf (knotRemovalKv V (k + r) r)))
    (hlo : fnOf V p < ub)
    (hsame : ∀ u, fnOf V p ≤ u → u < fnOf V Ph.length → ∀ j,
      (curvePoint p (fnOf (knotRemovalKv V (k + r) r)) Q u).getD j 0 = (curvePoint p (fnOf V) Ph u).getD j 0) :
    RemovableKnot p d V Ph Q ub r s k := by
  obtain ⟨hV, hQlen, hk1U, hk2U, hsU, hmultU, hub1, hub2, hspan, hloe, hhie⟩ :=
    removable_facts p d V Ph Q ub r s k hwf hQ hrun hbelow habove hr1 hpk hkn
  refine ⟨hwf, ?_, hrun, hbelow, habove, hr1, hrs, hpk, hkn, hQ, hsame⟩
  have hkU : fnOf (knotRemovalKv V (k + r) r) k ≤ ub := by
    obtain ⟨_, _, h3, _⟩ := findSpanLinear_spec p (fnOf (knotRemovalKv V (k + r) r)) Q.length ub hQ.pn hQ.mono hub1
    rw [hspan] at h3
    exact h3
  have := allActive_insert p Q.length (knotRemovalKv V (k + r) r) ub k r s hQ.mono hk1U hactQ hkU hsU hk2U
    (by rw [hloe]; exact hlo) hrs hpk (by omega)
  rw [hV, hQlen] at this
  exact this

end Geomdl
