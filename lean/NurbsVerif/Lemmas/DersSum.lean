import NurbsVerif.Lemmas.DerivAll

/-! The derivatives (order ≥ 1) of the non-vanishing basis functions sum to zero (model `basisDers`:
    the derivatives of the curves with unit control sequences). -/
namespace Geomdl
open Blossom Polynomial Finset
variable {K : Type} [Field K] [LinearOrder K] [IsStrictOrderedRing K]

/-- one de Boor level of the constant sequence 1 is 1 (partition of unity, as polynomials) -/
theorem dbP_one (t : ℕ → K) (q i : ℕ) (h : t (i+q) - t i ≠ 0) : dbP t q (fun _ => (1 : K[X])) i = 1 := by
  unfold dbP
  have : (C (t (i+q)) - X) * 1 + (X - C (t i)) * 1 = C (t (i+q) - t i) := by
    rw [C_sub]; ring
  rw [this, ← C_mul, inv_mul_cancel₀ h, C_1]

theorem polP_one (t : ℕ → K) (κ : ℕ) (hsep : Sep t κ) : ∀ (n q i : ℕ), n ≤ i → i ≤ κ → κ + n ≤ i + q →
    polP t q n (fun _ => (1 : K[X])) i = 1 := by
  intro n
  induction n with
  | zero => intros; rfl
  | succ n ih =>
    intro q i h1 h2 h3
    simp only [polP]
    rw [polP_congr t n (q-1) _ (fun _ => (1 : K[X])) i (by
      intro j hj1 hj2
      exact dbP_one t q j (hsep j (j+q) (by omega) (by omega)))]
    exact ih (q-1) i (by omega) h2 (by omega)

theorem polP_finset_sum (t : ℕ → K) (n q i : ℕ) (s : Finset ℕ) (c : ℕ → ℕ → K[X]) :
    polP t q n (fun m => ∑ r ∈ s, c r m) i = ∑ r ∈ s, polP t q n (c r) i := by
  induction s using Finset.induction_on with
  | empty => simp [polP_zero_fun]
  | insert a s ha ih =>
    simp only [Finset.sum_insert ha]
    rw [polP_add, ih]

/-- the span polynomials of the `p+1` unit control sequences of a span sum to the constant 1 -/
theorem spanPoly_units_sum (p : ℕ) (U : ℕ → K) (κ : ℕ) (hsep : Sep U κ) (hp : p ≤ κ) :
    ∑ r ∈ range (p+1), polP U p p (fun m => C (if m = κ - p + r then (1:K) else 0)) κ = 1 := by
  rw [← polP_finset_sum]
  rw [polP_congr U p p _ (fun _ => (1 : K[X])) κ (by
    intro j hj1 hj2
    rw [← map_sum]
    have : ∑ r ∈ range (p+1), (if j = κ - p + r then (1:K) else 0) = 1 := by
      rw [Finset.sum_eq_single (j - (κ - p))]
      · rw [if_pos (by omega)]
      · intro b _ hb; rw [if_neg (by omega)]
      · intro h; exfalso; apply h; rw [Finset.mem_range]; omega
    rw [this, C_1])]
  exact polP_one U κ hsep p p κ hp (le_refl _) (by omega)

/-- **the `k`-th derivatives (`k ≥ 1`) of the span's basis polynomials sum to zero** -/
theorem units_derivative_sum_zero (p : ℕ) (U : ℕ → K) (κ : ℕ) (hsep : Sep U κ) (hp : p ≤ κ) (k : ℕ) (hk : 1 ≤ k) (u : K) :
    ∑ r ∈ range (p+1), eval u (derivative^[k] (polP U p p (fun m => C (if m = κ - p + r then (1:K) else 0)) κ)) = 0 := by
  rw [← eval_finset_sum, ← iterate_derivative_sum, spanPoly_units_sum p U κ hsep hp]
  obtain ⟨e, rfl⟩ : ∃ e, k = e + 1 := ⟨k - 1, by omega⟩
  rw [Function.iterate_succ_apply, derivative_one, Polynomial.iterate_derivative_zero, eval_zero]

end Geomdl

namespace Geomdl
open Blossom Polynomial Finset
variable {K : Type} [Field K] [LinearOrder K] [IsStrictOrderedRing K]

/-- the unit control polygon used by the model `basisDers` -/
def unitNet (span p r : ℕ) : List (List K) :=
  (List.range (span + 1)).map (fun i => [if i = span - p + r then (1:K) else 0])

theorem unitNet_netOk (span p r : ℕ) : NetOk 1 (unitNet (K := K) span p r) := by
  intro pt hpt
  simp only [unitNet, List.mem_map, List.mem_range] at hpt
  obtain ⟨i, _, rfl⟩ := hpt
  rfl

theorem unitNet_coord (span p r m : ℕ) (hr : r ≤ p) (hp : p ≤ span) :
    (ptsGet (unitNet (K := K) span p r) m).getD 0 0 = if m = span - p + r then (1:K) else 0 := by
  unfold unitNet ptsGet
  simp only [List.getD_eq_getElem?_getD, List.getElem?_map]
  by_cases hm : m < span + 1
  · rw [List.getElem?_range hm]; simp
  · have hlen : (List.range (span + 1)).length ≤ m := by rw [List.length_range]; omega
    rw [List.getElem?_eq_none hlen, if_neg (by omega)]
    simp

theorem basisDers_entry (p : ℕ) (U : ℕ → K) (κ : ℕ) (u : K) (d k r : ℕ) (hk : k ≤ d) (hr : r ≤ p) :
    ((basisDers p U κ u d).getD k []).getD r 0 = ((curveDersAt p U (unitNet κ p r) κ u d).getD k []).getD 0 0 := by
  unfold basisDers
  simp only [List.getD_eq_getElem?_getD, List.getElem?_map]
  rw [List.getElem?_range (by omega)]
  simp only [Option.map_some, Option.getD_some, List.getElem?_map]
  rw [List.getElem?_range (by omega)]
  simp only [Option.map_some, Option.getD_some, List.getElem?_map]
  have hlen : k < (curveDersAt p U (unitNet κ p r) κ u d).length := by simp [curveDersAt]; omega
  rw [show (List.map (fun i => [if i = κ - p + r then (1:K) else 0]) (List.range (κ + 1))) = unitNet κ p r from rfl]
  rw [List.getElem?_eq_getElem hlen]
  simp only [Option.map_some, Option.getD_some]
  cases (curveDersAt p U (unitNet κ p r) κ u d)[k] <;> simp

/-- **C03: the `k`-th derivatives (`k ≥ 1`) of the non-vanishing basis functions sum to zero** -/
theorem basisDers_sum_zero (p : ℕ) (U : ℕ → K) (κ : ℕ) (u : K) (d k : ℕ)
    (hp : p ≤ κ) (hm : Monotone U) (hspan : U κ < U (κ+1)) (hk1 : 1 ≤ k) (hk : k ≤ d) :
    ∑ r ∈ range (p+1), ((basisDers p U κ u d).getD k []).getD r 0 = 0 := by
  have hsep : Sep U κ := sep_of_mono U κ hm hspan
  refine Eq.trans ?_ (units_derivative_sum_zero p U κ hsep hp k hk1 u)
  apply Finset.sum_congr rfl
  intro r hr
  rw [Finset.mem_range] at hr
  rw [basisDers_entry p U κ u d k r hk (by omega)]
  rw [curveDersAt_all p U (unitNet κ p r) κ u 1 0 d k hp (by simp [unitNet]) (unitNet_netOk κ p r) hm hspan hk]
  unfold spanPoly
  congr 3
  funext m
  rw [unitNet_coord κ p r m (by omega) hp]

/-- the zeroth row of the derivative table is A2.2 -/
theorem basisDers_zero_row (p : ℕ) (U : ℕ → K) (κ : ℕ) (u : K) (d r : ℕ)
    (hp : p ≤ κ) (hr : r ≤ p) :
    ((basisDers p U κ u d).getD 0 []).getD r 0 = (basisFuns p U κ u).getD r 0 := by
  rw [basisDers_entry p U κ u d 0 r (by omega) hr]
  rw [curveDersAt_zero p U (unitNet κ p r) κ u 1 0 d hp (by simp [unitNet]) (unitNet_netOk κ p r)]
  unfold spanPoly
  rw [eval_polP]
  simp only [eval_C]
  rw [← diag U κ u p hp, wsum_eq_sum, Blossom.basisFuns_length]
  rw [Finset.sum_eq_single r]
  · rw [unitNet_coord κ p r _ hr hp, if_pos rfl, mul_one]
  · intro b hb hbr
    rw [unitNet_coord κ p r _ hr hp, if_neg (by omega), mul_zero]
  · intro h; exfalso; apply h; rw [Finset.mem_range]; omega

end Geomdl
