import NurbsVerif.Lemmas.LengthMain
import NurbsVerif.Lemmas.KnotVec2

/-!
  C18, length bounds, part 5: the statements for the sampled points of a curve (`evalpts` =
  `curveGrid` at the `linspace` parameters from the start to the end of the domain), i.e. for
  `operations.length_curve`.
-/
namespace Geomdl
open Blossom
variable {K : Type} [Field K] [LinearOrder K] [IsStrictOrderedRing K]

theorem curveGrid_false (p : ℕ) (U : ℕ → K) (P : List (List K)) (ks : List K) :
    curveGrid false p U P ks = ks.map (curvePoint p U P) := by
  simp [curveGrid, projIf]

theorem ptsGet_map_params (f : K → List K) (ks : List K) (i : ℕ) (hi : i < ks.length) :
    ptsGet (ks.map f) i = f (ks.getD i 0) := by
  simp [ptsGet, List.getD_eq_getElem?_getD, List.getElem?_map, List.getElem?_eq_getElem hi]

/-- the sampled points of a well-formed curve all have `d` coordinates -/
theorem curveGrid_netOk (p d : ℕ) (Ul : List K) (P : List (List K)) (hC : CurveWF p d Ul P) (ks : List K) :
    NetOk d (curveGrid false p (fnOf Ul) P ks) := by
  rw [curveGrid_false]
  intro pt hpt
  obtain ⟨u, _, rfl⟩ := List.mem_map.mp hpt
  exact curvePoint_length p _ P u d hC.pn hC.net

/-- **`length_curve` is at least the chord between the first and the last sampled point** (any
    non-empty parameter list) -/
theorem curveLength_ge_sample_chord {N : List K → K} {d : ℕ} (hN : IsSeminorm d N) (p : ℕ) (Ul : List K)
    (P : List (List K)) (hC : CurveWF p d Ul P) (ks : List K) (hne : ks ≠ []) :
    N (vsub (curvePoint p (fnOf Ul) P (ks.getD (ks.length - 1) 0)) (curvePoint p (fnOf Ul) P (ks.getD 0 0)))
      ≤ curveLength (distN N) false p (fnOf Ul) P ks := by
  have hpos : 0 < ks.length := List.length_pos_iff.mpr hne
  have h := polyline_ge_chord hN (curveGrid false p (fnOf Ul) P ks)
    (by rw [curveGrid_false]; simpa using hne) (curveGrid_netOk p d Ul P hC ks)
  rw [curveGrid_false, List.length_map, ptsGet_map_params _ _ _ (by omega), ptsGet_map_params _ _ _ hpos, ← curveGrid_false] at h
  exact h

/-- **the approximate length of a clamped curve is at least its end-to-end chord**: if the first sample
    parameter is the start `U_p` and the last one the end `U_n` of the domain of a curve clamped at
    both ends, the chord is the one between the first and the last control point -/
theorem curveLength_ge_chord {N : List K → K} {d : ℕ} (hN : IsSeminorm d N) (p : ℕ) (Ul : List K)
    (P : List (List K)) (hC : CurveWF p d Ul P) (hcl : ClampedOk p (fnOf Ul) P.length) (ks : List K) (hne : ks ≠ [])
    (hfirst : ks.getD 0 0 = fnOf Ul p) (hlast : ks.getD (ks.length - 1) 0 = fnOf Ul P.length) :
    N (vsub (ptsGet P (P.length - 1)) (ptsGet P 0)) ≤ curveLength (distN N) false p (fnOf Ul) P ks := by
  have h := curveLength_ge_sample_chord hN p Ul P hC ks hne
  have hpn := hC.pn
  have e0 : curvePoint p (fnOf Ul) P (fnOf Ul p) = ptsGet P 0 := by
    apply vec_ext_getD
    · rw [curvePoint_length p _ P _ d hC.pn hC.net, ptsGet_length hC.net _ (by omega)]
    · intro j _
      exact curvePoint_start p (fnOf Ul) P d j hC.mono hC.pn hC.net hcl.first hcl.start
  have e1 : curvePoint p (fnOf Ul) P (fnOf Ul P.length) = ptsGet P (P.length - 1) := by
    apply vec_ext_getD
    · rw [curvePoint_length p _ P _ d hC.pn hC.net, ptsGet_length hC.net _ (by omega)]
    · intro j _
      exact curvePoint_end p (fnOf Ul) P d j hC.knotsOk hC.net hcl.stop
  rw [hfirst, hlast, e0, e1] at h
  exact h

/-- **`length_curve` is at most the length of the control polygon**, for every strictly increasing
    list of sample parameters of the closed domain -/
theorem curveLength_le_polygon {N : List K → K} {d : ℕ} (hN : IsSeminorm d N) (p : ℕ) (hp : 1 ≤ p)
    (Ul : List K) (P : List (List K)) (hC : CurveWF p d Ul P) (ks : List K) (hsorted : ks.Pairwise (· < ·))
    (hdom : ∀ u ∈ ks, fnOf Ul p ≤ u ∧ u ≤ fnOf Ul P.length)
    (hend : fnOf Ul P.length ∈ ks → ∀ i, P.length ≤ i → i < P.length + p → fnOf Ul i = fnOf Ul P.length) :
    curveLength (distN N) false p (fnOf Ul) P ks ≤ polylineLength (distN N) P := by
  unfold curveLength
  rw [curveGrid_false]
  exact curve_polyline_le_polygon hN p hp Ul P hC ks hsorted hdom hend

/-! ### the library's sample parameters: `linspace(U_p, U_n, sample_size)` -/

theorem linspaceCore_sorted (a b : K) (n : ℕ) (hab : a < b) : (linspaceCore a b n).Pairwise (· < ·) := by
  rw [List.pairwise_iff_getElem]
  intro i j hi hj hij
  rw [linspaceCore_length] at hi hj
  have := linspaceCore_strictMono a b n i j hab hij hj
  simpa [List.getD_eq_getElem?_getD, List.getElem?_eq_getElem, linspaceCore_length, hi, hj] using this

theorem linspaceCore_mem_bounds (a b : K) (n : ℕ) (hab : a < b) (hn : 2 ≤ n) (u : K) (hu : u ∈ linspaceCore a b n) :
    a ≤ u ∧ u ≤ b := by
  obtain ⟨i, hi, rfl⟩ := List.mem_iff_getElem.mp hu
  rw [linspaceCore_length] at hi
  have e : (linspaceCore a b n)[i] = (linspaceCore a b n).getD i 0 := by
    simp [List.getD_eq_getElem?_getD, List.getElem?_eq_getElem, linspaceCore_length, hi]
  rw [e]
  constructor
  · rcases Nat.eq_zero_or_pos i with h0 | h0
    · rw [h0, linspaceCore_first a b n (by omega)]
    · have := linspaceCore_strictMono a b n 0 i hab h0 hi
      rw [linspaceCore_first a b n (by omega)] at this
      exact le_of_lt this
  · rcases Nat.lt_or_ge i (n - 1) with h1 | h1
    · have := linspaceCore_strictMono a b n i (n - 1) hab h1 (by omega)
      rw [linspaceCore_last a b n hn] at this
      exact le_of_lt this
    · have : i = n - 1 := by omega
      rw [this, linspaceCore_last a b n hn]

/-- **`operations.length_curve` never exceeds the control polygon length**: the samples are taken at
    `linspace(U_p, U_n, num)` (any sample size, any value of the tolerance constant of `linspace`), the
    curve is non-rational of degree `≥ 1` and ends at its last control point (clamped at the end) -/
theorem length_curve_le_polygon {N : List K → K} {d : ℕ} (hN : IsSeminorm d N) (p : ℕ) (hp : 1 ≤ p)
    (Ul : List K) (P : List (List K)) (hC : CurveWF p d Ul P)
    (hend : ∀ i, P.length ≤ i → i < P.length + p → fnOf Ul i = fnOf Ul P.length) (num : ℕ) (tol : K) :
    curveLength (distN N) false p (fnOf Ul) P (linspace (fnOf Ul p) (fnOf Ul P.length) num tol)
      ≤ polylineLength (distN N) P := by
  have hpn := hC.pn
  have hab : fnOf Ul p < fnOf Ul P.length := lt_of_le_of_lt (hC.mono (by omega)) hC.last
  by_cases hcore : tol < |fnOf Ul p - fnOf Ul P.length| ∧ 2 ≤ num
  · rw [linspace_eq_core _ _ _ _ hcore.1 hcore.2]
    exact curveLength_le_polygon hN p hp Ul P hC _ (linspaceCore_sorted _ _ _ hab)
      (linspaceCore_mem_bounds _ _ _ hab hcore.2) (fun _ => hend)
  · rw [linspace_degenerate _ _ _ _ (by
      by_cases h1 : tol < |fnOf Ul p - fnOf Ul P.length|
      · right; have : ¬ 2 ≤ num := fun h => hcore ⟨h1, h⟩
        omega
      · left; exact not_lt.mp h1)]
    unfold curveLength
    rw [curveGrid_false, List.map_singleton, polylineLength_single]
    exact polylineLength_nonneg hN P hC.net

/-- **`operations.length_curve` is never less than the end-to-end chord** of a curve clamped at both
    ends, when at least two samples are taken (`linspace` not degenerate) -/
theorem length_curve_ge_chord {N : List K → K} {d : ℕ} (hN : IsSeminorm d N) (p : ℕ)
    (Ul : List K) (P : List (List K)) (hC : CurveWF p d Ul P) (hcl : ClampedOk p (fnOf Ul) P.length)
    (num : ℕ) (hnum : 2 ≤ num) (tol : K) (htol : tol < |fnOf Ul p - fnOf Ul P.length|) :
    N (vsub (ptsGet P (P.length - 1)) (ptsGet P 0))
      ≤ curveLength (distN N) false p (fnOf Ul) P (linspace (fnOf Ul p) (fnOf Ul P.length) num tol) := by
  rw [linspace_eq_core _ _ _ _ htol hnum]
  apply curveLength_ge_chord hN p Ul P hC hcl
  · intro h
    have := congrArg List.length h
    rw [linspaceCore_length] at this
    simp at this; omega
  · exact linspaceCore_first _ _ _ (by omega)
  · rw [linspaceCore_length]; exact linspaceCore_last _ _ _ hnum

end Geomdl
