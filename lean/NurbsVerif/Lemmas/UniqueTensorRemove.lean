import NurbsVerif.Lemmas.UniqueTensor
import NurbsVerif.Lemmas.UniqueSurf
import NurbsVerif.Lemmas.RefineSurf

/-! # A knot that is removable from a SURFACE is removable from every iso-curve

`SurfRemovableU`: the u-direction knot `ub` of the surface `(V, Uv, P)` (`su × sv` net) is removable `r` times AS A
SURFACE: some `(su - r) × sv` net `Q` over the knot vector `V` with `r` copies of `ub` taken out (and the same
v-direction) has the same surface points on the half-open domain.  By tensor-product linear independence
(`surface_cols_determined`) every column (iso-curve `v = y`) of `P` is then a curve from which `ub` is removable,
witnessed by the corresponding column of `Q` (`RemovableKnot`), so the gather / A5.8 / scatter of
`operations.remove_knot` returns exactly `Q`.  `SurfRemovableV`: the same for the v direction (rows). -/
namespace Geomdl
open Blossom
variable {K : Type} [Field K] [LinearOrder K] [IsStrictOrderedRing K]

/-- the knot `ub` of the u-direction knot vector `V` of the surface `(pu, pv, V, Uv, su × sv net P)` is removable
    `r` times as a surface, witnessed by the `(su - r) × sv` net `Q` (positions / counts as in `RemovableKnot`) -/
structure SurfRemovableU (pu pv d : ℕ) (V Uv : List K) (P Q : List (List K)) (ub : K) (r s k su sv : ℕ) : Prop where
  kvu : KvWF pu V su
  kvv : KvWF pv Uv sv
  netlen : P.length = su * sv
  net : NetOk d P
  activeU : AllActive pu su (fnOf V)
  activeV : AllActive pv sv (fnOf Uv)
  run : ∀ x, k - s < x → x ≤ k + r → fnOf V x = ub
  below : fnOf V (k - s) < ub
  above : ub < fnOf V (k + r + 1)
  r1 : 1 ≤ r
  rs : r + s ≤ pu
  pk : pu ≤ k
  kn : k + r < su
  redkv : KvWF pu (knotRemovalKv V (k + r) r) (su - r)
  rednetlen : Q.length = (su - r) * sv
  rednet : NetOk d Q
  same : ∀ u v, fnOf V pu ≤ u → u < fnOf V su → fnOf Uv pv ≤ v → v < fnOf Uv sv → ∀ j,
    (surfacePoint pu pv (fnOf (knotRemovalKv V (k + r) r)) (fnOf Uv) (su - r) sv Q u v).getD j 0
      = (surfacePoint pu pv (fnOf V) (fnOf Uv) su sv P u v).getD j 0

/-- the same for a v-direction knot (`V` = the v-direction knot vector, witness `Q` of size `su × (sv - r)`) -/
structure SurfRemovableV (pu pv d : ℕ) (Uu V : List K) (P Q : List (List K)) (ub : K) (r s k su sv : ℕ) : Prop where
  kvu : KvWF pu Uu su
  kvv : KvWF pv V sv
  netlen : P.length = su * sv
  net : NetOk d P
  activeU : AllActive pu su (fnOf Uu)
  activeV : AllActive pv sv (fnOf V)
  run : ∀ x, k - s < x → x ≤ k + r → fnOf V x = ub
  below : fnOf V (k - s) < ub
  above : ub < fnOf V (k + r + 1)
  r1 : 1 ≤ r
  rs : r + s ≤ pv
  pk : pv ≤ k
  kn : k + r < sv
  redkv : KvWF pv (knotRemovalKv V (k + r) r) (sv - r)
  rednetlen : Q.length = su * (sv - r)
  rednet : NetOk d Q
  same : ∀ u v, fnOf Uu pu ≤ u → u < fnOf Uu su → fnOf V pv ≤ v → v < fnOf V sv → ∀ j,
    (surfacePoint pu pv (fnOf Uu) (fnOf (knotRemovalKv V (k + r) r)) su (sv - r) Q u v).getD j 0
      = (surfacePoint pu pv (fnOf Uu) (fnOf V) su sv P u v).getD j 0

/-- **u direction: every column is a removable curve** -/
theorem SurfRemovableU.isocurves {pu pv d : ℕ} {V Uv : List K} {P Q : List (List K)} {ub : K} {r s k su sv : ℕ}
    (h : SurfRemovableU pu pv d V Uv P Q ub r s k su sv) (y : ℕ) (hy : y < sv) :
    RemovableKnot pu d V (colOf su sv P y) (colOf (su - r) sv Q y) ub r s k := by
  have hcl := RemInv.colOf_length su sv P y
  have hcl' := RemInv.colOf_length (su - r) sv Q y
  refine ⟨h.kvu.curve d _ hcl (colOf_netOk su sv d P h.net h.netlen y hy), by rw [hcl]; exact h.activeU,
    h.run, h.below, h.above, h.r1, h.rs, h.pk, by rw [hcl]; exact h.kn,
    h.redkv.curve d _ hcl' (colOf_netOk (su - r) sv d Q h.rednet h.rednetlen y hy), ?_⟩
  intro u h1 h2 j
  rw [hcl] at h2
  exact surface_cols_determined pu pu pv (fnOf (knotRemovalKv V (k + r) r)) (fnOf V) (fnOf Uv) (su - r) su sv Q P d j u
    h.kvv.mono h.kvv.pn h.activeV h.redkv.pn h.kvu.pn h.rednetlen h.netlen h.rednet h.net
    (fun v hv1 hv2 => h.same u v h1 h2 hv1 hv2 j) y hy

/-- **v direction: every row is a removable curve** -/
theorem SurfRemovableV.isocurves {pu pv d : ℕ} {Uu V : List K} {P Q : List (List K)} {ub : K} {r s k su sv : ℕ}
    (h : SurfRemovableV pu pv d Uu V P Q ub r s k su sv) (x : ℕ) (hx : x < su) :
    RemovableKnot pv d V (rowOf sv P x) (rowOf (sv - r) Q x) ub r s k := by
  have hrl := RemInv.rowOf_length sv P x
  have hrl' := RemInv.rowOf_length (sv - r) Q x
  refine ⟨h.kvv.curve d _ hrl (rowOf_netOk su sv d P h.net h.netlen x hx), by rw [hrl]; exact h.activeV,
    h.run, h.below, h.above, h.r1, h.rs, h.pk, by rw [hrl]; exact h.kn,
    h.redkv.curve d _ hrl' (rowOf_netOk su (sv - r) d Q h.rednet h.rednetlen x hx), ?_⟩
  intro v h1 h2 j
  rw [hrl] at h2
  exact surface_rows_determined pu pv pv (fnOf Uu) (fnOf (knotRemovalKv V (k + r) r)) (fnOf V) su (sv - r) sv Q P d j v
    h.kvu.mono h.kvu.pn h.activeU h.redkv.pn h.kvv.pn h.rednetlen h.netlen h.rednet h.net
    (fun u hu1 hu2 => h.same u v hu1 hu2 h1 h2 j) x hx

/-- **a u-direction knot that is removable from the surface is removed exactly**: the gather / A5.8 on every
    column / scatter of `operations.remove_knot` returns the witness net and the reduced size -/
theorem SurfRemovableU.exact {pu pv d : ℕ} {V Uv : List K} {P Q : List (List K)} {ub : K} {r s k su sv : ℕ}
    (h : SurfRemovableU pu pv d V Uv P Q ub r s k su sv) (tol2 : K) (htol : 0 ≤ tol2) :
    mapSurfU su sv P (fun c => knotRemoval pu (fnOf V) c ub r (s + r) (k + r) tol2) = (Q, su - r) :=
  surfU_removable pu d V P Q ub r s k su sv tol2 (by have := h.kvv.pn; omega) h.rednetlen (fun y hy => h.isocurves y hy) htol

/-- **… v direction** -/
theorem SurfRemovableV.exact {pu pv d : ℕ} {Uu V : List K} {P Q : List (List K)} {ub : K} {r s k su sv : ℕ}
    (h : SurfRemovableV pu pv d Uu V P Q ub r s k su sv) (tol2 : K) (htol : 0 ≤ tol2) :
    mapSurfV su sv P (fun c => knotRemoval pv (fnOf V) c ub r (s + r) (k + r) tol2) = (Q, sv - r) :=
  surfV_removable pv d V P Q ub r s k su sv tol2 (by have := h.kvu.pn; omega) h.rednetlen (fun x hx => h.isocurves x hx) htol

/-! ### partial removal `t ≤ r` at net level: the result is the net of `r - t` insertions into the witness -/

/-- two gathers / scatters along u whose column results agree give the same net and size -/
theorem mapSurfU_congr_cols (su su' sv L : ℕ) (P Q : List (List K)) (f g : List (List K) → List (List K)) (hsv : 0 < sv)
    (hf : ∀ y, y < sv → (f (colOf su sv P y)).length = L)
    (hfg : ∀ y, y < sv → f (colOf su sv P y) = g (colOf su' sv Q y)) :
    mapSurfU su sv P f = mapSurfU su' sv Q g := by
  have hg : ∀ y, y < sv → (g (colOf su' sv Q y)).length = L := fun y hy => by rw [← hfg y hy]; exact hf y hy
  obtain ⟨a2, a1, ac⟩ := RemInv.mapSurfU_cols su sv L P f hsv hf
  obtain ⟨b2, b1, bc⟩ := RemInv.mapSurfU_cols su' sv L Q g hsv hg
  apply Prod.ext
  · apply RemInv.net_eq_of_cols L sv _ _ a1 b1
    intro y hy
    rw [ac y hy, bc y hy, hfg y hy]
  · rw [a2, b2]

/-- two gathers / scatters along v whose row results agree give the same net and size -/
theorem mapSurfV_congr_rows (su sv sv' L : ℕ) (P Q : List (List K)) (f g : List (List K) → List (List K)) (hsu : 0 < su)
    (hf : ∀ x, x < su → (f (rowOf sv P x)).length = L)
    (hfg : ∀ x, x < su → f (rowOf sv P x) = g (rowOf sv' Q x)) :
    mapSurfV su sv P f = mapSurfV su sv' Q g := by
  have hg : ∀ x, x < su → (g (rowOf sv' Q x)).length = L := fun x hx => by rw [← hfg x hx]; exact hf x hx
  obtain ⟨a1, a2⟩ := RemInv.mapSurfV_size su sv L P f hsu hf
  obtain ⟨b1, b2⟩ := RemInv.mapSurfV_size su sv' L Q g hsu hg
  apply Prod.ext
  · apply RemInv.net_eq_of_rows su L _ _ a1 b1
    intro x hx
    rw [mapSurfV_rows su sv L P f hf x hx, mapSurfV_rows su sv' L Q g hg x hx, hfg x hx]
  · rw [a2, b2]

/-- curve level: `t ≤ r` removals of a removable knot = `r - t` insertions into the witness -/
theorem removable_t (p d : ℕ) (V : List K) (Ph Q : List (List K)) (ub : K) (r t s k : ℕ) (tol2 : K)
    (h : RemovableKnot p d V Ph Q ub r s k) (ht1 : 1 ≤ t) (htr : t ≤ r) (htol : 0 ≤ tol2) :
    knotRemoval p (fnOf V) Ph ub t (s + r) (k + r) tol2
      = knotInsertion p (fnOf (knotRemovalKv V (k + r) r)) Q ub (r - t) s k :=
  (removable_knot p d V Ph Q ub r t s k tol2 h.wf h.active h.reduced h.run h.below h.above ht1 htr h.rs h.pk h.kn htol
    h.same).2

/-- **surfaces, u direction, `t ≤ r` removals** (every column removable): the result is the net and size that
    `r - t` insertions of `ub` into the witness net produce -/
theorem surfU_removable_t (p d : ℕ) (V : List K) (P Q : List (List K)) (ub : K) (r t s k su sv : ℕ) (tol2 : K)
    (hsv : 0 < sv)
    (h : ∀ y, y < sv → RemovableKnot p d V (colOf su sv P y) (colOf (su - r) sv Q y) ub r s k)
    (ht1 : 1 ≤ t) (htr : t ≤ r) (htol : 0 ≤ tol2) :
    mapSurfU su sv P (fun c => knotRemoval p (fnOf V) c ub t (s + r) (k + r) tol2)
      = mapSurfU (su - r) sv Q (fun c => knotInsertion p (fnOf (knotRemovalKv V (k + r) r)) c ub (r - t) s k) := by
  apply mapSurfU_congr_cols su (su - r) sv (su - t) P Q _ _ hsv
  · intro y hy
    rw [RemInv.knotRemoval_length, RemInv.colOf_length]
  · intro y hy
    exact removable_t p d V _ _ ub r t s k tol2 (h y hy) ht1 htr htol

/-- **surfaces, v direction, `t ≤ r` removals** (every row removable) -/
theorem surfV_removable_t (p d : ℕ) (V : List K) (P Q : List (List K)) (ub : K) (r t s k su sv : ℕ) (tol2 : K)
    (hsu : 0 < su)
    (h : ∀ x, x < su → RemovableKnot p d V (rowOf sv P x) (rowOf (sv - r) Q x) ub r s k)
    (ht1 : 1 ≤ t) (htr : t ≤ r) (htol : 0 ≤ tol2) :
    mapSurfV su sv P (fun c => knotRemoval p (fnOf V) c ub t (s + r) (k + r) tol2)
      = mapSurfV su (sv - r) Q (fun c => knotInsertion p (fnOf (knotRemovalKv V (k + r) r)) c ub (r - t) s k) := by
  apply mapSurfV_congr_rows su sv (sv - r) (sv - t) P Q _ _ hsu
  · intro x hx
    rw [RemInv.knotRemoval_length, RemInv.rowOf_length]
  · intro x hx
    exact removable_t p d V _ _ ub r t s k tol2 (h x hx) ht1 htr htol

end Geomdl
