import NurbsVerif.Lemmas.AffineAssembleShape

/-!
  C10, assembly part 3: the three transformations of `Model/Transform.lean` on a well-formed `Shape`,
  END-TO-END (through the span search), for every parameter tuple of the closed domain:

  * `translate_pointAt`, `scale_pointAt`, `rotate_pointAt` – the evaluated point moves by the map;
  * `rotateAbout` – the model's three steps of `rotate` on a single point; coordinate form
    (`rotateAbout_getD`: `o + R (x − o)`), the centre is a fixed point;
  * `*_wf` – the transformed shape is again well-formed (same knots, same domain);
  * `*_weights` – the weight coordinate of every homogeneous control point is unchanged;
  * `startPoint_clamped` – for clamped shapes the rotation centre is the first control point.
-/
namespace Geomdl
open Blossom Finset
variable {K : Type} [Field K] [LinearOrder K] [IsStrictOrderedRing K]

/-- the model's rotation about the point `o` on a single Cartesian point: the three steps of `rotate`
    (translate by `0 - o`, apply the rotation formulas, translate by `0 - (0 - o)`), any numbers `c`, `s` -/
def rotateAbout (axis : ℕ) (c s : K) (o pt : List K) : List K :=
  translatePt (o.map (fun x => 0 - (0 - x))) (rotatePt axis c s (translatePt (o.map (fun x => 0 - x)) pt))

theorem rotate_eq_mapPts (S : Shape K) (axis : ℕ) (c s : K) :
    rotate S axis c s
      = ((S.mapPts (translatePt ((startPoint S).map (fun x => 0 - x)))).mapPts (rotatePt axis c s)).mapPts
          (translatePt ((startPoint S).map (fun x => 0 - (0 - x)))) := rfl

/-- the rotation formulas as an affine map on 2-D and on 3-D points (2-D: always the z axis) -/
theorem rotatePt_affOn (d : ℕ) (hd : d = 2 ∨ d = 3) (axis : ℕ) (c s : K) :
    AffOn d (rotatePt axis c s) (rotMat (if d = 2 then 2 else axis) c s) (fun _ => 0) := by
  rcases hd with rfl | rfl
  · exact rotatePt_affOn2 axis c s
  · exact rotatePt_affOn3 axis c s

theorem ShapeWF.startPoint_length {d : ℕ} {S : Shape K} (h : ShapeWF d S) : (startPoint S).length = d := by
  rw [startPoint_eq_pointAt]; exact h.pointAt_length _

/-! ### the transformed shape is again well-formed -/

theorem translate_wf {d : ℕ} {S : Shape K} (h : ShapeWF d S) (v : List K) (hv : v.length = d) :
    ShapeWF d (translate S v) := h.mapPts _ (translatePt_affOn d v hv).len

theorem scale_wf {d : ℕ} {S : Shape K} (h : ShapeWF d S) (m : K) : ShapeWF d (scale S m) :=
  h.mapPts _ (scalePt_affOn d m).len

theorem rotate_wf {d : ℕ} {S : Shape K} (h : ShapeWF d S) (hd : d = 2 ∨ d = 3) (axis : ℕ) (c s : K) :
    ShapeWF d (rotate S axis c s) := by
  have ho : (startPoint S).length = d := h.startPoint_length
  exact ((h.mapPts _ (translatePt_affOn d _ (by simp [ho])).len).mapPts _ (rotatePt_affOn d hd axis c s).len).mapPts _
    (translatePt_affOn d _ (by simp [ho])).len

/-! ### evaluated points -/

theorem translate_pointAt {d : ℕ} {S : Shape K} (h : ShapeWF d S) (v : List K) (hv : v.length = d)
    (t : ℕ → K) (ht : S.InDom t) : (translate S v).pointAt t = translatePt v (S.pointAt t) :=
  mapPts_pointAt h _ _ _ (translatePt_affOn d v hv) t ht

theorem scale_pointAt {d : ℕ} {S : Shape K} (h : ShapeWF d S) (m : K)
    (t : ℕ → K) (ht : S.InDom t) : (scale S m).pointAt t = scalePt m (S.pointAt t) :=
  mapPts_pointAt h _ _ _ (scalePt_affOn d m) t ht

theorem rotate_pointAt {d : ℕ} {S : Shape K} (h : ShapeWF d S) (hd : d = 2 ∨ d = 3) (axis : ℕ) (c s : K)
    (t : ℕ → K) (ht : S.InDom t) :
    (rotate S axis c s).pointAt t = rotateAbout axis c s (startPoint S) (S.pointAt t) := by
  have ho : (startPoint S).length = d := h.startPoint_length
  have a1 := translatePt_affOn d ((startPoint S).map (fun x => 0 - x)) (by simp [ho])
  have a2 := rotatePt_affOn d hd axis c s
  have a3 := translatePt_affOn d ((startPoint S).map (fun x => 0 - (0 - x))) (by simp [ho])
  have w1 := h.mapPts _ a1.len
  have w2 := w1.mapPts _ a2.len
  rw [rotate_eq_mapPts, mapPts_pointAt w2 _ _ _ a3 t ht, mapPts_pointAt w1 _ _ _ a2 t ht,
    mapPts_pointAt h _ _ _ a1 t ht]
  rfl

/-! ### the rotation map in coordinates -/

theorem map_getD_lt (g : K → K) (o : List K) (j : ℕ) (hj : j < o.length) : (o.map g).getD j 0 = g (o.getD j 0) := by
  simp [List.getD_eq_getElem?_getD, List.getElem?_eq_getElem hj]

/-- `rotateAbout` is `x ↦ o + R (x − o)` with the rotation matrix of the axis (2-D: z axis) -/
theorem rotateAbout_getD (d : ℕ) (hd : d = 2 ∨ d = 3) (axis : ℕ) (c s : K) (o pt : List K)
    (ho : o.length = d) (hpt : pt.length = d) (j : ℕ) (hj : j < d) :
    (rotateAbout axis c s o pt).getD j 0
      = o.getD j 0 + ∑ l ∈ range d, rotMat (if d = 2 then 2 else axis) c s j l * (pt.getD l 0 - o.getD l 0) := by
  have a1 := translatePt_affOn d (o.map (fun x => 0 - x)) (by simp [ho])
  have a2 := rotatePt_affOn d hd axis c s
  unfold rotateAbout
  rw [translatePt_getD_gen, a2.coord _ (a1.len pt hpt) j hj, map_getD_lt _ o j (by omega)]
  · rw [add_zero, add_comm]
    congr 1
    · ring
    · apply Finset.sum_congr rfl
      intro l hl
      rw [Finset.mem_range] at hl
      rw [translatePt_getD_gen _ _ l (by simp [ho, hpt]), map_getD_lt _ o l (by omega)]
      ring
  · rw [a2.len _ (a1.len pt hpt)]; simp [ho]
where
  translatePt_getD_gen (vec pt : List K) (j : ℕ) (h : pt.length = vec.length) :
      (translatePt vec pt).getD j 0 = pt.getD j 0 + vec.getD j 0 := by
    unfold translatePt
    exact vadd_getD pt vec j h

theorem rotateAbout_length (d : ℕ) (hd : d = 2 ∨ d = 3) (axis : ℕ) (c s : K) (o pt : List K)
    (ho : o.length = d) (hpt : pt.length = d) : (rotateAbout axis c s o pt).length = d := by
  have a1 := translatePt_affOn d (o.map (fun x => 0 - x)) (by simp [ho])
  have a2 := rotatePt_affOn d hd axis c s
  have a3 := translatePt_affOn d (o.map (fun x => 0 - (0 - x))) (by simp [ho])
  exact a3.len _ (a2.len _ (a1.len pt hpt))

/-- the rotation about `o` is one affine map of the coordinates -/
theorem rotateAbout_affOn (d : ℕ) (hd : d = 2 ∨ d = 3) (axis : ℕ) (c s : K) (o : List K) (ho : o.length = d) :
    ∃ A b, AffOn d (rotateAbout axis c s o) A b :=
  ⟨_, _, AffOn.comp (AffOn.comp (translatePt_affOn d (o.map (fun x => 0 - x)) (by simp [ho])) (rotatePt_affOn d hd axis c s))
    (translatePt_affOn d (o.map (fun x => 0 - (0 - x))) (by simp [ho]))⟩

/-- the centre is a fixed point of the rotation (any `c`, `s`) -/
theorem rotateAbout_centre (d : ℕ) (hd : d = 2 ∨ d = 3) (axis : ℕ) (c s : K) (o : List K) (ho : o.length = d) :
    rotateAbout axis c s o o = o := by
  apply list_eq_of_getD_lt d (rotateAbout_length d hd axis c s o o ho ho) ho
  intro j hj
  rw [rotateAbout_getD d hd axis c s o o ho ho j hj]
  simp

/-- the start point of the rotated shape is the start point of the original one -/
theorem rotate_startPoint {d : ℕ} {S : Shape K} (h : ShapeWF d S) (hd : d = 2 ∨ d = 3) (axis : ℕ) (c s : K) :
    startPoint (rotate S axis c s) = startPoint S := by
  have ho : (startPoint S).length = d := h.startPoint_length
  rw [startPoint_eq_pointAt (rotate S axis c s)]
  show (rotate S axis c s).pointAt S.domStart = _
  rw [rotate_pointAt h hd axis c s _ h.domStart_inDom, ← startPoint_eq_pointAt]
  exact rotateAbout_centre d hd axis c s _ ho

/-! ### weights of the control points are unchanged -/

theorem mapPts_weights {d : ℕ} {S : Shape K} (hn : NetOk (d+1) S.net) (hr : S.rat = true) (f : List K → List K)
    (hf : ∀ pt : List K, pt.length = d → (f pt).length = d) :
    NetOk (d+1) (S.mapPts f).net ∧ (S.mapPts f).net.length = S.net.length ∧
    ∀ i, i < S.net.length → (ptsGet (S.mapPts f).net i).getD d 0 = (ptsGet S.net i).getD d 0 := by
  rw [mapPts_net_rat S f hr]
  obtain ⟨a, b⟩ := onCartesian_net d f S.net hn hf
  exact ⟨a, by simp, b⟩

theorem ShapeWF.netOk_rat {d : ℕ} {S : Shape K} (h : ShapeWF d S) (hr : S.rat = true) : NetOk (d+1) S.net := by
  have hn := h.net
  rw [hr] at hn
  simpa using hn

theorem ShapeWF.netOk_nonrat {d : ℕ} {S : Shape K} (h : ShapeWF d S) (hr : S.rat = false) : NetOk d S.net := by
  have hn := h.net
  rw [hr] at hn
  simpa using hn

theorem translate_weights {d : ℕ} {S : Shape K} (h : ShapeWF d S) (hr : S.rat = true) (v : List K) (hv : v.length = d) :
    (translate S v).net.length = S.net.length ∧
    ∀ i, i < S.net.length → (ptsGet (translate S v).net i).getD d 0 = (ptsGet S.net i).getD d 0 :=
  (mapPts_weights (h.netOk_rat hr) hr _ (translatePt_affOn d v hv).len).2

theorem scale_weights {d : ℕ} {S : Shape K} (h : ShapeWF d S) (hr : S.rat = true) (m : K) :
    (scale S m).net.length = S.net.length ∧
    ∀ i, i < S.net.length → (ptsGet (scale S m).net i).getD d 0 = (ptsGet S.net i).getD d 0 :=
  (mapPts_weights (h.netOk_rat hr) hr _ (scalePt_affOn d m).len).2

theorem rotate_weights {d : ℕ} {S : Shape K} (h : ShapeWF d S) (hr : S.rat = true) (hd : d = 2 ∨ d = 3)
    (axis : ℕ) (c s : K) :
    (rotate S axis c s).net.length = S.net.length ∧
    ∀ i, i < S.net.length → (ptsGet (rotate S axis c s).net i).getD d 0 = (ptsGet S.net i).getD d 0 := by
  have ho : (startPoint S).length = d := h.startPoint_length
  have a1 := translatePt_affOn d ((startPoint S).map (fun x => 0 - x)) (by simp [ho])
  have a2 := rotatePt_affOn d hd axis c s
  have a3 := translatePt_affOn d ((startPoint S).map (fun x => 0 - (0 - x))) (by simp [ho])
  obtain ⟨n1, l1, w1⟩ := mapPts_weights (h.netOk_rat hr) hr _ a1.len
  obtain ⟨n2, l2, w2⟩ := mapPts_weights (S := S.mapPts _) n1 hr _ a2.len
  obtain ⟨n3, l3, w3⟩ := mapPts_weights (S := (S.mapPts _).mapPts _) n2 hr _ a3.len
  rw [rotate_eq_mapPts]
  refine ⟨by rw [l3, l2, l1], ?_⟩
  intro i hi
  rw [w3 i (by rw [l2, l1]; exact hi), w2 i (by rw [l1]; exact hi), w1 i hi]

/-! ### the rotation centre of a clamped shape is its first control point -/

theorem ShapeWF.homAt_start_clamped {d : ℕ} {S : Shape K} (h : ShapeWF d S)
    (hc : ∀ i, i < S.pdim → ClampedOk (S.deg i) (fnOf (S.kv i)) (S.size i)) :
    S.homAt S.domStart = ptsGet S.net 0 := by
  have hnl := h.netlen
  unfold Shape.netSize at hnl
  have hn := h.net
  have hpos : 0 < S.net.length := by
    rcases h.pdim with h1 | h2 | h3
    · simp only [h1, if_true] at hnl
      have := (h.dirs 0 (by omega)).pn; omega
    · simp only [h2, show ¬ ((2 : ℕ) = 1) by omega, if_false, if_true] at hnl
      have a := (h.dirs 0 (by omega)).pn
      have b := (h.dirs 1 (by omega)).pn
      rw [hnl]; exact Nat.mul_pos (by omega) (by omega)
    · simp only [h3, show ¬ ((3 : ℕ) = 1) by omega, show ¬ ((3 : ℕ) = 2) by omega, if_false] at hnl
      have a := (h.dirs 0 (by omega)).pn
      have b := (h.dirs 1 (by omega)).pn
      have c := (h.dirs 2 (by omega)).pn
      rw [hnl]; exact Nat.mul_pos (Nat.mul_pos (by omega) (by omega)) (by omega)
  apply List.ext_getElem
  · rw [h.homAt_length, ptsGet_length hn 0 hpos]
  · intro j h1 h2
    have key : (S.homAt S.domStart).getD j 0 = (ptsGet S.net 0).getD j 0 := by
      rcases h.pdim with h1 | h2 | h3
      · rw [homAt_curve S _ h1]
        simp only [h1, if_true] at hnl
        have hk := h.dirs 0 (by omega)
        have hcl := hc 0 (by omega)
        exact curvePoint_start _ _ _ _ j hk.mono (by rw [hnl]; exact hk.pn) hn hcl.first hcl.start
      · rw [homAt_surface S _ h2]
        simp only [h2, show ¬ ((2 : ℕ) = 1) by omega, if_false, if_true] at hnl
        have := surfacePoint_corner _ _ _ _ _ _ S.net _ j (h.dirs 0 (by omega)) (h.dirs 1 (by omega))
          (hc 0 (by omega)) (hc 1 (by omega)) hnl hn false false
        simp only [Bool.false_eq_true, if_false, Nat.mul_zero, Nat.add_zero] at this
        exact this
      · rw [homAt_volume S _ h3]
        simp only [h3, show ¬ ((3 : ℕ) = 1) by omega, show ¬ ((3 : ℕ) = 2) by omega, if_false] at hnl
        have := volumePoint_corner _ _ _ _ _ _ _ _ _ S.net _ j (h.dirs 0 (by omega)) (h.dirs 1 (by omega))
          (h.dirs 2 (by omega)) (hc 0 (by omega)) (hc 1 (by omega)) (hc 2 (by omega)) hnl hn false false false
        simp only [Bool.false_eq_true, if_false, Nat.mul_zero, Nat.add_zero] at this
        exact this
    rw [List.getD_eq_getElem?_getD, List.getD_eq_getElem?_getD, List.getElem?_eq_getElem h1,
      List.getElem?_eq_getElem h2] at key
    simpa using key

/-- **clamped shapes rotate about their first control point** (projected when rational) -/
theorem startPoint_clamped {d : ℕ} {S : Shape K} (h : ShapeWF d S)
    (hc : ∀ i, i < S.pdim → ClampedOk (S.deg i) (fnOf (S.kv i)) (S.size i)) :
    startPoint S = if S.rat then project (ptsGet S.net 0) else ptsGet S.net 0 := by
  rw [startPoint_eq_pointAt, pointAt_eq, h.homAt_start_clamped hc]

end Geomdl
