import NurbsVerif.Lemmas.VolLift

/-! Volumes: what `mapVol dir` (the per-direction gather / scatter of `operations.insert_knot`,
    `refine_knotvector`, `remove_knot` for volumes) returns – every iso-curve of the result in the
    direction `dir` is `f` applied to the corresponding iso-curve of the input – and the lifting
    principle: an operation that preserves every iso-curve point preserves every volume point. -/
namespace Geomdl
open Blossom Finset
variable {K : Type} [Field K] [LinearOrder K] [IsStrictOrderedRing K]

theorem getD_map_range {β : Type} (g : ℕ → β) (n i : ℕ) (hi : i < n) (dflt : β) :
    ((List.range n).map g).getD i dflt = g i := by
  simp [List.getD_eq_getElem?_getD, hi]

theorem headD_map_range {β : Type} (g : ℕ → β) (n : ℕ) (hn : 0 < n) (dflt : β) :
    ((List.range n).map g).headD dflt = g 0 := by
  cases n with
  | zero => omega
  | succ m => rw [List.range_succ_eq_map]; simp

/-- `mapVol 0`: the u-directional iso-curves of the result are the images of those of the input -/
theorem mapVol0_spec (su sv sw d L : ℕ) (P : List (List K)) (f : List (List K) → List (List K))
    (hsv : 0 < sv) (hsw : 0 < sw)
    (hfl : ∀ y z, y < sv → z < sw → (f (lineU su sv P y z)).length = L)
    (hfn : ∀ y z, y < sv → z < sw → NetOk d (f (lineU su sv P y z))) :
    (mapVol 0 su sv sw P f).2 = L ∧ (mapVol 0 su sv sw P f).1.length = L * sv * sw ∧
      NetOk d (mapVol 0 su sv sw P f).1 ∧
      ∀ y z, y < sv → z < sw → lineU L sv (mapVol 0 su sv sw P f).1 y z = f (lineU su sv P y z) := by
  let lines : List (List (List (List K))) :=
    (List.range sw).map (fun w => (List.range sv).map (fun v => f (lineU su sv P v w)))
  have hline : ∀ y z, y < sv → z < sw → (lines.getD z []).getD y [] = f (lineU su sv P y z) := by
    intro y z hy hz
    show (((List.range sw).map (fun w => (List.range sv).map (fun v => f (lineU su sv P v w)))).getD z []).getD y [] = _
    rw [getD_map_range _ sw z hz, getD_map_range _ sv y hy]
  have hsize : (mapVol 0 su sv sw P f).2 = L := by
    show ((lines.headD []).headD []).length = L
    show ((((List.range sw).map (fun w => (List.range sv).map (fun v => f (lineU su sv P v w)))).headD []).headD []).length = L
    rw [headD_map_range _ sw hsw, headD_map_range _ sv hsv]
    exact hfl 0 0 hsv hsw
  have hnet : (mapVol 0 su sv sw P f).1 = (List.range sw).flatMap (fun w => (List.range L).flatMap (fun u =>
      (List.range sv).map (fun v => ptsGet ((lines.getD w []).getD v []) u))) := by
    show (List.range sw).flatMap (fun w => (List.range (mapVol 0 su sv sw P f).2).flatMap (fun u =>
      (List.range sv).map (fun v => ptsGet ((lines.getD w []).getD v []) u))) = _
    rw [hsize]
  have hentry : ∀ x y z, x < L → y < sv → z < sw →
      ptsGet (mapVol 0 su sv sw P f).1 (y + sv * (x + L * z)) = ptsGet (f (lineU su sv P y z)) x := by
    intro x y z hx hy hz
    rw [hnet]
    unfold ptsGet
    rw [flat3_getD [] (fun u v w => ((lines.getD w []).getD v []).getD u []) L sv sw x y z hx hy hz]
    show ((lines.getD z []).getD y []).getD x [] = _
    rw [hline y z hy hz]
  refine ⟨hsize, ?_, ?_, ?_⟩
  · rw [hnet, flat3_length]
  · intro pt hpt
    rw [hnet] at hpt
    obtain ⟨x, y, z, hx, hy, hz, rfl⟩ := flat3_mem _ L sv sw pt hpt
    show (ptsGet ((lines.getD z []).getD y []) x).length = d
    rw [hline y z hy hz]
    exact ptsGet_length (hfn y z hy hz) x (by rw [hfl y z hy hz]; exact hx)
  · intro y z hy hz
    apply List.ext_getElem
    · rw [lineU_length, hfl y z hy hz]
    · intro i h1 h2
      have hi : i < L := by rw [lineU_length] at h1; exact h1
      simp only [lineU, List.getElem_map, List.getElem_range]
      rw [hentry i y z hi hy hz]
      unfold ptsGet
      rw [List.getD_eq_getElem?_getD, List.getElem?_eq_getElem h2]
      rfl

/-- `mapVol 1`: the v-directional iso-curves of the result are the images of those of the input -/
theorem mapVol1_spec (su sv sw d L : ℕ) (P : List (List K)) (f : List (List K) → List (List K))
    (hsu : 0 < su) (hsw : 0 < sw)
    (hfl : ∀ x z, x < su → z < sw → (f (lineV su sv P x z)).length = L)
    (hfn : ∀ x z, x < su → z < sw → NetOk d (f (lineV su sv P x z))) :
    (mapVol 1 su sv sw P f).2 = L ∧ (mapVol 1 su sv sw P f).1.length = su * L * sw ∧
      NetOk d (mapVol 1 su sv sw P f).1 ∧
      ∀ x z, x < su → z < sw → lineV su L (mapVol 1 su sv sw P f).1 x z = f (lineV su sv P x z) := by
  let lines : List (List (List (List K))) :=
    (List.range sw).map (fun w => (List.range su).map (fun u => f (lineV su sv P u w)))
  have hline : ∀ x z, x < su → z < sw → (lines.getD z []).getD x [] = f (lineV su sv P x z) := by
    intro x z hx hz
    show (((List.range sw).map (fun w => (List.range su).map (fun u => f (lineV su sv P u w)))).getD z []).getD x [] = _
    rw [getD_map_range _ sw z hz, getD_map_range _ su x hx]
  have hsize : (mapVol 1 su sv sw P f).2 = L := by
    show ((((List.range sw).map (fun w => (List.range su).map (fun u => f (lineV su sv P u w)))).headD []).headD []).length = L
    rw [headD_map_range _ sw hsw, headD_map_range _ su hsu]
    exact hfl 0 0 hsu hsw
  have hnet : (mapVol 1 su sv sw P f).1 = (List.range sw).flatMap (fun w => (List.range su).flatMap (fun u =>
      (List.range L).map (fun v => ptsGet ((lines.getD w []).getD u []) v))) := by
    show (List.range sw).flatMap (fun w => (List.range su).flatMap (fun u =>
      (List.range (mapVol 1 su sv sw P f).2).map (fun v => ptsGet ((lines.getD w []).getD u []) v))) = _
    rw [hsize]
  have hentry : ∀ x y z, x < su → y < L → z < sw →
      ptsGet (mapVol 1 su sv sw P f).1 (y + L * (x + su * z)) = ptsGet (f (lineV su sv P x z)) y := by
    intro x y z hx hy hz
    rw [hnet]
    unfold ptsGet
    rw [flat3_getD [] (fun u v w => ((lines.getD w []).getD u []).getD v []) su L sw x y z hx hy hz]
    show ((lines.getD z []).getD x []).getD y [] = _
    rw [hline x z hx hz]
  refine ⟨hsize, ?_, ?_, ?_⟩
  · rw [hnet, flat3_length]
  · intro pt hpt
    rw [hnet] at hpt
    obtain ⟨x, y, z, hx, hy, hz, rfl⟩ := flat3_mem _ su L sw pt hpt
    show (ptsGet ((lines.getD z []).getD x []) y).length = d
    rw [hline x z hx hz]
    exact ptsGet_length (hfn x z hx hz) y (by rw [hfl x z hx hz]; exact hy)
  · intro x z hx hz
    apply List.ext_getElem
    · rw [lineV_length, hfl x z hx hz]
    · intro i h1 h2
      have hi : i < L := by rw [lineV_length] at h1; exact h1
      simp only [lineV, List.getElem_map, List.getElem_range]
      rw [hentry x i z hx hi hz]
      unfold ptsGet
      rw [List.getD_eq_getElem?_getD, List.getElem?_eq_getElem h2]
      rfl

/-- `mapVol 2`: the w-directional iso-curves of the result are the images of those of the input -/
theorem mapVol2_spec (su sv sw d L : ℕ) (P : List (List K)) (f : List (List K) → List (List K))
    (hsu : 0 < su) (hsv : 0 < sv)
    (hfl : ∀ x y, x < su → y < sv → (f (lineW su sv sw P x y)).length = L)
    (hfn : ∀ x y, x < su → y < sv → NetOk d (f (lineW su sv sw P x y))) :
    (mapVol 2 su sv sw P f).2 = L ∧ (mapVol 2 su sv sw P f).1.length = su * sv * L ∧
      NetOk d (mapVol 2 su sv sw P f).1 ∧
      ∀ x y, x < su → y < sv → lineW su sv L (mapVol 2 su sv sw P f).1 x y = f (lineW su sv sw P x y) := by
  let lines : List (List (List (List K))) :=
    (List.range su).map (fun u => (List.range sv).map (fun v => f (lineW su sv sw P u v)))
  have hline : ∀ x y, x < su → y < sv → (lines.getD x []).getD y [] = f (lineW su sv sw P x y) := by
    intro x y hx hy
    show (((List.range su).map (fun u => (List.range sv).map (fun v => f (lineW su sv sw P u v)))).getD x []).getD y [] = _
    rw [getD_map_range _ su x hx, getD_map_range _ sv y hy]
  have hsize : (mapVol 2 su sv sw P f).2 = L := by
    show ((((List.range su).map (fun u => (List.range sv).map (fun v => f (lineW su sv sw P u v)))).headD []).headD []).length = L
    rw [headD_map_range _ su hsu, headD_map_range _ sv hsv]
    exact hfl 0 0 hsu hsv
  have hnet : (mapVol 2 su sv sw P f).1 = (List.range L).flatMap (fun w => (List.range su).flatMap (fun u =>
      (List.range sv).map (fun v => ptsGet ((lines.getD u []).getD v []) w))) := by
    show (List.range (mapVol 2 su sv sw P f).2).flatMap (fun w => (List.range su).flatMap (fun u =>
      (List.range sv).map (fun v => ptsGet ((lines.getD u []).getD v []) w))) = _
    rw [hsize]
  have hentry : ∀ x y z, x < su → y < sv → z < L →
      ptsGet (mapVol 2 su sv sw P f).1 (y + sv * (x + su * z)) = ptsGet (f (lineW su sv sw P x y)) z := by
    intro x y z hx hy hz
    rw [hnet]
    unfold ptsGet
    rw [flat3_getD [] (fun u v w => ((lines.getD u []).getD v []).getD w []) su sv L x y z hx hy hz]
    show ((lines.getD x []).getD y []).getD z [] = _
    rw [hline x y hx hy]
  refine ⟨hsize, ?_, ?_, ?_⟩
  · rw [hnet, flat3_length]
  · intro pt hpt
    rw [hnet] at hpt
    obtain ⟨x, y, z, hx, hy, hz, rfl⟩ := flat3_mem _ su sv L pt hpt
    show (ptsGet ((lines.getD x []).getD y []) z).length = d
    rw [hline x y hx hy]
    exact ptsGet_length (hfn x y hx hy) z (by rw [hfl x y hx hy]; exact hz)
  · intro x y hx hy
    apply List.ext_getElem
    · rw [lineW_length, hfl x y hx hy]
    · intro i h1 h2
      have hi : i < L := by rw [lineW_length] at h1; exact h1
      simp only [lineW, List.getElem_map, List.getElem_range]
      rw [hentry x y i hx hy hi]
      unfold ptsGet
      rw [List.getD_eq_getElem?_getD, List.getElem?_eq_getElem h2]
      rfl

/-! ### lifting: equal iso-curve points give equal volume points -/

theorem volumePointAt_liftU (pu pv pw : ℕ) (Uu Uu' Uv Uw : ℕ → K) (su su' sv sw : ℕ) (P Q : List (List K))
    (ku ku' kv kw : ℕ) (u v w : K) (d j : ℕ)
    (hpu : pu ≤ ku) (hpv : pv ≤ kv) (hpw : pw ≤ kw) (hku : ku < su) (hkv : kv < sv) (hkw : kw < sw)
    (hpu' : pu ≤ ku') (hku' : ku' < su')
    (hlenP : P.length = su * sv * sw) (hP : NetOk d P) (hlenQ : Q.length = su' * sv * sw) (hQ : NetOk d Q)
    (hline : ∀ b c, b ≤ pv → c ≤ pw →
      (curvePointAt pu Uu' (lineU su' sv Q (kv - pv + b) (kw - pw + c)) ku' u).getD j 0
        = (curvePointAt pu Uu (lineU su sv P (kv - pv + b) (kw - pw + c)) ku u).getD j 0) :
    (volumePointAt pu pv pw Uu' Uv Uw su' sv Q ku' kv kw u v w).getD j 0
      = (volumePointAt pu pv pw Uu Uv Uw su sv P ku kv kw u v w).getD j 0 := by
  rw [volumePointAt_linesU pu pv pw Uu' Uv Uw su' sv sw Q ku' kv kw u v w d j hpu' hpv hpw hku' hkv hkw hlenQ hQ,
      volumePointAt_linesU pu pv pw Uu Uv Uw su sv sw P ku kv kw u v w d j hpu hpv hpw hku hkv hkw hlenP hP]
  apply Finset.sum_congr rfl
  intro b hb
  rw [Finset.mem_range] at hb
  congr 1
  apply Finset.sum_congr rfl
  intro c hc
  rw [Finset.mem_range] at hc
  congr 1
  exact hline b c (by omega) (by omega)

theorem volumePointAt_liftV (pu pv pw : ℕ) (Uu Uv Uv' Uw : ℕ → K) (su sv sv' sw : ℕ) (P Q : List (List K))
    (ku kv kv' kw : ℕ) (u v w : K) (d j : ℕ)
    (hpu : pu ≤ ku) (hpv : pv ≤ kv) (hpw : pw ≤ kw) (hku : ku < su) (hkv : kv < sv) (hkw : kw < sw)
    (hpv' : pv ≤ kv') (hkv' : kv' < sv')
    (hlenP : P.length = su * sv * sw) (hP : NetOk d P) (hlenQ : Q.length = su * sv' * sw) (hQ : NetOk d Q)
    (hline : ∀ a c, a ≤ pu → c ≤ pw →
      (curvePointAt pv Uv' (lineV su sv' Q (ku - pu + a) (kw - pw + c)) kv' v).getD j 0
        = (curvePointAt pv Uv (lineV su sv P (ku - pu + a) (kw - pw + c)) kv v).getD j 0) :
    (volumePointAt pu pv pw Uu Uv' Uw su sv' Q ku kv' kw u v w).getD j 0
      = (volumePointAt pu pv pw Uu Uv Uw su sv P ku kv kw u v w).getD j 0 := by
  rw [volumePointAt_linesV pu pv pw Uu Uv' Uw su sv' sw Q ku kv' kw u v w d j hpu hpv' hpw hku hkv' hkw hlenQ hQ,
      volumePointAt_linesV pu pv pw Uu Uv Uw su sv sw P ku kv kw u v w d j hpu hpv hpw hku hkv hkw hlenP hP]
  apply Finset.sum_congr rfl
  intro a ha
  rw [Finset.mem_range] at ha
  congr 1
  apply Finset.sum_congr rfl
  intro c hc
  rw [Finset.mem_range] at hc
  congr 1
  exact hline a c (by omega) (by omega)

theorem volumePointAt_liftW (pu pv pw : ℕ) (Uu Uv Uw Uw' : ℕ → K) (su sv sw sw' : ℕ) (P Q : List (List K))
    (ku kv kw kw' : ℕ) (u v w : K) (d j : ℕ)
    (hpu : pu ≤ ku) (hpv : pv ≤ kv) (hpw : pw ≤ kw) (hku : ku < su) (hkv : kv < sv) (hkw : kw < sw)
    (hpw' : pw ≤ kw') (hkw' : kw' < sw')
    (hlenP : P.length = su * sv * sw) (hP : NetOk d P) (hlenQ : Q.length = su * sv * sw') (hQ : NetOk d Q)
    (hline : ∀ a b, a ≤ pu → b ≤ pv →
      (curvePointAt pw Uw' (lineW su sv sw' Q (ku - pu + a) (kv - pv + b)) kw' w).getD j 0
        = (curvePointAt pw Uw (lineW su sv sw P (ku - pu + a) (kv - pv + b)) kw w).getD j 0) :
    (volumePointAt pu pv pw Uu Uv Uw' su sv Q ku kv kw' u v w).getD j 0
      = (volumePointAt pu pv pw Uu Uv Uw su sv P ku kv kw u v w).getD j 0 := by
  rw [volumePointAt_linesW pu pv pw Uu Uv Uw' su sv sw' Q ku kv kw' u v w d j hpu hpv hpw' hku hkv hkw' hlenQ hQ,
      volumePointAt_linesW pu pv pw Uu Uv Uw su sv sw P ku kv kw u v w d j hpu hpv hpw hku hkv hkw hlenP hP]
  apply Finset.sum_congr rfl
  intro a ha
  rw [Finset.mem_range] at ha
  congr 1
  apply Finset.sum_congr rfl
  intro b hb
  rw [Finset.mem_range] at hb
  congr 1
  exact hline a b (by omega) (by omega)

end Geomdl
