import NurbsVerif.Model.Weights
import NurbsVerif.Lemmas.BasisPositiveHull

/-!
  C18 × C20 for RATIONAL shapes (audit 4, H6): the hull statement of the projected evaluated point phrased with the
  output of `operations.find_ctrlpts`.  The library hands out DIFFERENT views: for a `NURBS.Curve`
  `find_ctrlpts_curve` reads `curve.ctrlpts` – the CARTESIAN points `(separate Pw).1` –, for a `NURBS.Surface`
  `find_ctrlpts_surface` reads `surf.ctrlpts2d` – the WEIGHTED points, which have to be projected first.
-/
namespace Geomdl
open Blossom Finset
variable {K : Type} [Field K] [LinearOrder K] [IsStrictOrderedRing K]

/-- dividing by the weight as the `ctrlpts` getter does (`separate_ctrlpts_weights`) is `project` -/
theorem unweighPt_eq_project (pt : List K) : unweighPt pt = project pt := by
  unfold unweighPt project
  rcases List.eq_nil_or_concat pt with rfl | ⟨l, a, rfl⟩
  · rfl
  · simp

theorem separate_fst_eq_map_project (Pw : List (List K)) : (separate Pw).1 = Pw.map project := by
  unfold separate
  simp only
  exact List.map_congr_left (fun pt _ => unweighPt_eq_project pt)

theorem getD_map_project (Pw : List (List K)) (i : ℕ) : (Pw.map project).getD i [] = project (ptsGet Pw i) := by
  unfold ptsGet
  simp only [List.getD_eq_getElem?_getD, List.getElem?_map]
  cases Pw[i]? with
  | none => rfl
  | some x => rfl

/-- entry `r` of `find_ctrlpts(nurbs_curve, u)` is the projected active homogeneous point -/
theorem findCtrlptsCurve_separate_getD (p : ℕ) (U : ℕ → K) (Pw : List (List K)) (u : K) (r : ℕ) (hr : r ≤ p) :
    (findCtrlptsCurve [] p U (separate Pw).1 u).getD r []
      = project (ptsGet Pw (findSpanLinear p U Pw.length u - p + r)) := by
  rw [findCtrlptsCurve_getD [] p U _ u r hr, separate_fst_eq_map_project, List.length_map, getD_map_project]

/-- **rational curve, hull of the points `find_ctrlpts` returns** (Cartesian view) -/
theorem curvePoint_rational_in_hull_findCtrlpts (p : ℕ) (U : ℕ → K) (Pw : List (List K)) (u : K) (d : ℕ)
    (hU : KnotsOk p U Pw.length) (hP : NetOk (d+1) Pw) (h1 : U p ≤ u) (h2 : u ≤ U Pw.length)
    (hwt : ∀ r, r ≤ p → 0 < (ptsGet Pw (findSpanLinear p U Pw.length u - p + r)).getD d 0) (A : ℕ → K) (lo hi : K)
    (hlo : ∀ r, r ≤ p → lo ≤ ∑ l ∈ range d, A l * ((findCtrlptsCurve [] p U (separate Pw).1 u).getD r []).getD l 0)
    (hhi : ∀ r, r ≤ p → ∑ l ∈ range d, A l * ((findCtrlptsCurve [] p U (separate Pw).1 u).getD r []).getD l 0 ≤ hi) :
    0 < (curvePoint p U Pw u).getD d 0 ∧
    lo ≤ ∑ l ∈ range d, A l * (project (curvePoint p U Pw u)).getD l 0 ∧
      ∑ l ∈ range d, A l * (project (curvePoint p U Pw u)).getD l 0 ≤ hi := by
  apply curvePoint_rational_in_hull p U Pw u d hU hP h1 h2 hwt A lo hi
  · intro r hr
    have := hlo r hr
    rwa [findCtrlptsCurve_separate_getD p U Pw u r hr] at this
  · intro r hr
    have := hhi r hr
    rwa [findCtrlptsCurve_separate_getD p U Pw u r hr] at this

/-- **rational surface, hull of the PROJECTED points `find_ctrlpts` returns** (it returns the weighted `ctrlpts2d`
    entries) -/
theorem surfacePoint_rational_in_hull_findCtrlpts (pu pv : ℕ) (Uu Uv : ℕ → K) (su sv : ℕ) (Pw : List (List K))
    (P2 : List (List (List K))) (u v : K) (d : ℕ)
    (hUu : KnotsOk pu Uu su) (hUv : KnotsOk pv Uv sv) (hlen : Pw.length = su * sv) (hP : NetOk (d+1) Pw)
    (hP2 : ∀ a b, a < su → b < sv → (P2.getD a []).getD b [] = ptsGet Pw (b + sv * a))
    (hu1 : Uu pu ≤ u) (hu2 : u ≤ Uu su) (hv1 : Uv pv ≤ v) (hv2 : v ≤ Uv sv)
    (hwt : ∀ a b, a ≤ pu → b ≤ pv → 0 <
      (((findCtrlptsSurface [] pu pv Uu Uv su sv P2 u v).getD a []).getD b []).getD d 0)
    (A : ℕ → K) (lo hi : K)
    (hlo : ∀ a b, a ≤ pu → b ≤ pv → lo ≤ ∑ l ∈ range d, A l *
      (project (((findCtrlptsSurface [] pu pv Uu Uv su sv P2 u v).getD a []).getD b [])).getD l 0)
    (hhi : ∀ a b, a ≤ pu → b ≤ pv → ∑ l ∈ range d, A l *
      (project (((findCtrlptsSurface [] pu pv Uu Uv su sv P2 u v).getD a []).getD b [])).getD l 0 ≤ hi) :
    0 < (surfacePoint pu pv Uu Uv su sv Pw u v).getD d 0 ∧
    lo ≤ ∑ l ∈ range d, A l * (project (surfacePoint pu pv Uu Uv su sv Pw u v)).getD l 0 ∧
      ∑ l ∈ range d, A l * (project (surfacePoint pu pv Uu Uv su sv Pw u v)).getD l 0 ≤ hi := by
  obtain ⟨_, hpu, hku⟩ := findSpanLinear_dom hUu u hu1 hu2
  obtain ⟨_, hpv, hkv⟩ := findSpanLinear_dom hUv v hv1 hv2
  have key : ∀ a b, a ≤ pu → b ≤ pv →
      ((findCtrlptsSurface [] pu pv Uu Uv su sv P2 u v).getD a []).getD b []
        = ptsGet Pw (findSpanLinear pv Uv sv v - pv + b + sv * (findSpanLinear pu Uu su u - pu + a)) := by
    intro a b ha hb
    rw [findCtrlptsSurface_getD [] pu pv Uu Uv su sv P2 u v a b ha hb, hP2 _ _ (by omega) (by omega)]
  apply surfacePoint_rational_in_hull pu pv Uu Uv su sv Pw u v d hUu hUv hlen hP hu1 hu2 hv1 hv2 _ A lo hi
  · intro a b ha hb
    have := hlo a b ha hb
    rwa [key a b ha hb] at this
  · intro a b ha hb
    have := hhi a b ha hb
    rwa [key a b ha hb] at this
  · intro a b ha hb
    have := hwt a b ha hb
    rwa [key a b ha hb] at this

end Geomdl
