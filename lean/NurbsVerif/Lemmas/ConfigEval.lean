import NurbsVerif.Lemmas.A23Final
import NurbsVerif.Lemmas.DerivAll
import NurbsVerif.Lemmas.SurfDeriv
import NurbsVerif.Lemmas.ConfigDers

/-!
  C17, the evaluator option: the two derivative evaluator families return the same vectors.

  Curves: A3.2 over the table of A2.3 as coded (`CurveEvaluator`) and A3.3/A3.4 (`CurveEvaluator2`, the model
  `curveDersAt`) are both the true derivative of the span polynomial (C02), hence equal.
  Surfaces: the model of A3.6 (`tri = false`) and of A3.8 (`tri = true`) have the same entries wherever
  the latter computes one (`k + l ≤ order`).
-/
set_option linter.unusedSectionVars false

namespace Geomdl
open Blossom Polynomial Finset
variable {K : Type} [Field K] [LinearOrder K] [IsStrictOrderedRing K]

theorem curve_evaluators_agree (p : ℕ) (U : ℕ → K) (P : List (List K)) (κ : ℕ) (u : K) (dim d order k j : ℕ)
    (hd : d ≤ p) (hp : p ≤ κ) (hκ : κ < P.length) (hP : NetOk dim P) (hm : Monotone U) (hspan : U κ < U (κ+1))
    (hk : k ≤ d) (hko : k ≤ order) :
    ∑ r ∈ range (p+1), ((basisFunsDersA23 p U κ u d).getD k []).getD r 0 * (ptsGet P (κ - p + r)).getD j 0
      = ((curveDersAt p U P κ u order).getD k []).getD j 0 := by
  rw [a32_sum_true p U P κ u d k j hd hp hm hspan hk, curveDersAt_all p U P κ u dim j order k hp hκ hP hm hspan hko]

theorem surface_evaluators_agree (pu pv : ℕ) (Uu Uv : ℕ → K) (sv : ℕ) (P : List (List K)) (κu κv : ℕ) (u v : K)
    (order k l : ℕ) (hkl : k + l ≤ order) :
    ((surfaceDersAt pu pv Uu Uv sv P κu κv u v order true).getD k []).getD l []
      = ((surfaceDersAt pu pv Uu Uv sv P κu κv u v order false).getD k []).getD l [] := by
  rw [surfaceDersAt_entry _ _ _ _ _ _ _ _ _ _ _ _ k l (by omega) (by omega),
    surfaceDersAt_entry _ _ _ _ _ _ _ _ _ _ _ _ k l (by omega) (by omega)]
  simp [hkl]

/-- **A2.3 as coded** (`helpers.basis_function_ders`) with knots `a•U + b` at `a·u + b`: row `k` is `a⁻ᵏ` times the
    row for `U` at `u` (under the guard of the transcription: `d ≤ p ≤ span`) -/
theorem basisFunsDersA23_affine (p : ℕ) (U : ℕ → K) (κ : ℕ) (u : K) (d : ℕ) (a b : K) (ha : a ≠ 0)
    (hd : d ≤ p) (hp : p ≤ κ) :
    basisFunsDersA23 p (fun i => a * U i + b) κ (a * u + b) d = scaleJet a⁻¹ (basisFunsDersA23 p U κ u d) := by
  rw [basisFunsDersA23_eq_basisDers _ _ _ _ _ hd hp, basisFunsDersA23_eq_basisDers _ _ _ _ _ hd hp,
    basisDers_affine p U κ u d a b ha]

end Geomdl
