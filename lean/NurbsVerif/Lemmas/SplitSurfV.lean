import NurbsVerif.Lemmas.SplitMain
import NurbsVerif.Lemmas.InsertSurf

/-! `operations.split_surface_v` through the model `splitDir … 1`: unfolding to explicit pieces. -/
set_option linter.unusedSectionVars false
namespace Geomdl
open Blossom
variable {K : Type} [Field K] [LinearOrder K] [IsStrictOrderedRing K]

/-- a B-spline / NURBS surface as a `Shape`: what the driver's `parseShape` builds for
    `s rat pu pv Uu Uv su sv P` (flat net, index `v + sv * u`) -/
def surfShape (rat : Bool) (pu pv : ℕ) (Uu Uv : List K) (su sv : ℕ) (P : List (List K)) : Shape K :=
  { rat := rat, degs := [pu, pv], kvs := [Uu, Uv], sizes := [su, sv], net := P }

/-- the refined surface `split_surface_v` cuts: (v knot vector, (net, v size)) -/
def refinedV (su sv pv : ℕ) (Uv : List K) (P : List (List K)) (vb tol : K) : List K × (List (List K) × ℕ) :=
  if pv - findMultiplicity vb Uv tol = 0 then (Uv, (P, sv))
  else (knotInsertionKv Uv vb (findSpanLinear pv (fnOf Uv) sv vb) (pv - findMultiplicity vb Uv tol),
        mapSurfV su sv P (fun c => knotInsertion pv (fnOf Uv) c vb (pv - findMultiplicity vb Uv tol)
          (findMultiplicity vb Uv tol) (findSpanLinear pv (fnOf Uv) sv vb)))

/-- **`splitDir` on a surface in the v direction, unfolded** -/
theorem splitDir_surfShape_v (rat : Bool) (pu pv : ℕ) (Uu Uv : List K) (su sv : ℕ) (P : List (List K)) (vb tol : K)
    (h : ¬ (vb = Uv.getD pv 0 ∨ vb = Uv.getD sv 0)) :
    splitDir (surfShape rat pu pv Uu Uv su sv P) 1 vb tol =
      some (
        surfShape rat pu pv (knotNormalize Uu)
          (knotNormalize ((refinedV su sv pv Uv P vb tol).1.take
            (findSpanLinear pv (fnOf (refinedV su sv pv Uv P vb tol).1) (refinedV su sv pv Uv P vb tol).2.2 vb + 1) ++ [vb]))
          su
          (mapSurfV su (refinedV su sv pv Uv P vb tol).2.2 (refinedV su sv pv Uv P vb tol).2.1
            (fun c => (c.take (findSpanLinear pv (fnOf Uv) sv vb - pv + 1 + (pv - findMultiplicity vb Uv tol))).drop 0)).2
          (mapSurfV su (refinedV su sv pv Uv P vb tol).2.2 (refinedV su sv pv Uv P vb tol).2.1
            (fun c => (c.take (findSpanLinear pv (fnOf Uv) sv vb - pv + 1 + (pv - findMultiplicity vb Uv tol))).drop 0)).1,
        surfShape rat pu pv (knotNormalize Uu)
          (knotNormalize (List.replicate (pv + 1) vb ++ (refinedV su sv pv Uv P vb tol).1.drop
            (findSpanLinear pv (fnOf (refinedV su sv pv Uv P vb tol).1) (refinedV su sv pv Uv P vb tol).2.2 vb + 1)))
          su
          (mapSurfV su (refinedV su sv pv Uv P vb tol).2.2 (refinedV su sv pv Uv P vb tol).2.1
            (fun c => (c.take (refinedV su sv pv Uv P vb tol).2.2).drop
              (findSpanLinear pv (fnOf Uv) sv vb - pv + 1 + (pv - findMultiplicity vb Uv tol) - 1))).2
          (mapSurfV su (refinedV su sv pv Uv P vb tol).2.2 (refinedV su sv pv Uv P vb tol).2.1
            (fun c => (c.take (refinedV su sv pv Uv P vb tol).2.2).drop
              (findSpanLinear pv (fnOf Uv) sv vb - pv + 1 + (pv - findMultiplicity vb Uv tol) - 1))).1) := by
  unfold splitDir refinedV
  simp only [surfShape, Shape.deg, Shape.kv, Shape.size, List.getD_cons_zero, List.getD_cons_succ] at h ⊢
  rw [if_neg h]
  by_cases hr : pv - findMultiplicity vb Uv tol = 0
  · simp [hr, Shape.mapDir, Shape.pdim, Shape.size, normKv]
  · simp [hr, insertKnotDir, Shape.mapDir, Shape.pdim, Shape.kv, Shape.size, Shape.deg, normKv]

/-- a clamped knot vector for `n` control points of degree `p ≥ 1` (no reference to a net) -/
structure ClampedKv (p n : ℕ) (U : List K) : Prop where
  mono : Monotone (fnOf U)
  len : U.length = n + p + 1
  pn : p + 1 ≤ n
  last : fnOf U (n - 1) < fnOf U n
  hp : 1 ≤ p
  c0 : fnOf U 0 = fnOf U p
  c1 : fnOf U (n + p) = fnOf U n

theorem ClampedKv.toWF {p n d : ℕ} {U : List K} (h : ClampedKv p n U) (Q : List (List K)) (hQ : Q.length = n)
    (hnet : NetOk d Q) : ClampedWF p d U Q := by
  refine ⟨⟨h.mono, ?_, ?_, ?_, hnet⟩, h.hp, h.c0, ?_⟩
  · rw [hQ]; exact h.len
  · rw [hQ]; exact h.pn
  · rw [hQ]; exact h.last
  · rw [hQ]; exact h.c1

theorem rowOf_length (sv : ℕ) (P : List (List K)) (x : ℕ) : (rowOf sv P x).length = sv := by simp [rowOf]

theorem mapSurfV_size (su sv L : ℕ) (P : List (List K)) (f : List (List K) → List (List K)) (hsu : 0 < su)
    (hf : (f (rowOf sv P 0)).length = L) : (mapSurfV su sv P f).2 = L := by
  show (((List.range su).map (fun u => f (rowOf sv P u))).headD []).length = L
  cases su with
  | zero => omega
  | succ n =>
    rw [List.range_succ_eq_map]
    simp only [List.map_cons, List.headD_cons]
    exact hf

theorem mapSurfV_net (su sv L d : ℕ) (P : List (List K)) (f : List (List K) → List (List K))
    (hf : ∀ x, x < su → (f (rowOf sv P x)).length = L) (hnet : ∀ x, x < su → NetOk d (f (rowOf sv P x))) :
    (mapSurfV su sv P f).1.length = su * L ∧ NetOk d (mapSurfV su sv P f).1 := by
  have hrows : ∀ r ∈ (List.range su).map (fun u => f (rowOf sv P u)), r.length = L := by
    intro r hr
    simp only [List.mem_map, List.mem_range] at hr
    obtain ⟨a, ha, rfl⟩ := hr
    exact hf a ha
  constructor
  · show (List.flatten ((List.range su).map (fun u => f (rowOf sv P u)))).length = _
    rw [flatten_uniform_length L _ hrows]; simp; ring
  · intro pt hpt
    have hpt' : pt ∈ List.flatten ((List.range su).map (fun u => f (rowOf sv P u))) := hpt
    rw [List.mem_flatten] at hpt'
    obtain ⟨l, hl, hptl⟩ := hpt'
    simp only [List.mem_map, List.mem_range] at hl
    obtain ⟨a, ha, rfl⟩ := hl
    exact hnet a ha pt hptl

/-- **rows of the refined surface are the refined rows** (each iso-curve `u = x` goes through the
    insertion step of the curve split, with the same knot vector) -/
theorem refinedV_rows (su sv pv d : ℕ) (Uv : List K) (P : List (List K)) (vb tol : K)
    (hsu : 0 < su) (hP : NetOk d P) (hlen : P.length = su * sv)
    (hpk : pv ≤ findSpanLinear pv (fnOf Uv) sv vb) (hk : findSpanLinear pv (fnOf Uv) sv vb < sv)
    (hs : findMultiplicity vb Uv tol ≤ pv) :
    (refinedV su sv pv Uv P vb tol).2.2 = sv + (pv - findMultiplicity vb Uv tol) ∧
    (refinedV su sv pv Uv P vb tol).2.1.length = su * (sv + (pv - findMultiplicity vb Uv tol)) ∧
    NetOk d (refinedV su sv pv Uv P vb tol).2.1 ∧
    ∀ x, x < su →
      (splitRefined pv Uv (rowOf sv P x) vb tol).1 = (refinedV su sv pv Uv P vb tol).1 ∧
      rowOf (sv + (pv - findMultiplicity vb Uv tol)) (refinedV su sv pv Uv P vb tol).2.1 x
        = (splitRefined pv Uv (rowOf sv P x) vb tol).2 := by
  unfold refinedV splitRefined
  by_cases hr : pv - findMultiplicity vb Uv tol = 0
  · simp only [hr, if_true, Nat.add_zero]
    exact ⟨trivial, hlen, hP, fun x _ => ⟨trivial, trivial⟩⟩
  · simp only [hr, if_false, insStep, rowOf_length]
    obtain ⟨h1, h2, h3⟩ := mapSurfV_spec su sv d (pv - findMultiplicity vb Uv tol) pv (fnOf Uv) P vb
      (findMultiplicity vb Uv tol) (findSpanLinear pv (fnOf Uv) sv vb) hP hlen hpk hk (by omega)
    refine ⟨?_, h1, h2, fun x hx => ⟨trivial, h3 x hx⟩⟩
    apply mapSurfV_size su sv _ P _ hsu
    rw [knotInsertion_length, rowOf_length]

end Geomdl
