import NurbsVerif.Lemmas.A51
import NurbsVerif.Lemmas.InsertEval

namespace Blossom
open Geomdl
variable {K : Type} [Field K] [LinearOrder K] [IsStrictOrderedRing K]

/-- **Knot insertion never changes the curve**: A5.1's control points over the refined knots give
    the same A2.2/A3.1 value as the original ones, for every degree, every monotone knot function,
    every insertion parameter with prior multiplicity `s` (`r + s ≤ p` copies inserted), every
    evaluation span `κ` and every parameter `u`. -/
theorem A51_preserves_eval (U : ℕ → K) (p k r s κ κ' : ℕ) (ub u : K) (P : ℕ → K)
    (hm : Monotone U) (hk1 : U k ≤ ub) (hk2 : ub < U (k+1))
    (hmult : ∀ x, k - s < x → x ≤ k → U x = ub)
    (hκ : U κ < U (κ+1)) (hκ' : Uh k r ub U κ' < Uh k r ub U (κ'+1))
    (hr1 : 1 ≤ r) (hrs : r + s ≤ p) (hpk : p ≤ k) (hpκ : p ≤ κ)
    (hcase : (κ' = κ ∧ κ ≤ k) ∨ (κ' = κ + r ∧ k ≤ κ)) :
    wsum (basisFuns p (Uh k r ub U) κ' u) (Qcode U ub P k p s r) (κ' - p)
      = wsum (basisFuns p U κ u) P (κ - p) := by
  have hsepk : Sep U k := sep_of_mono U k hm (lt_of_le_of_lt hk1 hk2)
  have hQ : Qcode U ub P k p s r = Qpos U p k r ub P :=
    funext (Qcode_eq_Qpos U ub P k p s r hsepk hpk hr1 hrs hmult)
  rw [hQ]
  exact insert_preserves_eval U p k r κ κ' ub u P hm hk1 (le_of_lt hk2) hκ hκ' (by omega) hpκ hcase
end Blossom
