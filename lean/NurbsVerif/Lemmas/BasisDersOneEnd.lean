import NurbsVerif.Lemmas.BasisDersOne2
import NurbsVerif.Lemmas.BasisOne2
import NurbsVerif.Lemmas.DersSum
import NurbsVerif.Lemmas.Hull

/-!
  A2.5 (`basisFunDersOne`, literal model of `helpers.basis_function_ders_one`) outside the half-open support
  `[U_i, U_{i+p+1})` of its function – in particular at the LAST knot of the knot vector – as coded: the guard
  `knot < U[span] or knot >= U[span + degree + 1]` returns `order + 1` zeros before anything else is computed
  (every requested order, also `order > degree`; no hypothesis on the knots).

  At the end of a clamped knot vector this is NOT the left-limit value: A2.4 (`basisFunOne`) returns 1 for the last
  function there (its own special case), A2.3 (`basisDers`) evaluated on the span the span search returns there (the
  last non-empty one) has `1` in row 0 – A2.5 has `0`.
-/
namespace Geomdl
open Blossom
variable {K : Type} [Field K] [LinearOrder K] [IsStrictOrderedRing K]

omit [IsStrictOrderedRing K] in
/-- the guard of A2.5: outside `[U_i, U_{i+p+1})` the result is `order + 1` zeros (any knot function, any order) -/
theorem basisFunDersOne_outside (p : ℕ) (U : ℕ → K) (i : ℕ) (u : K) (order : ℕ)
    (h : u < U i ∨ U (i + p + 1) ≤ u) : basisFunDersOne p U i u order = List.replicate (order + 1) 0 := by
  unfold basisFunDersOne
  rw [if_pos h]

omit [IsStrictOrderedRing K] in
/-- **A2.5 at the last knot** `U_{m-1}` of a non-decreasing knot vector with `m` knots: zeros, for EVERY function
    index the routine accepts (`i + p + 1 ≤ m - 1`) and every order -/
theorem basisFunDersOne_last_knot (p : ℕ) (U : ℕ → K) (hm : Monotone U) (m i : ℕ) (order : ℕ)
    (hi : i + p + 2 ≤ m) : basisFunDersOne p U i (U (m - 1)) order = List.replicate (order + 1) 0 :=
  basisFunDersOne_outside p U i _ order (Or.inr (hm (by omega)))

omit [IsStrictOrderedRing K] in
theorem basisFunDersOne_last_knot_getD (p : ℕ) (U : ℕ → K) (hm : Monotone U) (m i : ℕ) (order k : ℕ)
    (hi : i + p + 2 ≤ m) : (basisFunDersOne p U i (U (m - 1)) order).getD k 0 = 0 := by
  rw [basisFunDersOne_last_knot p U hm m i order hi, List.getD_eq_getElem?_getD, List.getElem?_replicate]
  split <;> rfl

/-- **clamped end** (`U_k < U_{k+1} = … = U_{k+p+1}` the last knot, `m = k + p + 2` knots): for the last function
    `N_{k,p}` at the last knot A2.5 returns value 0, A2.4 returns 1, and row 0 of the A2.3 table on the last span `k`
    (the span both span searches return there) has 1 in its last column -/
theorem basisFunDersOne_clamped_end_differs (p : ℕ) (U : ℕ → K) (hm : Monotone U) (m k : ℕ) (order d : ℕ)
    (hp : p ≤ k) (hm2 : k + p + 2 = m) (hne : U k < U (k+1)) (hcl : U (k+1) = U (m-1)) :
    (basisFunDersOne p U k (U (m-1)) order).getD 0 0 = 0 ∧
    basisFunOne p U m k (U (m-1)) = 1 ∧
    ((basisDers p U k (U (m-1)) d).getD 0 []).getD p 0 = 1 := by
  refine ⟨basisFunDersOne_last_knot_getD p U hm m k order 0 (by omega), (basisFunOne_last p U hm m k hm2).1, ?_⟩
  rw [basisDers_zero_row p U k _ d p hp (le_refl _)]
  have hU : ∀ i, k + 1 ≤ i → i ≤ k + p → U i = U (m - 1) := by
    intro i h1 h2
    apply le_antisymm (hm (by omega))
    rw [← hcl]; exact hm h1
  rw [basisFuns_at_clamped_end U k (U (m-1)) hm hne p hp hU hcl.symm]
  simp [List.getD_eq_getElem?_getD]

end Geomdl
