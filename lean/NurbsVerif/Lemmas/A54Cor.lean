import NurbsVerif.Lemmas.A54Main

/-! Consequences of `refineA54 = descending fold of insertOne`: the knot vector A5.4 returns is the one
    the ascending fold (the specification-level model) returns, and A5.4 as coded preserves the curve. -/
namespace Geomdl
open Blossom
variable {K : Type} [Field K] [LinearOrder K] [IsStrictOrderedRing K]

/-- the per-knot admissibility of `X` (any order) from the counting hypotheses -/
theorem refineOk_of_hyps (p d : ℕ) (U : List K) (P : List (List K)) (X : List K) (tol : K)
    (hwf : CurveWF p d U P) (hdom : ∀ x ∈ X, fnOf U p ≤ x ∧ x < fnOf U P.length) (h0 : 0 ≤ tol)
    (hsep : SepBy tol (U ++ X)) (hcnt : ∀ x ∈ X, U.count x + X.count x ≤ p) :
    RefineOk p tol (U, P) X ∧ RefineOk p tol (U, P) X.reverse :=
  ⟨refineOk_of_counts p d tol h0 (U ++ X) hsep X (U, P) hwf (fun a ha => by simp [ha]) (fun a ha => by simp [ha]) hdom hcnt,
   refineOk_of_counts p d tol h0 (U ++ X) hsep X.reverse (U, P) hwf (fun a ha => by simp [ha])
      (fun a ha => by simp [List.mem_reverse.mp ha]) (fun x hx => hdom x (List.mem_reverse.mp hx))
      (fun x hx => by rw [List.count_reverse]; exact hcnt x (List.mem_reverse.mp hx))⟩

/-- the knot vector of a fold of insertions is determined by the multiset of inserted knots -/
theorem fold_kv_order_indep (p d : ℕ) (U : List K) (P : List (List K)) (X Y : List K) (tol : K)
    (hwf : CurveWF p d U P) (hX : RefineOk p tol (U, P) X) (hY : RefineOk p tol (U, P) Y) (hperm : X.Perm Y) :
    (X.foldl (insertOne p tol) (U, P)).1 = (Y.foldl (insertOne p tol) (U, P)).1 := by
  obtain ⟨w1, _, _⟩ := refine_fold_wf p d tol X (U, P) hwf hX
  obtain ⟨w2, _, _⟩ := refine_fold_wf p d tol Y (U, P) hwf hY
  apply List.Perm.eq_of_pairwise (le := (· ≤ ·)) (fun a b _ _ h1 h2 => le_antisymm h1 h2)
    (pairwise_of_mono _ w1.mono) (pairwise_of_mono _ w2.mono)
  exact (insert_fold_perm p tol X (U, P)).trans
    ((hperm.append_right _).trans (insert_fold_perm p tol Y (U, P)).symm)

/-- **(a) the knot vector A5.4 returns is the knot vector of the specification-level model** (the
    ascending fold of single insertions): sorted, and as a multiset the old knots plus `X`. -/
theorem refineA54_kv (p d : ℕ) (U : List K) (P : List (List K)) (X : List K) (tol : K)
    (hwf : CurveWF p d U P) (hX : X ≠ []) (hsort : X.Pairwise (· ≤ ·))
    (hdom : ∀ x ∈ X, fnOf U p ≤ x ∧ x < fnOf U P.length) (h0 : 0 ≤ tol) (hsep : SepBy tol (U ++ X))
    (hcnt : ∀ x ∈ X, U.count x + X.count x ≤ p) :
    (refineA54 p U P X tol).1 = (X.foldl (insertOne p tol) (U, P)).1 ∧
    (refineA54 p U P X tol).1.Pairwise (· ≤ ·) ∧ (refineA54 p U P X tol).1.Perm (X ++ U) := by
  obtain ⟨ok1, ok2⟩ := refineOk_of_hyps p d U P X tol hwf hdom h0 hsep hcnt
  have e := fold_kv_order_indep p d U P X.reverse X tol hwf ok2 ok1 (List.reverse_perm X)
  rw [refineA54_eq_desc_fold p d U P X tol hwf hX hsort hdom h0 hsep hcnt, e]
  obtain ⟨w1, _, _⟩ := refine_fold_wf p d tol X (U, P) hwf ok1
  exact ⟨rfl, pairwise_of_mono _ w1.mono, insert_fold_perm p tol X (U, P)⟩

/-- **A5.4 as coded never changes the curve**: the literal transcription of the loops of
    `helpers.knot_refinement` returns a well-formed curve over the same domain that evaluates to the
    same point at every parameter of the domain, in every coordinate. -/
theorem refineA54_preserves_curve (p d : ℕ) (U : List K) (P : List (List K)) (X : List K) (tol : K)
    (hwf : CurveWF p d U P) (hX : X ≠ []) (hsort : X.Pairwise (· ≤ ·))
    (hdom : ∀ x ∈ X, fnOf U p ≤ x ∧ x < fnOf U P.length) (h0 : 0 ≤ tol) (hsep : SepBy tol (U ++ X))
    (hcnt : ∀ x ∈ X, U.count x + X.count x ≤ p) :
    CurveWF p d (refineA54 p U P X tol).1 (refineA54 p U P X tol).2 ∧
    fnOf (refineA54 p U P X tol).1 p = fnOf U p ∧
    fnOf (refineA54 p U P X tol).1 (refineA54 p U P X tol).2.length = fnOf U P.length ∧
    ∀ (u : K), fnOf U p ≤ u → u ≤ fnOf U P.length → ∀ j,
      (curvePoint p (fnOf (refineA54 p U P X tol).1) (refineA54 p U P X tol).2 u).getD j 0
        = (curvePoint p (fnOf U) P u).getD j 0 := by
  obtain ⟨_, ok2⟩ := refineOk_of_hyps p d U P X tol hwf hdom h0 hsep hcnt
  rw [refineA54_eq_desc_fold p d U P X tol hwf hX hsort hdom h0 hsep hcnt]
  obtain ⟨w1, w2, w3⟩ := refine_fold_wf p d tol X.reverse (U, P) hwf ok2
  exact ⟨w1, w2, w3, fun u hlo hhi j => refine_fold_preserves_curve p d tol X.reverse (U, P) hwf ok2 u hlo hhi j⟩

end Geomdl
