import NurbsVerif.Lemmas.Config
import NurbsVerif.Lemmas.KnotVec
import NurbsVerif.Model.Knots2

/-!
  C17, knot operations under an affine change of the knot range (curve level).

  The blending factors of A5.1 (`insAlpha`) and of A5.8 (`alphaI`, `alphaJ`) are quotients of knot
  differences, hence invariant under `x ↦ a·x + b` (`a ≠ 0`, also where a denominator vanishes:
  both sides are `0` by the totalised division).  Therefore `knotInsertion` and `knotRemoval` return the SAME
  control points for knots `a•U + b`, parameter `a·ū + b` as for `U`, `ū`; the knot-vector parts map
  entry by entry; the multiplicity count is the same when the tolerance is scaled by `a`.
-/
set_option linter.unusedSectionVars false

namespace Geomdl
open Blossom
variable {K : Type} [Field K] [LinearOrder K] [IsStrictOrderedRing K]

/-- quotient of two differences of affinely mapped numbers -/
theorem cfg_affine_quot (a b x y z w : K) (ha : a ≠ 0) :
    (a * x + b - (a * y + b)) / (a * z + b - (a * w + b)) = (x - y) / (z - w) := by
  have h1 : a * x + b - (a * y + b) = a * (x - y) := by ring
  have h2 : a * z + b - (a * w + b) = a * (z - w) := by ring
  rw [h1, h2, mul_div_mul_left _ _ ha]

/-! ### insertion (A5.1) -/

theorem insAlpha_affine (U : ℕ → K) (u a b : K) (ha : a ≠ 0) (k i L : ℕ) :
    insAlpha (fun i => a * U i + b) (a * u + b) k i L = insAlpha U u k i L := by
  unfold insAlpha
  exact cfg_affine_quot a b _ _ _ _ ha

theorem insTempStep_affine (U : ℕ → K) (u a b : K) (ha : a ≠ 0) (k p s j : ℕ) (temp : List (List K)) :
    insTempStep (fun i => a * U i + b) (a * u + b) k p s j temp = insTempStep U u k p s j temp := by
  unfold insTempStep
  simp only [insAlpha_affine U u a b ha]

theorem insTempAt_affine (U : ℕ → K) (u a b : K) (ha : a ≠ 0) (P : List (List K)) (k p s : ℕ) : ∀ j,
    insTempAt (fun i => a * U i + b) (a * u + b) P k p s j = insTempAt U u P k p s j
  | 0 => rfl
  | j+1 => by
      rw [insTempAt, insTempAt, insTempAt_affine U u a b ha P k p s j, insTempStep_affine U u a b ha]

/-- **A5.1**: the control points returned for knots `a•U + b` and parameter `a·ū + b` are those for `U`, `ū` -/
theorem knotInsertion_affine (p : ℕ) (U : ℕ → K) (P : List (List K)) (u : K) (r s k : ℕ) (a b : K) (ha : a ≠ 0) :
    knotInsertion p (fun i => a * U i + b) P (a * u + b) r s k = knotInsertion p U P u r s k := by
  unfold knotInsertion
  simp only [insTempAt_affine U u a b ha]

/-- `knot_insertion_kv` commutes with any map of the knot values -/
theorem knotInsertionKv_map (f : K → K) (U : List K) (u : K) (span r : ℕ) :
    knotInsertionKv (U.map f) (f u) span r = (knotInsertionKv U u span r).map f := by
  unfold knotInsertionKv
  simp [List.map_take, List.map_drop]

/-! ### knot vectors as lists -/

/-- the knot function of the mapped list is the mapped knot function (non-empty list) -/
theorem fnOf_map_affine (U : List K) (a b : K) (hne : U ≠ []) :
    fnOf (U.map (fun x => a * x + b)) = fun i => a * fnOf U i + b := by
  funext i
  unfold fnOf
  have hlast : (U.map (fun x => a * x + b)).getLastD 0 = a * U.getLastD 0 + b := by
    rw [List.getLastD_eq_getLast?, List.getLast?_map, List.getLastD_eq_getLast?]
    cases h : U.getLast? with
    | none => rw [List.getLast?_eq_none_iff] at h; exact absurd h hne
    | some x => simp
  rw [hlast]
  simp only [List.getD_eq_getElem?_getD, List.getElem?_map]
  cases U[i]? <;> simp

theorem cfg_absK_affine (a b x y : K) (ha : 0 < a) : absK (a * x + b - (a * y + b)) = a * absK (x - y) := by
  rw [absK_eq, absK_eq]
  have : a * x + b - (a * y + b) = a * (x - y) := by ring
  rw [this, abs_mul, abs_of_pos ha]

/-- `find_multiplicity` with knots, parameter and tolerance mapped: the same count -/
theorem findMultiplicity_affine (u : K) (U : List K) (tol a b : K) (ha : 0 < a) :
    findMultiplicity (a * u + b) (U.map (fun x => a * x + b)) (a * tol) = findMultiplicity u U tol := by
  unfold findMultiplicity
  rw [List.filter_map, List.length_map]
  congr 1
  apply List.filter_congr
  intro y _
  simp only [Function.comp]
  rw [cfg_absK_affine a b u y ha]
  have : a * absK (u - y) ≤ a * tol ↔ absK (u - y) ≤ tol := by
    constructor
    · intro h; exact le_of_mul_le_mul_left h ha
    · intro h; exact mul_le_mul_of_nonneg_left h (le_of_lt ha)
  simp [this]

/-- the same count with the SAME tolerance (the code's fixed `1e-7`), when in both knot ranges every knot is
    either equal to the parameter or further than the tolerance away from it -/
theorem findMultiplicity_affine_sep (u : K) (U : List K) (tol a b : K) (ha : 0 < a) (htol : 0 ≤ tol)
    (hsep : ∀ y ∈ U, u = y ∨ (tol < |u - y| ∧ tol < a * |u - y|)) :
    findMultiplicity (a * u + b) (U.map (fun x => a * x + b)) tol = findMultiplicity u U tol := by
  unfold findMultiplicity
  rw [List.filter_map, List.length_map]
  congr 1
  apply List.filter_congr
  intro y hy
  simp only [Function.comp]
  rw [cfg_absK_affine a b u y ha, absK_eq]
  rcases hsep y hy with h | ⟨h1, h2⟩
  · subst h; simp [htol]
  · simp [not_le.mpr h1, not_le.mpr h2]

/-! ### removal (A5.8) -/

theorem alphaI_affine (U : ℕ → K) (u a b : K) (ha : a ≠ 0) (p t i : ℕ) :
    alphaI (fun i => a * U i + b) (a * u + b) p t i = alphaI U u p t i := by
  unfold alphaI
  exact cfg_affine_quot a b _ _ _ _ ha

theorem alphaJ_affine (U : ℕ → K) (u a b : K) (ha : a ≠ 0) (p t j : ℕ) :
    alphaJ (fun i => a * U i + b) (a * u + b) p t j = alphaJ U u p t j := by
  unfold alphaJ
  exact cfg_affine_quot a b _ _ _ _ ha

theorem remSweep_affine (U : ℕ → K) (u a b : K) (ha : a ≠ 0) (p t : ℕ) (cp : List (List K)) : ∀ (fuel : ℕ) (st : RemSt K),
    remSweep (fun i => a * U i + b) (a * u + b) p t cp fuel st = remSweep U u p t cp fuel st
  | 0, _ => rfl
  | fuel+1, st => by
      unfold remSweep
      simp only [alphaI_affine U u a b ha, alphaJ_affine U u a b ha,
        remSweep_affine U u a b ha p t cp fuel]

/-- one removal step: same working arrays, same removability decision (the control points – and so the
    squared distances compared with the tolerance – do not depend on the knot range) -/
theorem remStep_affine (U : ℕ → K) (u a b : K) (ha : a ≠ 0) (p : ℕ) (tol2 : K)
    (st : List (List K) × List (List K) × ℕ × ℕ) (t : ℕ) :
    remStep (fun i => a * U i + b) (a * u + b) p tol2 st t = remStep U u p tol2 st t := by
  unfold remStep
  simp only [remSweep_affine U u a b ha, alphaI_affine U u a b ha]

/-- **A5.8**: the control points returned for knots `a•U + b` and parameter `a·ū + b` are those for `U`, `ū`
    (same tolerance: it is a bound on distances between control points) -/
theorem knotRemoval_affine (p : ℕ) (U : ℕ → K) (P : List (List K)) (u : K) (num s r : ℕ) (tol2 a b : K) (ha : a ≠ 0) :
    knotRemoval p (fun i => a * U i + b) P (a * u + b) num s r tol2 = knotRemoval p U P u num s r tol2 := by
  unfold knotRemoval
  have : remStep (fun i => a * U i + b) (a * u + b) p tol2 = remStep U u p tol2 := by
    funext st t; exact remStep_affine U u a b ha p tol2 st t
  rw [this]

/-- `knot_removal_kv` commutes with any map of the knot values -/
theorem knotRemovalKv_map (f : K → K) (U : List K) (span r : ℕ) :
    knotRemovalKv (U.map f) span r = (knotRemovalKv U span r).map f := by
  unfold knotRemovalKv
  split <;> simp [List.map_take, List.map_drop]

end Geomdl
