import NurbsVerif.Lemmas.A54Sweep

/-! The loop invariant of A5.4 (`Rep`): the work arrays represent, with a gap of `j` unused slots
    between the untouched left part and the finished right part, the curve `(V, Q)` obtained by
    inserting the knots `X[j..]` already processed; the shifting `while` keeps it. -/
namespace Geomdl
open Blossom
variable {K : Type} [Field K] [LinearOrder K] [IsStrictOrderedRing K]

/-- `st` represents the curve `(V, Q)` when `j` knots of `X` (`nX` in total) are still to be inserted -/
structure Rep (p : ℕ) (U : List K) (P : List (List K)) (nX a : ℕ) (st : A54St K) (V : List K) (Q : List (List K))
    (j : ℕ) : Prop where
  hk : st.k = st.i + j
  jn : j ≤ nX
  kvlen : st.kv.length = U.length + nX
  cplen : st.cp.length = P.length + nX
  Vlen : V.length + j = U.length + nX
  Qlen : Q.length + j = P.length + nX
  kvR : ∀ t, st.k < t → t < U.length + nX → st.kv.getD t 0 = fnOf V (t - j)
  kvL : ∀ t, t ≤ a → st.kv.getD t 0 = fnOf U t
  cpR : ∀ t, st.k ≤ t + p → t < P.length + nX → ptsGet st.cp t = ptsGet Q (t - j)
  cpL : ∀ t, t + p < a → ptsGet st.cp t = ptsGet P t
  VU : ∀ t, t ≤ st.i → fnOf V t = fnOf U t
  QP : ∀ t, t + p ≤ st.i → ptsGet Q t = ptsGet P t
  ai : a ≤ st.i
  iU : st.i + 2 ≤ U.length
  pa : p ≤ a
  UP : U.length = P.length + p + 1

/-- the shifting `while` keeps the represented curve, stops at a position `i` with
    `x ≤ V_{i+1}`, and (given enough fuel) only when its condition fails -/
theorem a54Shift_rep (p : ℕ) (U : List K) (P : List (List K)) (nX a : ℕ) (V : List K) (Q : List (List K)) (j : ℕ)
    (hj : 1 ≤ j) (x : K) : ∀ (fuel : ℕ) (st : A54St K), Rep p U P nX a st V Q j → x ≤ fnOf V (st.i + 1) →
    Rep p U P nX a (a54Shift p (fnOf U) P x a fuel st) V Q j ∧
    x ≤ fnOf V ((a54Shift p (fnOf U) P x a fuel st).i + 1) ∧
    (st.i ≤ a + fuel → ¬ (x ≤ fnOf U (a54Shift p (fnOf U) P x a fuel st).i ∧ a < (a54Shift p (fnOf U) P x a fuel st).i)) := by
  intro fuel
  induction fuel with
  | zero =>
    intro st h hx
    refine ⟨h, hx, fun hi hc => ?_⟩
    have := h.ai
    simp only [a54Shift] at hc
    omega
  | succ fuel ih =>
    intro st h hx
    unfold a54Shift
    by_cases hc : x ≤ fnOf U st.i ∧ a < st.i
    · rw [if_pos hc]
      obtain ⟨hc1, hc2⟩ := hc
      have hk := h.hk; have hpa := h.pa; have hiU := h.iU; have hjn := h.jn
      have hVl := h.Vlen; have hQl := h.Qlen; have hUP := h.UP
      have hrep : Rep p U P nX a
          { cp := st.cp.set (st.k - p - 1) (ptsGet P (st.i - p - 1)), kv := st.kv.set st.k (fnOf U st.i),
            k := st.k - 1, i := st.i - 1 } V Q j := by
        refine ⟨by simp only; omega, hjn, by simp [h.kvlen], by simp [h.cplen], hVl, hQl, ?_, ?_, ?_, ?_, ?_, ?_,
          by simp only; omega, by simp only; omega, hpa, hUP⟩
        · intro t ht1 ht2
          simp only at ht1 ⊢
          by_cases e : t = st.k
          · subst e
            rw [getD_set_eq _ _ _ _ (by rw [h.kvlen]; exact ht2), hk, Nat.add_sub_cancel, h.VU _ (le_refl _)]
          · rw [getD_set_of_ne _ _ _ _ _ (fun e' => e e'.symm)]
            exact h.kvR t (by omega) ht2
        · intro t ht
          simp only
          rw [getD_set_of_ne _ _ _ _ _ (by omega)]
          exact h.kvL t ht
        · intro t ht1 ht2
          simp only at ht1 ⊢
          unfold ptsGet
          by_cases e : t = st.k - p - 1
          · subst e
            rw [getD_set_eq _ _ _ _ (by rw [h.cplen]; exact ht2)]
            have := h.QP (st.i - p - 1) (by omega)
            unfold ptsGet at this
            rw [← this]
            congr 1; omega
          · rw [getD_set_of_ne _ _ _ _ _ (fun e' => e e'.symm)]
            exact h.cpR t (by omega) ht2
        · intro t ht
          simp only
          unfold ptsGet
          rw [getD_set_of_ne _ _ _ _ _ (by omega)]
          exact h.cpL t ht
        · intro t ht; simp only at ht; exact h.VU t (by omega)
        · intro t ht; simp only at ht; exact h.QP t (by omega)
      have hx' : x ≤ fnOf V (st.i - 1 + 1) := by
        rw [show st.i - 1 + 1 = st.i by omega, h.VU _ (le_refl _)]; exact hc1
      obtain ⟨r1, r2, r3⟩ := ih _ hrep hx'
      exact ⟨r1, r2, fun hi => r3 (by simp only; omega)⟩
    · rw [if_neg hc]
      exact ⟨h, hx, fun _ => hc⟩

end Geomdl
