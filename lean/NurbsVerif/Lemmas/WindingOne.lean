import NurbsVerif.Lemmas.WindingStrict

/-!
C20, `wn_poly`: for a strictly convex counter-clockwise polygon with pairwise distinct vertices the
winding counter of a strictly interior point is exactly 1 (a convex polygon crosses a horizontal line
upwards only once).
-/
namespace Geomdl
variable {K : Type} [Field K] [LinearOrder K] [IsStrictOrderedRing K]

/-- two edges crossing the height `h` upwards, each having the end points of the other one on its
    left or on it: the start of each lies on the line of the other -/
theorem up_edges_collinear {a b c d : K × K} {h : K} (ha : a.2 ≤ h) (hb : h < b.2) (hc : c.2 ≤ h)
    (hd : h < d.2) (h1 : 0 ≤ isLeft a b c) (h2 : 0 ≤ isLeft a b d) (h3 : 0 ≤ isLeft c d a)
    (h4 : 0 ≤ isLeft c d b) : isLeft a b c = 0 ∧ isLeft c d a = 0 := by
  have key : (d.2 - h) * isLeft a b c + (h - c.2) * isLeft a b d + (b.2 - h) * isLeft c d a
      + (h - a.2) * isLeft c d b = 0 := by unfold isLeft; ring
  have t1 := mul_nonneg (le_of_lt (sub_pos.mpr hd)) h1
  have t2 := mul_nonneg (sub_nonneg.mpr hc) h2
  have t3 := mul_nonneg (le_of_lt (sub_pos.mpr hb)) h3
  have t4 := mul_nonneg (sub_nonneg.mpr ha) h4
  constructor
  · have : (d.2 - h) * isLeft a b c = 0 := by linarith
    rcases mul_eq_zero.mp this with h' | h'
    · linarith
    · exact h'
  · have : (b.2 - h) * isLeft c d a = 0 := by linarith
    rcases mul_eq_zero.mp this with h' | h'
    · linarith
    · exact h'

theorem collinear4 {a b c d : K × K} (hac : a ≠ c) (h1 : isLeft a b c = 0) (h3 : isLeft c d a = 0) :
    isLeft a b d = 0 := by
  have e1 : isLeft a b d * (c.1 - a.1) = isLeft a b c * (d.1 - a.1) + isLeft c d a * (b.1 - a.1) := by
    unfold isLeft; ring
  have e2 : isLeft a b d * (c.2 - a.2) = isLeft a b c * (d.2 - a.2) + isLeft c d a * (b.2 - a.2) := by
    unfold isLeft; ring
  rw [h1, h3, zero_mul, zero_mul, add_zero] at e1 e2
  by_contra hne
  have f1 : c.1 - a.1 = 0 := (mul_eq_zero.mp e1).resolve_left hne
  have f2 : c.2 - a.2 = 0 := (mul_eq_zero.mp e2).resolve_left hne
  exact hac (Prod.ext (by linarith) (by linarith))

/-- `d` on the line of the upward edge `a b`, the polygon turns strictly left at `b` towards `n`, and
    `d` is left of or on `b n`: then `d` is not above `b` -/
theorem no_overtake {a b d n : K × K} (hab : a.2 < b.2) (h0 : isLeft a b d = 0) (ht : 0 < isLeft a b n)
    (hc : 0 ≤ isLeft b n d) : d.2 ≤ b.2 := by
  have key : isLeft b n d * (b.2 - a.2) = -(d.2 - b.2) * isLeft a b n + isLeft a b d * (n.2 - b.2) := by
    unfold isLeft; ring
  rw [h0, zero_mul, add_zero] at key
  have h1 := mul_nonneg hc (le_of_lt (sub_pos.mpr hab))
  rw [key] at h1
  by_contra hgt
  have := mul_pos (sub_pos.mpr (not_le.mp hgt)) ht
  linarith

theorem same_end {a b d : K × K} (hab : a.2 < b.2) (h0 : isLeft a b d = 0) (hy : d.2 = b.2) : d = b := by
  have e : isLeft a b d = (b.2 - a.2) * (b.1 - d.1) + (b.1 - a.1) * (d.2 - b.2) := by unfold isLeft; ring
  rw [e, hy, sub_self, mul_zero, add_zero] at h0
  have : b.1 - d.1 = 0 := (mul_eq_zero.mp h0).resolve_left (ne_of_gt (sub_pos.mpr hab))
  exact Prod.ext (by linarith) hy

theorem mem_pairs_snd_tail {α : Type} : ∀ (l : List α) (e : α × α), e ∈ pairs l → e.2 ∈ l.tail
  | [], e, h => by simp [pairs] at h
  | [_], e, h => by simp [pairs] at h
  | a :: b :: rest, e, h => by
    simp only [pairs, List.mem_cons] at h
    rcases h with rfl | h
    · simp
    · exact List.mem_cons_of_mem _ (mem_pairs_snd_tail (b :: rest) e h)

theorem mem_pairs_fst_dropLast {α : Type} : ∀ (l : List α) (e : α × α), e ∈ pairs l → e.1 ∈ l.dropLast
  | [], e, h => by simp [pairs] at h
  | [_], e, h => by simp [pairs] at h
  | a :: b :: rest, e, h => by
    simp only [pairs, List.mem_cons] at h
    rw [List.dropLast_cons_of_ne_nil (by simp)]
    rcases h with rfl | h
    · simp
    · exact List.mem_cons_of_mem _ (mem_pairs_fst_dropLast (b :: rest) e h)

/-- in a vertex list whose tail has no repetition a vertex has only one predecessor -/
theorem pred_unique {α : Type} : ∀ (l : List α), l.tail.Nodup → ∀ a c b, (a, b) ∈ pairs l → (c, b) ∈ pairs l → a = c
  | [], _, a, c, b, h, _ => by simp [pairs] at h
  | [_], _, a, c, b, h, _ => by simp [pairs] at h
  | x :: y :: rest, hnd, a, c, b, h1, h2 => by
    simp only [List.tail_cons] at hnd
    simp only [pairs, List.mem_cons, Prod.mk.injEq] at h1 h2
    have hy : ∀ z, (z, y) ∈ pairs (y :: rest) → False := by
      intro z hz
      have := mem_pairs_snd_tail (y :: rest) (z, y) hz
      exact (List.nodup_cons.mp hnd).1 this
    rcases h1 with ⟨rfl, rfl⟩ | h1 <;> rcases h2 with ⟨rfl, h2'⟩ | h2
    · rfl
    · exact (hy c h2).elim
    · subst h2'; exact (hy a h1).elim
    · exact pred_unique (y :: rest) (List.nodup_cons.mp hnd).2 a c b h1 h2

section unique
variable (H : List (K × K)) (h2 : 2 ≤ H.length) (hnd : H.Nodup)
  (hconv : ∀ e ∈ pairs (H ++ H.take 1), ∀ v ∈ H, 0 ≤ isLeft e.1 e.2 v)
  (hstrict : LeftChainFwd (H ++ H.take 2))
include h2 hnd hconv hstrict

theorem closed_tail_nodup : (H ++ H.take 1).tail.Nodup := by
  match H, h2, hnd with
  | [], h2, _ => simp at h2
  | h0 :: T, _, hnd =>
    have : ((h0 :: T) ++ (h0 :: T).take 1).tail = T ++ [h0] := by simp
    rw [this]
    have hp : (T ++ [h0]).Perm (h0 :: T) := List.perm_append_comm (l₁ := T) (l₂ := [h0])
    exact hp.nodup_iff.mpr hnd

theorem up_edge_start_aux (h : K) (a b c d : K × K) (he : (a, b) ∈ pairs (H ++ H.take 1))
    (he' : (c, d) ∈ pairs (H ++ H.take 1)) (ha : a.2 ≤ h) (hb : h < b.2) (hc : c.2 ≤ h) (hd : h < d.2)
    (hbd : b.2 ≤ d.2) : a = c := by
  by_contra hac
  have mem1 := mem_pairs_mem _ _ he
  have mem2 := mem_pairs_mem _ _ he'
  have inH : ∀ v, v ∈ H ++ H.take 1 → v ∈ H := by
    intro v hv
    rcases List.mem_append.mp hv with h' | h'
    · exact h'
    · exact List.mem_of_mem_take h'
  obtain ⟨hcol1, hcol2⟩ := up_edges_collinear ha hb hc hd
    (hconv (a, b) he c (inH c mem2.1)) (hconv (a, b) he d (inH d mem2.2))
    (hconv (c, d) he' a (inH a mem1.1)) (hconv (c, d) he' b (inH b mem1.2))
  have hcol3 : isLeft a b d = 0 := collinear4 hac hcol1 hcol2
  obtain ⟨⟨n, A, B, hbn, hX⟩, _⟩ := cyclic_neighbours H h2 a b he
  have ht : 0 < isLeft a b n := by
    rw [hX] at hstrict
    exact (turn_eq_one_iff _ _ _).mp (LeftChainFwd_mid a b n B A hstrict)
  have hab : a.2 < b.2 := lt_of_le_of_lt ha hb
  have hle := no_overtake hab hcol3 ht (hconv (b, n) hbn d (inH d mem2.2))
  have hdb : d = b := same_end hab hcol3 (le_antisymm hle hbd)
  subst hdb
  exact hac (pred_unique _ (closed_tail_nodup H h2 hnd hconv hstrict) a c d he he')

/-- a strictly convex polygon with distinct vertices crosses a height upwards along one edge only -/
theorem up_edge_start (h : K) (e e' : (K × K) × (K × K)) (he : e ∈ pairs (H ++ H.take 1))
    (he' : e' ∈ pairs (H ++ H.take 1)) (hup : e.1.2 ≤ h ∧ h < e.2.2) (hup' : e'.1.2 ≤ h ∧ h < e'.2.2) :
    e.1 = e'.1 := by
  rcases le_total e.2.2 e'.2.2 with hle | hle
  · exact up_edge_start_aux H h2 hnd hconv hstrict h e.1 e.2 e'.1 e'.2 he he' hup.1 hup.2 hup'.1 hup'.2 hle
  · exact (up_edge_start_aux H h2 hnd hconv hstrict h e'.1 e'.2 e.1 e.2 he' he hup'.1 hup'.2 hup.1 hup.2 hle).symm

end unique

theorem wnNum_inside_no_up (pt : K × K) : ∀ (l : List (K × K)),
    (∀ e ∈ pairs l, 0 < isLeft e.1 e.2 pt) → (∀ e ∈ pairs l, ¬ (e.1.2 ≤ pt.2 ∧ pt.2 < e.2.2)) →
    wnNum pt l = 0
  | [], _, _ => by simp
  | [_], _, _ => by simp
  | a :: b :: rest, h, hno => by
    have ih := wnNum_inside_no_up pt (b :: rest) (fun e he => h e (by simp [pairs, he]))
      (fun e he => hno e (by simp [pairs, he]))
    rw [wnNum_cons_cons, wnEdge_inside pt a b (h (a, b) (by simp [pairs])), ih,
      if_neg (hno (a, b) (by simp [pairs]))]
    rfl

theorem wnNum_inside_le_one (pt : K × K) : ∀ (l : List (K × K)), l.dropLast.Nodup →
    (∀ e ∈ pairs l, 0 < isLeft e.1 e.2 pt) →
    (∀ e ∈ pairs l, ∀ e' ∈ pairs l, (e.1.2 ≤ pt.2 ∧ pt.2 < e.2.2) → (e'.1.2 ≤ pt.2 ∧ pt.2 < e'.2.2) → e.1 = e'.1) →
    wnNum pt l ≤ 1
  | [], _, _, _ => by simp
  | [_], _, _, _ => by simp
  | a :: b :: rest, hnd, h, huniq => by
    have hnd' : a ∉ (b :: rest).dropLast ∧ (b :: rest).dropLast.Nodup := by
      rw [List.dropLast_cons_of_ne_nil (by simp)] at hnd
      exact List.nodup_cons.mp hnd
    have h' : ∀ e ∈ pairs (b :: rest), 0 < isLeft e.1 e.2 pt := fun e he => h e (by simp [pairs, he])
    rw [wnNum_cons_cons, wnEdge_inside pt a b (h (a, b) (by simp [pairs]))]
    by_cases hup : a.2 ≤ pt.2 ∧ pt.2 < b.2
    · rw [if_pos hup]
      have hz := wnNum_inside_no_up pt (b :: rest) h' (by
        intro e he hupe
        have heq : a = e.1 := huniq (a, b) (by simp [pairs]) e (by simp [pairs, he]) hup hupe
        exact hnd'.1 (heq ▸ mem_pairs_fst_dropLast (b :: rest) e he))
      rw [hz]; rfl
    · rw [if_neg hup]
      have ih := wnNum_inside_le_one pt (b :: rest) hnd'.2 h'
        (fun e he e' he' => huniq e (by simp [pairs, he]) e' (by simp [pairs, he']))
      omega

/-- **The winding counter of an interior point is exactly 1** for a strictly convex counter-clockwise
    polygon with pairwise distinct vertices `H` (closed as `H + [H[0]]`). -/
theorem wnNum_strictConvex_eq_one (H : List (K × K)) (pt : K × K) (h2 : 2 ≤ H.length) (hnd : H.Nodup)
    (hconv : ∀ e ∈ pairs (H ++ H.take 1), ∀ v ∈ H, 0 ≤ isLeft e.1 e.2 v)
    (hstrict : LeftChainFwd (H ++ H.take 2))
    (hin : ∀ e ∈ pairs (H ++ H.take 1), 0 < isLeft e.1 e.2 pt) : wnNum pt (H ++ H.take 1) = 1 := by
  have hclosed : (H ++ H.take 1).head? = (H ++ H.take 1).getLast? := by
    match H, h2 with
    | [], h2 => simp at h2
    | h0 :: T, _ =>
      have : (h0 :: T) ++ (h0 :: T).take 1 = (h0 :: T) ++ [h0] := by simp
      rw [this, List.getLast?_concat]; rfl
  have hlen : 2 ≤ (H ++ H.take 1).length := by rw [List.length_append]; omega
  have hge := wnNum_inside pt _ hclosed hlen hin
  have hdl : (H ++ H.take 1).dropLast = H := by
    match H, h2 with
    | [], h2 => simp at h2
    | h0 :: T, _ =>
      have : (h0 :: T) ++ (h0 :: T).take 1 = (h0 :: T) ++ [h0] := by simp
      rw [this, List.dropLast_concat]
  have hle := wnNum_inside_le_one pt (H ++ H.take 1) (by rw [hdl]; exact hnd) hin
    (fun e he e' he' hup hup' => up_edge_start H h2 hnd hconv hstrict pt.2 e e' he he' hup hup')
  omega

/-- on the output of `convex_hull` -/
theorem wnNum_convexHull_eq_one (pts : List (K × K)) (h3 : 3 ≤ (convexHull pts).length) (pt : K × K)
    (hin : ∀ e ∈ pairs (convexHull pts ++ (convexHull pts).take 1), 0 < isLeft e.1 e.2 pt) :
    wnNum pt (convexHull pts ++ (convexHull pts).take 1) = 1 :=
  wnNum_strictConvex_eq_one (convexHull pts) pt (by omega) (convexHull_nodup pts)
    (fun e he v hv => convexHull_contains pts v (convexHull_subset pts v hv) e he)
    (convexHull_strict pts h3) hin

end Geomdl
