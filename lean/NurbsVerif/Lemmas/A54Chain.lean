import NurbsVerif.Lemmas.A54Blossom
import NurbsVerif.Lemmas.A54Cor

/-! The blossom of the span of a parameter survives every admissible fold of library insertions; hence
    the control points after the fold are the ORIGINAL polar values at the new consecutive knots and do
    not depend on the order in which the knots were inserted. -/
namespace Geomdl
open Blossom
variable {K : Type} [Field K] [LinearOrder K] [IsStrictOrderedRing K]

/-- coordinate `jc` of the control points as a function of the index -/
def cF (Q : List (List K)) (jc : ℕ) : ℕ → K := fun m => (ptsGet Q m).getD jc 0

/-- one library insertion keeps the blossom of the span of `u` (spans by the library's search) -/
theorem insertOne_preserves_polar (p d : ℕ) (tol : K) (V : List K) (Q : List (List K)) (x : K)
    (hwf : CurveWF p d V Q) (hreq : ReqOk p (V, Q) (x, 1, findMultiplicity x V tol))
    (u : K) (hlo : fnOf V p ≤ u) (hhi : u ≤ fnOf V Q.length) (jc : ℕ) (xs : List K) (hxs : xs.length = p) :
    polar (fnOf (insertOne p tol (V, Q) x).1) p xs (cF (insertOne p tol (V, Q) x).2 jc)
        (findSpanLinear p (fnOf (insertOne p tol (V, Q) x).1) (insertOne p tol (V, Q) x).2.length u)
      = polar (fnOf V) p xs (cF Q jc) (findSpanLinear p (fnOf V) Q.length u) := by
  obtain ⟨hub1, hub2, hmult, _, hrs⟩ := hreq
  simp only at hub1 hub2 hmult hrs
  set s := findMultiplicity x V tol with hs
  set k := findSpanLinear p (fnOf V) Q.length x with hk
  have hA := findSpanLinear_spec p (fnOf V) Q.length x hwf.pn hwf.mono hub1
  have k1 : p ≤ k := hA.1
  have k2 : k < Q.length := hA.2.1
  have k3 : fnOf V k ≤ x := hA.2.2.1
  have hk2 : x < fnOf V (k+1) := by
    rcases hA.2.2.2 with h | h
    · exact h
    · have h' : k + 1 = Q.length := h
      rw [h']; exact hub2
  have hlen := hwf.len
  have e1 : (insertOne p tol (V, Q) x).1 = knotInsertionKv V x k 1 := rfl
  have e2 : (insertOne p tol (V, Q) x).2 = knotInsertion p (fnOf V) Q x 1 s k := rfl
  have hkv := fnOf_knotInsertionKv V x k 1 (by omega)
  obtain ⟨c1, c2, c3, c4, c5⟩ := span_after_insertion p (fnOf V) Q.length k 1 x u hwf.mono hwf.pn k1 k2 (le_refl _)
    k3 hk2 hlo hhi hwf.last
  rw [e1, e2, knotInsertion_length, hkv]
  set κ := findSpanLinear p (fnOf V) Q.length u with hκ
  set κ' := findSpanLinear p (Uh k 1 x (fnOf V)) (Q.length + 1) u with hκ'
  have hsepk : Sep (fnOf V) k := sep_of_mono (fnOf V) k hwf.mono (lt_of_le_of_lt k3 hk2)
  rw [polar_congr (Uh k 1 x (fnOf V)) p xs _ (Qpos (fnOf V) p k 1 x (cF Q jc)) κ' (by
    intro m _ hm2
    have hm : m < Q.length + 1 := by rcases c5 with ⟨h, _⟩ | ⟨h, _⟩ <;> omega
    show (ptsGet (knotInsertion p (fnOf V) Q x 1 s k) m).getD jc 0 = _
    rw [knotInsertion_coord p (fnOf V) Q x 1 s k d jc hwf.net k1 k2 hrs m hm]
    exact Qcode_eq_Qpos (fnOf V) x _ k p s 1 hsepk k1 (le_refl _) hrs hmult m)]
  exact insert_preserves_polar (fnOf V) p k 1 κ κ' x (cF Q jc) (sep_of_mono (fnOf V) κ hwf.mono c1)
    (sep_of_mono _ κ' (Uh_mono (fnOf V) k 1 x hwf.mono k3 (le_of_lt hk2)) c2) (by omega) c3 c5 xs hxs

/-- … and so does every admissible fold of insertions -/
theorem fold_preserves_polar (p d : ℕ) (tol : K) (X : List K) :
    ∀ (st : List K × List (List K)), CurveWF p d st.1 st.2 → RefineOk p tol st X →
    ∀ (u : K), fnOf st.1 p ≤ u → u ≤ fnOf st.1 st.2.length → ∀ (jc : ℕ) (xs : List K), xs.length = p →
      polar (fnOf (X.foldl (insertOne p tol) st).1) p xs (cF (X.foldl (insertOne p tol) st).2 jc)
          (findSpanLinear p (fnOf (X.foldl (insertOne p tol) st).1) (X.foldl (insertOne p tol) st).2.length u)
        = polar (fnOf st.1) p xs (cF st.2 jc) (findSpanLinear p (fnOf st.1) st.2.length u) := by
  induction X with
  | nil => intro st _ _ u _ _ jc xs _; rfl
  | cons x xs' ih =>
    intro st hwf hok u hlo hhi jc xs hxs
    obtain ⟨hq, hqs⟩ := hok
    obtain ⟨hwf', hp', hn'⟩ := insStep_wf p d st _ hwf hq
    rw [← insertOne_eq_insStep] at hwf' hp' hn'
    simp only [List.foldl_cons]
    rw [ih (insertOne p tol st x) hwf' hqs u (by rw [hp']; exact hlo) (by rw [hn']; exact hhi) jc xs hxs]
    exact insertOne_preserves_polar p d tol st.1 st.2 x hwf hq u hlo hhi jc xs hxs

/-- **the control points after the fold are the original polar values at the new consecutive knots**
    (index `i`, any parameter `u` whose span `κ'` in the refined knots satisfies `i ≤ κ' ≤ i + p`) -/
theorem fold_ctrlpt_is_polar (p d : ℕ) (tol : K) (X : List K) (st : List K × List (List K))
    (hwf : CurveWF p d st.1 st.2) (hok : RefineOk p tol st X)
    (u : K) (hlo : fnOf st.1 p ≤ u) (hhi : u ≤ fnOf st.1 st.2.length) (jc i : ℕ)
    (h1 : findSpanLinear p (fnOf (X.foldl (insertOne p tol) st).1) (X.foldl (insertOne p tol) st).2.length u ≤ i + p)
    (h2 : i ≤ findSpanLinear p (fnOf (X.foldl (insertOne p tol) st).1) (X.foldl (insertOne p tol) st).2.length u) :
    cF (X.foldl (insertOne p tol) st).2 jc i
      = polar (fnOf st.1) p (win (fnOf (X.foldl (insertOne p tol) st).1) i p) (cF st.2 jc)
          (findSpanLinear p (fnOf st.1) st.2.length u) := by
  obtain ⟨w1, w2, w3⟩ := refine_fold_wf p d tol X st hwf hok
  set Vf := (X.foldl (insertOne p tol) st).1 with hVf
  set Qf := (X.foldl (insertOne p tol) st).2 with hQf
  set κf := findSpanLinear p (fnOf Vf) Qf.length u with hκf
  have hA := findSpanLinear_spec p (fnOf Vf) Qf.length u w1.pn w1.mono (by rw [w2]; exact hlo)
  have f1 : p ≤ κf := hA.1
  have f2 : κf < Qf.length := hA.2.1
  have f3 : fnOf Vf κf ≤ u := hA.2.2.1
  have hnd : fnOf Vf κf < fnOf Vf (κf + 1) := by
    rcases hA.2.2.2 with h | h
    · exact lt_of_le_of_lt f3 h
    · have h' : κf + 1 = Qf.length := h
      have := w1.last
      rw [show Qf.length - 1 = κf by omega, ← h'] at this
      exact this
  have hsep : Sep (fnOf Vf) κf := sep_of_mono (fnOf Vf) κf w1.mono hnd
  rw [← polar_win (fnOf Vf) κf hsep p (cF Qf jc) i f1 h1 h2]
  exact fold_preserves_polar p d tol X st hwf hok u hlo hhi jc _ (win_length _ _ _)

end Geomdl
