import NurbsVerif.Lemmas.DerivAll
import NurbsVerif.Lemmas.RatDers
import NurbsVerif.Lemmas.AssemblePoint
import NurbsVerif.Lemmas.AssembleWF
/-!
# Rational curve derivatives, end to end (C02)

`ratCurveDers_leibniz` (Lemmas/RatDers.lean) is about an arbitrary table `CKw` of homogeneous derivative vectors with
hypotheses `hrows` (every row has `d+1` entries) and `hw` (the weight entry of row `0` is not zero).  Here both are
discharged for the table the evaluator actually passes, `curveDersAt p U Pw κ u order` (and through the span search,
`curveDers`), from well-formedness of the NURBS curve and positivity of its weights; the data of the Leibniz system
become the TRUE derivatives (Mathlib's `Polynomial.derivative`) of the numerator and weight span polynomials.
-/
namespace Geomdl
open Blossom Polynomial Finset
variable {K : Type} [Field K] [LinearOrder K] [IsStrictOrderedRing K]

theorem curveDersAt_length (p : ℕ) (U : ℕ → K) (P : List (List K)) (κ : ℕ) (u : K) (order : ℕ) :
    (curveDersAt p U P κ u order).length = order + 1 := by
  simp [curveDersAt]

/-- every row of the derivative table `CK[0..order]` has the dimension of the control points -/
theorem curveDersAt_row_length (p : ℕ) (U : ℕ → K) (P : List (List K)) (κ : ℕ) (u : K) (d order : ℕ)
    (hp : p ≤ κ) (hκ : κ < P.length) (hP : NetOk d P) :
    ∀ r ∈ curveDersAt p U P κ u order, r.length = d := by
  intro r hr
  unfold curveDersAt at hr
  simp only [List.mem_map, List.mem_range] at hr
  obtain ⟨k, hk, rfl⟩ := hr
  rw [dimOf_eq hP (by omega)]
  by_cases hkm : k ≤ min p order
  · rw [if_pos hkm]
    apply linComb_length
    intro pt hpt
    rw [curveDerivCpts_eq] at hpt
    simp only [List.getD_eq_getElem?_getD, List.getElem?_map] at hpt
    rw [List.getElem?_range (by omega)] at hpt
    simp only [Option.map_some, Option.getD_some] at hpt
    have hpk := pkLevel_eq p U P (κ - p) p k (by omega) (by omega)
    have hr2 : κ - p + p = κ := by omega
    rw [hr2] at hpk
    rw [hpk] at hpt
    simp only [List.mem_map, List.mem_range'_1] at hpt
    obtain ⟨i, ⟨_, hi⟩, rfl⟩ := hpt
    exact vIter_length p U P d hP k _ (by omega)
  · rw [if_neg hkm]; simp [vzero]

/-- the span polynomial evaluates to the curve point on the span (any coordinate) -/
theorem spanPoly_eval (p : ℕ) (U : ℕ → K) (P : List (List K)) (κ : ℕ) (u : K) (d j : ℕ)
    (hp : p ≤ κ) (hκ : κ < P.length) (hP : NetOk d P) :
    eval u (spanPoly p U P κ j) = (curvePointAt p U P κ u).getD j 0 := by
  rw [curvePointAt_wsum p U P κ u d j hp hκ hP, diag U κ u p hp]
  unfold spanPoly
  rw [eval_polP]
  simp only [eval_C]

/-- **A4.2 over the derivative table of the homogeneous curve, given span**: the Leibniz system with the true
    derivatives of numerator and weight polynomial as data, whenever the weight polynomial does not vanish at `u` -/
theorem ratCurveDersAt_true (p : ℕ) (U : ℕ → K) (Pw : List (List K)) (κ : ℕ) (u : K) (d order k j : ℕ)
    (hp : p ≤ κ) (hκ : κ < Pw.length) (hP : NetOk (d+1) Pw) (hm : Monotone U) (hspan : U κ < U (κ+1))
    (hw0 : eval u (spanPoly p U Pw κ d) ≠ 0) (hk : k ≤ order) (hj : j < d) :
    ∑ i ∈ range (k+1), (Nat.choose k i : K) * eval u (derivative^[i] (spanPoly p U Pw κ d))
        * ((ratCurveDers (curveDersAt p U Pw κ u order)).getD (k - i) []).getD j 0
      = eval u (derivative^[k] (spanPoly p U Pw κ j)) := by
  have hall := fun c i (hi : i ≤ order) => curveDersAt_all p U Pw κ u (d+1) c order i hp hκ hP hm hspan hi
  have hw : ((curveDersAt p U Pw κ u order).getD 0 []).getD d 0 ≠ 0 := by
    rw [hall d 0 (by omega)]; exact hw0
  have L := ratCurveDers_leibniz (curveDersAt p U Pw κ u order) d
    (curveDersAt_row_length p U Pw κ u (d+1) order hp hκ hP) hw k j
    (by rw [curveDersAt_length]; omega) hj
  rw [hall j k hk] at L
  rw [← L]
  apply Finset.sum_congr rfl
  intro i hi
  rw [Finset.mem_range] at hi
  rw [hall d i (by omega)]

/-- **Rational curves end to end, closed domain, through the span search**: for a well-formed NURBS curve
    (homogeneous net of `d+1` coordinates, positive weights) and every parameter of the closed domain, the weight
    polynomial of the span found is positive at `u`, and the vectors `Curve.derivatives` returns solve the Leibniz
    system of the true derivatives. -/
theorem ratCurveDers_domain (p d : ℕ) (Ul : List K) (Pw : List (List K)) (hC : CurveWF p (d+1) Ul Pw)
    (hwt : ∀ i, i < Pw.length → 0 < (ptsGet Pw i).getD d 0) (u : K)
    (h1 : fnOf Ul p ≤ u) (h2 : u ≤ fnOf Ul Pw.length) (order k j : ℕ) (hk : k ≤ order) (hj : j < d) :
    0 < eval u (spanPoly p (fnOf Ul) Pw (findSpanLinear p (fnOf Ul) Pw.length u) d) ∧
    ∑ i ∈ range (k+1), (Nat.choose k i : K)
        * eval u (derivative^[i] (spanPoly p (fnOf Ul) Pw (findSpanLinear p (fnOf Ul) Pw.length u) d))
        * ((ratCurveDers (curveDers p (fnOf Ul) Pw u order)).getD (k - i) []).getD j 0
      = eval u (derivative^[k] (spanPoly p (fnOf Ul) Pw (findSpanLinear p (fnOf Ul) Pw.length u) j)) := by
  obtain ⟨hs, hp, hκ⟩ := findSpanLinear_dom hC.knotsOk u h1 h2
  have hpos : 0 < eval u (spanPoly p (fnOf Ul) Pw (findSpanLinear p (fnOf Ul) Pw.length u) d) := by
    rw [spanPoly_eval p (fnOf Ul) Pw _ u (d+1) d hp hκ hC.net]
    exact curvePointAt_weight_pos p (fnOf Ul) Pw _ u d hs hp hκ hC.net hwt
  exact ⟨hpos, ratCurveDersAt_true p (fnOf Ul) Pw _ u d order k j hp hκ hC.net hC.mono hs.nonempty
    (ne_of_gt hpos) hk hj⟩

end Geomdl

/-! ### witness: a clamped quadratic NURBS curve with an interior knot and weights `1, 2, 1/2, 3` -/
namespace Geomdl

def rcU : List ℚ := [0, 0, 0, 1/2, 1, 1, 1]
def rcPw : List (List ℚ) := [[0, 0, 1], [2, 4, 2], [1, 0, 1/2], [9, 3, 3]]

theorem rc_wf : CurveWF 2 (2+1) rcU rcPw where
  mono := by
    apply monotone_nat_of_le_succ
    intro n
    rcases n with _|_|_|_|_|_|_|n <;> simp [rcU, fnOf, List.getD] <;> norm_num
  len := by simp [rcU, rcPw]
  pn := by simp [rcPw]
  last := by simp [rcU, rcPw, fnOf, List.getD]; norm_num
  net := by intro pt hpt; simp [rcPw] at hpt; rcases hpt with h | h | h | h <;> simp [h]

theorem rc_weights : ∀ i, i < rcPw.length → 0 < (ptsGet rcPw i).getD 2 0 := by
  intro i hi
  simp only [rcPw, List.length_cons, List.length_nil] at hi
  have : i = 0 ∨ i = 1 ∨ i = 2 ∨ i = 3 := by omega
  rcases this with rfl | rfl | rfl | rfl <;> simp [rcPw, ptsGet]

end Geomdl
