import NurbsVerif.Lemmas.SplitSurfVRows
import NurbsVerif.Lemmas.SplitSurfUDecompMain

/-! `decompose_surface(…, decompose_dir='v')` end to end. -/
set_option linter.unusedSectionVars false
namespace Geomdl
open Blossom Finset
variable {K : Type} [Field K] [LinearOrder K] [IsStrictOrderedRing K]

/-- rows version of `surface_rows_eval` without normalisation of the u knot vector -/
theorem surface_rows_eval' (pu pv d : ℕ) (Uu UA Uv : List K) (su nA sv : ℕ) (PA P : List (List K)) (u t v : K) (j : ℕ)
    (hUm : Monotone (fnOf Uu)) (hsu : pu + 1 ≤ su) (hu : fnOf Uu pu ≤ u)
    (hPA : NetOk d PA) (hlenA : PA.length = su * nA) (hP : NetOk d P) (hlenP : P.length = su * sv)
    (hA : pv ≤ findSpanLinear pv (fnOf UA) nA t ∧ findSpanLinear pv (fnOf UA) nA t < nA)
    (hV : pv ≤ findSpanLinear pv (fnOf Uv) sv v ∧ findSpanLinear pv (fnOf Uv) sv v < sv)
    (hrows : ∀ x, x < su → (curvePoint pv (fnOf UA) (rowOf nA PA x) t).getD j 0
        = (curvePoint pv (fnOf Uv) (rowOf sv P x) v).getD j 0) :
    (surfacePoint pu pv (fnOf Uu) (fnOf UA) su nA PA u t).getD j 0
      = (surfacePoint pu pv (fnOf Uu) (fnOf Uv) su sv P u v).getD j 0 := by
  obtain ⟨a1, a2, _, _⟩ := findSpanLinear_spec pu (fnOf Uu) su u hsu hUm hu
  unfold surfacePoint
  rw [surfacePointAt_rows pu pv _ _ su nA PA _ _ _ t d j a1 hA.1 a2 hA.2 hlenA hPA]
  rw [surfacePointAt_rows pu pv _ _ su sv P _ _ u v d j a1 hV.1 a2 hV.2 hlenP hP]
  apply Finset.sum_congr rfl
  intro a ha
  rw [Finset.mem_range] at ha
  congr 1
  have := hrows (findSpanLinear pu (fnOf Uu) su u - pu + a) (by omega)
  unfold curvePoint at this
  rw [rowOf_length, rowOf_length] at this
  exact this

/-- all rows of an admissible surface are admissible curves -/
theorem DecompWF.row {pv d : ℕ} {Uv : List K} {su sv : ℕ} {P : List (List K)} {tol : K}
    (h0 : DecompWF pv d Uv (rowOf sv P 0) tol) (hP : NetOk d P) (hlenP : P.length = su * sv)
    (x : ℕ) (hx : x < su) : DecompWF pv d Uv (rowOf sv P x) tol := by
  have hl := h0.cl.wf.len
  have hpn := h0.cl.wf.pn
  have hlast := h0.cl.wf.last
  have hc1 := h0.cl.c1
  have hmul := h0.mul
  have hunit := h0.unit
  rw [rowOf_length] at hl hpn hlast hc1 hmul hunit
  refine ⟨⟨⟨h0.cl.wf.mono, ?_, ?_, ?_, rowOf_netOk su sv d P hP hlenP x hx⟩, h0.cl.hp, h0.cl.c0, ?_⟩, ?_, ?_, h0.tol0, h0.sep⟩
  all_goals rw [rowOf_length]
  · exact hl
  · exact hpn
  · exact hlast
  · exact hc1
  · exact hmul
  · exact hunit

/-- **`decompose_surface` in v, end to end**: one piece per non-empty v interval, in order; each piece
    is a clamped Bézier strip (`pv+1` control points in v, same u data) that coincides with the
    original on `(u domain) × [breaks i, breaks (i+1)]` under the affine map of its own v domain. -/
theorem decompose_surface_v_all (rat : Bool) (pu pv d : ℕ) (tol : K) (fuel : ℕ) (Uu Uv : List K) (su sv : ℕ)
    (P : List (List K)) (hP : NetOk d P) (hlenP : P.length = su * sv)
    (hUm : Monotone (fnOf Uu)) (hsu : pu + 1 ≤ su) (hUn : knotNormalize Uu = Uu)
    (h0 : DecompWF pv d Uv (rowOf sv P 0) tol)
    (hfuel : (spanStarts pv (fnOf Uv) sv).length ≤ fuel + 1) :
    ∃ pieces : List (List K × ℕ × List (List K)),
      decomposeDir 1 tol fuel (surfShape rat pu pv Uu Uv su sv P)
        = pieces.map (fun q => surfShape rat pu pv Uu q.1 su q.2.1 q.2.2) ∧
      pieces.length = (spanStarts pv (fnOf Uv) sv).length ∧
      ((pv + 1 < sv ∨ (fnOf Uv pv = 0 ∧ fnOf Uv sv = 1)) → ∀ q ∈ pieces, q.1 = bezKv pv) ∧
      ∀ i, i < pieces.length →
        (pieces.getD i ([], 0, [])).2.1 = pv + 1 ∧
        ClampedKv pv (pv + 1) (pieces.getD i ([], 0, [])).1 ∧
        (pieces.getD i ([], 0, [])).2.2.length = su * (pv + 1) ∧ NetOk d (pieces.getD i ([], 0, [])).2.2 ∧
        ∀ u, fnOf Uu pu ≤ u → ∀ t, 0 ≤ t → t ≤ 1 → ∀ j,
          (surfacePoint pu pv (fnOf Uu) (fnOf (pieces.getD i ([], 0, [])).1) su (pv + 1)
              (pieces.getD i ([], 0, [])).2.2 u
              (fnOf (pieces.getD i ([], 0, [])).1 pv
                + t * (fnOf (pieces.getD i ([], 0, [])).1 (pv + 1) - fnOf (pieces.getD i ([], 0, [])).1 pv))).getD j 0
            = (surfacePoint pu pv (fnOf Uu) (fnOf Uv) su sv P u
                ((breaks pv (fnOf Uv) sv).getD i 0
                  + t * ((breaks pv (fnOf Uv) sv).getD (i + 1) 0 - (breaks pv (fnOf Uv) sv).getD i 0))).getD j 0 := by
  have hsu0 : 0 < su := by omega
  obtain ⟨pieces, hdec, hok, hrows⟩ :=
    decompose_surface_v_rows rat pu pv d tol Uu su hUn hsu0 fuel Uv sv P hP hlenP h0
  have hcurve : ∀ x, x < su → DecompResult rat pv d tol fuel Uv (rowOf sv P x) := fun x hx =>
    decompose_curve_all rat pv d tol fuel Uv (rowOf sv P x) (h0.row hP hlenP x hx)
      (by rw [rowOf_length]; exact hfuel)
  have hmatch : ∀ x, x < su → ∀ (py : List (List K × List (List K))),
      pieces.map (fun q => curveShape rat pv q.1 (rowOf q.2.1 q.2.2 x)) = py.map (fun q => curveShape rat pv q.1 q.2) →
      pieces.length = py.length ∧ ∀ i, i < pieces.length →
        py.getD i ([], []) = ((pieces.getD i ([], 0, [])).1,
          rowOf (pieces.getD i ([], 0, [])).2.1 (pieces.getD i ([], 0, [])).2.2 x) := by
    intro x hx py hm
    have hl : pieces.length = py.length := by
      have := congrArg List.length hm
      simpa using this
    refine ⟨hl, ?_⟩
    intro i hi
    have h1 : (pieces.map (fun q => curveShape rat pv q.1 (rowOf q.2.1 q.2.2 x))).getD i (curveShape rat pv [] [])
        = (py.map (fun q => curveShape rat pv q.1 q.2)).getD i (curveShape rat pv [] []) := by rw [hm]
    rw [getD_map_lt _ pieces i ([], 0, []) _ hi, getD_map_lt _ py i ([], []) _ (by omega)] at h1
    have := curveShape_inj h1
    exact Prod.ext this.1.symm this.2.symm
  obtain ⟨py0, hpy0, hlen0, hbez0, _⟩ := hcurve 0 hsu0
  rw [hrows 0 hsu0] at hpy0
  obtain ⟨hl0, hel0⟩ := hmatch 0 hsu0 py0 hpy0
  refine ⟨pieces, hdec, ?_, ?_, ?_⟩
  · rw [hl0, hlen0, rowOf_length]
  · intro hc q hq
    obtain ⟨i, hi, rfl⟩ := List.getElem_of_mem hq
    have hq0 : py0.getD i ([], []) ∈ py0 := by
      rw [List.getD_eq_getElem _ _ (by omega)]; exact List.getElem_mem _
    have := hbez0 (by rw [rowOf_length]; exact hc) _ hq0
    rw [hel0 i hi] at this
    rw [← List.getD_eq_getElem pieces ([], 0, []) hi]
    exact this
  · intro i hi
    have hpc : ∀ x, x < su →
        BezPiece pv d (curveFn pv Uv (rowOf sv P x)) ((breaks pv (fnOf Uv) sv).getD i 0)
          ((breaks pv (fnOf Uv) sv).getD (i + 1) 0)
          ((pieces.getD i ([], 0, [])).1, rowOf (pieces.getD i ([], 0, [])).2.1 (pieces.getD i ([], 0, [])).2.2 x) := by
      intro x hx
      obtain ⟨py, hpy, _, _, hB⟩ := hcurve x hx
      rw [hrows x hx] at hpy
      obtain ⟨hl, hel⟩ := hmatch x hx py hpy
      have := hB i (by omega)
      rw [hel i hi, rowOf_length] at this
      exact this
    obtain ⟨c0, n0, _⟩ := hpc 0 hsu0
    have hn : (pieces.getD i ([], 0, [])).2.1 = pv + 1 := by
      simp only [rowOf_length] at n0; exact n0
    have hqmem : pieces.getD i ([], 0, []) ∈ pieces := by
      rw [List.getD_eq_getElem _ _ hi]; exact List.getElem_mem _
    obtain ⟨hqlen, hqnet⟩ := hok _ hqmem
    have kq := c0.toKv
    simp only [rowOf_length] at kq
    rw [hn] at kq hqlen
    refine ⟨hn, kq, hqlen, hqnet, ?_⟩
    intro u hu t ht0 ht1 j
    have hpn : pv + 1 ≤ sv := by have := h0.cl.wf.pn; rw [rowOf_length] at this; exact this
    have hbr := breaks_getD_range pv sv (fnOf Uv) h0.cl.wf.mono (by omega) 0
    have hcnt : (breaks pv (fnOf Uv) sv).length = pieces.length + 1 := by
      rw [breaks_length, hl0, hlen0, rowOf_length]
    have ra := hbr i (by omega)
    have rb := hbr (i + 1) (by omega)
    apply surface_rows_eval' pu pv d Uu _ Uv su (pv + 1) sv _ P u _ _ j hUm hsu hu hqnet hqlen hP hlenP
    · have hq0 : fnOf (pieces.getD i ([], 0, [])).1 pv ≤ fnOf (pieces.getD i ([], 0, [])).1 (pv + 1) := kq.mono (by omega)
      obtain ⟨b1, b2, _, _⟩ := findSpanLinear_spec pv (fnOf (pieces.getD i ([], 0, [])).1) (pv + 1)
        (fnOf (pieces.getD i ([], 0, [])).1 pv
          + t * (fnOf (pieces.getD i ([], 0, [])).1 (pv + 1) - fnOf (pieces.getD i ([], 0, [])).1 pv))
        (le_refl _) kq.mono (by nlinarith)
      exact ⟨b1, b2⟩
    · obtain ⟨b1, b2, _, _⟩ := findSpanLinear_spec pv (fnOf Uv) sv
        ((breaks pv (fnOf Uv) sv).getD i 0
          + t * ((breaks pv (fnOf Uv) sv).getD (i + 1) 0 - (breaks pv (fnOf Uv) sv).getD i 0))
        hpn h0.cl.wf.mono (by nlinarith [ra.1, rb.1])
      exact ⟨b1, b2⟩
    · intro x hx
      obtain ⟨_, _, h3⟩ := hpc x hx
      have := h3 t ht0 ht1 j
      rw [hn] at this
      exact this

end Geomdl
