import NurbsVerif.Lemmas.SplitUnclampedPieces

/-! Unclamped knot vectors: both pieces of a cut coincide with the uncut curve as functions of the
    parameter.  The normalisation of a piece's knot vector maps its whole KNOT RANGE (`[U_0, ub]` for
    the left piece, `[ub, U_{n+p}]` for the right one) onto `[0,1]`; the piece's DOMAIN is the image of
    `[U_p, ub]` resp. `[ub, U_n]` under that map. -/
set_option linter.unusedSectionVars false
namespace Geomdl
open Blossom
variable {K : Type} [Field K] [LinearOrder K] [IsStrictOrderedRing K]
variable {p d : ℕ} {Wl : List K} {Q : List (List K)} {ub : K} {m : ℕ}

/-- **the left piece as a function**: normalised knot vector, first `m-p+1` control points, span found
    by the library's search; every parameter `u ∈ [U_p, ub]` (closed at `ub`), mapped by the
    normalisation `u ↦ (u - U_0)/(ub - U_0)` of the piece's knot range -/
theorem left_piece_curve_uU (h : CutOkU p d Wl Q ub m) (u : K) (hu0 : fnOf Wl p ≤ u) (hu1 : u ≤ ub) (j : ℕ) :
    (curvePoint p (fnOf (knotNormalize (leftKv Wl ub m))) (Q.take (m - p + 1))
        ((u - fnOf Wl 0) / (ub - fnOf Wl 0))).getD j 0
      = (curvePoint p (fnOf Wl) Q u).getD j 0 := by
  have hlen := h.len; have hm := h.hm; have hpm := h.hpm; have hp := h.hp
  obtain ⟨hhead, hlast⟩ := h.leftRange
  have hrange : (leftKv Wl ub m).headD 0 < (leftKv Wl ub m).getLastD 0 := by rw [hhead, hlast]; exact h.lo0
  have hQlen : (Q.take (m - p + 1)).length = m - p + 1 := by simp; omega
  have hparam : (u - fnOf Wl 0) / (ub - fnOf Wl 0)
      = (u - (leftKv Wl ub m).headD 0) / ((leftKv Wl ub m).getLastD 0 - (leftKv Wl ub m).headD 0) := by
    rw [hhead, hlast]
  unfold curvePoint
  rw [hQlen, hparam]
  rw [findSpanLinear_normalize p _ _ u (leftKv_ne _ _ _) hrange,
      normalized_piece p _ _ _ u (leftKv_ne _ _ _) (ne_of_gt (sub_pos.mpr hrange))]
  have hVp : fnOf (leftKv Wl ub m) p ≤ u := by rw [fnOf_leftKv_le Wl ub m p (by omega) (by omega)]; exact hu0
  have hVn : fnOf (leftKv Wl ub m) (m - p + 1) = ub := by
    rw [fnOf_leftKv_le Wl ub m _ (by omega) (by omega)]; exact h.mult _ (by omega) (by omega)
  obtain ⟨a1, a2, a3, a4⟩ := findSpanLinear_spec p (fnOf (leftKv Wl ub m)) (m - p + 1) u (by omega) h.leftMono hVp
  set κ := findSpanLinear p (fnOf (leftKv Wl ub m)) (m - p + 1) u with hκ
  rw [show leftKv Wl ub m = Wl.take (m + 1) ++ [ub] from rfl,
      Geomdl.left_piece_coincides p Wl Q ub u m κ (by omega) a1 (by omega)]
  by_cases hlt : u < ub
  · have := findSpanLinear_piece p (fnOf (leftKv Wl ub m)) (fnOf Wl) (m - p + 1) Q.length 0 u (by omega) (by omega)
      h.leftMono h.wf.mono (fun i _ h2 => fnOf_leftKv_le Wl ub m i (by omega) (by omega)) hVp hu0 hu0
      (Or.inl (by rw [hVn]; exact hlt)) (by rw [hVn]; exact hu1)
    rw [this, Nat.add_zero]
  · have hu : u = ub := le_antisymm hu1 (not_lt.mp hlt)
    have hκ1 : κ = m - p := by
      rcases a4 with h' | h'
      · exfalso
        have : fnOf (leftKv Wl ub m) (κ + 1) ≤ fnOf (leftKv Wl ub m) (m - p + 1) := h.leftMono (by omega)
        rw [hVn] at this
        linarith
      · omega
    have hspan : findSpanLinear p (fnOf Wl) Q.length u = m := by
      apply findSpanLinear_unique p (fnOf Wl) Q.length u h.wf.pn h.wf.mono hu0 (by rw [hu]; exact h.hi) m
      · rw [hu, h.atm]
      · rw [hu]; exact h.above
    rw [hspan, hκ1, hu]
    have hm1 : fnOf Wl (m - p + 1) = ub := h.mult _ (by omega) (by omega)
    rw [curvePointAt_clamped_end p (fnOf Wl) Q (m - p) ub d j h.wf.mono (by rw [hm1]; exact h.below)
          (by omega) (by omega) h.wf.net (fun i h1 h2 => h.mult i (by omega) (by omega)) hm1.symm]
    rw [curvePointAt_clamped_start p (fnOf Wl) Q m ub d j h.wf.mono (by rw [h.atm]; exact h.above)
          (by omega) hm h.wf.net (fun i h1 h2 => h.mult i (by omega) h2)]

/-- **the right piece as a function**: every parameter `u ∈ [ub, U_n]`, both ends included, mapped by
    the normalisation `u ↦ (u - ub)/(U_{n+p} - ub)` of the piece's knot range -/
theorem right_piece_curve_uU (h : CutOkU p d Wl Q ub m) (u : K) (hu0 : ub ≤ u) (hu1 : u ≤ fnOf Wl Q.length) (j : ℕ) :
    (curvePoint p (fnOf (knotNormalize (rightKv p Wl ub m))) (Q.drop (m - p))
        ((u - ub) / (fnOf Wl (Q.length + p) - ub))).getD j 0
      = (curvePoint p (fnOf Wl) Q u).getD j 0 := by
  have hlen := h.len; have hm := h.hm; have hpm := h.hpm; have hp := h.hp
  obtain ⟨hhead, hlast⟩ := h.rightRange
  have hrange : (rightKv p Wl ub m).headD 0 < (rightKv p Wl ub m).getLastD 0 := by rw [hhead, hlast]; exact h.hiLast
  have hQlen : (Q.drop (m - p)).length = Q.length - (m - p) := by simp
  have hparam : (u - ub) / (fnOf Wl (Q.length + p) - ub)
      = (u - (rightKv p Wl ub m).headD 0) / ((rightKv p Wl ub m).getLastD 0 - (rightKv p Wl ub m).headD 0) := by
    rw [hhead, hlast]
  unfold curvePoint
  rw [hQlen, hparam]
  rw [findSpanLinear_normalize p _ _ u (rightKv_ne _ _ _ _) hrange,
      normalized_piece p _ _ _ u (rightKv_ne _ _ _ _) (ne_of_gt (sub_pos.mpr hrange))]
  have hVp : fnOf (rightKv p Wl ub m) p ≤ u := by rw [fnOf_rightKv_le p Wl ub m p (le_refl _)]; exact hu0
  have hVn : fnOf (rightKv p Wl ub m) (Q.length - (m - p)) = fnOf Wl Q.length := by
    rw [fnOf_rightKv_gt p Wl ub m _ (by omega) (by omega) (by omega)]
    congr 1; omega
  obtain ⟨a1, a2, a3, a4⟩ := findSpanLinear_spec p (fnOf (rightKv p Wl ub m)) (Q.length - (m - p)) u (by omega) h.rightMono hVp
  set κ := findSpanLinear p (fnOf (rightKv p Wl ub m)) (Q.length - (m - p)) u with hκ
  rw [show rightKv p Wl ub m = List.replicate (p + 1) ub ++ Wl.drop (m + 1) from rfl,
      Geomdl.right_piece_coincides p d Wl Q ub u m κ (by omega) (by omega) a1 h.wf.net (by omega) h.mult]
  have hWp : fnOf Wl p ≤ u := le_trans (le_of_lt h.lo) hu0
  have := findSpanLinear_piece p (fnOf (rightKv p Wl ub m)) (fnOf Wl) (Q.length - (m - p)) Q.length (m - p) u
    (by omega) (by omega) h.rightMono h.wf.mono
    (fun i h1 _ => fnOf_rightKv_gt p Wl ub m i (by omega) (by omega) h1) hVp hWp
    (by have e : p + (m - p) = m := by omega
        rw [e, h.atm]; exact hu0)
    (Or.inr (by omega)) (by rw [hVn]; exact hu1)
  rw [this]

/-- left piece at the affine image of `t ∈ [0,1]` in ITS OWN domain `[A_p, A_nA]` = uncut curve at
    `U_p + t (ub - U_p)` -/
theorem left_piece_curve_tU (h : CutOkU p d Wl Q ub m) (t : K) (ht0 : 0 ≤ t) (ht1 : t ≤ 1) (j : ℕ) :
    (curvePoint p (fnOf (knotNormalize (leftKv Wl ub m))) (Q.take (m - p + 1))
        (fnOf (knotNormalize (leftKv Wl ub m)) p
          + t * (fnOf (knotNormalize (leftKv Wl ub m)) (m - p + 1) - fnOf (knotNormalize (leftKv Wl ub m)) p))).getD j 0
      = (curvePoint p (fnOf Wl) Q (fnOf Wl p + t * (ub - fnOf Wl p))).getD j 0 := by
  have hpos : 0 < ub - fnOf Wl p := sub_pos.mpr h.lo
  have hpos0 : 0 < ub - fnOf Wl 0 := sub_pos.mpr h.lo0
  have h1 : fnOf Wl p ≤ fnOf Wl p + t * (ub - fnOf Wl p) := by nlinarith
  have h2 : fnOf Wl p + t * (ub - fnOf Wl p) ≤ ub := by nlinarith
  obtain ⟨_, _, ep, e1⟩ := h.leftNorm
  rw [← left_piece_curve_uU h _ h1 h2 j, ep, e1 _ (le_refl _)]
  congr 2
  field_simp
  ring

/-- right piece at the affine image of `t ∈ [0,1]` in ITS OWN domain `[B_p, B_nB]` = uncut curve at
    `ub + t (U_n - ub)` -/
theorem right_piece_curve_tU (h : CutOkU p d Wl Q ub m) (t : K) (ht0 : 0 ≤ t) (ht1 : t ≤ 1) (j : ℕ) :
    (curvePoint p (fnOf (knotNormalize (rightKv p Wl ub m))) (Q.drop (m - p))
        (fnOf (knotNormalize (rightKv p Wl ub m)) p
          + t * (fnOf (knotNormalize (rightKv p Wl ub m)) (Q.length - (m - p))
                  - fnOf (knotNormalize (rightKv p Wl ub m)) p))).getD j 0
      = (curvePoint p (fnOf Wl) Q (ub + t * (fnOf Wl Q.length - ub))).getD j 0 := by
  have hpos : 0 < fnOf Wl Q.length - ub := sub_pos.mpr h.hi
  have hposL : 0 < fnOf Wl (Q.length + p) - ub := sub_pos.mpr h.hiLast
  have h1 : ub ≤ ub + t * (fnOf Wl Q.length - ub) := by nlinarith
  have h2 : ub + t * (fnOf Wl Q.length - ub) ≤ fnOf Wl Q.length := by nlinarith
  obtain ⟨_, ez, en, _⟩ := h.rightNorm
  rw [← right_piece_curve_uU h _ h1 h2 j, ez p (le_refl _), en]
  congr 2
  field_simp
  ring

end Geomdl
