import NurbsVerif.Lemmas.RemoveMultiFold
import Mathlib.Data.List.Perm.Lattice

/-!
  C06, several directions in one call, part 6: the insertion loop does not depend on the order of the directions
  (`foldl_perm`), unrequested directions may be dropped (`foldl_filter`), and an object obtained from `T` by a CHAIN of
  direction steps along distinct directions, in any order (`InsChain`: what "removable at all" gives, one link per
  direction), is `insert_knot` of `T` with all these directions requested in one call (`chain_inserted`).
-/
namespace Geomdl
namespace Multi
open Blossom Finset
set_option linter.unusedSectionVars false
variable {K : Type} [Field K] [LinearOrder K] [IsStrictOrderedRing K]

/-- direction `e` is requested by the lists of a call -/
def isReq (params : List (Option K)) (nums : List ℕ) (e : ℕ) : Bool :=
  (params.getD e none).isSome && (nums.getD e 0 != 0)

theorem isReq_iff (params : List (Option K)) (nums : List ℕ) (e : ℕ) :
    isReq params nums e = true ↔ ∃ u, params.getD e none = some u ∧ nums.getD e 0 ≠ 0 := by
  unfold isReq
  cases h : params.getD e none with
  | none => simp
  | some u => simp

theorem not_isReq (params : List (Option K)) (nums : List ℕ) (e : ℕ) (h : ¬ isReq params nums e = true) :
    params.getD e none = none ∨ nums.getD e 0 = 0 := by
  rcases req_cases params nums e with h' | h'
  · exact h'
  · exact absurd ((isReq_iff params nums e).mpr h') h

theorem insPure_other (params : List (Option K)) (nums : List ℕ) (tol : K) (T : Shape K) (d x : ℕ) (hx : x ≠ d) :
    (insPure params nums tol T d).kv x = T.kv x ∧ (insPure params nums tol T d).size x = T.size x := by
  rcases req_cases params nums d with h | ⟨u, hp, hn⟩
  · rw [insPure_skip params nums tol T d h]; exact ⟨rfl, rfl⟩
  · rw [insPure_req params nums tol T d u hp hn]
    exact (withDir_other T d _ _).2.2 x hx

theorem foldl_insPure_other (params : List (Option K)) (nums : List ℕ) (tol : K) : ∀ (l : List ℕ) (T : Shape K) (x : ℕ),
    x ∉ l → (l.foldl (insPure params nums tol) T).kv x = T.kv x ∧ (l.foldl (insPure params nums tol) T).size x = T.size x
  | [], _, _, _ => ⟨rfl, rfl⟩
  | d :: l, T, x, hx => by
    rw [List.foldl_cons]
    obtain ⟨a, b⟩ := foldl_insPure_other params nums tol l (insPure params nums tol T d) x
      (fun h => hx (List.mem_cons_of_mem _ h))
    obtain ⟨a', b'⟩ := insPure_other params nums tol T d x (fun h => hx (h ▸ List.mem_cons_self))
    exact ⟨a.trans a', b.trans b'⟩

/-- unrequested directions do nothing -/
theorem foldl_filter (params : List (Option K)) (nums : List ℕ) (tol : K) : ∀ (l : List ℕ) (T : Shape K),
    l.foldl (insPure params nums tol) T = (l.filter (isReq params nums)).foldl (insPure params nums tol) T
  | [], _ => rfl
  | d :: l, T => by
    by_cases h : isReq params nums d = true
    · rw [List.filter_cons_of_pos h, List.foldl_cons, List.foldl_cons]
      exact foldl_filter params nums tol l _
    · rw [List.filter_cons_of_neg h, List.foldl_cons, insPure_skip params nums tol T d (not_isReq params nums d h)]
      exact foldl_filter params nums tol l T

section
variable {WF : Shape K → Prop} {n : ℕ} {rem : Shape K → ℕ → K → ℕ → K → K → Bool → Option (Shape K)} {tol tol2 : K}
  (F : DirFacts WF n rem tol tol2)
  (params : List (Option K)) (nums : List ℕ)
include F

theorem insPure_wf (T : Shape K) (hT : WF T) (e : ℕ) (hA : AdmL n params nums tol T [e]) :
    WF (insPure params nums tol T e) := by
  rcases req_cases params nums e with h | ⟨u, hp, hn⟩
  · rw [insPure_skip params nums tol T e h]; exact hT
  · rw [insPure_req params nums tol T e u hp hn]
    exact F.wf T e u _ hT (hA e List.mem_cons_self).1 ((hA e List.mem_cons_self).2 u hp hn)

theorem admL_insPure (T : Shape K) (e : ℕ) (l : List ℕ) (hel : e ∉ l) (hA : AdmL n params nums tol T l) :
    AdmL n params nums tol (insPure params nums tol T e) l := by
  rcases req_cases params nums e with h | ⟨u, hp, hn⟩
  · rw [insPure_skip params nums tol T e h]; exact hA
  · rw [insPure_req params nums tol T e u hp hn]; exact hA.step e u _ hel

/-- **the insertion loop does not depend on the order of the directions** -/
theorem foldl_perm {l l' : List ℕ} (p : l.Perm l') : ∀ T : Shape K, WF T → l.Nodup → AdmL n params nums tol T l →
    l.foldl (insPure params nums tol) T = l'.foldl (insPure params nums tol) T := by
  induction p with
  | nil => intro _ _ _ _; rfl
  | cons x _ ih =>
    intro T hT hnd hA
    rw [List.foldl_cons, List.foldl_cons]
    have hx := (List.nodup_cons.mp hnd).1
    exact ih _ (insPure_wf F params nums T hT x (fun e he => hA e (by simp at he; simp [he])))
      (List.nodup_cons.mp hnd).2 (admL_insPure F params nums T x _ hx hA.tail)
  | swap x y l =>
    intro T hT hnd hA
    rw [List.foldl_cons, List.foldl_cons, List.foldl_cons, List.foldl_cons]
    congr 1
    have hxy : y ≠ x := by
      intro h; subst h
      simp at hnd
    rcases req_cases params nums y with h | ⟨u, hp, hn⟩
    · rw [insPure_skip params nums tol T y h, insPure_skip params nums tol _ y h]
    · rcases req_cases params nums x with h' | ⟨v, hp', hn'⟩
      · rw [insPure_skip params nums tol T x h', insPure_skip params nums tol _ x h']
      · rw [insPure_req params nums tol T y u hp hn, insPure_req params nums tol _ x v hp' hn',
          insPure_req params nums tol T x v hp' hn', insPure_req params nums tol _ y u hp hn]
        have hy := hA y List.mem_cons_self
        have hx := hA x (List.mem_cons_of_mem _ List.mem_cons_self)
        exact F.comm T y x u v _ _ hT hy.1 hx.1 hxy (hy.2 u hp hn) (hx.2 v hp' hn')
  | trans p1 _ ih1 ih2 =>
    intro T hT hnd hA
    rw [ih1 T hT hnd hA]
    exact ih2 T hT (p1.nodup_iff.mp hnd) (fun e he => hA e (p1.mem_iff.mpr he))

/-- `S` is obtained from `T` by direction steps, outermost first: each link is an insertion of `q = (dir, ub, r)` into a
    well-formed object on which that request is admissible -/
def InsChain (WF : Shape K → Prop) (tol : K) : List (ℕ × K × ℕ) → Shape K → Shape K → Prop
  | [], S, T => S = T
  | q :: rest, S, T => ∃ T0, (S = insDirOf T0 q.1 q.2.1 q.2.2 tol ∧ WF T0 ∧ RoundOk T0 q.1 q.2.1 q.2.2 tol) ∧
      InsChain WF tol rest T0 T

omit F in
theorem chain_fold :
    ∀ (L : List (ℕ × K × ℕ)) (S T : Shape K), InsChain WF tol L S T → (L.map Prod.fst).Nodup →
    (∀ q ∈ L, params.getD q.1 none = some q.2.1 ∧ nums.getD q.1 0 = q.2.2) →
    (∀ q ∈ L, RoundOk T q.1 q.2.1 q.2.2 tol) ∧ S = (L.map Prod.fst).reverse.foldl (insPure params nums tol) T
  | [], S, T, h, _, _ => ⟨fun _ hq => absurd hq (by simp), h⟩
  | q :: rest, S, T, h, hnd, hp => by
    obtain ⟨T0, ⟨hS, _, hR0⟩, hrest⟩ := h
    have hnd' : (rest.map Prod.fst).Nodup := (List.nodup_cons.mp hnd).2
    have hq : q.1 ∉ (rest.map Prod.fst).reverse := by
      rw [List.mem_reverse]; exact (List.nodup_cons.mp hnd).1
    obtain ⟨ih1, ih2⟩ := chain_fold rest T0 T hrest hnd' (fun q' hq' => hp q' (List.mem_cons_of_mem _ hq'))
    obtain ⟨hpq, hnq⟩ := hp q List.mem_cons_self
    have hRT : RoundOk T q.1 q.2.1 q.2.2 tol := by
      obtain ⟨a, b⟩ := foldl_insPure_other params nums tol _ T q.1 hq
      rw [← ih2] at a b
      exact roundOk_transfer T0 T q.1 q.2.1 q.2.2 tol
        (by rw [ih2, foldl_insPure_degs]) a.symm b.symm hR0
    refine ⟨fun q' hq' => ?_, ?_⟩
    · rcases List.mem_cons.mp hq' with rfl | h'
      · exact hRT
      · exact ih1 q' h'
    · rw [List.map_cons, List.reverse_cons, List.foldl_append, List.foldl_cons, List.foldl_nil, ← ih2,
        insPure_req params nums tol T0 q.1 q.2.1 hpq (by rw [hnq]; have := hR0.r1; omega), hnq]
      exact hS

/-- **a chain of direction steps along distinct directions, in any order, is one `insert_knot` call**: every
    requested direction is admissible on `T` and the loop of the call produces `S` -/
theorem chain_inserted (L : List (ℕ × K × ℕ)) (S T : Shape K) (hT : WF T) (hch : InsChain WF tol L S T)
    (hnd : (L.map Prod.fst).Nodup) (hlt : ∀ q ∈ L, q.1 < n)
    (hpar : ∀ q ∈ L, params.getD q.1 none = some q.2.1 ∧ nums.getD q.1 0 = q.2.2)
    (hoth : ∀ e, e < n → e ∉ L.map Prod.fst → params.getD e none = none ∨ nums.getD e 0 = 0) :
    AdmL n params nums tol T (List.range n) ∧ (List.range n).foldl (insPure params nums tol) T = S := by
  obtain ⟨c1, c2⟩ := chain_fold params nums L S T hch hnd hpar
  have hmem : ∀ e, e < n → ∀ u, params.getD e none = some u → nums.getD e 0 ≠ 0 →
      ∃ q ∈ L, q.1 = e ∧ q.2.1 = u ∧ q.2.2 = nums.getD e 0 := by
    intro e he u hu hn
    by_cases hin : e ∈ L.map Prod.fst
    · obtain ⟨q, hq, rfl⟩ := List.mem_map.mp hin
      obtain ⟨a, b⟩ := hpar q hq
      rw [a] at hu
      exact ⟨q, hq, rfl, Option.some.inj hu, b.symm⟩
    · rcases hoth e he hin with h | h
      · rw [h] at hu; cases hu
      · exact absurd h hn
  have hA : AdmL n params nums tol T (List.range n) := by
    intro e he
    refine ⟨List.mem_range.mp he, fun u hu hn => ?_⟩
    obtain ⟨q, hq, rfl, rfl, h3⟩ := hmem e (List.mem_range.mp he) u hu hn
    rw [← h3]; exact c1 q hq
  refine ⟨hA, ?_⟩
  have hA' : AdmL n params nums tol T (L.map Prod.fst).reverse := by
    intro e he
    rw [List.mem_reverse] at he
    obtain ⟨q, hq, rfl⟩ := List.mem_map.mp he
    exact hA q.1 (List.mem_range.mpr (hlt q hq))
  have hperm : ((L.map Prod.fst).reverse).Perm ((List.range n).filter (isReq params nums)) := by
    apply (List.perm_ext_iff_of_nodup (List.nodup_reverse.mpr hnd) (List.nodup_range.filter _)).mpr
    intro e
    rw [List.mem_reverse, List.mem_filter, List.mem_range, isReq_iff]
    constructor
    · intro he
      obtain ⟨q, hq, rfl⟩ := List.mem_map.mp he
      obtain ⟨a, b⟩ := hpar q hq
      exact ⟨hlt q hq, q.2.1, a, by rw [b]; have := (c1 q hq).r1; omega⟩
    · rintro ⟨he, u, hu, hn⟩
      obtain ⟨q, hq, rfl, _, _⟩ := hmem e he u hu hn
      exact List.mem_map.mpr ⟨q, hq, rfl⟩
  rw [c2, foldl_filter params nums tol (List.range n) T]
  exact (foldl_perm F params nums hperm T hT (List.nodup_reverse.mpr hnd) hA').symm

end

/-- a chain of "removable" links `Rem S T0 dir ub r`, outermost first -/
def RemChain (Rem : Shape K → Shape K → ℕ → K → ℕ → Prop) : List (ℕ × K × ℕ) → Shape K → Shape K → Prop
  | [], S, T => S = T
  | q :: rest, S, T => ∃ T0, Rem S T0 q.1 q.2.1 q.2.2 ∧ RemChain Rem rest T0 T

theorem RemChain.insChain {Rem : Shape K → Shape K → ℕ → K → ℕ → Prop} {WF : Shape K → Prop} {tol : K}
    (h : ∀ S T dir ub r, Rem S T dir ub r → S = insDirOf T dir ub r tol ∧ WF T ∧ RoundOk T dir ub r tol) :
    ∀ (L : List (ℕ × K × ℕ)) (S T : Shape K), RemChain Rem L S T → InsChain WF tol L S T
  | [], _, _, hc => hc
  | _ :: rest, _, _, ⟨T0, h0, hc⟩ => ⟨T0, h _ _ _ _ _ h0, RemChain.insChain h rest T0 _ hc⟩

theorem RemChain.dirs {Rem : Shape K → Shape K → ℕ → K → ℕ → Prop} {P : ℕ → Prop}
    (h : ∀ S T dir ub r, Rem S T dir ub r → P dir) :
    ∀ (L : List (ℕ × K × ℕ)) (S T : Shape K), RemChain Rem L S T → ∀ q ∈ L, P q.1
  | [], _, _, _ => fun _ hq => absurd hq (by simp)
  | q :: rest, _, _, ⟨T0, h0, hc⟩ => fun q' hq' => by
    rcases List.mem_cons.mp hq' with rfl | h'
    · exact h _ _ _ _ _ h0
    · exact RemChain.dirs h rest T0 _ hc q' h'

/-- **"removable at all", several directions in one `remove_knot` call** (generic form, direction step `rem`): `S`
    reached from the well-formed `T` by a chain of direction steps along distinct directions is `insert_knot` of `T` with
    these directions requested, and the loop of `remove_knot` on `S` with counts `nums' ≤ nums` returns `insert_knot` of
    `T` with the counts reduced; `T` itself when all copies are taken out -/
theorem chain_remFold {WF : Shape K → Prop} {n : ℕ} {rem : Shape K → ℕ → K → ℕ → K → K → Bool → Option (Shape K)}
    {tol tol2 : K} (F : DirFacts WF n rem tol tol2)
    (params : List (Option K)) (nums nums' : List ℕ) (L : List (ℕ × K × ℕ)) (S T : Shape K) (hT : WF T)
    (hch : InsChain WF tol L S T) (hnd : (L.map Prod.fst).Nodup) (hlt : ∀ q ∈ L, q.1 < n)
    (hpar : ∀ q ∈ L, params.getD q.1 none = some q.2.1 ∧ nums.getD q.1 0 = q.2.2)
    (hoth : ∀ e, e < n → e ∉ L.map Prod.fst → params.getD e none = none ∨ nums.getD e 0 = 0)
    (c c' : Bool) (hle : ∀ e, e < n → nums'.getD e 0 ≤ nums.getD e 0) :
    RoundCallOk n T params nums tol ∧ insertKnot T params nums tol c' = (S, true) ∧ S.pdim = n ∧
    (List.range n).foldl (remStepWith rem params nums' tol tol2 c) (S, true)
      = insertKnot T params (subNums nums nums') tol c' ∧
    ((∀ e, e < n → nums'.getD e 0 = nums.getD e 0) →
      (List.range n).foldl (remStepWith rem params nums' tol tol2 c) (S, true) = (T, true)) := by
  obtain ⟨hA, hfold⟩ := chain_inserted F params nums L S T hT hch hnd hlt hpar hoth
  have hins : insertKnot T params nums tol c' = (S, true) := by
    rw [insertKnot_pure F params nums c' T hT hA, hfold]
  obtain ⟨main, hpd⟩ := insertKnot_remFold F params nums nums' c' c T hT hA hle
  rw [hins] at main hpd
  refine ⟨fun dir hd u hu hn => (hA dir (List.mem_range.mpr hd)).2 u hu hn, hins, hpd, main, fun heq => ?_⟩
  rw [main]
  apply insertKnot_zero
  intro e he
  rw [F.pdim T hT] at he
  rw [subNums_getD, heq e he]
  omega

/-- … with the per-iso-curve direction step: the model function `removeKnot` -/
theorem chain_removeKnot {WF : Shape K → Prop} {n : ℕ} {tol tol2 : K} (F : DirFacts WF n removeKnotDir tol tol2)
    (params : List (Option K)) (nums nums' : List ℕ) (L : List (ℕ × K × ℕ)) (S T : Shape K) (hT : WF T)
    (hch : InsChain WF tol L S T) (hnd : (L.map Prod.fst).Nodup) (hlt : ∀ q ∈ L, q.1 < n)
    (hpar : ∀ q ∈ L, params.getD q.1 none = some q.2.1 ∧ nums.getD q.1 0 = q.2.2)
    (hoth : ∀ e, e < n → e ∉ L.map Prod.fst → params.getD e none = none ∨ nums.getD e 0 = 0)
    (c c' : Bool) (hle : ∀ e, e < n → nums'.getD e 0 ≤ nums.getD e 0) :
    RoundCallOk n T params nums tol ∧ insertKnot T params nums tol c' = (S, true) ∧
    removeKnot S params nums' tol tol2 c = insertKnot T params (subNums nums nums') tol c' ∧
    ((∀ e, e < n → nums'.getD e 0 = nums.getD e 0) → removeKnot S params nums' tol tol2 c = (T, true)) := by
  obtain ⟨a, b, hpd, m1, m2⟩ := chain_remFold F params nums nums' L S T hT hch hnd hlt hpar hoth c c' hle
  rw [removeKnot_eq, hpd]
  exact ⟨a, b, m1, m2⟩

end Multi
end Geomdl
