import NurbsVerif.Lemmas.Blossom
import Mathlib.Algebra.Polynomial.Derivative
import Mathlib.Algebra.Polynomial.Eval.Defs
import Mathlib.Tactic.Ring
import Mathlib.Tactic.FieldSimp
import Mathlib.Tactic.LinearCombination

namespace Blossom
open Polynomial
variable {K : Type} [Field K]

/-- de Boor level with the indeterminate as parameter (division by the constant knot difference) -/
noncomputable def dbP (t : ℕ → K) (q : ℕ) (c : ℕ → K[X]) (i : ℕ) : K[X] :=
  C ((t (i+q) - t i)⁻¹) * ((C (t (i+q)) - X) * c (i-1) + (X - C (t i)) * c i)

/-- `n` levels, spans `q, q-1, …` -/
noncomputable def polP (t : ℕ → K) : ℕ → ℕ → (ℕ → K[X]) → (ℕ → K[X])
  | _, 0, c => c
  | q, n+1, c => polP t (q-1) n (dbP t q c)

/-- scaled difference of the control sequence (Eq. 3.8 without the factor `p`) -/
noncomputable def dl (t : ℕ → K) (q : ℕ) (c : ℕ → K[X]) (m : ℕ) : K[X] :=
  C ((t (m+q) - t m)⁻¹) * (c m - c (m-1))

theorem polP_congr (t : ℕ → K) : ∀ (n q : ℕ) (c d : ℕ → K[X]) (i : ℕ),
    (∀ j, i - n ≤ j → j ≤ i → c j = d j) → polP t q n c i = polP t q n d i := by
  intro n
  induction n with
  | zero => intro q c d i h; exact h i (by omega) (le_refl _)
  | succ n ih =>
    intro q c d i h
    simp only [polP]
    apply ih
    intro j h1 h2
    unfold dbP
    rw [h (j-1) (by omega) (by omega), h j (by omega) h2]

theorem polP_add (t : ℕ → K) : ∀ (n q : ℕ) (c d : ℕ → K[X]) (i : ℕ),
    polP t q n (fun m => c m + d m) i = polP t q n c i + polP t q n d i := by
  intro n
  induction n with
  | zero => intros; rfl
  | succ n ih =>
    intro q c d i
    simp only [polP]
    have : dbP t q (fun m => c m + d m) = fun m => dbP t q c m + dbP t q d m := by
      funext m; unfold dbP; ring
    rw [this, ih]

theorem polP_smul (t : ℕ → K) (a : K[X]) : ∀ (n q : ℕ) (c : ℕ → K[X]) (i : ℕ),
    polP t q n (fun m => a * c m) i = a * polP t q n c i := by
  intro n
  induction n with
  | zero => intros; rfl
  | succ n ih =>
    intro q c i
    simp only [polP]
    have : dbP t q (fun m => a * c m) = fun m => a * dbP t q c m := by
      funext m; unfold dbP; ring
    rw [this, ih]

/-- product rule for one level -/
theorem derivative_dbP (t : ℕ → K) (q : ℕ) (c : ℕ → K[X]) (m : ℕ) :
    derivative (dbP t q c m) = dbP t q (fun j => derivative (c j)) m + dl t q c m := by
  unfold dbP dl
  simp only [derivative_mul, derivative_C, derivative_add, derivative_sub, derivative_X,
    zero_mul, zero_add, zero_sub, sub_zero]
  ring

/-- the scaled difference commutes with a de Boor level -/
theorem dl_dbP (t : ℕ → K) (q : ℕ) (c : ℕ → K[X]) (m : ℕ) (hm : 1 ≤ m)
    (h1 : t (m+q+1) - t m ≠ 0) (h2 : t (m+q) - t (m-1) ≠ 0) (h3 : t (m+q) - t m ≠ 0) :
    dl t q (dbP t (q+1) c) m = dbP t q (dl t (q+1) c) m := by
  unfold dl dbP
  have e1 : m - 1 + (q + 1) = m + q := by omega
  have e2 : m + (q + 1) = m + q + 1 := by omega
  have e4 : m - 1 - 1 = m - 2 := by omega
  simp only [e1, e2, e4]
  have i1 : C ((t (m+q+1) - t m)⁻¹) * (C (t (m+q+1)) - C (t m)) = (1 : K[X]) := by
    rw [← C_sub, ← C_mul, inv_mul_cancel₀ h1, C_1]
  have i2 : C ((t (m+q) - t (m-1))⁻¹) * (C (t (m+q)) - C (t (m-1))) = (1 : K[X]) := by
    rw [← C_sub, ← C_mul, inv_mul_cancel₀ h2, C_1]
  linear_combination
    (C ((t (m+q) - t m)⁻¹) * c (m-1)) * i1 - (C ((t (m+q) - t m)⁻¹) * c (m-1)) * i2

/-- derivative of `n` de Boor levels in the indeterminate: product-rule part plus `n` times one
    level less applied to the scaled differences -/
theorem deriv_polP (t : ℕ → K) (κ : ℕ) (hsep : Sep t κ) : ∀ (n q : ℕ) (c : ℕ → K[X]) (i : ℕ),
    n ≤ i → i ≤ κ → κ + n ≤ i + q →
    derivative (polP t q n c i)
      = polP t q n (fun j => derivative (c j)) i + (n : K[X]) * polP t (q-1) (n-1) (dl t q c) i := by
  intro n
  induction n with
  | zero => intro q c i _ _ _; simp [polP]
  | succ n ih =>
    intro q c i h1 h2 h3
    simp only [polP, Nat.add_sub_cancel]
    rw [ih (q-1) (dbP t q c) i (by omega) h2 (by omega)]
    -- first part: product rule through the first level
    have hd : (fun j => derivative (dbP t q c j))
        = fun m => dbP t q (fun j => derivative (c j)) m + dl t q c m := by
      funext m; exact derivative_dbP t q c m
    rw [hd, polP_add]
    -- second part: push the difference through the first level
    rcases Nat.eq_zero_or_pos n with hn | hn
    · subst hn
      simp only [polP]
      push_cast
      ring
    · obtain ⟨n', rfl⟩ : ∃ n', n = n' + 1 := ⟨n - 1, by omega⟩
      obtain ⟨q', rfl⟩ : ∃ q', q = q' + 2 := ⟨q - 2, by omega⟩
      have hcomm : polP t (q' + 2 - 1 - 1) (n' + 1 - 1) (dl t (q' + 2 - 1) (dbP t (q' + 2) c)) i
          = polP t (q' + 2 - 1) (n' + 1) (dl t (q' + 2) c) i := by
        simp only [Nat.add_sub_cancel, show q' + 2 - 1 = q' + 1 by omega, polP]
        apply polP_congr
        intro m hm1 hm2
        have hmκ : m ≤ κ := by omega
        have hm0 : 1 ≤ m := by omega
        have hbig : κ < m + (q' + 1) := by omega
        exact dl_dbP t (q'+1) c m hm0
          (hsep m (m + (q'+1) + 1) hmκ (by omega)) (hsep (m-1) (m + (q'+1)) (by omega) hbig)
          (hsep m (m + (q'+1)) hmκ hbig)
      rw [hcomm]
      push_cast
      ring

/-- evaluation of the polynomial levels is the scalar polar form -/
theorem eval_polP (t : ℕ → K) (u : K) : ∀ (n q : ℕ) (c : ℕ → K[X]) (i : ℕ),
    eval u (polP t q n c i) = polar t q (List.replicate n u) (fun j => eval u (c j)) i := by
  intro n
  induction n with
  | zero => intros; rfl
  | succ n ih =>
    intro q c i
    simp only [polP, List.replicate_succ, polar]
    rw [ih]
    congr 1
    funext m
    unfold dbP dbStep
    simp only [eval_mul, eval_C, eval_add, eval_sub, eval_X]
    rw [div_eq_inv_mul]

/-- A3.3 for the first derivative: the derivative of the span polynomial is `p` times the degree
    `p-1` de Boor evaluation of the scaled differences `(P m - P (m-1)) / (t (m+p) - t m)` -/
theorem curve_derivative (t : ℕ → K) (κ p : ℕ) (hsep : Sep t κ) (hp : p ≤ κ) (P : ℕ → K) (u : K) :
    eval u (derivative (polP t p p (fun j => C (P j)) κ))
      = (p : K) * polar t (p-1) (List.replicate (p-1) u)
          (fun m => (P m - P (m-1)) / (t (m+p) - t m)) κ := by
  rw [deriv_polP t κ hsep p p _ κ hp (le_refl _) (by omega)]
  simp only [derivative_C]
  have hz : polP t p p (fun _ => (0 : K[X])) κ = 0 := by
    have := polP_smul t 0 p p (fun _ => (1 : K[X])) κ
    simpa using this
  rw [hz, zero_add, eval_mul, eval_natCast, eval_polP]
  congr 2
  funext m
  unfold dl
  simp only [eval_mul, eval_C, eval_sub]
  rw [div_eq_inv_mul]
end Blossom
