import NurbsVerif.Lemmas.SplitDecompMain
import NurbsVerif.Lemmas.SplitUnclampedMain

/-! One step of `operations.decompose_curve` for a knot vector that need NOT be clamped: splitting at the
    first interior knot `U_{p+1}` gives a single-span segment (clamped at its right end) and a remainder
    (clamped at its left end, its right end as unclamped as the input's) that is again admissible.  The
    remainder's knot vector is normalised over its whole knot RANGE `[U_{p+1}, U_{n+p}]`. -/
set_option linter.unusedSectionVars false
namespace Geomdl
open Blossom
variable {K : Type} [Field K] [LinearOrder K] [IsStrictOrderedRing K]

/-- what the decomposition theorems for possibly UNCLAMPED knot vectors assume of the input curve: well
    formed (sorted knots of the right number, non-empty last span of the domain `[U_p, U_n]`), degree at
    least one, the guard under which the implementation does not raise at once (`U_p < U_{p+1}`: the
    domain does not start with an empty span), no inner knot `U_{p+1} … U_{n-1}` repeated more than `p`
    times, knot RANGE not longer than 1 (true after the library's normalisation), and any two knots
    equal or further than `tol` apart -/
structure DecompWFU (p d : ℕ) (U : List K) (P : List (List K)) (tol : K) : Prop where
  wf : CurveWF p d U P
  hp : 1 ≤ p
  first : fnOf U p < fnOf U (p + 1)
  mul : ∀ i, p + 1 ≤ i → i < P.length → fnOf U i < fnOf U (i + p)
  unit : fnOf U (P.length + p) - fnOf U 0 ≤ 1
  tol0 : 0 ≤ tol
  sep : ∀ x ∈ U, ∀ y ∈ U, |x - y| ≤ tol → y = x

/-- the clamped admissibility is a special case -/
theorem DecompWF.toU {p d : ℕ} {U : List K} {P : List (List K)} {tol : K} (h : DecompWF p d U P tol) :
    DecompWFU p d U P tol :=
  ⟨h.cl.wf, h.cl.hp, h.first, fun i h1 h2 => h.mul i (by omega) h2,
    by rw [h.cl.c0, h.cl.c1]; exact h.unit, h.tol0, h.sep⟩

/-- admissibility does not depend on the control points, only on their number and dimension -/
theorem DecompWFU.swap {p d d' : ℕ} {U : List K} {P P' : List (List K)} {tol : K} (h : DecompWFU p d' U P tol)
    (hl : P'.length = P.length) (hnet : NetOk d P') : DecompWFU p d U P' tol := by
  refine ⟨⟨h.wf.mono, ?_, ?_, ?_, hnet⟩, h.hp, h.first, ?_, ?_, h.tol0, h.sep⟩
  all_goals rw [hl]
  · exact h.wf.len
  · exact h.wf.pn
  · exact h.wf.last
  · exact h.mul
  · exact h.unit

/-- the multiplicity bound in the form the split theorems use (knots `U_1 … U_{n-1}`) -/
theorem DecompWFU.mulAll {p d : ℕ} {U : List K} {P : List (List K)} {tol : K} (h : DecompWFU p d U P tol)
    (i : ℕ) (h1 : 1 ≤ i) (h2 : i < P.length) : fnOf U i < fnOf U (i + p) := by
  by_cases c : p + 1 ≤ i
  · exact h.mul i c h2
  · exact lt_of_le_of_lt (h.wf.mono (by omega)) (lt_of_lt_of_le h.first (h.wf.mono (by omega)))

/-- knots of the (un-normalised) right piece in terms of the ORIGINAL knots, no clamping assumed -/
theorem right_knotsU (p d : ℕ) (U : List K) (P : List (List K)) (ub tol : K)
    (hwf : CurveWF p d U P) (hp : 1 ≤ p) (hlo : fnOf U p < ub) (hhi : ub < fnOf U P.length)
    (hmx : MultExact p (fnOf U) (findSpanLinear p (fnOf U) P.length ub) (findMultiplicity ub U tol) ub)
    (i : ℕ) (hi : p + 1 ≤ i) :
    fnOf (rightKv p (splitRefined p U P ub tol).1 ub
        (findSpanLinear p (fnOf U) P.length ub + (p - findMultiplicity ub U tol))) i
      = fnOf U (i + (findSpanLinear p (fnOf U) P.length ub - p)) := by
  have hcut := splitRefined_cutU p d U P ub tol hwf hp hlo hhi hmx
  obtain ⟨hW, hN, _, _⟩ := splitRefined_spec p d U P ub tol hwf hlo hhi hmx
  obtain ⟨k1, k2, _, _⟩ := findSpanLinear_spec p (fnOf U) P.length ub hwf.pn hwf.mono (le_of_lt hlo)
  have hlen := hcut.len
  have hm := hcut.hm
  have hpm := hcut.hpm
  rw [fnOf_rightKv_gt p _ ub _ i (by omega) (by omega) hi, hW]
  unfold Uh
  rw [if_neg (by omega), if_neg (by omega)]
  congr 1
  have := hmx.le
  omega

/-- the first interior knot of an admissible curve: interior, exactly counted, run `p+1 … p+s` -/
theorem decomp_factsU (p d : ℕ) (U : List K) (P : List (List K)) (tol : K)
    (h : DecompWFU p d U P tol) (hn : p + 1 < P.length) :
    fnOf U p < fnOf U (p + 1) ∧ fnOf U (p + 1) < fnOf U P.length ∧
    MultExact p (fnOf U) (findSpanLinear p (fnOf U) P.length (fnOf U (p + 1)))
      (findMultiplicity (fnOf U (p + 1)) U tol) (fnOf U (p + 1)) ∧
    findSpanLinear p (fnOf U) P.length (fnOf U (p + 1)) = p + findMultiplicity (fnOf U (p + 1)) U tol ∧
    1 ≤ findMultiplicity (fnOf U (p + 1)) U tol := by
  have hlen := h.wf.len
  have hlo := h.first
  have hhi : fnOf U (p + 1) < fnOf U P.length :=
    lt_of_le_of_lt (h.wf.mono (by omega)) h.wf.last
  have hmem : fnOf U (p + 1) ∈ U := by
    rw [fnOf_getElem U (p + 1) (by omega)]; exact List.getElem_mem _
  have hmx := multExact_of_sep p d U P (fnOf U (p + 1)) tol h.wf h.hp hlo hhi h.tol0
    (fun x hx hd => h.sep _ hmem x hx hd) h.mulAll
  obtain ⟨k1, k2, k3, k4⟩ := findSpanLinear_spec p (fnOf U) P.length (fnOf U (p + 1)) h.wf.pn h.wf.mono
    (le_of_lt hlo)
  have hcut := splitRefined_cutU p d U P (fnOf U (p + 1)) tol h.wf h.hp hlo hhi hmx
  have hpm := hcut.hpm
  have hsp := hmx.le
  set k := findSpanLinear p (fnOf U) P.length (fnOf U (p + 1)) with hk
  set s := findMultiplicity (fnOf U (p + 1)) U tol with hs
  have hks : k - s ≤ p := by
    by_contra hc
    have h1 : fnOf U (p + 1) ≤ fnOf U (k - s) := h.wf.mono (by omega)
    have h2 := hmx.lt
    linarith
  have hk1 : p + 1 ≤ k := by
    by_contra hc
    have hk2 : fnOf U (p + 1) < fnOf U (k + 1) := by
      rcases k4 with h' | h'
      · exact h'
      · rw [h']; exact hhi
    have : fnOf U (k + 1) ≤ fnOf U (p + 1) := h.wf.mono (by omega)
    linarith
  exact ⟨hlo, hhi, hmx, by omega, by omega⟩

/-- normalised knots of the remainder in terms of the original knots: index shift by the multiplicity
    `s` of the first interior knot, affine map of the remainder's knot RANGE `[U_{p+1}, U_{n+p}]` -/
theorem remainder_knotsU (p d : ℕ) (U : List K) (P : List (List K)) (tol : K)
    (h : DecompWFU p d U P tol) (hn : p + 1 < P.length) (i : ℕ) (hi : p ≤ i) :
    fnOf (knotNormalize (rightKv p (splitRefined p U P (fnOf U (p + 1)) tol).1 (fnOf U (p + 1))
        (findSpanLinear p (fnOf U) P.length (fnOf U (p + 1)) + (p - findMultiplicity (fnOf U (p + 1)) U tol)))) i
      = (fnOf U (i + findMultiplicity (fnOf U (p + 1)) U tol) - fnOf U (p + 1))
          / (fnOf U (P.length + p) - fnOf U (p + 1)) := by
  obtain ⟨hlo, hhi, hmx, hks, hs1⟩ := decomp_factsU p d U P tol h hn
  have hcut := splitRefined_cutU p d U P (fnOf U (p + 1)) tol h.wf h.hp hlo hhi hmx
  obtain ⟨_, _, _, hWL⟩ := splitRefined_ends p d U P (fnOf U (p + 1)) tol h.wf hlo hhi hmx
  obtain ⟨k1, k2, k3, _⟩ := findSpanLinear_spec p (fnOf U) P.length (fnOf U (p + 1)) h.wf.pn h.wf.mono (le_of_lt hlo)
  have hr := right_knotsU p d U P (fnOf U (p + 1)) tol h.wf h.hp hlo hhi hmx
  obtain ⟨hhead, hlast⟩ := hcut.rightRange
  have hsp := hmx.le
  set ub := fnOf U (p + 1) with hub
  set k := findSpanLinear p (fnOf U) P.length ub with hk
  set s := findMultiplicity ub U tol with hs
  set st := splitRefined p U P ub tol with hst
  rw [fnOf_knotNormalize' _ _ (rightKv_ne _ _ _ _), hhead, hlast, hWL]
  congr 2
  rcases Nat.eq_or_lt_of_le hi with e | e
  · rw [← e, fnOf_rightKv_le p _ ub _ p (le_refl _)]
    have : fnOf U (p + s) = fnOf U k := by rw [hks]
    rw [this]
    exact le_antisymm (by rw [hub]; exact h.wf.mono (by omega)) k3
  · rw [hr i (by omega)]
    congr 1; omega

/-- sizes of the two pieces of a decomposition step -/
theorem step_sizesU (p d : ℕ) (U : List K) (P : List (List K)) (tol : K)
    (h : DecompWFU p d U P tol) (hn : p + 1 < P.length) :
    ((splitRefined p U P (fnOf U (p + 1)) tol).2.take
        (findSpanLinear p (fnOf U) P.length (fnOf U (p + 1)) + (p - findMultiplicity (fnOf U (p + 1)) U tol) - p + 1)).length
      = p + 1 ∧
    ((splitRefined p U P (fnOf U (p + 1)) tol).2.drop
        (findSpanLinear p (fnOf U) P.length (fnOf U (p + 1)) + (p - findMultiplicity (fnOf U (p + 1)) U tol) - p)).length
        + findMultiplicity (fnOf U (p + 1)) U tol = P.length := by
  obtain ⟨hlo, hhi, hmx, hks, hs1⟩ := decomp_factsU p d U P tol h hn
  obtain ⟨_, hN, _, _⟩ := splitRefined_spec p d U P (fnOf U (p + 1)) tol h.wf hlo hhi hmx
  have hsp := hmx.le
  obtain ⟨_, k2, _, _⟩ := findSpanLinear_spec p (fnOf U) P.length (fnOf U (p + 1)) h.wf.pn h.wf.mono (le_of_lt hlo)
  constructor
  · simp only [List.length_take, hN]; omega
  · simp only [List.length_drop, hN]; omega

end Geomdl
