import NurbsVerif.Lemmas.SpanBin
import NurbsVerif.Lemmas.AssemblePoint
import NurbsVerif.Lemmas.AssembleWF
import NurbsVerif.Lemmas.DersOnDomain
import NurbsVerif.Lemmas.Grid

/-!
  Evaluation with `find_span_binsearch` SELECTED (`find_span_func=helpers.find_span_binsearch`): the evaluators
  call the selected search and then run the same span-level routines (`curvePointAt`, `surfacePointAt`,
  `volumePointAt`, `curveDersAt`, `curveDersA32`, …) on the index it returns.  On the closed domain of a well-formed
  knot vector, for a tolerance `0 < tol < 1/2` and outside the F-17b case (`BinTolOk`), that index is the one the linear
  search returns, hence every C01 / C02 statement about the default search holds verbatim for the other search
  function.  Composition of `findSpanBin_eq_linear` with the assembled C01 theorems (`Lemmas/AssemblePoint.lean`).
-/
set_option linter.unusedSectionVars false

namespace Geomdl
open Blossom Polynomial Finset
variable {K : Type} [Field K] [LinearOrder K] [IsStrictOrderedRing K]

/-- the tolerance of `find_span_binsearch` is admissible for this parameter: `0 < tol < 1/2` (the range on which the
    model's start index is the code's `int(round((low+high)/2 + tol))`) and the shortcut `|U_n − u| ≤ tol → last span`
    only fires for parameters of the last span (the hypothesis recorded finding F-17b violates) -/
structure BinTolOk (U : ℕ → K) (n : ℕ) (u tol : K) : Prop where
  pos : 0 < tol
  small : 2 * tol < 1
  sep : absK (U n - u) ≤ tol → U (n - 1) ≤ u

/-- sufficient, independent of the parameter: the last span of the domain is longer than the tolerance -/
theorem BinTolOk.of_last_span (U : ℕ → K) (n : ℕ) (u tol : K) (h0 : 0 < tol) (h1 : 2 * tol < 1)
    (hlast : tol < U n - U (n - 1)) (hu : u ≤ U n) : BinTolOk U n u tol := by
  refine ⟨h0, h1, fun h => ?_⟩
  unfold absK at h
  split at h <;> linarith

/-- sufficient: the parameter is the domain end itself, or further than the tolerance away from it -/
theorem BinTolOk.of_far (U : ℕ → K) (hm : Monotone U) (n : ℕ) (u tol : K) (h0 : 0 < tol) (h1 : 2 * tol < 1)
    (h : u = U n ∨ tol < U n - u) : BinTolOk U n u tol := by
  refine ⟨h0, h1, fun ha => ?_⟩
  rcases h with h | h
  · rw [h]; exact hm (Nat.sub_le n 1)
  · exfalso
    unfold absK at ha
    split at ha <;> linarith

/-- **the span the selected binary search returns** on the closed domain: it returns (some `k`), `k` is the index the
    linear search returns, a legal span index, non-empty, containing `u` (closed on the right); half-open for
    `u < U_n`, the last span for `u = U_n` -/
theorem findSpanBin_dom {p : ℕ} {U : ℕ → K} {n : ℕ} (hU : KnotsOk p U n) (u tol : K)
    (hlo : U p ≤ u) (hhi : u ≤ U n) (ht : BinTolOk U n u tol) :
    ∃ k, findSpanBin p U n u tol = some k ∧ k = findSpanLinear p U n u ∧ p ≤ k ∧ k < n ∧
      U k ≤ u ∧ u ≤ U (k + 1) ∧ U k < U (k + 1) ∧ (u < U n → u < U (k + 1)) ∧ (u = U n → k = n - 1) := by
  obtain ⟨hs, a1, a2⟩ := findSpanLinear_dom hU u hlo hhi
  refine ⟨_, findSpanBin_eq_linear p U n u tol hU.pn hU.mono hlo hhi ht.pos.le ht.sep, rfl, a1, a2, hs.lo, hs.hi,
    hs.nonempty, fun h => (findSpanLinear_halfopen hU.mono hU.pn u hlo h).2.1, ?_⟩
  intro h; rw [h]; exact findSpanLinear_right_end hU.mono hU.pn

/-- whatever is computed from the span: selecting the binary search gives the value computed from the linear search's
    span -/
theorem findSpanBin_map {α : Type} (F : ℕ → α) {p : ℕ} {U : ℕ → K} {n : ℕ} (hU : KnotsOk p U n) (u tol : K)
    (hlo : U p ≤ u) (hhi : u ≤ U n) (ht : BinTolOk U n u tol) :
    (findSpanBin p U n u tol).map F = some (F (findSpanLinear p U n u)) := by
  rw [findSpanBin_eq_linear p U n u tol hU.pn hU.mono hlo hhi ht.pos.le ht.sep]
  rfl

/-- **curves, `find_span_binsearch` selected, closed domain** -/
theorem curvePoint_binsearch (p : ℕ) (U : ℕ → K) (P : List (List K)) (u tol : K) (d : ℕ)
    (hU : KnotsOk p U P.length) (hP : NetOk d P) (hlo : U p ≤ u) (hhi : u ≤ U P.length)
    (ht : BinTolOk U P.length u tol) :
    ∃ k, findSpanBin p U P.length u tol = some k ∧
      curvePointAt p U P k u = curvePoint p U P u ∧
      (∀ j, (curvePointAt p U P k u).getD j 0 = ∑ i ∈ range P.length, cdbSpan U k p i u * (ptsGet P i).getD j 0) ∧
      (u < U P.length →
        ∀ j, (curvePointAt p U P k u).getD j 0 = ∑ i ∈ range P.length, cdb U p i u * (ptsGet P i).getD j 0) :=
  ⟨_, findSpanBin_eq_linear p U P.length u tol hU.pn hU.mono hlo hhi ht.pos.le ht.sep, rfl,
   fun j => curvePoint_eq_cdbSpan p U P u d j hU.pn hP,
   fun h j => curvePoint_eq_cdb p U P u d j hU.mono hU.pn hP hlo h⟩

/-- **rational curves, `find_span_binsearch` selected, closed domain, positive weights** -/
theorem curvePoint_rational_binsearch (p : ℕ) (U : ℕ → K) (Pw : List (List K)) (u tol : K) (d : ℕ)
    (hU : KnotsOk p U Pw.length) (hP : NetOk (d+1) Pw) (hlo : U p ≤ u) (hhi : u ≤ U Pw.length)
    (hwt : ∀ i, i < Pw.length → 0 < (ptsGet Pw i).getD d 0) (ht : BinTolOk U Pw.length u tol) :
    ∃ k, findSpanBin p U Pw.length u tol = some k ∧
      0 < (curvePointAt p U Pw k u).getD d 0 ∧
      ∀ j, j < d → (project (curvePointAt p U Pw k u)).getD j 0
        = (∑ i ∈ range Pw.length, cdbSpan U k p i u * (ptsGet Pw i).getD j 0)
          / (∑ i ∈ range Pw.length, cdbSpan U k p i u * (ptsGet Pw i).getD d 0) :=
  by
  obtain ⟨hs, a1, a2⟩ := findSpanLinear_dom hU u hlo hhi
  exact ⟨_, findSpanBin_eq_linear p U Pw.length u tol hU.pn hU.mono hlo hhi ht.pos.le ht.sep,
    curvePointAt_weight_pos p U Pw _ u d hs a1 a2 hP hwt,
    fun j hj => (curvePoint_rational_eq_cdbSpan p U Pw u d j hU hP hlo hhi hwt hj).2⟩

/-- **surfaces, `find_span_binsearch` selected in both directions, closed domain** -/
theorem surfacePoint_binsearch (pu pv : ℕ) (Uu Uv : ℕ → K) (su sv : ℕ) (P : List (List K)) (u v tol : K) (d : ℕ)
    (hUu : KnotsOk pu Uu su) (hUv : KnotsOk pv Uv sv) (hlen : P.length = su * sv) (hP : NetOk d P)
    (hu1 : Uu pu ≤ u) (hu2 : u ≤ Uu su) (hv1 : Uv pv ≤ v) (hv2 : v ≤ Uv sv)
    (htu : BinTolOk Uu su u tol) (htv : BinTolOk Uv sv v tol) :
    ∃ ku kv, findSpanBin pu Uu su u tol = some ku ∧ findSpanBin pv Uv sv v tol = some kv ∧
      surfacePointAt pu pv Uu Uv sv P ku kv u v = surfacePoint pu pv Uu Uv su sv P u v ∧
      (∀ j, (surfacePointAt pu pv Uu Uv sv P ku kv u v).getD j 0
        = ∑ a ∈ range su, ∑ b ∈ range sv,
            cdbSpan Uu ku pu a u * cdbSpan Uv kv pv b v * (ptsGet P (b + sv * a)).getD j 0) ∧
      (u < Uu su → v < Uv sv → ∀ j, (surfacePointAt pu pv Uu Uv sv P ku kv u v).getD j 0
        = ∑ a ∈ range su, ∑ b ∈ range sv, cdb Uu pu a u * cdb Uv pv b v * (ptsGet P (b + sv * a)).getD j 0) :=
  ⟨_, _, findSpanBin_eq_linear pu Uu su u tol hUu.pn hUu.mono hu1 hu2 htu.pos.le htu.sep,
   findSpanBin_eq_linear pv Uv sv v tol hUv.pn hUv.mono hv1 hv2 htv.pos.le htv.sep, rfl,
   fun j => surfacePoint_eq_cdbSpan pu pv Uu Uv su sv P u v d j hUu.pn hUv.pn hlen hP,
   fun h1 h2 j => surfacePoint_eq_cdb pu pv Uu Uv su sv P u v d j hUu.mono hUv.mono hUu.pn hUv.pn hlen hP
     hu1 h1 hv1 h2⟩

/-- **volumes, `find_span_binsearch` selected in the three directions, closed domain** -/
theorem volumePoint_binsearch (pu pv pw : ℕ) (Uu Uv Uw : ℕ → K) (su sv sw : ℕ) (P : List (List K))
    (u v w tol : K) (d : ℕ)
    (hUu : KnotsOk pu Uu su) (hUv : KnotsOk pv Uv sv) (hUw : KnotsOk pw Uw sw)
    (hlen : P.length = su * sv * sw) (hP : NetOk d P)
    (hu1 : Uu pu ≤ u) (hu2 : u ≤ Uu su) (hv1 : Uv pv ≤ v) (hv2 : v ≤ Uv sv) (hw1 : Uw pw ≤ w) (hw2 : w ≤ Uw sw)
    (htu : BinTolOk Uu su u tol) (htv : BinTolOk Uv sv v tol) (htw : BinTolOk Uw sw w tol) :
    ∃ ku kv kw, findSpanBin pu Uu su u tol = some ku ∧ findSpanBin pv Uv sv v tol = some kv ∧
      findSpanBin pw Uw sw w tol = some kw ∧
      volumePointAt pu pv pw Uu Uv Uw su sv P ku kv kw u v w = volumePoint pu pv pw Uu Uv Uw su sv sw P u v w ∧
      (∀ j, (volumePointAt pu pv pw Uu Uv Uw su sv P ku kv kw u v w).getD j 0
        = ∑ a ∈ range su, ∑ b ∈ range sv, ∑ c ∈ range sw,
            cdbSpan Uu ku pu a u * cdbSpan Uv kv pv b v * cdbSpan Uw kw pw c w *
              (ptsGet P (b + sv * (a + su * c))).getD j 0) ∧
      (u < Uu su → v < Uv sv → w < Uw sw → ∀ j, (volumePointAt pu pv pw Uu Uv Uw su sv P ku kv kw u v w).getD j 0
        = ∑ a ∈ range su, ∑ b ∈ range sv, ∑ c ∈ range sw,
            cdb Uu pu a u * cdb Uv pv b v * cdb Uw pw c w * (ptsGet P (b + sv * (a + su * c))).getD j 0) :=
  ⟨_, _, _, findSpanBin_eq_linear pu Uu su u tol hUu.pn hUu.mono hu1 hu2 htu.pos.le htu.sep,
   findSpanBin_eq_linear pv Uv sv v tol hUv.pn hUv.mono hv1 hv2 htv.pos.le htv.sep,
   findSpanBin_eq_linear pw Uw sw w tol hUw.pn hUw.mono hw1 hw2 htw.pos.le htw.sep, rfl,
   fun j => volumePoint_eq_cdbSpan pu pv pw Uu Uv Uw su sv sw P u v w d j hUu.pn hUv.pn hUw.pn hlen hP,
   fun h1 h2 h3 j => volumePoint_eq_cdb pu pv pw Uu Uv Uw su sv sw P u v w d j hUu.mono hUv.mono hUw.mono
     hUu.pn hUv.pn hUw.pn hlen hP hu1 h1 hv1 h2 hw1 h3⟩

/-- **curve derivatives, `find_span_binsearch` selected, closed domain**: both derivative evaluators as coded
    (`curveDersA32` = `CurveEvaluator`, the default; `curveDersAt` = `CurveEvaluator2`) on the span the binary search
    returns give the derivatives of the span polynomial of that span (at a knot: from the right; at the right end of the
    domain: from the left); `curveDersAt` on it is the model `curveDers`, its entry 0 the point -/
theorem curveDers_binsearch (p : ℕ) (U : ℕ → K) (P : List (List K)) (u tol : K) (d : ℕ)
    (hU : KnotsOk p U P.length) (hP : NetOk d P) (hlo : U p ≤ u) (hhi : u ≤ U P.length)
    (ht : BinTolOk U P.length u tol) :
    ∃ k, findSpanBin p U P.length u tol = some k ∧
      (∀ order, curveDersAt p U P k u order = curveDers p U P u order) ∧
      (∀ order, (curveDersAt p U P k u order).getD 0 [] = curvePointAt p U P k u) ∧
      (∀ order r j, r ≤ order →
        ((curveDersAt p U P k u order).getD r []).getD j 0 = eval u (derivative^[r] (spanPoly p U P k j))) ∧
      (∀ order r j, r ≤ order →
        ((curveDersA32 p U P k u order).getD r []).getD j 0 = eval u (derivative^[r] (spanPoly p U P k j))) := by
  obtain ⟨hs, a1, a2⟩ := findSpanLinear_dom hU u hlo hhi
  exact ⟨_, findSpanBin_eq_linear p U P.length u tol hU.pn hU.mono hlo hhi ht.pos.le ht.sep,
    fun _ => rfl, fun order => curveDersAt_head p U P _ u order a1,
    fun order r j hr => curveDersAt_all p U P _ u d j order r a1 a2 hP hU.mono hs.nonempty hr,
    fun order r j hr => curveDersA32_true p U P _ u d j order r a1 a2 hP hU.mono hs.nonempty hr⟩

end Geomdl
