import NurbsVerif.Lemmas.A54Step2

/-! The whole A5.4 loop: every pass of `while j >= 0` is ONE library insertion (`insertOne`) of `X[j]`
    into the represented curve, so `refineA54` is the fold of `insertOne` over `X` in DESCENDING order. -/
namespace Geomdl
open Blossom
variable {K : Type} [Field K] [LinearOrder K] [IsStrictOrderedRing K]

/-- one pass of the outer loop -/
theorem a54Outer_rep (p d : ℕ) (U : List K) (P : List (List K)) (nX a : ℕ) (V : List K) (Q : List (List K)) (j : ℕ)
    (x tol : K) (fuel : ℕ) (st : A54St K) (h : Rep p U P nX a st V Q (j+1))
    (hmU : Monotone (fnOf U)) (haP : a < P.length)
    (hwf : CurveWF p d V Q) (hreq : ReqOk p (V, Q) (x, 1, findMultiplicity x V tol)) (hcnt : V.count x ≤ p)
    (hsep : ∀ y ∈ V, y = x ∨ tol < |y - x|)
    (hx : x ≤ fnOf V (st.i + 1)) (hxa : fnOf U a ≤ x) (hxe : x < fnOf U P.length) (hfuel : st.i ≤ a + fuel) :
    Rep p U P nX a (a54Outer p (fnOf U) P a tol fuel st x)
      (insertOne p tol (V, Q) x).1 (insertOne p tol (V, Q) x).2 j ∧
    fnOf (insertOne p tol (V, Q) x).1 ((a54Outer p (fnOf U) P a tol fuel st x).i + 1) = x ∧
    ¬ (x ≤ fnOf U (a54Outer p (fnOf U) P a tol fuel st x).i ∧ a < (a54Outer p (fnOf U) P a tol fuel st x).i) := by
  obtain ⟨r1, r2, r3⟩ := a54Shift_rep p U P nX a V Q (j+1) (by omega) x fuel st h hx
  have r3 := r3 hfuel
  set s1 := a54Shift p (fnOf U) P x a fuel st with hs1
  have hi1 : fnOf V s1.i ≤ x := by
    rw [r1.VU _ (le_refl _)]
    by_cases c : a < s1.i
    · exact le_of_lt (not_le.mp (fun hc => r3 ⟨hc, c⟩))
    · have : s1.i = a := by have := r1.ai; omega
      rw [this]; exact hxa
  have hiP : s1.i < P.length := by
    by_cases c : a < s1.i
    · by_contra hc
      have h1 : fnOf U P.length ≤ fnOf U s1.i := hmU (by omega)
      exact r3 ⟨le_trans (le_of_lt hxe) h1, c⟩
    · have := r1.ai; omega
  have hrep := a54Insert_rep p d U P nX a V Q j x tol s1 r1 hwf hreq hcnt hsep hi1 r2 hiP
  obtain ⟨F1, _⟩ := insertOne_pos p d tol V Q x s1.i hwf hreq hcnt hi1 r2
  refine ⟨hrep, ?_, r3⟩
  show fnOf (insertOne p tol (V, Q) x).1 (s1.i + 1) = x
  rw [F1]; unfold Uh
  rw [if_neg (by omega), if_pos (by omega)]

theorem take_succ_reverse (X : List K) (j : ℕ) (hj : j < X.length) :
    (X.take (j+1)).reverse = X.getD j 0 :: (X.take j).reverse := by
  rw [List.take_succ, List.reverse_append]
  simp [List.getD_eq_getElem?_getD, List.getElem?_eq_getElem hj]

theorem mem_take_le (X : List K) (hsort : X.Pairwise (· ≤ ·)) (j : ℕ) (hj : j < X.length) :
    ∀ y ∈ X.take j, y ≤ X.getD j 0 := by
  intro y hy
  obtain ⟨n, hn, e⟩ := List.mem_iff_getElem.mp hy
  rw [List.length_take] at hn
  rw [List.getElem_take] at e
  rw [← e, List.getD_eq_getElem?_getD, List.getElem?_eq_getElem hj]
  exact (List.pairwise_iff_getElem.mp hsort) n j (by omega) hj (by omega)

/-- the loop, by induction on the number `j` of knots still to insert -/
theorem a54Loop_rep (p d : ℕ) (U : List K) (P : List (List K)) (X : List K) (a : ℕ) (tol : K) (fuel : ℕ)
    (hmU : Monotone (fnOf U)) (haP : a < P.length) (h0 : 0 ≤ tol)
    (S : List K) (hS : SepBy tol S) (hXS : ∀ y ∈ X, y ∈ S)
    (hsort : X.Pairwise (· ≤ ·)) (hdom : ∀ x ∈ X, fnOf U a ≤ x ∧ x < fnOf U P.length)
    (hX0 : X.getD 0 0 < fnOf U (a + 1)) (hfuel : U.length ≤ fuel) :
    ∀ (j : ℕ) (st : A54St K) (V : List K) (Q : List (List K)), j ≤ X.length →
      Rep p U P X.length a st V Q j → CurveWF p d V Q → RefineOk p tol (V, Q) (X.take j).reverse →
      (∀ y ∈ V, y ∈ S) → (∀ y ∈ X.take j, y ≤ fnOf V (st.i + 1)) →
      Rep p U P X.length a (a54Loop p (fnOf U) P X a tol fuel j st)
        ((X.take j).reverse.foldl (insertOne p tol) (V, Q)).1 ((X.take j).reverse.foldl (insertOne p tol) (V, Q)).2 0 ∧
      (1 ≤ j → (a54Loop p (fnOf U) P X a tol fuel j st).i = a) := by
  intro j
  induction j with
  | zero =>
    intro st V Q _ h _ _ _ _
    simp only [List.take_zero, List.reverse_nil, List.foldl_nil, a54Loop]
    exact ⟨h, fun hc => absurd hc (by omega)⟩
  | succ j ih =>
    intro st V Q hj h hwf hok hVS hle
    have hjl : j < X.length := by omega
    rw [take_succ_reverse X j hjl] at hok ⊢
    set x := X.getD j 0 with hx
    have hxX : x ∈ X := by
      rw [hx, List.getD_eq_getElem?_getD, List.getElem?_eq_getElem hjl]; exact List.getElem_mem _
    obtain ⟨hreq, hrest⟩ := hok
    have hsepV : ∀ y ∈ V, x = y ∨ tol < |x - y| := fun y hy => hS x (hXS x hxX) y (hVS y hy)
    have hmul : findMultiplicity x V tol = V.count x := findMultiplicity_eq_count tol h0 x V hsepV
    have hcnt : V.count x ≤ p := by
      have := hreq.2.2.2.2
      simp only at this
      rw [hmul] at this; omega
    have hsepV' : ∀ y ∈ V, y = x ∨ tol < |y - x| := by
      intro y hy
      rcases hsepV y hy with e | e
      · exact Or.inl e.symm
      · right; rw [abs_sub_comm]; exact e
    obtain ⟨hd1, hd2⟩ := hdom x hxX
    obtain ⟨r1, r2, r3⟩ := a54Outer_rep p d U P X.length a V Q j x tol fuel st h hmU haP hwf hreq hcnt hsepV'
      (hle x (by
        rw [hx, List.getD_eq_getElem?_getD, List.getElem?_eq_getElem hjl]
        exact List.mem_iff_getElem.mpr ⟨j, by rw [List.length_take]; omega, by rw [List.getElem_take]; rfl⟩))
      hd1 hd2 (by have := h.iU; omega)
    obtain ⟨hwf', _, _⟩ := insStep_wf p d (V, Q) _ hwf hreq
    rw [← insertOne_eq_insStep] at hwf'
    have hperm := insertOne_perm p tol (V, Q) x
    simp only [List.foldl_cons, a54Loop]
    rw [← hx]
    have hres := ih (a54Outer p (fnOf U) P a tol fuel st x) (insertOne p tol (V, Q) x).1 (insertOne p tol (V, Q) x).2
      (by omega) r1 hwf' hrest
      (fun y hy => by
        rcases List.mem_cons.mp (hperm.mem_iff.mp hy) with e | e
        · rw [e]; exact hXS x hxX
        · exact hVS y e)
      (fun y hy => by rw [r2]; exact mem_take_le X hsort j hjl y hy)
    refine ⟨hres.1, fun _ => ?_⟩
    rcases Nat.eq_zero_or_pos j with hj0 | hj0
    · subst hj0
      simp only [a54Loop]
      have hai := r1.ai
      by_contra hne
      have hlt : a < (a54Outer p (fnOf U) P a tol fuel st x).i := by omega
      apply r3
      refine ⟨?_, hlt⟩
      have : fnOf U (a + 1) ≤ fnOf U (a54Outer p (fnOf U) P a tol fuel st x).i := hmU (by omega)
      exact le_trans (le_of_lt hX0) this
    · exact hres.2 hj0

end Geomdl
