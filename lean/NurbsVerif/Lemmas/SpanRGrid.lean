import NurbsVerif.Model.SpanRGrid
import NurbsVerif.Lemmas.SpanREval
import NurbsVerif.Lemmas.Grid
import NurbsVerif.Lemmas.EvalSpec

/-!
  `evaluate_list` and the sampled grids through the REPAIRED span search (`curveGridR`, `surfaceGridR`, `volumeGridR`,
  `Model/SpanRGrid.lean`): size, ordering (first direction slowest), every entry is the R point evaluation at its
  parameter(s); under `KnotsOk` (non-empty last span), for parameter lists inside the closed domain, they ARE the grids of
  `Model/Grid.lean`; with the `linspace` parameter lists the first / last entry is the R evaluation at the start / end
  corner of the domain.
-/
set_option linter.unusedSectionVars false

namespace Geomdl
open List

/-! ### nested `flatMap`s: congruence, three levels -/

theorem flatMap_map_congr {α β γ : Type} (l : List α) (m : List β) (f g : α → β → γ)
    (h : ∀ a ∈ l, ∀ b ∈ m, f a b = g a b) :
    l.flatMap (fun a => m.map (f a)) = l.flatMap (fun a => m.map (g a)) := by
  induction l with
  | nil => rfl
  | cons a l ih =>
    simp only [List.flatMap_cons]
    rw [ih (fun a' ha' => h a' (List.mem_cons_of_mem _ ha'))]
    congr 1
    exact List.map_congr_left (fun b hb => h a (List.mem_cons_self) b hb)

theorem flatMap3_congr {α β γ δ : Type} (l : List α) (m : List β) (o : List γ) (f g : α → β → γ → δ)
    (h : ∀ a ∈ l, ∀ b ∈ m, ∀ c ∈ o, f a b c = g a b c) :
    l.flatMap (fun a => m.flatMap (fun b => o.map (f a b))) = l.flatMap (fun a => m.flatMap (fun b => o.map (g a b))) := by
  induction l with
  | nil => rfl
  | cons a l ih =>
    simp only [List.flatMap_cons]
    rw [ih (fun a' ha' => h a' (List.mem_cons_of_mem _ ha'))]
    congr 1
    exact flatMap_map_congr m o (f a) (g a) (fun b hb c hc => h a (List.mem_cons_self) b hb c hc)

theorem flatMap3_length {α β γ δ : Type} (l : List α) (m : List β) (o : List γ) (f : α → β → γ → δ) :
    (l.flatMap (fun a => m.flatMap (fun b => o.map (f a b)))).length = l.length * (m.length * o.length) := by
  induction l with
  | nil => simp
  | cons a l ih =>
    simp only [List.flatMap_cons, List.length_append, ih, List.length_cons]
    rw [flatMap_map_length]; ring

theorem flatMap3_getD {α β γ δ : Type} (l : List α) (m : List β) (o : List γ) (f : α → β → γ → δ)
    (dd : δ) (da : α) (db : β) (dc : γ) (i j k : ℕ) (hi : i < l.length) (hj : j < m.length) (hk : k < o.length) :
    (l.flatMap (fun a => m.flatMap (fun b => o.map (f a b)))).getD (i * (m.length * o.length) + (j * o.length + k)) dd
      = f (l.getD i da) (m.getD j db) (o.getD k dc) := by
  induction l generalizing i with
  | nil => simp at hi
  | cons a l ih =>
    simp only [List.flatMap_cons]
    have hin : j * o.length + k < m.length * o.length := by
      have : (j + 1) * o.length ≤ m.length * o.length := Nat.mul_le_mul_right _ hj
      have e : (j + 1) * o.length = j * o.length + o.length := by ring
      omega
    cases i with
    | zero =>
      simp only [Nat.zero_mul, Nat.zero_add]
      rw [List.getD_append _ _ _ _ (by rw [flatMap_map_length]; exact hin)]
      simp only [List.getD_cons_zero]
      exact flatMap_map_getD m o (f a) dd db dc j k hj hk
    | succ i =>
      have hl : (m.flatMap (fun b => o.map (f a b))).length = m.length * o.length := flatMap_map_length m o _
      rw [List.getD_append_right _ _ _ _ (by rw [hl]; nlinarith)]
      have e : (i + 1) * (m.length * o.length) + (j * o.length + k) - (m.length * o.length)
          = i * (m.length * o.length) + (j * o.length + k) := by
        have : (i + 1) * (m.length * o.length) = i * (m.length * o.length) + m.length * o.length := by ring
        omega
      rw [hl, e]
      simp only [List.getD_cons_succ]
      exact ih i (by simpa using hi)

/-- flat index of the last entry of a 2-level grid -/
theorem last_index2 (nu nv : ℕ) (hnu : 1 ≤ nu) (hnv : 1 ≤ nv) : (nu - 1) * nv + (nv - 1) = nu * nv - 1 := by
  obtain ⟨m, rfl⟩ : ∃ m, nu = m + 1 := ⟨nu - 1, by omega⟩
  obtain ⟨k, rfl⟩ : ∃ k, nv = k + 1 := ⟨nv - 1, by omega⟩
  simp only [Nat.add_sub_cancel]
  have : (m + 1) * (k + 1) = m * (k + 1) + k + 1 := by ring
  omega

/-- flat index of the last entry of a 3-level grid -/
theorem last_index3 (nu nv nw : ℕ) (hnu : 1 ≤ nu) (hnv : 1 ≤ nv) (hnw : 1 ≤ nw) :
    (nu - 1) * (nv * nw) + ((nv - 1) * nw + (nw - 1)) = nu * (nv * nw) - 1 := by
  rw [last_index2 nv nw hnv hnw]
  have hpos : 1 ≤ nv * nw := Nat.mul_pos hnv hnw
  exact last_index2 nu (nv * nw) hnu hpos

section model
variable {K : Type} [Add K] [Sub K] [Mul K] [Div K] [Neg K] [Zero K] [One K] [NatCast K]
  [LT K] [LE K] [DecidableRel (α := K) (· < ·)] [DecidableRel (α := K) (· ≤ ·)] [DecidableEq K]

/-! ### size and ordering -/

theorem curveGridR_length (rat : Bool) (p : ℕ) (U : ℕ → K) (P : List (List K)) (ks : List K) :
    (curveGridR rat p U P ks).length = ks.length := by
  simp [curveGridR]

theorem curveGridR_getD (rat : Bool) (p : ℕ) (U : ℕ → K) (P : List (List K)) (ks : List K) (i : ℕ)
    (hi : i < ks.length) :
    (curveGridR rat p U P ks).getD i [] = projIf rat (curvePointR p U P (ks.getD i 0)) := by
  simp [curveGridR, List.getD_eq_getElem?_getD, List.getElem?_map, hi]

theorem surfaceGridR_length (rat : Bool) (pu pv : ℕ) (Uu Uv : ℕ → K) (su sv : ℕ) (P : List (List K))
    (kus kvs : List K) :
    (surfaceGridR rat pu pv Uu Uv su sv P kus kvs).length = kus.length * kvs.length :=
  flatMap_map_length kus kvs _

theorem surfaceGridR_getD (rat : Bool) (pu pv : ℕ) (Uu Uv : ℕ → K) (su sv : ℕ) (P : List (List K))
    (kus kvs : List K) (i j : ℕ) (hi : i < kus.length) (hj : j < kvs.length) :
    (surfaceGridR rat pu pv Uu Uv su sv P kus kvs).getD (i * kvs.length + j) []
      = projIf rat (surfacePointR pu pv Uu Uv su sv P (kus.getD i 0) (kvs.getD j 0)) :=
  flatMap_map_getD kus kvs (fun u v => projIf rat (surfacePointR pu pv Uu Uv su sv P u v)) [] 0 0 i j hi hj

theorem volumeGridR_length (rat : Bool) (pu pv pw : ℕ) (Uu Uv Uw : ℕ → K) (su sv sw : ℕ) (P : List (List K))
    (kus kvs kws : List K) :
    (volumeGridR rat pu pv pw Uu Uv Uw su sv sw P kus kvs kws).length = kus.length * (kvs.length * kws.length) :=
  flatMap3_length kus kvs kws _

theorem volumeGridR_getD (rat : Bool) (pu pv pw : ℕ) (Uu Uv Uw : ℕ → K) (su sv sw : ℕ) (P : List (List K))
    (kus kvs kws : List K) (i j k : ℕ) (hi : i < kus.length) (hj : j < kvs.length) (hk : k < kws.length) :
    (volumeGridR rat pu pv pw Uu Uv Uw su sv sw P kus kvs kws).getD (i * (kvs.length * kws.length) + (j * kws.length + k)) []
      = projIf rat (volumePointR pu pv pw Uu Uv Uw su sv sw P (kus.getD i 0) (kvs.getD j 0) (kws.getD k 0)) :=
  flatMap3_getD kus kvs kws (fun u v w => projIf rat (volumePointR pu pv pw Uu Uv Uw su sv sw P u v w)) [] 0 0 0
    i j k hi hj hk

end model

variable {K : Type} [Field K] [LinearOrder K] [IsStrictOrderedRing K]

/-! ### the R grids ARE the grids of `Model/Grid.lean` under `KnotsOk`, parameters in the closed domain -/

theorem curveGridR_eq_curveGrid (rat : Bool) (p : ℕ) (U : ℕ → K) (P : List (List K)) (ks : List K)
    (hU : KnotsOk p U P.length) (hks : ∀ u ∈ ks, U p ≤ u ∧ u ≤ U P.length) :
    curveGridR rat p U P ks = curveGrid rat p U P ks := by
  unfold curveGridR curveGrid
  apply List.map_congr_left
  intro u hu
  rw [curvePointR_eq_curvePoint p U P u hU (hks u hu).1 (hks u hu).2]

theorem surfaceGridR_eq_surfaceGrid (rat : Bool) (pu pv : ℕ) (Uu Uv : ℕ → K) (su sv : ℕ) (P : List (List K))
    (kus kvs : List K) (hUu : KnotsOk pu Uu su) (hUv : KnotsOk pv Uv sv)
    (hkus : ∀ u ∈ kus, Uu pu ≤ u ∧ u ≤ Uu su) (hkvs : ∀ v ∈ kvs, Uv pv ≤ v ∧ v ≤ Uv sv) :
    surfaceGridR rat pu pv Uu Uv su sv P kus kvs = surfaceGrid rat pu pv Uu Uv su sv P kus kvs := by
  unfold surfaceGridR surfaceGrid
  apply flatMap_map_congr
  intro u hu v hv
  rw [surfacePointR_eq_surfacePoint pu pv Uu Uv su sv P u v hUu hUv (hkus u hu).1 (hkus u hu).2 (hkvs v hv).1 (hkvs v hv).2]

theorem volumeGridR_eq_volumeGrid (rat : Bool) (pu pv pw : ℕ) (Uu Uv Uw : ℕ → K) (su sv sw : ℕ) (P : List (List K))
    (kus kvs kws : List K) (hUu : KnotsOk pu Uu su) (hUv : KnotsOk pv Uv sv) (hUw : KnotsOk pw Uw sw)
    (hkus : ∀ u ∈ kus, Uu pu ≤ u ∧ u ≤ Uu su) (hkvs : ∀ v ∈ kvs, Uv pv ≤ v ∧ v ≤ Uv sv)
    (hkws : ∀ w ∈ kws, Uw pw ≤ w ∧ w ≤ Uw sw) :
    volumeGridR rat pu pv pw Uu Uv Uw su sv sw P kus kvs kws = volumeGrid rat pu pv pw Uu Uv Uw su sv sw P kus kvs kws := by
  unfold volumeGridR volumeGrid
  apply flatMap3_congr
  intro u hu v hv w hw
  rw [volumePointR_eq_volumePoint pu pv pw Uu Uv Uw su sv sw P u v w hUu hUv hUw (hkus u hu).1 (hkus u hu).2
    (hkvs v hv).1 (hkvs v hv).2 (hkws w hw).1 (hkws w hw).2]

/-! ### zeroth derivative = the R point -/

theorem curveDersR_head (p : ℕ) (U : ℕ → K) (P : List (List K)) (u : K) (order : ℕ) (hpn : p + 1 ≤ P.length) :
    (curveDersR p U P u order).getD 0 [] = curvePointR p U P u :=
  curveDersAt_head p U P _ u order (findSpanLinearR_bounds p U _ u hpn).1

/-! ### the `linspace` parameter lists: inside the closed interval, and the grid corners -/

/-- every sample of `linspaceCore a b n` (`n ≥ 2`, `a < b`) lies in `[a, b]` -/
theorem linspaceCore_mem_Icc (a b : K) (n : ℕ) (hab : a < b) (hn : 2 ≤ n) (u : K) (hu : u ∈ linspaceCore a b n) :
    a ≤ u ∧ u ≤ b := by
  obtain ⟨i, hi, rfl⟩ := List.mem_iff_getElem.mp hu
  rw [linspaceCore_length] at hi
  have e : (linspaceCore a b n)[i] = (linspaceCore a b n).getD i 0 := by
    simp [List.getD_eq_getElem?_getD, List.getElem?_eq_getElem, linspaceCore_length, hi]
  rw [e]
  constructor
  · rcases Nat.eq_zero_or_pos i with h0 | h0
    · rw [h0, linspaceCore_first a b n (by omega)]
    · have := linspaceCore_strictMono a b n 0 i hab h0 hi
      rw [linspaceCore_first a b n (by omega)] at this
      exact le_of_lt this
  · rcases Nat.lt_or_ge i (n - 1) with h1 | h1
    · have := linspaceCore_strictMono a b n i (n - 1) hab h1 (by omega)
      rw [linspaceCore_last a b n hn] at this
      exact le_of_lt this
    · have : i = n - 1 := by omega
      rw [this, linspaceCore_last a b n hn]

theorem curveGridR_ends (rat : Bool) (p : ℕ) (U : ℕ → K) (P : List (List K)) (a b : K) (n : ℕ) (hn : 2 ≤ n) :
    (curveGridR rat p U P (linspaceCore a b n)).getD 0 [] = projIf rat (curvePointR p U P a) ∧
    (curveGridR rat p U P (linspaceCore a b n)).getD (n - 1) [] = projIf rat (curvePointR p U P b) := by
  have l := linspaceCore_length a b n
  constructor
  · rw [curveGridR_getD rat p U P _ 0 (by omega), linspaceCore_first a b n (by omega)]
  · rw [curveGridR_getD rat p U P _ (n - 1) (by omega), linspaceCore_last a b n hn]

theorem surfaceGridR_corners (rat : Bool) (pu pv : ℕ) (Uu Uv : ℕ → K) (su sv : ℕ) (P : List (List K))
    (a b c d : K) (nu nv : ℕ) (hnu : 2 ≤ nu) (hnv : 2 ≤ nv) :
    (surfaceGridR rat pu pv Uu Uv su sv P (linspaceCore a b nu) (linspaceCore c d nv)).getD 0 []
      = projIf rat (surfacePointR pu pv Uu Uv su sv P a c) ∧
    (surfaceGridR rat pu pv Uu Uv su sv P (linspaceCore a b nu) (linspaceCore c d nv)).getD (nu * nv - 1) []
      = projIf rat (surfacePointR pu pv Uu Uv su sv P b d) := by
  have lu := linspaceCore_length a b nu
  have lv := linspaceCore_length c d nv
  constructor
  · have h := surfaceGridR_getD rat pu pv Uu Uv su sv P (linspaceCore a b nu) (linspaceCore c d nv) 0 0
      (by omega) (by omega)
    rw [linspaceCore_first a b nu (by omega), linspaceCore_first c d nv (by omega)] at h
    simpa using h
  · have h := surfaceGridR_getD rat pu pv Uu Uv su sv P (linspaceCore a b nu) (linspaceCore c d nv) (nu - 1) (nv - 1)
      (by omega) (by omega)
    rw [linspaceCore_last a b nu hnu, linspaceCore_last c d nv hnv, lv, last_index2 nu nv (by omega) (by omega)] at h
    exact h

theorem volumeGridR_corners (rat : Bool) (pu pv pw : ℕ) (Uu Uv Uw : ℕ → K) (su sv sw : ℕ) (P : List (List K))
    (a b c d e f : K) (nu nv nw : ℕ) (hnu : 2 ≤ nu) (hnv : 2 ≤ nv) (hnw : 2 ≤ nw) :
    (volumeGridR rat pu pv pw Uu Uv Uw su sv sw P (linspaceCore a b nu) (linspaceCore c d nv) (linspaceCore e f nw)).getD 0 []
      = projIf rat (volumePointR pu pv pw Uu Uv Uw su sv sw P a c e) ∧
    (volumeGridR rat pu pv pw Uu Uv Uw su sv sw P (linspaceCore a b nu) (linspaceCore c d nv) (linspaceCore e f nw)).getD
        (nu * (nv * nw) - 1) []
      = projIf rat (volumePointR pu pv pw Uu Uv Uw su sv sw P b d f) := by
  have lu := linspaceCore_length a b nu
  have lv := linspaceCore_length c d nv
  have lw := linspaceCore_length e f nw
  constructor
  · have h := volumeGridR_getD rat pu pv pw Uu Uv Uw su sv sw P (linspaceCore a b nu) (linspaceCore c d nv)
      (linspaceCore e f nw) 0 0 0 (by omega) (by omega) (by omega)
    rw [linspaceCore_first a b nu (by omega), linspaceCore_first c d nv (by omega),
      linspaceCore_first e f nw (by omega)] at h
    simpa using h
  · have h := volumeGridR_getD rat pu pv pw Uu Uv Uw su sv sw P (linspaceCore a b nu) (linspaceCore c d nv)
      (linspaceCore e f nw) (nu - 1) (nv - 1) (nw - 1) (by omega) (by omega) (by omega)
    rw [linspaceCore_last a b nu hnu, linspaceCore_last c d nv hnv, linspaceCore_last e f nw hnw, lv, lw,
      last_index3 nu nv nw (by omega) (by omega) (by omega)] at h
    exact h

end Geomdl
