import NurbsVerif.Lemmas.A51LoopsCor
import NurbsVerif.Lemmas.KnotRowsIns
import NurbsVerif.Lemmas.InsertObjDir
import NurbsVerif.Lemmas.ObjFoldCongr
import NurbsVerif.Model.KnotOpsCoded

/-! `operations.insert_knot` at object level with the loops of `helpers.knot_insertion` AS CODED
    (`insertKnotDirCoded`, `insertKnotCoded`: `knotInsertionA51` on every iso-curve of a curve / surface,
    `knotInsertionRowsA51` on the list of rows of a volume) = the model (`insertKnotDir`, `insertKnot`). -/
namespace Geomdl
set_option linter.unusedSectionVars false
variable {K : Type} [Field K] [LinearOrder K] [IsStrictOrderedRing K]

/-- **one direction**: the guard of the literal transcriptions (`degree ≤ span`, `num + s ≤ degree`) follows from
    `degree + 1 ≤ size` (the span search returns a span `≥ degree`) and from the multiplicity check (`check`), or from
    `hrs` when the check is switched off -/
theorem insertKnotDirCoded_eq (S : Shape K) (dir : ℕ) (u : K) (r : ℕ) (tol : K) (check : Bool)
    (hpn : S.deg dir + 1 ≤ S.size dir)
    (hrs : check = false → r + findMultiplicity u (S.kv dir) tol ≤ S.deg dir)
    (h3 : S.pdim = 3 → dir < 3 ∧ 0 < S.size 0 ∧ 0 < S.size 1 ∧ 0 < S.size 2) :
    insertKnotDirCoded S dir u r tol check = insertKnotDir S dir u r tol check := by
  by_cases hc : check = true ∧ r + findMultiplicity u (S.kv dir) tol > S.deg dir
  · unfold insertKnotDirCoded insertKnotDir
    simp only []
    rw [if_pos hc, if_pos hc]
  · have hrs' : r + findMultiplicity u (S.kv dir) tol ≤ S.deg dir := by
      cases check with
      | false => exact hrs rfl
      | true => simp at hc; exact hc
    have hspan := findSpanLinear_range (S.deg dir) (fnOf (S.kv dir)) (S.size dir) u hpn
    by_cases hp3 : S.pdim = 3
    · obtain ⟨hdir, hsu, hsv, hsw⟩ := h3 hp3
      rw [← Rows.insertKnotVolRows_eq S dir u r tol check hp3 hdir hsu hsv hsw hpn hrs]
      unfold insertKnotDirCoded insertKnotVolRows
      simp only []
      rw [if_neg hc, if_neg hc, if_pos hp3, knotInsertionRowsA51_fun_eq _ _ _ _ _ _ hspan.1 hrs']
    · unfold insertKnotDirCoded insertKnotDir
      simp only []
      rw [if_neg hc, if_neg hc, if_neg hp3, knotInsertionA51_fun_eq _ _ _ _ _ _ hspan.1 hrs']

/-- the loop body of `insertKnotCoded` -/
abbrev insKnotStepCoded (params : List (Option K)) (nums : List ℕ) (tol : K) (check : Bool)
    (acc : Shape K × Bool) (d : ℕ) : Shape K × Bool :=
  if acc.2 = false then acc else
    match params.getD d none with
    | none => acc
    | some u =>
      if nums.getD d 0 = 0 then acc
      else match insertKnotDirCoded acc.1 d u (nums.getD d 0) tol check with
        | some S' => (S', true)
        | none => (acc.1, false)

theorem insertKnotCoded_eq (S : Shape K) (params : List (Option K)) (nums : List ℕ) (tol : K) (check : Bool) :
    insertKnotCoded S params nums tol check
      = (List.range S.pdim).foldl (insKnotStepCoded params nums tol check) (S, true) := rfl

/-- one step of the two loops agrees when the direction step agrees -/
theorem insKnotStepCoded_eq (T : Shape K) (b : Bool) (dir : ℕ) (params : List (Option K)) (nums : List ℕ)
    (tol : K) (check : Bool)
    (h : ∀ u, params.getD dir none = some u → nums.getD dir 0 ≠ 0 →
      insertKnotDirCoded T dir u (nums.getD dir 0) tol check = insertKnotDir T dir u (nums.getD dir 0) tol check) :
    insKnotStepCoded params nums tol check (T, b) dir = insKnotStep params nums tol check (T, b) dir := by
  unfold insKnotStepCoded insKnotStep
  cases b with
  | false => rfl
  | true =>
    simp only [Bool.true_eq_false, if_false]
    cases hp : params.getD dir none with
    | none => rfl
    | some u =>
      simp only []
      by_cases hn : nums.getD dir 0 = 0
      · rw [if_pos hn, if_pos hn]
      · rw [if_neg hn, if_neg hn, h u hp hn]
        cases insertKnotDir T dir u (nums.getD dir 0) tol check <;> rfl

/-- the guard of the literal transcriptions from an admissible or rejected request -/
theorem insertKnotDirCoded_eq_of_req (T : Shape K) (dir : ℕ) (u : K) (r : ℕ) (tol : K) (check : Bool)
    (hpn : T.deg dir + 1 ≤ T.size dir)
    (hq : DirReqOk T dir u r tol ∨ DirRejected T dir u r tol check)
    (h3 : T.pdim = 3 → dir < 3 ∧ 0 < T.size 0 ∧ 0 < T.size 1 ∧ 0 < T.size 2) :
    insertKnotDirCoded T dir u r tol check = insertKnotDir T dir u r tol check := by
  apply insertKnotDirCoded_eq T dir u r tol check hpn _ h3
  intro hc
  rcases hq with hq | hq
  · exact hq.rs
  · rw [hq.1] at hc; cases hc

/-- **one `insert_knot` call on a surface, the helper as coded = the model** (any subset of the two directions,
    every requested direction admissible or rejected by the multiplicity check) -/
theorem insertKnotCoded_surface_any (d : ℕ) (S : Shape K) (hS : SurfWF d S) (params : List (Option K)) (nums : List ℕ)
    (tol : K) (check : Bool) (hreq : CallOkOrRej 2 S params nums tol check) :
    insertKnotCoded S params nums tol check = insertKnot S params nums tol check := by
  rw [insertKnotCoded_eq, insertKnot_eq]
  apply dirFold_surface_congr d S hS (insKnotStep params nums tol check) (insKnotStepCoded params nums tol check)
  · intro T b dir hdir hT hdegs _ hkv hsz
    exact insKnotStep_any d T b dir params nums tol check (hT.dir dir hdir)
      (fun u hp hn => (hreq dir hdir u hp hn).imp (dirReqOk_transfer S T dir u _ tol hdegs hkv hsz)
        (dirRejected_transfer S T dir u _ tol check hdegs hkv))
  · intro T b dir hdir hT hdegs _ hkv hsz
    apply insKnotStepCoded_eq
    intro u hp hn
    exact insertKnotDirCoded_eq_of_req T dir u _ tol check (hT.dir dir hdir).pn
      ((hreq dir hdir u hp hn).imp (dirReqOk_transfer S T dir u _ tol hdegs hkv hsz)
        (dirRejected_transfer S T dir u _ tol check hdegs hkv))
      (fun h3 => absurd (show T.pdim = 2 from hT.degs) (by omega))

theorem insertKnotCoded_surface (d : ℕ) (S : Shape K) (hS : SurfWF d S) (params : List (Option K)) (nums : List ℕ)
    (tol : K) (check : Bool) (hreq : CallOk 2 S params nums tol) :
    insertKnotCoded S params nums tol check = insertKnot S params nums tol check :=
  insertKnotCoded_surface_any d S hS params nums tol check (fun dir hdir u hp hn => Or.inl (hreq dir hdir u hp hn))

/-- **one `insert_knot` call on a volume, the helper as coded (rows branch) = the model** -/
theorem insertKnotCoded_volume_any (d : ℕ) (S : Shape K) (hS : VolWF d S) (params : List (Option K)) (nums : List ℕ)
    (tol : K) (check : Bool) (hreq : CallOkOrRej 3 S params nums tol check) :
    insertKnotCoded S params nums tol check = insertKnot S params nums tol check := by
  rw [insertKnotCoded_eq, insertKnot_eq]
  apply dirFold_volume_congr d S hS (insKnotStep params nums tol check) (insKnotStepCoded params nums tol check)
  · intro T b dir hdir hT hdegs _ hkv hsz
    exact insKnotStep_any d T b dir params nums tol check (hT.dir dir hdir)
      (fun u hp hn => (hreq dir hdir u hp hn).imp (dirReqOk_transfer S T dir u _ tol hdegs hkv hsz)
        (dirRejected_transfer S T dir u _ tol check hdegs hkv))
  · intro T b dir hdir hT hdegs _ hkv hsz
    apply insKnotStepCoded_eq
    intro u hp hn
    exact insertKnotDirCoded_eq_of_req T dir u _ tol check (hT.dir dir hdir).pn
      ((hreq dir hdir u hp hn).imp (dirReqOk_transfer S T dir u _ tol hdegs hkv hsz)
        (dirRejected_transfer S T dir u _ tol check hdegs hkv))
      (fun _ => ⟨hdir, by have := hT.dir0.pn; omega, by have := hT.dir1.pn; omega, by have := hT.dir2.pn; omega⟩)

theorem insertKnotCoded_volume (d : ℕ) (S : Shape K) (hS : VolWF d S) (params : List (Option K)) (nums : List ℕ)
    (tol : K) (check : Bool) (hreq : CallOk 3 S params nums tol) :
    insertKnotCoded S params nums tol check = insertKnot S params nums tol check :=
  insertKnotCoded_volume_any d S hS params nums tol check (fun dir hdir u hp hn => Or.inl (hreq dir hdir u hp hn))

/-- **one `insert_knot` call on a curve object, the helper as coded = the model**: one direction, one step; with the
    multiplicity check on, nothing else is needed than `degree + 1 ≤ size` -/
theorem insertKnotCoded_curve (S : Shape K) (h1 : S.pdim = 1) (hpn : S.deg 0 + 1 ≤ S.size 0)
    (params : List (Option K)) (nums : List ℕ) (tol : K) (check : Bool)
    (hrs : check = false → ∀ u, params.getD 0 none = some u →
      nums.getD 0 0 + findMultiplicity u (S.kv 0) tol ≤ S.deg 0) :
    insertKnotCoded S params nums tol check = insertKnot S params nums tol check := by
  rw [insertKnotCoded_eq, insertKnot_eq, h1, show List.range 1 = [0] from rfl]
  simp only [List.foldl_cons, List.foldl_nil]
  apply insKnotStepCoded_eq
  intro u hp _
  exact insertKnotDirCoded_eq S 0 u _ tol check hpn (fun hc => hrs hc u hp) (fun h3 => absurd h3 (by omega))

end Geomdl
